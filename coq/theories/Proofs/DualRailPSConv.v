(* C12 with allow_post_selection = True: every output of the converted circuit that the returned
   post-selection rules accept is a dual-rail state with amplitude (product of the gate scalars) *
   (the source program's unitary), or has amplitude 0.  Induction over the SOURCE program with the
   invariant [dr_acts_ps] of Proofs/DualRailPS.v for the set of "dead" qubits
   dead rest q = q is used by a multi-qubit instruction of the program and by none of [rest]. *)
From Coq Require Import ZArith NArith List Bool Arith Lia Permutation Ring_theory Ring.
From LW Require Import Base.Sx Base.Num Base.Sums Base.Mat Model.State Model.Circuit Model.World Model.Fock Model.Gates
     Model.Convert Proofs.StateP Proofs.PermP Proofs.FockUnitP Proofs.CircuitP Proofs.AddP Proofs.DisplayP
     Proofs.WiringDefs Proofs.WiringMat Proofs.WiringP Proofs.WiringAmpFock Proofs.GatesP Proofs.ConvertP
     Proofs.DualRailDefs Proofs.DualRailSem Proofs.DualRailPSSem Proofs.DualRailSwap Proofs.DualRailFull Proofs.DualRailStep
     Proofs.DualRailP Proofs.DualRailConv Proofs.DualRailPSStep Proofs.DualRailPS.
Import ListNotations.
Open Scope nat_scope.

Lemma transp_lt' qa qb k j : qa < k -> qb < k -> j < k -> transp qa qb j < k.
Proof. intros Ha Hb Hj. unfold transp. destruct (j =? qa); [exact Hb|]. destruct (j =? qb); assumption. Qed.
Lemma transp_invol' qa qb j : transp qa qb (transp qa qb j) = j.
Proof.
  unfold transp. destruct (Nat.eqb_spec j qa) as [->|H1].
  - destruct (Nat.eqb_spec qb qa) as [->|H2]; [reflexivity|]. rewrite Nat.eqb_refl. reflexivity.
  - destruct (Nat.eqb_spec j qb) as [->|H2].
    + rewrite Nat.eqb_refl. reflexivity.
    + destruct (Nat.eqb_spec j qa); [contradiction|]. destruct (Nat.eqb_spec j qb); [contradiction|]. reflexivity.
Qed.

Section PSConv.
  Context {K : Type} (o : ops K) {SRK : StarRing o} {ZMK : ZMorph o}.
  Notation T := (K * K)%type.
  Notation cq := (co o).
  Notation circ := (@circ K).
  Notation e0 := (env0 o).
  Variable ninv : nat -> T.
  Hypothesis ninv_spec : forall k, 0 < k -> kmul cq (kofnat cq k) (ninv k) = k1 cq.
  Variables (h r2 r3i qi gm r7 : K) (ang : nat -> K * K).
  Hypothesis Hh : kmul o h h = kq o 1 2.

  Notation gate_of := (gate_of o h r2 r3i qi gm r7 ang).
  Notation emit_step := (emit_step o h r2 r3i qi gm r7 ang).
  Notation run_emitted := (run_emitted o h r2 r3i qi gm r7 ang).
  Notation Vs := (Vs o).
  Notation m1 := (m1 o h ang).
  Notation acts := (dr_acts_ps o e0).

  (* ---------------------------------------------------------------- *)
  (* SWAP on arbitrary Fock states                                     *)
  (* ---------------------------------------------------------------- *)
  Lemma swap_amp_general qa qb gt : qa <> qb ->
    gate_SWAP o (zq (2 * qa) (2 * qa + 1)) (zq (2 * qb) (2 * qb + 1)) = Ok gt ->
    let k := S (Nat.max qa qb) in
    forall xs ys, length xs = 2 * k -> length ys = 2 * k ->
      amp_perm (cplx o) (g_U gt) xs ys =
      if nlist_eqb ys (map (fun i => nth (swap_perm (2 * qa) (2 * qa + 1) (2 * qb) (2 * qb + 1) i) xs 0) (seq 0 (2 * k)))
      then kofnat (cplx o) (fact_prod xs) else k0 (cplx o).
  Proof.
    intros Hab Hg k xs ys Lx Ly.
    assert (ND : NoDup [2 * qa; 2 * qa + 1; 2 * qb; 2 * qb + 1]) by (repeat constructor; simpl; lia).
    destruct (gate_SWAP_circ o (2 * qa) (2 * qa + 1) (2 * qb) (2 * qb + 1) ND) as [gt' [Hg' [_ [_ HU]]]].
    rewrite Hg' in Hg. injection Hg as <-.
    assert (En : S (Nat.max (Nat.max (Nat.max (2 * qa) (2 * qa + 1)) (2 * qb)) (2 * qb + 1)) = 2 * k)
      by (unfold k; lia).
    rewrite En in HU. unfold amp_perm.
    rewrite (perm_ml_meq (2 * k) _ _ _ _ HU).
    2:{ intros a Ha'. apply expand_from_bounds in Ha'. lia. }
    2:{ intros a Ha'. apply expand_from_bounds in Ha'. lia. }
    apply (amp_perm_perm_mat o (2 * k) _ xs ys); try assumption.
    - intros i Hi. apply swap_perm_dr_lt; try assumption; unfold k; lia.
    - intros i _. apply swap_perm_dr_invol. exact Hab.
  Qed.

  Lemma swap_kill qa qb gt (Dd : nat -> bool) i : qa <> qb ->
    gate_SWAP o (zq (2 * qa) (2 * qa + 1)) (zq (2 * qb) (2 * qb + 1)) = Ok gt ->
    i < S (Nat.max qa qb) -> Dd i = true ->
    blk_kill o e0 (g_circ gt) (S (Nat.max qa qb)) 0 (fun p => Dd (transp qa qb p)) i.
  Proof.
    intros Hab Hg Hi HD. set (k := S (Nat.max qa qb)) in *.
    destruct (swap_gate_dual_rail o qa qb Hab) as (gt' & Hg' & Hn & Hin & Hout & _ & Hb & _).
    rewrite Hg in Hg'. injection Hg' as <-. cbv zeta in Hn, Hb. fold k in Hn, Hb.
    intros US HbU w_in w_out xs ys L1 L2 Fx Fy Hc Hok.
    rewrite Hn in HbU. rewrite Hb in HbU. injection HbU as <-.
    rewrite Hn, Hin in Fx. rewrite Hn, Hout in Fy.
    rewrite (full_st_nil _ _ _ L1 Fx), (full_st_nil _ _ _ L2 Fy).
    assert (HA := swap_amp_general qa qb gt Hab Hg w_in w_out L1 L2). cbv zeta in HA. fold k in HA.
    change (amp_perm cq (g_U gt) w_in w_out) with (amp_perm (cplx o) (g_U gt) w_in w_out). rewrite HA.
    destruct (nlist_eqb w_out _) eqn:E; [|reflexivity]. exfalso. apply nlist_eqb_eq in E.
    set (j := transp qa qb i).
    assert (Hj : j < k) by (apply transp_lt'; unfold k in *; lia).
    assert (Ej : transp qa qb j = i) by apply transp_invol'.
    assert (C : cnt w_out j = cnt w_in i).
    { unfold cnt. rewrite E.
      assert (N : forall p, p < 2 * k ->
                  nth p (map (fun i0 => nth (swap_perm (2 * qa) (2 * qa + 1) (2 * qb) (2 * qb + 1) i0) w_in 0) (seq 0 (2 * k))) 0
                  = nth (swap_perm (2 * qa) (2 * qa + 1) (2 * qb) (2 * qb + 1) p) w_in 0).
      { intros p Hp.
        rewrite (nth_indep _ 0 (nth (swap_perm (2 * qa) (2 * qa + 1) (2 * qb) (2 * qb + 1) 0) w_in 0))
          by (rewrite map_length, seq_length; exact Hp).
        rewrite (map_nth (fun i0 => nth (swap_perm (2 * qa) (2 * qa + 1) (2 * qb) (2 * qb + 1) i0) w_in 0)).
        rewrite seq_nth by exact Hp. reflexivity. }
      rewrite !N by lia.
      pose proof (swap_perm_dual_rail qa qb j 0 Hab ltac:(lia)) as P0.
      pose proof (swap_perm_dual_rail qa qb j 1 Hab ltac:(lia)) as P1.
      rewrite !Nat.add_0_r in P0. rewrite Ej in P0, P1. rewrite P0, P1. reflexivity. }
    apply Hc. rewrite <- C. apply (Hok j Hj). cbn [Nat.add]. rewrite Ej. exact HD.
  Qed.

  (* ---------------------------------------------------------------- *)
  (* one emitted operation                                             *)
  (* ---------------------------------------------------------------- *)
  Lemma single_gate_ok g i m : is_single g = true \/ is_rot g = true ->
    exists gt, gate_of (EGate1 g i m) = Ok gt /\ gate_ok o e0 (g_circ gt) 1 (k1 cq) (m1 g (pidx g i)).
  Proof.
    intros [Hs|Hr].
    - destruct (sq_of_single g Hs) as [s' Es].
      destruct (unitary2_gate_ok o (sq_rows o h s')) as (gt & Hgt & _ & Hok).
      exists gt. split; [cbn [DualRailConv.gate_of]; rewrite Es; exact Hgt|].
      eapply gate_ok_ext; [|exact Hok]. intros b b' _ _. unfold DualRailConv.m1, m1_of. rewrite Es.
      apply (sq_rows_named o h Hh); apply idx1_lt.
    - destruct (rq_of_rot g Hr) as [En [r' Er]].
      destruct (unitary2_gate_ok o (rq_rows o r' (fst (ang i)) (snd (ang i)))) as (gt & Hgt & _ & Hok).
      exists gt. split; [cbn [DualRailConv.gate_of]; rewrite En, Er; exact Hgt|].
      eapply gate_ok_ext; [|exact Hok]. intros b b' _ _. unfold DualRailConv.m1, m1_of, pidx. rewrite En, Er, Hr.
      apply (rq_rows_named o); apply idx1_lt.
  Qed.

  Lemma step_single nq g i q (c : circ) s Kc Dd :
    q < nq -> is_single g = true \/ is_rot g = true -> acts c nq Kc (Vs s) Dd ->
    exists c', emit_step c (EGate1 g i (2 * q)) = Ok c' /\
               acts c' nq (kmul cq Kc (k1 cq)) (Vs (den sst (sact cq m1) ssw (EGate1 g i (2 * q)) s)) Dd.
  Proof.
    intros Hq Hg HA. pose proof HA as (Sh & _).
    destruct (single_gate_ok g i (2 * q) Hg) as (gt & Hgt & Hok).
    pose proof Hok as (W & _ & _ & HnS & HlS & HvS & _).
    destruct (block_accept o c (g_circ gt) nq q 1 false Sh HnS ltac:(lia) ltac:(lia)) as [c' Hc'].
    exists c'. split; [unfold DualRailConv.emit_step; rewrite Hgt; cbn [bind op_mode]; exact Hc'|].
    pose proof (block_step_ps o ninv ninv_spec e0 c (g_circ gt) c' nq q 1 Kc (k1 cq) (Vs s) _ false true Dd Dd
                  HA (gate_tab_of_ok o e0 _ _ _ _ Hok) ltac:(lia) (or_introl eq_refl) (fun p _ _ H => H)) as HB.
    eapply dr_acts_ps_ext; [|apply HB; [|exact Hc']].
    - intros b b' Hb Hb'. cbn [den]. unfold DualRailConv.Vs, lift_blk. rewrite half_double.
      symmetry. apply (sval_act1 cq m1 g (pidx g i) q nq s b' (lab b)); [tauto|exact Hq|exact Hb'].
    - intros i0 Hi0 HD. replace i0 with 0 in * by lia. rewrite Nat.add_0_r in HD.
      apply (blk_kill_single o e0 (g_circ gt) q Dd W HnS HvS HlS HD).
  Qed.

  Lemma step_swap nq r qa qb (c : circ) s Kc Dd :
    qa <> qb -> qa < nq -> qb < nq -> acts c nq Kc (Vs s) Dd ->
    exists c', emit_step c (ESwap r (2 * qa) (2 * qa + 1) (2 * qb) (2 * qb + 1)) = Ok c' /\
               acts c' nq (kmul cq Kc (k1 cq)) (Vs (den sst (sact cq m1) ssw (ESwap r (2 * qa) (2 * qa + 1) (2 * qb) (2 * qb + 1)) s))
                    (fun p => Dd (transp qa qb p)).
  Proof.
    intros Hne Ha Hb HA. pose proof HA as (Sh & _).
    destruct (swap_gate_ok o qa qb Hne) as (gt & Hgt & Hok).
    pose proof Hok as (_ & _ & _ & HnS & _).
    set (k := S (Nat.max qa qb)) in *.
    destruct (block_accept o c (g_circ gt) nq 0 k false Sh HnS ltac:(lia) ltac:(unfold k; lia)) as [c' Hc'].
    exists c'. split; [unfold DualRailConv.emit_step; cbn [DualRailConv.gate_of]; rewrite Hgt; cbn [bind op_mode]; exact Hc'|].
    pose proof (block_step_ps o ninv ninv_spec e0 c (g_circ gt) c' nq 0 k Kc (k1 cq) (Vs s) _ false true Dd
                  (fun p => Dd (transp qa qb p))
                  HA (gate_tab_of_ok o e0 _ _ _ _ Hok) ltac:(unfold k; lia) (or_introl eq_refl)) as HB.
    eapply dr_acts_ps_ext; [|apply HB; [| |exact Hc']].
    - intros b b' Hb0 Hb'. cbn [den]. rewrite !half_double.
      rewrite (lift_swap_eq o qa qb k nq (Vs s) b' b) by (try exact Hb'; unfold k; lia).
      unfold lift_swap, DualRailConv.Vs. symmetry. apply (sval_sw cq qa qb nq s b' (lab b) Ha Hb Hb').
    - intros p Hp Hoff HD. unfold transp.
      destruct (Nat.eqb_spec p qa); [unfold k in Hoff; lia|]. destruct (Nat.eqb_spec p qb); [unfold k in Hoff; lia|]. exact HD.
    - intros i Hi HD. cbn [Nat.add] in HD. exact (swap_kill qa qb gt Dd i Hne Hgt Hi HD).
  Qed.

  (* a gate on the block of k adjacent qubits from q on, none of which is dead *)
  Lemma step_block nq op q k kG M lf gt (c : circ) s Kc Dd Dd' :
    gate_of op = Ok gt -> gate_tab o e0 (g_circ gt) k kG M lf -> op_mode op = 2 * q -> q + k <= nq ->
    (forall i, i < k -> Dd (q + i) = false) ->
    (lf = true \/ forall i j, i < k -> j < k -> i <> j -> Dd' (q + i) = true \/ Dd' (q + j) = true) ->
    (forall p, p < nq -> Dd p = true -> Dd' p = true) ->
    acts c nq Kc (Vs s) Dd ->
    exists c', emit_step c op = Ok c' /\ acts c' nq (kmul cq Kc kG) (lift_blk cq M q k (Vs s)) Dd'.
  Proof.
    intros Hgt Htab Hm Hqk Hfree Hlf Hsub HA. pose proof HA as (Sh & _).
    pose proof Htab as (_ & _ & Hk & HnS & _).
    destruct (block_accept o c (g_circ gt) nq q k false Sh HnS Hk Hqk) as [c' Hc'].
    exists c'. split; [unfold DualRailConv.emit_step; rewrite Hgt; cbn [bind]; rewrite Hm; exact Hc'|].
    apply (block_step_ps o ninv ninv_spec e0 c (g_circ gt) c' nq q k Kc kG (Vs s) M false lf Dd Dd' HA Htab Hqk Hlf).
    - intros p Hp _ HD. apply Hsub; assumption.
    - intros i Hi HD. rewrite (Hfree i Hi) in HD. discriminate.
    - exact Hc'.
  Qed.

  (* ---------------------------------------------------------------- *)
  (* the scalars and the gate facts                                    *)
  (* ---------------------------------------------------------------- *)
  (* kof op: the scalar of the two/three-qubit gate object emitted operation op adds *)
  Variable kof : eop -> T.
  Definition op_kps (op : eop) : T :=
    match op with EGate1 _ _ _ | ESwap _ _ _ _ _ => k1 cq | _ => kof op end.
  Definition kprod_ps (ops : list eop) (K0 : T) : T := fold_left (fun a op => kmul cq a (op_kps op)) ops K0.

  (* the C13 statement of the gate object of an emitted multi-qubit operation (table; zero leakage
     for the heralded ones) *)
  Definition op_fact (op : eop) : Prop :=
    match op with
    | ECZ hh m => exists gt, gate_of op = Ok gt /\ gate_tab o e0 (g_circ gt) 2 (kof op) (spec_CZ cq) hh
    | ECX hh t m => t <= 1 -> exists gt, gate_of op = Ok gt /\ gate_tab o e0 (g_circ gt) 2 (kof op) (spec_CNOT cq t) hh
    | ECCZ m => exists gt, gate_of op = Ok gt /\ gate_tab o e0 (g_circ gt) 3 (kof op) (spec_CCZ cq) false
    | ECCX t m => t <= 2 -> exists gt, gate_of op = Ok gt /\ gate_tab o e0 (g_circ gt) 3 (kof op) (spec_CCNOT cq t) false
    | _ => True
    end.

  (* ---------------------------------------------------------------- *)
  (* dead qubits                                                       *)
  (* ---------------------------------------------------------------- *)
  Definition dead (gs rest : list qgate) (p : nat) : bool := touchedb gs p && negb (touchedb rest p).

  Lemma touchedb_cons g rest p : touchedb (g :: rest) p = (multib g && memb p (g_qubits g)) || touchedb rest p.
  Proof. reflexivity. Qed.

  Lemma dead_sub gs g rest p : dead gs (g :: rest) p = true -> dead gs rest p = true.
  Proof.
    unfold dead. rewrite touchedb_cons. intros H. apply andb_true_iff in H as [H1 H2].
    rewrite H1. cbn [andb]. destruct (touchedb rest p); [|reflexivity]. rewrite orb_true_r in H2. discriminate.
  Qed.

  Lemma dead_own gs g rest p : multib g = true -> In p (g_qubits g) -> dead gs (g :: rest) p = false.
  Proof.
    intros Hm Hp. unfold dead. rewrite touchedb_cons, Hm, (proj2 (memb_In p _) Hp). cbn [andb orb negb].
    apply andb_false_r.
  Qed.

  Lemma dead_nonmulti gs g rest p : multib g = false -> dead gs (g :: rest) p = dead gs rest p.
  Proof. intros Hm. unfold dead. rewrite touchedb_cons, Hm. reflexivity. Qed.

  Lemma dead_after gs g rest p : In g gs -> multib g = true -> In p (g_qubits g) -> touchedb rest p = false ->
    dead gs rest p = true.
  Proof.
    intros Hg Hm Hp Ht. unfold dead. rewrite Ht. cbn [negb]. rewrite andb_true_r.
    unfold touchedb. apply existsb_exists. exists g. split; [exact Hg|]. rewrite Hm, (proj2 (memb_In p _) Hp). reflexivity.
  Qed.

  Lemma filter_le1 (f : nat -> bool) qs x y : NoDup qs -> length (filter f qs) <= 1 ->
    In x qs -> In y qs -> x <> y -> f x = false \/ f y = false.
  Proof.
    intros Hnd Hl Hx Hy Hne. destruct (f x) eqn:Ex; [|left; reflexivity]. destruct (f y) eqn:Ey; [|right; reflexivity].
    exfalso. assert (I : incl [x; y] (filter f qs)).
    { intros z [<-|[<-|[]]]; apply filter_In; split; assumption. }
    assert (N2 : NoDup [x; y]) by (repeat constructor; simpl; intuition).
    pose proof (NoDup_incl_length N2 I). simpl in H. lia.
  Qed.

  (* the analyser's guarantee: of two different qubits of a post-selectable instruction one is dead afterwards *)
  Lemma ps_dead gs g rest x y : In g gs -> NoDup (g_qubits g) -> can_ps g rest = true ->
    In x (g_qubits g) -> In y (g_qubits g) -> x <> y -> dead gs rest x = true \/ dead gs rest y = true.
  Proof.
    intros Hg Hnd Hc Hx Hy Hne. unfold can_ps in Hc. apply andb_true_iff in Hc as [Hm Hc]. apply Nat.leb_le in Hc.
    destruct (filter_le1 (touchedb rest) (g_qubits g) x y Hnd Hc Hx Hy Hne) as [H|H]; [left|right];
      eapply dead_after; eauto.
  Qed.

  (* ---------------------------------------------------------------- *)
  (* runs                                                              *)
  (* ---------------------------------------------------------------- *)
  Lemma run_emitted_app a b (c : circ) :
    run_emitted (a ++ b) c = do c1 <- run_emitted a c; run_emitted b c1.
  Proof.
    unfold DualRailConv.run_emitted. rewrite fold_left_app.
    destruct (fold_left _ a (Ok c)) as [c1|e]; [reflexivity|]. cbn [bind]. apply run_emitted_err.
  Qed.

  Lemma run_emitted_one op (c : circ) : run_emitted [op] c = emit_step c op.
  Proof. reflexivity. Qed.

  Lemma kprod_ps_app a b K0 : kprod_ps (a ++ b) K0 = kprod_ps b (kprod_ps a K0).
  Proof. unfold kprod_ps. apply fold_left_app. Qed.

  Notation rops := (run_ops sst (sact cq m1) ssw).

  Lemma rops_app a b s : rops (a ++ b) s = rops b (rops a s).
  Proof. unfold run_ops. apply fold_left_app. Qed.

  (* inverse relabelling of a list of exchanges *)
  Definition rsw (rs : list (nat * nat)) (p : nat) : nat := fold_right (fun sp x => transp (fst sp) (snd sp) x) p rs.

  Lemma rsw_apply rs x : rsw rs (apply_swaps rs x) = x.
  Proof.
    revert x. induction rs as [|sp rs IH]; intros x; [reflexivity|].
    unfold apply_swaps. cbn [fold_left rsw fold_right]. fold (apply_swaps rs (transp (fst sp) (snd sp) x)).
    fold (rsw rs (apply_swaps rs (transp (fst sp) (snd sp) x))). rewrite IH. apply transp_invol'.
  Qed.

  Lemma rsw_invol rs : (forall x, apply_swaps rs (apply_swaps rs x) = x) -> forall p, rsw rs p = apply_swaps rs p.
  Proof. intros H p. rewrite <- (H p) at 1. apply rsw_apply. Qed.

  (* a list of routing swaps *)
  Lemma swaps_run nq (rs : list (nat * nat)) : forall (c : circ) s Kc Dd,
    (forall sp, In sp rs -> fst sp <> snd sp /\ fst sp < nq /\ snd sp < nq) ->
    acts c nq Kc (Vs s) Dd ->
    let ops := map (fun sp => emit_swap true (fst sp) (snd sp)) rs in
    exists c', run_emitted ops c = Ok c' /\
               acts c' nq (kprod_ps ops Kc) (Vs (rops ops s)) (fun p => Dd (rsw rs p)).
  Proof.
    induction rs as [|sp rs IH]; intros c s Kc Dd Hrs HA; cbv zeta.
    - exists c. split; [reflexivity|exact HA].
    - destruct (Hrs sp (or_introl eq_refl)) as (H1 & H2 & H3).
      destruct (step_swap nq true (fst sp) (snd sp) c s Kc Dd H1 H2 H3 HA) as (c1 & E1 & A1).
      destruct (IH c1 _ _ _ (fun sp' H => Hrs sp' (or_intror H)) A1) as (c' & E' & A'). cbv zeta in E', A'.
      exists c'. cbn [map]. split.
      + change (run_emitted (emit_swap true (fst sp) (snd sp) :: ?l) c) with (run_emitted ([emit_swap true (fst sp) (snd sp)] ++ l) c).
        rewrite run_emitted_app, run_emitted_one. unfold emit_swap, mode0, mode1. rewrite E1. cbn [bind]. exact E'.
      + exact A'.
  Qed.

  (* ---------------------------------------------------------------- *)
  (* one source instruction                                            *)
  (* ---------------------------------------------------------------- *)
  Lemma acts_scalar (c : circ) nq K1 K2 V Dd : K1 = K2 -> acts c nq K1 V Dd -> acts c nq K2 V Dd.
  Proof. intros ->. auto. Qed.

  Lemma three_block q0 q1 q2 : NoDup [q0; q1; q2] -> max3 q0 q1 q2 - min3 q0 q1 q2 = 2 ->
    forall i, i < 3 -> In (min3 q0 q1 q2 + i) [q0; q1; q2].
  Proof.
    intros Hnd Hm i Hi. unfold max3, min3 in *.
    assert (D01 : q0 <> q1) by (inversion Hnd; subst; cbn in *; intuition).
    assert (D02 : q0 <> q2) by (inversion Hnd; subst; cbn in *; intuition).
    assert (D12 : q1 <> q2) by (inversion Hnd as [|? ? ? H4]; inversion H4; subst; cbn in *; intuition).
    cbn [In]. lia.
  Qed.

  Lemma gate_step nq gs i g f rest ops (c : circ) s Kc :
    ConvertP.in_range nq g -> NoDup (g_qubits g) -> In g gs -> (f = true -> can_ps g rest = true) ->
    convert_gate i g f = Ok ops -> Forall op_fact ops ->
    acts c nq Kc (Vs s) (dead gs (g :: rest)) ->
    exists c', run_emitted ops c = Ok c' /\
               acts c' nq (kprod_ps ops Kc) (Vs (rops ops s)) (dead gs rest).
  Proof.
    intros Hr Hnd Hg Hf H Hfact HA. pose proof (convert_gate_ok_inv _ _ _ _ H) as [Ha Hacc].
    destruct g as [n qs p]. unfold convert_gate, ConvertP.in_range in *. cbn [g_name g_qubits g_param] in *.
    rewrite Ha in H. cbn [negb] in H.
    destruct qs as [|q0 [|q1 [|q2 [|q3 r]]]]; try contradiction.
    - (* one qubit *)
      assert (Hq : q0 < nq) by (apply Hr; left; auto).
      assert (Hops : ops = [EGate1 n i (mode0 q0)]).
      { unfold add_one in H. destruct (is_single n); [inversion H; auto|].
        destruct p; cbn [negb] in H; [|discriminate]. destruct (is_rot n); inversion H; auto. }
      assert (Hsr : is_single n = true \/ is_rot n = true) by (destruct Hacc as [?|[_ ?]]; auto).
      subst ops. unfold mode0.
      assert (HA' : acts c nq Kc (Vs s) (dead gs rest)).
      { eapply dr_acts_ps_weaken; [|exact HA]. intros p0 _ HD. rewrite dead_nonmulti in HD by reflexivity. exact HD. }
      destruct (step_single nq n i q0 c s Kc _ Hq Hsr HA') as (c' & E & A).
      exists c'. split; [rewrite run_emitted_one; exact E|exact A].
    - assert (Hq0 : q0 < nq) by (apply Hr; left; auto).
      assert (Hq1 : q1 < nq) by (apply Hr; right; left; auto).
      assert (Hne : q0 <> q1) by (inversion Hnd; subst; cbn in *; intuition).
      assert (Hm : multib (mkG n [q0; q1] p) = true) by reflexivity.
      destruct Hacc as [->|[Hn _]].
      + (* source swap *)
        inversion H; subst ops. unfold emit_swap, mode0, mode1.
        destruct (step_swap nq false q0 q1 c s Kc _ Hne Hq0 Hq1 HA) as (c' & E & A).
        exists c'. split; [rewrite run_emitted_one; exact E|].
        eapply dr_acts_ps_weaken; [|exact A]. intros p0 _ HD. cbv beta in HD.
        apply (dead_sub gs (mkG Gswap [q0; q1] p)).
        assert (Et : transp q0 q1 p0 = p0).
        { destruct (Nat.eq_dec p0 q0) as [E0|E0].
          - exfalso. rewrite E0 in HD. unfold transp in HD. rewrite Nat.eqb_refl in HD.
            rewrite dead_own in HD; [discriminate|reflexivity|right; left; reflexivity].
          - destruct (Nat.eq_dec p0 q1) as [E1|E1].
            + exfalso. rewrite E1 in HD. unfold transp in HD.
              destruct (Nat.eqb_spec q1 q0); [lia|]. rewrite Nat.eqb_refl in HD.
              rewrite dead_own in HD; [discriminate|reflexivity|left; reflexivity].
            + unfold transp. destruct (Nat.eqb_spec p0 q0); [contradiction|]. destruct (Nat.eqb_spec p0 q1); [contradiction|]. reflexivity. }
        rewrite Et in HD. exact HD.
      + (* cz / cx, routed *)
        destruct (adjacent_spec q0 q1 Hne) as (a & b & rs & E & Hd & Hord & Ea & Eb & Hinv & Hlo & Hhi & Hsw & _).
        unfold absdiff in Hd.
        set (lo := Nat.min a b) in *.
        set (gate := match n with Gcx => ECX (negb f) (b - lo) (mode0 lo) | _ => ECZ (negb f) (mode0 lo) end).
        set (sw := map (fun sp => emit_swap true (fst sp) (snd sp)) rs).
        assert (Hops : ops = sw ++ gate :: sw).
        { destruct Hn; subst n; unfold add_two in H; rewrite E in H; inversion H; reflexivity. }
        assert (Hrs : forall sp, In sp rs -> fst sp <> snd sp /\ fst sp < nq /\ snd sp < nq).
        { intros sp Hsp. destruct (Hsw sp Hsp) as (P1 & P2 & P3). repeat split; [exact P1|lia|lia]. }
        assert (Ra : rsw rs a = q0) by (rewrite <- Ea; apply rsw_apply).
        assert (Rb : rsw rs b = q1) by (rewrite <- Eb; apply rsw_apply).
        rewrite Hops in Hfact. apply Forall_app in Hfact as [_ Hfact]. pose proof (Forall_inv Hfact) as Fg.
        (* first round of swaps *)
        destruct (swaps_run nq rs c s Kc _ Hrs HA) as (c1 & E1 & A1). cbv zeta in E1, A1. fold sw in E1, A1.
        (* the gate *)
        assert (Hlo2 : lo + 2 <= nq) by (unfold lo; lia).
        assert (Hfree : forall i0, i0 < 2 -> dead gs (mkG n [q0; q1] p :: rest) (rsw rs (lo + i0)) = false).
        { intros i0 Hi0. assert (Hab : lo + i0 = a \/ lo + i0 = b) by (unfold lo; lia).
          destruct Hab as [-> | ->]; [rewrite Ra|rewrite Rb]; apply dead_own; cbn; auto. }
        assert (Hlf : negb f = true \/
                      forall i0 j0, i0 < 2 -> j0 < 2 -> i0 <> j0 ->
                        dead gs rest (rsw rs (lo + i0)) = true \/ dead gs rest (rsw rs (lo + j0)) = true).
        { destruct f; [right|left; reflexivity]. intros i0 j0 Hi0 Hj0 Hij.
          assert (Hc := Hf eq_refl).
          assert (Hi' : In (rsw rs (lo + i0)) [q0; q1]).
          { assert (Hab : lo + i0 = a \/ lo + i0 = b) by (unfold lo; lia). destruct Hab as [-> | ->]; [rewrite Ra|rewrite Rb]; cbn; auto. }
          assert (Hj' : In (rsw rs (lo + j0)) [q0; q1]).
          { assert (Hab : lo + j0 = a \/ lo + j0 = b) by (unfold lo; lia). destruct Hab as [-> | ->]; [rewrite Ra|rewrite Rb]; cbn; auto. }
          apply (ps_dead gs (mkG n [q0; q1] p) rest _ _ Hg Hnd Hc Hi' Hj').
          intros Eq. apply Hij.
          assert (G : lo + i0 = lo + j0).
          { rewrite <- (Hinv (lo + i0)), <- (Hinv (lo + j0)). rewrite <- !(rsw_invol rs Hinv). rewrite Eq. reflexivity. }
          lia. }
        assert (Hsub : forall p0, p0 < nq -> dead gs (mkG n [q0; q1] p :: rest) (rsw rs p0) = true -> dead gs rest (rsw rs p0) = true).
        { intros p0 _. apply dead_sub. }
        assert (G2 : exists c2, emit_step c1 gate = Ok c2 /\
                       acts c2 nq (kmul cq (kprod_ps sw Kc) (op_kps gate)) (Vs (den sst (sact cq m1) ssw gate (rops sw s)))
                            (fun p0 => dead gs rest (rsw rs p0))).
        { destruct Hn; subst n; unfold gate in *; cbn [op_fact] in Fg.
          - assert (Ht : b - lo <= 1) by (unfold lo; lia). destruct (Fg Ht) as (gt & Hgt & Htab).
            destruct (step_block nq _ lo 2 _ _ _ gt c1 (rops sw s) (kprod_ps sw Kc) _ (fun p0 => dead gs rest (rsw rs p0))
                        Hgt Htab eq_refl Hlo2 Hfree Hlf Hsub A1) as (c2 & E2 & A2).
            exists c2. split; [exact E2|]. cbn [op_kps].
            eapply dr_acts_ps_ext; [|exact A2]. intros bb b' Hb0 Hb'. cbn [den]. unfold DualRailConv.Vs, lift_blk, mode0.
            rewrite half_double. symmetry.
            apply (sval_cx cq m1 0 lo (b - lo) nq (rops sw s) b' (lab bb) Ht ltac:(lia) Hb').
          - destruct Fg as (gt & Hgt & Htab).
            destruct (step_block nq _ lo 2 _ _ _ gt c1 (rops sw s) (kprod_ps sw Kc) _ (fun p0 => dead gs rest (rsw rs p0))
                        Hgt Htab eq_refl Hlo2 Hfree Hlf Hsub A1) as (c2 & E2 & A2).
            exists c2. split; [exact E2|]. cbn [op_kps].
            eapply dr_acts_ps_ext; [|exact A2]. intros bb b' Hb0 Hb'. cbn [den]. unfold DualRailConv.Vs, lift_blk, mode0.
            rewrite half_double. symmetry.
            apply (sval_cz cq m1 0 lo nq (rops sw s) b' (lab bb) ltac:(lia) Hb'). }
        destruct G2 as (c2 & E2 & A2).
        (* second round of swaps *)
        destruct (swaps_run nq rs c2 _ _ _ Hrs A2) as (c3 & E3 & A3). cbv zeta in E3, A3. fold sw in E3, A3.
        exists c3. rewrite Hops. split.
        * rewrite run_emitted_app, E1. cbn [bind].
          change (gate :: sw) with ([gate] ++ sw). rewrite run_emitted_app, run_emitted_one, E2. cbn [bind]. exact E3.
        * rewrite kprod_ps_app, rops_app.
          change (gate :: sw) with ([gate] ++ sw). rewrite kprod_ps_app, rops_app.
          eapply dr_acts_ps_weaken; [|exact A3]. intros p0 _ HD. cbv beta in HD.
          rewrite !(rsw_invol rs Hinv), Hinv in HD. exact HD.
    - (* three qubits *)
      destruct Hacc as (Hn & -> & Hmm).
      assert (Hm : multib (mkG n [q0; q1; q2] p) = true) by reflexivity.
      set (lo := min3 q0 q1 q2) in *.
      assert (Hops : ops = [match n with Gccx => ECCX (q2 - lo) (mode0 lo) | _ => ECCZ (mode0 lo) end]).
      { unfold add_three in H. fold lo in H. cbn [negb] in H.
        destruct (Nat.eqb_spec (max3 q0 q1 q2 - lo) 2); [|contradiction].
        destruct Hn; subst n; inversion H; reflexivity. }
      pose proof (three_block q0 q1 q2 Hnd Hmm) as Hblk. fold lo in Hblk.
      assert (Hlo3 : lo + 3 <= nq).
      { pose proof (Hr _ (Hblk 2 ltac:(lia))). lia. }
      assert (Hfree : forall i0, i0 < 3 -> dead gs (mkG n [q0; q1; q2] p :: rest) (lo + i0) = false).
      { intros i0 Hi0. apply dead_own; [reflexivity|]. apply Hblk. exact Hi0. }
      assert (Hlf : false = true \/
                    forall i0 j0, i0 < 3 -> j0 < 3 -> i0 <> j0 -> dead gs rest (lo + i0) = true \/ dead gs rest (lo + j0) = true).
      { right. intros i0 j0 Hi0 Hj0 Hij.
        apply (ps_dead gs (mkG n [q0; q1; q2] p) rest _ _ Hg Hnd (Hf eq_refl) (Hblk i0 Hi0) (Hblk j0 Hj0)). lia. }
      assert (Hsub : forall p0, p0 < nq -> dead gs (mkG n [q0; q1; q2] p :: rest) p0 = true -> dead gs rest p0 = true).
      { intros p0 _. apply dead_sub. }
      subst ops. pose proof (Forall_inv Hfact) as Fg.
      destruct Hn; subst n; cbn [op_fact] in Fg.
      + assert (Ht : q2 - lo <= 2) by (pose proof (Hblk 0 ltac:(lia)); unfold max3, min3 in *; lia).
        destruct (Fg Ht) as (gt & Hgt & Htab).
        destruct (step_block nq _ lo 3 _ _ _ gt c s Kc _ (dead gs rest) Hgt Htab eq_refl Hlo3 Hfree Hlf Hsub HA) as (c2 & E2 & A2).
        exists c2. split; [rewrite run_emitted_one; exact E2|].
        eapply dr_acts_ps_ext; [|exact A2]. intros bb b' Hb0 Hb'.
        unfold run_ops. cbn [fold_left den]. unfold DualRailConv.Vs, lift_blk, mode0. rewrite half_double. symmetry.
        apply (sval_ccx cq m1 0 lo (q2 - lo) nq s b' (lab bb) Ht ltac:(lia) Hb').
      + destruct Fg as (gt & Hgt & Htab).
        destruct (step_block nq _ lo 3 _ _ _ gt c s Kc _ (dead gs rest) Hgt Htab eq_refl Hlo3 Hfree Hlf Hsub HA) as (c2 & E2 & A2).
        exists c2. split; [rewrite run_emitted_one; exact E2|].
        eapply dr_acts_ps_ext; [|exact A2]. intros bb b' Hb0 Hb'.
        unfold run_ops. cbn [fold_left den]. unfold DualRailConv.Vs, lift_blk, mode0. rewrite half_double. symmetry.
        apply (sval_ccz cq m1 0 lo nq s b' (lab bb) ltac:(lia) Hb').
  Qed.

  (* ---------------------------------------------------------------- *)
  (* the whole program                                                 *)
  (* ---------------------------------------------------------------- *)
  Lemma prog_acts nq allow gs : forall rest pre i ops (c : circ) s Kc,
    gs = pre ++ rest -> Forall (ConvertP.in_range nq) rest -> Forall (fun g => NoDup (g_qubits g)) rest ->
    conv_spec allow i rest = Ok ops -> Forall op_fact ops ->
    acts c nq Kc (Vs s) (dead gs rest) ->
    exists c', run_emitted ops c = Ok c' /\
               acts c' nq (kprod_ps ops Kc) (Vs (rops ops s)) (dead gs []).
  Proof.
    induction rest as [|g rest IH]; intros pre i ops c s Kc Hgs Hr Hd H Hfact HA; cbn [conv_spec] in H.
    - inversion H; subst ops. exists c. split; [reflexivity|exact HA].
    - destruct (convert_gate i g (allow && can_ps g rest)) as [o1|e] eqn:E1; [|discriminate]. cbn [bind] in H.
      destruct (conv_spec allow (S i) rest) as [o2|e] eqn:E2; [|discriminate].
      inversion H; subst ops. inversion Hr; subst. inversion Hd; subst.
      apply Forall_app in Hfact as [F1 F2].
      assert (Hg : In g (pre ++ g :: rest)) by (apply in_or_app; right; left; reflexivity).
      destruct (gate_step nq (pre ++ g :: rest) i g (allow && can_ps g rest) rest o1 c s Kc
                  ltac:(assumption) ltac:(assumption) Hg
                  (fun Hf => proj2 (proj1 (andb_true_iff _ _) Hf)) E1 F1 HA) as (c1 & Ec1 & A1).
      destruct (IH (pre ++ [g]) (S i) o2 c1 _ _ ltac:(rewrite <- app_assoc; reflexivity)
                  ltac:(assumption) ltac:(assumption) E2 F2 A1) as (c' & Ec' & A').
      exists c'. split.
      + rewrite run_emitted_app, Ec1. exact Ec'.
      + rewrite kprod_ps_app, rops_app. exact A'.
  Qed.

  (* the qubits the returned rules constrain *)
  Definition rule_set (rules : option (list nat)) (p : nat) : bool :=
    match rules with Some l => memb p l | None => false end.

  Theorem convert_postselected_correct nq gs ops rules :
    Forall (ConvertP.in_range nq) gs -> Forall (fun g => NoDup (g_qubits g)) gs ->
    convert true gs = Ok (ops, rules) -> Forall op_fact ops ->
    exists c, run_emitted ops (new_circ (2 * nq)) = Ok c /\
              accepts_dual_rail o e0 c nq (kprod_ps ops (k1 cq)) (Vsrc o h ang nq gs) (rule_set rules).
  Proof.
    intros Hr Hd Hc Hfact. pose proof Hc as Hc'. rewrite convert_eq in Hc'.
    destruct (conv_spec true 0 gs) as [ops'|e] eqn:E; [|discriminate]. cbn [bind] in Hc'.
    injection Hc' as <- Hrules.
    assert (A0 : acts (new_circ (2 * nq)) nq (k1 cq) (Vs (s_id cq nq)) (dead gs gs)).
    { apply dr_acts_ps_of_acts. eapply dr_acts_ext; [|apply (new_circ_acts o e0 nq)].
      intros b b' Hb Hb'. unfold DualRailConv.Vs, qid. symmetry. exact (@sval_id T cq (cplx_star o) nq b b' Hb Hb'). }
    destruct (prog_acts nq true gs gs [] 0 ops' _ _ _ eq_refl Hr Hd E Hfact A0) as (c & Ec & Ac).
    exists c. split; [exact Ec|]. apply accepts_iff. unfold Vsrc.
    rewrite <- (sem_emitted_denotes_source cq m1 true gs ops' rules (s_id cq nq) Hd Hc).
    eapply dr_acts_ps_weaken; [|exact Ac].
    intros p _ HD. unfold dead in HD. apply andb_true_iff in HD as [HD _].
    apply touchedb_spec in HD. rewrite <- Hrules. unfold ps_rules, rule_set.
    pose proof (proj2 (In_ps_qubits gs p) HD) as Hin.
    destruct (ps_qubits (snd (analyze gs))) as [|x l]; [destruct Hin|]. apply memb_In. exact Hin.
  Qed.

  (* ---- |K|^2 is a unit: K conj K * (product of the inverse squared moduli of the gate scalars) = 1 ---- *)
  Variable wof : eop -> T.
  Definition wprod_ps (ops : list eop) (w0 : T) : T := fold_left (fun a op => kmul cq a (wof op)) ops w0.

  Theorem kprod_ps_unit ops :
    (forall op, In op ops -> kmul cq (wof op) (kmul cq (op_kps op) (kconj cq (op_kps op))) = k1 cq) ->
    forall K0 w0 : T, kmul cq (kmul cq K0 (kconj cq K0)) w0 = k1 cq ->
    kmul cq (kmul cq (kprod_ps ops K0) (kconj cq (kprod_ps ops K0))) (wprod_ps ops w0) = k1 cq.
  Proof.
    induction ops as [|op ops IH]; intros HN K0 w0 H; [exact H|].
    unfold kprod_ps, wprod_ps in *. cbn [fold_left]. apply IH; [intros op' H'; apply HN; right; exact H'|].
    pose proof (HN op (or_introl eq_refl)) as N.
    transitivity (kmul cq (kmul cq (kmul cq K0 (kconj cq K0)) w0)
                          (kmul cq (wof op) (kmul cq (op_kps op) (kconj cq (op_kps op))))).
    - exact (cq_norm_step o K0 (op_kps op) w0 (wof op)).
    - rewrite H, N. apply (cq_mul_1_l o).
  Qed.
End PSConv.
