(* Lemmas about Model/Source.v *)
From Coq Require Import ZArith List Bool Arith Lia Ring_theory Ring Permutation.
From LW Require Import Base.Sx Base.Num Base.Sums Model.State Proofs.StateP Model.Source.
Import ListNotations.

(* ------------------------------------------------------------ list helpers *)
Lemma fold_left_flat_map {X Y S} (f : X -> list Y) (step : S -> Y -> S) l acc :
  fold_left step (flat_map f l) acc = fold_left (fun a x => fold_left step (f x) a) l acc.
Proof.
  revert acc; induction l as [|x l IH]; intros acc; simpl; [reflexivity|].
  rewrite fold_left_app. apply IH.
Qed.

Lemma fold_left_map' {X Y S} (h : X -> Y) (step : S -> Y -> S) l acc :
  fold_left step (map h l) acc = fold_left (fun a x => step a (h x)) l acc.
Proof. revert acc; induction l as [|x l IH]; intros acc; simpl; [reflexivity|]. apply IH. Qed.

Lemma fold_left_ext_in {X S} (f g : S -> X -> S) l acc :
  (forall a x, In x l -> f a x = g a x) -> fold_left f l acc = fold_left g l acc.
Proof.
  revert acc; induction l as [|x l IH]; intros acc H; simpl; [reflexivity|].
  rewrite H by (left; reflexivity). apply IH. intros; apply H; right; assumption.
Qed.

Lemma flat_map_ext_in {X Y} (f g : X -> list Y) l :
  (forall x, In x l -> f x = g x) -> flat_map f l = flat_map g l.
Proof.
  induction l as [|x l IH]; intros H; simpl; [reflexivity|].
  rewrite H by (left; reflexivity). rewrite IH; [reflexivity|]. intros; apply H; right; assumption.
Qed.

Lemma NoDup_app_intro {A} (l1 l2 : list A) :
  NoDup l1 -> NoDup l2 -> (forall x, In x l1 -> In x l2 -> False) -> NoDup (l1 ++ l2).
Proof.
  intros H1 H2 Hd. induction H1 as [|a l1 Hn H1 IH]; simpl; [exact H2|].
  constructor.
  - intros Hin. apply in_app_or in Hin as [Hin|Hin]; [exact (Hn Hin)|]. apply (Hd a); simpl; auto.
  - apply IH. intros x Hx1 Hx2. apply (Hd x); simpl; auto.
Qed.

Lemma NoDup_app_inv {A} (l1 l2 : list A) :
  NoDup (l1 ++ l2) -> NoDup l1 /\ NoDup l2 /\ (forall x, In x l1 -> In x l2 -> False).
Proof.
  induction l1 as [|a l1 IH]; simpl; intros H.
  - repeat split; [constructor|exact H|intros x []].
  - inversion H as [|? ? Hn H']; subst. destruct (IH H') as (A1 & A2 & A3). repeat split.
    + constructor; [|exact A1]. intros Hin. apply Hn. apply in_or_app. left. exact Hin.
    + exact A2.
    + intros x [<-|Hx] Hx2; [apply Hn; apply in_or_app; right; exact Hx2|exact (A3 x Hx Hx2)].
Qed.

Lemma NoDup_flat_map_pair {X Y Z} (f : X -> Y -> Z) la lb :
  NoDup la -> NoDup lb ->
  (forall a a' b b', In a la -> In a' la -> In b lb -> In b' lb -> f a b = f a' b' -> a = a' /\ b = b') ->
  NoDup (flat_map (fun a => map (f a) lb) la).
Proof.
  intros Ha Hb Hinj. induction Ha as [|a la Hna Ha IH]; simpl; [constructor|].
  assert (Hm : NoDup (map (f a) lb)).
  { clear IH. induction Hb as [|b lb Hnb Hb IHb]; simpl; [constructor|]. constructor.
    - intros Hin. apply in_map_iff in Hin as (b' & E & Hb').
      destruct (Hinj a a b' b) as [_ ->]; simpl; auto.
    - apply IHb. intros a1 a2 b1 b2 H1 H2 H3 H4. apply Hinj; simpl in *; auto. }
  apply NoDup_app_intro; [exact Hm| |].
  - apply IH. intros a1 a2 b1 b2 H1 H2 H3 H4. apply Hinj; simpl; auto.
  - intros z Hz1 Hz2. apply in_map_iff in Hz1 as (b & E1 & Hb1).
    apply in_flat_map in Hz2 as (a' & Ha' & Hz2). apply in_map_iff in Hz2 as (b' & E2 & Hb2).
    destruct (Hinj a a' b b') as [-> _]; simpl; auto; congruence.
Qed.

Definition dkeys {A K} (d : list (A * K)) : list A := map fst d.

(* ------------------------------------------------- dictionaries (no numbers) *)
Section DictKeys.
  Context {A K : Type} (eqb : A -> A -> bool) (o : ops K).
  Hypothesis eqb_eq : forall a b, eqb a b = true <-> a = b.

  Lemma dmem_In (d : list (A * K)) k : dmem eqb d k = true <-> In k (dkeys d).
  Proof.
    induction d as [|[k' v'] d IH]; simpl; [split; [discriminate|intros []]|].
    destruct (eqb k' k) eqn:E.
    - apply eqb_eq in E. split; auto.
    - rewrite IH. split; [auto|]. intros [H|H]; [|exact H]. apply eqb_eq in H. congruence.
  Qed.

  Lemma dkeys_dadd (d : list (A * K)) k v :
    dkeys (dadd eqb o d k v) = if dmem eqb d k then dkeys d else dkeys d ++ [k].
  Proof.
    induction d as [|[k' v'] d IH]; simpl; [reflexivity|].
    destruct (eqb k' k); simpl; [reflexivity|]. rewrite IH. destruct (dmem eqb d k); reflexivity.
  Qed.

  Lemma In_dkeys_dadd (d : list (A * K)) k v x :
    In x (dkeys (dadd eqb o d k v)) <-> In x (dkeys d) \/ x = k.
  Proof.
    rewrite dkeys_dadd. destruct (dmem eqb d k) eqn:E.
    - apply dmem_In in E. split; [auto|]. intros [H| ->]; assumption.
    - rewrite in_app_iff. simpl. intuition.
  Qed.

  Lemma NoDup_dadd (d : list (A * K)) k v : NoDup (dkeys d) -> NoDup (dkeys (dadd eqb o d k v)).
  Proof.
    intros H. rewrite dkeys_dadd. destruct (dmem eqb d k) eqn:E; [exact H|].
    apply NoDup_app_intro; [exact H|repeat constructor; intros []|].
    intros x Hx [<-|[]]. apply dmem_In in Hx. congruence.
  Qed.

  Lemma fold_dadd_keys {B} (l : list B) (f : B -> A) (g : B -> K) acc :
    let r := fold_left (fun d e => dadd eqb o d (f e) (g e)) l acc in
    (NoDup (dkeys acc) -> NoDup (dkeys r)) /\
    (forall x, In x (dkeys r) <-> In x (dkeys acc) \/ exists e, In e l /\ x = f e).
  Proof.
    revert acc; induction l as [|e l IH]; intros acc; simpl.
    - split; [auto|]. intros x. split; [auto|]. intros [H|(e & [] & _)]. exact H.
    - destruct (IH (dadd eqb o acc (f e) (g e))) as [I1 I2]. split.
      + intros H. apply I1. apply NoDup_dadd. exact H.
      + intros x. rewrite I2, In_dkeys_dadd. split.
        * intros [[H|H]|(e' & He' & E)]; [left; exact H|right; exists e; auto|right; exists e'; auto].
        * intros [H|(e' & [<-|He'] & E)]; [left; left; exact H|left; right; exact E|right; exists e'; auto].
  Qed.

  Lemma dset_fresh (d : list (A * K)) k v : ~ In k (dkeys d) -> dset eqb d k v = d ++ [(k, v)].
  Proof.
    induction d as [|[k' v'] d IH]; simpl; intros H; [reflexivity|].
    destruct (eqb k' k) eqn:E.
    - apply eqb_eq in E. exfalso. apply H. left. exact E.
    - rewrite IH; [reflexivity|]. intros Hin. apply H. right. exact Hin.
  Qed.

  Lemma fold_dset_fresh (l acc : list (A * K)) :
    NoDup (dkeys (acc ++ l)) ->
    fold_left (fun d e => dset eqb d (fst e) (snd e)) l acc = acc ++ l.
  Proof.
    revert acc; induction l as [|[k v] l IH]; intros acc H; simpl; [symmetry; apply app_nil_r|].
    rewrite dset_fresh.
    - rewrite IH; rewrite <- app_assoc; [reflexivity|exact H].
    - unfold dkeys in H. rewrite map_app in H. simpl in H.
      apply NoDup_remove_2 in H. intros Hin. apply H. apply in_or_app. left. exact Hin.
  Qed.
End DictKeys.

(* --------------------------------------------------- sums over abstract rings *)
Section Generic.
  Context {K : Type} {o : ops K} {SR : StarRing o}.
  Let R := sr_ring (o:=o).
  Add Ring Kr : R.
  Local Notation "0" := (k0 o).
  Local Notation "1" := (k1 o).
  Local Notation "a + b" := (kadd o a b).
  Local Notation "a * b" := (kmul o a b).
  Local Notation "a - b" := (ksub o a b).

  Lemma suml_mul_r {A} (l : list A) c f : suml o l (fun a => f a * c) = suml o l f * c.
  Proof. induction l as [|a l IH]; simpl; [ring|]. rewrite IH. ring. Qed.

  Lemma suml_map {A B} (h : A -> B) (l : list A) f : suml o (map h l) f = suml o l (fun a => f (h a)).
  Proof. induction l as [|a l IH]; simpl; [reflexivity|]. rewrite IH. reflexivity. Qed.

  Lemma suml_flat_map {A B} (h : A -> list B) (l : list A) f :
    suml o (flat_map h l) f = suml o l (fun a => suml o (h a) f).
  Proof. induction l as [|a l IH]; simpl; [reflexivity|]. rewrite suml_app, IH. reflexivity. Qed.

  Lemma suml_filter_zero {A} (keep : A -> bool) (l : list A) f :
    (forall a, In a l -> keep a = false -> f a = 0) -> suml o (filter keep l) f = suml o l f.
  Proof.
    induction l as [|a l IH]; intros H; simpl; [reflexivity|].
    destruct (keep a) eqn:E; simpl.
    - rewrite IH; [reflexivity|]. intros; apply H; [right|]; assumption.
    - rewrite IH by (intros; apply H; [right|]; assumption).
      rewrite (H a) by (auto; left; reflexivity). ring.
  Qed.

  (* ---- dictionary totals ---- *)
  Section DictTot.
    Context {A : Type} (eqb : A -> A -> bool).

    Lemma dtotal_dadd (d : list (A * K)) k v : dtotal o (dadd eqb o d k v) = dtotal o d + v.
    Proof.
      unfold dtotal. induction d as [|[k' v'] d IH]; simpl; [ring|].
      destruct (eqb k' k); simpl; [ring|]. rewrite IH. ring.
    Qed.

    Lemma dtotal_fold_dadd {B} (l : list B) (f : B -> A) (g : B -> K) acc :
      dtotal o (fold_left (fun d e => dadd eqb o d (f e) (g e)) l acc) = dtotal o acc + suml o l g.
    Proof.
      revert acc; induction l as [|e l IH]; intros acc; simpl; [ring|].
      rewrite IH, dtotal_dadd. ring.
    Qed.
  End DictTot.

  Lemma dtotal_app {A} (d1 d2 : list (A * K)) : dtotal o (d1 ++ d2) = dtotal o d1 + dtotal o d2.
  Proof. apply suml_app. Qed.

  (* ---- the single photon table ---- *)
  Variables (nu p_i p2 : K).

  Lemma single_photon_sum :
    c0 o nu p2 + c1 o nu p_i p2 + c1d o nu p_i p2 + c1dp o nu p2 + c12d o nu p_i p2 + c1d2d o nu p_i p2 = 1.
  Proof. unfold c0, c1, c1d, c1dp, c12d, c1d2d, p1, p_d, ktwo. ring. Qed.

  Lemma c0_factored : c0 o nu p2 = (1 - nu) * (1 - nu * p2).
  Proof. unfold c0, p1, ktwo. ring. Qed.

  Definition ltot (l : list (list Z * K)) : K := suml o l snd.

  Lemma photon_table_total cnt : ltot (photon_table o nu p_i p2 cnt) = 1.
  Proof. unfold ltot, photon_table. simpl. rewrite <- single_photon_sum. ring. Qed.

  (* the [p > 0] filter only removes zero entries: this is where the documented
     ranges enter (all six coefficients are >= 0) *)
  Definition filter_sound : Prop :=
    forall c, In c [c0 o nu p2; c1 o nu p_i p2; c1d o nu p_i p2; c1dp o nu p2; c12d o nu p_i p2; c1d2d o nu p_i p2] ->
              gt0 o c = false -> c = 0.

  Hypothesis Hfilter : filter_sound.

  Lemma single_photon_total cnt : ltot (single_photon o nu p_i p2 cnt) = 1.
  Proof.
    unfold ltot, single_photon. rewrite suml_filter_zero; [apply photon_table_total|].
    intros [l c] Hin Hc. simpl in *. apply Hfilter; [|exact Hc].
    unfold photon_table in Hin. simpl in Hin.
    repeat (destruct Hin as [Hin|Hin]; [injection Hin as _ <-; simpl; tauto|]). destruct Hin.
  Qed.

  Lemma lprod_total a b : ltot (lprod o a b) = ltot a * ltot b.
  Proof.
    unfold ltot, lprod. rewrite suml_flat_map.
    rewrite (suml_ext a _ (fun d1 => snd d1 * suml o b snd)).
    - apply suml_mul_r.
    - intros d1 _. rewrite suml_map. simpl. apply suml_mul_l.
  Qed.

  Lemma mode_list_total n cnt acc : ltot acc = 1 -> ltot (mode_list o nu p_i p2 n cnt acc) = 1.
  Proof.
    revert cnt acc; induction n as [|n IH]; intros cnt acc H; simpl; [exact H|].
    apply IH. destruct acc as [|e acc]; [apply single_photon_total|].
    rewrite lprod_total, H, single_photon_total. ring.
  Qed.

  Lemma mode_list_total_S n cnt : ltot (mode_list o nu p_i p2 (S n) cnt []) = 1.
  Proof. simpl. apply mode_list_total, single_photon_total. Qed.

  Lemma single_mode_total n cnt : (0 <= n)%Z -> dtotal o (fst (single_mode o nu p_i p2 n cnt)) = 1.
  Proof.
    intros Hn0. unfold single_mode. destruct (Z.eqb_spec n 0) as [->|Hn]; simpl; [unfold dtotal; simpl; ring|].
    rewrite dtotal_fold_dadd. unfold dtotal at 1. simpl.
    destruct (Z.to_nat n) as [|k] eqn:E; [lia|].
    fold (ltot (mode_list o nu p_i p2 (S k) cnt [])). rewrite mode_list_total_S. ring.
  Qed.

  (* ---- well-formed annotated dictionaries: distinct canonical keys of one length ---- *)
  Definition wf (d : list (astate * K)) : Prop :=
    NoDup (dkeys d) /\ exists L, forall k, In k (dkeys d) -> length k = L /\ an_make k = k.

  Lemma an_add_canon a b : an_make a = a -> an_make b = b -> an_add a b = a ++ b.
  Proof. intros Ha Hb. unfold an_add, an_make in *. rewrite map_app. congruence. Qed.

  Lemma an_make_app a b : an_make (a ++ b) = an_make a ++ an_make b.
  Proof. apply map_app. Qed.

  Lemma single_mode_wf n cnt : wf (fst (single_mode o nu p_i p2 n cnt)).
  Proof.
    unfold single_mode. destruct (Z.eqb n 0); simpl.
    - split; [repeat constructor; intros []|]. exists 1%nat. intros k [<-|[]]. split; reflexivity.
    - match goal with |- wf (fold_left ?F ?l []) =>
        pose proof (fold_dadd_keys an_eqb o an_eqb_eq l (fun e => an_make [sort_asc (fst e)]) snd []) as [I1 I2] end.
      split; [apply I1; constructor|]. exists 1%nat. intros k Hk. apply I2 in Hk as [[]|(e & _ & ->)].
      split; [reflexivity|apply an_make_idem].
  Qed.

  Definition plist (dist calc : list (astate * K)) : list (astate * K) :=
    flat_map (fun e1 => map (fun e2 => (fst e1 ++ fst e2, snd e1 * snd e2)) calc) dist.

  Lemma app_eq_length {X} (a a' b b' : list X) :
    length a = length a' -> a ++ b = a' ++ b' -> a = a' /\ b = b'.
  Proof.
    revert a'; induction a as [|x a IH]; intros [|x' a'] Hl H; simpl in *; try discriminate; [auto|].
    injection H as -> H. injection Hl as Hl. destruct (IH a' Hl H) as [-> ->]. auto.
  Qed.

  Lemma dkeys_plist dist calc :
    dkeys (plist dist calc) = flat_map (fun k1 => map (fun k2 => k1 ++ k2) (dkeys calc)) (dkeys dist).
  Proof.
    unfold plist, dkeys. induction dist as [|e1 dist IH]; cbn [flat_map map]; [reflexivity|].
    rewrite map_app. f_equal; [rewrite !map_map; reflexivity|exact IH].
  Qed.

  Lemma plist_total dist calc : dtotal o (plist dist calc) = dtotal o dist * dtotal o calc.
  Proof.
    unfold dtotal, plist. rewrite suml_flat_map.
    rewrite (suml_ext dist _ (fun e1 => snd e1 * suml o calc snd)).
    - apply suml_mul_r.
    - intros e1 _. rewrite suml_map. simpl. apply suml_mul_l.
  Qed.

  Lemma plist_wf dist calc : wf dist -> wf calc -> wf (plist dist calc).
  Proof.
    intros [N1 (L1 & W1)] [N2 (L2 & W2)]. split.
    - rewrite dkeys_plist. apply NoDup_flat_map_pair; [exact N1|exact N2|].
      intros a a' b b' Ha Ha' Hb Hb' E. apply app_eq_length; [|exact E].
      rewrite (proj1 (W1 a Ha)), (proj1 (W1 a' Ha')). reflexivity.
    - exists (L1 + L2)%nat. intros k Hk. rewrite dkeys_plist in Hk.
      apply in_flat_map in Hk as (k1 & Hk1 & Hk). apply in_map_iff in Hk as (k2 & <- & Hk2).
      destruct (W1 k1 Hk1) as [A1 A2], (W2 k2 Hk2) as [B1 B2].
      rewrite app_length, an_make_app, A1, A2, B1, B2. auto.
  Qed.

  Lemma dist_product_spec dist calc : wf dist -> wf calc -> dist_product o dist calc = plist dist calc.
  Proof.
    intros Wd Wc. unfold dist_product.
    transitivity (fold_left (fun d e => dset an_eqb d (fst e) (snd e))
                            (flat_map (fun e1 => map (fun e2 => (an_add (fst e1) (fst e2), snd e1 * snd e2)) calc) dist) []).
    { rewrite fold_left_flat_map. apply fold_left_ext_in. intros a e1 _. rewrite fold_left_map'. reflexivity. }
    replace (flat_map (fun e1 => map (fun e2 => (an_add (fst e1) (fst e2), snd e1 * snd e2)) calc) dist)
      with (plist dist calc).
    - rewrite (fold_dset_fresh an_eqb an_eqb_eq); [reflexivity|]. simpl. apply (plist_wf _ _ Wd Wc).
    - unfold plist. apply flat_map_ext_in. intros e1 H1. apply map_ext_in. intros e2 H2.
      destruct Wd as [_ (L1 & W1)], Wc as [_ (L2 & W2)].
      rewrite an_add_canon; [reflexivity| |].
      + apply W1. apply in_map. exact H1.
      + apply W2. apply in_map. exact H2.
  Qed.

  Lemma empties_eq g : empties g = repeat [] g.
  Proof. unfold empties, an_make. induction g as [|g IH]; simpl; [reflexivity|]. rewrite IH. reflexivity. Qed.

  Definition glist (dist : list (astate * K)) (g : nat) : list (astate * K) :=
    map (fun e => (fst e ++ repeat [] g, snd e)) dist.

  Lemma glist_total dist g : dtotal o (glist dist g) = dtotal o dist.
  Proof. unfold dtotal, glist. rewrite suml_map. reflexivity. Qed.

  Lemma dkeys_glist dist g : dkeys (glist dist g) = map (fun k => k ++ repeat [] g) (dkeys dist).
  Proof. unfold glist, dkeys. rewrite !map_map. reflexivity. Qed.

  Lemma glist_wf dist g : wf dist -> wf (glist dist g).
  Proof.
    intros [N1 (L1 & W1)]. split.
    - rewrite dkeys_glist.
      apply FinFun.Injective_map_NoDup; [|exact N1]. intros a b E. apply app_inv_tail in E. exact E.
    - exists (L1 + g)%nat. intros k Hk. rewrite dkeys_glist in Hk. apply in_map_iff in Hk as (k1 & <- & Hk1).
      destruct (W1 k1 Hk1) as [A1 A2].
      rewrite app_length, repeat_length, an_make_app, A1, A2. split; [reflexivity|]. f_equal.
      rewrite <- (empties_eq g). unfold empties. apply an_make_idem.
  Qed.

  Lemma group_step_spec dist g :
    wf dist ->
    fold_left (fun d e => dset an_eqb d (an_add (fst e) (empties g)) (snd e)) dist [] = glist dist g.
  Proof.
    intros Wd.
    transitivity (fold_left (fun d e => dset an_eqb d (fst e) (snd e))
                            (map (fun e => (an_add (fst e) (empties g), snd e)) dist) []).
    { rewrite fold_left_map'. reflexivity. }
    replace (map (fun e => (an_add (fst e) (empties g), snd e)) dist) with (glist dist g).
    - rewrite (fold_dset_fresh an_eqb an_eqb_eq); [reflexivity|]. simpl. apply (glist_wf _ _ Wd).
    - unfold glist. apply map_ext_in. intros e He. destruct Wd as [_ (L1 & W1)].
      rewrite an_add_canon; [rewrite empties_eq; reflexivity| |].
      + apply W1. apply in_map. exact He.
      + unfold empties. apply an_make_idem.
  Qed.

  (* ---- _full_distribution ---- *)
  Definition inv (acc : list (astate * K) * Z) : Prop := wf (fst acc) /\ dtotal o (fst acc) = 1.

  Lemma single_wf a : an_make a = a -> wf [(a, 1)] /\ dtotal o [(a, 1)] = 1.
  Proof.
    intros Ha. split; [split|unfold dtotal; simpl; ring].
    - repeat constructor. intros [].
    - exists (length a). intros k [<-|[]]. auto.
  Qed.

  Lemma full_step_first tg ts cnt i n :
    (0 <= n)%Z -> ~ In i ts -> inv (full_step o nu p_i p2 tg ts ([], cnt) (i, n)).
  Proof.
    intros Hn Hi. unfold full_step.
    destruct (existsb (Nat.eqb i) ts) eqn:E.
    { exfalso. apply Hi. apply existsb_exists in E as (x & Hx & Ex). apply Nat.eqb_eq in Ex. subst. exact Hx. }
    destruct (lookup_nat tg i) as [g|].
    - apply single_wf. unfold empties. apply an_make_idem.
    - pose proof (single_mode_total n cnt Hn) as T. pose proof (single_mode_wf n cnt) as W.
      destruct (single_mode o nu p_i p2 n cnt) as [calc cnt']. simpl in *. split; assumption.
  Qed.

  Lemma full_step_next tg ts acc i n :
    (0 <= n)%Z -> inv acc -> inv (full_step o nu p_i p2 tg ts acc (i, n)).
  Proof.
    intros Hn [W T]. unfold full_step. destruct acc as [dist cnt]. simpl in W, T.
    destruct (existsb (Nat.eqb i) ts); [split; assumption|].
    destruct (lookup_nat tg i) as [g|].
    - destruct dist as [|e dist]; [apply single_wf; unfold empties; apply an_make_idem|].
      rewrite (group_step_spec _ g W). split; cbn [fst]; [apply glist_wf; exact W|rewrite glist_total; exact T].
    - pose proof (single_mode_total n cnt Hn) as T'. pose proof (single_mode_wf n cnt) as W'.
      destruct (single_mode o nu p_i p2 n cnt) as [calc cnt']. simpl in *.
      destruct dist as [|e dist]; [split; assumption|].
      rewrite (dist_product_spec _ _ W W'). split; cbn [fst]; [apply plist_wf; assumption|].
      rewrite plist_total, T, T'. ring.
  Qed.

  Lemma fold_full_step_inv tg ts l acc :
    Forall (fun im => (0 <= snd im)%Z) l -> inv acc -> inv (fold_left (full_step o nu p_i p2 tg ts) l acc).
  Proof.
    revert acc; induction l as [|[i n] l IH]; intros acc Hl Ha; simpl; [exact Ha|].
    inversion Hl; subst. apply IH; [assumption|]. apply full_step_next; assumption.
  Qed.

  Lemma fold_left_invariant {S X} (P : S -> Prop) (f : S -> X -> S) l a :
    P a -> (forall s x, P s -> P (f s x)) -> P (fold_left f l a).
  Proof. revert a; induction l as [|x l IH]; intros a Ha Hs; simpl; [exact Ha|]. apply IH; auto. Qed.

  (* mode 0 is never skipped by group_empty_modes *)
  Lemma group_empty_skip st x : In x (snd (group_empty st)) -> (1 <= x)%nat.
  Proof.
    unfold group_empty.
    apply (fold_left_invariant (fun acc : list (nat * nat) * list nat => In x (snd acc) -> (1 <= x)%nat)).
    - intros [].
    - intros [tg ts] i H. simpl in H.
      destruct (existsb (Nat.eqb i) ts || Nat.eqb (S i) (length st)); [exact H|].
      destruct (Z.eqb (nth i st 1%Z) 0); [|exact H].
      destruct (Z.ltb 0 (nth (S i) st 0%Z)); [exact H|]. simpl.
      intros Hin. apply in_app_or in Hin as [Hin|Hin]; [auto|]. apply in_seq in Hin. lia.
  Qed.

  Lemma full_distribution_total st :
    (0 < length st)%nat -> Forall (fun n => (0 <= n)%Z) st ->
    wf (full_distribution o nu p_i p2 st) /\ dtotal o (full_distribution o nu p_i p2 st) = 1.
  Proof.
    intros Hlen Hpos. unfold full_distribution.
    pose proof (group_empty_skip st) as Hskip.
    destruct (group_empty st) as [tg ts]. simpl in Hskip.
    destruct st as [|n0 st]; [simpl in Hlen; lia|].
    cbn [length seq combine fold_left].
    apply (fold_full_step_inv tg ts).
    - inversion Hpos; subst. clear - H2. revert H2. generalize 1%nat.
      induction st as [|n st IH]; intros k H; simpl; [constructor|].
      inversion H; subst. constructor; [simpl; assumption|]. apply IH. assumption.
    - apply full_step_first; [inversion Hpos; assumption|]. intros H0. apply Hskip in H0. lia.
  Qed.

  Lemma remap_total d : dtotal o (remap o d) = dtotal o d.
  Proof. unfold remap. rewrite dtotal_fold_dadd. unfold dtotal at 1. simpl. unfold dtotal. ring. Qed.

  Lemma build_full_total st :
    (0 < length st)%nat -> Forall (fun n => (0 <= n)%Z) st -> dtotal o (build_full o nu p_i p2 st) = 1.
  Proof. intros H1 H2. unfold build_full. rewrite remap_total. apply full_distribution_total; assumption. Qed.

  (* ---- _build_statistics_basic ---- *)
  Definition btot (l : list (K * state)) : K := suml o l fst.
  Definition binv (l : list (K * state)) : Prop := l = [] \/ btot l = 1.

  (* brightness <= 1: the only way [brightness < 1] can fail is brightness = 1 *)
  Hypothesis Hle : klt o nu 1 = false -> nu = 1.

  Lemma basic_sub_total n m : btot (basic_sub o nu n m) = 1.
  Proof.
    unfold basic_sub, btot. pose proof Hle as Hl. destruct (klt o nu 1); simpl; [ring|]. rewrite (Hl eq_refl). ring.
  Qed.

  Lemma bprod_total a b : btot (bprod o a b) = btot a * btot b.
  Proof.
    unfold btot, bprod. rewrite suml_flat_map.
    rewrite (suml_ext a _ (fun e1 => fst e1 * suml o b fst)).
    - apply suml_mul_r.
    - intros e1 _. rewrite suml_map. simpl. apply suml_mul_l.
  Qed.

  Lemma basic_photons_inv k sub stats : btot sub = 1 -> binv stats -> binv (basic_photons o k sub stats).
  Proof.
    intros Hs. revert stats; induction k as [|k IH]; intros stats H; simpl; [exact H|].
    apply IH. right. destruct stats as [|e stats]; [exact Hs|].
    destruct H as [H|H]; [discriminate|]. rewrite bprod_total, H, Hs. ring.
  Qed.

  Lemma basic_list_inv st : binv (basic_list o nu st).
  Proof.
    unfold basic_list. apply fold_left_invariant; [left; reflexivity|].
    intros stats [mode count] H. destruct (Z.eqb count 0); [exact H|].
    apply basic_photons_inv; [apply basic_sub_total|exact H].
  Qed.

  Lemma build_basic_total st : dtotal o (build_basic o nu st) = 1.
  Proof.
    unfold build_basic.
    pose proof (dtotal_fold_dadd st_eqb (basic_list o nu st) snd fst []) as T.
    destruct (basic_list_inv st) as [E|E].
    - rewrite E. simpl. unfold dtotal. simpl. ring.
    - destruct (fold_left _ (basic_list o nu st) []) as [|e d]; [unfold dtotal; simpl; ring|].
      rewrite T. unfold dtotal at 1. simpl. fold (btot (basic_list o nu st)). rewrite E. ring.
  Qed.

  (* ---- _build_statistics before thresholding ---- *)
  Lemma stats_raw_total purity indist st :
    st <> [] -> Forall (fun n => (0 <= n)%Z) st ->
    stats_total o (stats_raw o nu p_i p2 purity indist st) = 1.
  Proof.
    intros Hne Hpos. unfold stats_raw.
    destruct (keqb o purity 1 && keqb o indist 1); simpl; [apply build_basic_total|].
    apply build_full_total; [destruct st; [congruence|simpl; lia]|exact Hpos].
  Qed.
End Generic.

(* threshold + renormalisation (does not depend on the source parameters) *)
Section Threshold.
  Context {K : Type} {o : ops K} {SR : StarRing o}.
  Let R := sr_ring (o:=o).
  Add Ring Kr2 : R.

  Definition kept {A} (thr : K) (d : list (A * K)) : list (A * K) := filter (fun e => kleb o thr (snd e)) d.

  Lemma threshold_zero {A} thr (d : list (A * K)) : keqb o thr (k0 o) = true -> threshold o thr d = d.
  Proof. intros H. unfold threshold. rewrite H. reflexivity. Qed.

  Lemma threshold_total {A} thr (d : list (A * K)) :
    keqb o thr (k0 o) = false ->
    kmul o (dtotal o (kept thr d)) (kinv o (dtotal o (kept thr d))) = k1 o ->
    dtotal o (threshold o thr d) = k1 o.
  Proof.
    intros H Hinv. unfold threshold. rewrite H. fold (kept thr d).
    unfold dtotal at 1. rewrite suml_map. simpl. rewrite suml_mul_r. exact Hinv.
  Qed.

  (* every surviving entry is the old probability divided by the kept total *)
  Lemma threshold_entries {A} thr (d : list (A * K)) :
    keqb o thr (k0 o) = false ->
    threshold o thr d = map (fun e => (fst e, kmul o (snd e) (kinv o (dtotal o (kept thr d))))) (kept thr d).
  Proof. intros H. unfold threshold. rewrite H. reflexivity. Qed.
End Threshold.

(* ---- perfect settings reduce to the ideal source ---- *)
Section Perfect.
  Context {K : Type} {o : ops K} {SR : StarRing o}.
  Let R := sr_ring (o:=o).
  Add Ring Kr4 : R.
  Local Notation "1" := (k1 o).
  Local Notation "a * b" := (kmul o a b).

  Hypothesis Hlt11 : klt o 1 1 = false.       (* not (1 < 1) *)

  Lemma zip_add_map (f g : nat -> Z) l :
    zip_add (map f l) (map g l) = map (fun j => (f j + g j)%Z) l.
  Proof. induction l as [|x l IH]; simpl; [reflexivity|]. rewrite IH. reflexivity. Qed.

  Definition ind (m j : nat) (v : Z) : Z := if Nat.eqb m j then v else 0%Z.

  Lemma unit_vec_ind n m : unit_vec n m = map (fun j => ind m j 1%Z) (seq 0 n).
  Proof. reflexivity. Qed.

  Lemma basic_sub_perfect n m : basic_sub o 1 n m = [(1, unit_vec n m)].
  Proof. unfold basic_sub. rewrite Hlt11. reflexivity. Qed.

  Lemma basic_photons_one k n m (f : nat -> Z) :
    basic_photons o k [(1, unit_vec n m)] [(1, map f (seq 0 n))] =
    [(1, map (fun j => (f j + ind m j (Z.of_nat k))%Z) (seq 0 n))].
  Proof.
    revert f; induction k as [|k IH]; intros f.
    - simpl. f_equal. f_equal. apply map_ext. intros j. unfold ind. destruct (Nat.eqb m j); lia.
    - cbn [basic_photons bprod flat_map map app fst snd]. rewrite unit_vec_ind, zip_add_map.
      replace (1 * 1) with 1 by ring. rewrite <- unit_vec_ind, IH.
      f_equal. f_equal. apply map_ext. intros j. unfold ind. destruct (Nat.eqb m j); lia.
  Qed.

  Lemma basic_photons_first k n m :
    basic_photons o (S k) [(1, unit_vec n m)] [] =
    [(1, map (fun j => ind m j (Z.of_nat (S k))) (seq 0 n))].
  Proof.
    cbn [basic_photons]. rewrite unit_vec_ind at 2. rewrite basic_photons_one.
    f_equal. f_equal. apply map_ext. intros j. unfold ind. destruct (Nat.eqb m j); lia.
  Qed.

  Definition bstep (n : nat) (stats : list (K * state)) (mc : nat * Z) : list (K * state) :=
    let (mode, count) := mc in
    if Z.eqb count 0 then stats else basic_photons o (Z.to_nat count) (basic_sub o 1 n mode) stats.

  Lemma basic_fold_perfect st : forall rest done stats,
    st = done ++ rest -> Forall (fun x => (0 <= x)%Z) rest ->
    ((stats = [] /\ Forall (fun x => x = 0%Z) done) \/
     (exists h, stats = [(1, map h (seq 0 (length st)))] /\
                forall j, (j < length st)%nat -> h j = if Nat.ltb j (length done) then nth j st 0%Z else 0%Z)) ->
    let r := fold_left (bstep (length st)) (combine (seq (length done) (length rest)) rest) stats in
    (r = [] /\ Forall (fun x => x = 0%Z) st) \/
    (exists h, r = [(1, map h (seq 0 (length st)))] /\ forall j, (j < length st)%nat -> h j = nth j st 0%Z).
  Proof.
    induction rest as [|x rest IH]; intros done stats Hst Hpos Hinv.
    - simpl. rewrite app_nil_r in Hst. subst done. destruct Hinv as [H|(h & E & Hh)]; [left; exact H|].
      right. exists h. split; [exact E|]. intros j Hj. rewrite (Hh j Hj).
      destruct (Nat.ltb_spec j (length st)); [reflexivity|lia].
    - cbn [length seq combine fold_left].
      assert (Hst' : st = (done ++ [x]) ++ rest) by (rewrite <- app_assoc; exact Hst).
      assert (Hlen : length (done ++ [x]) = S (length done)) by (rewrite app_length; simpl; lia).
      assert (Hx : nth (length done) st 0%Z = x) by (rewrite Hst; apply nth_middle).
      assert (Hm : (length done < length st)%nat) by (rewrite Hst, app_length; simpl; lia).
      inversion Hpos as [|? ? Hx0 Hpos']; subst x0 l.
      specialize (IH (done ++ [x]) (bstep (length st) stats (length done, x)) Hst' Hpos').
      rewrite Hlen in IH. apply IH. clear IH.
      unfold bstep. destruct (Z.eqb_spec x 0) as [->|Hne].
      + destruct Hinv as [[E F]|(h & E & Hh)].
        * left. split; [exact E|]. apply Forall_app. split; [exact F|repeat constructor].
        * right. exists h. split; [exact E|]. intros j Hj. rewrite (Hh j Hj).
          destruct (Nat.ltb_spec j (length done)), (Nat.ltb_spec j (S (length done))); try lia; try reflexivity.
          assert (j = length done) by lia. subst j. symmetry. exact Hx.
      + right. rewrite basic_sub_perfect.
        destruct (Z.to_nat x) as [|k] eqn:Ek; [lia|].
        destruct Hinv as [[E F]|(h & E & Hh)].
        * subst stats. rewrite basic_photons_first. eexists. split; [reflexivity|].
          intros j Hj. cbv beta. unfold ind.
          destruct (Nat.eqb_spec (length done) j) as [<-|Hj'].
          -- destruct (Nat.ltb_spec (length done) (S (length done))); [|lia]. rewrite Hx. lia.
          -- destruct (Nat.ltb_spec j (S (length done))); [|reflexivity].
             assert (Hjd : (j < length done)%nat) by lia.
             rewrite Hst, app_nth1 by exact Hjd.
             symmetry. revert Hjd. clear - F. revert j. induction F as [|y d Hy F IHF]; intros j Hj; simpl in *; [lia|].
             destruct j; [exact Hy|]. apply IHF. lia.
        * subst stats. rewrite basic_photons_one. eexists. split; [reflexivity|].
          intros j Hj. cbv beta. rewrite (Hh j Hj). unfold ind.
          destruct (Nat.eqb_spec (length done) j) as [<-|Hj'].
          -- destruct (Nat.ltb_spec (length done) (length done)); [lia|].
             destruct (Nat.ltb_spec (length done) (S (length done))); [|lia]. rewrite Hx. lia.
          -- destruct (Nat.ltb_spec j (length done)), (Nat.ltb_spec j (S (length done))); try lia.
  Qed.

  Lemma map_nth_seq (l : list Z) : map (fun j => nth j l 0%Z) (seq 0 (length l)) = l.
  Proof.
    induction l as [|x l IH]; simpl; [reflexivity|]. f_equal.
    rewrite <- seq_shift, map_map. exact IH.
  Qed.

  Lemma build_basic_perfect st : Forall (fun x => (0 <= x)%Z) st -> build_basic o 1 st = [(st, 1)].
  Proof.
    intros Hpos. unfold build_basic, basic_list.
    pose proof (basic_fold_perfect st st [] [] eq_refl Hpos (or_introl (conj eq_refl (Forall_nil _)))) as H.
    cbn [length] in H. cbv zeta in H.
    change (fold_left (bstep (length st)) (combine (seq 0 (length st)) st) [])
      with (fold_left (fun stats (mc : nat * Z) =>
                 let (mode, count) := mc in
                 if Z.eqb count 0 then stats
                 else basic_photons o (Z.to_nat count) (basic_sub o 1 (length st) mode) stats)
              (combine (seq 0 (length st)) st) []) in H.
    destruct H as [[-> _]|(h & -> & Hh)]; [reflexivity|].
    simpl. replace (map h (seq 0 (length st))) with st; [reflexivity|].
    rewrite <- (map_nth_seq st) at 1. apply map_ext_in. intros j Hj. apply in_seq in Hj.
    symmetry. apply Hh. lia.
  Qed.

  Hypothesis Heq11 : keqb o 1 1 = true.
  Hypothesis Heq00 : keqb o (k0 o) (k0 o) = true.

  (* brightness = purity = indistinguishability = 1, no threshold: the input itself with probability 1 *)
  Lemma perfect_source_is_ideal p_i p2 st :
    Forall (fun x => (0 <= x)%Z) st ->
    build_statistics o 1 p_i p2 1 1 (k0 o) st = SBasic [(st, 1)].
  Proof.
    intros Hpos. unfold build_statistics, stats_raw. rewrite Heq11. simpl.
    rewrite (threshold_zero (o:=o)) by exact Heq00. rewrite build_basic_perfect by exact Hpos. reflexivity.
  Qed.
End Perfect.

(* ------------------------------------------------------------------ mixture *)
(* A weighted list l : list (X * K) denotes the (sub)distribution sum_i p_i delta_{x_i};
   [wsum l F] is the expectation of F.  Dictionaries built by accumulation denote the
   same distribution as the list they were built from. *)
Section Mixture.
  Context {K : Type} {o : ops K} {SR : StarRing o}.
  Let R := sr_ring (o:=o).
  Add Ring Kr5 : R.
  Local Notation "0" := (k0 o).
  Local Notation "1" := (k1 o).
  Local Notation "a + b" := (kadd o a b).
  Local Notation "a * b" := (kmul o a b).
  Local Notation "a - b" := (ksub o a b).

  Definition wsum {X} (l : list (X * K)) (F : X -> K) : K := suml o l (fun e => snd e * F (fst e)).

  Lemma wsum_ext {X} (l : list (X * K)) F G :
    (forall e, In e l -> F (fst e) = G (fst e)) -> wsum l F = wsum l G.
  Proof. intros H. apply suml_ext. intros e He. rewrite (H e He). reflexivity. Qed.

  Lemma wsum_app {X} (l1 l2 : list (X * K)) F : wsum (l1 ++ l2) F = wsum l1 F + wsum l2 F.
  Proof. apply suml_app. Qed.

  Lemma trivial_ring : 1 = 0 -> forall x y : K, x = y.
  Proof. intros H x y. transitivity (x * 1); [ring|]. rewrite H. transitivity (y * 0); [ring|]. rewrite <- H. ring. Qed.

  Section DictSem.
    Context {A : Type} (eqb : A -> A -> bool).
    Hypothesis eqb_eq : forall a b, eqb a b = true <-> a = b.

    Lemma eqb_refl' a : eqb a a = true.
    Proof. apply eqb_eq. reflexivity. Qed.

    (* total weight of key x in a weighted list *)
    Definition dsum (d : list (A * K)) (x : A) : K := suml o d (fun e => if eqb (fst e) x then snd e else 0).

    Lemma wsum_dadd (d : list (A * K)) k v F : wsum (dadd eqb o d k v) F = wsum d F + v * F k.
    Proof.
      unfold wsum. induction d as [|[k' v'] d IH]; simpl; [ring|].
      destruct (eqb k' k) eqn:E; simpl.
      - apply eqb_eq in E. subst k'. ring.
      - rewrite IH. ring.
    Qed.

    Lemma wsum_fold_dadd {B} (l : list B) (f : B -> A) (g : B -> K) acc F :
      wsum (fold_left (fun d e => dadd eqb o d (f e) (g e)) l acc) F
      = wsum acc F + suml o l (fun e => g e * F (f e)).
    Proof.
      revert acc; induction l as [|e l IH]; intros acc; simpl; [ring|].
      rewrite IH, wsum_dadd. ring.
    Qed.

    Lemma wsum_acc (l : list (A * K)) F :
      wsum (fold_left (fun d e => dadd eqb o d (fst e) (snd e)) l []) F = wsum l F.
    Proof. rewrite wsum_fold_dadd. unfold wsum. simpl. ring. Qed.

    Lemma dget_dadd (d : list (A * K)) k v x :
      dget eqb o (dadd eqb o d k v) x = dget eqb o d x + (if eqb k x then v else 0).
    Proof.
      induction d as [|[k' v'] d IH]; simpl; [destruct (eqb k x); ring|].
      destruct (eqb k' k) eqn:E; simpl.
      - apply eqb_eq in E. subst k'. destruct (eqb k x); ring.
      - destruct (eqb k' x) eqn:E2.
        + destruct (eqb k x) eqn:E3; [|ring]. apply eqb_eq in E2, E3. subst. rewrite eqb_refl' in E. discriminate.
        + apply IH.
    Qed.

    Lemma dget_fold_dadd {B} (l : list B) (f : B -> A) (g : B -> K) acc x :
      dget eqb o (fold_left (fun d e => dadd eqb o d (f e) (g e)) l acc) x
      = dget eqb o acc x + suml o l (fun e => if eqb (f e) x then g e else 0).
    Proof.
      revert acc; induction l as [|e l IH]; intros acc; simpl; [ring|].
      rewrite IH, dget_dadd. ring.
    Qed.

    Lemma dsum_nodup (d : list (A * K)) x : NoDup (dkeys d) -> dsum d x = dget eqb o d x.
    Proof.
      unfold dsum. induction d as [|[k v] d IH]; simpl; intros H; [reflexivity|].
      inversion H as [|? ? Hn H']; subst. rewrite (IH H').
      destruct (eqb k x) eqn:E; [|ring]. apply eqb_eq in E. subst k.
      assert (Z0 : dget eqb o d x = 0).
      { clear - Hn eqb_eq. induction d as [|[k v] d IH]; simpl in *; [reflexivity|].
        destruct (eqb k x) eqn:E; [apply eqb_eq in E; subst; exfalso; apply Hn; left; reflexivity|].
        apply IH. intros Hin. apply Hn. right. exact Hin. }
      rewrite Z0. ring.
    Qed.

    (* the point mass decomposition: dsum is the expectation of an indicator *)
    Lemma dsum_wsum (d : list (A * K)) x : dsum d x = wsum d (fun k => if eqb k x then 1 else 0).
    Proof. unfold dsum, wsum. apply suml_ext. intros e _. destruct (eqb (fst e) x); ring. Qed.
  End DictSem.

  Lemma wsum_map {X Y} (h : X -> Y) (w : X -> K) (l : list X) F :
    wsum (map (fun x => (h x, w x)) l) F = suml o l (fun x => w x * F (h x)).
  Proof. unfold wsum. rewrite suml_map. reflexivity. Qed.

  Lemma wsum_flat_map {X Y} (h : X -> list (Y * K)) (l : list X) F :
    wsum (flat_map h l) F = suml o l (fun x => wsum (h x) F).
  Proof. unfold wsum. apply suml_flat_map. Qed.

  Lemma wsum_scale {X} (l : list (X * K)) c F : wsum l (fun x => c * F x) = c * wsum l F.
  Proof.
    unfold wsum. rewrite <- suml_mul_l. apply suml_ext. intros e _. ring.
  Qed.

  Lemma wsum_filter_zero {X} (keep : X * K -> bool) (l : list (X * K)) F :
    (forall e, In e l -> keep e = false -> snd e = 0) -> wsum (filter keep l) F = wsum l F.
  Proof.
    intros H. unfold wsum. apply suml_filter_zero. intros e He Hk. rewrite (H e He Hk). ring.
  Qed.
End Mixture.
Arguments wsum {K} o {X} l F.
Arguments dsum {K} o {A} eqb d x.

(* ---- output side: convolution of independent groups, mixture over inputs ---- *)
Section OutputP.
  Context {K : Type} {o : ops K} {SR : StarRing o}.
  Let R := sr_ring (o:=o).
  Add Ring Kr6 : R.
  Local Notation "0" := (k0 o).
  Local Notation "1" := (k1 o).
  Local Notation "a + b" := (kadd o a b).
  Local Notation "a * b" := (kmul o a b).

  Variable D : state -> list (state * K).
  Variable n_modes : nat.

  Definition conv_list (p q : list (state * K)) : list (state * K) :=
    flat_map (fun e1 => map (fun e2 => (zip_add (fst e1) (fst e2), snd e1 * snd e2)) q) p.

  Lemma conv_eq p q :
    conv o p q = fold_left (fun acc e => dadd st_eqb o acc (fst e) (snd e)) (conv_list p q) [].
  Proof.
    unfold conv, conv_list. rewrite fold_left_flat_map. apply fold_left_ext_in.
    intros a e1 _. rewrite fold_left_map'. reflexivity.
  Qed.

  (* expectation under the convolution = iterated expectation of F(s1 + s2) *)
  Lemma conv_spec p q F :
    wsum o (conv o p q) F = wsum o p (fun s1 => wsum o q (fun s2 => F (zip_add s1 s2))).
  Proof.
    rewrite conv_eq, (wsum_acc st_eqb st_eqb_eq). unfold conv_list. rewrite wsum_flat_map.
    transitivity (suml o p (fun e1 => snd e1 * wsum o q (fun s2 => F (zip_add (fst e1) s2)))); [|reflexivity].
    apply suml_ext. intros e1 _. rewrite wsum_map. unfold wsum. rewrite <- suml_mul_l.
    apply suml_ext. intros e2 _. unfold state. ring.
  Qed.

  Lemma dadd_nonempty {A} (eqb : A -> A -> bool) (d : list (A * K)) k v : dadd eqb o d k v <> [].
  Proof. destruct d as [|[k' v'] d]; simpl; [discriminate|]. destruct (eqb k' k); discriminate. Qed.

  Lemma fold_dadd_nonempty {A B} (eqb : A -> A -> bool) (l : list B) f g acc :
    (l <> [] \/ acc <> []) -> fold_left (fun d e => dadd eqb o d (f e) (g e)) l acc <> [].
  Proof.
    revert acc; induction l as [|e l IH]; intros acc H; simpl.
    - destruct H; congruence.
    - apply IH. right. apply dadd_nonempty.
  Qed.

  Lemma conv_nonempty p q : p <> [] -> q <> [] -> conv o p q <> [].
  Proof.
    intros Hp Hq. rewrite conv_eq. apply fold_dadd_nonempty. left.
    destruct p as [|e1 p]; [congruence|]. destruct q as [|e2 q]; [congruence|]. discriminate.
  Qed.

  (* iterated expectation over the groups: every group is sampled independently
     from its own boson-sampling distribution and the occupations are added *)
  Fixpoint gexp (gs : list state) (acc : state) (F : state -> K) : K :=
    match gs with
    | [] => F acc
    | g :: gs' => wsum o (D g) (fun s => gexp gs' (zip_add acc s) F)
    end.
  Definition groups_expect (gs : list state) (F : state -> K) : K :=
    match gs with
    | [] => 0
    | g :: gs' => wsum o (D g) (fun s => gexp gs' s F)
    end.

  Lemma combine_fold_spec gs pd F :
    pd <> [] -> (forall g, In g gs -> D g <> []) ->
    wsum o (fold_left (fun pd g => match pd with [] => D g | _ => conv o pd (D g) end) gs pd) F
    = wsum o pd (fun s => gexp gs s F).
  Proof.
    revert pd; induction gs as [|g gs IH]; intros pd Hpd HD; simpl; [reflexivity|].
    destruct pd as [|e pd]; [congruence|].
    rewrite IH.
    - rewrite conv_spec. reflexivity.
    - apply conv_nonempty; [discriminate|]. apply HD. left. reflexivity.
    - intros g' Hg'. apply HD. right. exact Hg'.
  Qed.

  Lemma combine_groups_spec gs F :
    (forall g, In g gs -> D g <> []) ->
    wsum o (combine_groups o D gs) F = groups_expect gs F.
  Proof.
    intros HD. unfold combine_groups. destruct gs as [|g gs]; simpl; [unfold wsum; reflexivity|].
    apply combine_fold_spec; [apply HD; left; reflexivity|]. intros g' Hg'. apply HD. right. exact Hg'.
  Qed.

  (* annotated_state_pdist_calc is the mixture, over the inputs, of the per-input outputs *)
  Lemma annotated_pdist_flat inputs :
    annotated_pdist o D n_modes inputs =
    fold_left (fun acc e => dadd st_eqb o acc (fst e) (snd e))
              (flat_map (fun e => map (fun oe => (fst oe, snd e * snd oe))
                                      (combine_groups o D (decompose n_modes (fst e)))) inputs) [].
  Proof.
    unfold annotated_pdist. rewrite fold_left_flat_map. apply fold_left_ext_in.
    intros a e _. rewrite fold_left_map'. reflexivity.
  Qed.

  Lemma annotated_pdist_spec inputs F :
    wsum o (annotated_pdist o D n_modes inputs) F
    = wsum o inputs (fun a => wsum o (combine_groups o D (decompose n_modes a)) F).
  Proof.
    rewrite annotated_pdist_flat, (wsum_acc st_eqb st_eqb_eq), wsum_flat_map.
    transitivity (suml o inputs (fun e => snd e * wsum o (combine_groups o D (decompose n_modes (fst e))) F));
      [|reflexivity].
    apply suml_ext. intros e _. rewrite wsum_map. unfold wsum. rewrite <- suml_mul_l.
    apply suml_ext. intros oe _. ring.
  Qed.

  Lemma annotated_pdist_nodup inputs : NoDup (dkeys (annotated_pdist o D n_modes inputs)).
  Proof. rewrite annotated_pdist_flat. apply (fold_dadd_keys st_eqb o st_eqb_eq). constructor. Qed.

  (* the probability of an output pattern is the expectation of its indicator *)
  Lemma annotated_pdist_prob inputs x :
    dget st_eqb o (annotated_pdist o D n_modes inputs) x
    = wsum o (annotated_pdist o D n_modes inputs) (fun s => if st_eqb s x then 1 else 0).
  Proof.
    rewrite <- (dsum_nodup st_eqb st_eqb_eq) by apply annotated_pdist_nodup. apply dsum_wsum.
  Qed.
End OutputP.

(* ---- specification of the input side: independent per-photon outcomes ---- *)
Section Spec.
  Context {K : Type} (o : ops K).
  Variables nu p_i p2 : K.

  (* all outcome vectors of the n photons emitted into one mode: the labels of the
     photons that are present (concatenated) and the product of the table entries;
     every photon draws from its own copy of the six-entry table (fresh labels) *)
  Fixpoint mode_outcomes (n : nat) (cnt : Z) : list (list Z * K) :=
    match n with
    | O => [([], k1 o)]
    | S n' => lprod o (photon_table o nu p_i p2 cnt) (mode_outcomes n' (cnt + 2)%Z)
    end.

  (* ... and of all modes of the input state: one label list per mode *)
  Fixpoint state_outcomes (st : state) (cnt : Z) : list (list (list Z) * K) :=
    match st with
    | [] => [([], k1 o)]
    | n :: st' =>
        flat_map (fun m => map (fun r => (fst m :: fst r, kmul o (snd m) (snd r)))
                               (state_outcomes st' (cnt + 2 * Z.of_nat (Z.to_nat n))%Z))
                 (mode_outcomes (Z.to_nat n) cnt)
    end.
End Spec.

Section SourceMix.
  Context {K : Type} {o : ops K} {SR : StarRing o}.
  Let R := sr_ring (o:=o).
  Add Ring Kr7 : R.
  Local Notation "0" := (k0 o).
  Local Notation "1" := (k1 o).
  Local Notation "a + b" := (kadd o a b).
  Local Notation "a * b" := (kmul o a b).

  Variables nu p_i p2 : K.
  Hypothesis Hfilter : filter_sound (o:=o) nu p_i p2.

  Lemma wsum_single {X} (x : X) F : wsum o [(x, 1)] F = F x.
  Proof. unfold wsum. simpl. ring. Qed.

  Lemma wsum_lprod A B F :
    wsum o (lprod o A B) F = wsum o A (fun a => wsum o B (fun b => F (a ++ b))).
  Proof.
    unfold lprod. rewrite wsum_flat_map.
    transitivity (suml o A (fun e1 => snd e1 * wsum o B (fun b => F (fst e1 ++ b)))); [|reflexivity].
    apply suml_ext. intros e1 _. rewrite wsum_map. unfold wsum. rewrite <- suml_mul_l.
    apply suml_ext. intros e2 _. ring.
  Qed.

  Lemma single_photon_wsum cnt F :
    wsum o (single_photon o nu p_i p2 cnt) F = wsum o (photon_table o nu p_i p2 cnt) F.
  Proof.
    unfold single_photon. apply wsum_filter_zero. intros [l c] Hin Hc. simpl in *.
    apply Hfilter; [|exact Hc]. unfold photon_table in Hin. simpl in Hin.
    repeat (destruct Hin as [Hin|Hin]; [injection Hin as _ <-; simpl; tauto|]). destruct Hin.
  Qed.

  Lemma ltot_wsum l : ltot (o:=o) l = wsum o l (fun _ => 1).
  Proof. unfold ltot, wsum. apply suml_ext. intros; ring. Qed.

  Lemma empty_total_trivial {X} (l : list (X * K)) (tot : K) : l = [] -> tot = 1 -> tot = 0 -> forall x y : K, x = y.
  Proof. intros _ H1 H0. apply trivial_ring. congruence. Qed.

  Lemma mode_list_spec n cnt acc F :
    ltot (o:=o) acc = 1 ->
    wsum o (mode_list o nu p_i p2 n cnt acc) F
    = wsum o acc (fun a => wsum o (mode_outcomes o nu p_i p2 n cnt) (fun b => F (a ++ b))).
  Proof.
    revert cnt acc; induction n as [|n IH]; intros cnt acc Hacc.
    - cbn [mode_list mode_outcomes]. apply wsum_ext. intros e _. rewrite wsum_single, app_nil_r. reflexivity.
    - cbn [mode_list mode_outcomes]. destruct acc as [|e acc].
      + apply trivial_ring. rewrite <- Hacc. reflexivity.
      + rewrite IH.
        * rewrite wsum_lprod. apply wsum_ext. intros a _. rewrite single_photon_wsum, wsum_lprod.
          apply wsum_ext. intros c _. apply wsum_ext. intros b _. rewrite app_assoc. reflexivity.
        * rewrite (lprod_total (o:=o)), Hacc, (single_photon_total nu p_i p2 Hfilter). ring.
  Qed.

  Lemma mode_list_first n cnt F :
    wsum o (mode_list o nu p_i p2 (S n) cnt []) F = wsum o (mode_outcomes o nu p_i p2 (S n) cnt) F.
  Proof.
    cbn [mode_list mode_outcomes]. rewrite mode_list_spec by (apply (single_photon_total nu p_i p2 Hfilter)).
    rewrite single_photon_wsum, wsum_lprod. reflexivity.
  Qed.

  Lemma single_mode_cnt n cnt :
    snd (single_mode o nu p_i p2 n cnt) = (cnt + 2 * Z.of_nat (Z.to_nat n))%Z.
  Proof. unfold single_mode. destruct (Z.eqb_spec n 0) as [->|]; simpl; [lia|reflexivity]. Qed.

  Lemma single_mode_spec n cnt F :
    (0 <= n)%Z ->
    wsum o (fst (single_mode o nu p_i p2 n cnt)) F
    = wsum o (mode_outcomes o nu p_i p2 (Z.to_nat n) cnt) (fun l => F (an_make [l])).
  Proof.
    intros Hn. unfold single_mode. destruct (Z.eqb_spec n 0) as [->|Hne]; cbn [fst].
    - change (Z.to_nat 0) with 0%nat. cbn [mode_outcomes]. rewrite !wsum_single. reflexivity.
    - rewrite (wsum_fold_dadd an_eqb an_eqb_eq). unfold wsum at 1. cbn [suml fold_right].
      destruct (Z.to_nat n) as [|k] eqn:E; [lia|].
      match goal with |- 0 + ?x = _ => transitivity x; [ring|] end.
      transitivity (wsum o (mode_list o nu p_i p2 (S k) cnt []) (fun l => F (an_make [l]))).
      + unfold wsum. apply suml_ext. intros e _. unfold an_make. simpl. rewrite sort_asc_idem. reflexivity.
      + apply mode_list_first.
  Qed.

  Lemma wsum_plist dist calc (F : astate -> K) :
    wsum o (plist (o:=o) dist calc) F = wsum o dist (fun a => wsum o calc (fun c => F (a ++ c))).
  Proof.
    unfold plist. rewrite wsum_flat_map.
    transitivity (suml o dist (fun e1 => snd e1 * wsum o calc (fun c => F (fst e1 ++ c)))); [|reflexivity].
    apply suml_ext. intros e1 _. rewrite wsum_map. unfold wsum. rewrite <- suml_mul_l.
    apply suml_ext. intros e2 _. unfold astate. ring.
  Qed.

  Lemma wsum_state_outcomes_cons n st cnt (G : list (list Z) -> K) :
    wsum o (state_outcomes o nu p_i p2 (n :: st) cnt) G
    = wsum o (mode_outcomes o nu p_i p2 (Z.to_nat n) cnt)
           (fun l => wsum o (state_outcomes o nu p_i p2 st (cnt + 2 * Z.of_nat (Z.to_nat n))%Z) (fun r => G (l :: r))).
  Proof.
    cbn [state_outcomes]. rewrite wsum_flat_map.
    match goal with |- _ = wsum o ?A ?H => transitivity (suml o A (fun e1 => snd e1 * H (fst e1))); [|reflexivity] end.
    apply suml_ext. intros e1 _. rewrite wsum_map. unfold wsum. rewrite <- suml_mul_l.
    apply suml_ext. intros e2 _. ring.
  Qed.

  (* the fold of _full_distribution when no run of empty modes is grouped *)
  Lemma full_fold_spec l : forall dist cnt F,
    Forall (fun im : nat * Z => (0 <= snd im)%Z) l -> inv (o:=o) (dist, cnt) ->
    wsum o (fst (fold_left (full_step o nu p_i p2 [] []) l (dist, cnt))) F
    = wsum o dist (fun a => wsum o (state_outcomes o nu p_i p2 (map snd l) cnt) (fun raw => F (a ++ an_make raw))).
  Proof.
    induction l as [|[i n] l IH]; intros dist cnt F Hl Hinv.
    - cbn [fold_left fst map state_outcomes]. apply wsum_ext. intros e _. rewrite wsum_single. unfold an_make. simpl. rewrite app_nil_r. reflexivity.
    - inversion Hl as [|? ? Hn Hl']; subst. simpl in Hn.
      destruct Hinv as [W T]. simpl in W, T.
      destruct dist as [|e dist]; [apply trivial_ring; rewrite <- T; reflexivity|].
      cbn [fold_left map snd]. unfold full_step at 2. cbn [existsb lookup_nat].
      pose proof (single_mode_total nu p_i p2 Hfilter n cnt Hn) as T'.
      pose proof (single_mode_wf (o:=o) nu p_i p2 n cnt) as W'.
      pose proof (single_mode_spec n cnt) as S'. pose proof (single_mode_cnt n cnt) as C'.
      destruct (single_mode o nu p_i p2 n cnt) as [calc cnt']. simpl in T', W', S', C'. subst cnt'.
      rewrite (dist_product_spec (o:=o) _ _ W W').
      rewrite IH; [|exact Hl'|].
      + rewrite wsum_plist. apply wsum_ext. intros a _. rewrite S' by exact Hn.
        rewrite wsum_state_outcomes_cons. apply wsum_ext. intros m _. apply wsum_ext. intros r _.
        rewrite <- app_assoc. reflexivity.
      + split; cbn [fst]; [apply plist_wf; assumption|]. rewrite plist_total, T, T'. ring.
  Qed.

  Lemma map_snd_combine_seq (st : state) k : map snd (combine (seq k (length st)) st) = st.
  Proof. revert k; induction st as [|x st IH]; intros k; simpl; [reflexivity|]. rewrite IH. reflexivity. Qed.

  Lemma Forall_combine_seq (st : state) k :
    Forall (fun n => (0 <= n)%Z) st -> Forall (fun im : nat * Z => (0 <= snd im)%Z) (combine (seq k (length st)) st).
  Proof.
    revert k; induction st as [|x st IH]; intros k H; simpl; [constructor|].
    inversion H; subst. constructor; [assumption|]. apply IH. assumption.
  Qed.

  (* independent per-photon outcomes: the (unmerged, unrelabelled) input dictionary denotes
     the product distribution of the per-photon tables *)
  Lemma full_distribution_spec_partial st F :
    group_empty st = ([], []) -> st <> [] -> Forall (fun n => (0 <= n)%Z) st ->
    wsum o (full_distribution o nu p_i p2 st) F
    = wsum o (state_outcomes o nu p_i p2 st 1%Z) (fun raw => F (an_make raw)).
  Proof.
    intros Hg Hne Hpos. unfold full_distribution. rewrite Hg.
    destruct st as [|n0 st]; [congruence|]. inversion Hpos as [|? ? Hn0 Hpos']; subst.
    cbn [length seq combine fold_left]. unfold full_step at 2. cbn [existsb lookup_nat].
    pose proof (single_mode_total nu p_i p2 Hfilter n0 1%Z Hn0) as T'.
    pose proof (single_mode_wf (o:=o) nu p_i p2 n0 1%Z) as W'.
    pose proof (single_mode_spec n0 1%Z) as S'. pose proof (single_mode_cnt n0 1%Z) as C'.
    destruct (single_mode o nu p_i p2 n0 1%Z) as [calc cnt']. simpl in T', W', S', C'. subst cnt'.
    rewrite full_fold_spec; [|apply Forall_combine_seq; exact Hpos'|split; assumption].
    rewrite map_snd_combine_seq, S' by exact Hn0. rewrite wsum_state_outcomes_cons.
    apply wsum_ext. intros m _. apply wsum_ext. intros r _. reflexivity.
  Qed.

  Lemma remap_spec d (F : astate -> K) : wsum o (remap o d) F = wsum o d (fun a => F (relabel a)).
  Proof.
    unfold remap. rewrite (wsum_fold_dadd an_eqb an_eqb_eq). unfold wsum. simpl. ring.
  Qed.
End SourceMix.

(* ---- the whole annotated pipeline as a mixture ---- *)
Section MixtureSpec.
  Context {K : Type} {o : ops K} {SR : StarRing o}.
  Variables nu p_i p2 : K.
  Hypothesis Hfilter : filter_sound (o:=o) nu p_i p2.
  Variable D : state -> list (state * K).
  Variable n_modes : nat.
  Hypothesis HD : forall g, D g <> [].         (* the backend never returns an empty dictionary *)

  (* expected value of F on the output when the photons carry the labels [raw]:
     equal labels form one group (they interfere: one boson-sampling distribution),
     different labels are sampled independently and their occupations add up *)
  Definition outcome_output (raw : list (list Z)) (F : state -> K) : K :=
    groups_expect (o:=o) D (decompose n_modes (an_make raw)) F.

  Lemma mixture_spec_partial st F :
    group_empty st = ([], []) -> st <> [] -> Forall (fun n => (0 <= n)%Z) st ->
    (forall raw, In raw (map fst (state_outcomes o nu p_i p2 st 1%Z)) ->
                 decompose n_modes (relabel (an_make raw)) = decompose n_modes (an_make raw)) ->
    wsum o (annotated_pdist o D n_modes (build_full o nu p_i p2 st)) F
    = wsum o (state_outcomes o nu p_i p2 st 1%Z) (fun raw => outcome_output raw F).
  Proof.
    intros Hg Hne Hpos Hrel. rewrite annotated_pdist_spec. unfold build_full.
    rewrite remap_spec, (full_distribution_spec_partial nu p_i p2 Hfilter) by assumption.
    apply wsum_ext. intros e He. rewrite combine_groups_spec by (intros; apply HD).
    unfold outcome_output. rewrite Hrel; [reflexivity|]. apply in_map. exact He.
  Qed.
End MixtureSpec.

(* ---- Hong-Ou-Mandel: two photons on a beam splitter ---- *)
Section HOM.
  Context {K : Type} {o : ops K} {SR : StarRing o}.
  Let R := sr_ring (o:=o).
  Add Ring Kr8 : R.
  Local Notation "0" := (k0 o).
  Local Notation "1" := (k1 o).
  Local Notation "a + b" := (kadd o a b).
  Local Notation "a * b" := (kmul o a b).
  Local Notation "a - b" := (ksub o a b).

  (* beam splitter [[c, i s], [i s, c]] with real c, s; r = c^2, t = s^2 *)
  Variables c s : K.
  Definition bs_r : K := c * c.
  Definition bs_t : K := s * s.

  (* permanent of the 2x2 matrix = amplitude <1,1|U|1,1> = c c + (i s)(i s), a real number *)
  Lemma bs_coincidence_amplitude :
    kadd (cplx o) (kmul (cplx o) (c, 0) (c, 0)) (kmul (cplx o) (0, s) (0, s)) = (bs_r - bs_t, 0).
  Proof. unfold bs_r, bs_t. simpl. unfold cadd, cmul. simpl. f_equal; ring. Qed.

  (* the boson-sampling distributions of the groups that can occur (oracle instance):
     |<2,0|U|1,1>|^2 = |sqrt2 c (i s)|^2 = 2 r t,  |<1,1|U|1,1>|^2 = (r - t)^2 *)
  Definition D_bs (g : state) : list (state * K) :=
    if st_eqb g [1; 1]%Z then [([2; 0]%Z, ktwo o * bs_r * bs_t); ([1; 1]%Z, (bs_r - bs_t) * (bs_r - bs_t));
                                ([0; 2]%Z, ktwo o * bs_r * bs_t)]
    else if st_eqb g [1; 0]%Z then [([1; 0]%Z, bs_r); ([0; 1]%Z, bs_t)]
    else if st_eqb g [0; 1]%Z then [([1; 0]%Z, bs_t); ([0; 1]%Z, bs_r)]
    else [(g, 1)].

  Lemma D_bs_nonempty g : D_bs g <> [].
  Proof. unfold D_bs. repeat match goal with |- context [if ?b then _ else _] => destruct b end; discriminate. Qed.

  Variable p_i : K.
  (* 0 <= p_i <= 1, as far as the [p > 0] filter is concerned *)
  Hypothesis Hpi : gt0 o p_i = false -> p_i = 0.
  Hypothesis Hpd : gt0 o (1 - p_i) = false -> 1 - p_i = 0.

  Lemma hom_filter_sound : filter_sound (o:=o) 1 p_i 0.
  Proof.
    intros x Hin Hx. cbn [In] in Hin.
    assert (E1 : Source.c1 o 1 p_i 0 = p_i) by (unfold Source.c1, p1; ring).
    assert (E2 : c1d o 1 p_i 0 = 1 - p_i) by (unfold c1d, p1, p_d; ring).
    destruct Hin as [<-|[<-|[<-|[<-|[<-|[<-|[]]]]]]].
    - unfold c0, p1, ktwo. ring.
    - rewrite E1 in *. auto.
    - rewrite E2 in *. auto.
    - unfold c1dp. ring.
    - unfold c12d. ring.
    - unfold c1d2d, p_d. ring.
  Qed.

  Definition coincidence (s : state) : K := if st_eqb s [1; 1]%Z then 1 else 0.

  Lemma hom_annotated :
    dget st_eqb o (annotated_pdist o D_bs 2 (build_full o 1 p_i 0 [1; 1]%Z)) [1; 1]%Z
    = p_i * p_i * ((bs_r - bs_t) * (bs_r - bs_t)) + (1 - p_i * p_i) * (bs_r * bs_r + bs_t * bs_t).
  Proof.
    rewrite annotated_pdist_prob.
    rewrite (mixture_spec_partial 1 p_i 0 hom_filter_sound D_bs 2 D_bs_nonempty).
    - cbv - [kadd kmul ksub kopp k0 k1]. ring.
    - reflexivity.
    - discriminate.
    - repeat constructor; discriminate.
    - intros raw Hin. vm_compute in Hin.
      repeat (destruct Hin as [<-|Hin]; [vm_compute; reflexivity|]). destruct Hin.
  Qed.
End HOM.

(* ---- _remap_distribution only merges label-isomorphic states ---- *)
Section RemapSound.
  Lemma In_dedup_from seen l x : In x (dedup_from seen l) <-> In x l /\ ~ In x seen.
  Proof.
    revert seen; induction l as [|y l IH]; intros seen; simpl; [tauto|].
    destruct (existsb (Z.eqb y) seen) eqn:E.
    - apply existsb_exists in E as (z & Hz & Ez). apply Z.eqb_eq in Ez. subst z.
      rewrite IH. split; [tauto|]. intros [[->|H] Hn]; [contradiction|tauto].
    - assert (Hy : ~ In y seen).
      { intros H. assert (existsb (Z.eqb y) seen = true) by (apply existsb_exists; exists y; split; [exact H|apply Z.eqb_refl]). congruence. }
      simpl. rewrite IH. simpl. split.
      + intros [->|[H1 H2]]; [tauto|]. split; [tauto|]. intros H. apply H2. right. exact H.
      + intros [[->|H1] H2]; [tauto|]. destruct (Z.eq_dec y x) as [->|Hne]; [tauto|]. right. split; [exact H1|].
        intros [H|H]; [congruence|contradiction].
  Qed.

  Lemma In_dedup l x : In x (dedup l) <-> In x l.
  Proof. unfold dedup. rewrite In_dedup_from. simpl. tauto. Qed.

  Lemma NoDup_dedup_from seen l : NoDup (dedup_from seen l).
  Proof.
    revert seen; induction l as [|y l IH]; intros seen; simpl; [constructor|].
    destruct (existsb (Z.eqb y) seen); [apply IH|]. constructor; [|apply IH].
    rewrite In_dedup_from. simpl. tauto.
  Qed.

  Lemma index_of_inj labs x y :
    In x labs -> In y labs -> index_of labs x = index_of labs y -> x = y.
  Proof.
    induction labs as [|z labs IH]; cbn [index_of In]; intros Hx Hy E; [contradiction|].
    assert (P : forall l w, (0 <= index_of l w)%Z).
    { clear. induction l as [|a l IHl]; intros w; cbn [index_of]; [lia|]. destruct (Z.eqb a w); [lia|]. specialize (IHl w). lia. }
    revert E. destruct (Z.eqb_spec z x) as [Ezx|Hzx], (Z.eqb_spec z y) as [Ezy|Hzy]; intros E.
    - congruence.
    - pose proof (P labs y). lia.
    - pose proof (P labs x). lia.
    - apply IH; [destruct Hx; congruence|destruct Hy; congruence|lia].
  Qed.

  (* the canonical key is an injective relabelling of the state ... *)
  Lemma relabel_injective_copy a :
    let f := index_of (dedup (concat a)) in
    (forall x y, In x (concat a) -> In y (concat a) -> f x = f y -> x = y) /\
    relabel a = an_make (map (map f) a).
  Proof.
    split; [|reflexivity]. intros x y Hx Hy. apply index_of_inj; apply In_dedup; assumption.
  Qed.

  (* ... hence two states are merged only if, after injective relabellings, every mode holds
     the same multiset of labels *)
  Lemma remap_sound a b :
    relabel a = relabel b ->
    exists fa fb,
      (forall x y, In x (concat a) -> In y (concat a) -> fa x = fa y -> x = y) /\
      (forall x y, In x (concat b) -> In y (concat b) -> fb x = fb y -> x = y) /\
      Forall2 (@Permutation Z) (map (map fa) a) (map (map fb) b).
  Proof.
    intros E. exists (index_of (dedup (concat a))), (index_of (dedup (concat b))).
    destruct (relabel_injective_copy a) as [Ia Ea], (relabel_injective_copy b) as [Ib Eb].
    repeat split; [exact Ia|exact Ib|]. apply an_make_eq_iff. congruence.
  Qed.

  (* merging in the dictionaries happens only between identical keys *)
  Lemma remap_keys {K} (o : ops K) d x :
    In x (dkeys (remap o d)) <-> exists e, In e d /\ x = relabel (fst e).
  Proof.
    unfold remap. pose proof (fold_dadd_keys an_eqb o an_eqb_eq d (fun e => relabel (fst e)) snd []) as [_ H].
    rewrite H. simpl. split; [intros [[]|H']; exact H'|intros H'; right; exact H'].
  Qed.
End RemapSound.

(* ---- relabelling does not change the decomposition into groups ---- *)
From Coq Require Import Sorting.Sorted.

Section RelabelInvariant.
  Definition zseq (t n : nat) : list Z := map Z.of_nat (seq t n).

  Lemma In_zseq t n y : In y (zseq t n) <-> (Z.of_nat t <= y < Z.of_nat (t + n))%Z.
  Proof.
    unfold zseq. rewrite in_map_iff. split.
    - intros (x & <- & Hx). apply in_seq in Hx. lia.
    - intros H. exists (Z.to_nat y). split; [lia|]. apply in_seq. lia.
  Qed.

  Lemma zseq_app t n m : zseq t (n + m) = zseq t n ++ zseq (t + n) m.
  Proof. unfold zseq. rewrite seq_app, map_app. reflexivity. Qed.

  Lemma existsb_eqb_In y l : existsb (Z.eqb y) l = true <-> In y l.
  Proof.
    rewrite existsb_exists. split.
    - intros (x & Hx & E). apply Z.eqb_eq in E. subst. exact Hx.
    - intros H. exists y. split; [exact H|apply Z.eqb_refl].
  Qed.

  Lemma dedup_from_app seen l1 l2 :
    dedup_from seen (l1 ++ l2) = dedup_from seen l1 ++ dedup_from (rev (dedup_from seen l1) ++ seen) l2.
  Proof.
    revert seen; induction l1 as [|x l1 IH]; intros seen; simpl; [reflexivity|].
    destruct (existsb (Z.eqb x) seen); [apply IH|].
    simpl. rewrite IH. rewrite <- app_assoc. reflexivity.
  Qed.

  Lemma insert_asc_sorted x l : StronglySorted Z.le l -> StronglySorted Z.le (insert_asc x l).
  Proof.
    induction 1 as [|y l Hs IH Hall]; simpl; [repeat constructor|].
    destruct (Z.leb_spec x y).
    - constructor; [constructor; assumption|]. constructor; [assumption|].
      eapply Forall_impl; [|exact Hall]. intros z Hz. simpl in Hz. lia.
    - constructor; [exact IH|]. apply Forall_forall. intros z Hz.
      apply (Permutation_in _ (insert_asc_perm x l)) in Hz. destruct Hz as [<-|Hz]; [lia|].
      rewrite Forall_forall in Hall. apply Hall. exact Hz.
  Qed.

  Lemma sort_asc_sorted l : StronglySorted Z.le (sort_asc l).
  Proof. induction l as [|x l IH]; simpl; [constructor|]. apply insert_asc_sorted. exact IH. Qed.

  (* first occurrences of a sorted list that fills [t, t+u) on top of the seen set [0, t) *)
  Lemma dedup_sorted s :
    StronglySorted Z.le s ->
    forall (t u : nat) seen,
      (forall x, In x seen <-> (0 <= x < Z.of_nat t)%Z) ->
      (forall x, In x s -> (0 <= x < Z.of_nat (t + u))%Z) ->
      (forall x, (Z.of_nat t <= x < Z.of_nat (t + u))%Z -> In x s) ->
      dedup_from seen s = zseq t u.
  Proof.
    induction 1 as [|y s Hs IH Hall]; intros t u seen Hseen Hrange Hcov.
    - destruct u as [|u]; [reflexivity|]. exfalso. apply (Hcov (Z.of_nat t)). lia.
    - simpl. destruct (existsb (Z.eqb y) seen) eqn:E.
      + apply existsb_eqb_In in E. apply Hseen in E.
        apply IH; [exact Hseen|intros x Hx; apply Hrange; right; exact Hx|].
        intros x Hx. destruct (Hcov x Hx) as [<-|H']; [lia|exact H'].
      + assert (Hy : ~ In y seen) by (intros H'; apply existsb_eqb_In in H'; congruence).
        assert (Hy0 : (0 <= y < Z.of_nat (t + u))%Z) by (apply Hrange; left; reflexivity).
        assert (Hyt : (Z.of_nat t <= y)%Z).
        { destruct (Z.lt_ge_cases y (Z.of_nat t)); [|assumption]. exfalso. apply Hy. apply Hseen. lia. }
        destruct u as [|u]; [lia|].
        assert (Ey : y = Z.of_nat t).
        { destruct (Hcov (Z.of_nat t)) as [H'|H']; [lia|congruence|].
          rewrite Forall_forall in Hall. specialize (Hall _ H'). lia. }
        subst y. replace (zseq t (S u)) with (Z.of_nat t :: zseq (S t) u) by reflexivity. f_equal.
        apply IH.
        * intros x. simpl. rewrite Hseen. lia.
        * intros x Hx. specialize (Hrange x (or_intror Hx)). lia.
        * intros x Hx. destruct (Hcov x) as [H'|H']; [lia|lia|exact H'].
  Qed.

  Lemma index_of_nonneg l w : (0 <= index_of l w)%Z.
  Proof. induction l as [|a l IH]; cbn [index_of]; [lia|]. destruct (Z.eqb a w); lia. Qed.

  Lemma index_of_lt l y : In y l -> (index_of l y < Z.of_nat (length l))%Z.
  Proof.
    induction l as [|a l IH]; cbn [index_of In length]; [contradiction|]. intros H.
    destruct (Z.eqb_spec a y); [lia|]. destruct H as [H|H]; [congruence|]. specialize (IH H). lia.
  Qed.

  Lemma index_of_app_l pre post y : In y pre -> index_of (pre ++ post) y = index_of pre y.
  Proof.
    induction pre as [|a pre IH]; cbn [index_of In app]; [contradiction|]. intros H.
    destruct (Z.eqb_spec a y); [reflexivity|]. destruct H as [H|H]; [congruence|]. rewrite (IH H). reflexivity.
  Qed.

  Lemma index_of_app_r pre post y :
    ~ In y pre -> index_of (pre ++ post) y = (Z.of_nat (length pre) + index_of post y)%Z.
  Proof.
    induction pre as [|a pre IH]; cbn [index_of In app length]; intros H; [lia|].
    destruct (Z.eqb_spec a y) as [->|Hne]; [exfalso; apply H; left; reflexivity|].
    rewrite IH by (intros H'; apply H; right; exact H'). lia.
  Qed.

  Lemma map_index_of_mid l : forall pre post,
    NoDup (pre ++ l ++ post) -> map (index_of (pre ++ l ++ post)) l = zseq (length pre) (length l).
  Proof.
    induction l as [|x l IH]; intros pre post Hnd; [reflexivity|].
    cbn [map length]. replace (zseq (length pre) (S (length l))) with (Z.of_nat (length pre) :: zseq (S (length pre)) (length l)) by reflexivity.
    f_equal.
    - rewrite index_of_app_r.
      + cbn [app index_of]. rewrite Z.eqb_refl. lia.
      + apply NoDup_remove_2 in Hnd. intros H. apply Hnd. apply in_or_app. left. exact H.
    - replace (pre ++ (x :: l) ++ post) with ((pre ++ [x]) ++ l ++ post) in * by (rewrite <- app_assoc; reflexivity).
      rewrite IH by exact Hnd. rewrite app_length. simpl. rewrite Nat.add_1_r. reflexivity.
  Qed.

  Variable labs : list Z.
  Hypothesis Hnd : NoDup labs.
  Let idx := index_of labs.
  Let rmode (m : list Z) : list Z := sort_asc (map idx m).

  Lemma relabel_dedup_modes rest : forall pre post seen seenR,
    labs = pre ++ post ->
    (forall x, In x seen <-> In x pre) ->
    dedup_from seen (concat rest) = post ->
    (forall y, In y seenR <-> (0 <= y < Z.of_nat (length pre))%Z) ->
    dedup_from seenR (concat (map rmode rest)) = zseq (length pre) (length post).
  Proof.
    induction rest as [|m rest IH]; intros pre post seen seenR Hl Hseen Hpost HseenR.
    - simpl in *. subst post. reflexivity.
    - cbn [concat map] in *. rewrite dedup_from_app in Hpost. rewrite dedup_from_app.
      set (new := dedup_from seen m) in *.
      set (post' := dedup_from (rev new ++ seen) (concat rest)) in *.
      assert (Hl' : labs = (pre ++ new) ++ post') by (rewrite <- app_assoc, Hpost; exact Hl).
      assert (Hin_m : forall y, In y m -> In y (pre ++ new)).
      { intros y Hy. apply in_or_app. destruct (in_dec Z.eq_dec y seen) as [H|H]; [left; apply Hseen; exact H|].
        right. apply In_dedup_from. auto. }
      assert (First : dedup_from seenR (rmode m) = zseq (length pre) (length new)).
      { apply dedup_sorted; [apply sort_asc_sorted|exact HseenR| |].
        - intros x Hx. apply (Permutation_in _ (sort_asc_perm _)) in Hx.
          apply in_map_iff in Hx as (y & <- & Hy). specialize (Hin_m y Hy).
          unfold idx. rewrite Hl', index_of_app_l by exact Hin_m.
          pose proof (index_of_nonneg (pre ++ new) y). pose proof (index_of_lt _ _ Hin_m) as Hlt.
          rewrite app_length in Hlt. lia.
        - intros x Hx. apply (Permutation_in _ (Permutation_sym (sort_asc_perm _))).
          assert (Hx' : In x (zseq (length pre) (length new))) by (apply In_zseq; exact Hx).
          rewrite <- (map_index_of_mid new pre post') in Hx' by (rewrite app_assoc, <- Hl'; exact Hnd).
          rewrite app_assoc, <- Hl' in Hx'. apply in_map_iff in Hx' as (y & <- & Hy).
          apply in_map. apply In_dedup_from in Hy. tauto. }
      rewrite First. rewrite <- Hpost, app_length, zseq_app. f_equal.
      rewrite <- (app_length pre new).
      apply (IH (pre ++ new) post' (rev new ++ seen)); [exact Hl'| |reflexivity|].
      + intros x. rewrite !in_app_iff, <- in_rev, Hseen. tauto.
      + intros y. rewrite in_app_iff, <- in_rev, In_zseq, HseenR, app_length. lia.
  Qed.

  Lemma map_idx_labs : map idx labs = zseq 0 (length labs).
  Proof.
    pose proof (map_index_of_mid labs [] []) as H. simpl in H. rewrite app_nil_r in H. apply H. exact Hnd.
  Qed.
End RelabelInvariant.

Lemma count_lab_perm x m m' : Permutation m m' -> count_lab x m = count_lab x m'.
Proof.
  induction 1 as [|y m m' _ IH|y z m|m m' m'' _ IH1 _ IH2]; simpl.
  - reflexivity.
  - rewrite IH. reflexivity.
  - destruct (Z.eqb z x), (Z.eqb y x); reflexivity.
  - congruence.
Qed.

Lemma count_lab_map_inj (f : Z -> Z) x m :
  (forall y, In y m -> f y = f x -> y = x) -> count_lab (f x) (map f m) = count_lab x m.
Proof.
  induction m as [|y m IH]; intros H; simpl; [reflexivity|].
  rewrite IH by (intros z Hz; apply H; right; exact Hz).
  destruct (Z.eqb_spec (f y) (f x)) as [E|E], (Z.eqb_spec y x) as [E'|E']; try reflexivity.
  - exfalso. apply E'. apply H; [left; reflexivity|exact E].
  - subst. congruence.
Qed.

Lemma relabel_length_concat a : length (concat (relabel a)) = length (concat a).
Proof.
  unfold relabel, an_make. rewrite map_map. generalize (index_of (dedup (concat a))). intros f.
  induction a as [|m a IH]; simpl; [reflexivity|].
  rewrite !app_length, sort_asc_length, map_length, IH. reflexivity.
Qed.

(* the key fact: the canonical key has exactly the same groups, in the same order *)
Lemma decompose_relabel n_modes a : decompose n_modes (relabel a) = decompose n_modes a.
Proof.
  unfold decompose.
  pose proof (relabel_length_concat a) as Hlen.
  destruct (concat a) as [|l0 L] eqn:Ea.
  - destruct (concat (relabel a)); [reflexivity|simpl in Hlen; discriminate].
  - destruct (concat (relabel a)) as [|r0 RL] eqn:Er; [simpl in Hlen; discriminate|].
    rewrite <- Ea, <- Er. clear Hlen Er r0 RL.
    set (labs := dedup (concat a)).
    assert (Hnd : NoDup labs) by apply NoDup_dedup_from.
    assert (Hd : dedup (concat (relabel a)) = map (index_of labs) labs).
    { rewrite (map_idx_labs labs Hnd). unfold relabel, an_make. rewrite map_map. fold labs.
      apply (relabel_dedup_modes labs Hnd a [] labs [] []); [reflexivity|tauto|reflexivity|].
      intros y. simpl. split; [contradiction|lia]. }
    rewrite Hd, map_map. apply map_ext_in. intros l Hl.
    unfold group_state, relabel, an_make. rewrite !map_map. apply map_ext_in. intros m Hm. fold labs.
    rewrite (count_lab_perm _ _ _ (sort_asc_perm _)).
    apply count_lab_map_inj. intros y Hy E.
    apply (index_of_inj labs); [|exact Hl|exact E].
    apply In_dedup. apply in_concat. exists m. auto.
Qed.

(* ---- the whole pipeline without side condition on relabelling; strong remap soundness ---- *)
Section MixtureSpec2.
  Context {K : Type} {o : ops K} {SR : StarRing o}.
  Variables nu p_i p2 : K.
  Hypothesis Hfilter : filter_sound (o:=o) nu p_i p2.
  Variable D : state -> list (state * K).
  Variable n_modes : nat.
  Hypothesis HD : forall g, D g <> [].

  Lemma mixture_spec_nogroup st F :
    group_empty st = ([], []) -> st <> [] -> Forall (fun n => (0 <= n)%Z) st ->
    wsum o (annotated_pdist o D n_modes (build_full o nu p_i p2 st)) F
    = wsum o (state_outcomes o nu p_i p2 st 1%Z) (fun raw => outcome_output (o:=o) D n_modes raw F).
  Proof.
    intros Hg Hne Hpos. apply (mixture_spec_partial nu p_i p2 Hfilter D n_modes HD); try assumption.
    intros raw _. apply decompose_relabel.
  Qed.

  (* states merged by _remap_distribution have the same groups, hence the same output distribution *)
  Lemma remap_sound_groups a b :
    relabel a = relabel b ->
    decompose n_modes a = decompose n_modes b /\
    combine_groups o D (decompose n_modes a) = combine_groups o D (decompose n_modes b).
  Proof.
    intros E. assert (H : decompose n_modes a = decompose n_modes b).
    { rewrite <- (decompose_relabel n_modes a), <- (decompose_relabel n_modes b), E. reflexivity. }
    split; [exact H|]. rewrite H. reflexivity.
  Qed.
End MixtureSpec2.

(* ---- group_empty_modes, as a recursion over the state with a pending-skip counter ---- *)
Fixpoint ge_rec (i k : nat) (l : list Z) : list (nat * nat) * list nat :=
  match l with
  | [] => ([], [])
  | x :: l' =>
      match k with
      | S k' => ge_rec (S i) k' l'
      | O =>
          match l' with
          | [] => ([], [])
          | y :: _ =>
              if Z.eqb x 0 then
                if Z.ltb 0 y then ge_rec (S i) 0 l'
                else let n := zrun (x :: l') in
                     let r := ge_rec (S i) (n - 1) l' in
                     ((i, n) :: fst r, seq (S i) (n - 1) ++ snd r)
              else ge_rec (S i) 0 l'
          end
      end
  end.

Definition ge_step (st : state) (acc : list (nat * nat) * list nat) (i : nat) : list (nat * nat) * list nat :=
  let (tg, ts) := acc in
  if existsb (Nat.eqb i) ts || Nat.eqb (S i) (length st) then acc
  else if Z.eqb (nth i st 1%Z) 0 then
         if Z.ltb 0 (nth (S i) st 0%Z) then acc
         else let n := zrun (skipn i st) in (tg ++ [(i, n)], ts ++ seq (S i) (n - 1))
       else acc.

Lemma group_empty_unfold st : group_empty st = fold_left (ge_step st) (seq 0 (length st)) ([], []).
Proof. reflexivity. Qed.

Lemma skipn_cons_inv {X} i (st : list X) x l :
  skipn i st = x :: l -> skipn (S i) st = l /\ (forall d, nth i st d = x) /\ length st = (i + S (length l))%nat.
Proof.
  revert st; induction i as [|i IH]; intros st H.
  - simpl in H. subst st. simpl. auto.
  - destruct st as [|y st]; [discriminate|]. simpl in H. destruct (IH st H) as (A & B & C).
    repeat split; [exact A|exact B|simpl; lia].
Qed.

Lemma existsb_nat_In i l : existsb (Nat.eqb i) l = true <-> In i l.
Proof.
  rewrite existsb_exists. split.
  - intros (x & Hx & E). apply Nat.eqb_eq in E. subst. exact Hx.
  - intros H. exists i. split; [exact H|apply Nat.eqb_refl].
Qed.

Lemma ge_fold st : forall l i k tg old,
  skipn i st = l -> (forall x, In x old -> (x < i)%nat) ->
  fold_left (ge_step st) (seq i (length l)) (tg, old ++ seq i k)
  = (tg ++ fst (ge_rec i k l), (old ++ seq i k) ++ snd (ge_rec i k l)).
Proof.
  induction l as [|x l IH]; intros i k tg old Hl Hold.
  - simpl. rewrite !app_nil_r. reflexivity.
  - destruct (skipn_cons_inv _ _ _ _ Hl) as (Hl' & Hn & Hlen).
    cbn [length seq fold_left].
    destruct k as [|k].
    + (* not pending *)
      assert (Ex : existsb (Nat.eqb i) (old ++ seq i 0) = false).
      { destruct (existsb (Nat.eqb i) (old ++ seq i 0)) eqn:E; [|reflexivity].
        apply existsb_nat_In in E. simpl in E. rewrite app_nil_r in E. apply Hold in E. lia. }
      unfold ge_step at 2. rewrite Ex. cbn [orb].
      destruct l as [|y l].
      * assert (E1 : Nat.eqb (S i) (length st) = true) by (apply Nat.eqb_eq; simpl in Hlen; lia).
        rewrite E1. simpl. rewrite !app_nil_r. reflexivity.
      * assert (E1 : Nat.eqb (S i) (length st) = false) by (apply Nat.eqb_neq; simpl in Hlen; lia).
        rewrite E1, (Hn 1%Z).
        destruct (skipn_cons_inv _ _ _ _ Hl') as (_ & Hn' & _). rewrite (Hn' 0%Z).
        cbn [ge_rec]. destruct (Z.eqb x 0).
        -- destruct (Z.ltb 0 y).
           ++ specialize (IH (S i) 0%nat tg old Hl' (fun z Hz => Nat.lt_lt_succ_r _ _ (Hold z Hz))).
              simpl in IH. simpl. exact IH.
           ++ rewrite Hl. set (n := zrun (x :: y :: l)).
              specialize (IH (S i) (n - 1)%nat (tg ++ [(i, n)]) old Hl' (fun z Hz => Nat.lt_lt_succ_r _ _ (Hold z Hz))).
              cbn [seq] in *. rewrite app_nil_r. rewrite IH. cbn [fst snd].
              rewrite <- !app_assoc. reflexivity.
        -- specialize (IH (S i) 0%nat tg old Hl' (fun z Hz => Nat.lt_lt_succ_r _ _ (Hold z Hz))).
           simpl in IH. simpl. exact IH.
    + (* pending skip *)
      assert (Ex : existsb (Nat.eqb i) (old ++ seq i (S k)) = true).
      { apply existsb_nat_In. apply in_or_app. right. simpl. left. reflexivity. }
      unfold ge_step at 2. rewrite Ex. cbn [orb ge_rec].
      specialize (IH (S i) k tg (old ++ [i]) Hl').
      replace (old ++ seq i (S k)) with ((old ++ [i]) ++ seq (S i) k) by (rewrite <- app_assoc; reflexivity).
      apply IH. intros z Hz. apply in_app_or in Hz as [Hz|[<-|[]]]; [apply Hold in Hz|]; lia.
Qed.

Lemma group_empty_rec st : group_empty st = ge_rec 0 0 st.
Proof.
  rewrite group_empty_unfold.
  pose proof (ge_fold st st 0%nat 0%nat [] [] eq_refl (fun x (H : In x []) => match H with end)) as H.
  simpl in H. rewrite H. destruct (ge_rec 0 0 st). reflexivity.
Qed.

Lemma ge_rec_bounds l : forall i k,
  (forall j g, In (j, g) (fst (ge_rec i k l)) -> (i <= j)%nat) /\
  (forall x, In x (snd (ge_rec i k l)) -> (i < x)%nat).
Proof.
  induction l as [|x l IH]; intros i k; cbn [ge_rec]; [split; intros; contradiction|].
  destruct k as [|k].
  - destruct l as [|y l]; [split; intros; contradiction|].
    destruct (Z.eqb x 0).
    + destruct (Z.ltb 0 y).
      * destruct (IH (S i) 0%nat) as [A B]. split; [intros j g H; specialize (A j g H); lia|intros z H; specialize (B z H); lia].
      * generalize (zrun (x :: y :: l)). intros n.
        destruct (IH (S i) (n - 1)%nat) as [A B]. cbn [fst snd]. split.
        -- intros j g [H|H]; [injection H as <- _; lia|specialize (A j g H); lia].
        -- intros z H. apply in_app_or in H as [H|H]; [apply in_seq in H; lia|specialize (B z H); lia].
    + destruct (IH (S i) 0%nat) as [A B]. split; [intros j g H; specialize (A j g H); lia|intros z H; specialize (B z H); lia].
  - destruct (IH (S i) k) as [A B]. split; [intros j g H; specialize (A j g H); lia|intros z H; specialize (B z H); lia].
Qed.

Lemma zrun_split l : l = repeat 0%Z (zrun l) ++ skipn (zrun l) l.
Proof.
  induction l as [|x l IH]; simpl; [reflexivity|].
  destruct (Z.eqb_spec x 0) as [->|Hne]; simpl; [f_equal; exact IH|reflexivity].
Qed.

Lemma lookup_nat_app_skip tgb rest i :
  (forall j g, In (j, g) tgb -> (j < i)%nat) -> lookup_nat (tgb ++ rest) i = lookup_nat rest i.
Proof.
  induction tgb as [|[j g] tgb IH]; intros H; simpl; [reflexivity|].
  destruct (Nat.eqb_spec j i) as [->|Hne].
  - specialize (H i g (or_introl eq_refl)). lia.
  - apply IH. intros j' g' H'. apply (H j' g'). right. exact H'.
Qed.

Lemma lookup_nat_none tg i : (forall j g, In (j, g) tg -> j <> i) -> lookup_nat tg i = None.
Proof.
  induction tg as [|[j g] tg IH]; intros H; simpl; [reflexivity|].
  destruct (Nat.eqb_spec j i) as [->|Hne].
  - specialize (H i g (or_introl eq_refl)). congruence.
  - apply IH. intros j' g' H'. apply (H j' g'). right. exact H'.
Qed.

Lemma ge_rec_skip i k x l : ge_rec i (S k) (x :: l) = ge_rec (S i) k l.
Proof. reflexivity. Qed.

Lemma ge_rec_last i x : ge_rec i 0 [x] = ([], []).
Proof. reflexivity. Qed.

Lemma ge_rec_group i y l :
  Z.ltb 0 y = false ->
  ge_rec i 0 (0%Z :: y :: l)
  = ((i, zrun (0%Z :: y :: l)) :: fst (ge_rec (S i) (zrun (0%Z :: y :: l) - 1) (y :: l)),
     seq (S i) (zrun (0%Z :: y :: l) - 1) ++ snd (ge_rec (S i) (zrun (0%Z :: y :: l) - 1) (y :: l))).
Proof. intros H. simpl. rewrite H. reflexivity. Qed.

Lemma ge_rec_plain i x y l :
  Z.eqb x 0 && negb (Z.ltb 0 y) = false -> ge_rec i 0 (x :: y :: l) = ge_rec (S i) 0 (y :: l).
Proof.
  intros H. simpl. destruct (Z.eqb x 0); [|reflexivity]. simpl in H. apply negb_false_iff in H. rewrite H. reflexivity.
Qed.

Section GroupMix.
  Context {K : Type} {o : ops K} {SR : StarRing o}.
  Let R := sr_ring (o:=o).
  Add Ring Kr10 : R.
  Local Notation "0" := (k0 o).
  Local Notation "1" := (k1 o).
  Local Notation "a + b" := (kadd o a b).
  Local Notation "a * b" := (kmul o a b).

  Variables nu p_i p2 : K.
  Hypothesis Hfilter : filter_sound (o:=o) nu p_i p2.

  Definition norm_dist (dist : list (astate * K)) : list (astate * K) :=
    match dist with [] => [([], 1)] | _ => dist end.

  Lemma an_make_repeat_nil n : an_make (repeat [] n) = repeat [] n.
  Proof. unfold an_make. induction n as [|n IH]; simpl; [reflexivity|]. rewrite IH. reflexivity. Qed.

  Lemma state_outcomes_zeros n rest cnt (G : list (list Z) -> K) :
    wsum o (state_outcomes o nu p_i p2 (repeat 0%Z n ++ rest) cnt) G
    = wsum o (state_outcomes o nu p_i p2 rest cnt) (fun r => G (repeat [] n ++ r)).
  Proof.
    revert G; induction n as [|n IH]; intros G; [reflexivity|].
    cbn [repeat app]. rewrite wsum_state_outcomes_cons. change (Z.to_nat 0) with 0%nat.
    cbn [mode_outcomes]. rewrite wsum_single.
    replace (cnt + 2 * Z.of_nat 0)%Z with cnt by lia. rewrite IH. reflexivity.
  Qed.

  (* one non-grouped mode *)
  Lemma single_step_spec dist cnt x (G : astate -> K) :
    (0 <= x)%Z -> (dist = [] \/ inv (o:=o) (dist, cnt)) ->
    let calc := fst (single_mode o nu p_i p2 x cnt) in
    let dist' := match dist with [] => calc | _ => dist_product o dist calc end in
    inv (o:=o) (dist', (cnt + 2 * Z.of_nat (Z.to_nat x))%Z) /\
    wsum o dist' G = wsum o (norm_dist dist)
                          (fun a => wsum o (mode_outcomes o nu p_i p2 (Z.to_nat x) cnt) (fun m => G (a ++ an_make [m]))).
  Proof.
    intros Hx Hd calc dist'.
    pose proof (single_mode_total nu p_i p2 Hfilter x cnt Hx) as T'.
    pose proof (single_mode_wf (o:=o) nu p_i p2 x cnt) as W'.
    pose proof (fun F => single_mode_spec nu p_i p2 Hfilter x cnt F Hx) as S'.
    fold calc in T', W', S'.
    destruct dist as [|e dist].
    - subst dist'. split; [split; assumption|]. cbn [norm_dist]. rewrite wsum_single. rewrite S'. reflexivity.
    - destruct Hd as [Hd|[W T]]; [discriminate|]. cbn [fst] in W, T.
      subst dist'. rewrite (dist_product_spec (o:=o) _ _ W W'). split.
      + split; cbn [fst]; [apply plist_wf; assumption|]. rewrite plist_total, T, T'. ring.
      + cbn [norm_dist]. rewrite wsum_plist. apply wsum_ext. intros a _. rewrite S'. reflexivity.
  Qed.

  (* a grouped run of n empty modes *)
  Lemma group_step_spec' dist cnt n (G : astate -> K) :
    (dist = [] \/ inv (o:=o) (dist, cnt)) ->
    let dist' := match dist with
                 | [] => [(empties n, 1)]
                 | _ => fold_left (fun d e => dset an_eqb d (an_add (fst e) (empties n)) (snd e)) dist []
                 end in
    inv (o:=o) (dist', cnt) /\ wsum o dist' G = wsum o (norm_dist dist) (fun a => G (a ++ repeat [] n)).
  Proof.
    intros Hd dist'. destruct dist as [|e dist].
    - subst dist'. split.
      + apply single_wf. unfold empties. apply an_make_idem.
      + cbn [norm_dist]. rewrite !wsum_single. rewrite empties_eq. reflexivity.
    - destruct Hd as [Hd|[W T]]; [discriminate|]. cbn [fst] in W, T.
      subst dist'. rewrite (group_step_spec _ n W). split.
      + split; cbn [fst]; [apply glist_wf; exact W|rewrite glist_total; exact T].
      + cbn [norm_dist]. unfold glist. rewrite wsum_map. reflexivity.
  Qed.

  Lemma inv_norm dist cnt (X Y : K) : inv (o:=o) (dist, cnt) -> (dist <> [] -> X = Y) -> X = Y.
  Proof.
    intros [_ T] H. destruct dist as [|e dist]; [|apply H; discriminate].
    apply trivial_ring. rewrite <- T. reflexivity.
  Qed.

  Lemma full_step_skip_eq TG TS acc i x :
    existsb (Nat.eqb i) TS = true -> full_step o nu p_i p2 TG TS acc (i, x) = acc.
  Proof. intros H. unfold full_step. destruct acc. rewrite H. reflexivity. Qed.

  Lemma full_step_group_eq TG TS dist cnt i x n :
    existsb (Nat.eqb i) TS = false -> lookup_nat TG i = Some n ->
    full_step o nu p_i p2 TG TS (dist, cnt) (i, x)
    = (match dist with
       | [] => [(empties n, 1)]
       | _ => fold_left (fun d e => dset an_eqb d (an_add (fst e) (empties n)) (snd e)) dist []
       end, cnt).
  Proof. intros H1 H2. unfold full_step. rewrite H1, H2. reflexivity. Qed.

  Lemma full_step_plain_eq TG TS dist cnt i x :
    existsb (Nat.eqb i) TS = false -> lookup_nat TG i = None ->
    full_step o nu p_i p2 TG TS (dist, cnt) (i, x)
    = (match dist with
       | [] => fst (single_mode o nu p_i p2 x cnt)
       | _ => dist_product o dist (fst (single_mode o nu p_i p2 x cnt))
       end, snd (single_mode o nu p_i p2 x cnt)).
  Proof.
    intros H1 H2. unfold full_step. rewrite H1, H2. destruct (single_mode o nu p_i p2 x cnt). reflexivity.
  Qed.

  Lemma full_fold_group l : forall i k tgb tsb TG TS dist cnt F,
    TG = tgb ++ fst (ge_rec i k l) -> TS = tsb ++ seq i k ++ snd (ge_rec i k l) ->
    (forall j g, In (j, g) tgb -> (j < i)%nat) -> (forall x, In x tsb -> (x < i)%nat) ->
    Forall (fun n => (0 <= n)%Z) l -> firstn k l = repeat 0%Z k ->
    ((dist = [] /\ k = 0%nat /\ l <> []) \/ inv (o:=o) (dist, cnt)) ->
    wsum o (fst (fold_left (full_step o nu p_i p2 TG TS) (combine (seq i (length l)) l) (dist, cnt))) F
    = wsum o (norm_dist dist)
           (fun a => wsum o (state_outcomes o nu p_i p2 (skipn k l) cnt) (fun raw => F (a ++ an_make raw))).
  Proof.
    induction l as [|x l IH]; intros i k tgb tsb TG TS dist cnt F HTG HTS Htgb Htsb Hpos Hk Hd.
    - destruct Hd as [(_ & _ & H)|Hd]; [congruence|].
      cbn [length seq combine fold_left fst]. rewrite skipn_nil. cbn [state_outcomes].
      apply (inv_norm dist cnt _ _ Hd). intros Hne. destruct dist as [|e dist]; [congruence|]. cbn [norm_dist].
      apply wsum_ext. intros a _. rewrite wsum_single. unfold an_make. simpl. rewrite app_nil_r. reflexivity.
    - apply Forall_cons_iff in Hpos as [Hx Hpos'].
      cbn [length seq combine fold_left].
      destruct k as [|k].
      + (* mode i is not skipped *)
        cbn [skipn].
        assert (Hts : existsb (Nat.eqb i) (tsb ++ seq i 0 ++ snd (ge_rec i 0 (x :: l))) = false).
        { destruct (existsb _ _) eqn:E; [|reflexivity]. apply existsb_nat_In in E.
          apply in_app_or in E as [E|E]; [apply Htsb in E; lia|]. simpl in E.
          apply (proj2 (ge_rec_bounds (x :: l) i 0%nat)) in E. lia. }
        assert (Hd0 : dist = [] \/ inv (o:=o) (dist, cnt)) by (destruct Hd as [(H & _)|H]; auto).
        (* is a group created at i ? *)
        destruct l as [|y l'] eqn:El.
        * (* last mode *)
          rewrite ge_rec_last in HTG, HTS, Hts. cbn [fst snd] in HTG, HTS, Hts. cbn [length seq combine fold_left].
          rewrite full_step_plain_eq;
            [|rewrite HTS; exact Hts
             |rewrite HTG, app_nil_r; apply lookup_nat_none; intros j g H; apply Htgb in H; lia].
          pose proof (single_step_spec dist cnt x F Hx Hd0) as [_ S1]. cbn [fst].
          rewrite S1. apply wsum_ext. intros a _. rewrite wsum_state_outcomes_cons.
          apply wsum_ext. intros m _. cbn [state_outcomes]. rewrite wsum_single. reflexivity.
        * destruct (Z.eqb x 0 && negb (Z.ltb 0 y)) eqn:Egrp.
          -- (* a run of empty modes starts here *)
             apply andb_true_iff in Egrp as [E0 E1]. apply negb_true_iff in E1.
             apply Z.eqb_eq in E0. subst x.
             rewrite (ge_rec_group i y l' E1) in HTG, HTS, Hts.
             set (n := zrun (0%Z :: y :: l')) in *. cbn [fst snd seq app] in HTG, HTS, Hts.
             rewrite (full_step_group_eq TG TS dist cnt i 0%Z n);
               [|rewrite HTS; exact Hts
                |rewrite HTG, lookup_nat_app_skip by exact Htgb; cbn [lookup_nat]; rewrite Nat.eqb_refl; reflexivity].
             pose proof (fun G => group_step_spec' dist cnt n G Hd0) as G1. cbv zeta in G1.
             set (dist' := match dist with [] => [(empties n, 1)] | _ => _ end) in *.
             destruct (G1 F) as [I1 _].
             assert (Hn : (1 <= n)%nat) by (unfold n; simpl; lia).
             pose proof (zrun_split (0%Z :: y :: l')) as Hsplit. fold n in Hsplit.
             assert (Hl' : y :: l' = repeat 0%Z (n - 1) ++ skipn n (0%Z :: y :: l')).
             { destruct n as [|n']; [lia|]. simpl in Hsplit. injection Hsplit as Hsplit.
               replace (S n' - 1)%nat with n' by lia. exact Hsplit. }
             rewrite (IH (S i) (n - 1)%nat (tgb ++ [(i, n)]) tsb TG TS dist' cnt F).
             ++ apply (inv_norm dist' cnt _ _ I1). intros Hne.
                assert (Hnorm : norm_dist dist' = dist') by (destruct dist'; [congruence|reflexivity]).
                rewrite Hnorm. rewrite (proj2 (G1 _)). apply wsum_ext. intros a _.
                replace (state_outcomes o nu p_i p2 (0%Z :: y :: l') cnt)
                  with (state_outcomes o nu p_i p2 (repeat 0%Z n ++ skipn n (0%Z :: y :: l')) cnt)
                  by (rewrite <- Hsplit; reflexivity).
                rewrite state_outcomes_zeros.
                replace (skipn (n - 1) (y :: l')) with (skipn n (0%Z :: y :: l'))
                  by (destruct n as [|n']; [lia|]; simpl; rewrite Nat.sub_0_r; reflexivity).
                apply wsum_ext. intros r _. rewrite an_make_app, an_make_repeat_nil, app_assoc. reflexivity.
             ++ rewrite HTG, <- app_assoc. reflexivity.
             ++ rewrite HTS. reflexivity.
             ++ intros j g H. apply in_app_or in H as [H|[H|[]]]; [apply Htgb in H; lia|injection H as <- _; lia].
             ++ intros z H. apply Htsb in H. lia.
             ++ exact Hpos'.
             ++ rewrite Hl' at 1. rewrite firstn_app, repeat_length, Nat.sub_diag. simpl. rewrite app_nil_r.
                apply firstn_all2. rewrite repeat_length. lia.
             ++ right. exact I1.
          -- (* an ordinary mode *)
             rewrite (ge_rec_plain i x y l' Egrp) in HTG, HTS, Hts. cbn [seq app] in HTS, Hts.
             rewrite (full_step_plain_eq TG TS dist cnt i x);
               [|rewrite HTS; exact Hts
                |rewrite HTG, lookup_nat_app_skip by exact Htgb; apply lookup_nat_none;
                 intros j g H; apply (proj1 (ge_rec_bounds (y :: l') (S i) 0%nat)) in H; lia].
             pose proof (fun G => single_step_spec dist cnt x G Hx Hd0) as S1. cbv zeta in S1.
             rewrite (single_mode_cnt (o:=o) nu p_i p2 x cnt).
             set (dist' := match dist with [] => fst (single_mode o nu p_i p2 x cnt) | _ => _ end) in *.
             destruct (S1 F) as [I1 _].
             rewrite (IH (S i) 0%nat tgb tsb TG TS dist' _ F).
             ++ apply (inv_norm dist' _ _ _ I1). intros Hne.
                assert (Hnorm : norm_dist dist' = dist') by (destruct dist'; [congruence|reflexivity]).
                rewrite Hnorm. cbn [skipn]. rewrite (proj2 (S1 _)). apply wsum_ext. intros a _.
                rewrite wsum_state_outcomes_cons. apply wsum_ext. intros m _. apply wsum_ext. intros r _.
                rewrite <- app_assoc. reflexivity.
             ++ exact HTG.
             ++ exact HTS.
             ++ intros j g H. apply Htgb in H. lia.
             ++ intros z H. apply Htsb in H. lia.
             ++ exact Hpos'.
             ++ reflexivity.
             ++ right. exact I1.
      + (* mode i is skipped: it belongs to a run that was added as a group *)
        cbn [firstn repeat] in Hk. injection Hk as -> Hk.
        assert (Hd1 : inv (o:=o) (dist, cnt)) by (destruct Hd as [(_ & H & _)|H]; [discriminate|exact H]).
        rewrite ge_rec_skip in HTG, HTS.
        assert (Hts : existsb (Nat.eqb i) TS = true).
        { apply existsb_nat_In. rewrite HTS. apply in_or_app. right. apply in_or_app. left. simpl. left. reflexivity. }
        rewrite (full_step_skip_eq TG TS (dist, cnt) i 0%Z Hts). cbn [skipn].
        apply (IH (S i) k tgb (tsb ++ [i]) TG TS dist cnt F); try assumption.
        * rewrite HTS. cbn [seq]. rewrite <- !app_assoc. reflexivity.
        * intros j g H. apply Htgb in H. lia.
        * intros z H. apply in_app_or in H as [H|[<-|[]]]; [apply Htsb in H|]; lia.
        * right. exact Hd1.
  Qed.

  (* independent per-photon outcomes, for EVERY input state *)
  Lemma full_distribution_spec st F :
    st <> [] -> Forall (fun n => (0 <= n)%Z) st ->
    wsum o (full_distribution o nu p_i p2 st) F
    = wsum o (state_outcomes o nu p_i p2 st 1%Z) (fun raw => F (an_make raw)).
  Proof.
    intros Hne Hpos. unfold full_distribution. rewrite group_empty_rec.
    destruct (ge_rec 0 0 st) as [tg ts] eqn:E.
    rewrite (full_fold_group st 0%nat 0%nat [] [] tg ts [] 1%Z F); try (rewrite E; reflexivity); try assumption.
    - cbn [norm_dist skipn]. rewrite wsum_single. reflexivity.
    - intros j g [].
    - intros x [].
    - reflexivity.
    - left. auto.
  Qed.
End GroupMix.

(* ---- the mixture specification, for every input state ---- *)
Section MixtureSpecFull.
  Context {K : Type} {o : ops K} {SR : StarRing o}.
  Variables nu p_i p2 : K.
  Hypothesis Hfilter : filter_sound (o:=o) nu p_i p2.
  Variable D : state -> list (state * K).
  Variable n_modes : nat.
  Hypothesis HD : forall g, D g <> [].

  Lemma mixture_spec st F :
    st <> [] -> Forall (fun n => (0 <= n)%Z) st ->
    wsum o (annotated_pdist o D n_modes (build_full o nu p_i p2 st)) F
    = wsum o (state_outcomes o nu p_i p2 st 1%Z) (fun raw => outcome_output (o:=o) D n_modes raw F).
  Proof.
    intros Hne Hpos. rewrite annotated_pdist_spec. unfold build_full.
    rewrite remap_spec, (full_distribution_spec nu p_i p2 Hfilter) by assumption.
    apply wsum_ext. intros e _. rewrite combine_groups_spec by (intros; apply HD).
    unfold outcome_output. rewrite decompose_relabel. reflexivity.
  Qed.
End MixtureSpecFull.

(* the definition of [outcome_output], spelled out *)
Lemma outcome_output_unfold {K} (o : ops K) (D : state -> list (state * K)) n_modes raw F :
  outcome_output (o:=o) D n_modes raw F = groups_expect (o:=o) D (decompose n_modes (an_make raw)) F /\
  (forall g gs, groups_expect (o:=o) D (g :: gs) F = wsum o (D g) (fun s => gexp (o:=o) D gs s F)) /\
  (forall g gs acc, gexp (o:=o) D (g :: gs) acc F = wsum o (D g) (fun s => gexp (o:=o) D gs (zip_add acc s) F)) /\
  (forall acc, gexp (o:=o) D [] acc F = F acc).
Proof. repeat split. Qed.

(* ---- zero indistinguishability: classical particles ---- *)
Lemma dedup_from_nodup seen l :
  NoDup l -> (forall x, In x l -> ~ In x seen) -> dedup_from seen l = l.
Proof.
  revert seen; induction l as [|x l IH]; intros seen Hnd Hd; simpl; [reflexivity|].
  inversion Hnd as [|? ? Hx Hnd']; subst.
  destruct (existsb (Z.eqb x) seen) eqn:E.
  - apply existsb_eqb_In in E. exfalso. apply (Hd x); [left; reflexivity|exact E].
  - f_equal. apply IH; [exact Hnd'|]. intros y Hy [<-|H]; [contradiction|]. apply (Hd y); [right; exact Hy|exact H].
Qed.

Lemma count_lab_app l m1 m2 : count_lab l (m1 ++ m2) = (count_lab l m1 + count_lab l m2)%Z.
Proof.
  unfold count_lab. induction m1 as [|x m1 IH]; cbn [app fold_right]; [reflexivity|].
  rewrite IH. destruct (Z.eqb x l); lia.
Qed.

Lemma group_state_photons a l : st_n_photons (group_state a l) = count_lab l (concat a).
Proof.
  unfold st_n_photons, group_state. induction a as [|m a IH]; simpl; [reflexivity|].
  rewrite IH, count_lab_app. reflexivity.
Qed.

Lemma count_lab_notin l m : ~ In l m -> count_lab l m = 0%Z.
Proof.
  unfold count_lab. induction m as [|x m IH]; cbn [fold_right]; intros H; [reflexivity|].
  destruct (Z.eqb_spec x l) as [->|Hne]; [exfalso; apply H; left; reflexivity|].
  apply IH. intros H'. apply H. right. exact H'.
Qed.

Lemma count_lab_nodup l m : NoDup m -> In l m -> count_lab l m = 1%Z.
Proof.
  induction m as [|x m IH]; intros Hnd Hin; [contradiction|].
  inversion Hnd as [|? ? Hx Hnd']; subst.
  change (count_lab l (x :: m)) with (if Z.eqb x l then (1 + count_lab l m)%Z else count_lab l m).
  destruct (Z.eqb_spec x l) as [->|Hne].
  - rewrite count_lab_notin by exact Hx. reflexivity.
  - destruct Hin as [H|H]; [congruence|]. apply IH; assumption.
Qed.

(* an input whose labels are pairwise distinct decomposes into one single-photon group per photon:
   its output is the convolution of single-photon distributions (classical, distinguishable particles) *)
Lemma decompose_distinct n_modes (a : astate) :
  NoDup (concat a) -> concat a <> [] ->
  decompose n_modes a = map (group_state a) (concat a) /\
  Forall (fun g => st_n_photons g = 1%Z) (decompose n_modes a) /\
  length (decompose n_modes a) = an_n_photons a.
Proof.
  intros Hnd Hne.
  assert (E : decompose n_modes a = map (group_state a) (concat a)).
  { unfold decompose. destruct (concat a) as [|l0 L] eqn:Ea; [congruence|].
    unfold dedup. rewrite dedup_from_nodup; [reflexivity|exact Hnd|intros x _ []]. }
  rewrite E. repeat split.
  - apply Forall_forall. intros g Hg. apply in_map_iff in Hg as (l & <- & Hl).
    rewrite group_state_photons. apply count_lab_nodup; assumption.
  - rewrite map_length. unfold an_n_photons. clear. induction a as [|m a IH]; simpl; [reflexivity|].
    rewrite app_length, IH. reflexivity.
Qed.

Section Classical.
  Context {K : Type} {o : ops K} {SR : StarRing o}.
  Let R := sr_ring (o:=o).
  Add Ring Kr11 : R.
  Local Notation "0" := (k0 o).
  Local Notation "1" := (k1 o).
  Local Notation "a * b" := (kmul o a b).
  Variables nu p2 : K.

  (* with indistinguishability 0 the two table entries that carry the shared label 0 vanish *)
  Lemma zero_indist_table : Source.c1 o nu 0 p2 = 0 /\ c12d o nu 0 p2 = 0.
  Proof. unfold Source.c1, c12d. split; ring. Qed.

  (* every outcome vector: labels other than 0 are fresh (pairwise distinct, from this photon's
     own counter range), and an outcome that contains label 0 has weight 0 when p_i = 0 *)
  Definition nz (ls : list Z) : list Z := filter (fun l => negb (Z.eqb l 0)) ls.

  Lemma nz_app a b : nz (a ++ b) = nz a ++ nz b.
  Proof. apply filter_app. Qed.

  Lemma photon_table_labels p_i cnt e :
    (0 < cnt)%Z -> In e (photon_table o nu p_i p2 cnt) ->
    NoDup (nz (fst e)) /\ (forall l, In l (nz (fst e)) -> (cnt <= l < cnt + 2)%Z) /\
    (In 0%Z (fst e) -> p_i = 0 -> snd e = 0).
  Proof.
    intros Hc Hin. unfold photon_table in Hin. cbn [In] in Hin.
    assert (E1 : (cnt =? 0)%Z = false) by (apply Z.eqb_neq; lia).
    assert (E2 : (cnt + 1 =? 0)%Z = false) by (apply Z.eqb_neq; lia).
    destruct Hin as [<-|[<-|[<-|[<-|[<-|[<-|[]]]]]]]; cbn [fst snd nz filter Z.eqb negb];
      rewrite ?E1, ?E2; cbn [negb]; (split; [|split]);
      try (repeat constructor; cbn [In]; intuition lia);
      try (intros l Hl; cbn [In] in Hl; intuition lia);
      intros H0 Hp; cbn [In] in H0; try (exfalso; intuition lia); subst p_i; apply zero_indist_table.
  Qed.

  Lemma mode_outcomes_labels p_i n : forall cnt e,
    (0 < cnt)%Z -> In e (mode_outcomes o nu p_i p2 n cnt) ->
    NoDup (nz (fst e)) /\ (forall l, In l (nz (fst e)) -> (cnt <= l < cnt + 2 * Z.of_nat n)%Z) /\
    (In 0%Z (fst e) -> p_i = 0 -> snd e = 0).
  Proof.
    induction n as [|n IH]; intros cnt e Hc Hin.
    - cbn [mode_outcomes In] in Hin. destruct Hin as [<-|[]]. cbn [fst snd nz filter concat]. split; [constructor|split; [intros l []|intros []]].
    - cbn [mode_outcomes] in Hin. unfold lprod in Hin. apply in_flat_map in Hin as (e1 & H1 & Hin).
      apply in_map_iff in Hin as (e2 & <- & H2). cbn [fst snd].
      destruct (photon_table_labels p_i cnt e1 Hc H1) as (A1 & A2 & A3).
      destruct (IH (cnt + 2)%Z e2 ltac:(lia) H2) as (B1 & B2 & B3).
      rewrite nz_app. split; [|split].
      + apply NoDup_app_intro; [exact A1|exact B1|]. intros x Hx1 Hx2. specialize (A2 x Hx1). specialize (B2 x Hx2). lia.
      + intros lab Hl. apply in_app_or in Hl as [Hl|Hl]; [specialize (A2 lab Hl)|specialize (B2 lab Hl)]; lia.
      + intros H0 Hp. apply in_app_or in H0 as [H0|H0].
        * rewrite (A3 H0 Hp). ring.
        * rewrite (B3 H0 Hp). ring.
  Qed.

  Lemma state_outcomes_labels p_i st : forall cnt e,
    (0 < cnt)%Z -> In e (state_outcomes o nu p_i p2 st cnt) ->
    NoDup (nz (concat (fst e))) /\ (forall l, In l (nz (concat (fst e))) -> (cnt <= l)%Z) /\
    (In 0%Z (concat (fst e)) -> p_i = 0 -> snd e = 0).
  Proof.
    induction st as [|n st IH]; intros cnt e Hc Hin.
    - cbn [state_outcomes In] in Hin. destruct Hin as [<-|[]]. cbn [fst snd nz filter concat]. split; [constructor|split; [intros l []|intros []]].
    - cbn [state_outcomes] in Hin. apply in_flat_map in Hin as (e1 & H1 & Hin).
      apply in_map_iff in Hin as (e2 & <- & H2). cbn [fst snd concat].
      destruct (mode_outcomes_labels p_i (Z.to_nat n) cnt e1 Hc H1) as (A1 & A2 & A3).
      destruct (IH (cnt + 2 * Z.of_nat (Z.to_nat n))%Z e2 ltac:(lia) H2) as (B1 & B2 & B3).
      rewrite nz_app. split; [|split].
      + apply NoDup_app_intro; [exact A1|exact B1|]. intros x Hx1 Hx2. specialize (A2 x Hx1). specialize (B2 x Hx2). lia.
      + intros lab Hl. apply in_app_or in Hl as [Hl|Hl]; [specialize (A2 lab Hl)|specialize (B2 lab Hl)]; lia.
      + intros H0 Hp. apply in_app_or in H0 as [H0|H0].
        * rewrite (A3 H0 Hp). ring.
        * rewrite (B3 H0 Hp). ring.
  Qed.

  Lemma nz_id ls : ~ In 0%Z ls -> nz ls = ls.
  Proof.
    induction ls as [|x ls IH]; intros H; simpl; [reflexivity|].
    destruct (Z.eqb_spec x 0) as [->|Hne]; [exfalso; apply H; left; reflexivity|]. simpl.
    f_equal. apply IH. intros H'. apply H. right. exact H'.
  Qed.

  (* zero indistinguishability: every outcome vector either has weight zero or consists of pairwise
     distinct labels — the photons are classical, distinguishable particles *)
  Lemma zero_indist_classical st e :
    In e (state_outcomes o nu 0 p2 st 1%Z) -> snd e = 0 \/ NoDup (concat (fst e)).
  Proof.
    intros Hin. destruct (state_outcomes_labels 0 st 1%Z e ltac:(lia) Hin) as (A & _ & C).
    destruct (in_dec Z.eq_dec 0%Z (concat (fst e))) as [H0|H0].
    - left. apply C; [exact H0|reflexivity].
    - right. rewrite <- (nz_id _ H0). exact A.
  Qed.
End Classical.

Lemma concat_an_make_perm raw : Permutation (concat (an_make raw)) (concat raw).
Proof.
  unfold an_make. induction raw as [|m raw IH]; simpl; [reflexivity|].
  apply Permutation_app; [apply sort_asc_perm|exact IH].
Qed.

(* with indistinguishability 0, every per-photon outcome vector of non-zero weight gives an input
   in which every photon is its own group: the output is a convolution of single-photon distributions *)
Lemma zero_indist_single_photon_groups {K} {o : ops K} {SR : StarRing o} (nu p2 : K) n_modes st e :
  In e (state_outcomes o nu (k0 o) p2 st 1%Z) ->
  snd e = k0 o \/
  (let a := an_make (fst e) in
   NoDup (concat a) /\
   (concat a <> [] ->
    Forall (fun g => st_n_photons g = 1%Z) (decompose n_modes a) /\
    length (decompose n_modes a) = an_n_photons a)).
Proof.
  intros Hin. destruct (zero_indist_classical nu p2 st e Hin) as [H|H]; [left; exact H|right].
  assert (Hnd : NoDup (concat (an_make (fst e)))).
  { apply (Permutation_NoDup (Permutation_sym (concat_an_make_perm (fst e)))). exact H. }
  split; [exact Hnd|]. intros Hne. destruct (decompose_distinct n_modes _ Hnd Hne) as (_ & A & B). auto.
Qed.

(* ---- output normalisation ---- *)
Section OutputNorm.
  Context {K : Type} {o : ops K} {SR : StarRing o}.
  Let R := sr_ring (o:=o).
  Add Ring Kr9 : R.
  Local Notation "0" := (k0 o).
  Local Notation "1" := (k1 o).
  Local Notation "a + b" := (kadd o a b).
  Local Notation "a * b" := (kmul o a b).
  Local Notation "a - b" := (ksub o a b).

  Variable D : state -> list (state * K).
  Variable n_modes : nat.
  Variable lossy : bool.
  (* contract of the oracle: a dictionary (distinct keys), never empty, summing to one *)
  Hypothesis HDne : forall g, D g <> [].
  Hypothesis HDnd : forall g, NoDup (dkeys (D g)).
  Hypothesis HDone : forall g, dtotal o (D g) = 1.

  Lemma dtotal_wsum {X} (d : list (X * K)) : dtotal o d = wsum o d (fun _ => 1).
  Proof. unfold dtotal, wsum. apply suml_ext. intros; ring. Qed.

  Lemma gexp_one gs acc : gexp (o:=o) D gs acc (fun _ => 1) = 1.
  Proof.
    revert acc; induction gs as [|g gs IH]; intros acc; simpl; [reflexivity|].
    rewrite (wsum_ext (D g) _ (fun _ => 1)) by (intros; apply IH). rewrite <- dtotal_wsum. apply HDone.
  Qed.

  Lemma decompose_nonempty a : decompose n_modes a <> [].
  Proof.
    unfold decompose. destruct (concat a) as [|l L] eqn:E; [discriminate|].
    unfold dedup. simpl. discriminate.
  Qed.

  Lemma annotated_pdist_total inputs : dtotal o (annotated_pdist o D n_modes inputs) = dtotal o inputs.
  Proof.
    rewrite !dtotal_wsum, annotated_pdist_spec. apply wsum_ext. intros e _.
    rewrite combine_groups_spec by (intros; apply HDne).
    pose proof (decompose_nonempty (fst e)) as Hne. destruct (decompose n_modes (fst e)) as [|g gs]; [congruence|].
    simpl. rewrite (wsum_ext (D g) _ (fun _ => 1)) by (intros; apply gexp_one).
    rewrite <- dtotal_wsum. apply HDone.
  Qed.

  (* pdist_calc for State inputs *)
  Hypothesis Heq1 : forall x, keqb o x 1 = true -> x = 1.

  Definition bm_step (pd : list (state * K)) (e : state * K) : list (state * K) :=
    let sub := D (fst e) in
    match pd with
    | [] => if keqb o (snd e) 1 then sub else map (fun sp => (fst sp, snd sp * snd e)) sub
    | _ => fold_left (fun pd sp => dadd st_eqb o pd (fst sp) (snd sp * snd e)) sub pd
    end.

  Lemma basic_mix_fold inputs : forall pd F,
    pd <> [] ->
    wsum o (fold_left bm_step inputs pd) F = wsum o pd F + wsum o inputs (fun s => wsum o (D s) F) /\
    (NoDup (dkeys pd) -> NoDup (dkeys (fold_left bm_step inputs pd))).
  Proof.
    induction inputs as [|e inputs IH]; intros pd F Hpd; cbn [fold_left].
    - split; [unfold wsum; simpl; ring|auto].
    - assert (Hne : bm_step pd e <> []).
      { unfold bm_step. destruct pd as [|e0 pd]; [congruence|]. apply fold_dadd_nonempty. right. discriminate. }
      destruct (IH (bm_step pd e) F Hne) as [I1 I2]. split.
      + rewrite I1. unfold bm_step at 1. destruct pd as [|e0 pd]; [congruence|].
        rewrite (wsum_fold_dadd st_eqb st_eqb_eq).
        transitivity (wsum o (e0 :: pd) F + (snd e * wsum o (D (fst e)) F + wsum o inputs (fun s => wsum o (D s) F)));
          [|reflexivity].
        match goal with |- _ + ?a + _ = _ + (?b + _) => assert (E : a = b) end.
        { unfold wsum. rewrite <- suml_mul_l. apply suml_ext. intros sp _. unfold state. ring. }
        rewrite E. ring.
      + intros H. apply I2. unfold bm_step. destruct pd as [|e0 pd]; [congruence|].
        apply (fold_dadd_keys st_eqb o st_eqb_eq). exact H.
  Qed.

  Lemma basic_mix_spec inputs F :
    wsum o (basic_mix o D inputs) F = wsum o inputs (fun s => wsum o (D s) F) /\
    NoDup (dkeys (basic_mix o D inputs)).
  Proof.
    change (basic_mix o D inputs) with (fold_left bm_step inputs []).
    destruct inputs as [|e inputs]; [split; [reflexivity|constructor]|].
    cbn [fold_left].
    assert (W0 : wsum o (bm_step [] e) F = snd e * wsum o (D (fst e)) F /\ NoDup (dkeys (bm_step [] e)) /\ bm_step [] e <> []).
    { unfold bm_step. destruct (keqb o (snd e) 1) eqn:E.
      - rewrite (Heq1 _ E). repeat split; [ring|apply HDnd|apply HDne].
      - repeat split.
        + rewrite wsum_map. unfold wsum. rewrite <- suml_mul_l. apply suml_ext. intros sp _. unfold state. ring.
        + unfold dkeys. rewrite map_map. simpl. apply HDnd.
        + pose proof (HDne (fst e)). destruct (D (fst e)); [congruence|discriminate]. }
    destruct W0 as (W0 & N0 & Z0). destruct (basic_mix_fold inputs (bm_step [] e) F Z0) as [I1 I2].
    split; [|apply I2; exact N0].
    rewrite I1, W0. reflexivity.
  Qed.

  Lemma dtotal_dset (d : list (state * K)) k v :
    NoDup (dkeys d) -> dtotal o (dset st_eqb d k v) + dget st_eqb o d k = dtotal o d + v.
  Proof.
    unfold dtotal. induction d as [|[k' v'] d IH]; simpl; intros H; [ring|].
    inversion H as [|? ? Hn H']; subst. destruct (st_eqb k' k) eqn:E; simpl; [ring|].
    specialize (IH H').
    set (x := suml o (dset st_eqb d k v) snd) in *. set (y := dget st_eqb o d k) in *. set (z := suml o d snd) in *.
    transitivity (v' + (x + y)); [ring|]. rewrite IH. ring.
  Qed.

  (* the repaired vacuum bookkeeping makes the distribution sum to one whenever it is used *)
  Lemma basic_pdist_repaired_total inputs :
    klt o (dtotal o (basic_mix o D inputs)) 1 && lossy = true ->
    dtotal o (basic_pdist o D n_modes lossy inputs) = 1.
  Proof.
    intros H. unfold basic_pdist. rewrite H.
    pose proof (dtotal_dset (basic_mix o D inputs) (vac n_modes)
                  (dget st_eqb o (basic_mix o D inputs) (vac n_modes) + (1 - dtotal o (basic_mix o D inputs)))
                  (proj2 (basic_mix_spec inputs (fun _ => 1)))) as T.
    set (x := dtotal o (dset _ _ _ _)) in *. set (g := dget _ _ _ _) in *. set (t := dtotal o (basic_mix o D inputs)) in *.
    transitivity (x + g - g); [ring|]. rewrite T. ring.
  Qed.

  Lemma basic_pdist_total inputs : dtotal o inputs = 1 -> dtotal o (basic_pdist o D n_modes lossy inputs) = 1.
  Proof.
    intros Hin. destruct (klt o (dtotal o (basic_mix o D inputs)) 1 && lossy) eqn:E.
    - apply basic_pdist_repaired_total. exact E.
    - unfold basic_pdist. rewrite E. rewrite dtotal_wsum, (proj1 (basic_mix_spec inputs _)).
      rewrite (wsum_ext inputs _ (fun _ => 1)); [rewrite <- dtotal_wsum; exact Hin|].
      intros e _. rewrite <- dtotal_wsum. apply HDone.
  Qed.

  (* normalised input statistics give a normalised output distribution, on both paths *)
  Lemma pdist_calc_total (s : stats) :
    stats_total o s = 1 -> dtotal o (pdist_calc o D n_modes lossy s) = 1.
  Proof.
    destruct s as [d|d]; simpl; intros H; [apply basic_pdist_total; exact H|].
    rewrite annotated_pdist_total. exact H.
  Qed.
End OutputNorm.

(* ---- the emitted photon-number statistics: g2 = 1 - purity (ring form) ---- *)
Section G2Generic.
  Context {K : Type} {o : ops K} {SR : StarRing o}.
  Let R := sr_ring (o:=o).
  Add Ring Kr3 : R.
  Local Notation "1" := (k1 o).
  Local Notation "a + b" := (kadd o a b).
  Local Notation "a * b" := (kmul o a b).
  Local Notation "a - b" := (ksub o a b).
  Variables (nu p_i p2 purity : K).

  (* probability of emitting exactly one / exactly two photons, from the table *)
  Definition prob_one : K := c1 o nu p_i p2 + c1d o nu p_i p2 + c1dp o nu p2.
  Definition prob_two : K := c12d o nu p_i p2 + c1d2d o nu p_i p2.
  Definition mean_n : K := prob_one + ktwo o * prob_two.

  Lemma mean_n_eq : mean_n = nu * (1 + p2).
  Proof. unfold mean_n, prob_one, prob_two, c1, c1d, c1dp, c12d, c1d2d, p1, p_d, ktwo. ring. Qed.

  Lemma prob_two_eq : prob_two = nu * nu * p2.
  Proof. unfold prob_two, c12d, c1d2d, p_d. ring. Qed.

  (* 2 P(2) = (1 - purity) <n>^2, i.e. g2 = <n(n-1)>/<n>^2 = 1 - purity, for every brightness *)
  Lemma g2_table :
    (1 - purity) * ((1 + p2) * (1 + p2)) = ktwo o * p2 ->
    ktwo o * prob_two = (1 - purity) * (mean_n * mean_n).
  Proof.
    intros H. rewrite mean_n_eq, prob_two_eq.
    transitivity (nu * nu * (ktwo o * p2)); [ring|]. rewrite <- H. ring.
  Qed.
End G2Generic.

(* ------------------------------------------------------------------- reals *)
From Coq Require Import Reals Lra Psatz.

Definition Rleb (x y : R) : bool := if Rle_dec x y then true else false.
Definition Reqb (x y : R) : bool := if Req_EM_T x y then true else false.
Definition Rops : ops R :=
  mkOps R 0%R 1%R Rplus Rmult Rminus Ropp Rinv (fun x => x) Reqb Rleb IZR.

Global Instance Rstar : StarRing Rops.
Proof. constructor; simpl; try reflexivity. exact RTheory. Qed.

Section Reals.
  Local Open Scope R_scope.

  Lemma Rleb_true x y : Rleb x y = true <-> x <= y.
  Proof. unfold Rleb. destruct (Rle_dec x y); split; auto; discriminate. Qed.
  Lemma Reqb_true x y : Reqb x y = true <-> x = y.
  Proof. unfold Reqb. destruct (Req_EM_T x y); split; auto; discriminate. Qed.

  Variables nu p_i p2 : R.
  Hypothesis Hnu : 0 <= nu <= 1.
  Hypothesis Hpi : 0 <= p_i <= 1.
  Hypothesis Hp2 : 0 <= p2 < 1.

  Lemma coeffs_nonneg :
    0 <= c0 Rops nu p2 /\ 0 <= Source.c1 Rops nu p_i p2 /\ 0 <= c1d Rops nu p_i p2 /\
    0 <= c1dp Rops nu p2 /\ 0 <= c12d Rops nu p_i p2 /\ 0 <= c1d2d Rops nu p_i p2.
  Proof.
    assert (A : 0 <= (1 - p2) + (1 - nu) * p2) by nra.
    assert (B : 0 <= nu * p2 <= 1) by nra.
    repeat split.
    - rewrite (c0_factored (o:=Rops)). simpl. apply Rmult_le_pos; lra.
    - unfold Source.c1, p1. simpl. apply Rmult_le_pos; [apply Rmult_le_pos; lra|exact A].
    - unfold c1d, p1, p_d. simpl. apply Rmult_le_pos; [apply Rmult_le_pos; lra|exact A].
    - unfold c1dp. simpl. apply Rmult_le_pos; [apply Rmult_le_pos; lra|lra].
    - unfold c12d. simpl. repeat apply Rmult_le_pos; lra.
    - unfold c1d2d, p_d. simpl. repeat apply Rmult_le_pos; lra.
  Qed.

  Lemma filter_sound_R : filter_sound (o:=Rops) nu p_i p2.
  Proof.
    destruct coeffs_nonneg as (H0 & H1 & H2 & H3 & H4 & H5).
    intros c Hin Hc. unfold gt0 in Hc. apply negb_false_iff in Hc. simpl in Hc. apply Rleb_true in Hc.
    cbn [In] in Hin. change (k0 Rops) with 0. repeat (destruct Hin as [<-|Hin]; [lra|]). destruct Hin.
  Qed.

  Lemma brightness_le_R : klt Rops nu (k1 Rops) = false -> nu = k1 Rops.
  Proof.
    unfold klt. intros H. apply negb_false_iff in H. simpl in *. apply Rleb_true in H. lra.
  Qed.

  Lemma stats_raw_total_R purity indist st :
    st <> [] -> Forall (fun n => (0 <= n)%Z) st ->
    stats_total Rops (stats_raw Rops nu p_i p2 purity indist st) = 1.
  Proof. apply (stats_raw_total (o:=Rops) nu p_i p2 filter_sound_R brightness_le_R). Qed.

  Lemma build_statistics_total_R purity indist thr st :
    st <> [] -> Forall (fun n => (0 <= n)%Z) st ->
    (thr = 0 \/
     match stats_raw Rops nu p_i p2 purity indist st with
     | SBasic d => dtotal Rops (kept (o:=Rops) thr d) <> 0
     | SFull d => dtotal Rops (kept (o:=Rops) thr d) <> 0
     end) ->
    stats_total Rops (build_statistics Rops nu p_i p2 purity indist thr st) = 1.
  Proof.
    intros Hne Hpos Hthr. pose proof (stats_raw_total_R purity indist st Hne Hpos) as T.
    unfold build_statistics.
    destruct (Req_EM_T thr 0) as [E|E].
    - assert (Z0 : keqb Rops thr (k0 Rops) = true) by (simpl; apply Reqb_true; exact E).
      destruct (stats_raw Rops nu p_i p2 purity indist st); simpl in *;
        rewrite (threshold_zero (o:=Rops)) by exact Z0; exact T.
    - assert (Z0 : keqb Rops thr (k0 Rops) = false).
      { simpl. destruct (Reqb thr 0) eqn:Q; [apply Reqb_true in Q; contradiction|reflexivity]. }
      destruct Hthr as [Hthr|Hthr]; [contradiction|].
      destruct (stats_raw Rops nu p_i p2 purity indist st); simpl;
        apply (threshold_total (o:=Rops)); try exact Z0; simpl; apply Rinv_r; exact Hthr.
  Qed.
End Reals.

(* ---- the code's purity -> two-photon probability map ---- *)
Section Purity.
  Local Open Scope R_scope.

  (* purity_to_prob(purity) = 1 - p2_code purity for purity < 1, and p2 = 1 - p1 *)
  Definition p2_code (purity : R) : R :=
    let g2 := 1 - purity in
    let b := 2 * (1 - (1 / g2)) in
    (- b - sqrt (b * b - 4)) / 2.

  Lemma p2_code_spec purity :
    1 / 2 < purity < 1 ->
    0 < p2_code purity < 1 /\
    (1 - purity) * ((1 + p2_code purity) * (1 + p2_code purity)) = 2 * p2_code purity.
  Proof.
    intros [H1 H2]. unfold p2_code.
    set (g := 1 - purity). assert (Hg : 0 < g < 1 / 2) by (unfold g; lra).
    assert (Hig : g * / g = 1) by (apply Rinv_r; lra).
    assert (Hip : 0 < / g) by (apply Rinv_0_lt_compat; lra).
    replace (1 / g) with (/ g) by (unfold Rdiv; ring). set (ig := / g) in *.
    assert (Hig2 : 2 < ig) by nra.
    set (m := - (2 * (1 - ig))). assert (Hm : 2 < m) by (unfold m; lra).
    replace (2 * (1 - ig) * (2 * (1 - ig))) with (m * m) by (unfold m; ring).
    fold m.
    assert (Hs0 : 0 <= m * m - 4) by nra.
    pose proof (sqrt_sqrt _ Hs0) as Hss. pose proof (sqrt_pos (m * m - 4)) as Hsp.
    set (s := sqrt (m * m - 4)) in *.
    set (x := (m - s) / 2).
    assert (Hq : x * x - m * x + 1 = 0) by (unfold x; nra).
    assert (Hx : 0 < x < 1) by (unfold x; nra).
    split; [exact Hx|].
    replace ((1 + x) * (1 + x)) with ((m + 2) * x) by nra.
    replace (m + 2) with (2 * ig) by (unfold m; ring).
    transitivity (2 * x * (g * ig)); [ring|]. rewrite Hig. ring.
  Qed.

  (* g2 of the emitted light, with the code's formulas, for every brightness > 0 *)
  Lemma g2_is_one_minus_purity_R nu p_i purity :
    nu <> 0 -> 1 / 2 < purity < 1 ->
    let p2 := p2_code purity in
    2 * prob_two (o:=Rops) nu p_i p2 / (mean_n (o:=Rops) nu p_i p2 * mean_n (o:=Rops) nu p_i p2) = 1 - purity.
  Proof.
    intros Hnu Hp p2. destruct (p2_code_spec purity Hp) as [Hx Hrel]. fold p2 in Hx, Hrel.
    assert (G : (1 + 1) * prob_two (o:=Rops) nu p_i p2 =
                (1 - purity) * (mean_n (o:=Rops) nu p_i p2 * mean_n (o:=Rops) nu p_i p2)).
    { apply (g2_table (o:=Rops) nu p_i p2 purity). unfold ktwo. simpl. rewrite Hrel. ring. }
    assert (Hm : mean_n (o:=Rops) nu p_i p2 <> 0).
    { rewrite (mean_n_eq (o:=Rops)). simpl. apply Rmult_integral_contrapositive_currified; lra. }
    replace (2 * prob_two (o:=Rops) nu p_i p2) with ((1 + 1) * prob_two (o:=Rops) nu p_i p2) by ring.
    rewrite G. field. exact Hm.
  Qed.

  (* sqrt(indistinguishability) satisfies the model's relation p_i^2 = I *)
  Lemma sqrt_indist_spec ind : 0 <= ind <= 1 -> 0 <= sqrt ind <= 1 /\ sqrt ind * sqrt ind = ind.
  Proof.
    intros [H0 H1]. split; [|apply sqrt_sqrt; exact H0].
    split; [apply sqrt_pos|]. rewrite <- sqrt_1. apply sqrt_le_1_alt. exact H1.
  Qed.
End Purity.

(* ---- HOM over the reals, through the dispatch of _build_statistics ---- *)
Section HOM_R.
  Local Open Scope R_scope.
  Variable p_i : R.
  Hypothesis Hpi : 0 <= p_i <= 1.
  (* 50:50 beam splitter *)
  Variables c s : R.
  Hypothesis Hc : c * c = 1 / 2.
  Hypothesis Hs : s * s = 1 / 2.

  Lemma Rklt11 : klt Rops (k1 Rops) (k1 Rops) = false.
  Proof. unfold klt. simpl. apply negb_false_iff. apply Rleb_true. lra. Qed.
  Lemma Reqb_refl x : Reqb x x = true.
  Proof. apply Reqb_true. reflexivity. Qed.

  (* coincidence probability (1 - I)/2 for every indistinguishability I = p_i^2 in [0,1],
     brightness 1, purity 1, no threshold: both the fast path (I = 1) and the annotated path *)
  Lemma hom_coincidence_R :
    dget st_eqb Rops
         (pdist_calc Rops (D_bs (o:=Rops) c s) 2 false
                     (build_statistics Rops 1 p_i 0 1 (p_i * p_i) 0 [1; 1]%Z)) [1; 1]%Z
    = (1 - p_i * p_i) / 2.
  Proof.
    unfold build_statistics, stats_raw.
    change (keqb Rops 1 (k1 Rops)) with (Reqb 1 1). rewrite Reqb_refl. cbn [andb].
    change (keqb Rops (p_i * p_i) (k1 Rops)) with (Reqb (p_i * p_i) 1).
    destruct (Reqb (p_i * p_i) 1) eqn:E.
    - apply Reqb_true in E.
      rewrite (threshold_zero (o:=Rops)) by (simpl; apply Reqb_refl).
      change 1 with (k1 Rops) at 1.
      rewrite (build_basic_perfect (o:=Rops) Rklt11) by (repeat constructor; discriminate).
      unfold pdist_calc, basic_pdist. rewrite andb_false_r. unfold basic_mix. cbn [fold_left fst snd].
      change (keqb Rops (k1 Rops) (k1 Rops)) with (Reqb 1 1). rewrite Reqb_refl.
      unfold D_bs. cbn [st_eqb Z.eqb Pos.eqb andb dget]. unfold bs_r, bs_t. simpl. rewrite Hc, Hs, E. lra.
    - rewrite (threshold_zero (o:=Rops)) by (simpl; apply Reqb_refl).
      unfold pdist_calc.
      change 1 with (k1 Rops) at 1. change 0 with (k0 Rops) at 1.
      rewrite (hom_annotated (o:=Rops) c s p_i).
      + unfold bs_r, bs_t. simpl. rewrite Hc, Hs. field.
      + intros H. unfold gt0 in H. apply negb_false_iff in H. simpl in *. apply Rleb_true in H. lra.
      + intros H. unfold gt0 in H. apply negb_false_iff in H. simpl in *. apply Rleb_true in H. lra.
  Qed.

  (* visibility V = 1 - P_coinc(I) / P_coinc(0) = I *)
  Lemma hom_visibility_R :
    1 - ((1 - p_i * p_i) / 2) / ((1 - 0 * 0) / 2) = p_i * p_i.
  Proof. field. Qed.
End HOM_R.

(* ---- output normalisation over the reals, whole pipeline ---- *)
Section OutputNormR.
  Local Open Scope R_scope.
  Variables nu p_i p2 : R.
  Hypothesis Hnu : 0 <= nu <= 1.
  Hypothesis Hpi : 0 <= p_i <= 1.
  Hypothesis Hp2 : 0 <= p2 < 1.
  Variable D : state -> list (state * R).
  Variable n_modes : nat.
  Variable lossy : bool.
  Hypothesis HDne : forall g, D g <> [].
  Hypothesis HDnd : forall g, NoDup (dkeys (D g)).
  Hypothesis HDone : forall g, dtotal Rops (D g) = 1.

  Lemma output_normalised_R purity indist thr st :
    st <> [] -> Forall (fun n => (0 <= n)%Z) st ->
    (thr = 0 \/
     match stats_raw Rops nu p_i p2 purity indist st with
     | SBasic d => dtotal Rops (kept (o:=Rops) thr d) <> 0
     | SFull d => dtotal Rops (kept (o:=Rops) thr d) <> 0
     end) ->
    dtotal Rops (pdist_calc Rops D n_modes lossy (build_statistics Rops nu p_i p2 purity indist thr st)) = 1.
  Proof.
    intros Hne Hpos Hthr.
    apply (pdist_calc_total (o:=Rops) D n_modes lossy HDne HDnd HDone).
    - intros x Hx. simpl in Hx. apply Reqb_true in Hx. exact Hx.
    - apply build_statistics_total_R; assumption.
  Qed.
End OutputNormR.
