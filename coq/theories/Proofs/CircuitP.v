(* Invariants of the Circuit API model (Model/Circuit.v): every component a
   construction call records is well formed (CompileP.wf). *)
From Coq Require Import ZArith List Bool Arith Lia Permutation.
From LW Require Import Base.Sx Base.Num Base.Sums Base.Mat Base.Embed Model.Circuit Proofs.CompileP.
Import ListNotations.

Section CircuitP.
  Context {K : Type} {o : ops K} {SRK : StarRing o}.
  Notation comp := (@comp K).
  Notation circ := (@circ K).
  Notation co := (co o).
  Notation wf := (wf (o:=o)).
  Notation unit_amp := (unit_amp (o:=o)).

  (* ---- sorting / list equality ---- *)
  Lemma insert_nat_perm x l : Permutation (insert_nat x l) (x :: l).
  Proof.
    induction l as [|y l IH]; simpl; [reflexivity|].
    destruct (x <=? y); [reflexivity|]. rewrite IH. apply perm_swap.
  Qed.
  Lemma sort_nat_perm l : Permutation (sort_nat l) l.
  Proof. induction l as [|x l IH]; simpl; [reflexivity|]. rewrite insert_nat_perm, IH. reflexivity. Qed.
  Lemma list_eqb_eq a b : list_eqb a b = true -> a = b.
  Proof.
    revert b; induction a as [|x a IH]; intros [|y b] H; simpl in H; try discriminate; [reflexivity|].
    apply andb_true_iff in H as [H1 H2]. apply Nat.eqb_eq in H1. apply IH in H2. congruence.
  Qed.
  Lemma sort_eq_perm a b : list_eqb (sort_nat a) (sort_nat b) = true -> Permutation a b.
  Proof. intros H. apply list_eqb_eq in H. rewrite <- (sort_nat_perm a), H. apply sort_nat_perm. Qed.

  (* ---- mode checks ---- *)
  Lemma mode_ok_lt (c : circ) z a : mode_ok c z = Ok a -> a < c_n c /\ z = Z.of_nat a.
  Proof.
    unfold mode_ok, in_range. destruct ((0 <=? z)%Z && (z <? Z.of_nat (c_n c))%Z) eqn:E; [|discriminate].
    intros H. injection H as <-. apply andb_true_iff in E as [E1 E2].
    apply Z.leb_le in E1. apply Z.ltb_lt in E2. split; lia.
  Qed.

  Lemma all_ok_spec (c : circ) zs r :
    all_ok c zs = Ok r -> zs = map Z.of_nat r /\ Forall (fun a => a < c_n c) r.
  Proof.
    revert r; induction zs as [|z zs IH]; intros r H; simpl in H.
    - injection H as <-. split; [reflexivity|constructor].
    - destruct (mode_ok c z) as [a|] eqn:E; simpl in H; [|discriminate].
      destruct (all_ok c zs) as [r'|] eqn:E'; simpl in H; [|discriminate].
      injection H as <-. apply mode_ok_lt in E as [E1 E2]. destruct (IH r' eq_refl) as [-> Hall].
      split; [simpl; congruence|constructor; assumption].
  Qed.

  (* ---- zdset builds duplicate-free keys ---- *)
  Lemma zdset_keys d k v x : In x (map fst (zdset d k v)) <-> x = k \/ In x (map fst d).
  Proof.
    induction d as [|[k' v'] d IH]; simpl; [intuition|].
    destruct (Z.eqb_spec k' k) as [->|Hne]; simpl; [intuition|]. rewrite IH. intuition.
  Qed.
  Lemma zdset_nodup d k v : NoDup (map fst d) -> NoDup (map fst (zdset d k v)).
  Proof.
    induction d as [|[k' v'] d IH]; intros H; simpl.
    - constructor; [intros []|constructor].
    - inversion H as [|? ? Hn Hd]; subst. destruct (Z.eqb_spec k' k) as [->|Hne]; simpl.
      + constructor; assumption.
      + constructor; [|apply IH; assumption]. rewrite zdset_keys. intros [E|Hin]; [congruence|contradiction].
  Qed.
  Lemma fold_zdset_nodup (f : Z -> Z) l d :
    NoDup (map fst d) ->
    NoDup (map fst (fold_left (fun d kv => zdset d (f (fst kv)) (f (snd kv))) l d)).
  Proof. revert d; induction l as [|kv l IH]; intros d H; simpl; [exact H|]. apply IH, zdset_nodup, H. Qed.

  Lemma dkeys_combine (ks vs : list nat) : length ks = length vs -> dkeys (combine ks vs) = ks.
  Proof.
    revert vs; induction ks as [|k ks IH]; intros [|v vs] H; simpl in *; try discriminate; [reflexivity|].
    f_equal. apply IH. lia.
  Qed.
  Lemma dvals_combine (ks vs : list nat) : length ks = length vs -> dvals (combine ks vs) = vs.
  Proof.
    revert vs; induction ks as [|k ks IH]; intros [|v vs] H; simpl in *; try discriminate; [reflexivity|].
    f_equal. apply IH. lia.
  Qed.

  Lemma nodup_of_nat (r : list nat) : NoDup (map Z.of_nat r) -> NoDup r.
  Proof.
    induction r as [|a r IH]; intros H; [constructor|]. simpl in H. inversion H as [|? ? Hn Hd]; subst.
    constructor; [|apply IH; assumption]. intros Hin. apply Hn. apply in_map. exact Hin.
  Qed.

  Ltac dbind H a E :=
    match type of H with
    | bind ?x _ = _ => destruct x as [a|] eqn:E; simpl in H; [|discriminate]
    end.
  Ltac dif H E :=
    match type of H with
    | (if ?b then _ else _) = _ => destruct b eqn:E; try discriminate
    end.

  (* ---- the invariant ---- *)
  Definition inv (e : env (K:=K)) (c : circ) : Prop := Forall (wf e (c_n c)) (c_spec c).

  (* the amplitudes carried by a value are consistent whenever the value is in range *)
  Definition val_ok (e : env (K:=K)) (v : val (K:=K)) : Prop :=
    in01 o (t1 (getv e v)) = true -> unit_amp (getv e v).
  Definition ph_ok (e : env (K:=K)) (v : val (K:=K)) : Prop := unit_amp (getv e v).

  Lemma inv_app e (c : circ) sp : inv e c -> Forall (wf e (c_n c)) sp -> inv e (app_spec c sp).
  Proof. unfold inv, app_spec, set_spec. simpl. intros H1 H2. apply Forall_app. split; assumption. Qed.

  Lemma op_bs_inv e c m1 m2 r l cv c' :
    val_ok e r -> val_ok e l -> inv e c -> op_bs o e c m1 m2 r l cv = Ok c' -> inv e c' /\ c_n c' = c_n c.
  Proof.
    intros Hr Hl Hi H. unfold op_bs in H.
    dbind H a Ea. dif H Eab. dbind H b Eb. dbind H u Eu. dif H Ev.
    apply mode_ok_lt in Ea as [Ha _]. apply mode_ok_lt in Eb as [Hb Hb'].
    apply Z.eqb_neq in Eab.
    assert (Hbs : wf e (c_n c) (BS a b r cv)) by (constructor; try assumption; lia).
    assert (Hla : wf e (c_n c) (LossC a l)) by (constructor; assumption).
    assert (Hlb : wf e (c_n c) (LossC b l)) by (constructor; assumption).
    destruct (loss_positive o l); injection H as <-; (split; [|reflexivity]).
    - apply inv_app; [apply inv_app; [assumption|constructor; [exact Hbs|constructor]]|].
      constructor; [exact Hla|constructor; [exact Hlb|constructor]].
    - apply inv_app; [assumption|constructor; [exact Hbs|constructor]].
  Qed.

  Lemma op_ps_inv e c m phi l c' :
    ph_ok e phi -> val_ok e l -> inv e c -> op_ps o e c m phi l = Ok c' -> inv e c' /\ c_n c' = c_n c.
  Proof.
    intros Hp Hl Hi H. unfold op_ps in H.
    dbind H a Ea. dbind H u Eu.
    apply mode_ok_lt in Ea as [Ha _].
    assert (Hps : wf e (c_n c) (PS a phi)) by (constructor; assumption).
    assert (Hla : wf e (c_n c) (LossC a l)) by (constructor; assumption).
    destruct (loss_positive o l); injection H as <-; (split; [|reflexivity]).
    - apply inv_app; [apply inv_app; [assumption|]|]; (constructor; [assumption|constructor]).
    - apply inv_app; [assumption|]; (constructor; [assumption|constructor]).
  Qed.

  Lemma op_loss_inv e c m l c' :
    val_ok e l -> inv e c -> op_loss o e c m l = Ok c' -> inv e c' /\ c_n c' = c_n c.
  Proof.
    intros Hl Hi H. unfold op_loss in H.
    dbind H a Ea. dbind H u Eu.
    apply mode_ok_lt in Ea as [Ha _]. injection H as <-. split; [|reflexivity].
    assert (Hla : wf e (c_n c) (LossC a l)) by (constructor; assumption).
    apply inv_app; [assumption|]; (constructor; [assumption|constructor]).
  Qed.

  Lemma op_barrier_inv e c ms c' :
    inv e c -> op_barrier c ms = Ok c' -> inv e c' /\ c_n c' = c_n c.
  Proof.
    intros Hi H. unfold op_barrier in H.
    dbind H r Er. injection H as <-. split; [|reflexivity].
    apply inv_app; [assumption|]; (constructor; [apply wf_bar|constructor]).
  Qed.

  Lemma op_mode_swaps_inv e c sw c' :
    inv e c -> op_mode_swaps c sw = Ok c' -> inv e c' /\ c_n c' = c_n c.
  Proof.
    intros Hi H. unfold op_mode_swaps in H.
    set (mapped := fold_left _ sw []) in H.
    dbind H ks Ek. dbind H vs Ev. dif H Es.
    injection H as <-. split; [|reflexivity].
    apply all_ok_spec in Ek as [Ek1 Ek2]. apply all_ok_spec in Ev as [Ev1 Ev2].
    assert (Hlen : length ks = length vs).
    { rewrite <- (map_length Z.of_nat ks), <- Ek1, <- (map_length Z.of_nat vs), <- Ev1, !map_length. reflexivity. }
    assert (Hnd : NoDup ks).
    { apply nodup_of_nat. rewrite <- Ek1. unfold mapped. apply fold_zdset_nodup. constructor. }
    pose proof (sort_eq_perm _ _ Es) as Hperm.
    apply inv_app; [assumption|]. constructor; [|constructor]. apply wf_sw. unfold wf_swaps.
    rewrite dkeys_combine, dvals_combine by assumption. repeat split.
    - exact Hnd.
    - eapply Permutation_NoDup; eassumption.
    - intros Hin. eapply Permutation_in; eassumption.
    - intros Hin. eapply Permutation_in; [apply Permutation_sym|]; eassumption.
    - intros k Hin. rewrite Forall_forall in Ek2. apply Ek2. exact Hin.
  Qed.

  (* adding a herald-free, group-free sub-circuit (e.g. a Unitary) to a circuit
     without ancillas appends its components shifted by the mode *)
  Lemma map_mode_nil z : map_mode [] z = z.
  Proof. reflexivity. Qed.

  Lemma unpack_nogroup (sp : list comp) :
    Forall (fun x => is_group x = false) sp -> unpack_spec sp = sp.
  Proof.
    induction 1 as [|x sp Hx _ IH]; simpl; [reflexivity|].
    unfold unpack_spec in *. simpl. rewrite IH. destruct x; try reflexivity. discriminate.
  Qed.

  Lemma op_add_simple (c sub : circ) mode g c' :
    c_int c = [] -> c_in sub = [] -> c_out sub = [] -> g = false ->
    op_add o c sub mode g = Ok c' ->
    exists m, mode = Z.of_nat m /\ m + c_n sub <= c_n c /\
              c' = app_spec c (shift_spec m (c_spec sub)).
  Proof.
    intros Hint Hin Hout -> H.
    destruct sub as [sn ssp sin sout sxin sxout sint]; simpl in Hin, Hout; subst sin sout.
    unfold op_add in H. rewrite Hint in H. simpl in H.
    dbind H m Em. change (map_mode [] mode) with mode in Em.
    apply mode_ok_lt in Em as [Hm ->].
    unfold copy_circ, unpack_groups in H. simpl in H. rewrite ?Hin, ?Hout in H. simpl in H.
    dif H E. apply Nat.ltb_ge in E. rewrite ?Nat.sub_0_r in E.
    exists m. split; [reflexivity|]. split; [simpl; lia|].
    (* no heralds: no provisional swaps; completion loop yields the empty dictionary *)
    assert (Hcs : forall n i cur, i = cur -> complete_swaps n i [] cur [] = []).
    { induction n as [|n IH]; intros i cur ->; simpl; [reflexivity|]. rewrite Nat.eqb_refl. apply IH. reflexivity. }
    change (dict_of []) with (@nil (nat * nat)) in H. rewrite (Hcs sn 0 0 eq_refl) in H. simpl in H.
    injection H as <-. reflexivity.
  Qed.

  Lemma shift_wf e N d x : wf e N x -> wf e (N + d) (shift_comp d x).
  Proof.
    induction x as [m1 m2 v cv|m v|m v|ms|sw|m k V|sp m1 m2 hin hout IH] using comp_ind';
      intros H; inversion H; subst; simpl; try (constructor; try assumption; lia).
    - (* swaps *)
      constructor.
      match goal with Hs : wf_swaps N sw |- _ => destruct Hs as (Hk & Hv & Hkv & Hr) end.
      assert (Hd : dict_of (map (fun kv => (fst kv + d, snd kv + d)) sw) = map (fun kv => (fst kv + d, snd kv + d)) sw).
      { clear Hv Hkv Hr. unfold dict_of.
        assert (G : forall l acc, NoDup (dkeys acc ++ dkeys l) ->
                    fold_left (fun dd kv => dset dd (fst kv) (snd kv)) l acc = acc ++ l).
        { induction l as [|[a b] l IHl]; intros acc Hn; simpl; [rewrite app_nil_r; reflexivity|].
          assert (Hs : dset acc a b = acc ++ [(a, b)]).
          { simpl in Hn. apply NoDup_remove_2 in Hn.
            assert (~ In a (dkeys acc)) by (intros Hin; apply Hn; apply in_or_app; left; exact Hin).
            clear -H0. induction acc as [|[a' b'] acc IHa]; simpl; [reflexivity|].
            destruct (Nat.eqb_spec a' a) as [->|Hne]; [exfalso; apply H0; left; reflexivity|].
            rewrite IHa; [reflexivity|]. intros Hin. apply H0. right. exact Hin. }
          rewrite Hs. rewrite IHl; [rewrite <- app_assoc; reflexivity|].
          unfold dkeys in *. rewrite map_app. simpl. rewrite <- app_assoc. simpl. exact Hn. }
        rewrite G; [reflexivity|]. simpl. unfold dkeys. rewrite map_map. simpl.
        clear -Hk. unfold dkeys in Hk. induction sw as [|[a b] sw IHs]; simpl; [constructor|].
        inversion Hk; subst. constructor; [|apply IHs; assumption].
        rewrite in_map_iff. intros ([a' b'] & E & Hin). simpl in E. apply H1.
        rewrite in_map_iff. exists (a', b'). split; [simpl; lia|exact Hin]. }
      rewrite Hd. unfold wf_swaps, dkeys, dvals in *. rewrite !map_map. simpl.
      assert (Hinj : forall l : list nat, NoDup l -> NoDup (map (fun x => x + d) l)).
      { induction l as [|a l IHl]; intros Hn; simpl; [constructor|]. inversion Hn; subst.
        constructor; [|apply IHl; assumption]. rewrite in_map_iff. intros (a' & E & Hin).
        assert (a' = a) by lia. subst. contradiction. }
      repeat split.
      + rewrite <- (map_map fst (fun x => x + d)). apply Hinj. exact Hk.
      + rewrite <- (map_map snd (fun x => x + d)). apply Hinj. exact Hv.
      + rewrite <- (map_map fst (fun x => x + d)), <- (map_map snd (fun x => x + d)).
        rewrite !in_map_iff. intros (a & E & Hin). exists a. split; [exact E|]. apply Hkv. exact Hin.
      + rewrite <- (map_map fst (fun x => x + d)), <- (map_map snd (fun x => x + d)).
        rewrite !in_map_iff. intros (a & E & Hin). exists a. split; [exact E|]. apply Hkv. exact Hin.
      + intros k0. rewrite <- (map_map fst (fun x => x + d)). rewrite in_map_iff.
        intros (a & <- & Hin). specialize (Hr a Hin). lia.
    - (* group *)
      constructor. rewrite Forall_forall in *. intros y Hy. apply in_map_iff in Hy as (x & <- & Hx).
      apply IH; [exact Hx|]. match goal with Hf : forall x, In x sp -> wf e N x |- _ => apply Hf end. exact Hx.
  Qed.

  Lemma wf_mono e N N' x : N <= N' -> wf e N x -> wf e N' x.
  Proof.
    intros Hle. induction x as [m1 m2 v cv|m v|m v|ms|sw|m k V|sp m1 m2 hin hout IH] using comp_ind';
      intros H; inversion H; subst; try (constructor; try assumption; lia).
    - constructor. match goal with Hs : wf_swaps N sw |- _ => destruct Hs as (Hk & Hv & Hkv & Hr) end.
      repeat split; try assumption; try apply Hkv. intros k Hin. specialize (Hr k Hin). lia.
    - constructor. rewrite Forall_forall in *. intros y Hy. apply IH; [exact Hy|].
      match goal with Hf : forall x, In x sp -> wf e N x |- _ => apply Hf end. exact Hy.
  Qed.

  Lemma op_add_unitary_inv e (c : circ) k V mode c' :
    c_int c = [] -> unitary co k V -> inv e c ->
    op_add o c (unitary_circ k V) mode false = Ok c' -> inv e c' /\ c_n c' = c_n c.
  Proof.
    intros Hint HV Hi H. apply op_add_simple in H; try reflexivity; try assumption.
    destruct H as (m & -> & Hle & ->). simpl in Hle. split; [|reflexivity].
    apply inv_app; [assumption|]. simpl. constructor; [|constructor]. apply wf_u; [simpl; lia|exact HV].
  Qed.
End CircuitP.
