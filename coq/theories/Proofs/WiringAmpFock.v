(* Fock-space amplitudes of a matrix transported along an injection of modes
   (property C02, T2 add_amplitudes; pure permanent algebra, no circuits here).

   If M' carries the n x n matrix M on the rows fo[0,n) / columns fi[0,n) of an N x N
   identity (fi, fo injective with the same image), the amplitude permanent of M' between
   two N-mode Fock states is the amplitude permanent of M between the states restricted
   along fi / fo, times the Kronecker delta of the occupations outside the image, times
   the product of the factorials of those occupations (amp_transport).  Photons on modes
   outside the image pass straight through, mode by mode.  Then: the amplitudes of a
   product E . iP of two such transported matrices are the sums over the intermediate
   Fock states of the products of the two transformations' own amplitudes
   (wiring_amplitudes). *)
From Coq Require Import ZArith Arith Lia Ring_theory Ring List Bool Permutation.
From LW Require Import Base.Num Base.Sums Base.Mat Model.State Model.Fock Proofs.StateP Proofs.PermP
     Proofs.FockUnitP.
Import ListNotations.
Open Scope nat_scope.

(* the occupations of the modes f 0, ..., f (n-1) of the state s: s read along f *)
Definition restr (f : nat -> nat) (n : nat) (s : list nat) : list nat :=
  map (fun i => nth (f i) s 0) (seq 0 n).
(* x is one of f 0, ..., f (n-1) *)
Definition in_img (f : nat -> nat) (n : nat) (x : nat) : bool :=
  existsb (fun i => f i =? x) (seq 0 n).
(* the modes of [0,N) that are not in f[0,n), ascending *)
Definition offm (f : nat -> nat) (n N : nat) : list nat :=
  filter (fun x => negb (in_img f n x)) (seq 0 N).
(* the occupations of those modes *)
Definition offocc (f : nat -> nat) (n N : nat) (s : list nat) : list nat :=
  map (fun x => nth x s 0) (offm f n N).
(* the photons of s on the modes listed in l, each mode repeated by its occupation *)
Definition expl (s : list nat) (l : list nat) : list nat :=
  flat_map (fun x => repeat x (nth x s 0)) l.

(* ------------------------------------------------------------------ *)
(* lists                                                               *)
(* ------------------------------------------------------------------ *)
Section Lists.
  Lemma flat_map_ext_in' {A B} (f g : A -> list B) l :
    (forall a, In a l -> f a = g a) -> flat_map f l = flat_map g l.
  Proof.
    induction l as [|a l IH]; intros H; [reflexivity|]. simpl.
    rewrite H by (left; reflexivity). rewrite IH; [reflexivity|].
    intros b Hb. apply H. right. exact Hb.
  Qed.

  Lemma map_repeat' {A B} (f : A -> B) a k : map f (repeat a k) = repeat (f a) k.
  Proof. induction k as [|k IH]; [reflexivity|]. simpl. rewrite IH. reflexivity. Qed.

  Lemma nodup_map_inj_in {A B} (f : A -> B) (l : list A) :
    (forall x y, In x l -> In y l -> f x = f y -> x = y) -> NoDup l -> NoDup (map f l).
  Proof.
    induction l as [|a l IH]; intros Hinj H; simpl; [constructor|].
    inversion H as [|? ? Ha Hl]; subst. constructor.
    - intros Hin. apply in_map_iff in Hin. destruct Hin as [x [Hx Hin]].
      apply Hinj in Hx; [subst; contradiction|right; exact Hin|left; reflexivity].
    - apply IH; [|exact Hl]. intros x y Hx Hy. apply Hinj; right; assumption.
  Qed.

  Lemma expand_from_expl i s :
    expand_from i s = flat_map (fun x => repeat x (nth (x - i) s 0)) (seq i (length s)).
  Proof.
    revert i. induction s as [|n s IH]; intros i; [reflexivity|].
    cbn [expand_from length seq flat_map]. rewrite Nat.sub_diag. cbn [nth]. f_equal.
    rewrite IH. apply flat_map_ext_in'. intros x Hx. apply in_seq in Hx.
    replace (x - i) with (S (x - S i)) by lia. reflexivity.
  Qed.

  Lemma expand_expl s : expand s = expl s (seq 0 (length s)).
  Proof.
    unfold expand, expl. rewrite expand_from_expl. apply flat_map_ext_in'.
    intros x _. rewrite Nat.sub_0_r. reflexivity.
  Qed.

  Lemma expl_perm s l l' : Permutation l l' -> Permutation (expl s l) (expl s l').
  Proof. intros H. unfold expl. apply Permutation_flat_map. exact H. Qed.

  Lemma expl_app s l1 l2 : expl s (l1 ++ l2) = expl s l1 ++ expl s l2.
  Proof. apply flat_map_app. Qed.

  Lemma expl_in s l a : In a (expl s l) -> In a l.
  Proof.
    unfold expl. rewrite in_flat_map. intros [x [Hx Ha]]. apply repeat_spec in Ha. subst. exact Hx.
  Qed.

  Lemma restr_length f n s : length (restr f n s) = n.
  Proof. unfold restr. rewrite map_length, seq_length. reflexivity. Qed.

  Lemma nth_restr f n s i : i < n -> nth i (restr f n s) 0 = nth (f i) s 0.
  Proof.
    intros Hi. unfold restr. set (g := fun i => nth (f i) s 0).
    rewrite (nth_indep _ 0 (g 0)) by (rewrite map_length, seq_length; exact Hi).
    rewrite map_nth, seq_nth by exact Hi. reflexivity.
  Qed.

  Lemma expl_map_restr f n s l :
    (forall a, In a l -> a < n) -> expl s (map f l) = map f (expl (restr f n s) l).
  Proof.
    induction l as [|a l IH]; intros H; [reflexivity|].
    cbn [map expl flat_map]. rewrite map_app, map_repeat'. f_equal.
    - rewrite nth_restr by (apply H; left; reflexivity). reflexivity.
    - apply IH. intros b Hb. apply H. right. exact Hb.
  Qed.

  Lemma expl_img f n s : expl s (map f (seq 0 n)) = map f (expand (restr f n s)).
  Proof.
    rewrite expand_expl, restr_length. apply expl_map_restr.
    intros a Ha. apply in_seq in Ha. lia.
  Qed.

  Lemma in_img_true f n x : in_img f n x = true <-> exists i, i < n /\ f i = x.
  Proof.
    unfold in_img. rewrite existsb_exists. split.
    - intros [i [Hi E]]. apply in_seq in Hi. apply Nat.eqb_eq in E. exists i. split; [lia|exact E].
    - intros [i [Hi E]]. exists i. split; [apply in_seq; lia|apply Nat.eqb_eq; exact E].
  Qed.

  Lemma in_img_false f n x : in_img f n x = false <-> forall i, i < n -> f i <> x.
  Proof.
    split.
    - intros H i Hi E. assert (T : in_img f n x = true) by (apply in_img_true; exists i; auto).
      congruence.
    - intros H. destruct (in_img f n x) eqn:E; [|reflexivity].
      apply in_img_true in E. destruct E as [i [Hi E]]. exfalso. exact (H i Hi E).
  Qed.

  Lemma offm_in f n N x : In x (offm f n N) <-> x < N /\ forall i, i < n -> f i <> x.
  Proof.
    unfold offm. rewrite filter_In, in_seq, negb_true_iff, in_img_false. split; intros [H1 H2]; (split; [lia|exact H2]).
  Qed.

  Lemma offm_nodup f n N : NoDup (offm f n N).
  Proof. unfold offm. apply NoDup_filter, seq_NoDup. Qed.

  (* two injections with the same image have the same complement *)
  Lemma offm_same_img f g n N :
    (forall x, (forall i, i < n -> f i <> x) <-> (forall i, i < n -> g i <> x)) ->
    offm g n N = offm f n N.
  Proof.
    intros H. unfold offm. apply filter_ext_in. intros x _. f_equal.
    destruct (in_img f n x) eqn:E.
    - destruct (in_img g n x) eqn:E'; [reflexivity|]. exfalso.
      pose proof (proj2 (in_img_false f n x) (proj2 (H x) (proj1 (in_img_false g n x) E'))). congruence.
    - apply in_img_false. apply (proj1 (H x)). apply (proj1 (in_img_false f n x)). exact E.
  Qed.

  (* the modes split into the image of f and the rest *)
  Lemma seq_split_perm f n N :
    (forall i, i < n -> f i < N) -> (forall i j, i < n -> j < n -> f i = f j -> i = j) ->
    Permutation (seq 0 N) (map f (seq 0 n) ++ offm f n N).
  Proof.
    intros Hlt Hinj. apply NoDup_Permutation.
    - apply seq_NoDup.
    - apply nodup_app.
      + apply nodup_map_inj_in; [|apply seq_NoDup].
        intros x y Hx Hy. apply in_seq in Hx, Hy. apply Hinj; lia.
      + apply offm_nodup.
      + intros x Hx Hoff. apply in_map_iff in Hx. destruct Hx as [i [E Hi]]. apply in_seq in Hi.
        apply offm_in in Hoff. destruct Hoff as [_ Hoff]. apply (Hoff i); [lia|exact E].
    - intros x. rewrite in_app_iff, in_seq, in_map_iff, offm_in. split.
      + intros Hx. destruct (in_img f n x) eqn:E.
        * apply in_img_true in E. destruct E as [i [Hi E]]. left. exists i. split; [exact E|apply in_seq; lia].
        * right. split; [lia|apply in_img_false; exact E].
      + intros [[i [E Hi]]|[Hx _]]; [|lia]. apply in_seq in Hi. subst x. split; [lia|apply Hlt; lia].
  Qed.

  (* the photons of a state, sorted into those on the image of f and the others *)
  Lemma expand_split f n N s :
    (forall i, i < n -> f i < N) -> (forall i j, i < n -> j < n -> f i = f j -> i = j) ->
    length s = N ->
    Permutation (expand s) (map f (expand (restr f n s)) ++ expl s (offm f n N)).
  Proof.
    intros Hlt Hinj Hl. rewrite expand_expl, Hl, <- expl_img, <- expl_app.
    apply expl_perm, seq_split_perm; assumption.
  Qed.

  Lemma fact_prod_perm l l' : Permutation l l' -> fact_prod l = fact_prod l'.
  Proof. induction 1; simpl; lia. Qed.

  Lemma fact_prod_app l1 l2 : fact_prod (l1 ++ l2) = fact_prod l1 * fact_prod l2.
  Proof. induction l1 as [|a l1 IH]; simpl; [lia|]. rewrite IH. lia. Qed.

  Lemma osum_perm l l' : Permutation l l' -> osum l = osum l'.
  Proof. induction 1; rewrite ?osum_cons in *; lia. Qed.

  Lemma occ_split f n N s :
    (forall i, i < n -> f i < N) -> (forall i j, i < n -> j < n -> f i = f j -> i = j) ->
    length s = N -> Permutation s (restr f n s ++ offocc f n N s).
  Proof.
    intros Hlt Hinj Hl. rewrite <- (map_nth_seq s 0) at 1. rewrite Hl.
    unfold restr, offocc. rewrite <- (map_map f (fun x => nth x s 0)), <- map_app.
    apply Permutation_map, seq_split_perm; assumption.
  Qed.

  (* normalisation: prod s! = prod (s along f)! * prod (s off the image of f)! *)
  Lemma fact_prod_split f n N s :
    (forall i, i < n -> f i < N) -> (forall i j, i < n -> j < n -> f i = f j -> i = j) ->
    length s = N -> fact_prod s = fact_prod (restr f n s) * fact_prod (offocc f n N s).
  Proof.
    intros Hlt Hinj Hl. rewrite (fact_prod_perm _ _ (occ_split f n N s Hlt Hinj Hl)). apply fact_prod_app.
  Qed.

  (* photon number: |s| = |s along f| + |s off the image of f| *)
  Lemma osum_split f n N s :
    (forall i, i < n -> f i < N) -> (forall i j, i < n -> j < n -> f i = f j -> i = j) ->
    length s = N -> osum s = osum (restr f n s) + osum (offocc f n N s).
  Proof.
    intros Hlt Hinj Hl. rewrite (osum_perm _ _ (occ_split f n N s Hlt Hinj Hl)). apply osum_app.
  Qed.

  (* equal occupations off the image, mode by mode *)
  Lemma offocc_eq_nth f n N s t :
    offocc f n N s = offocc f n N t ->
    forall x, x < N -> (forall i, i < n -> f i <> x) -> nth x s 0 = nth x t 0.
  Proof.
    intros E x Hx Hoff. assert (Hin : In x (offm f n N)) by (apply offm_in; split; assumption).
    unfold offocc in E. revert E Hin. generalize (offm f n N). intros l.
    induction l as [|a l IH]; intros E Hin; [contradiction|].
    simpl in E. inversion E. destruct Hin as [->|Hin]; [assumption|]. apply IH; assumption.
  Qed.
End Lists.

(* ------------------------------------------------------------------ *)
(* T-A: transport of amplitudes along an injection                     *)
(* ------------------------------------------------------------------ *)
Section Transport.
  Context {R : Type} {r : ops R} {SR : StarRing r} {ZM : ZMorph r}.
  Let Rr := sr_ring (o:=r).
  Add Ring Kta : Rr.
  Local Notation "0" := (k0 r) : K_scope.
  Local Notation "1" := (k1 r) : K_scope.
  Local Notation "a * b" := (kmul r a b) : K_scope.
  Local Notation perm_ml := (perm_ml r).
  Local Notation kofnat := (kofnat r).
  Notation mat := (@mat R).

  (* sub-matrix of the identity on the photons of two states over a duplicate-free list
     of modes: Kronecker delta of the occupations times the product of their factorials *)
  Lemma perm_ml_mid_expl (l : list nat) s t :
    NoDup l ->
    perm_ml (mid r) (expl t l) (expl s l) =
    if nlist_eqb (map (fun x => nth x s 0%nat) l) (map (fun x => nth x t 0%nat) l)
    then kofnat (fact_prod (map (fun x => nth x s 0%nat) l)) else 0%K.
  Proof.
    induction l as [|x l IH]; intros Hnd.
    - simpl. symmetry. apply kofnat_1.
    - inversion Hnd as [|? ? Hx Hl]; subst.
      cbn [expl flat_map map nlist_eqb fact_prod]. fold (expl t l). fold (expl s l).
      rewrite (perm_ml_block (mid r) (fun a => a = x)).
      + rewrite perm_ml_mid_repeat, IH by exact Hl.
        destruct (Nat.eqb_spec (nth x t 0) (nth x s 0)) as [E|E].
        * rewrite E, Nat.eqb_refl. cbn [andb].
          destruct (nlist_eqb _ _); [rewrite kofnat_mul; reflexivity|ring].
        * destruct (Nat.eqb_spec (nth x s 0) (nth x t 0)) as [E'|E']; [congruence|]. cbn [andb]. ring.
      + intros a b Ha Hb. unfold mid. destruct (Nat.eqb_spec a b); [subst; contradiction|reflexivity].
      + intros a b Ha Hb. unfold mid. destruct (Nat.eqb_spec a b); [subst; contradiction|reflexivity].
      + intros a Ha. apply repeat_spec in Ha. exact Ha.
      + intros a Ha. apply repeat_spec in Ha. exact Ha.
      + intros a Ha E. subst a. apply Hx. eapply expl_in. exact Ha.
      + intros a Ha E. subst a. apply Hx. eapply expl_in. exact Ha.
  Qed.

  (* the factor contributed by the modes outside the image of f: they conserve their
     occupation mode by mode; an agreeing mode with k photons contributes k! *)
  Definition pass_factor (f : nat -> nat) (n N : nat) (s t : list nat) : R :=
    if nlist_eqb (offocc f n N s) (offocc f n N t) then kofnat (fact_prod (offocc f n N s)) else 0%K.

  (* T-A.  M' carries M on rows fo[0,n), columns fi[0,n) of the N-dimensional identity.
     s = input state (columns), t = output state (rows), both on N modes. *)
  Theorem amp_transport (n N : nat) (fi fo : nat -> nat) (M M' : mat) (s t : list nat) :
    (forall i, i < n -> fi i < N /\ fo i < N) ->
    (forall i j, i < n -> j < n -> (fi i = fi j -> i = j) /\ (fo i = fo j -> i = j)) ->
    (forall x, (forall i, i < n -> fi i <> x) <-> (forall i, i < n -> fo i <> x)) ->
    (forall i j, i < n -> j < n -> M' (fo i) (fi j) = M i j) ->
    (forall x y, x < N -> y < N -> (forall i, i < n -> fi i <> x) ->
                 M' x y = mid r x y /\ M' y x = mid r y x) ->
    length s = N -> length t = N ->
    amp_perm r M' s t =
    (pass_factor fi n N s t * amp_perm r M (restr fi n s) (restr fo n t))%K.
  Proof.
    intros Hlt Hinj Himg HM Hoff Hs Ht.
    assert (Hlti : forall i, i < n -> fi i < N) by (intros i Hi; apply Hlt; exact Hi).
    assert (Hlto : forall i, i < n -> fo i < N) by (intros i Hi; apply Hlt; exact Hi).
    assert (Hinji : forall i j, i < n -> j < n -> fi i = fi j -> i = j)
      by (intros i j Hi Hj; apply (Hinj i j Hi Hj)).
    assert (Hinjo : forall i j, i < n -> j < n -> fo i = fo j -> i = j)
      by (intros i j Hi Hj; apply (Hinj i j Hi Hj)).
    pose proof (expand_split fi n N s Hlti Hinji Hs) as Ps.
    pose proof (expand_split fo n N t Hlto Hinjo Ht) as Pt.
    rewrite (offm_same_img fi fo n N Himg) in Pt.
    unfold amp_perm.
    rewrite (perm_ml_rows_perm _ _ _ _ Pt), (perm_ml_cols_perm _ _ _ _ Ps).
    set (X1 := expand (restr fo n t)). set (Y1 := expand (restr fi n s)).
    set (X2 := expl t (offm fi n N)). set (Y2 := expl s (offm fi n N)).
    assert (HX1 : forall a, In a X1 -> a < n)
      by (intros a Ha; apply expand_bounds in Ha; rewrite restr_length in Ha; exact Ha).
    assert (HY1 : forall a, In a Y1 -> a < n)
      by (intros a Ha; apply expand_bounds in Ha; rewrite restr_length in Ha; exact Ha).
    assert (HX2 : forall a, In a X2 -> a < N /\ forall i, i < n -> fi i <> a)
      by (intros a Ha; apply expl_in in Ha; apply offm_in in Ha; exact Ha).
    assert (HY2 : forall a, In a Y2 -> a < N /\ forall i, i < n -> fi i <> a)
      by (intros a Ha; apply expl_in in Ha; apply offm_in in Ha; exact Ha).
    (* clamp M' outside [0,N) so that the block structure holds for all indices *)
    set (M2 := fun a b : nat => if (a <? N) && (b <? N) then M' a b else mid r a b).
    assert (Hrow : forall a, In a (map fo X1 ++ X2) -> a < N).
    { intros a Ha. apply in_app_or in Ha. destruct Ha as [Ha|Ha].
      - apply in_map_iff in Ha. destruct Ha as [i [<- Hi]]. apply Hlto, HX1, Hi.
      - apply HX2, Ha. }
    assert (Hcol : forall a, In a (map fi Y1 ++ Y2) -> a < N).
    { intros a Ha. apply in_app_or in Ha. destruct Ha as [Ha|Ha].
      - apply in_map_iff in Ha. destruct Ha as [i [<- Hi]]. apply Hlti, HY1, Hi.
      - apply HY2, Ha. }
    assert (HM2 : forall a b, a < N -> b < N -> M2 a b = M' a b).
    { intros a b Ha Hb. unfold M2.
      destruct (Nat.ltb_spec a N); [|lia]. destruct (Nat.ltb_spec b N); [|lia]. reflexivity. }
    rewrite (perm_ml_ext M' M2) by (intros a b Ha Hb; symmetry; apply HM2; [apply Hrow, Ha|apply Hcol, Hb]).
    (* in_img as a proposition; image of fi = image of fo *)
    assert (Himg' : forall a, (exists i, i < n /\ fo i = a) -> exists i, i < n /\ fi i = a).
    { intros a [i [Hi E]]. apply in_img_true. destruct (in_img fi n a) eqn:Ei; [reflexivity|].
      exfalso. exact (proj1 (Himg a) (proj1 (in_img_false fi n a) Ei) i Hi E). }
    assert (Hzero : forall a b, (exists i, i < n /\ fi i = a) -> ~ (exists i, i < n /\ fi i = b) ->
                                M2 a b = 0%K /\ M2 b a = 0%K).
    { intros a b [i [Hi Ea]] Hb.
      assert (Hab : a <> b) by (intros E; apply Hb; exists i; subst; auto).
      assert (Ha : a < N) by (subst a; apply Hlti, Hi).
      destruct (Nat.ltb_spec b N) as [HbN|HbN].
      - rewrite !HM2 by assumption.
        destruct (Hoff b a HbN Ha) as [E1 E2]; [intros j Hj E; apply Hb; exists j; auto|].
        rewrite E1, E2. unfold mid.
        destruct (Nat.eqb_spec b a); [congruence|]. destruct (Nat.eqb_spec a b); [congruence|]. auto.
      - unfold M2. destruct (Nat.ltb_spec b N); [lia|]. rewrite andb_false_r. cbn [andb]. unfold mid.
        destruct (Nat.eqb_spec b a); [congruence|]. destruct (Nat.eqb_spec a b); [congruence|]. auto. }
    rewrite (perm_ml_block M2 (fun a => exists i, i < n /\ fi i = a)).
    - assert (EA : perm_ml M2 (map fo X1) (map fi Y1) = perm_ml M X1 Y1).
      { rewrite perm_ml_map. apply perm_ml_ext. intros a b Ha Hb.
        rewrite HM2 by (try apply Hlto; try apply Hlti; auto). apply HM; auto. }
      assert (EB : perm_ml M2 X2 Y2 = pass_factor fi n N s t).
      { rewrite (perm_ml_ext M2 (mid r)).
        - unfold X2, Y2, pass_factor, offocc. apply perm_ml_mid_expl, offm_nodup.
        - intros a b Ha Hb. destruct (HX2 a Ha) as [HaN Haoff]. destruct (HY2 b Hb) as [HbN _].
          rewrite HM2 by assumption. apply (Hoff a b HaN HbN Haoff). }
      rewrite EA, EB. ring.
    - intros a b Ha Hb. apply (Hzero a b Ha Hb).
    - intros a b Ha Hb. apply (Hzero b a Hb Ha).
    - intros a Ha. apply in_map_iff in Ha. destruct Ha as [i [<- Hi]]. apply Himg'. exists i. split; [apply HX1, Hi|reflexivity].
    - intros a Ha. apply in_map_iff in Ha. destruct Ha as [i [<- Hi]]. exists i. split; [apply HY1, Hi|reflexivity].
    - intros a Ha [i [Hi E]]. destruct (HX2 a Ha) as [_ Hoffa]. exact (Hoffa i Hi E).
    - intros a Ha [i [Hi E]]. destruct (HY2 a Ha) as [_ Hoffa]. exact (Hoffa i Hi E).
  Qed.

  Lemma pass_factor_eq f n N s t :
    offocc f n N s = offocc f n N t -> pass_factor f n N s t = kofnat (fact_prod (offocc f n N s)).
  Proof. intros E. unfold pass_factor. rewrite E, nlist_eqb_refl. reflexivity. Qed.

  Lemma pass_factor_neq f n N s t :
    offocc f n N s <> offocc f n N t -> pass_factor f n N s t = 0%K.
  Proof. intros E. unfold pass_factor. rewrite (proj2 (nlist_eqb_neq _ _) E). reflexivity. Qed.

  Lemma pass_factor_nonzero f n N s t :
    pass_factor f n N s t <> 0%K -> offocc f n N s = offocc f n N t.
  Proof.
    intros H. unfold pass_factor in H. destruct (nlist_eqb _ _) eqn:E; [|contradiction H; reflexivity].
    apply nlist_eqb_eq. exact E.
  Qed.

  (* photons on the modes outside the image pass straight through: a non-vanishing
     amplitude conserves the occupation of every such mode *)
  Corollary amp_transport_conserved (n N : nat) (fi fo : nat -> nat) (M M' : mat) (s t : list nat) :
    (forall i, i < n -> fi i < N /\ fo i < N) ->
    (forall i j, i < n -> j < n -> (fi i = fi j -> i = j) /\ (fo i = fo j -> i = j)) ->
    (forall x, (forall i, i < n -> fi i <> x) <-> (forall i, i < n -> fo i <> x)) ->
    (forall i j, i < n -> j < n -> M' (fo i) (fi j) = M i j) ->
    (forall x y, x < N -> y < N -> (forall i, i < n -> fi i <> x) ->
                 M' x y = mid r x y /\ M' y x = mid r y x) ->
    length s = N -> length t = N ->
    amp_perm r M' s t <> 0%K ->
    forall x, x < N -> (forall i, i < n -> fi i <> x) -> nth x s 0%nat = nth x t 0%nat.
  Proof.
    intros Hlt Hinj Himg HM Hoff Hs Ht Hne.
    rewrite (amp_transport n N fi fo M M' s t) in Hne by assumption.
    apply offocc_eq_nth. apply pass_factor_nonzero. intros E. apply Hne. rewrite E. ring.
  Qed.

  (* normalisation.  The amplitude is  amp_perm / sqrt (amp_factor);  when the occupations
     off the image agree (k_1, ..., k_q photons), amp_perm picks up  prod k_j!  and
     amp_factor picks up  (prod k_j!)^2 : the normalised amplitudes coincide. *)
  Lemma amp_factor_transport (n N : nat) (fi fo : nat -> nat) (s t : list nat) :
    (forall i, i < n -> fi i < N /\ fo i < N) ->
    (forall i j, i < n -> j < n -> (fi i = fi j -> i = j) /\ (fo i = fo j -> i = j)) ->
    (forall x, (forall i, i < n -> fi i <> x) <-> (forall i, i < n -> fo i <> x)) ->
    length s = N -> length t = N ->
    amp_factor s t =
    (amp_factor (restr fi n s) (restr fo n t) * (fact_prod (offocc fi n N s) * fact_prod (offocc fi n N t)))%nat.
  Proof.
    intros Hlt Hinj Himg Hs Ht. unfold amp_factor.
    rewrite (fact_prod_split fi n N s), (fact_prod_split fo n N t); try assumption;
      try (intros i Hi; apply Hlt; exact Hi); try (intros i j Hi Hj; apply (Hinj i j Hi Hj)).
    unfold offocc at 2. rewrite (offm_same_img fi fo n N Himg). fold (offocc fi n N t). ring.
  Qed.

  (* amplitude^2 / factor is the same for the transported and the original matrix *)
  Corollary amp_transport_normalised (n N : nat) (fi fo : nat -> nat) (M M' : mat) (s t : list nat) :
    (forall i, i < n -> fi i < N /\ fo i < N) ->
    (forall i j, i < n -> j < n -> (fi i = fi j -> i = j) /\ (fo i = fo j -> i = j)) ->
    (forall x, (forall i, i < n -> fi i <> x) <-> (forall i, i < n -> fo i <> x)) ->
    (forall i j, i < n -> j < n -> M' (fo i) (fi j) = M i j) ->
    (forall x y, x < N -> y < N -> (forall i, i < n -> fi i <> x) ->
                 M' x y = mid r x y /\ M' y x = mid r y x) ->
    length s = N -> length t = N ->
    offocc fi n N s = offocc fi n N t ->
    (kofnat (amp_factor (restr fi n s) (restr fo n t)) * (amp_perm r M' s t * amp_perm r M' s t))%K =
    (kofnat (amp_factor s t) *
     (amp_perm r M (restr fi n s) (restr fo n t) * amp_perm r M (restr fi n s) (restr fo n t)))%K.
  Proof.
    intros Hlt Hinj Himg HM Hoff Hs Ht E.
    rewrite (amp_transport n N fi fo M M' s t) by assumption.
    rewrite (amp_factor_transport n N fi fo s t) by assumption.
    rewrite pass_factor_eq by exact E. rewrite <- E, !kofnat_mul. ring.
  Qed.
End Transport.
Arguments pass_factor {R} r f n N s t.

(* ------------------------------------------------------------------ *)
(* T-B (algebraic core): amplitudes of E . iP                          *)
(* ------------------------------------------------------------------ *)
Section Compose.
  Context {R : Type} {r : ops R} {SR : StarRing r} {ZM : ZMorph r}.
  Let Rr := sr_ring (o:=r).
  Add Ring Ktb : Rr.
  Local Notation "0" := (k0 r) : K_scope.
  Local Notation "1" := (k1 r) : K_scope.
  Local Notation "a * b" := (kmul r a b) : K_scope.
  Local Notation kofnat := (kofnat r).
  Notation mat := (@mat R).

  Variable ninv : nat -> R.
  Hypothesis Hninv : forall k, 0 < k -> (kofnat k * ninv k)%K = 1%K.

  (* UP (dimension nP) is carried along old into iP, US (dimension nS) along phi_in (columns)
     and phi_out (rows) into E, both inside dimension D, and UR = E . iP.  Then for all Fock
     states x (input) and y (output) on D modes:
     (a) amp(UR; x -> y) = sum over the intermediate D-mode states t with |t| = |x| of
         amp(E; t -> y) amp(iP; x -> t) / prod t!,
     (b) amp(iP; x -> t) = [x = t off im old] prod (x off im old)! amp(UP; x|old -> t|old),
         amp(E; t -> y)  = [t = y off W] prod (t off W)! amp(US; t|phi_in -> y|phi_out),
     (c) the two combined. *)
  Theorem wiring_amplitudes (nP nS D : nat) (old phi_in phi_out : nat -> nat) (UP US UR E iP : mat) :
    (forall i, i < nP -> old i < D) ->
    (forall i j, i < nP -> j < nP -> old i = old j -> i = j) ->
    (forall i j, i < nP -> j < nP -> iP (old i) (old j) = UP i j) ->
    (forall x y, x < D -> y < D -> (forall i, i < nP -> old i <> x) ->
                 iP x y = mid r x y /\ iP y x = mid r y x) ->
    (forall i, i < nS -> phi_in i < D /\ phi_out i < D) ->
    (forall i j, i < nS -> j < nS -> (phi_in i = phi_in j -> i = j) /\ (phi_out i = phi_out j -> i = j)) ->
    (forall x, (forall i, i < nS -> phi_in i <> x) <-> (forall i, i < nS -> phi_out i <> x)) ->
    (forall i j, i < nS -> j < nS -> E (phi_out i) (phi_in j) = US i j) ->
    (forall x y, x < D -> y < D -> (forall i, i < nS -> phi_in i <> x) ->
                 E x y = mid r x y /\ E y x = mid r y x) ->
    meq D UR (mmul r D E iP) ->
    forall (x y : list nat) (L : list (list nat)),
      length x = D -> length y = D -> fock_enum L D (osum x) ->
      amp_perm r UR x y =
        suml r L (fun t => (amp_perm r E t y * amp_perm r iP x t * ninv (fact_prod t))%K) /\
      (forall t, length t = D ->
         amp_perm r iP x t =
           (pass_factor r old nP D x t * amp_perm r UP (restr old nP x) (restr old nP t))%K /\
         amp_perm r E t y =
           (pass_factor r phi_in nS D t y * amp_perm r US (restr phi_in nS t) (restr phi_out nS y))%K) /\
      amp_perm r UR x y =
        suml r L (fun t =>
          ((pass_factor r phi_in nS D t y * amp_perm r US (restr phi_in nS t) (restr phi_out nS y)) *
           (pass_factor r old nP D x t * amp_perm r UP (restr old nP x) (restr old nP t)) *
           ninv (fact_prod t))%K).
  Proof.
    intros Hol Hoi HiP HiPoff Hpl Hpi Himg HE HEoff Hmeq x y L Hx Hy HL.
    assert (Hfac : forall t, length t = D ->
         amp_perm r iP x t =
           (pass_factor r old nP D x t * amp_perm r UP (restr old nP x) (restr old nP t))%K /\
         amp_perm r E t y =
           (pass_factor r phi_in nS D t y * amp_perm r US (restr phi_in nS t) (restr phi_out nS y))%K).
    { intros t Ht. split.
      - apply (amp_transport nP D old old UP iP x t); try assumption.
        + intros i Hi. split; apply Hol; exact Hi.
        + intros i j Hi Hj. split; apply Hoi; assumption.
        + intros z. tauto.
      - apply (amp_transport nS D phi_in phi_out US E t y); assumption. }
    assert (Hcomp : amp_perm r UR x y =
        suml r L (fun t => (amp_perm r E t y * amp_perm r iP x t * ninv (fact_prod t))%K)).
    { rewrite (amp_perm_compose ninv Hninv D iP E x y L HL). unfold amp_perm.
      apply (perm_ml_meq D); [exact Hmeq| |]; intros a Ha; apply expand_bounds in Ha; lia. }
    split; [exact Hcomp|]. split; [exact Hfac|].
    rewrite Hcomp. apply suml_ext. intros t Ht. apply HL in Ht. destruct Ht as [Ht _].
    destruct (Hfac t Ht) as [E1 E2]. rewrite E1, E2. reflexivity.
  Qed.
End Compose.
