(* Shared definitions for the wiring theorem of Circuit.add (property C02):
   iterated mode insertion as a function on mode indices. *)
From Coq Require Import ZArith List Bool Arith Lia.
From LW Require Import Base.Sx Base.Num Base.Mat Model.Circuit.
Import ListNotations.

(* the index map of inserting empty modes at positions ts, one after the other
   (each position refers to the numbering current at that moment) *)
Definition mins (ts : list nat) (x : nat) : nat := fold_left (fun acc t => bump t acc) ts x.

(* where an old parent mode ends up when new ancillas are inserted at m + hm,
   hm running through H in ascending order *)
Definition oldf (m : nat) (H : list nat) (x : nat) : nat :=
  mins (map (fun hm => m + hm) (sort_nat H)) x.

(* the herald-free strictly ascending lists the statement of the wiring theorem uses *)
Definition not_in (l : list nat) (x : nat) : bool := negb (existsb (Nat.eqb x) l).
Definition open_modes_of (n : nat) (her : list nat) : list nat := filter (not_in her) (seq 0 n).
Definition visible_from (n : nat) (internal : list nat) (m : nat) : list nat :=
  filter (not_in internal) (seq m (n - m)).
