(* Photonic-level correctness on the dual-rail basis (C12 T2 convert_heralded_correct, C15 T2).

   [acts_as_dual_rail o e c nq Kc V]: the model circuit c (Model/Circuit.v, compiled by [build])
   has 2*nq visible modes and, with its heralds inserted by add_heralds_to_state on both sides
   and vacuum on its loss modes, maps each dual-rail basis state dr b to the dual-rail state
   dr b' with amplitude permanent Kc * V[b', b] (amp_factor = 1), and to EVERY other occupation
   list of the visible modes with amplitude 0.

   Step lemma [block_step]: adding (Circuit.add, user mode 2q) a gate circuit that acts on its
   k qubits as kG * M with zero leakage gives a circuit that acts as
   (Kc * kG) * ((M on qubits q..q+k-1) . V), with zero leakage.  Proof: C02_add_amplitudes
   (Proofs/WiringAmpP.v) + the combinatorial core Proofs/DualRailStep.v. *)
From Coq Require Import ZArith List Bool Arith Lia Permutation Ring_theory Ring.
From LW Require Import Base.Sx Base.Num Base.Sums Base.Mat Model.State Model.Circuit Model.World Model.Fock Model.Gates
     Proofs.StateP Proofs.PermP Proofs.FockUnitP Proofs.CircuitP Proofs.AddP Proofs.DisplayP
     Proofs.WiringDefs Proofs.WiringMat Proofs.WiringSwaps Proofs.WiringRank Proofs.WiringP
     Proofs.WiringAmpFock Proofs.WiringAmpP Proofs.GatesP Proofs.DualRailDefs Proofs.DualRailFull Proofs.DualRailStep.
Import ListNotations.
Open Scope nat_scope.

Lemma lt_all_in' N l x : lt_all N l -> In x l -> x < N.
Proof. intros H Hx. unfold lt_all in H. rewrite Forall_forall in H. apply H, Hx. Qed.

Lemma nodup_same_length (a b : list nat) : NoDup a -> NoDup b -> (forall i, In i a <-> In i b) -> length a = length b.
Proof. intros Ha Hb H. apply Permutation_length. apply NoDup_Permutation; assumption. Qed.

Section CqRing.
  Context {K : Type} (o : ops K) {SRK : StarRing o}.
  Let Rc := cplx_ring o.
  Add Ring Kdrp0 : Rc.
  Lemma cq_mul_1_l (x : K * K) : kmul (cplx o) (k1 (cplx o)) x = x. Proof. ring. Qed.
  Lemma cq_mul_1_r (x : K * K) : kmul (cplx o) x (k1 (cplx o)) = x. Proof. ring. Qed.
  Lemma cq_mul_0_r (x : K * K) : kmul (cplx o) x (k0 (cplx o)) = k0 (cplx o). Proof. ring. Qed.
  Lemma cq_mul_0_l (x : K * K) : kmul (cplx o) (k0 (cplx o)) x = k0 (cplx o). Proof. ring. Qed.
  Lemma cq_mul_assoc (x y z : K * K) : kmul (cplx o) (kmul (cplx o) x y) z = kmul (cplx o) x (kmul (cplx o) y z). Proof. ring. Qed.
  Lemma cq_mul_comm (x y : K * K) : kmul (cplx o) x y = kmul (cplx o) y x. Proof. ring. Qed.
End CqRing.

Section DR.
  Context {K : Type} (o : ops K) {SRK : StarRing o} {ZMK : ZMorph o}.
  Notation T := (K * K)%type.
  Notation cq := (co o).
  Notation circ := (@circ K).
  Notation mat := (@mat T).
  Variable ninv : nat -> T.
  Hypothesis ninv_spec : forall k, 0 < k -> kmul cq (kofnat cq k) (ninv k) = k1 cq.
  Variable e : env (K:=K).

  (* ---- D1: the definition ---- *)
  (* 2*nq visible modes; every herald of c sits on an ancilla created by Circuit.add (so that
     user mode 2q IS the first mode of qubit q); herald photon numbers 0 or 1, as many in as out *)
  Definition dr_shape (c : circ) (nq : nat) : Prop :=
    WFH c /\ Forall swnd (c_spec c) /\ c_n c = 2 * nq + length (c_int c) /\
    (forall i, In i (dkeys (c_in c)) <-> In i (c_int c)) /\
    (forall i, In i (dkeys (c_out c)) <-> In i (c_int c)) /\
    (forall kv, In kv (c_in c) -> snd kv <= 1) /\ (forall kv, In kv (c_out c) -> snd kv <= 1) /\
    osum (dvals (c_in c)) = osum (dvals (c_out c)).

  Definition acts_as_dual_rail (c : circ) (nq : nat) (Kc : T) (V : qmat T) : Prop :=
    dr_shape c nq /\
    exists l U, build o e c = Ok (c_n c + l, U) /\
      forall (b : list bool) (y : list nat), In b (bits nq) -> length y = 2 * nq ->
        exists fi fy,
          add_heralds_to_state (dr b) (hdz (c_in c)) = Ok fi /\
          add_heralds_to_state (map Z.of_nat y) (hdz (c_out c)) = Ok fy /\
          let x' := znat fi ++ repeat 0 l in
          let y' := znat fy ++ repeat 0 l in
          (forall b', In b' (bits nq) -> y = drn b' ->
             amp_perm cq U x' y' = kmul cq Kc (V b' b) /\ amp_factor x' y' = 1) /\
          ((forall b', In b' (bits nq) -> y <> drn b') -> amp_perm cq U x' y' = k0 cq).

  (* the same with the full states described relationally (Proofs/DualRailFull.v) *)
  Definition dr_acts (c : circ) (nq : nat) (Kc : T) (V : qmat T) : Prop :=
    dr_shape c nq /\
    exists l U, build o e c = Ok (c_n c + l, U) /\
      forall b x y v, In b (bits nq) -> length v = 2 * nq ->
        full_st (c_n c) l (c_in c) (drn b) x -> full_st (c_n c) l (c_out c) v y ->
        (forall b', In b' (bits nq) -> v = drn b' ->
           amp_perm cq U x y = kmul cq Kc (V b' b) /\ amp_factor x y = 1) /\
        ((forall b', In b' (bits nq) -> v <> drn b') -> amp_perm cq U x y = k0 cq).

  Lemma shape_facts c nq : dr_shape c nq ->
    NoDup (c_int c) /\ (forall i, In i (c_int c) -> i < c_n c) /\
    NoDup (dkeys (c_in c)) /\ NoDup (dkeys (c_out c)) /\
    (forall i, In i (dkeys (c_in c)) -> i < c_n c) /\ (forall i, In i (dkeys (c_out c)) -> i < c_n c) /\
    length (c_in c) = length (c_int c) /\ length (c_out c) = length (c_int c).
  Proof.
    intros ((WFc & N1 & N2) & _ & _ & K1 & K2 & _).
    split; [apply WFc|]. split; [intros i; apply lt_all_in', WFc|].
    split; [exact N1|]. split; [exact N2|].
    split; [intros i; apply lt_all_in', WFc|]. split; [intros i; apply lt_all_in', WFc|].
    split.
    - rewrite <- (map_length fst (c_in c)). apply nodup_same_length; [exact N1|apply WFc|exact K1].
    - rewrite <- (map_length fst (c_out c)). apply nodup_same_length; [exact N2|apply WFc|exact K2].
  Qed.

  Lemma full_of_heralds c nq l (her : dict) v f :
    dr_shape c nq -> (her = c_in c \/ her = c_out c) -> length v = 2 * nq ->
    add_heralds_to_state (map Z.of_nat v) (hdz her) = Ok f ->
    full_st (c_n c) l her v (znat f ++ repeat 0 l).
  Proof.
    intros S Hh Hv Hf. destruct (shape_facts c nq S) as (F1 & F2 & F3 & F4 & F5 & F6 & F7 & F8).
    destruct S as (_ & _ & Sn & _).
    assert (G : NoDup (dkeys her) /\ (forall k, In k (dkeys her) -> k < c_n c) /\ length v + length her = c_n c).
    { destruct Hh as [-> | ->]; (split; [assumption|]; split; [assumption|]; lia). }
    destruct G as (G1 & G2 & G3).
    destruct (add_heralds_full (c_n c) her v G1 G2 G3) as (f' & E' & F'). rewrite E' in Hf. injection Hf as <-.
    apply full_st_pad. exact F'.
  Qed.

  Lemma heralds_total c nq (her : dict) v :
    dr_shape c nq -> (her = c_in c \/ her = c_out c) -> length v = 2 * nq ->
    exists f, add_heralds_to_state (map Z.of_nat v) (hdz her) = Ok f.
  Proof.
    intros S Hh Hv. destruct (shape_facts c nq S) as (F1 & F2 & F3 & F4 & F5 & F6 & F7 & F8).
    destruct S as (_ & _ & Sn & _).
    assert (G : NoDup (dkeys her) /\ (forall k, In k (dkeys her) -> k < c_n c) /\ length v + length her = c_n c).
    { destruct Hh as [-> | ->]; (split; [assumption|]; split; [assumption|]; lia). }
    destruct G as (G1 & G2 & G3).
    destruct (add_heralds_full (c_n c) her v G1 G2 G3) as (f' & E' & _). exists f'. exact E'.
  Qed.

  Theorem acts_iff c nq Kc V : acts_as_dual_rail c nq Kc V <-> dr_acts c nq Kc V.
  Proof.
    split.
    - intros (S & l & U & Hb & H). split; [exact S|]. exists l, U. split; [exact Hb|].
      intros b x y v Hbb Hv Fx Fy.
      destruct (H b v Hbb Hv) as (fi & fy & E1 & E2 & H1 & H2). cbv zeta in H1, H2.
      rewrite <- dr_of_drn in E1.
      assert (Lb : length (drn b) = 2 * nq) by (rewrite drn_length; apply in_bits_length in Hbb; lia).
      pose proof (full_of_heralds c nq l (c_in c) (drn b) fi S (or_introl eq_refl) Lb E1) as Fx'.
      pose proof (full_of_heralds c nq l (c_out c) v fy S (or_intror eq_refl) Hv E2) as Fy'.
      rewrite (full_st_unique _ _ _ _ _ _ Fx Fx'), (full_st_unique _ _ _ _ _ _ Fy Fy'). split; assumption.
    - intros (S & l & U & Hb & H). split; [exact S|]. exists l, U. split; [exact Hb|].
      intros b y Hbb Hy.
      assert (Lb : length (drn b) = 2 * nq) by (rewrite drn_length; apply in_bits_length in Hbb; lia).
      destruct (heralds_total c nq (c_in c) (drn b) S (or_introl eq_refl) Lb) as (fi & E1).
      destruct (heralds_total c nq (c_out c) y S (or_intror eq_refl) Hy) as (fy & E2).
      exists fi, fy. rewrite <- dr_of_drn. split; [exact E1|]. split; [exact E2|]. cbv zeta.
      apply (H b _ _ y Hbb Hy).
      + apply (full_of_heralds c nq l (c_in c) (drn b) fi S (or_introl eq_refl) Lb E1).
      + apply (full_of_heralds c nq l (c_out c) y fy S (or_intror eq_refl) Hy E2).
  Qed.

  Lemma dr_acts_ext c nq Kc V V' :
    (forall b b', In b (bits nq) -> In b' (bits nq) -> V b' b = V' b' b) ->
    dr_acts c nq Kc V -> dr_acts c nq Kc V'.
  Proof.
    intros HV (S & l & U & Hb & H). split; [exact S|]. exists l, U. split; [exact Hb|].
    intros b x y v Hbb Hv Fx Fy. destruct (H b x y v Hbb Hv Fx Fy) as [H1 H2]. split; [|exact H2].
    intros b' Hb' E. rewrite <- HV by assumption. apply H1; assumption.
  Qed.

  (* ---- what the step lemma needs to know about the added gate circuit ---- *)
  Definition gate_fact (sub : circ) (US : mat) (k : nat) (kG : T) (M : qmat T) : Prop :=
    forall b w xs ys, In b (bits k) -> length w = 2 * k ->
      full_st (c_n sub) 0 (c_in sub) (drn b) xs -> full_st (c_n sub) 0 (c_out sub) w ys ->
      (forall b', In b' (bits k) -> w = drn b' -> amp_perm cq US xs ys = kmul cq kG (M b' b)) /\
      ((forall b', In b' (bits k) -> w <> drn b') -> amp_perm cq US xs ys = k0 cq).

  Definition gate_ok (sub : circ) (k : nat) (kG : T) (M : qmat T) : Prop :=
    WFH sub /\ Forall swnd (c_spec sub) /\ 1 <= k /\
    c_n sub = 2 * k + length (c_in sub) /\ length (c_in sub) = length (c_out sub) /\
    dvals (c_out sub) = dvals (c_in sub) /\ (forall kv, In kv (c_in sub) -> snd kv <= 1) /\
    exists US, build o e sub = Ok (c_n sub, US) /\ gate_fact sub US k kG M.

  Lemma map_phi_loc (phi loc : nat -> nat) (ins : list nat) h :
    length ins = h -> (forall j, j < h -> phi (nth j ins 0) = loc j) -> map phi ins = map loc (seq 0 h).
  Proof.
    intros Li H. apply (nth_ext _ _ 0 0); [rewrite !map_length, seq_length; exact Li|].
    intros j Hj. rewrite map_length in Hj.
    rewrite (nth_indep (map phi ins) 0 (phi 0)) by (rewrite map_length; exact Hj). rewrite map_nth.
    rewrite (nth_indep (map loc (seq 0 h)) 0 (loc 0)) by (rewrite map_length, seq_length; lia). rewrite map_nth.
    rewrite seq_nth by lia. apply H. lia.
  Qed.

  (* the user mode 2q of a circuit with 2*nq visible modes is its (2q)-th visible mode *)
  Lemma mode_rank_z (c : circ) nq (z : Z) m : dr_shape c nq ->
    mode_ok c (map_mode (c_int c) z) = Ok m -> Z.of_nat (freec (c_int c) m) = z.
  Proof.
    intros S Hm. destruct (shape_facts c nq S) as (Hn & _).
    assert (E0 : map_mode (c_int c) z = Z.of_nat m).
    { unfold mode_ok, in_range in Hm. remember (map_mode (c_int c) z) as r eqn:Er.
      destruct ((0 <=? r)%Z && (r <? Z.of_nat (c_n c))%Z) eqn:E; [|discriminate].
      injection Hm as <-. apply andb_true_iff in E as [E1 _]. apply Z.leb_le in E1. lia. }
    destruct (map_mode_spec (c_int c) z Hn) as (_ & S0 & _). cbv zeta in S0. rewrite E0 in S0.
    rewrite below_freec in S0 by exact Hn. exact S0.
  Qed.

  Lemma mode_rank (c : circ) nq q m : dr_shape c nq ->
    mode_ok c (map_mode (c_int c) (Z.of_nat (2 * q))) = Ok m -> freec (c_int c) m = 2 * q.
  Proof. intros S Hm. pose proof (mode_rank_z c nq _ m S Hm). lia. Qed.

  Lemma block_position (c : circ) nq q m j : dr_shape c nq ->
    mode_ok c (map_mode (c_int c) (Z.of_nat (2 * q))) = Ok m ->
    j < length (visible_from (c_n c) (c_int c) m) -> 2 * q + j < 2 * nq ->
    nth j (visible_from (c_n c) (c_int c) m) 0 = nth (2 * q + j) (vis (c_n c) (c_int c)) 0.
  Proof.
    intros S Hm Hj1 Hj2. destruct (shape_facts c nq S) as (Hn & Hlt & _).
    destruct (visible_from_rank _ _ _ _ Hj1) as (_ & _ & Hv1 & Hf1).
    assert (Lv : length (vis (c_n c) (c_int c)) = 2 * nq).
    { rewrite vis_length by assumption. destruct S as (_ & _ & Sn & _). lia. }
    rewrite vis_visible_from in Lv |- *.
    destruct (visible_from_rank (c_n c) (c_int c) 0 (2 * q + j) ltac:(lia)) as (_ & _ & Hv2 & Hf2).
    rewrite freec_0 in Hf2. rewrite (mode_rank c nq q m S Hm) in Hf1.
    apply (freec_inj (c_int c)); [exact Hv1|exact Hv2|lia].
  Qed.

  (* ---- D2: the step lemma ---- *)
  Theorem block_step (c sub c' : circ) (nq q k : nat) (Kc kG : T) (V M : qmat T) (g : bool) :
    dr_acts c nq Kc V -> gate_ok sub k kG M -> q + k <= nq ->
    op_add o c sub (Z.of_nat (2 * q)) g = Ok c' ->
    dr_acts c' nq (kmul cq Kc kG) (lift_blk cq M q k V).
  Proof.
    intros (S & lP & UP & HbP & IH) (WS & SwS & Hk1 & HnS & HlS & HvS & Hle1S & US & HbS & GF) Hqk Hadd.
    pose proof S as (WP & SwP & HnP & KinP & KoutP & Le1in & Le1out & Hsum).
    destruct (shape_facts c nq S) as (F1 & F2 & F3 & F4 & F5 & F6 & F7 & F8).
    assert (HbS' : build o e sub = Ok (c_n sub + 0, US)) by (rewrite Nat.add_0_r; exact HbS).
    destruct (add_amplitudes (o:=o) ninv ninv_spec e c sub c' (Z.of_nat (2 * q)) g lP UP 0 US
                WP WS ltac:(lia) SwP SwS HlS Hadd HbP HbS') as (m & old & loc & phi_in & phi_out & UR & E & iP & W & TB & _).
    cbv zeta in W, TB.
    replace (c_n sub + 0) with (c_n sub) in * by lia.
    destruct W as (Wm & Wm1 & Wm2 & Wn & Wb & Wmono & Wold & WoldL & _ & Wloc & Wlocinj & Wint & Win & Wout & Wher &
                   Wvl & Wopen & _ & _ & Wphiinj & _ & _ & _ & _ & _ & _ & _ & WFc' & Swc').
    set (h := length (c_in sub)) in *.
    assert (Hh2 : c_n sub - h = 2 * k) by lia.
    destruct WS as (WFs & NSin & NSout).
    assert (Lins : length (dkeys (c_in sub)) = h) by (unfold dkeys; rewrite map_length; reflexivity).
    assert (Louts : length (dkeys (c_out sub)) = h) by (unfold dkeys; rewrite map_length; lia).
    assert (Emap : map phi_in (dkeys (c_in sub)) = map loc (seq 0 h))
      by (apply map_phi_loc; [exact Lins|intros j Hj; apply Wher, Hj]).
    (* the shape of the result *)
    assert (Kin' : forall i, In i (dkeys (c_in c')) <-> In i (c_int c')).
    { intros i. rewrite Win. change (In i (dkeys (dmap old (c_in c) ++ dmap phi_in (c_in sub))) <-> In i (c_int c')).
      rewrite dkeys_app, !dkeys_dmap, Emap. split; intros H.
      - eapply Permutation_in; [apply Permutation_sym, Wint|]. apply in_app_or in H. apply in_or_app.
        destruct H as [H|H]; [left|right; exact H]. apply in_map_iff in H as (x & <- & Hx). apply in_map, KinP, Hx.
      - apply (Permutation_in _ Wint) in H. apply in_app_or in H. apply in_or_app.
        destruct H as [H|H]; [left|right; exact H]. apply in_map_iff in H as (x & <- & Hx). apply in_map, KinP, Hx. }
    assert (Kout' : forall i, In i (dkeys (c_out c')) <-> In i (c_int c')).
    { intros i. rewrite Wout. change (In i (dkeys (dmap old (c_out c) ++ dmap phi_in (c_in sub))) <-> In i (c_int c')).
      rewrite dkeys_app, !dkeys_dmap, Emap. split; intros H.
      - eapply Permutation_in; [apply Permutation_sym, Wint|]. apply in_app_or in H. apply in_or_app.
        destruct H as [H|H]; [left|right; exact H]. apply in_map_iff in H as (x & <- & Hx). apply in_map, KoutP, Hx.
      - apply (Permutation_in _ Wint) in H. apply in_app_or in H. apply in_or_app.
        destruct H as [H|H]; [left|right; exact H]. apply in_map_iff in H as (x & <- & Hx). apply in_map, KoutP, Hx. }
    assert (S' : dr_shape c' nq).
    { split; [exact WFc'|]. split; [exact Swc'|]. split.
      { rewrite Wn, (Permutation_length Wint), app_length, !map_length, seq_length. lia. }
      split; [exact Kin'|]. split; [exact Kout'|]. split; [|split].
      - intros kv Hkv. rewrite Win in Hkv. apply in_app_or in Hkv as [H|H]; apply in_map_iff in H as (kv0 & <- & H); cbn [snd];
          [apply Le1in|apply Hle1S]; exact H.
      - intros kv Hkv. rewrite Wout in Hkv. apply in_app_or in Hkv as [H|H]; apply in_map_iff in H as (kv0 & <- & H); cbn [snd];
          [apply Le1out|apply Hle1S]; exact H.
      - rewrite Win, Wout.
        change (osum (dvals (dmap old (c_in c) ++ dmap phi_in (c_in sub))) =
                osum (dvals (dmap old (c_out c) ++ dmap phi_in (c_in sub)))).
        rewrite !dvals_app, !dvals_dmap, !osum_app, Hsum. reflexivity. }
    split; [exact S'|]. exists lP, UR. split; [rewrite Wn; replace (c_n c + h + lP + 0) with (c_n c + h + lP) in Wb by lia; exact Wb|].
    intros b x y v Hb Hv Fx Fy. rewrite Wn in Fx, Fy. rewrite Win in Fx. rewrite Wout in Fy.
    refine (wired_step (r:=cq) ninv ninv_spec (c_n c) lP nq (c_int c) (c_in c) (c_out c) (c_n sub) h k q (c_in sub) (c_out sub)
              old loc phi_in phi_out F1 F2 HnP KinP KoutP F3 F4 Le1in Le1out Hsum ltac:(lia) eq_refl ltac:(lia)
              NSin NSout _ _ HvS Hle1S Hqk Wmono Wold WoldL Wloc Wlocinj Wher _ UP US UR Kc kG V M _ IH GF b x y v Hb Hv Fx Fy).
    - intros i Hi. apply (lt_all_in' _ _ _ (wf_in _ WFs) Hi).
    - intros i Hi. apply (lt_all_in' _ _ _ (wf_out _ WFs) Hi).
    - intros j Hj. destruct (Wopen j ltac:(lia)) as [O1 O2].
      pose proof (block_position c nq q m j S Wm ltac:(lia) ltac:(lia)) as BP. rewrite BP in O1. rewrite BP in O2. split; [exact O1|exact O2].
    - intros x0 y0 L Hx0 Hy0 HL.
      destruct (TB x0 y0 L ltac:(lia) ltac:(lia) ltac:(replace (c_n c + h + lP + 0) with (c_n c + h + lP) by lia; exact HL))
        as (_ & _ & Hc & _).
      replace (c_n c + h + lP + 0) with (c_n c + h + lP) in Hc by lia. exact Hc.
  Qed.

  (* ---- the addition is accepted ---- *)
  Lemma filter_split_length (f : nat -> bool) (l : list nat) :
    length (filter f l) + length (filter (fun x => negb (f x)) l) = length l.
  Proof. induction l as [|a l IH]; [reflexivity|]. cbn [filter]. destruct (f a); cbn [negb length]; lia. Qed.

  Lemma block_accept (c sub : circ) nq q k g :
    dr_shape c nq -> c_n sub = 2 * k + length (c_in sub) -> 1 <= k -> q + k <= nq ->
    exists c', op_add o c sub (Z.of_nat (2 * q)) g = Ok c'.
  Proof.
    intros S HnS Hk Hqk. destruct (shape_facts c nq S) as (Hn & Hlt & _).
    pose proof S as (_ & _ & HnP & _).
    apply op_add_accept_iff.
    remember (Z.of_nat (2 * q)) as z eqn:Ez.
    destruct (map_mode_spec (c_int c) z Hn) as (_ & S0 & S1). cbv zeta in S0, S1.
    remember (map_mode (c_int c) z) as r eqn:Er.
    assert (Hr0 : (0 <= r)%Z) by lia.
    set (m := Z.to_nat r).
    assert (Em : r = Z.of_nat m) by (unfold m; lia).
    rewrite Em in S0. rewrite below_freec in S0 by exact Hn.
    assert (Hf : freec (c_int c) m = 2 * q) by lia.
    assert (Hm : m < c_n c).
    { destruct (le_lt_dec (c_n c) m) as [Hle|Hl]; [|exact Hl]. exfalso.
      pose proof (freec_mono (c_int c) _ _ Hle) as G.
      rewrite freec_total in G; [lia|exact Hn|apply Forall_forall; exact Hlt]. }
    exists m. split.
    - unfold mode_ok, in_range.
      replace ((0 <=? r)%Z && (r <? Z.of_nat (c_n c))%Z) with true; [reflexivity|].
      symmetry. apply andb_true_iff. split; [apply Z.leb_le|apply Z.ltb_lt]; lia.
    - unfold open_modes, avail_from.
      assert (G : length (filter (fun i => i <? m) (c_int c)) + freec (c_int c) m = m).
      { pose proof (below_freec (c_int c) m Hn) as B. unfold below in B.
        rewrite (filter_ext (fun i => (Z.of_nat i <? Z.of_nat m)%Z) (fun i => i <? m)) in B; [lia|].
        intros a. destruct (Z.ltb_spec (Z.of_nat a) (Z.of_nat m)), (Nat.ltb_spec a m); try reflexivity; lia. }
      pose proof (filter_split_length (fun i => i <? m) (c_int c)) as P.
      rewrite (filter_ext (fun x => negb (x <? m)) (fun i => m <=? i)) in P.
      2:{ intros a. destruct (Nat.ltb_spec a m), (Nat.leb_spec m a); try reflexivity; lia. }
      lia.
  Qed.

  (* ---- the empty circuit on 2*nq modes acts as the identity ---- *)
  Lemma full_st_nil n v x : length v = n -> full_st n 0 [] v x -> x = v.
  Proof.
    intros Hv F. apply (full_st_unique n 0 [] v x v F).
    split; [lia|]. split; [intros kv []|]. split.
    - intros j Hj. cbn [dkeys map] in *. rewrite vis_nil in *. rewrite seq_length in Hj. rewrite seq_nth by exact Hj. reflexivity.
    - intros i Hi. apply nth_overflow. lia.
  Qed.

  Lemma bits_eqb_eq a b : bits_eqb a b = true <-> a = b.
  Proof.
    revert b. induction a as [|x a IH]; intros [|y b]; simpl; try (split; [discriminate|discriminate]); [tauto|].
    rewrite andb_true_iff, IH. split.
    - intros [H1 ->]. apply Bool.eqb_prop in H1. subst. reflexivity.
    - intros E. injection E as -> ->. split; [apply Bool.eqb_reflx|reflexivity].
  Qed.

  Lemma new_circ_shape nq : dr_shape (new_circ (K:=K) (2 * nq)) nq.
  Proof.
    split.
    { split; [|split; constructor]. constructor; cbn; try constructor. }
    split; [constructor|]. split; [cbn; lia|]. cbn. repeat split; try tauto; intros kv [].
  Qed.

  Theorem new_circ_acts nq : dr_acts (new_circ (2 * nq)) nq (k1 cq) (qid cq).
  Proof.
    split; [apply new_circ_shape|]. exists 0, (mid cq). split; [unfold build, new_circ; cbn [c_spec c_n cadd_list fold_left]; rewrite Nat.add_0_r; reflexivity|].
    intros b x y v Hb Hv Fx Fy. cbn [c_n c_in c_out new_circ] in Fx, Fy.
    assert (Lb : length (drn b) = 2 * nq) by (rewrite drn_length; apply in_bits_length in Hb; lia).
    rewrite (full_st_nil _ _ _ Lb Fx), (full_st_nil _ _ _ Hv Fy).
    unfold amp_perm. rewrite (perm_ml_mid_delta (r:=cq)) by lia.
    split.
    - intros b' Hb' ->. split.
      + unfold qid, delta. destruct (bits_eqb b' b) eqn:E.
        * apply bits_eqb_eq in E. subst b'. rewrite nlist_eqb_refl.
          rewrite (le1_fact_prod _ (drn_le1 b)), kofnat_1. symmetry. apply (cq_mul_1_l o).
        * destruct (nlist_eqb (drn b') (drn b)) eqn:E'.
          { apply nlist_eqb_eq, drn_inj in E'. subst. rewrite (proj2 (bits_eqb_eq b b) eq_refl) in E. discriminate. }
          symmetry. apply (cq_mul_0_r o).
      + unfold amp_factor. rewrite !(le1_fact_prod _ (drn_le1 _)). reflexivity.
    - intros Hn. destruct (nlist_eqb v (drn b)) eqn:E; [|reflexivity].
      apply nlist_eqb_eq in E. exfalso. exact (Hn b Hb E).
  Qed.

  (* ---- from the form in which C13 states a gate (Simulator entries) to [gate_ok] ---- *)
  Definition c13_fact (gt : @gate K) (k : nat) (kG : T) (M : qmat T) : Prop :=
    (forall b b', In b (bits k) -> In b' (bits k) ->
       sim_amp o gt (dr b) (dr b') = Ok (kmul cq kG (M b' b), 1)) /\
    (forall b t, In b (bits k) -> In t (zstates (2 * k) k) -> undr t = None ->
       exists f, sim_amp o gt (dr b) t = Ok (k0 cq, f)).

  Lemma undr_sound n : forall t b, length t <= n -> undr t = Some b -> t = dr b.
  Proof.
    induction n as [|n IH]; intros t b Hl H.
    - destruct t; [|simpl in Hl; lia]. injection H as <-. reflexivity.
    - destruct t as [|a [|c t]]; [injection H as <-; reflexivity|discriminate|].
      cbn [undr] in H. destruct (undr t) as [r0|] eqn:E; [|discriminate].
      pose proof (IH t r0 ltac:(simpl in Hl; lia) E) as ->.
      destruct ((a =? 1)%Z && (c =? 0)%Z) eqn:E1.
      + injection H as <-. apply andb_true_iff in E1 as [A C]. apply Z.eqb_eq in A, C. subst. reflexivity.
      + destruct ((a =? 0)%Z && (c =? 1)%Z) eqn:E2; [|discriminate].
        injection H as <-. apply andb_true_iff in E2 as [A C]. apply Z.eqb_eq in A, C. subst. reflexivity.
  Qed.

  Lemma dr_length b : length (dr b) = 2 * length b.
  Proof. induction b as [|[|] b IH]; simpl; lia. Qed.

  Lemma znat_of_nat' s : znat (map Z.of_nat s) = s.
  Proof. unfold znat. rewrite map_map. rewrite <- (map_id s) at 2. apply map_ext. intros. apply Nat2Z.id. Qed.

  Theorem gate_ok_of_c13 (gt : @gate K) (k : nat) (kG : T) (M : qmat T) :
    c13_fact gt k kG M ->
    WFH (g_circ gt) -> Forall swnd (c_spec (g_circ gt)) -> 1 <= k ->
    c_n (g_circ gt) = 2 * k + length (c_in (g_circ gt)) ->
    length (c_in (g_circ gt)) = length (c_out (g_circ gt)) ->
    dvals (c_out (g_circ gt)) = dvals (c_in (g_circ gt)) ->
    (forall kv, In kv (c_in (g_circ gt)) -> snd kv <= 1) ->
    build o e (g_circ gt) = Ok (c_n (g_circ gt), g_U gt) ->
    gate_ok (g_circ gt) k kG M.
  Proof.
    intros [C1 C2] WS Sw Hk Hn Hl Hv Hle Hb.
    split; [exact WS|]. split; [exact Sw|]. split; [exact Hk|]. split; [exact Hn|]. split; [exact Hl|].
    split; [exact Hv|]. split; [exact Hle|]. exists (g_U gt). split; [exact Hb|].
    set (sub := g_circ gt) in *. destruct WS as (WFs & N1 & N2).
    assert (B1 : forall i, In i (dkeys (c_in sub)) -> i < c_n sub) by (intros i; apply lt_all_in', WFs).
    assert (B2 : forall i, In i (dkeys (c_out sub)) -> i < c_n sub) by (intros i; apply lt_all_in', WFs).
    intros b w xs ys Hbb Hw Fxs Fys.
    assert (Lb : length (drn b) = 2 * k) by (rewrite drn_length; apply in_bits_length in Hbb; lia).
    destruct (add_heralds_full (c_n sub) (c_in sub) (drn b) N1 B1 ltac:(lia)) as (f1 & E1 & F1).
    destruct (add_heralds_full (c_n sub) (c_out sub) w N2 B2 ltac:(lia)) as (f2 & E2 & F2).
    rewrite (full_st_unique _ _ _ _ _ _ Fxs F1), (full_st_unique _ _ _ _ _ _ Fys F2).
    rewrite dr_of_drn in E1.
    assert (SA : sim_amp o gt (dr b) (map Z.of_nat w) =
                 Ok (amp_perm cq (g_U gt) (znat f1) (znat f2), amp_factor (znat f1) (znat f2))).
    { unfold sim_amp. fold sub. rewrite E1, E2. reflexivity. }
    split.
    - intros b' Hb' ->. rewrite dr_of_drn in SA. rewrite (C1 b b' Hbb Hb') in SA. injection SA as <- _. reflexivity.
    - intros Hnd. destruct (Nat.eq_dec (osum w) k) as [Hs|Hs].
      + assert (Hin : In (map Z.of_nat w) (zstates (2 * k) k)).
        { unfold zstates. apply in_map. apply fock_sums_complete; [lia|exact Hw|exact Hs]. }
        assert (Hu : undr (map Z.of_nat w) = None).
        { destruct (undr (map Z.of_nat w)) as [b'|] eqn:Eu; [|reflexivity]. exfalso.
          apply (undr_sound _ _ _ (le_n _)) in Eu.
          assert (Ew : w = drn b').
          { rewrite <- (znat_of_nat' w), Eu. apply drn_znat. }
          apply (Hnd b'); [|exact Ew]. apply in_bits_length. rewrite Ew, drn_length in Hw. lia. }
        destruct (C2 b _ Hbb Hin Hu) as [f Hf]. rewrite Hf in SA. injection SA as <- _. reflexivity.
      + unfold amp_perm. apply perm_ml_length. rewrite !expand_length.
        rewrite (full_st_osum _ _ _ _ _ F1 N1 B1) by (rewrite vis_length by assumption; unfold dkeys; rewrite map_length; lia).
        rewrite (full_st_osum _ _ _ _ _ F2 N2 B2) by (rewrite vis_length by assumption; unfold dkeys; rewrite map_length; lia).
        rewrite osum_drn, Hv. apply in_bits_length in Hbb. lia.
  Qed.
End DR.
