(* Generic theory of the permanent [perm_ml] of Model/Fock.v over an abstract
   commutative ring with involution: invariance under row / column
   permutations, transposition, conjugation, Laplace expansion along a row,
   grouped Laplace expansion for occupation lists, permanent of the identity. *)
From Coq Require Import ZArith Arith Lia Ring_theory Ring List Bool Permutation.
From LW Require Import Base.Num Base.Sums Base.Mat Model.State Model.Fock.
Import ListNotations.
Open Scope nat_scope.

Declare Scope K_scope.
Delimit Scope K_scope with K.

(* [kofZ] is the canonical ring morphism Z -> K (true for R with IZR, bigQ, and
   complex pairs over such a ring); a hypothesis of the lemmas that mention
   multiplicities, never an axiom *)
Class ZMorph {K} (o : ops K) : Prop := mkZMorph {
  zm_add : forall a b, kofZ o (a + b)%Z = kadd o (kofZ o a) (kofZ o b);
  zm_1 : kofZ o 1%Z = k1 o;
  zm_0 : kofZ o 0%Z = k0 o }.

(* lower entry [j] of an occupation list by one *)
Fixpoint decr (j : nat) (s : list nat) : list nat :=
  match s, j with
  | [], _ => []
  | n :: s', O => pred n :: s'
  | n :: s', S j' => n :: decr j' s'
  end.

(* ------------------------------------------------------------------ *)
(* sums over lists                                                     *)
(* ------------------------------------------------------------------ *)
Section SumHelpers.
  Context {R : Type} {r : ops R} {SR : StarRing r}.
  Let Rr := sr_ring (o:=r).
  Add Ring Kr : Rr.
  Local Notation "0" := (k0 r) : K_scope.
  Local Notation "1" := (k1 r) : K_scope.
  Local Notation "a + b" := (kadd r a b) : K_scope.
  Local Notation "a * b" := (kmul r a b) : K_scope.
  Local Notation suml := (suml r).
  Local Notation sumn := (sumn r).

  Lemma suml_map {A B} (g : A -> B) (l : list A) (f : B -> R) :
    suml (map g l) f = suml l (fun a => f (g a)).
  Proof. induction l as [|a l IH]; simpl; [reflexivity|]. rewrite IH. reflexivity. Qed.

  Lemma suml_perm {A} (l l' : list A) (f : A -> R) :
    Permutation l l' -> suml l f = suml l' f.
  Proof.
    induction 1 as [|x l l' _ IH|x y l|l l' l'' _ IH1 _ IH2]; simpl.
    - reflexivity.
    - rewrite IH. reflexivity.
    - ring.
    - rewrite IH1. exact IH2.
  Qed.

  Lemma suml_mul_r {A} (l : list A) c f : suml l (fun a => f a * c)%K = (suml l f * c)%K.
  Proof. induction l as [|a l IH]; simpl; [ring|]. rewrite IH. ring. Qed.

  Lemma suml_zero' {A} (l : list A) f : (forall a, In a l -> f a = 0%K) -> suml l f = 0%K.
  Proof.
    intros H. rewrite (suml_ext l f (fun _ => 0%K)) by exact H. apply suml_zero.
  Qed.

  Lemma suml_filter {A} (p : A -> bool) (l : list A) f :
    suml (filter p l) f = suml l (fun a => if p a then f a else 0%K).
  Proof.
    induction l as [|a l IH]; simpl; [reflexivity|].
    destruct (p a); simpl; rewrite IH; [reflexivity|ring].
  Qed.

  Lemma suml_flat_map {A B} (g : A -> list B) (l : list A) (f : B -> R) :
    suml (flat_map g l) f = suml l (fun a => suml (g a) f).
  Proof.
    induction l as [|a l IH]; simpl; [reflexivity|]. rewrite suml_app, IH. reflexivity.
  Qed.

  Lemma suml_sumn_swap {A} (l : list A) n (f : A -> nat -> R) :
    suml l (fun a => sumn n (fun i => f a i)) = sumn n (fun i => suml l (fun a => f a i)).
  Proof.
    induction l as [|a l IH]; simpl.
    - symmetry. apply sumn_zero.
    - rewrite IH, <- sumn_add. reflexivity.
  Qed.

  Lemma suml_conj {A} (l : list A) f :
    kconj r (suml l f) = suml l (fun a => kconj r (f a)).
  Proof.
    induction l as [|a l IH]; simpl; [apply sr_conj_0|]. rewrite sr_conj_add, IH. reflexivity.
  Qed.

  (* a sum with a single non-vanishing term *)
  Lemma suml_single {A} (l : list A) (a : A) f :
    NoDup l -> In a l -> (forall b, In b l -> b <> a -> f b = 0%K) -> suml l f = f a.
  Proof.
    induction l as [|x l IH]; intros Hnd Hin Hz; [contradiction|].
    inversion Hnd as [|? ? Hx Hnd']; subst. simpl. destruct Hin as [->|Hin].
    - rewrite suml_zero'; [ring|]. intros b Hb. apply Hz; [right; exact Hb|].
      intros ->. contradiction.
    - rewrite IH; [|assumption|assumption|intros b Hb; apply Hz; right; exact Hb].
      rewrite (Hz x); [ring|left; reflexivity|]. intros ->. contradiction.
  Qed.

  (* no term survives *)
  Lemma suml_none {A} (l : list A) (p : A -> bool) f :
    (forall b, In b l -> p b = false) -> suml l (fun b => if p b then f b else 0%K) = 0%K.
  Proof. intros H. apply suml_zero'. intros b Hb. rewrite H by exact Hb. reflexivity. Qed.
End SumHelpers.

(* ------------------------------------------------------------------ *)
(* selections                                                          *)
(* ------------------------------------------------------------------ *)
Section Selects.
  Context {A : Type}.

  Lemma selects_perm (l : list A) p : In p (selects l) -> Permutation (fst p :: snd p) l.
  Proof.
    revert p. induction l as [|x l IH]; intros p H; [contradiction|].
    simpl in H. destruct H as [<-|H]; [apply Permutation_refl|].
    apply in_map_iff in H. destruct H as [q [<- Hq]]. simpl.
    eapply perm_trans; [apply perm_swap|]. apply perm_skip. apply IH. exact Hq.
  Qed.

  Lemma selects_in_fst (l : list A) p : In p (selects l) -> In (fst p) l.
  Proof.
    intros H. apply (Permutation_in _ (selects_perm l p H)). left. reflexivity.
  Qed.

  Lemma selects_in_snd (l : list A) p a : In p (selects l) -> In a (snd p) -> In a l.
  Proof.
    intros H Ha. apply (Permutation_in _ (selects_perm l p H)). right. exact Ha.
  Qed.

  Lemma selects_length (l : list A) p : In p (selects l) -> length l = S (length (snd p)).
  Proof. intros H. rewrite <- (Permutation_length (selects_perm l p H)). reflexivity. Qed.

  Lemma selects_app (l1 l2 : list A) :
    selects (l1 ++ l2) =
    map (fun p => (fst p, snd p ++ l2)) (selects l1) ++ map (fun p => (fst p, l1 ++ snd p)) (selects l2).
  Proof.
    induction l1 as [|x l1 IH]; simpl.
    - rewrite <- (map_id (selects l2)) at 1. apply map_ext. intros [a l]. reflexivity.
    - f_equal. rewrite IH, map_app, !map_map. reflexivity.
  Qed.
End Selects.

Section Perm.
  Context {R : Type} {r : ops R} {SR : StarRing r}.
  Let Rr := sr_ring (o:=r).
  Add Ring Kr2 : Rr.
  Local Notation "0" := (k0 r) : K_scope.
  Local Notation "1" := (k1 r) : K_scope.
  Local Notation "a + b" := (kadd r a b) : K_scope.
  Local Notation "a * b" := (kmul r a b) : K_scope.
  Local Notation suml := (suml r).
  Local Notation sumn := (sumn r).
  Local Notation perm_ml := (perm_ml r).
  Notation mat := (@mat R).

  (* sum over the selections of a concatenation *)
  Lemma suml_selects_app {A} (l1 l2 : list A) (F : A * list A -> R) :
    suml (selects (l1 ++ l2)) F =
    (suml (selects l1) (fun p => F (fst p, snd p ++ l2)) +
     suml (selects l2) (fun p => F (fst p, l1 ++ snd p)))%K.
  Proof. rewrite selects_app, suml_app, !suml_map. reflexivity. Qed.

  Lemma suml_selects_cons {A} (x : A) (l : list A) (F : A * list A -> R) :
    suml (selects (x :: l)) F = (F (x, l) + suml (selects l) (fun p => F (fst p, x :: snd p)))%K.
  Proof. simpl. rewrite suml_map. reflexivity. Qed.

  (* a sum over selections does not depend on the order of the list, when the
     summand does not depend on the order of the remainder *)
  Lemma suml_selects_perm {A} (F : A * list A -> R) (xs xs' : list A) :
    (forall a l l', Permutation l l' -> F (a, l) = F (a, l')) ->
    Permutation xs xs' -> suml (selects xs) F = suml (selects xs') F.
  Proof.
    intros HF HP. revert F HF.
    induction HP as [|x l l' HP IH|x y l|l l' l'' _ IH1 _ IH2]; intros F HF.
    - reflexivity.
    - rewrite !suml_selects_cons. f_equal; [apply HF; exact HP|].
      apply IH. intros a m m' Hm. apply HF. apply perm_skip. exact Hm.
    - rewrite !suml_selects_cons. simpl.
      rewrite (suml_ext (selects l) (fun p => F (fst p, y :: x :: snd p))
                        (fun p => F (fst p, x :: y :: snd p)))
        by (intros p _; apply HF; apply perm_swap).
      ring.
    - rewrite IH1 by exact HF. apply IH2. exact HF.
  Qed.

  (* the order of two successive selections is irrelevant *)
  Lemma suml_selects_twice {A} (xs : list A) (G : A -> A -> list A -> R) :
    suml (selects xs) (fun p => suml (selects (snd p)) (fun q => G (fst p) (fst q) (snd q))) =
    suml (selects xs) (fun p => suml (selects (snd p)) (fun q => G (fst q) (fst p) (snd q))).
  Proof.
    revert G. induction xs as [|x l IH]; intros G; [reflexivity|].
    rewrite !suml_selects_cons. simpl.
    rewrite (suml_ext (selects l)
               (fun p => suml (selects (x :: snd p)) (fun q => G (fst p) (fst q) (snd q)))
               (fun p => (G (fst p) x (snd p) +
                          suml (selects (snd p)) (fun q => G (fst p) (fst q) (x :: snd q)))%K))
      by (intros p _; exact (suml_selects_cons x (snd p) (fun q => G (fst p) (fst q) (snd q)))).
    rewrite (suml_ext (selects l)
               (fun p => suml (selects (x :: snd p)) (fun q => G (fst q) (fst p) (snd q)))
               (fun p => (G x (fst p) (snd p) +
                          suml (selects (snd p)) (fun q => G (fst q) (fst p) (x :: snd q)))%K))
      by (intros p _; exact (suml_selects_cons x (snd p) (fun q => G (fst q) (fst p) (snd q)))).
    rewrite !suml_add.
    rewrite (IH (fun a b m => G a b (x :: m))). ring.
  Qed.

  (* ---------------- basic facts ---------------- *)
  Lemma perm_ml_nil_r U xs : perm_ml U xs [] = match xs with [] => 1%K | _ => 0%K end.
  Proof. reflexivity. Qed.

  Lemma perm_ml_cons U xs y ys :
    perm_ml U xs (y :: ys) = suml (selects xs) (fun p => (U (fst p) y * perm_ml U (snd p) ys)%K).
  Proof. reflexivity. Qed.

  (* the permanent of a non-square selection vanishes *)
  Lemma perm_ml_length U xs ys : length xs <> length ys -> perm_ml U xs ys = 0%K.
  Proof.
    revert xs. induction ys as [|y ys IH]; intros xs H.
    - destruct xs; [contradiction H; reflexivity|reflexivity].
    - rewrite perm_ml_cons. apply suml_zero'. intros p Hp.
      rewrite IH; [ring|]. apply selects_length in Hp. simpl in H. lia.
  Qed.

  (* only the listed entries matter *)
  Lemma perm_ml_ext U V xs ys :
    (forall a b, In a xs -> In b ys -> U a b = V a b) -> perm_ml U xs ys = perm_ml V xs ys.
  Proof.
    revert xs. induction ys as [|y ys IH]; intros xs H; [reflexivity|].
    rewrite !perm_ml_cons. apply suml_ext. intros p Hp.
    rewrite H by (try (left; reflexivity); eapply selects_in_fst; exact Hp).
    rewrite IH; [reflexivity|].
    intros a b Ha Hb. apply H; [eapply selects_in_snd; eassumption|right; exact Hb].
  Qed.

  Lemma perm_ml_meq n U V xs ys :
    meq n U V -> (forall a, In a xs -> a < n) -> (forall b, In b ys -> b < n) ->
    perm_ml U xs ys = perm_ml V xs ys.
  Proof. intros H Hx Hy. apply perm_ml_ext. intros a b Ha Hb. apply H; auto. Qed.

  (* ---------------- (P1) rows ---------------- *)
  Theorem perm_ml_rows_perm U xs xs' ys :
    Permutation xs xs' -> perm_ml U xs ys = perm_ml U xs' ys.
  Proof.
    revert xs xs'. induction ys as [|y ys IH]; intros xs xs' HP.
    - simpl. destruct xs, xs'; try reflexivity.
      + apply Permutation_nil in HP. discriminate.
      + apply Permutation_sym, Permutation_nil in HP. discriminate.
    - rewrite !perm_ml_cons. apply suml_selects_perm; [|exact HP].
      intros a l l' Hl. simpl. f_equal. apply IH. exact Hl.
  Qed.

  (* ---------------- (P2) columns ---------------- *)
  Theorem perm_ml_cols_perm U xs ys ys' :
    Permutation ys ys' -> perm_ml U xs ys = perm_ml U xs ys'.
  Proof.
    intros HP. revert xs.
    induction HP as [|y l l' HP IH|x y l|l l' l'' _ IH1 _ IH2]; intros xs.
    - reflexivity.
    - rewrite !perm_ml_cons. apply suml_ext. intros p _. rewrite IH. reflexivity.
    - rewrite !perm_ml_cons.
      rewrite (suml_ext (selects xs) (fun p => (U (fst p) y * perm_ml U (snd p) (x :: l))%K)
                 (fun p => suml (selects (snd p))
                             (fun q => (U (fst p) y * (U (fst q) x * perm_ml U (snd q) l))%K))).
      2:{ intros p _. rewrite perm_ml_cons, <- suml_mul_l. reflexivity. }
      rewrite (suml_ext (selects xs) (fun p => (U (fst p) x * perm_ml U (snd p) (y :: l))%K)
                 (fun p => suml (selects (snd p))
                             (fun q => (U (fst q) y * (U (fst p) x * perm_ml U (snd q) l))%K))).
      2:{ intros p _. rewrite perm_ml_cons, <- suml_mul_l. apply suml_ext. intros q _. ring. }
      apply (suml_selects_twice xs (fun a b m => (U a y * (U b x * perm_ml U m l))%K)).
    - rewrite IH1. apply IH2.
  Qed.

  (* ---------------- Laplace expansion along the first row ---------------- *)
  Theorem perm_ml_row_expand U x xs ys :
    perm_ml U (x :: xs) ys = suml (selects ys) (fun q => (U x (fst q) * perm_ml U xs (snd q))%K).
  Proof.
    revert x xs. induction ys as [|y ys IH]; intros x xs; [reflexivity|].
    rewrite perm_ml_cons, !suml_selects_cons. cbn [fst snd]. f_equal.
    rewrite (suml_ext (selects xs) (fun p => (U (fst p) y * perm_ml U (x :: snd p) ys)%K)
               (fun p => suml (selects ys)
                           (fun q => (U (fst p) y * (U x (fst q) * perm_ml U (snd p) (snd q)))%K)))
      by (intros p _; rewrite IH, <- suml_mul_l; reflexivity).
    rewrite suml_swap. apply suml_ext. intros q _.
    rewrite perm_ml_cons, <- suml_mul_l. apply suml_ext. intros p _. ring.
  Qed.

  (* ---------------- (P3) transposition ---------------- *)
  Theorem perm_ml_transpose U xs ys : perm_ml U xs ys = perm_ml (mtrans U) ys xs.
  Proof.
    revert xs. induction ys as [|y ys IH]; intros xs.
    - destruct xs; reflexivity.
    - rewrite perm_ml_cons, perm_ml_row_expand. apply suml_ext. intros p _.
      rewrite IH. reflexivity.
  Qed.

  (* ---------------- conjugation ---------------- *)
  Theorem perm_ml_conj U xs ys :
    kconj r (perm_ml U xs ys) = perm_ml (fun i j => kconj r (U i j)) xs ys.
  Proof.
    revert xs. induction ys as [|y ys IH]; intros xs.
    - destruct xs; simpl; [apply sr_conj_1|apply sr_conj_0].
    - rewrite !perm_ml_cons, suml_conj. apply suml_ext. intros p _.
      rewrite sr_conj_mul, IH. reflexivity.
  Qed.

  (* conj (perm U[xs|ys]) = perm U^dagger [ys|xs] *)
  Theorem perm_ml_conj_adj U xs ys :
    kconj r (perm_ml U xs ys) = perm_ml (madj r U) ys xs.
  Proof. rewrite perm_ml_conj, perm_ml_transpose. reflexivity. Qed.
End Perm.

(* ------------------------------------------------------------------ *)
(* occupation lists                                                    *)
(* ------------------------------------------------------------------ *)
Section Occ.
  Lemma nlist_eqb_eq a b : nlist_eqb a b = true <-> a = b.
  Proof.
    revert b. induction a as [|x a IH]; intros [|y b]; simpl; split; intros H;
      try reflexivity; try discriminate.
    - apply andb_true_iff in H. destruct H as [H1 H2].
      apply Nat.eqb_eq in H1. apply IH in H2. subst. reflexivity.
    - inversion H; subst. rewrite Nat.eqb_refl. simpl. apply IH. reflexivity.
  Qed.

  Lemma nlist_eqb_refl a : nlist_eqb a a = true.
  Proof. apply nlist_eqb_eq. reflexivity. Qed.

  Lemma nlist_eqb_neq a b : nlist_eqb a b = false <-> a <> b.
  Proof.
    split.
    - intros H E. apply nlist_eqb_eq in E. congruence.
    - intros H. destruct (nlist_eqb a b) eqn:E; [|reflexivity].
      apply nlist_eqb_eq in E. contradiction.
  Qed.

  Lemma osum_cons n s : osum (n :: s) = n + osum s.
  Proof. reflexivity. Qed.

  Lemma osum_app a b : osum (a ++ b) = osum a + osum b.
  Proof. induction a as [|x a IH]; simpl; [reflexivity|]. unfold osum in *. simpl. lia. Qed.

  Lemma osum_repeat0 n : osum (repeat 0 n) = 0.
  Proof. induction n as [|n IH]; [reflexivity|]. simpl. exact IH. Qed.

  Lemma osum_zero s : osum s = 0 -> s = repeat 0 (length s).
  Proof.
    induction s as [|x s IH]; intros H; [reflexivity|].
    rewrite osum_cons in H. simpl. assert (x = 0) by lia. subst. f_equal. apply IH. lia.
  Qed.

  Lemma incr_length j s : length (incr j s) = length s.
  Proof. revert j. induction s as [|n s IH]; intros [|j]; simpl; try reflexivity. rewrite IH. reflexivity. Qed.

  Lemma decr_length j s : length (decr j s) = length s.
  Proof. revert j. induction s as [|n s IH]; intros [|j]; simpl; try reflexivity. rewrite IH. reflexivity. Qed.

  Lemma decr_incr j s : decr j (incr j s) = s.
  Proof. revert j. induction s as [|n s IH]; intros [|j]; simpl; try reflexivity. rewrite IH. reflexivity. Qed.

  Lemma incr_decr j s : 0 < nth j s 0 -> incr j (decr j s) = s.
  Proof.
    revert j. induction s as [|n s IH]; intros [|j] H; simpl in *; try lia.
    - f_equal. lia.
    - rewrite IH by exact H. reflexivity.
  Qed.

  Lemma nth_incr_same j s : j < length s -> nth j (incr j s) 0 = S (nth j s 0).
  Proof.
    revert j. induction s as [|n s IH]; intros [|j] H; simpl in *; try lia.
    apply IH. lia.
  Qed.

  Lemma nth_incr_other j k s : j <> k -> nth k (incr j s) 0 = nth k s 0.
  Proof.
    revert j k. induction s as [|n s IH]; intros [|j] [|k] H; simpl; try reflexivity; try lia.
    apply IH. lia.
  Qed.

  Lemma nth_decr_same j s : nth j (decr j s) 0 = pred (nth j s 0).
  Proof. revert j. induction s as [|n s IH]; intros [|j]; simpl; try reflexivity. apply IH. Qed.

  Lemma nth_decr_other j k s : j <> k -> nth k (decr j s) 0 = nth k s 0.
  Proof.
    revert j k. induction s as [|n s IH]; intros [|j] [|k] H; simpl; try reflexivity; try lia.
    apply IH. lia.
  Qed.

  Lemma nth_pos_lt j s : 0 < nth j s 0 -> j < length s.
  Proof.
    intros H. destruct (Nat.lt_ge_cases j (length s)) as [L|L]; [exact L|].
    rewrite nth_overflow in H by exact L. lia.
  Qed.

  Lemma osum_incr j s : j < length s -> osum (incr j s) = S (osum s).
  Proof.
    revert j. induction s as [|n s IH]; intros [|j] H; simpl in H; try lia.
    - reflexivity.
    - cbn [incr]. rewrite !osum_cons, IH by lia. lia.
  Qed.

  Lemma osum_decr j s : 0 < nth j s 0 -> S (osum (decr j s)) = osum s.
  Proof.
    intros H. rewrite <- (incr_decr j s H) at 2.
    rewrite osum_incr; [reflexivity|]. rewrite decr_length. apply nth_pos_lt. exact H.
  Qed.

  Lemma fact_prod_incr j s : j < length s -> fact_prod (incr j s) = S (nth j s 0) * fact_prod s.
  Proof.
    revert j. induction s as [|n s IH]; intros [|j] H; simpl in H; try lia.
    - cbn [incr fact_prod nth]. change (fact (S n)) with (S n * fact n). lia.
    - cbn [incr fact_prod nth]. rewrite IH by lia. lia.
  Qed.

  Lemma fact_prod_pos s : 0 < fact_prod s.
  Proof.
    induction s as [|n s IH]; simpl; [lia|]. pose proof (lt_O_fact n). nia.
  Qed.

  Lemma fact_prod_repeat0 n : fact_prod (repeat 0 n) = 1.
  Proof. induction n as [|n IH]; [reflexivity|]. simpl. rewrite IH. reflexivity. Qed.

  Lemma incr_inj j s s' : incr j s = incr j s' -> s = s'.
  Proof. intros H. rewrite <- (decr_incr j s), <- (decr_incr j s'), H. reflexivity. Qed.

  Lemma expand_from_length i s : length (expand_from i s) = osum s.
  Proof.
    revert i. induction s as [|n s IH]; intros i; [reflexivity|].
    cbn [expand_from]. rewrite app_length, repeat_length, IH. reflexivity.
  Qed.

  Lemma expand_length s : length (expand s) = osum s.
  Proof. apply expand_from_length. Qed.

  Lemma expand_from_bounds i s a : In a (expand_from i s) -> i <= a < i + length s.
  Proof.
    revert i. induction s as [|n s IH]; intros i H; [contradiction|].
    cbn [expand_from] in H. apply in_app_or in H. destruct H as [H|H].
    - apply repeat_spec in H. subst. simpl. lia.
    - apply IH in H. simpl. lia.
  Qed.

  Lemma expand_bounds s a : In a (expand s) -> a < length s.
  Proof. intros H. apply expand_from_bounds in H. lia. Qed.

  Lemma expand_from_incr i j s :
    j < length s -> Permutation (expand_from i (incr j s)) ((i + j) :: expand_from i s).
  Proof.
    revert i j. induction s as [|n s IH]; intros i [|j] H; simpl in H; try lia.
    - cbn [incr expand_from]. rewrite Nat.add_0_r. apply Permutation_refl.
    - cbn [incr expand_from]. eapply perm_trans.
      + apply Permutation_app_head. apply IH. lia.
      + replace (S i + j) with (i + S j) by lia. apply Permutation_sym, Permutation_middle.
  Qed.

  Lemma expand_incr j s : j < length s -> Permutation (expand (incr j s)) (j :: expand s).
  Proof. intros H. apply (expand_from_incr 0 j s H). Qed.

  Lemma expand_from_repeat0 i n : expand_from i (repeat 0 n) = [].
  Proof. revert i. induction n as [|n IH]; intros i; [reflexivity|]. simpl. apply IH. Qed.
End Occ.

(* ------------------------------------------------------------------ *)
(* multiplicities: grouped Laplace expansion, permanent of the identity *)
(* ------------------------------------------------------------------ *)
Section Occupation.
  Context {R : Type} {r : ops R} {SR : StarRing r} {ZM : ZMorph r}.
  Let Rr := sr_ring (o:=r).
  Add Ring Kr3 : Rr.
  Local Notation "0" := (k0 r) : K_scope.
  Local Notation "1" := (k1 r) : K_scope.
  Local Notation "a + b" := (kadd r a b) : K_scope.
  Local Notation "a * b" := (kmul r a b) : K_scope.
  Local Notation suml := (suml r).
  Local Notation sumn := (sumn r).
  Local Notation perm_ml := (perm_ml r).
  Local Notation kofnat := (kofnat r).
  Notation mat := (@mat R).

  Lemma kofnat_0 : kofnat 0 = 0%K.
  Proof. unfold Fock.kofnat. simpl. apply zm_0. Qed.

  Lemma kofnat_1 : kofnat 1 = 1%K.
  Proof. unfold Fock.kofnat. simpl. apply zm_1. Qed.

  Lemma kofnat_add a b : kofnat (a + b) = (kofnat a + kofnat b)%K.
  Proof. unfold Fock.kofnat. rewrite Nat2Z.inj_add. apply zm_add. Qed.

  Lemma kofnat_S n : kofnat (S n) = (kofnat n + 1)%K.
  Proof. rewrite <- Nat.add_1_r, kofnat_add, kofnat_1. reflexivity. Qed.

  Lemma kofnat_mul a b : kofnat (a * b) = (kofnat a * kofnat b)%K.
  Proof.
    induction a as [|a IH]; simpl.
    - rewrite kofnat_0. ring.
    - rewrite kofnat_add, IH, kofnat_S. ring.
  Qed.

  Lemma suml_selects_repeat {A} (F : A * list A -> R) (i : A) k :
    suml (selects (repeat i k)) F = (kofnat k * F (i, repeat i (pred k)))%K.
  Proof.
    revert F. induction k as [|k IH]; intros F.
    - simpl. rewrite kofnat_0. ring.
    - change (repeat i (S k)) with (i :: repeat i k).
      rewrite suml_selects_cons, IH, kofnat_S. cbn [fst snd pred].
      destruct k as [|k]; simpl.
      + rewrite kofnat_0. ring.
      + ring.
  Qed.

  Lemma suml_selects_expand_from (F : nat * list nat -> R) i t :
    suml (selects (expand_from i t)) F =
    sumn (length t) (fun m => (kofnat (nth m t 0%nat) * F ((i + m)%nat, expand_from i (decr m t)))%K).
  Proof.
    revert i F. induction t as [|n t IH]; intros i F; [reflexivity|].
    cbn [expand_from length].
    rewrite suml_selects_app, suml_selects_repeat, IH, sumn_S_l. cbn [fst snd]. f_equal.
    - cbn [nth decr expand_from]. rewrite Nat.add_0_r. reflexivity.
    - apply sumn_ext. intros m _. cbn [nth decr expand_from].
      replace (S i + m) with (i + S m) by lia. reflexivity.
  Qed.

  (* ---------------- (P4) grouped Laplace expansion ---------------- *)
  Theorem perm_ml_expand_step (U : mat) t y ys :
    perm_ml U (expand t) (y :: ys) =
    sumn (length t) (fun m => (kofnat (nth m t 0%nat) * U m y * perm_ml U (expand (decr m t)) ys)%K).
  Proof.
    rewrite perm_ml_cons. unfold expand. rewrite suml_selects_expand_from.
    apply sumn_ext. intros m _. cbn [fst snd Nat.add]. ring.
  Qed.

  (* ---------------- permanent of the identity ---------------- *)
  Lemma perm_ml_mid_block i n X Y :
    (forall a, In a X -> a <> i) ->
    perm_ml (mid r) (repeat i n ++ X) (repeat i n ++ Y) = (kofnat (fact n) * perm_ml (mid r) X Y)%K.
  Proof.
    intros HX. induction n as [|n IH].
    - simpl. rewrite kofnat_1. ring.
    - change (repeat i (S n) ++ Y) with (i :: (repeat i n ++ Y)).
      rewrite perm_ml_cons, suml_selects_app, suml_selects_repeat. cbn [fst snd pred].
      rewrite IH. rewrite suml_zero'.
      + change (fact (S n)) with (S n * fact n)%nat. rewrite kofnat_mul.
        unfold mid. rewrite Nat.eqb_refl. ring.
      + intros p Hp. cbn [fst snd]. unfold mid.
        destruct (Nat.eqb_spec (fst p) i) as [E|E]; [|ring].
        exfalso. apply (HX (fst p)); [|exact E]. apply selects_in_fst. exact Hp.
  Qed.

  Lemma perm_ml_identity_from i s :
    perm_ml (mid r) (expand_from i s) (expand_from i s) = kofnat (fact_prod s).
  Proof.
    revert i. induction s as [|n s IH]; intros i.
    - simpl. rewrite kofnat_1. reflexivity.
    - cbn [expand_from fact_prod]. rewrite perm_ml_mid_block, IH, kofnat_mul; [reflexivity|].
      intros a Ha. apply expand_from_bounds in Ha. lia.
  Qed.

  Theorem perm_ml_identity s : perm_ml (mid r) (expand s) (expand s) = kofnat (fact_prod s).
  Proof. apply perm_ml_identity_from. Qed.
End Occupation.

(* complex pairs over a ring with canonical integers have canonical integers *)
Section CplxZ.
  Context {K : Type} (o : ops K) {SR : StarRing o} {ZM : ZMorph o}.
  Global Instance cplx_zmorph : ZMorph (cplx o).
  Proof.
    constructor; simpl; unfold cadd; simpl.
    - intros a b. rewrite zm_add. f_equal. symmetry. apply (Radd_0_l (sr_ring (o:=o))).
    - rewrite zm_1. reflexivity.
    - rewrite zm_0. reflexivity.
  Qed.
End CplxZ.

(* ------------------------------------------------------------------ *)
(* duplicate-free lists                                                *)
(* ------------------------------------------------------------------ *)
Section ListHelpers.
  Lemma nodup_app {A} (l1 l2 : list A) :
    NoDup l1 -> NoDup l2 -> (forall x, In x l1 -> ~ In x l2) -> NoDup (l1 ++ l2).
  Proof.
    induction l1 as [|a l1 IH]; intros H1 H2 Hd; simpl; [exact H2|].
    inversion H1 as [|? ? Ha H1']; subst. constructor.
    - intros Hin. apply in_app_or in Hin. destruct Hin as [Hin|Hin]; [contradiction|].
      apply (Hd a); [left; reflexivity|exact Hin].
    - apply IH; [exact H1'|exact H2|]. intros x Hx. apply Hd. right. exact Hx.
  Qed.

  Lemma nodup_flat_map {A B} (f : A -> list B) (l : list A) :
    NoDup l -> (forall a, In a l -> NoDup (f a)) ->
    (forall a a' b, In a l -> In a' l -> In b (f a) -> In b (f a') -> a = a') ->
    NoDup (flat_map f l).
  Proof.
    induction l as [|a l IH]; intros Hl Hf Hd; simpl; [constructor|].
    inversion Hl as [|? ? Ha Hl']; subst. apply nodup_app.
    - apply Hf. left. reflexivity.
    - apply IH; [exact Hl'|intros; apply Hf; right; assumption|].
      intros x x' b Hx Hx'. apply Hd; right; assumption.
    - intros b Hb Hin. apply in_flat_map in Hin. destruct Hin as [a' [Ha' Hb']].
      assert (a = a') by (apply (Hd a a' b); [left; reflexivity|right; exact Ha'|exact Hb|exact Hb']).
      subst. contradiction.
  Qed.

  Lemma nodup_map_inj {A B} (f : A -> B) (l : list A) :
    (forall x y, f x = f y -> x = y) -> NoDup l -> NoDup (map f l).
  Proof.
    intros Hinj. induction l as [|a l IH]; intros H; simpl; [constructor|].
    inversion H as [|? ? Ha Hl]; subst. constructor; [|apply IH; exact Hl].
    intros Hin. apply in_map_iff in Hin. destruct Hin as [x [Hx Hin]].
    apply Hinj in Hx. subst. contradiction.
  Qed.

  Lemma flat_map_length_const {A B} (f : A -> list B) (l : list A) c :
    (forall a, In a l -> length (f a) = c) -> length (flat_map f l) = length l * c.
  Proof.
    induction l as [|a l IH]; intros H; simpl; [reflexivity|].
    rewrite app_length, H by (left; reflexivity). rewrite IH; [reflexivity|].
    intros b Hb. apply H. right. exact Hb.
  Qed.

  Lemma map_nth_seq {A} (l : list A) d : map (fun a => nth a l d) (seq 0 (length l)) = l.
  Proof.
    induction l as [|x l IH]; [reflexivity|].
    cbn [length]. rewrite <- cons_seq, <- seq_shift. cbn [map nth]. rewrite map_map. cbn [nth].
    f_equal. exact IH.
  Qed.
End ListHelpers.

(* ------------------------------------------------------------------ *)
(* all orderings of a list (with multiplicity); permutations of [0,n)  *)
(* ------------------------------------------------------------------ *)
Section Arrangements.
  Context {A : Type}.

  (* n = length l *)
  Fixpoint arrs (n : nat) (l : list A) : list (list A) :=
    match n with
    | 0 => [[]]
    | S n' => flat_map (fun p => map (cons (fst p)) (arrs n' (snd p))) (selects l)
    end.

  Lemma selects_complete (l : list A) a : In a l -> exists l', In (a, l') (selects l).
  Proof.
    induction l as [|x l IH]; intros H; [contradiction|]. destruct H as [->|H].
    - exists l. left. reflexivity.
    - destruct (IH H) as [l' Hl']. exists (x :: l'). right.
      apply in_map_iff. exists (a, l'). split; [reflexivity|exact Hl'].
  Qed.

  Lemma selects_fst (l : list A) : map fst (selects l) = l.
  Proof.
    induction l as [|x l IH]; [reflexivity|]. simpl. f_equal. rewrite map_map. simpl.
    rewrite <- IH at 2. apply map_ext. intros p. reflexivity.
  Qed.

  Lemma selects_count (l : list A) : length (selects l) = length l.
  Proof. rewrite <- (selects_fst l) at 2. rewrite map_length. reflexivity. Qed.

  Lemma selects_nodup (l : list A) : NoDup l -> NoDup (selects l).
  Proof. intros H. apply (NoDup_map_inv fst). rewrite selects_fst. exact H. Qed.

  Lemma selects_fst_inj (l : list A) p p' :
    NoDup l -> In p (selects l) -> In p' (selects l) -> fst p = fst p' -> p = p'.
  Proof.
    revert p p'. induction l as [|x l IH]; intros p p' Hnd Hp Hp' E; [contradiction|].
    inversion Hnd as [|? ? Hx Hl]; subst. simpl in Hp, Hp'.
    destruct Hp as [<-|Hp]; destruct Hp' as [<-|Hp'].
    - reflexivity.
    - apply in_map_iff in Hp'. destruct Hp' as [q [<- Hq]]. simpl in E.
      exfalso. apply Hx. rewrite E. apply selects_in_fst. exact Hq.
    - apply in_map_iff in Hp. destruct Hp as [q [<- Hq]]. simpl in E.
      exfalso. apply Hx. rewrite <- E. apply selects_in_fst. exact Hq.
    - apply in_map_iff in Hp, Hp'. destruct Hp as [q [<- Hq]]. destruct Hp' as [q' [<- Hq']].
      simpl in E. rewrite (IH q q' Hl Hq Hq' E). reflexivity.
  Qed.

  Lemma arrs_perm n (l m : list A) : length l = n -> (In m (arrs n l) <-> Permutation m l).
  Proof.
    revert l m. induction n as [|n IH]; intros l m Hl.
    - destruct l; [|discriminate]. simpl. split.
      + intros [<-|[]]. constructor.
      + intros H. left. apply Permutation_sym, Permutation_nil in H. symmetry. exact H.
    - cbn [arrs]. rewrite in_flat_map. split.
      + intros [p [Hp Hm]]. apply in_map_iff in Hm. destruct Hm as [m' [<- Hm']].
        apply IH in Hm'; [|apply selects_length in Hp; lia].
        eapply perm_trans; [apply perm_skip; exact Hm'|]. apply selects_perm. exact Hp.
      + intros H. destruct m as [|a m'].
        { apply Permutation_length in H. simpl in H. lia. }
        assert (Ha : In a l) by (apply (Permutation_in _ H); left; reflexivity).
        destruct (selects_complete l a Ha) as [l' Hl'].
        exists (a, l'). split; [exact Hl'|]. apply in_map. apply IH.
        * apply selects_length in Hl'. simpl in Hl' |- *. lia.
        * apply selects_perm in Hl'. simpl in Hl' |- *.
          apply Permutation_cons_inv with a. eapply perm_trans; [exact H|].
          apply Permutation_sym. exact Hl'.
  Qed.

  Lemma arrs_nodup n (l : list A) : length l = n -> NoDup l -> NoDup (arrs n l).
  Proof.
    revert l. induction n as [|n IH]; intros l Hl Hnd.
    - simpl. constructor; [intros []|constructor].
    - cbn [arrs]. apply nodup_flat_map.
      + apply selects_nodup. exact Hnd.
      + intros p Hp. apply nodup_map_inj; [intros x y E; inversion E; reflexivity|].
        apply IH; [apply selects_length in Hp; lia|].
        pose proof (Permutation_NoDup (Permutation_sym (selects_perm l p Hp)) Hnd) as H.
        inversion H. assumption.
      + intros p p' b Hp Hp' Hb Hb'. apply in_map_iff in Hb, Hb'.
        destruct Hb as [x [<- _]]. destruct Hb' as [x' [E _]]. inversion E.
        apply (selects_fst_inj l); try assumption. symmetry. assumption.
  Qed.

  Lemma arrs_length n (l : list A) : length l = n -> length (arrs n l) = fact n.
  Proof.
    revert l. induction n as [|n IH]; intros l Hl; [reflexivity|].
    cbn [arrs]. rewrite (flat_map_length_const _ _ (fact n)).
    - rewrite selects_count, Hl. reflexivity.
    - intros p Hp. rewrite map_length. apply IH. apply selects_length in Hp. lia.
  Qed.
End Arrangements.

Section Textbook.
  Context {R : Type} {r : ops R} {SR : StarRing r}.
  Let Rr := sr_ring (o:=r).
  Add Ring Kr4 : Rr.
  Local Notation "0" := (k0 r) : K_scope.
  Local Notation "1" := (k1 r) : K_scope.
  Local Notation "a + b" := (kadd r a b) : K_scope.
  Local Notation "a * b" := (kmul r a b) : K_scope.
  Local Notation suml := (suml r).
  Local Notation sumn := (sumn r).
  Local Notation perm_ml := (perm_ml r).
  Notation mat := (@mat R).

  (* prod_k B (m_k) (ys_k) *)
  Fixpoint prod2 (B : mat) (m ys : list nat) : R :=
    match m, ys with
    | k :: m', y :: ys' => (B k y * prod2 B m' ys')%K
    | _, _ => 1%K
    end.

  (* the Laplace recursion is the sum over all orderings of the rows *)
  Theorem perm_ml_arrs (U : mat) xs ys :
    length xs = length ys ->
    perm_ml U xs ys = suml (arrs (length ys) xs) (fun m => prod2 U m ys).
  Proof.
    revert xs. induction ys as [|y ys IH]; intros xs Hl.
    - destruct xs; [|discriminate]. simpl. ring.
    - rewrite perm_ml_cons. cbn [length arrs]. rewrite suml_flat_map.
      apply suml_ext. intros p Hp. rewrite suml_map. cbn [prod2].
      rewrite suml_mul_l, <- IH; [reflexivity|].
      apply selects_length in Hp. simpl in Hl. lia.
  Qed.

  (* re-indexing of rows and columns *)
  Lemma selects_map {A B} (f : A -> B) (l : list A) :
    selects (map f l) = map (fun p => (f (fst p), map f (snd p))) (selects l).
  Proof.
    induction l as [|x l IH]; [reflexivity|]. simpl. rewrite IH, !map_map. reflexivity.
  Qed.

  Lemma perm_ml_map (U : mat) (f g : nat -> nat) xs ys :
    perm_ml U (map f xs) (map g ys) = perm_ml (fun a b => U (f a) (g b)) xs ys.
  Proof.
    revert xs. induction ys as [|y ys IH]; intros xs.
    - destruct xs; reflexivity.
    - cbn [map]. rewrite !perm_ml_cons, selects_map, suml_map. apply suml_ext. intros p _.
      cbn [fst snd]. rewrite IH. reflexivity.
  Qed.

  (* the textbook definition: perm M = sum over the permutations sigma of [0,n) of
     prod_k M[sigma k, k], where M[a,b] = U (nth a xs) (nth b ys);
     [arrs n (seq 0 n)] lists each permutation of [0,n) exactly once
     (arrs_perm, arrs_nodup, arrs_length) *)
  Theorem perm_is_permanent (U : mat) xs ys n :
    length xs = n -> length ys = n ->
    perm_ml U xs ys =
    suml (arrs n (seq 0 n))
         (fun sigma => prod2 (fun a b => U (nth a xs 0%nat) (nth b ys 0%nat)) sigma (seq 0 n)).
  Proof.
    intros Hx Hy.
    rewrite <- (map_nth_seq xs 0%nat) at 1. rewrite <- (map_nth_seq ys 0%nat) at 1.
    rewrite Hx, Hy, perm_ml_map, perm_ml_arrs by reflexivity.
    rewrite seq_length. reflexivity.
  Qed.

  (* ---------------- block-diagonal matrices ---------------- *)
  Theorem perm_ml_block (U : mat) (P : nat -> Prop) X1 X2 Y1 Y2 :
    (forall a b, P a -> ~ P b -> U a b = 0%K) -> (forall a b, ~ P a -> P b -> U a b = 0%K) ->
    (forall a, In a X1 -> P a) -> (forall b, In b Y1 -> P b) ->
    (forall a, In a X2 -> ~ P a) -> (forall b, In b Y2 -> ~ P b) ->
    perm_ml U (X1 ++ X2) (Y1 ++ Y2) = (perm_ml U X1 Y1 * perm_ml U X2 Y2)%K.
  Proof.
    intros HU1 HU2 HX1 HY1 HX2 HY2. revert X1 HX1.
    induction Y1 as [|y Y1 IH]; intros X1 HX1.
    - destruct X1 as [|a X1]; [simpl; ring|].
      cbn [app]. rewrite perm_ml_row_expand, suml_zero'; [simpl; ring|].
      intros q Hq. rewrite HU1; [ring|apply HX1; left; reflexivity|].
      apply HY2. apply selects_in_fst. exact Hq.
    - cbn [app]. rewrite !perm_ml_cons, suml_selects_app. cbn [fst snd].
      rewrite (suml_zero' (selects X2)).
      + rewrite <- suml_mul_r.
        transitivity (suml (selects X1)
                        (fun p => (U (fst p) y * perm_ml U (snd p) Y1 * perm_ml U X2 Y2)%K)); [|reflexivity].
        rewrite (suml_ext (selects X1) _
                   (fun p => (U (fst p) y * perm_ml U (snd p) Y1 * perm_ml U X2 Y2)%K)); [ring|].
        intros p Hp. rewrite IH; [ring|intros b Hb; apply HY1; right; exact Hb|].
        intros a Ha. apply HX1. eapply selects_in_snd; eassumption.
      + intros p Hp. rewrite HU2; [ring| |apply HY1; left; reflexivity].
        apply HX2. apply selects_in_fst. exact Hp.
  Qed.
End Textbook.
Arguments prod2 {R} r B m ys.

Section BlockOcc.
  Lemma expand_from_app i t1 t2 :
    expand_from i (t1 ++ t2) = expand_from i t1 ++ expand_from (i + length t1) t2.
  Proof.
    revert i. induction t1 as [|n t1 IH]; intros i; simpl.
    - rewrite Nat.add_0_r. reflexivity.
    - rewrite IH, <- app_assoc. replace (S i + length t1) with (i + S (length t1)) by lia. reflexivity.
  Qed.

  Lemma expand_from_shift k i t : expand_from (k + i) t = map (Nat.add k) (expand_from i t).
  Proof.
    revert i. induction t as [|n t IH]; intros i; [reflexivity|].
    cbn [expand_from]. rewrite map_app. f_equal.
    - clear. induction n as [|n IH]; [reflexivity|]. simpl. rewrite IH. reflexivity.
    - rewrite <- IH. f_equal. lia.
  Qed.
End BlockOcc.

Section BlockAmp.
  Context {R : Type} {r : ops R} {SR : StarRing r}.
  Let Rr := sr_ring (o:=r).
  Add Ring Kr5 : Rr.
  Notation mat := (@mat R).

  (* a matrix that is block diagonal w.r.t. modes < k and modes >= k: the amplitude
     permanent factorises into the permanents of the two blocks *)
  Theorem amp_perm_block (U : mat) k in1 in2 out1 out2 :
    length in1 = k -> length out1 = k ->
    (forall a b, a < k -> k <= b -> U a b = k0 r /\ U b a = k0 r) ->
    amp_perm r U (in1 ++ in2) (out1 ++ out2) =
    kmul r (amp_perm r U in1 out1)
           (amp_perm r (fun a b => U (k + a) (k + b)) in2 out2).
  Proof.
    intros Hi Ho HU. unfold amp_perm, expand. rewrite !expand_from_app. simpl.
    rewrite Hi, Ho. rewrite <- (perm_ml_map U (Nat.add k) (Nat.add k)).
    rewrite <- !(expand_from_shift k 0), Nat.add_0_r.
    apply (perm_ml_block U (fun a => a < k)).
    - intros a b Ha Hb. destruct (HU a b) as [H _]; [lia|lia|exact H].
    - intros a b Ha Hb. destruct (HU b a) as [_ H]; [lia|lia|exact H].
    - intros a Ha. apply expand_from_bounds in Ha. lia.
    - intros a Ha. apply expand_from_bounds in Ha. lia.
    - intros a Ha. apply expand_from_bounds in Ha. lia.
    - intros a Ha. apply expand_from_bounds in Ha. lia.
  Qed.

  (* ... and the photon number of each block is conserved *)
  Theorem amp_perm_block_conserved (U : mat) k in1 in2 out1 out2 :
    length in1 = k -> length out1 = k ->
    (forall a b, a < k -> k <= b -> U a b = k0 r /\ U b a = k0 r) ->
    osum in1 <> osum out1 ->
    amp_perm r U (in1 ++ in2) (out1 ++ out2) = k0 r.
  Proof.
    intros Hi Ho HU Hne. rewrite (amp_perm_block U k) by assumption.
    unfold amp_perm at 1. rewrite perm_ml_length.
    - ring.
    - rewrite !expand_length. intros E. apply Hne. symmetry. exact E.
  Qed.
End BlockAmp.

(* permanents of sub-matrices of the identity: Kronecker delta on occupation lists *)
Section IdentityGen.
  Context {R : Type} {r : ops R} {SR : StarRing r} {ZM : ZMorph r}.
  Let Rr := sr_ring (o:=r).
  Add Ring Kr6 : Rr.
  Local Notation "0" := (k0 r) : K_scope.
  Local Notation "a * b" := (kmul r a b) : K_scope.
  Local Notation perm_ml := (perm_ml r).
  Local Notation kofnat := (kofnat r).

  Lemma perm_ml_mid_repeat i n n' :
    perm_ml (mid r) (repeat i n) (repeat i n') = if Nat.eqb n n' then kofnat (fact n) else 0%K.
  Proof.
    destruct (Nat.eqb_spec n n') as [<-|Hne].
    - pose proof (perm_ml_mid_block (r:=r) i n [] []) as H. rewrite !app_nil_r in H.
      rewrite H by (intros a []). simpl. ring.
    - apply perm_ml_length. rewrite !repeat_length. exact Hne.
  Qed.

  Lemma perm_ml_mid_from i s s' :
    length s = length s' ->
    perm_ml (mid r) (expand_from i s) (expand_from i s') =
    if nlist_eqb s s' then kofnat (fact_prod s) else 0%K.
  Proof.
    revert i s'. induction s as [|n s IH]; intros i [|n' s'] Hl; try discriminate.
    - simpl. symmetry. apply kofnat_1.
    - cbn [expand_from nlist_eqb fact_prod].
      rewrite (perm_ml_block (mid r) (fun a => a = i)).
      + rewrite perm_ml_mid_repeat, IH by (simpl in Hl; lia).
        destruct (Nat.eqb n n'); cbn [andb]; [|ring].
        destruct (nlist_eqb s s'); [rewrite kofnat_mul; reflexivity|ring].
      + intros a b Ha Hb. unfold mid. destruct (Nat.eqb_spec a b); [subst; contradiction|reflexivity].
      + intros a b Ha Hb. unfold mid. destruct (Nat.eqb_spec a b); [subst; contradiction|reflexivity].
      + intros a Ha. apply repeat_spec in Ha. exact Ha.
      + intros a Ha. apply repeat_spec in Ha. exact Ha.
      + intros a Ha. apply expand_from_bounds in Ha. lia.
      + intros a Ha. apply expand_from_bounds in Ha. lia.
  Qed.

  Theorem perm_ml_mid_delta s s' :
    length s = length s' ->
    perm_ml (mid r) (expand s) (expand s') = if nlist_eqb s s' then kofnat (fact_prod s) else 0%K.
  Proof. apply perm_ml_mid_from. Qed.
End IdentityGen.
