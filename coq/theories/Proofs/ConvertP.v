From Coq Require Import List Arith Bool PeanoNat Lia.
From LW Require Import Base.Sx Model.Convert.
Import ListNotations.

Lemma analyze_length gs : length (fst (analyze gs)) = length gs.
Proof.
  induction gs as [|g rest IH]; simpl; auto.
  destruct (analyze rest) as [fl has]. destruct (multi_qubits g); simpl in *; congruence.
Qed.
