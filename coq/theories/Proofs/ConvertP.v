(* Lemmas about Model/Convert.v (qiskit converter decisions).
   A. convert_two_qubits_to_adjacent   B. post_selection_analyzer
   C. acceptance / refusals            D. well-formedness of the emitted program
   E. the emitted program read at qubit level is the source program
   F. photon-count abstraction of post-selection: the analyzer's rule is sound and exact *)
From Coq Require Import List Arith Bool PeanoNat Lia Permutation.
From LW Require Import Base.Sx Model.Convert.
Import ListNotations.

Ltac half n :=
  let H1 := fresh in let H2 := fresh in
  pose proof (Nat.div_mod n 2 ltac:(discriminate)) as H1;
  pose proof (Nat.mod_upper_bound n 2 ltac:(discriminate)) as H2;
  generalize dependent (n / 2); generalize dependent (n mod 2); intros.

Lemma adj_loop_closed fuel : forall up lo,
  lo < up -> up - lo <= fuel ->
  adj_loop fuel up lo = Some (lo + (up - lo - 1) / 2 + 1, lo + (up - lo - 1) / 2).
Proof.
  induction fuel as [|f IH]; intros up lo Hlt Hf; [lia|].
  cbn [adj_loop].
  destruct (up - lo =? 1) eqn:E1.
  - apply Nat.eqb_eq in E1. replace (up - lo - 1) with 0 by lia. change (0 / 2) with 0. f_equal. f_equal; lia.
  - apply Nat.eqb_neq in E1.
    destruct (up - 1 - lo =? 1) eqn:E2.
    + apply Nat.eqb_eq in E2. replace (up - lo - 1) with 1 by lia. change (1 / 2) with 0. f_equal. f_equal; lia.
    + apply Nat.eqb_neq in E2.
      rewrite IH by lia.
      replace (up - lo - 1) with ((up - 1 - (lo + 1) - 1) + 1 * 2) by lia.
      rewrite Nat.div_add by discriminate. f_equal. f_equal; lia.
Qed.

Lemma adj_loop_eq fuel : forall up lo, up <= lo -> adj_loop fuel up lo = None.
Proof.
  induction fuel as [|f IH]; intros up lo H; simpl; auto.
  replace (up - lo) with 0 by lia. simpl.
  replace (up - 1 - lo) with 0 by lia. simpl. apply IH. lia.
Qed.

Definition transp (a b x : nat) : nat := if x =? a then b else if x =? b then a else x.
Definition apply_swaps (sw : list (nat * nat)) (x : nat) : nat :=
  fold_left (fun y p => transp (fst p) (snd p) y) sw x.

Definition mid_lo (q0 q1 : nat) : nat := Nat.min q0 q1 + (Nat.max q0 q1 - Nat.min q0 q1 - 1) / 2.

Definition adjacent_result (q0 q1 : nat) : nat * nat * list (nat * nat) :=
  let lo := mid_lo q0 q1 in
  let up := lo + 1 in
  let sw := (if Nat.min q0 q1 =? lo then [] else [(Nat.min q0 q1, lo)]) ++
            (if Nat.max q0 q1 =? up then [] else [(Nat.max q0 q1, up)]) in
  if q0 <? q1 then (lo, up, sw) else (up, lo, sw).

Lemma adjacent_closed q0 q1 : q0 <> q1 ->
  convert_two_qubits_to_adjacent q0 q1 = Some (adjacent_result q0 q1).
Proof.
  intros Hne. unfold convert_two_qubits_to_adjacent, adjacent_result, mid_lo, absdiff.
  destruct (q1 - q0 + (q0 - q1) =? 1) eqn:E.
  - apply Nat.eqb_eq in E.
    replace (Nat.max q0 q1 - Nat.min q0 q1 - 1) with 0 by lia. change (0 / 2) with 0.
    rewrite Nat.add_0_r, Nat.eqb_refl.
    replace (Nat.max q0 q1 =? Nat.min q0 q1 + 1) with true by (symmetry; apply Nat.eqb_eq; lia).
    simpl. destruct (q0 <? q1) eqn:L; [apply Nat.ltb_lt in L|apply Nat.ltb_ge in L]; repeat f_equal; lia.
  - rewrite adj_loop_closed by lia. reflexivity.
Qed.

Lemma adjacent_diverges q : convert_two_qubits_to_adjacent q q = None.
Proof.
  unfold convert_two_qubits_to_adjacent, absdiff. rewrite Nat.sub_diag. simpl (0 + 0 =? 1).
  cbv iota. rewrite adj_loop_eq by lia. reflexivity.
Qed.

Lemma adjacent_diverges_iff q0 q1 : convert_two_qubits_to_adjacent q0 q1 = None <-> q0 = q1.
Proof.
  split.
  - intros H. destruct (Nat.eq_dec q0 q1) as [|Hne]; auto.
    rewrite adjacent_closed in H by auto. discriminate.
  - intros ->. apply adjacent_diverges.
Qed.

Ltac eqbs :=
  repeat match goal with
  | |- context [?a =? ?b] => destruct (Nat.eqb_spec a b)
  | |- context [?a <? ?b] => destruct (Nat.ltb_spec a b)
  end.

Lemma mid_lo_bounds q0 q1 : q0 <> q1 ->
  Nat.min q0 q1 <= mid_lo q0 q1 /\ mid_lo q0 q1 + 1 <= Nat.max q0 q1.
Proof.
  intros Hne. unfold mid_lo.
  pose proof (Nat.div_mod (Nat.max q0 q1 - Nat.min q0 q1 - 1) 2 ltac:(discriminate)) as H1.
  pose proof (Nat.mod_upper_bound (Nat.max q0 q1 - Nat.min q0 q1 - 1) 2 ltac:(discriminate)) as H2.
  lia.
Qed.


Definition route_swaps (mn lo up mx : nat) : list (nat * nat) :=
  (if mn =? lo then [] else [(mn, lo)]) ++ (if mx =? up then [] else [(mx, up)]).

Lemma route_swaps_apply mn lo mx x : mn <= lo -> lo + 1 <= mx ->
  apply_swaps (route_swaps mn lo (lo + 1) mx) x =
  if x =? mn then lo else if x =? lo then mn else if x =? mx then lo + 1 else if x =? lo + 1 then mx else x.
Proof.
  intros H1 H2. unfold route_swaps.
  destruct (Nat.eqb_spec mn lo); destruct (Nat.eqb_spec mx (lo + 1));
    cbn [app apply_swaps fold_left fst snd]; unfold transp; eqbs; lia.
Qed.

Lemma route_swaps_invol mn lo mx x : mn <= lo -> lo + 1 <= mx ->
  apply_swaps (route_swaps mn lo (lo + 1) mx) (apply_swaps (route_swaps mn lo (lo + 1) mx) x) = x.
Proof.
  intros H1 H2. rewrite (route_swaps_apply mn lo mx x) by auto.
  destruct (Nat.eqb_spec x mn); [|destruct (Nat.eqb_spec x lo); [|destruct (Nat.eqb_spec x mx);
    [|destruct (Nat.eqb_spec x (lo + 1))]]];
  rewrite route_swaps_apply by auto; eqbs; lia.
Qed.

Lemma route_swaps_in mn lo mx p : mn <= lo -> lo + 1 <= mx ->
  In p (route_swaps mn lo (lo + 1) mx) ->
  fst p <> snd p /\ mn <= fst p <= mx /\ mn <= snd p <= mx.
Proof.
  intros H1 H2. unfold route_swaps.
  destruct (Nat.eqb_spec mn lo); destruct (Nat.eqb_spec mx (lo + 1));
    cbn [app In]; intros H; repeat (destruct H as [H|H]; [subst p; cbn [fst snd]; lia|]); destruct H.
Qed.

(* the specification of convert_two_qubits_to_adjacent, for all q0 <> q1 *)
Lemma adjacent_spec q0 q1 : q0 <> q1 ->
  exists a b sw,
    convert_two_qubits_to_adjacent q0 q1 = Some (a, b, sw) /\
    absdiff a b = 1 /\
    (q0 < q1 <-> a < b) /\
    apply_swaps sw q0 = a /\ apply_swaps sw q1 = b /\
    (forall x, apply_swaps sw (apply_swaps sw x) = x) /\
    Nat.min q0 q1 <= Nat.min a b /\ Nat.max a b <= Nat.max q0 q1 /\
    (forall p, In p sw -> fst p <> snd p /\
                          Nat.min q0 q1 <= fst p <= Nat.max q0 q1 /\
                          Nat.min q0 q1 <= snd p <= Nat.max q0 q1) /\
    (forall x, x < Nat.min q0 q1 \/ Nat.max q0 q1 < x -> apply_swaps sw x = x).
Proof.
  intros Hne. rewrite adjacent_closed by auto. unfold adjacent_result.
  pose proof (mid_lo_bounds q0 q1 Hne) as [B1 B2].
  set (lo := mid_lo q0 q1) in *.
  fold (route_swaps (Nat.min q0 q1) lo (lo + 1) (Nat.max q0 q1)).
  destruct (q0 <? q1) eqn:L; [apply Nat.ltb_lt in L|apply Nat.ltb_ge in L];
    eexists _, _, _; (split; [reflexivity|]); unfold absdiff.
  all: split; [lia|]; split; [lia|].
  all: split; [rewrite route_swaps_apply by auto; eqbs; lia|].
  all: split; [rewrite route_swaps_apply by auto; eqbs; lia|].
  all: split; [intros x; apply route_swaps_invol; auto|].
  all: split; [lia|]; split; [lia|].
  all: split; [intros p; apply route_swaps_in; auto|].
  all: intros x Hx; rewrite route_swaps_apply by auto; eqbs; lia.
Qed.
(* ------------------------------------------------------------------ *)
(* B. post_selection_analyzer                                           *)
(* ------------------------------------------------------------------ *)
Definition multib (g : qgate) : bool := 2 <=? length (g_qubits g).
(* q is used by a multi-qubit instruction of l *)
Definition touched (l : list qgate) (q : nat) : Prop :=
  exists g, In g l /\ 2 <= length (g_qubits g) /\ In q (g_qubits g).
Definition touchedb (l : list qgate) (q : nat) : bool :=
  existsb (fun g => multib g && memb q (g_qubits g)) l.
(* number of qubit slots of qs that are used by a multi-qubit instruction of post *)
Definition count_touched (post : list qgate) (qs : list nat) : nat :=
  length (filter (touchedb post) qs).
(* the (repaired) analyzer's verdict for instruction g followed by post *)
Definition can_ps (g : qgate) (post : list qgate) : bool :=
  multib g && (count_touched post (g_qubits g) <=? 1).

Lemma memb_In q l : memb q l = true <-> In q l.
Proof.
  unfold memb. rewrite existsb_exists. split.
  - intros (x & Hx & E). apply Nat.eqb_eq in E. subst. exact Hx.
  - intros H. exists q. split; auto. apply Nat.eqb_refl.
Qed.

Lemma touchedb_spec l q : touchedb l q = true <-> touched l q.
Proof.
  unfold touchedb, touched. rewrite existsb_exists. split.
  - intros (g & Hg & E). apply andb_true_iff in E as [E1 E2].
    exists g. repeat split; auto. apply Nat.leb_le; exact E1. apply memb_In; exact E2.
  - intros (g & Hg & H2 & Hq). exists g. split; auto. apply andb_true_iff. split.
    apply Nat.leb_le; exact H2. apply memb_In; exact Hq.
Qed.

Lemma multi_qubits_eq g : multi_qubits g = if multib g then Some (g_qubits g) else None.
Proof. reflexivity. Qed.

Lemma analyze_has gs q : memb q (snd (analyze gs)) = touchedb gs q.
Proof.
  induction gs as [|g rest IH]; [reflexivity|].
  cbn [analyze]. destruct (analyze rest) as [fl has]. rewrite multi_qubits_eq.
  cbn [touchedb existsb]. fold (touchedb rest q). cbn [snd] in IH.
  destruct (multib g); cbn [snd andb orb].
  - unfold memb in *. rewrite existsb_app, IH. apply orb_comm.
  - exact IH.
Qed.

Lemma analyze_cons g rest :
  analyze (g :: rest) =
  (can_ps g rest :: fst (analyze rest),
   if multib g then snd (analyze rest) ++ g_qubits g else snd (analyze rest)).
Proof.
  cbn [analyze]. pose proof (analyze_has rest) as Hh.
  destruct (analyze rest) as [fl has]. rewrite multi_qubits_eq. unfold can_ps.
  destruct (multib g); cbn [fst snd andb]; [|reflexivity].
  unfold count_in, count_touched. cbn [snd] in Hh.
  rewrite (filter_ext _ _ Hh). reflexivity.
Qed.

Lemma analyze_length gs : length (fst (analyze gs)) = length gs.
Proof.
  induction gs as [|g rest IH]; [reflexivity|]. rewrite analyze_cons. cbn. congruence.
Qed.

Lemma analyze_flag pre g post :
  nth (length pre) (fst (analyze (pre ++ g :: post))) false = can_ps g post.
Proof.
  induction pre as [|p pre IH]; cbn [app length]; rewrite analyze_cons; cbn [fst nth]; auto.
Qed.

Lemma In_ps_qubits gs q : In q (ps_qubits (snd (analyze gs))) <-> touched gs q.
Proof.
  unfold ps_qubits. rewrite nodup_In, <- memb_In, analyze_has. apply touchedb_spec.
Qed.

(* analyzer_spec: for every program and every position, the flag is true exactly
   when the instruction acts on >= 2 qubits of which at most one is used by a LATER
   multi-qubit instruction; the returned qubits are exactly those used by some
   multi-qubit instruction, without repetition. *)
Lemma analyzer_spec :
  (forall gs, length (fst (analyze gs)) = length gs) /\
  (forall pre g post,
      nth (length pre) (fst (analyze (pre ++ g :: post))) false = true <->
      2 <= length (g_qubits g) /\ count_touched post (g_qubits g) <= 1) /\
  (forall gs q, In q (ps_qubits (snd (analyze gs))) <-> touched gs q) /\
  (forall gs, NoDup (ps_qubits (snd (analyze gs)))).
Proof.
  split; [exact analyze_length|]. split; [|split; [exact In_ps_qubits|intros; apply NoDup_nodup]].
  intros pre g post. rewrite analyze_flag. unfold can_ps, multib.
  rewrite andb_true_iff, !Nat.leb_le. reflexivity.
Qed.

Lemma count_touched_spec post qs :
  count_touched post qs <= 1 <->
  (forall i j, i < length qs -> j < length qs ->
               touched post (nth i qs 0) -> touched post (nth j qs 0) -> i = j).
Proof.
  unfold count_touched. induction qs as [|q qs IH]; cbn [filter length].
  - split; [intros _ i j Hi; inversion Hi|lia].
  - destruct (touchedb post q) eqn:E; cbn [length].
    + split.
      * intros H. assert (Hz : length (filter (touchedb post) qs) = 0) by lia.
        apply length_zero_iff_nil in Hz.
        assert (Hn : forall k, k < length qs -> ~ touched post (nth k qs 0)).
        { intros k Hk Ht. apply touchedb_spec in Ht.
          assert (In (nth k qs 0) (filter (touchedb post) qs)) by (apply filter_In; split; auto using nth_In).
          rewrite Hz in H0. destruct H0. }
        intros [|i] [|j] Hi Hj Hti Htj; auto; cbn [nth] in *.
        -- exfalso. apply (Hn j); [lia|auto].
        -- exfalso. apply (Hn i); [lia|auto].
        -- exfalso. apply (Hn j); [lia|auto].
      * intros H. enough (length (filter (touchedb post) qs) = 0) by lia.
        destruct (filter (touchedb post) qs) as [|x l] eqn:F; [reflexivity|exfalso].
        assert (Hx : In x (filter (touchedb post) qs)) by (rewrite F; left; auto).
        apply filter_In in Hx as [Hx1 Hx2]. apply (In_nth _ _ 0) in Hx1 as (k & Hk & Hnk).
        specialize (H 0 (S k)). cbn [nth length] in H. rewrite Hnk in H.
        assert (0 = S k); [|discriminate].
        apply H; try lia; apply touchedb_spec; auto.
    + rewrite IH. split.
      * intros H [|i] [|j] Hi Hj Hti Htj; auto; cbn [nth length] in *.
        -- apply touchedb_spec in Hti. congruence.
        -- apply touchedb_spec in Htj. congruence.
        -- f_equal. apply H; auto; lia.
      * intros H i j Hi Hj Hti Htj. specialize (H (S i) (S j)). cbn [nth length] in H.
        assert (S i = S j) by (apply H; auto; lia). lia.
Qed.

(* ------------------------------------------------------------------ *)
(* C. the conversion loop, acceptance and refusals                      *)
(* ------------------------------------------------------------------ *)
Lemma ps_flags_cons allow g rest :
  ps_flags allow (g :: rest) = (allow && can_ps g rest) :: ps_flags allow rest.
Proof.
  unfold ps_flags. destruct allow; cbn [andb].
  - rewrite analyze_cons. reflexivity.
  - reflexivity.
Qed.

(* forward-recursive reading of the loop: the flag of an instruction depends on
   the instructions AFTER it only *)
Fixpoint conv_spec (allow : bool) (inst : nat) (gs : list qgate) : res (list eop) :=
  match gs with
  | [] => Ok []
  | g :: rest =>
      do ops <- convert_gate inst g (allow && can_ps g rest);
      do more <- conv_spec allow (S inst) rest;
      Ok (ops ++ more)
  end.

Lemma convert_loop_spec allow gs : forall i,
  convert_loop i (combine gs (ps_flags allow gs)) = conv_spec allow i gs.
Proof.
  induction gs as [|g rest IH]; intros i; [reflexivity|].
  rewrite ps_flags_cons. cbn [combine convert_loop conv_spec]. rewrite IH. reflexivity.
Qed.

Lemma convert_eq allow gs :
  convert allow gs = do ops <- conv_spec allow 0 gs; Ok (ops, ps_rules allow gs).
Proof. unfold convert. rewrite convert_loop_spec. reflexivity. Qed.

(* when one instruction is converted (declarative) *)
Definition acceptable (g : qgate) (ps : bool) : Prop :=
  is_allowed (g_name g) = true /\
  match g_qubits g with
  | [_] => is_single (g_name g) = true \/ (g_param g = true /\ is_rot (g_name g) = true)
  | [q0; q1] => g_name g = Gswap \/ ((g_name g = Gcx \/ g_name g = Gcz) /\ q0 <> q1)
  | [q0; q1; q2] => (g_name g = Gccx \/ g_name g = Gccz) /\ ps = true /\
                    max3 q0 q1 q2 - min3 q0 q1 q2 = 2
  | _ => False
  end.

(* exception class raised for an instruction that is not acceptable *)
Definition refusal_class (g : qgate) : err :=
  match g_qubits g with
  | [_] => if is_allowed (g_name g) then (if g_param g then KeyError else IndexError) else ValueError
  | [q0; q1] => match g_name g with
                | Gcx | Gcz => if q0 =? q1 then OtherError (* no exception: the loop hangs *) else ValueError
                | _ => ValueError
                end
  | _ => ValueError
  end.

Lemma add_two_cx_ok g q0 q1 ps : (g = Gcx \/ g = Gcz) -> q0 <> q1 -> exists ops, add_two g q0 q1 ps = Ok ops.
Proof.
  intros Hg Hne. destruct (adjacent_spec q0 q1 Hne) as (a & b & sw & E & _).
  destruct Hg; subst g; unfold add_two; rewrite E; eexists; reflexivity.
Qed.

Lemma convert_gate_ok i g ps : acceptable g ps -> exists ops, convert_gate i g ps = Ok ops.
Proof.
  destruct g as [n qs p]. unfold acceptable, convert_gate. cbn [g_name g_qubits g_param].
  intros [Ha H]. rewrite Ha. cbn [negb].
  destruct qs as [|q0 [|q1 [|q2 [|q3 r]]]]; try contradiction.
  - unfold add_one. destruct H as [H|[H1 H2]].
    + rewrite H. eexists; reflexivity.
    + rewrite H1, H2. destruct (is_single n); eexists; reflexivity.
  - destruct H as [->|[Hn Hq]]; [eexists; reflexivity|]. apply add_two_cx_ok; auto.
  - destruct H as (Hn & -> & Hm). unfold add_three. rewrite Hm. cbn.
    destruct Hn; subst n; eexists; reflexivity.
Qed.

Lemma convert_gate_refuses i g ps : ~ acceptable g ps -> convert_gate i g ps = Err (refusal_class g).
Proof.
  destruct g as [n qs p]. unfold acceptable, convert_gate, refusal_class.
  cbn [g_name g_qubits g_param]. intros H.
  destruct (is_allowed n) eqn:Ha; cbn [negb].
  2:{ destruct qs as [|q0 [|q1 [|q2 [|q3 r]]]]; try reflexivity. destruct n; try discriminate; reflexivity. }
  destruct qs as [|q0 [|q1 [|q2 [|q3 r]]]]; try reflexivity.
  - unfold add_one. destruct (is_single n) eqn:S1; [exfalso; apply H; auto|].
    destruct p; cbn [negb]; [|reflexivity].
    destruct (is_rot n) eqn:R1; [exfalso; apply H; auto|reflexivity].
  - destruct n; try reflexivity; try (exfalso; apply H; split; auto; fail).
    + unfold add_two. destruct (Nat.eqb_spec q0 q1) as [->|Hne].
      * rewrite adjacent_diverges. reflexivity.
      * exfalso. apply H. split; auto.
    + unfold add_two. destruct (Nat.eqb_spec q0 q1) as [->|Hne].
      * rewrite adjacent_diverges. reflexivity.
      * exfalso. apply H. split; auto.
  - unfold add_three. destruct n; try reflexivity.
    all: destruct ps; cbn [negb]; [|reflexivity].
    all: destruct (Nat.eqb_spec (max3 q0 q1 q2 - min3 q0 q1 q2) 2) as [E|E]; cbn [negb]; [|reflexivity].
    all: exfalso; apply H; split; auto.
Qed.

Lemma convert_gate_ok_inv i g ps ops : convert_gate i g ps = Ok ops -> acceptable g ps.
Proof.
  destruct g as [n qs p]. unfold acceptable, convert_gate. cbn [g_name g_qubits g_param].
  destruct (is_allowed n) eqn:Ha; cbn [negb]; [|discriminate].
  destruct qs as [|q0 [|q1 [|q2 [|q3 r]]]]; try discriminate.
  - unfold add_one. destruct (is_single n) eqn:S1; [auto|].
    destruct p; cbn [negb]; [|discriminate].
    destruct (is_rot n) eqn:R1; [auto|discriminate].
  - unfold add_two. destruct n; try discriminate; intros H; split; auto.
    + right. split; auto. intros ->. rewrite adjacent_diverges in H. discriminate.
    + right. split; auto. intros ->. rewrite adjacent_diverges in H. discriminate.
  - unfold add_three. destruct n; try discriminate.
    all: destruct ps; cbn [negb]; [|discriminate].
    all: destruct (Nat.eqb_spec (max3 q0 q1 q2 - min3 q0 q1 q2) 2) as [E|E]; cbn [negb]; [|discriminate].
    all: intros _; auto.
Qed.

Lemma acceptable_dec g ps : acceptable g ps \/ ~ acceptable g ps.
Proof.
  destruct (convert_gate 0 g ps) eqn:E.
  - left. eapply convert_gate_ok_inv; eauto.
  - right. intros H. apply (convert_gate_ok 0) in H as [ops H]. congruence.
Qed.

(* every instruction of the program is acceptable with the flag it receives *)
Fixpoint all_acceptable (allow : bool) (gs : list qgate) : Prop :=
  match gs with
  | [] => True
  | g :: rest => acceptable g (allow && can_ps g rest) /\ all_acceptable allow rest
  end.

Lemma all_acceptable_spec allow gs :
  all_acceptable allow gs <->
  (forall pre g post, gs = pre ++ g :: post -> acceptable g (allow && can_ps g post)).
Proof.
  induction gs as [|g rest IH]; cbn [all_acceptable].
  - split; auto. intros _ [|? ?] ? ? H; discriminate.
  - rewrite IH. split.
    + intros [H1 H2] [|p pre] g' post E; cbn [app] in E; inversion E; subst; auto.
      eapply H2; eauto.
    + intros H. split; [apply (H [] g rest eq_refl)|].
      intros pre g' post ->. apply (H (g :: pre) g' post eq_refl).
Qed.

Lemma conv_spec_ok allow gs : forall i, all_acceptable allow gs -> exists ops, conv_spec allow i gs = Ok ops.
Proof.
  induction gs as [|g rest IH]; intros i H; cbn [conv_spec].
  - eexists; reflexivity.
  - destruct H as [H1 H2]. destruct (convert_gate_ok i _ _ H1) as [o1 E1].
    destruct (IH (S i) H2) as [o2 E2]. rewrite E1, E2. eexists; reflexivity.
Qed.

Lemma conv_spec_ok_inv allow gs : forall i ops, conv_spec allow i gs = Ok ops -> all_acceptable allow gs.
Proof.
  induction gs as [|g rest IH]; intros i ops H; cbn [conv_spec all_acceptable] in *; auto.
  destruct (convert_gate i g (allow && can_ps g rest)) as [o1|e] eqn:E1; [|discriminate].
  cbn [bind] in H. destruct (conv_spec allow (S i) rest) as [o2|e] eqn:E2; [|discriminate].
  split; [eapply convert_gate_ok_inv; eauto|eapply IH; eauto].
Qed.

(* the conversion succeeds exactly when every instruction is acceptable *)
Lemma convert_ok_iff allow gs :
  (exists r, convert allow gs = Ok r) <->
  (forall pre g post, gs = pre ++ g :: post -> acceptable g (allow && can_ps g post)).
Proof.
  rewrite <- all_acceptable_spec, convert_eq. split.
  - intros [r H]. destruct (conv_spec allow 0 gs) as [ops|e] eqn:E; [|discriminate].
    eapply conv_spec_ok_inv; eauto.
  - intros H. destruct (conv_spec_ok allow gs 0 H) as [ops E]. rewrite E. eexists; reflexivity.
Qed.

Lemma conv_spec_first_refusal allow pre g post : forall i,
  (forall pre' g' post', pre = pre' ++ g' :: post' ->
        acceptable g' (allow && can_ps g' (post' ++ g :: post))) ->
  ~ acceptable g (allow && can_ps g post) ->
  conv_spec allow i (pre ++ g :: post) = Err (refusal_class g).
Proof.
  induction pre as [|p pre IH]; intros i Hpre Hg; cbn [app conv_spec].
  - rewrite convert_gate_refuses by auto. reflexivity.
  - destruct (convert_gate_ok i p _ (Hpre [] p pre eq_refl)) as [o1 E1]. rewrite E1. cbn [bind].
    rewrite IH; auto. intros pre' g' post' ->. apply (Hpre (p :: pre') g' post' eq_refl).
Qed.

(* the exception is the one of the FIRST instruction that is not acceptable;
   nothing is returned *)
Lemma convert_first_refusal allow pre g post :
  (forall pre' g' post', pre = pre' ++ g' :: post' ->
        acceptable g' (allow && can_ps g' (post' ++ g :: post))) ->
  ~ acceptable g (allow && can_ps g post) ->
  convert allow (pre ++ g :: post) = Err (refusal_class g).
Proof.
  intros H1 H2. rewrite convert_eq, conv_spec_first_refusal; auto.
Qed.

(* an error is always raised by some instruction that is not acceptable *)
Lemma conv_spec_err allow gs : forall i e,
  conv_spec allow i gs = Err e ->
  exists pre g post, gs = pre ++ g :: post /\ ~ acceptable g (allow && can_ps g post) /\
                     e = refusal_class g.
Proof.
  induction gs as [|g rest IH]; intros i e H; cbn [conv_spec] in H; [discriminate|].
  destruct (acceptable_dec g (allow && can_ps g rest)) as [A|A].
  - destruct (convert_gate_ok i _ _ A) as [o1 E1]. rewrite E1 in H. cbn [bind] in H.
    destruct (conv_spec allow (S i) rest) as [o2|e2] eqn:E2; [discriminate|].
    inversion H; subst e2. destruct (IH _ _ E2) as (pre & g' & post & -> & Hn & He).
    exists (g :: pre), g', post. auto.
  - rewrite convert_gate_refuses in H by auto. inversion H. exists [], g, rest. auto.
Qed.

(* the refusals named in the property / DESIGN, all with ValueError *)
Definition refusable (allow : bool) (g : qgate) (post : list qgate) : Prop :=
  g_name g = Gother                                            (* unsupported gate *)
  \/ length (g_qubits g) = 0 \/ 3 < length (g_qubits g)        (* more than 3 qubits *)
  \/ (length (g_qubits g) = 3 /\
      (allow = false                                           (* 3-qubit gate, heralded-only mode *)
       \/ 2 <= count_touched post (g_qubits g)                 (* 3-qubit gate that may not be post-selected *)
       \/ (forall q0 q1 q2, g_qubits g = [q0; q1; q2] ->
             max3 q0 q1 q2 - min3 q0 q1 q2 <> 2)))             (* 3-qubit gate on non-adjacent qubits *)
  \/ (length (g_qubits g) = 2 /\ g_name g <> Gswap /\ g_name g <> Gcx /\ g_name g <> Gcz)
  \/ (length (g_qubits g) = 3 /\ g_name g <> Gccx /\ g_name g <> Gccz).

Lemma refusable_not_acceptable allow g post :
  refusable allow g post ->
  ~ acceptable g (allow && can_ps g post) /\ refusal_class g = ValueError.
Proof.
  destruct g as [n qs p]. unfold refusable, acceptable, refusal_class, can_ps, multib.
  cbn [g_name g_qubits g_param].
  intros [H|[H|[H|[H|[H|H]]]]].
  - subst n. split; [intros [Ha _]; discriminate|].
    destruct qs as [|q0 [|q1 [|q2 [|q3 r]]]]; reflexivity.
  - destruct qs; [|discriminate]. split; [intros [_ []]|reflexivity].
  - destruct qs as [|q0 [|q1 [|q2 [|q3 r]]]]; cbn [length] in H; try lia.
    split; [intros [_ []]|reflexivity].
  - destruct H as [L H]. destruct qs as [|q0 [|q1 [|q2 [|q3 r]]]]; try discriminate.
    split; [|reflexivity]. intros (_ & _ & Hps & Hm).
    destruct H as [->|[H|H]].
    + discriminate.
    + apply andb_true_iff in Hps as [_ Hps]. apply andb_true_iff in Hps as [_ Hps].
      apply Nat.leb_le in Hps. lia.
    + apply (H q0 q1 q2 eq_refl). exact Hm.
  - destruct H as (L & H1 & H2 & H3). destruct qs as [|q0 [|q1 [|q2 [|q3 r]]]]; try discriminate.
    split.
    + intros [_ [A|[[A|A] _]]]; congruence.
    + destruct n; try reflexivity; congruence.
  - destruct H as (L & H1 & H2). destruct qs as [|q0 [|q1 [|q2 [|q3 r]]]]; try discriminate.
    split; [|reflexivity]. intros [_ [[A|A] _]]; congruence.
Qed.

(* refusals: if every earlier instruction is acceptable and instruction g is in
   one of the refusal conditions, the converter raises ValueError *)
Lemma refusals allow pre g post :
  (forall pre' g' post', pre = pre' ++ g' :: post' ->
        acceptable g' (allow && can_ps g' (post' ++ g :: post))) ->
  refusable allow g post ->
  convert allow (pre ++ g :: post) = Err ValueError.
Proof.
  intros Hpre Hr. destruct (refusable_not_acceptable allow g post Hr) as [Hn Hc].
  rewrite <- Hc. apply convert_first_refusal; auto.
Qed.

(* whatever comes first, a program containing a refusable instruction is never converted *)
Lemma refusable_never_converted allow pre g post :
  refusable allow g post -> exists e, convert allow (pre ++ g :: post) = Err e.
Proof.
  intros Hr. destruct (convert allow (pre ++ g :: post)) as [r|e] eqn:E; [|eauto].
  exfalso. assert (H : exists r, convert allow (pre ++ g :: post) = Ok r) by eauto.
  rewrite convert_ok_iff in H. specialize (H pre g post eq_refl).
  apply (refusable_not_acceptable allow g post Hr). exact H.
Qed.

(* programs as produced by qiskit's own gate methods: names carry their arity,
   rotations carry their angle, qubits of an instruction are distinct *)
Definition standard (g : qgate) : Prop :=
  (length (g_qubits g) = 1 -> is_allowed (g_name g) = true ->
       (is_single (g_name g) = true \/ is_rot (g_name g) = true) /\
       (is_rot (g_name g) = true -> g_param g = true)) /\
  NoDup (g_qubits g).

Lemma standard_refusal_class g ps : standard g -> ~ acceptable g ps -> refusal_class g = ValueError.
Proof.
  destruct g as [n qs p]. unfold standard, acceptable, refusal_class. cbn [g_name g_qubits g_param].
  intros [H1 H2] Hn.
  destruct qs as [|q0 [|q1 [|q2 [|q3 r]]]]; try reflexivity.
  - destruct (is_allowed n) eqn:Ha; [|reflexivity]. exfalso. apply Hn. split; auto.
    destruct (H1 eq_refl eq_refl) as [[S1|R1] Hp]; auto.
  - assert (q0 <> q1) by (inversion H2; subst; cbn in *; intuition).
    destruct n; try reflexivity; destruct (Nat.eqb_spec q0 q1); try reflexivity; contradiction.
Qed.

(* for standard programs every refusal is a ValueError *)
Lemma convert_error_is_ValueError allow gs e :
  Forall standard gs -> convert allow gs = Err e -> e = ValueError.
Proof.
  intros Hs H. rewrite convert_eq in H.
  destruct (conv_spec allow 0 gs) as [ops|e'] eqn:E; [discriminate|]. inversion H; subst e'.
  destruct (conv_spec_err _ _ _ _ E) as (pre & g & post & -> & Hn & ->).
  eapply standard_refusal_class; eauto.
  rewrite Forall_forall in Hs. apply Hs. apply in_or_app. right. left. reflexivity.
Qed.

(* ------------------------------------------------------------------ *)
(* D. well-formedness of the emitted program                            *)
(* ------------------------------------------------------------------ *)
(* [nq] = number of qubits of the circuit (the lightworks circuit has 2*nq modes
   as seen by Circuit.add); [gs] = the whole source program *)
Definition op_wf (nq : nat) (gs : list qgate) (o : eop) : Prop :=
  match o with
  | EGate1 g i m =>
      exists q, m = 2 * q /\ q < nq /\
                (is_single g = true \/
                 (is_rot g = true /\ exists gi, nth_error gs i = Some gi /\ g_name gi = g /\ g_param gi = true))
  | ESwap r a0 a1 b0 b1 =>
      exists qa qb, a0 = 2 * qa /\ a1 = 2 * qa + 1 /\ b0 = 2 * qb /\ b1 = 2 * qb + 1 /\
                    qa < nq /\ qb < nq /\ (r = true -> qa <> qb)
  | ECZ _ m => exists q, m = 2 * q /\ q + 1 < nq
  | ECX _ t m => exists q, m = 2 * q /\ q + 1 < nq /\ t <= 1
  | ECCZ m => exists q, m = 2 * q /\ q + 2 < nq
  | ECCX t m => exists q, m = 2 * q /\ q + 2 < nq /\ t <= 2
  end.

Definition in_range (nq : nat) (g : qgate) : Prop := forall q, In q (g_qubits g) -> q < nq.

Lemma convert_gate_wf nq gs i g ps ops :
  nth_error gs i = Some g -> in_range nq g ->
  convert_gate i g ps = Ok ops -> Forall (op_wf nq gs) ops.
Proof.
  intros Hi Hr H. pose proof (convert_gate_ok_inv _ _ _ _ H) as [Ha Hacc].
  destruct g as [n qs p]. unfold convert_gate, in_range in *. cbn [g_name g_qubits g_param] in *.
  rewrite Ha in H. cbn [negb] in H.
  destruct qs as [|q0 [|q1 [|q2 [|q3 r]]]]; try contradiction.
  - assert (q0 < nq) by (apply Hr; left; auto).
    unfold add_one in H. destruct (is_single n) eqn:S1.
    + inversion H; subst. repeat constructor. exists q0. unfold mode0. auto.
    + destruct Hacc as [?|[-> R1]]; [congruence|]. cbn [negb] in H. rewrite R1 in H.
      inversion H; subst. repeat constructor. exists q0. unfold mode0. repeat split; auto.
      right. split; auto. eexists; split; [exact Hi|]. auto.
  - assert (q0 < nq) by (apply Hr; left; auto).
    assert (q1 < nq) by (apply Hr; right; left; auto).
    destruct Hacc as [->|[Hn Hne]].
    + inversion H; subst. repeat constructor. exists q0, q1. unfold mode0, mode1.
      repeat split; auto. discriminate.
    + destruct (adjacent_spec q0 q1 Hne) as (a & b & sw & E & Hd & _ & _ & _ & _ & Hlo & Hhi & Hsw & _).
      unfold absdiff in Hd.
      assert (Hops : ops = map (fun p => emit_swap true (fst p) (snd p)) sw ++
                           (match n with Gcx => ECX (negb ps) (b - Nat.min a b) (mode0 (Nat.min a b))
                                       | _ => ECZ (negb ps) (mode0 (Nat.min a b)) end) ::
                           map (fun p => emit_swap true (fst p) (snd p)) sw).
      { destruct Hn; subst n; unfold add_two in H; rewrite E in H; inversion H; reflexivity. }
      assert (Hs : Forall (op_wf nq gs) (map (fun p => emit_swap true (fst p) (snd p)) sw)).
      { apply Forall_forall. intros o Ho. apply in_map_iff in Ho as (pr & <- & Hp).
        destruct (Hsw pr Hp) as (P1 & P2 & P3). exists (fst pr), (snd pr). unfold mode0, mode1.
        repeat split; auto; lia. }
      rewrite Hops. apply Forall_app. split; auto. constructor; auto.
      destruct Hn; subst n; exists (Nat.min a b); unfold mode0; repeat split; lia.
  - destruct Hacc as (Hn & -> & Hm).
    assert (q0 < nq) by (apply Hr; left; auto).
    assert (q1 < nq) by (apply Hr; right; left; auto).
    assert (q2 < nq) by (apply Hr; right; right; left; auto).
    unfold add_three in H. rewrite Hm in H. cbn in H. unfold max3, min3 in *.
    destruct Hn; subst n; inversion H; subst; repeat constructor;
      exists (Nat.min q0 (Nat.min q1 q2)); unfold mode0; repeat split; lia.
Qed.

Lemma conv_spec_wf nq allow rest : forall pre ops,
  Forall (in_range nq) rest ->
  conv_spec allow (length pre) rest = Ok ops -> Forall (op_wf nq (pre ++ rest)) ops.
Proof.
  induction rest as [|g rest IH]; intros pre ops Hr H; cbn [conv_spec] in H.
  - inversion H. constructor.
  - destruct (convert_gate (length pre) g (allow && can_ps g rest)) as [o1|e] eqn:E1; [|discriminate].
    cbn [bind] in H. destruct (conv_spec allow (S (length pre)) rest) as [o2|e] eqn:E2; [|discriminate].
    inversion H; subst ops. inversion Hr; subst. apply Forall_app. split.
    + eapply convert_gate_wf; eauto. rewrite nth_error_app2, Nat.sub_diag by lia. reflexivity.
    + specialize (IH (pre ++ [g]) o2). rewrite app_length, Nat.add_1_r, <- app_assoc in IH.
      apply IH; auto.
Qed.

(* every emitted operation addresses existing modes of the 2*nq-mode circuit in
   the shape the gate library expects; the rules name distinct existing qubits *)
Lemma emitted_wf nq allow gs ops rules :
  Forall (in_range nq) gs ->
  convert allow gs = Ok (ops, rules) ->
  Forall (op_wf nq gs) ops /\
  (forall l, rules = Some l -> NoDup l /\ l <> [] /\ forall q, In q l <-> touched gs q) /\
  (rules = None -> allow = false \/ forall q, ~ touched gs q).
Proof.
  intros Hr H. rewrite convert_eq in H.
  destruct (conv_spec allow 0 gs) as [o|e] eqn:E; [|discriminate]. inversion H; subst o rules.
  split; [apply (conv_spec_wf nq allow gs [] ops Hr E)|].
  unfold ps_rules. destruct allow.
  - destruct (ps_qubits (snd (analyze gs))) as [|x l'] eqn:P.
    + split; [discriminate|]. intros _. right. intros q Hq. apply In_ps_qubits in Hq.
      rewrite P in Hq. destruct Hq.
    + split; [|discriminate]. intros l Hl. inversion Hl; subst l. rewrite <- P.
      split; [apply NoDup_nodup|]. split; [rewrite P; discriminate|]. intros q. apply In_ps_qubits.
  - split; [discriminate|auto].
Qed.

(* heralded-only mode: only heralded two-qubit gates, no three-qubit gate, no rule *)
Definition op_heralded (o : eop) : Prop :=
  match o with
  | ECZ h _ | ECX h _ _ => h = true
  | ECCZ _ | ECCX _ _ => False
  | _ => True
  end.

Lemma convert_gate_heralded i g ops : convert_gate i g false = Ok ops -> Forall op_heralded ops.
Proof.
  destruct g as [n qs p]. unfold convert_gate. cbn [g_name g_qubits g_param].
  destruct (is_allowed n); cbn [negb]; [|discriminate].
  destruct qs as [|q0 [|q1 [|q2 [|q3 r]]]]; try discriminate.
  - unfold add_one. destruct (is_single n); [intros H; inversion H; repeat constructor|].
    destruct p; cbn [negb]; [|discriminate]. destruct (is_rot n); [|discriminate].
    intros H; inversion H; repeat constructor.
  - unfold add_two. destruct n; try discriminate.
    3: intros H; inversion H; repeat constructor.
    all: destruct (convert_two_qubits_to_adjacent q0 q1) as [[[a b] sw]|]; [|discriminate].
    all: intros H; inversion H; apply Forall_app; split;
         [|constructor; [reflexivity|]]; apply Forall_forall; intros o Ho;
         apply in_map_iff in Ho as (pr & <- & _); exact I.
  - unfold add_three. destruct n; discriminate.
Qed.

Lemma heralded_only gs ops rules :
  convert false gs = Ok (ops, rules) -> rules = None /\ Forall op_heralded ops.
Proof.
  rewrite convert_eq. destruct (conv_spec false 0 gs) as [o|e] eqn:E; [|discriminate].
  intros H; inversion H; subst. split; [reflexivity|].
  clear H. revert E. generalize 0. revert ops.
  induction gs as [|g rest IH]; intros ops i H; cbn [conv_spec andb] in H.
  - inversion H. constructor.
  - destruct (convert_gate i g false) as [o1|e] eqn:E1; [|discriminate]. cbn [bind] in H.
    destruct (conv_spec false (S i) rest) as [o2|e] eqn:E2; [|discriminate].
    inversion H. apply Forall_app. split; [eapply convert_gate_heralded; eauto|eapply IH; eauto].
Qed.
(* ------------------------------------------------------------------ *)
(* F. photon-count abstraction of post-selection                        *)
(* ------------------------------------------------------------------ *)
(* State: number of photons in the two modes of every qubit.  Dual-rail states
   have one photon per qubit.  Assumptions of the abstraction (trusted, DESIGN C12):
   - an instruction on < 2 qubits never changes a count;
   - a multi-qubit instruction changes counts on its own qubits only;
   - a heralded (or deterministic: swap) implementation maps "one photon on each
     of my qubits" to the same (its failures are rejected by its own heralds);
   - a post-selected implementation fed with one photon per qubit returns ANY
     distribution of these photons over its qubits (success = one each);
   - fed with anything else, a multi-qubit gate may return anything on its qubits. *)
Definition counts := nat -> nat.
Definition all_ones (c : counts) : Prop := forall q, c q = 1.
Definition ones_on (qs : list nat) (c : counts) : Prop := forall q, In q qs -> c q = 1.
Definition total (qs : list nat) (c : counts) : nat := list_sum (map c qs).

Definition step (g : qgate) (ps : bool) (c c' : counts) : Prop :=
  if multib g then
    (forall q, ~ In q (g_qubits g) -> c' q = c q) /\
    (ones_on (g_qubits g) c ->
       if ps then total (g_qubits g) c' = length (g_qubits g) else ones_on (g_qubits g) c')
  else forall q, c' q = c q.

(* an execution: the list of states after each instruction *)
Inductive exec : list (qgate * bool) -> counts -> list counts -> Prop :=
| exec_nil c : exec [] c []
| exec_cons g f rest c c' tr : step g f c c' -> exec rest c' tr -> exec ((g, f) :: rest) c (c' :: tr).

(* the final rules: one photon on every qubit used by a multi-qubit instruction *)
Definition accepted (gfs : list (qgate * bool)) (c : counts) : Prop :=
  forall q, touched (map fst gfs) q -> c q = 1.

(* each post-selected gate has at most one qubit used by a later multi-qubit gate *)
Definition ps_safe (gfs : list (qgate * bool)) : Prop :=
  forall pre g post, gfs = pre ++ (g, true) :: post -> multib g = true ->
                     count_touched (map fst post) (g_qubits g) <= 1.

Definition distinct_qubits (gfs : list (qgate * bool)) : Prop :=
  Forall (fun gf => NoDup (g_qubits (fst gf))) gfs.

Lemma list_sum_cons x l : list_sum (x :: l) = x + list_sum l.
Proof. reflexivity. Qed.

Lemma last_cons {A} (x : A) t d : last (x :: t) d = last t x.
Proof. revert x. induction t as [|y t IH]; intros x; [reflexivity|]. cbn [last] in *. destruct t; auto. Qed.

Lemma total_ones qs c : ones_on qs c -> total qs c = length qs.
Proof.
  unfold total, ones_on. induction qs as [|q qs IH]; intros H; [reflexivity|].
  rewrite map_cons, list_sum_cons. cbn [length].
  rewrite H by (left; auto). rewrite IH; auto. intros; apply H; right; auto.
Qed.

Lemma total_bad qs c : total qs c <> length qs -> exists q, In q qs /\ c q <> 1.
Proof.
  unfold total. induction qs as [|q qs IH]; [cbn; congruence|].
  rewrite map_cons, list_sum_cons. cbn [length In]. intros H.
  destruct (Nat.eq_dec (c q) 1) as [E|E].
  - destruct IH as (x & Hx & Hc); [lia|]. exists x; auto.
  - exists q; auto.
Qed.

Lemma ones_on_dec qs c : ones_on qs c \/ exists q, In q qs /\ c q <> 1.
Proof.
  unfold ones_on. induction qs as [|q qs IH].
  - left. intros ? [].
  - destruct (Nat.eq_dec (c q) 1) as [E|E]; [|right; exists q; split; [left|]; auto].
    destruct IH as [IH|(x & Hx & Hc)]; [left|right; exists x; split; [right|]; auto].
    intros y [<-|Hy]; auto.
Qed.

(* photon conservation: a failure leaves at least TWO qubits with a wrong count *)
Lemma two_bad qs c :
  NoDup qs -> total qs c = length qs -> (exists q, In q qs /\ c q <> 1) ->
  exists q1 q2, q1 <> q2 /\ In q1 qs /\ In q2 qs /\ c q1 <> 1 /\ c q2 <> 1.
Proof.
  unfold total. induction qs as [|q qs IH]; intros Hnd Ht (x & Hx & Hc); [destruct Hx|].
  inversion Hnd as [|? ? Hq Hnd']; subst. rewrite map_cons, list_sum_cons in Ht. cbn [length] in Ht.
  destruct (Nat.eq_dec (c q) 1) as [E|E].
  - destruct Hx as [<-|Hx]; [congruence|].
    destruct IH as (q1 & q2 & H1 & H2 & H3 & H4 & H5); auto; [lia|exists x; auto|].
    exists q1, q2. repeat split; auto; right; auto.
  - destruct (total_bad qs c) as (y & Hy & Hcy); [unfold total; lia|].
    exists q, y. repeat split; auto; [intros ->; contradiction|left; auto|right; auto].
Qed.

Lemma touched_cons g l q : touched l q -> touched (g :: l) q.
Proof. intros (h & Hh & H). exists h. split; [right|]; auto. Qed.

Lemma touched_head g l q : multib g = true -> In q (g_qubits g) -> touched (g :: l) q.
Proof. intros Hm Hq. exists g. split; [left; auto|]. split; auto. apply Nat.leb_le; exact Hm. Qed.

(* a qubit that no later multi-qubit instruction uses keeps its count *)
Lemma exec_untouched gfs : forall c tr q,
  exec gfs c tr -> ~ touched (map fst gfs) q -> last tr c q = c q.
Proof.
  induction gfs as [|[g f] rest IH]; intros c tr q He Hq; inversion He; subst; [reflexivity|].
  match goal with H : step _ _ _ _ |- _ => rename H into Hs end.
  match goal with H : exec rest _ _ |- _ => rename H into Hr end.
  assert (Hc : c' q = c q).
  { unfold step in Hs. destruct (multib g) eqn:M; [|apply Hs].
    apply (proj1 Hs). intros Hin. apply Hq. cbn [map fst]. apply touched_head; auto. }
  rewrite last_cons, (IH c' tr0 q Hr), Hc; auto.
  intros Ht. apply Hq. cbn [map fst]. apply touched_cons; auto.
Qed.

Lemma ps_safe_tail gf rest : ps_safe (gf :: rest) -> ps_safe rest.
Proof. intros H pre g post -> Hm. apply (H (gf :: pre) g post eq_refl Hm). Qed.

Lemma not_both_touched post qs q1 q2 :
  NoDup qs -> count_touched post qs <= 1 -> q1 <> q2 -> In q1 qs -> In q2 qs ->
  ~ touched post q1 \/ ~ touched post q2.
Proof.
  intros Hnd Hc Hne H1 H2. rewrite count_touched_spec in Hc.
  apply (In_nth _ _ 0) in H1 as (i & Hi & Ei). apply (In_nth _ _ 0) in H2 as (j & Hj & Ej).
  destruct (touchedb post q1) eqn:T1; [|left; rewrite <- touchedb_spec; congruence].
  right. intros T2. apply touchedb_spec in T1.
  assert (i = j) by (apply Hc; auto; congruence). subst j. congruence.
Qed.

(* SOUNDNESS: if every post-selected gate has at most one qubit used later, then
   every execution from a dual-rail state that is ACCEPTED by the final rules had
   one photon on every qubit after EVERY instruction: no post-selected gate failed. *)
Lemma ps_sound gfs : forall c tr,
  distinct_qubits gfs -> ps_safe gfs ->
  all_ones c -> exec gfs c tr -> accepted gfs (last tr c) ->
  Forall all_ones tr.
Proof.
  induction gfs as [|[g f] rest IH]; intros c tr Hd Hs Hc He Ha; inversion He; subst; [constructor|].
  match goal with H : step _ _ _ _ |- _ => rename H into Hst end.
  match goal with H : exec rest _ _ |- _ => rename H into Hr end.
  inversion Hd as [|? ? Hnd Hd']; subst. cbn [fst] in Hnd.
  rewrite last_cons in Ha.
  assert (Hc' : all_ones c').
  { unfold step in Hst. destruct (multib g) eqn:M; [|intros q; rewrite Hst; apply Hc].
    destruct Hst as [Hoff Hon].
    assert (Hin : ones_on (g_qubits g) c) by (intros q _; apply Hc).
    specialize (Hon Hin).
    assert (Hones : ones_on (g_qubits g) c' -> all_ones c').
    { intros Ho q. destruct (in_dec Nat.eq_dec q (g_qubits g)); [apply Ho; auto|].
      rewrite Hoff by auto. apply Hc. }
    destruct f; [|auto].
    destruct (ones_on_dec (g_qubits g) c') as [Ho|Hbad]; [auto|exfalso].
    destruct (two_bad _ _ Hnd Hon Hbad) as (q1 & q2 & Hne & I1 & I2 & B1 & B2).
    assert (Hcnt : count_touched (map fst rest) (g_qubits g) <= 1) by (apply (Hs [] g rest eq_refl M)).
    destruct (not_both_touched _ _ q1 q2 Hnd Hcnt Hne I1 I2) as [U|U].
    - apply B1. rewrite <- (exec_untouched rest c' tr0 q1 Hr U). apply Ha.
      cbn [map fst]. apply touched_head; auto.
    - apply B2. rewrite <- (exec_untouched rest c' tr0 q2 Hr U). apply Ha.
      cbn [map fst]. apply touched_head; auto. }
  constructor; auto.
  apply (IH c' tr0); auto.
  - eapply ps_safe_tail; eauto.
  - intros q Hq. apply Ha. cbn [map fst]. apply touched_cons; auto.
Qed.

(* ---- exactness: a post-selected gate with two qubits used later can fail unnoticed *)
(* the ideal execution: nothing ever changes *)
Lemma exec_ideal gfs : forall c, all_ones c -> exec gfs c (map (fun _ => c) gfs).
Proof.
  induction gfs as [|[g f] rest IH]; intros c Hc; cbn [map]; constructor; auto.
  unfold step. destruct (multib g); [|auto]. split; [auto|]. intros Ho.
  destruct f; [apply total_ones|]; auto.
Qed.

(* later multi-qubit gates reset their own qubits to one photon each *)
Definition reset (g : qgate) (c : counts) : counts :=
  fun q => if multib g && memb q (g_qubits g) then 1 else c q.
Fixpoint reset_trace (gfs : list (qgate * bool)) (c : counts) : list counts :=
  match gfs with
  | [] => []
  | (g, _) :: rest => reset g c :: reset_trace rest (reset g c)
  end.

Lemma step_reset g f c : step g f c (reset g c).
Proof.
  unfold step, reset. destruct (multib g) eqn:M; cbn [andb]; [|auto]. split.
  - intros q Hq. destruct (memb q (g_qubits g)) eqn:E; [|reflexivity].
    apply memb_In in E. contradiction.
  - intros _.
    assert (Ho : ones_on (g_qubits g) (fun q => if memb q (g_qubits g) then 1 else c q)).
    { intros q Hq. apply memb_In in Hq. rewrite Hq. reflexivity. }
    destruct f; [apply total_ones|]; exact Ho.
Qed.

Lemma exec_reset gfs : forall c, exec gfs c (reset_trace gfs c).
Proof.
  induction gfs as [|[g f] rest IH]; intros c; cbn [reset_trace]; constructor; auto using step_reset.
Qed.

Lemma reset_trace_last gfs : forall c q,
  last (reset_trace gfs c) c q = if touchedb (map fst gfs) q then 1 else c q.
Proof.
  induction gfs as [|[g f] rest IH]; intros c q; [reflexivity|].
  cbn [reset_trace map fst touchedb existsb]. fold (touchedb (map fst rest) q).
  rewrite last_cons, IH. unfold reset.
  destruct (multib g && memb q (g_qubits g)); cbn [orb]; [destruct (touchedb (map fst rest) q)|]; reflexivity.
Qed.

Lemma count_touched_two post qs :
  NoDup qs -> 2 <= count_touched post qs ->
  exists q1 q2, q1 <> q2 /\ In q1 qs /\ In q2 qs /\ touched post q1 /\ touched post q2.
Proof.
  unfold count_touched. intros Hnd H.
  assert (Hnf : NoDup (filter (touchedb post) qs)) by (apply NoDup_filter; auto).
  destruct (filter (touchedb post) qs) as [|a [|b l]] eqn:F; cbn [length] in H; try lia.
  assert (Ha : In a (filter (touchedb post) qs)) by (rewrite F; left; auto).
  assert (Hb : In b (filter (touchedb post) qs)) by (rewrite F; right; left; auto).
  apply filter_In in Ha as [A1 A2]. apply filter_In in Hb as [B1 B2].
  exists a, b. repeat split; auto; try (apply touchedb_spec; auto).
  inversion Hnf; subst. intros ->. apply H2. left; auto.
Qed.

Lemma last_default {A} (l : list A) d d' : l <> [] -> last l d = last l d'.
Proof.
  induction l as [|x l IH]; [congruence|]. intros _. rewrite !last_cons. reflexivity.
Qed.

Lemma last_app_ne {A} (l1 l2 : list A) d : l2 <> [] -> last (l1 ++ l2) d = last l2 d.
Proof.
  intros H. induction l1 as [|x l1 IH]; [reflexivity|]. cbn [app]. rewrite last_cons.
  rewrite (last_default _ x d); [exact IH|]. destruct l1; cbn [app]; [exact H|discriminate].
Qed.

Lemma exec_app l1 : forall l2 c t1 t2,
  exec l1 c t1 -> exec l2 (last t1 c) t2 -> exec (l1 ++ l2) c (t1 ++ t2).
Proof.
  induction l1 as [|[g f] l1 IH]; intros l2 c t1 t2 H1 H2; inversion H1; subst; cbn [app]; auto.
  constructor; auto. apply IH; auto.
  rewrite last_cons in H2. exact H2.
Qed.

(* EXACTNESS: if some post-selected gate has two qubits used by later multi-qubit
   gates, there is an execution from the dual-rail state in which that gate FAILS
   (two photons on one qubit, none on another) and which ends with one photon on
   every qubit, hence is accepted by any rules. *)
Lemma ps_unsafe_witness pre g post :
  NoDup (g_qubits g) -> multib g = true ->
  2 <= count_touched (map fst post) (g_qubits g) ->
  exists tr cbad,
    exec (pre ++ (g, true) :: post) (fun _ => 1) tr /\
    In cbad tr /\ ~ all_ones cbad /\
    all_ones (last tr (fun _ => 1)).
Proof.
  intros Hnd M H2.
  destruct (count_touched_two _ _ Hnd H2) as (q1 & q2 & Hne & I1 & I2 & T1 & T2).
  set (c1 := (fun _ : nat => 1) : counts).
  set (cbad := (fun q => if q =? q1 then 2 else if q =? q2 then 0 else 1) : counts).
  exists (map (fun _ => c1) pre ++ cbad :: reset_trace post cbad), cbad.
  assert (Hl1 : last (map (fun _ => c1) pre) c1 = c1).
  { clear. induction pre as [|x pre IH]; [reflexivity|]. cbn [map]. rewrite last_cons. exact IH. }
  split; [|split; [|split]].
  - apply exec_app; [apply exec_ideal; intros q; reflexivity|]. match goal with |- exec _ ?x _ => replace x with c1 by (symmetry; exact Hl1) end.
    constructor; [|apply exec_reset].
    unfold step. rewrite M. split.
    + intros q Hq. unfold cbad, c1.
      destruct (Nat.eqb_spec q q1); [subst; contradiction|].
      destruct (Nat.eqb_spec q q2); [subst; contradiction|reflexivity].
    + intros _. unfold total. clear - Hnd Hne I1 I2.
      (* the sum of cbad over a duplicate-free list containing q1 and q2 *)
      assert (G : forall qs, NoDup qs ->
                 list_sum (map cbad qs) + (if in_dec Nat.eq_dec q2 qs then 1 else 0)
                 = length qs + (if in_dec Nat.eq_dec q1 qs then 1 else 0)).
      { induction qs as [|q qs IH]; intros Hn; [reflexivity|]. inversion Hn; subst.
        specialize (IH H2). rewrite map_cons, list_sum_cons. cbn [length]. unfold cbad at 1.
        destruct (in_dec Nat.eq_dec q2 (q :: qs)) as [A|A];
        destruct (in_dec Nat.eq_dec q1 (q :: qs)) as [B|B];
        destruct (in_dec Nat.eq_dec q2 qs) as [A'|A'];
        destruct (in_dec Nat.eq_dec q1 qs) as [B'|B'];
        destruct (Nat.eqb_spec q q1); destruct (Nat.eqb_spec q q2); subst;
        cbn [In] in *; try lia; try tauto; try congruence;
        try (exfalso; apply A; tauto); try (exfalso; apply B; tauto). }
      specialize (G _ Hnd).
      destruct (in_dec Nat.eq_dec q2 (g_qubits g)); [|contradiction].
      destruct (in_dec Nat.eq_dec q1 (g_qubits g)); [|contradiction]. lia.
  - apply in_or_app. right. left. reflexivity.
  - intros Hall. specialize (Hall q1). unfold cbad in Hall. rewrite Nat.eqb_refl in Hall. discriminate.
  - intros q.
    assert (E : last (map (fun _ => c1) pre ++ cbad :: reset_trace post cbad) c1
                = last (reset_trace post cbad) cbad).
    { rewrite last_app_ne by discriminate. apply last_cons. }
    rewrite E, reset_trace_last. destruct (touchedb (map fst post) q) eqn:T; [reflexivity|].
    unfold cbad. destruct (Nat.eqb_spec q q1) as [->|].
    + apply touchedb_spec in T1. congruence.
    + destruct (Nat.eqb_spec q q2) as [->|]; [apply touchedb_spec in T2; congruence|reflexivity].
Qed.

(* post_selection_sound_abstract: in the abstraction, "every accepted execution is
   failure-free" holds IF AND ONLY IF each post-selected gate has at most one
   qubit used by a later multi-qubit gate *)
Lemma post_selection_sound_abstract gfs :
  distinct_qubits gfs ->
  ((forall c tr, all_ones c -> exec gfs c tr -> accepted gfs (last tr c) -> Forall all_ones tr)
   <-> ps_safe gfs).
Proof.
  intros Hd. split.
  - intros H pre g post -> M.
    destruct (le_lt_dec (count_touched (map fst post) (g_qubits g)) 1) as [L|L]; [exact L|exfalso].
    assert (Hnd : NoDup (g_qubits g)).
    { unfold distinct_qubits in Hd. rewrite Forall_forall in Hd.
      apply (Hd (g, true)). apply in_or_app. right. left. reflexivity. }
    destruct (ps_unsafe_witness pre g post Hnd M L) as (tr & cbad & He & Hin & Hbad & Hlast).
    specialize (H (fun _ => 1) tr (fun _ => eq_refl) He (fun q _ => Hlast q)).
    rewrite Forall_forall in H. apply Hbad. apply H. exact Hin.
  - intros Hs c tr Hc He Ha. eapply ps_sound; eauto.
Qed.

(* the (repaired) analyzer's flags always satisfy the condition *)
Lemma map_fst_combine_flags allow gs : map fst (combine gs (ps_flags allow gs)) = gs.
Proof.
  assert (L : length (ps_flags allow gs) = length gs).
  { unfold ps_flags. destruct allow; [apply analyze_length|apply repeat_length]. }
  revert L. generalize (ps_flags allow gs). induction gs as [|x r IH]; intros [|f fl] L;
    cbn in *; try discriminate; auto. f_equal. apply IH. lia.
Qed.

Lemma ps_flags_safe allow gs : ps_safe (combine gs (ps_flags allow gs)).
Proof.
  induction gs as [|g rest IH]; intros pre h post E M.
  - destruct pre; discriminate.
  - rewrite ps_flags_cons in E. cbn [combine] in E. destruct pre as [|p pre]; cbn [app] in E.
    + injection E as E1 E2 E3. subst h post. rewrite map_fst_combine_flags.
      apply andb_true_iff in E2 as [_ E2]. unfold can_ps in E2.
      apply andb_true_iff in E2 as [_ E2]. apply Nat.leb_le; exact E2.
    + injection E as E1 E2. apply (IH pre h post); auto.
Qed.

(* consequence for the converter: with the flags it computes and the rules it
   returns, an accepted execution is failure-free *)
Lemma converter_post_selection_sound allow gs c tr :
  Forall (fun g => NoDup (g_qubits g)) gs ->
  all_ones c -> exec (combine gs (ps_flags allow gs)) c tr ->
  (forall q, touched gs q -> last tr c q = 1) ->
  Forall all_ones tr.
Proof.
  intros Hd Hc He Ha. eapply ps_sound; eauto.
  - unfold distinct_qubits. apply Forall_forall. intros [g f] Hin. cbn [fst].
    rewrite Forall_forall in Hd. apply Hd. apply in_combine_l in Hin. exact Hin.
  - apply ps_flags_safe.
  - intros q Hq. apply Ha. rewrite map_fst_combine_flags in Hq. exact Hq.
Qed.

(* ---- the pinned tree's rule: can_ps = not all(q in has_ps for q in gate) *)
Definition can_ps_all (g : qgate) (post : list qgate) : bool :=
  multib g && negb (forallb (touchedb post) (g_qubits g)).
Fixpoint flags_all (gs : list qgate) : list bool :=
  match gs with [] => [] | g :: rest => can_ps_all g rest :: flags_all rest end.

(* F2: ccz(0,1,2); cz(0,1) — the old rule post-selects the ccz although two of its
   qubits meet again in the cz; in the abstraction a failure of the ccz is accepted *)
Definition f2_witness : list qgate := [mkG Gccz [0; 1; 2] false; mkG Gcz [0; 1] false].

Lemma all_rule_refuted :
  flags_all f2_witness = [true; true] /\
  ~ ps_safe (combine f2_witness (flags_all f2_witness)) /\
  exists tr cbad, exec (combine f2_witness (flags_all f2_witness)) (fun _ => 1) tr /\
                  In cbad tr /\ ~ all_ones cbad /\ all_ones (last tr (fun _ => 1)).
Proof.
  split; [reflexivity|]. split.
  - intros H. specialize (H [] (mkG Gccz [0; 1; 2] false) [(mkG Gcz [0; 1] false, true)] eq_refl eq_refl).
    vm_compute in H. lia.
  - apply (ps_unsafe_witness [] (mkG Gccz [0; 1; 2] false) [(mkG Gcz [0; 1] false, true)]).
    + repeat constructor; cbn; intuition; discriminate.
    + reflexivity.
    + vm_compute. lia.
Qed.

(* for instructions on exactly two qubits both rules coincide *)
Lemma all_rule_two_qubits g post :
  length (g_qubits g) = 2 -> can_ps_all g post = can_ps g post.
Proof.
  unfold can_ps_all, can_ps, count_touched, multib. intros L.
  destruct (g_qubits g) as [|a [|b [|]]]; try discriminate. cbn.
  destruct (touchedb post a), (touchedb post b); reflexivity.
Qed.

(* ------------------------------------------------------------------ *)
(* E. the emitted program, read at qubit level, is the source program   *)
(* ------------------------------------------------------------------ *)
(* Any interpretation of named gates on ordered qubit lists ([act]) and of the
   exchange of two qubits' mode pairs ([sw]) that satisfies the relabelling laws
   below (they hold for operators on a tensor product; that the lightworks gate
   objects realise such an interpretation is C13 + C02 + part F).  The theorem:
   running the emitted operations equals running the source instructions, so
   dispatch, mode arithmetic, target selection and swap insertion are right. *)
Ltac eqbs_in :=
  repeat (match goal with
          | |- context [?a =? ?b] =>
              lazymatch a with context [if _ then _ else _] => fail | _ => idtac end;
              lazymatch b with context [if _ then _ else _] => fail | _ => idtac end;
              destruct (Nat.eqb_spec a b)
          end; cbv iota).

Section Denote.
  Variable St : Type.
  Variable act : gname -> nat -> list nat -> St -> St.   (* gate, instruction id (angle), qubits *)
  Variable sw : nat -> nat -> St -> St.
  Hypothesis sw_comm : forall a b c d s,
      a <> c -> a <> d -> b <> c -> b <> d -> sw a b (sw c d s) = sw c d (sw a b s).
  (* conjugating a gate by an exchange relabels its qubits *)
  Hypothesis sw_conj : forall a b g i qs s,
      sw a b (act g i qs (sw a b s)) = act g i (map (transp a b) qs) s.
  Hypothesis act_swap : forall i a b s, act Gswap i [a; b] s = sw a b s.
  Hypothesis cz_sym : forall i a b s, act Gcz i [a; b] s = act Gcz i [b; a] s.
  Hypothesis ccz_sym : forall i l l' s, Permutation l l' -> act Gccz i l s = act Gccz i l' s.
  Hypothesis ccx_sym : forall i a b t s, act Gccx i [a; b; t] s = act Gccx i [b; a; t] s.

  Definition pidx (g : gname) (i : nat) : nat := if is_rot g then i else 0.
  Definition half (m : nat) : nat := Nat.div2 m.

  (* meaning of one emitted operation: modes (2q, 2q+1) are qubit q *)
  Definition den (o : eop) (s : St) : St :=
    match o with
    | EGate1 g i m => act g (pidx g i) [half m] s
    | ESwap _ a0 _ b0 _ => sw (half a0) (half b0) s
    | ECZ _ m => act Gcz 0 [half m; half m + 1] s
    | ECX _ t m => act Gcx 0 [half m + (1 - t); half m + t] s          (* [control; target] *)
    | ECCZ m => act Gccz 0 [half m; half m + 1; half m + 2] s
    | ECCX t m =>                                                      (* [controls; target] *)
        let q := half m in
        act Gccx 0 (match t with 0 => [q + 1; q + 2; q] | 1 => [q; q + 2; q + 1] | _ => [q; q + 1; q + 2] end) s
    end.
  Definition run_ops (ops : list eop) (s : St) : St := fold_left (fun s o => den o s) ops s.

  (* meaning of a source instruction *)
  Definition src (i : nat) (g : qgate) (s : St) : St :=
    act (g_name g) (pidx (g_name g) i) (g_qubits g) s.
  Fixpoint run_src (i : nat) (gs : list qgate) (s : St) : St :=
    match gs with [] => s | g :: rest => run_src (S i) rest (src i g s) end.

  Lemma half_double q : half (2 * q) = q.
  Proof. unfold half. apply Nat.div2_double. Qed.

  Lemma run_ops_app a b s : run_ops (a ++ b) s = run_ops b (run_ops a s).
  Proof. unfold run_ops. apply fold_left_app. Qed.

  Definition run_swaps (l : list (nat * nat)) (s : St) : St :=
    fold_left (fun s p => sw (fst p) (snd p) s) l s.

  Lemma run_ops_swaps l s :
    run_ops (map (fun p => emit_swap true (fst p) (snd p)) l) s = run_swaps l s.
  Proof.
    revert s. induction l as [|p l IH]; intros s; [reflexivity|].
    cbn [map]. unfold run_ops, run_swaps in *. cbn [fold_left]. rewrite IH.
    unfold emit_swap, den, mode0. rewrite !half_double. reflexivity.
  Qed.

  (* conjugation by the routing swaps relabels by the same permutation *)
  Lemma route_conj mn lo mx g i qs s : mn <= lo -> lo + 1 <= mx ->
    run_swaps (route_swaps mn lo (lo + 1) mx)
      (act g i qs (run_swaps (route_swaps mn lo (lo + 1) mx) s)) =
    act g i (map (apply_swaps (route_swaps mn lo (lo + 1) mx)) qs) s.
  Proof.
    intros H1 H2. unfold route_swaps.
    destruct (Nat.eqb_spec mn lo); destruct (Nat.eqb_spec mx (lo + 1));
      cbn [app run_swaps apply_swaps fold_left fst snd].
    - rewrite map_id. reflexivity.
    - rewrite sw_conj. reflexivity.
    - rewrite sw_conj. reflexivity.
    - rewrite (sw_comm mx (lo + 1) mn lo) by lia. rewrite sw_conj.
      rewrite sw_conj. rewrite map_map. f_equal. apply map_ext. intros x.
      unfold apply_swaps; cbn [fold_left fst snd]; unfold transp. eqbs_in; lia.
  Qed.

  Lemma run_sandwich rs gate s :
    run_ops (map (fun p => emit_swap true (fst p) (snd p)) rs ++
             gate :: map (fun p => emit_swap true (fst p) (snd p)) rs) s =
    run_swaps rs (den gate (run_swaps rs s)).
  Proof.
    rewrite run_ops_app, run_ops_swaps.
    change (run_ops (gate :: ?l) ?x) with (run_ops l (den gate x)).
    rewrite run_ops_swaps. reflexivity.
  Qed.

  Lemma add_two_den g q0 q1 ps ops s :
    (g = Gcx \/ g = Gcz) -> q0 <> q1 -> add_two g q0 q1 ps = Ok ops ->
    run_ops ops s = act g 0 [q0; q1] s.
  Proof.
    intros Hn Hne H.
    pose proof (mid_lo_bounds q0 q1 Hne) as [B1 B2].
    unfold add_two in H. rewrite adjacent_closed in H by auto. unfold adjacent_result in H.
    set (lo := mid_lo q0 q1) in *.
    fold (route_swaps (Nat.min q0 q1) lo (lo + 1) (Nat.max q0 q1)) in H.
    assert (A0 : apply_swaps (route_swaps (Nat.min q0 q1) lo (lo + 1) (Nat.max q0 q1)) lo = Nat.min q0 q1)
      by (rewrite route_swaps_apply by auto; eqbs; lia).
    assert (A1 : apply_swaps (route_swaps (Nat.min q0 q1) lo (lo + 1) (Nat.max q0 q1)) (lo + 1) = Nat.max q0 q1)
      by (rewrite route_swaps_apply by auto; eqbs; lia).
    destruct (Nat.ltb_spec q0 q1) as [L|L].
    - replace (Nat.min lo (lo + 1)) with lo in H by lia.
      replace (lo + 1 - lo) with 1 in H by lia.
      destruct Hn; subst g; inversion H; subst ops; clear H; rewrite run_sandwich;
        cbn [den]; unfold mode0; rewrite half_double; rewrite route_conj by auto; cbn [map].
      + replace (lo + (1 - 1)) with lo by lia. rewrite A0, A1. f_equal. f_equal; [lia|f_equal; lia].
      + rewrite A0, A1. f_equal. f_equal; [lia|f_equal; lia].
    - replace (Nat.min (lo + 1) lo) with lo in H by lia.
      replace (lo - lo) with 0 in H by lia.
      destruct Hn; subst g; inversion H; subst ops; clear H; rewrite run_sandwich;
        cbn [den]; unfold mode0; rewrite half_double; rewrite route_conj by auto; cbn [map].
      + replace (lo + (1 - 0)) with (lo + 1) by lia. rewrite Nat.add_0_r, A0, A1.
        f_equal. f_equal; [lia|f_equal; lia].
      + rewrite A0, A1. rewrite cz_sym. f_equal. f_equal; [lia|f_equal; lia].
  Qed.

  Lemma add_three_den g q0 q1 q2 ops s :
    (g = Gccx \/ g = Gccz) -> NoDup [q0; q1; q2] ->
    add_three g q0 q1 q2 true = Ok ops ->
    run_ops ops s = act g 0 [q0; q1; q2] s.
  Proof.
    intros Hn Hnd H.
    assert (D01 : q0 <> q1) by (inversion Hnd; subst; cbn in *; intuition).
    assert (D02 : q0 <> q2) by (inversion Hnd; subst; cbn in *; intuition).
    assert (D12 : q1 <> q2) by (inversion Hnd as [|? ? ? H4]; inversion H4; subst; cbn in *; intuition).
    unfold add_three in H.
    assert (Hm : max3 q0 q1 q2 - min3 q0 q1 q2 = 2).
    { destruct (Nat.eqb_spec (max3 q0 q1 q2 - min3 q0 q1 q2) 2); auto.
      destruct Hn; subst g; discriminate. }
    assert (Hops : ops = [match g with Gccx => ECCX (q2 - min3 q0 q1 q2) (mode0 (min3 q0 q1 q2))
                                     | _ => ECCZ (mode0 (min3 q0 q1 q2)) end]).
    { destruct (Nat.eqb_spec (max3 q0 q1 q2 - min3 q0 q1 q2) 2); [|contradiction].
      destruct Hn; subst g; inversion H; reflexivity. }
    clear H. subst ops. unfold max3, min3 in *.
    remember (Nat.min q0 (Nat.min q1 q2)) as lo eqn:Hlo.
    assert (R0 : q0 = lo \/ q0 = lo + 1 \/ q0 = lo + 2) by lia.
    assert (R1 : q1 = lo \/ q1 = lo + 1 \/ q1 = lo + 2) by lia.
    assert (R2 : q2 = lo \/ q2 = lo + 1 \/ q2 = lo + 2) by lia.
    clear Hlo Hm Hnd.
    unfold run_ops. cbn [fold_left].
    destruct Hn; subst g; unfold den, mode0; rewrite half_double.
    - destruct R0 as [R0|[R0|R0]]; destruct R1 as [R1|[R1|R1]]; destruct R2 as [R2|[R2|R2]];
        subst q0 q1 q2; try congruence;
        rewrite ?Nat.sub_diag;
        try replace (lo + 1 - lo) with 1 by (clear; lia);
        try replace (lo + 2 - lo) with 2 by (clear; lia);
        first [reflexivity | apply ccx_sym].
    - apply ccz_sym.
      destruct R0 as [R0|[R0|R0]]; destruct R1 as [R1|[R1|R1]]; destruct R2 as [R2|[R2|R2]];
        subst q0 q1 q2; try congruence.
      + apply Permutation_refl.
      + apply perm_skip, perm_swap.
      + apply perm_swap.
      + eapply perm_trans; [apply perm_swap|apply perm_skip, perm_swap].
      + eapply perm_trans; [apply perm_skip, perm_swap|apply perm_swap].
      + eapply perm_trans; [apply perm_swap|]. eapply perm_trans; [apply perm_skip, perm_swap|]. apply perm_swap.
  Qed.

  Lemma convert_gate_den i g ps ops s :
    NoDup (g_qubits g) -> convert_gate i g ps = Ok ops -> run_ops ops s = src i g s.
  Proof.
    intros Hnd H. pose proof (convert_gate_ok_inv _ _ _ _ H) as [Ha Hacc].
    destruct g as [n qs p]. unfold convert_gate, src in *. cbn [g_name g_qubits g_param] in *.
    rewrite Ha in H. cbn [negb] in H.
    destruct qs as [|q0 [|q1 [|q2 [|q3 r]]]]; try contradiction.
    - assert (ops = [EGate1 n i (mode0 q0)]).
      { unfold add_one in H. destruct (is_single n); [inversion H; auto|].
        destruct p; cbn [negb] in H; [|discriminate]. destruct (is_rot n); inversion H; auto. }
      subst ops. unfold run_ops. cbn [fold_left den]. unfold mode0. rewrite half_double. reflexivity.
    - destruct Hacc as [->|[Hn Hne]].
      + inversion H; subst. unfold run_ops, emit_swap. cbn [fold_left den pidx is_rot]. unfold mode0.
        rewrite !half_double. rewrite act_swap. reflexivity.
      + rewrite (add_two_den n q0 q1 ps ops s Hn Hne H).
        destruct Hn; subst n; reflexivity.
    - destruct Hacc as (Hn & -> & Hm).
      rewrite (add_three_den n q0 q1 q2 ops s Hn Hnd H).
      destruct Hn; subst n; reflexivity.
  Qed.

  Lemma conv_spec_den allow gs : forall i ops s,
    Forall (fun g => NoDup (g_qubits g)) gs ->
    conv_spec allow i gs = Ok ops -> run_ops ops s = run_src i gs s.
  Proof.
    induction gs as [|g rest IH]; intros i ops s Hd H; cbn [conv_spec] in H.
    - inversion H. reflexivity.
    - destruct (convert_gate i g (allow && can_ps g rest)) as [o1|e] eqn:E1; [|discriminate].
      cbn [bind] in H. destruct (conv_spec allow (S i) rest) as [o2|e] eqn:E2; [|discriminate].
      inversion H; subst ops. inversion Hd; subst.
      rewrite run_ops_app. cbn [run_src]. rewrite (convert_gate_den _ _ _ _ _ H2 E1).
      apply IH; auto.
  Qed.

  (* the emitted program denotes the source program, in every such interpretation *)
  Lemma emitted_denotes_source allow gs ops rules s :
    Forall (fun g => NoDup (g_qubits g)) gs ->
    convert allow gs = Ok (ops, rules) ->
    run_ops ops s = run_src 0 gs s.
  Proof.
    intros Hd H. rewrite convert_eq in H.
    destruct (conv_spec allow 0 gs) as [o|e] eqn:E; [|discriminate]. inversion H; subst.
    eapply conv_spec_den; eauto.
  Qed.
End Denote.
(* a non-degenerate interpretation satisfying the laws of section Denote: states are
   words over qubit names, exchanges and the swap gate rename, other gates do nothing *)
Definition w_sw (a b : nat) (s : list nat) : list nat := map (transp a b) s.
Definition w_act (g : gname) (i : nat) (qs : list nat) (s : list nat) : list nat :=
  match g, qs with
  | Gswap, [a; b] => map (transp a b) s
  | _, _ => s
  end.

Lemma transp_invol a b x : transp a b (transp a b x) = x.
Proof. unfold transp. eqbs_in; lia. Qed.

Lemma transp_conj a b c d x :
  transp a b (transp c d (transp a b x)) = transp (transp a b c) (transp a b d) x.
Proof.
  unfold transp.
  destruct (Nat.eqb_spec x a); destruct (Nat.eqb_spec x b); destruct (Nat.eqb_spec c a);
    destruct (Nat.eqb_spec c b); destruct (Nat.eqb_spec d a); destruct (Nat.eqb_spec d b);
    subst; eqbs_in; lia.
Qed.

Lemma denote_laws_satisfiable :
  (forall a b c d s, a <> c -> a <> d -> b <> c -> b <> d -> w_sw a b (w_sw c d s) = w_sw c d (w_sw a b s)) /\
  (forall a b g i qs s, w_sw a b (w_act g i qs (w_sw a b s)) = w_act g i (map (transp a b) qs) s) /\
  (forall i a b s, w_act Gswap i [a; b] s = w_sw a b s) /\
  (forall i a b s, w_act Gcz i [a; b] s = w_act Gcz i [b; a] s) /\
  (forall i l l' s, Permutation l l' -> w_act Gccz i l s = w_act Gccz i l' s) /\
  (forall i a b t s, w_act Gccx i [a; b; t] s = w_act Gccx i [b; a; t] s) /\
  w_act Gswap 0 [0; 1] [0; 1; 2] = [1; 0; 2].
Proof.
  assert (Inv : forall a b s, map (transp a b) (map (transp a b) s) = s).
  { intros. rewrite map_map. rewrite <- (map_id s) at 2. apply map_ext. intros; apply transp_invol. }
  repeat split; try reflexivity.
  - intros a b c d s H1 H2 H3 H4. unfold w_sw. rewrite !map_map. apply map_ext. intros x.
    unfold transp. eqbs_in; lia.
  - intros a b g i qs s. unfold w_sw, w_act.
    destruct g; try apply Inv.
    destruct qs as [|c [|d [|e r]]]; cbn [map]; try apply Inv.
    rewrite !map_map. apply map_ext. intros x. apply transp_conj.
Qed.
