(* Lemmas for C16 about the gradient of the MLE cost (Model/Tomo.v: a_rows, p_lin, gradient), every n. *)
From Coq Require Import ZArith List Bool Arith Lia Ring_theory Ring Permutation.
From LW Require Import Base.Sx Base.Num Base.Sums Base.Mat Base.QI2 Model.Tomo Proofs.TomoStateP.
Import ListNotations.

Section Grad.
  Context {K : Type} (o : ops K) (ii : K).
  (* Hilbert-Schmidt inner product <G, D> = tr(G^+ D) on DxD matrices *)
  Definition hs_inner (D : nat) (G Dm : @mat K) : K :=
    sumn o D (fun r => sumn o D (fun c => kmul o (kconj o (G r c)) (Dm r c))).
  (* weights n_k / p_k(choi) of _gradient, for a given A matrix *)
  Definition grad_weights (rows : list (nat -> K)) (n : nat) (choi : @mat K) (n_vec : list K) : list K :=
    map (fun np => kmul o (fst np) (kinv o (snd np))) (combine n_vec (p_vec_of o rows n choi)).
  (* derivative at t = 0 of  -sum_k n_k log p_k(choi + t Dm)  with p = the model's forward
     map: p_k(choi + t Dm) = p_k(choi) + t p_lin(Dm)_k (lemma p_lin_linear), so the derivative
     is  -sum_k (n_k / p_k(choi)) * p_lin(Dm)_k   (where no p_k is clipped) *)
  Definition dir_deriv_of (rows : list (nat -> K)) (n : nat) (choi : @mat K) (n_vec : list K) (Dm : @mat K) : K :=
    kopp o (suml o (combine (grad_weights rows n choi n_vec) (p_lin_of o rows n Dm))
                 (fun wp => kmul o (fst wp) (snd wp))).
  Definition dir_deriv (n : nat) := dir_deriv_of (a_rows o ii n) n.
  Definition dir_deriv_pinned (n : nat) := dir_deriv_of (a_rows_pinned o ii n) n.
  (* a row of the A matrix as a D x D matrix *)
  Definition row_mat (D : nat) (row : nat -> K) : @mat K := unvec D row.
End Grad.

Section GradLemmas.
  Context {K : Type} {o : ops K} {SR : StarRing o} (ii : K).
  Let R := sr_ring (o:=o).
  Add Ring Kgl : R.
  Local Notation "a + b" := (kadd o a b).
  Local Notation "a * b" := (kmul o a b).
  Local Notation "- a" := (kopp o a).
  Local Notation sumn := (sumn o).
  Local Notation suml := (suml o).

  (* the forward model is linear in the Choi matrix: p(A + t B) = p(A) + t p(B) *)
  Lemma p_lin_of_linear rows n (A B : @mat K) (t : K) :
    p_lin_of o rows n (fun i j => A i j + t * B i j)
    = map (fun ab => fst ab + t * snd ab) (combine (p_lin_of o rows n A) (p_lin_of o rows n B)).
  Proof.
    unfold p_lin_of. rewrite combine_map, map_map. apply map_ext. intros row. cbn [fst snd].
    rewrite <- sumn_mul_l, <- sumn_add. apply sumn_ext. intros x _. unfold vec, mtrans. ring.
  Qed.
  Lemma p_lin_linear n (A B : @mat K) (t : K) :
    p_lin o ii n (fun i j => A i j + t * B i j)
    = map (fun ab => fst ab + t * snd ab) (combine (p_lin o ii n A) (p_lin o ii n B)).
  Proof. apply p_lin_of_linear. Qed.

  Lemma div_mod_block' D r c : c < D -> (r * D + c) / D = r /\ (r * D + c) mod D = c.
  Proof.
    intros Hc. split.
    - rewrite Nat.div_add_l by lia. rewrite Nat.div_small by lia. lia.
    - rewrite Nat.add_comm, Nat.mod_add by lia. apply Nat.mod_small. lia.
  Qed.

  (* p_lin(Dm)_k = tr(R_k Dm) with R_k the k-th row of the A matrix as a matrix *)
  Lemma p_lin_of_trace rows n (Dm : @mat K) :
    p_lin_of o rows n Dm = map (fun row => trace o (4 ^ n) (mmul o (4 ^ n) (row_mat (4 ^ n) row) Dm)) rows.
  Proof.
    unfold p_lin_of. apply map_ext. intros row. rewrite sumn_prod. unfold trace, mmul.
    apply sumn_ext. intros r Hr. apply sumn_ext. intros c Hc.
    unfold vec, mtrans, row_mat, unvec. destruct (div_mod_block' (4 ^ n) r c Hc) as [-> ->]. reflexivity.
  Qed.

  Lemma suml_combine_map {A B} (f : A -> K) (l : list A) (w : list B) (g : A * B -> K) (h : K * B -> K) :
    (forall a b, g (a, b) = h (f a, b)) ->
    suml (combine l w) g = suml (combine (map f l) w) h.
  Proof.
    intros H. revert w. induction l as [|a l IH]; intros [|b w]; simpl; try reflexivity.
    rewrite IH, H. reflexivity.
  Qed.
  Lemma suml_combine_swap {A B} (l : list A) (w : list B) (g : A * B -> K) :
    suml (combine l w) g = suml (combine w l) (fun ba => g (snd ba, fst ba)).
  Proof.
    revert w. induction l as [|a l IH]; intros [|b w]; simpl; try reflexivity. rewrite IH. reflexivity.
  Qed.

  (* the matrix a gradient routine returns from the rows and the weights: G = - sum_k w_k R_k *)
  Lemma gradient_of_rows D (rows : list (nat -> K)) (w : list K) r c :
    unvec D (fun x => - suml (combine rows w) (fun rw => fst rw x * snd rw)) r c
    = - suml (combine rows w) (fun rw => snd rw * row_mat D (fst rw) r c).
  Proof. unfold unvec, row_mat, unvec. f_equal. apply suml_ext. intros [row wk] _. cbn [fst snd]. ring. Qed.

  (* tr(G Dm) with G = - sum_k w_k R_k is - sum_k w_k tr(R_k Dm) *)
  Lemma trace_gradient_of_rows D (rows : list (nat -> K)) (w : list K) (Dm : @mat K) :
    trace o D (mmul o D (unvec D (fun x => - suml (combine rows w) (fun rw => fst rw x * snd rw))) Dm)
    = - suml (combine w (map (fun row => trace o D (mmul o D (row_mat D row) Dm)) rows))
             (fun wp => fst wp * snd wp).
  Proof.
    rewrite (suml_combine_swap w).
    rewrite <- (suml_combine_map (fun row => trace o D (mmul o D (row_mat D row) Dm)) rows w
                 (fun rw => snd rw * trace o D (mmul o D (row_mat D (fst rw)) Dm))) by (intros; reflexivity).
    unfold trace, mmul.
    rewrite (sumn_ext D _ (fun k => - sumn D (fun k0 =>
               suml (combine rows w) (fun rw => snd rw * (row_mat D (fst rw) k k0 * Dm k0 k))))).
    2:{ intros k _. transitivity (sumn D (fun k0 => - suml (combine rows w) (fun rw => snd rw * (row_mat D (fst rw) k k0 * Dm k0 k)))).
        - apply sumn_ext. intros k0 _. rewrite gradient_of_rows.
          transitivity (- (suml (combine rows w) (fun rw => snd rw * row_mat D (fst rw) k k0) * Dm k0 k)); [ring|].
          rewrite <- suml_mul_r. f_equal. apply suml_ext. intros; ring.
        - transitivity (sumn D (fun k0 => (- k1 o) * suml (combine rows w) (fun rw => snd rw * (row_mat D (fst rw) k k0 * Dm k0 k)))).
          + apply sumn_ext; intros; ring.
          + rewrite sumn_mul_l. ring. }
    transitivity (- sumn D (fun k => sumn D (fun k0 => suml (combine rows w) (fun rw => snd rw * (row_mat D (fst rw) k k0 * Dm k0 k))))).
    { transitivity (sumn D (fun k => (- k1 o) * sumn D (fun k0 => suml (combine rows w) (fun rw => snd rw * (row_mat D (fst rw) k k0 * Dm k0 k))))).
      - apply sumn_ext; intros; ring.
      - rewrite sumn_mul_l. ring. }
    f_equal.
    rewrite (sumn_ext D _ (fun k => suml (combine rows w) (fun rw => sumn D (fun k0 => snd rw * (row_mat D (fst rw) k k0 * Dm k0 k)))))
      by (intros; symmetry; apply suml_sumn_swap).
    rewrite <- suml_sumn_swap. apply suml_ext. intros [row wk] _. cbn [fst snd].
    rewrite <- sumn_mul_l. apply sumn_ext. intros k _. rewrite <- sumn_mul_l. reflexivity.
  Qed.

  (* THE GRADIENT IDENTITY of the repaired code, every n, every choi, data and direction:
     tr(G Dm) is the directional derivative of the cost along Dm (this is also the quantity
     the line search of pgdb uses) *)
  Theorem gradient_is_derivative n (choi : @mat K) (n_vec : list K) (Dm : @mat K) :
    trace o (4 ^ n) (mmul o (4 ^ n) (gradient o ii n choi n_vec) Dm) = dir_deriv o ii n choi n_vec Dm.
  Proof.
    unfold gradient, dir_deriv, dir_deriv_of. rewrite trace_gradient_of_rows, p_lin_of_trace. reflexivity.
  Qed.

  (* G = - sum_k w_k R_k *)
  Theorem gradient_sum_of_rows n (choi : @mat K) (n_vec : list K) r c :
    gradient o ii n choi n_vec r c
    = - suml (combine (a_rows o ii n) (grad_weights o (a_rows o ii n) n choi n_vec))
             (fun rw => snd rw * row_mat (4 ^ n) (fst rw) r c).
  Proof. unfold gradient. rewrite gradient_of_rows. reflexivity. Qed.
End GradLemmas.

(* ---------------------------------------------------- the rows of _a_mat are Hermitian *)
Lemma combine_all_length {A} (keys : list A) n c :
  1 <= n -> In c (combine_all (@app A) (map (fun p => [p]) keys) n) -> length c = n.
Proof.
  intros Hn. unfold combine_all. replace n with (S (n - 1)) at 2 by lia. generalize (n - 1) as m. clear Hn.
  intros m. revert c. induction m as [|m IH]; intros c Hc.
  - simpl in Hc. apply in_map_iff in Hc as [p [<- _]]. reflexivity.
  - simpl in Hc. unfold combine_step at 1 in Hc. apply in_flat_map in Hc as [v1 [H1 H2]].
    apply in_map_iff in H2 as [v2 [<- H2]]. apply in_map_iff in H2 as [p [<- _]].
    rewrite app_length, (IH v1 H1). simpl. lia.
Qed.

Lemma in_remove_first x l y : In y (remove_first x l) -> In y l.
Proof.
  induction l as [|z l IH]; simpl; [tauto|]. destruct (mstr_eqb x z); simpl; tauto.
Qed.

Section Herm.
  Context {K : Type} {o : ops K} {ii hh : K} {TR : TomoRing o ii hh}.
  Let R := sr_ring (o:=o).
  Add Ring Kgh : R.
  Local Notation "a + b" := (kadd o a b).
  Local Notation "a * b" := (kmul o a b).
  Local Notation "- a" := (kopp o a).
  Local Notation one := (k1 o).
  Local Notation zero := (k0 o).
  Local Notation conj := (kconj o).
  Local Notation sumn := (sumn o).
  Local Notation suml := (suml o).

  Lemma conj_half : conj (half o) = half o.
  Proof.
    assert (E : half o = hh * hh) by (unfold half, two; apply ui_inv; exact tr_hh).
    rewrite E, sr_conj_mul, tr_hh_conj. reflexivity.
  Qed.
  Lemma conj_hpow n : conj (hpow (o:=o) (hh:=hh) n) = hpow (o:=o) (hh:=hh) n.
  Proof. induction n as [|n IH]; simpl; [apply sr_conj_1|]. rewrite !sr_conj_mul, tr_hh_conj, IH. reflexivity. Qed.
  Lemma conj_sg s : conj (sg o s) = sg o s.
  Proof. destruct s; simpl; [rewrite sr_conj_opp|]; rewrite sr_conj_1; reflexivity. Qed.
  Lemma conj_mid i j : conj (mid o i j) = mid o j i.
  Proof. unfold mid. rewrite (Nat.eqb_sym j i). destruct (i =? j); [apply sr_conj_1|apply sr_conj_0]. Qed.

  Lemma pauli_herm p : hermitian o 2 (pauli_mat o ii p).
  Proof.
    intros i j Hi Hj. unfold madj.
    destruct i as [|[|i]]; [| |lia]; (destruct j as [|[|j]]; [| |lia]); destruct p; simpl;
      rewrite ?sr_conj_opp, ?tr_ii_conj, ?sr_conj_1, ?sr_conj_0; try reflexivity; ring.
  Qed.
  Lemma rho_herm l : hermitian o 2 (rho_mat o ii l).
  Proof.
    intros i j Hi Hj. unfold madj.
    destruct i as [|[|i]]; [| |lia]; (destruct j as [|[|j]]; [| |lia]); destruct l; simpl;
      rewrite ?sr_conj_mul, ?sr_conj_opp, ?tr_ii_conj, ?sr_conj_1, ?sr_conj_0, ?conj_half; try reflexivity; ring.
  Qed.

  Lemma kfold_snoc_gen {A} (f : A -> @mat K) c g i j : i < 2 ^ S (length c) -> j < 2 ^ S (length c) ->
    kfold o f (c ++ [g]) i j = kfold o f c (i / 2) (j / 2) * f g (i mod 2) (j mod 2).
  Proof.
    destruct c as [|g0 r].
    - intros Hi Hj. change (2 ^ S (length (@nil A))) with 2 in *.
      change (kfold o f ([] ++ [g]) i j) with (f g i j).
      change (kfold o f [] (i / 2) (j / 2)) with (mid o (i / 2) (j / 2)).
      rewrite !Nat.div_small, !Nat.mod_small by lia. unfold mid. simpl. ring.
    - intros _ _. simpl. rewrite fold_left_app. reflexivity.
  Qed.

  Lemma kfold_herm {A} (f : A -> @mat K) c : (forall g, hermitian o 2 (f g)) -> hermitian o (2 ^ length c) (kfold o f c).
  Proof.
    intros Hf. induction c as [|g c IH] using rev_ind.
    - intros i j Hi Hj. simpl in Hi, Hj. unfold madj. simpl. apply conj_mid.
    - rewrite app_length. simpl length. rewrite Nat.add_1_r.
      intros i j Hi Hj. unfold madj. rewrite !kfold_snoc_gen by assumption.
      assert (Hi2 : i / 2 < 2 ^ length c) by (apply Nat.div_lt_upper_bound; [lia|]; rewrite Nat.pow_succ_r' in Hi; lia).
      assert (Hj2 : j / 2 < 2 ^ length c) by (apply Nat.div_lt_upper_bound; [lia|]; rewrite Nat.pow_succ_r' in Hj; lia).
      rewrite sr_conj_mul.
      assert (E1 : conj (kfold o f c (j / 2) (i / 2)) = kfold o f c (i / 2) (j / 2)) by (apply (IH (i / 2) (j / 2)); assumption).
      assert (E2 : conj (f g (j mod 2) (i mod 2)) = f g (i mod 2) (j mod 2))
        by (apply (Hf g (i mod 2) (j mod 2)); apply Nat.mod_upper_bound; lia).
      rewrite E1, E2. reflexivity.
  Qed.

  Lemma suml_conj {A} (l : list A) (f : A -> K) : conj (suml l f) = suml l (fun a => conj (f a)).
  Proof.
    induction l as [|a l IH]; simpl; [apply sr_conj_0|]. rewrite sr_conj_add, IH. reflexivity.
  Qed.

  Lemma pow4_dim n : (4 ^ n = 2 ^ n * 2 ^ n)%nat.
  Proof. change 4%nat with (2 * 2)%nat. apply Nat.pow_mul_l. Qed.

  (* every row R_k of the A matrix, as a 4^n x 4^n matrix, is Hermitian *)
  Theorem a_rows_hermitian n row : 1 <= n -> In row (a_rows o ii n) -> hermitian o (4 ^ n) (row_mat (4 ^ n) row).
  Proof.
    intros Hn Hrow. unfold a_rows in Hrow.
    apply in_flat_map in Hrow as [in_s [Hin Hrow]]. apply in_flat_map in Hrow as [meas [Hm Hrow]].
    assert (Li : length in_s = n) by (apply (combine_all_length mle_inputs n in_s Hn Hin)).
    assert (Lm : length meas = n).
    { unfold mle_meas_basis, tomo_measurements in Hm. apply in_remove_first in Hm.
      apply (strings_length_elem meas_keys n meas Hn Hm). }
    assert (Hobs : hermitian o (2 ^ n) (kfold o (pauli_mat o ii) meas)) by (rewrite <- Lm; apply kfold_herm; apply pauli_herm).
    assert (Hrho : hermitian o (2 ^ n) (kfold o (rho_mat o ii) in_s)) by (rewrite <- Li; apply kfold_herm; apply rho_herm).
    assert (Hw : conj (kinv o (pow2 o (2 * n)%nat)) = kinv o (pow2 o (2 * n)%nat)) by (rewrite (kinv_pow2 (hh:=hh)); apply conj_hpow).
    assert (Hdim : 0 < 2 ^ n) by (apply Nat.neq_0_lt_0, Nat.pow_nonzero; lia).
    intros r c Hr Hc. unfold madj, row_mat, unvec.
    assert (Bd : forall y, y < 4 ^ n -> y / 2 ^ n < 2 ^ n /\ y mod 2 ^ n < 2 ^ n).
    { intros y Hy. split; [apply Nat.div_lt_upper_bound; [lia|rewrite <- pow4_dim; exact Hy]|apply Nat.mod_upper_bound; lia]. }
    destruct (Bd r Hr) as [Br1 Br2]. destruct (Bd c Hc) as [Bc1 Bc2].
    assert (Hrow' : exists s, forall x, row x =
       vec (2 ^ n * 2 ^ n)%nat (kron o (2 ^ n) (fun i j => (mid o i j + sg o s * kfold o (pauli_mat o ii) meas i j) * half o)
                                  (mtrans (kfold o (rho_mat o ii) in_s))) x * kinv o (pow2 o (2 * n)%nat)).
    { simpl in Hrow. destruct Hrow as [<-|[<-|[]]]; [exists false|exists true]; intros; reflexivity. }
    destruct Hrow' as [s Hs]. rewrite !Hs. unfold vec. rewrite <- pow4_dim.
    destruct (div_mod_block' (4 ^ n) c r Hr) as [-> ->]. destruct (div_mod_block' (4 ^ n) r c Hc) as [-> ->].
    unfold kron, mtrans. rewrite !sr_conj_mul, sr_conj_add, sr_conj_mul, conj_sg, conj_mid, conj_half, Hw.
    rewrite (Hobs (r / 2 ^ n) (c / 2 ^ n) Br1 Bc1 : conj (kfold o (pauli_mat o ii) meas (c / 2 ^ n) (r / 2 ^ n)) = _).
    rewrite (Hrho (c mod 2 ^ n) (r mod 2 ^ n) Bc2 Br2 : conj (kfold o (rho_mat o ii) in_s (r mod 2 ^ n) (c mod 2 ^ n)) = _).
    reflexivity.
  Qed.

  (* real weights n_k / p_k (real data, Hermitian choi): the matrix _gradient returns is Hermitian *)
  Theorem gradient_hermitian n (choi : @mat K) (n_vec : list K) : 1 <= n ->
    Forall (fun w => conj w = w) (grad_weights o (a_rows o ii n) n choi n_vec) ->
    hermitian o (4 ^ n) (gradient o ii n choi n_vec).
  Proof.
    intros Hn Hw r c Hr Hc. unfold madj. rewrite !gradient_sum_of_rows, sr_conj_opp, suml_conj. f_equal.
    apply suml_ext. intros [row w] Hin. cbn [fst snd]. rewrite sr_conj_mul.
    rewrite Forall_forall in Hw. rewrite (Hw w (in_combine_r _ _ _ _ Hin)).
    rewrite (a_rows_hermitian n row Hn (in_combine_l _ _ _ _ Hin) r c Hr Hc : conj (row_mat (4 ^ n) row c r) = _).
    reflexivity.
  Qed.

  (* ... and it is the Hilbert-Schmidt gradient of the cost: <G, Dm> = tr(G^+ Dm) is the
     directional derivative along Dm, for EVERY direction Dm *)
  Theorem mle_gradient_is_hs_gradient n (choi : @mat K) (n_vec : list K) (Dm : @mat K) : 1 <= n ->
    Forall (fun w => conj w = w) (grad_weights o (a_rows o ii n) n choi n_vec) ->
    hs_inner o (4 ^ n) (gradient o ii n choi n_vec) Dm = dir_deriv o ii n choi n_vec Dm.
  Proof.
    intros Hn Hw. rewrite <- (gradient_is_derivative ii). unfold hs_inner, trace, mmul.
    rewrite sumn_swap. apply sumn_ext. intros k Hk. apply sumn_ext. intros k0 Hk0.
    rewrite (gradient_hermitian n choi n_vec Hn Hw k k0 Hk Hk0 : conj (gradient o ii n choi n_vec k0 k) = _).
    reflexivity.
  Qed.
End Herm.
