(* The dual-rail theorems instantiated in the exact number field of the heralded gates
   (tower B of Base/NumField.v: Q(sqrt 2, 2^(1/4), gamma)(i)), with the gate facts of C13
   (Proofs/GatesP.v), and a computed example: h(0); cx(0,1) converted in heralded-only mode. *)
From Coq Require Import ZArith NArith List Bool Arith Lia Permutation Ring_theory Ring QArith Qcanon.
From LW Require Import Base.Sx Base.Num Base.Sums Base.Mat Base.QI2 Base.NumField Model.State Model.Circuit Model.World
     Model.Fock Model.Gates Model.Display Model.Convert Proofs.PermP Proofs.FockUnitP Proofs.DisplayP Proofs.WiringMat Proofs.WiringP
     Proofs.WiringAmpP Proofs.GatesP Proofs.ConvertP
     Proofs.DualRailDefs Proofs.DualRailSem Proofs.DualRailSwap Proofs.DualRailFull Proofs.DualRailStep Proofs.DualRailP
     Proofs.DualRailConv.
Import ListNotations.
Open Scope nat_scope.

(* ------------------------------------------------------------------ *)
(* canonical integers and 1/k in the towers                            *)
(* ------------------------------------------------------------------ *)
Section QextZ.
  Context {K : Type} (o : ops K) (d : K) {SR : StarRing o} {ZM : ZMorph o}.
  Let Rr := sr_ring (o:=o).
  Add Ring Kqz : Rr.

  Global Instance qext_zmorph : ZMorph (qext o d).
  Proof.
    constructor; simpl; unfold qadd; simpl.
    - intros a b. rewrite (zm_add (o:=o)). f_equal. ring.
    - rewrite (zm_1 (o:=o)). reflexivity.
    - rewrite (zm_0 (o:=o)). reflexivity.
  Qed.

  Variable rinv : nat -> K.
  Hypothesis rinv_spec : forall k, 0 < k -> kmul o (kofnat o k) (rinv k) = k1 o.

  Lemma qext_rinv k : 0 < k -> kmul (qext o d) (kofnat (qext o d) k) (rinv k, k0 o) = k1 (qext o d).
  Proof.
    intros Hk. unfold kofnat. simpl. unfold qmul. simpl. fold (kofnat o k). rewrite <- (rinv_spec k Hk). f_equal; ring.
  Qed.

  Lemma cplx_rinv k : 0 < k -> kmul (cplx o) (kofnat (cplx o) k) (rinv k, k0 o) = k1 (cplx o).
  Proof.
    intros Hk. unfold kofnat. simpl. unfold cmul. simpl. fold (kofnat o k). rewrite <- (rinv_spec k Hk). f_equal; ring.
  Qed.
End QextZ.

Definition qrinv (k : nat) : Qc := Qcinv (Q2Qc (inject_Z (Z.of_nat k))).
Lemma qrinv_spec k : 0 < k -> kmul qcops (kofnat qcops k) (qrinv k) = k1 qcops.
Proof.
  intros Hk. unfold qrinv, kofnat. simpl. apply Qcmult_inv_r.
  intros E. apply Q2Qc_eq_iff in E. unfold Qeq in E. simpl in E. lia.
Qed.

Global Instance oB1_zmorph : ZMorph oB1 := qext_zmorph qcops _.
Global Instance oB2_zmorph : ZMorph oB2 := qext_zmorph oB1 _.
Global Instance oB_zmorph : ZMorph oB := qext_zmorph oB2 _.

Definition rinvB1 (k : nat) : KB1 := (qrinv k, k0 qcops).
Definition rinvB2 (k : nat) : KB2 := (rinvB1 k, k0 oB1).
Definition rinvB (k : nat) : KB := (rinvB2 k, k0 oB2).
Definition ninvB (k : nat) : TB := (rinvB k, k0 oB).

Lemma ninvB_spec k : 0 < k -> kmul (co oB) (kofnat (co oB) k) (ninvB k) = k1 (co oB).
Proof.
  intros Hk. apply (cplx_rinv oB rinvB); [|exact Hk].
  intros k0 Hk0. apply (qext_rinv oB2 b_gam2 rinvB2); [|exact Hk0].
  intros k1 Hk1. apply (qext_rinv oB1 (qgen qcops) rinvB1); [|exact Hk1].
  intros k2 Hk2. apply (qext_rinv qcops (qq 2 1) qrinv qrinv_spec). exact Hk2.
Qed.

(* ------------------------------------------------------------------ *)
(* structure of a compiled gate, by a boolean check                     *)
(* ------------------------------------------------------------------ *)
Section Struct.
  Context {K : Type} (o : ops K) {SR : StarRing o} {ZM : ZMorph o}.

  Lemma compile_gate_build p dst (gt : @gate K) :
    compile_gate o p dst = Ok gt -> build o (env0 o) (g_circ gt) = Ok (g_dim gt, g_U gt).
  Proof.
    unfold compile_gate. destruct p as [prog|]; [|discriminate]. cbn [bind].
    destruct (run o (env0 o) [] prog) as [w rs]. destruct (first_err rs); [|discriminate]. cbn [bind].
    destruct (wget w dst) as [c|]; [|discriminate].
    destruct (build o (env0 o) c) as [st|] eqn:E; [|discriminate]. cbn [bind].
    intros H. injection H as <-. cbn [g_circ g_dim g_U]. rewrite E. destruct st. reflexivity.
  Qed.

  Fixpoint dict_vals_eqb (a b : list nat) : bool :=
    match a, b with [], [] => true | x :: a', y :: b' => Nat.eqb x y && dict_vals_eqb a' b' | _, _ => false end.
  Lemma dict_vals_eqb_eq a b : dict_vals_eqb a b = true -> a = b.
  Proof.
    revert b. induction a as [|x a IH]; intros [|y b]; simpl; try discriminate; [reflexivity|].
    intros H. apply andb_true_iff in H as [H1 H2]. apply Nat.eqb_eq in H1. f_equal; [exact H1|apply IH, H2].
  Qed.

  Definition struct_ok (k : nat) (g : res (@gate K)) : bool :=
    match g with
    | Ok gt =>
        let c := g_circ gt in
        wf_check c && nodupb (dkeys (c_in c)) && nodupb (dkeys (c_out c)) && forallb swndb (c_spec c) &&
        Nat.eqb (c_n c) (2 * k + length (c_in c)) && Nat.eqb (length (c_in c)) (length (c_out c)) &&
        dict_vals_eqb (dvals (c_out c)) (dvals (c_in c)) && forallb (fun kv => snd kv <=? 1) (c_in c) &&
        Nat.eqb (g_dim gt) (c_n c)
    | Err _ => false
    end.

  Variable ninv : nat -> K * K.
  Hypothesis ninv_spec : forall k, 0 < k -> kmul (co o) (kofnat (co o) k) (ninv k) = k1 (co o).

  Lemma gate_ok_of_check gt k kG M :
    build o (env0 o) (g_circ gt) = Ok (g_dim gt, g_U gt) -> struct_ok k (Ok gt) = true -> 1 <= k ->
    c13_fact o gt k kG M -> gate_ok o (env0 o) (g_circ gt) k kG M.
  Proof.
    intros Hg Hs Hk Hc. unfold struct_ok in Hs. cbv zeta in Hs.
    do 8 (apply andb_true_iff in Hs as [Hs ?]).
    apply (gate_ok_of_c13 o (env0 o) gt k kG M Hc).
    - split; [apply wf_check_sound; assumption|]. split; apply nodupb_nodup; assumption.
    - apply swndb_spec_sound. assumption.
    - exact Hk.
    - apply Nat.eqb_eq. assumption.
    - apply Nat.eqb_eq. assumption.
    - apply dict_vals_eqb_eq. assumption.
    - intros kv Hkv. match goal with H : forallb _ (c_in _) = true |- _ => rewrite forallb_forall in H; specialize (H kv Hkv) end.
      apply Nat.leb_le. assumption.
    - rewrite Hg. f_equal. f_equal. apply Nat.eqb_eq. assumption.
  Qed.
End Struct.

(* ------------------------------------------------------------------ *)
(* the heralded gates of tower B                                        *)
(* ------------------------------------------------------------------ *)
Lemma struct_CZH : struct_ok 2 (gate_CZ_Heralded oB b_h b_r2 b_qi b_g) = true.
Proof. vm_compute. reflexivity. Qed.
Lemma struct_CNOTH0 : struct_ok 2 (gate_CNOT_Heralded oB b_h b_r2 b_qi b_g 0%Z) = true.
Proof. vm_compute. reflexivity. Qed.
Lemma struct_CNOTH1 : struct_ok 2 (gate_CNOT_Heralded oB b_h b_r2 b_qi b_g 1%Z) = true.
Proof. vm_compute. reflexivity. Qed.

Lemma b_h_half : kmul oB b_h b_h = kq oB 1 2.
Proof. apply (by_eqb oB). vm_compute. reflexivity. Qed.

(* C13's statement of a heralded gate gives [gate_ok] *)
Lemma heralded_gate_ok (g : res (@gate KB)) M :
  heralded_acts oB g 2 16 M -> struct_ok 2 g = true ->
  (forall gt, g = Ok gt -> build oB (env0 oB) (g_circ gt) = Ok (g_dim gt, g_U gt)) ->
  exists gt kG, g = Ok gt /\
    kmul cB (kofZ cB 16) (kmul cB kG (kconj cB kG)) = k1 cB /\
    gate_ok oB (env0 oB) (g_circ gt) 2 kG M.
Proof.
  intros (gt & kG & Hg & Hn & H1 & H2) Hs Hb. exists gt, kG. split; [exact Hg|]. split; [exact Hn|].
  rewrite Hg in Hs. apply (gate_ok_of_check oB gt 2 kG M (Hb gt Hg) Hs ltac:(lia)). split; assumption.
Qed.

Lemma build_CZH gt : gate_CZ_Heralded oB b_h b_r2 b_qi b_g = Ok gt -> build oB (env0 oB) (g_circ gt) = Ok (g_dim gt, g_U gt).
Proof. unfold gate_CZ_Heralded. apply compile_gate_build. Qed.
Lemma build_CNOTH tq gt : gate_CNOT_Heralded oB b_h b_r2 b_qi b_g tq = Ok gt -> build oB (env0 oB) (g_circ gt) = Ok (g_dim gt, g_U gt).
Proof. unfold gate_CNOT_Heralded. apply compile_gate_build. Qed.

Lemma CZH_gate_ok : exists gt kG, gate_CZ_Heralded oB b_h b_r2 b_qi b_g = Ok gt /\
  kmul cB (kofZ cB 16) (kmul cB kG (kconj cB kG)) = k1 cB /\ gate_ok oB (env0 oB) (g_circ gt) 2 kG (spec_CZ cB).
Proof. exact (heralded_gate_ok _ _ CZH_full struct_CZH build_CZH). Qed.

Lemma CNOTH0_gate_ok : exists gt kG, gate_CNOT_Heralded oB b_h b_r2 b_qi b_g 0%Z = Ok gt /\
  kmul cB (kofZ cB 16) (kmul cB kG (kconj cB kG)) = k1 cB /\ gate_ok oB (env0 oB) (g_circ gt) 2 kG (spec_CNOT cB 0).
Proof. exact (heralded_gate_ok _ _ (CNOTH_full 0%Z (or_introl eq_refl)) struct_CNOTH0 (build_CNOTH 0%Z)). Qed.

Lemma CNOTH1_gate_ok : exists gt kG, gate_CNOT_Heralded oB b_h b_r2 b_qi b_g 1%Z = Ok gt /\
  kmul cB (kofZ cB 16) (kmul cB kG (kconj cB kG)) = k1 cB /\ gate_ok oB (env0 oB) (g_circ gt) 2 kG (spec_CNOT cB 1).
Proof. exact (heralded_gate_ok _ _ (CNOTH_full 1%Z (or_intror (or_introl eq_refl))) struct_CNOTH1 (build_CNOTH 1%Z)). Qed.

(* ------------------------------------------------------------------ *)
(* C12 T2 convert_heralded_correct over tower B                         *)
(* ------------------------------------------------------------------ *)
(* r3i = 1/sqrt 3 and r7 = sqrt 7 are used by the post-selected gates only, which the converter
   never emits in heralded-only mode; tower B passes 0 for them *)
Notation run_emitted_B ang := (run_emitted oB b_h b_r2 (k0 oB) b_qi b_g (k0 oB) ang).

Theorem convert_heralded_correct_B :
  exists kcz kcx0 kcx1 : TB,
    (kmul cB (kofZ cB 16) (kmul cB kcz (kconj cB kcz)) = k1 cB /\
     kmul cB (kofZ cB 16) (kmul cB kcx0 (kconj cB kcx0)) = k1 cB /\
     kmul cB (kofZ cB 16) (kmul cB kcx1 (kconj cB kcx1)) = k1 cB) /\
    (forall ops : list eop,
       kmul cB (kmul cB (kprod oB kcz kcx0 kcx1 ops (k1 cB)) (kconj cB (kprod oB kcz kcx0 kcx1 ops (k1 cB))))
               (wprod oB ops (k1 cB)) = k1 cB) /\
    forall (ang : nat -> KB * KB) (nq : nat) (gs : list qgate) (ops : list eop) (rules : option (list nat)),
      Forall (ConvertP.in_range nq) gs -> Forall (fun g => NoDup (g_qubits g)) gs ->
      convert false gs = Ok (ops, rules) ->
      rules = None /\
      exists c, run_emitted_B ang ops (new_circ (2 * nq)) = Ok c /\
                acts_as_dual_rail oB (env0 oB) c nq (kprod oB kcz kcx0 kcx1 ops (k1 cB)) (Vsrc oB b_h ang nq gs).
Proof.
  destruct CZH_gate_ok as (g1 & k1' & G1 & N1 & O1).
  destruct CNOTH0_gate_ok as (g2 & k2' & G2 & N2 & O2).
  destruct CNOTH1_gate_ok as (g3 & k3' & G3 & N3 & O3).
  exists k1', k2', k3'. split; [repeat split; assumption|].
  split.
  { intros ops. apply (kprod_unit oB k1' k2' k3' N1 N2 N3 ops (k1 cB) (k1 cB)).
    apply (by_eqb cB). vm_compute. reflexivity. }
  intros ang nq gs ops rules Hr Hd Hc.
  exact (convert_heralded_correct oB ninvB ninvB_spec b_h b_r2 (k0 oB) b_qi b_g (k0 oB) ang b_h_half
           g1 g2 g3 k1' k2' k3' (conj G1 O1) (conj G2 O2) (conj G3 O3) nq gs ops rules Hr Hd Hc).
Qed.

(* ------------------------------------------------------------------ *)
(* computed example: h(0); cx(0,1) on two qubits, heralded-only mode    *)
(* ------------------------------------------------------------------ *)
Definition ex_gs : list qgate := [mkG Gh [0] false; mkG Gcx [0; 1] false].
Definition ex_ang : nat -> KB * KB := fun _ => (k1 oB, k0 oB).
Definition ex_ops : list eop := match convert false ex_gs with Ok (ops, _) => ops | Err _ => [] end.
Definition ex_gate : res (@gate KB) :=
  do c <- run_emitted_B ex_ang ex_ops (new_circ 4);
  do st <- build oB (env0 oB) c;
  Ok (mkGate c (fst st) (snd st)).
(* CNOT(control 0, target 1) . (H on qubit 0), rows b' = 00, 01, 10, 11 *)
Definition ex_V (b' b : list bool) : TB :=
  let hh : TB := (b_h, k0 oB) in let z := k0 cB in let mh := kopp cB hh in
  nth (2 * (if nth 0 b false then 1 else 0) + (if nth 1 b false then 1 else 0))
      (nth (2 * (if nth 0 b' false then 1 else 0) + (if nth 1 b' false then 1 else 0))
           [[hh; z; hh; z]; [z; hh; z; hh]; [z; hh; z; mh]; [hh; z; mh; z]] []) z.

Example convert_heralded_example :
  convert false ex_gs = Ok ([EGate1 Gh 0 0; ECX true 1 0], None) /\
  Forall (ConvertP.in_range 2) ex_gs /\ Forall (fun g => NoDup (g_qubits g)) ex_gs /\
  (* the conclusion of the theorem, recomputed: amplitudes = kB_czh * V on the dual-rail basis, zero leakage *)
  check_table oB ex_gate 2 kB_czh ex_V = true /\ check_leak oB ex_gate 2 = true /\
  forallb (fun b => forallb (fun b' => keqb cB (Vsrc oB b_h ex_ang 2 ex_gs b' b) (ex_V b' b)) (bits 2)) (bits 2) = true /\
  keqb cB (kprod oB kB_czh kB_czh kB_czh ex_ops (k1 cB)) kB_czh = true /\
  kmul cB (kofZ cB 16) (kmul cB kB_czh (kconj cB kB_czh)) = k1 cB /\
  match ex_gate with Ok gt => (c_n (g_circ gt), c_in (g_circ gt), c_int (g_circ gt)) | Err _ => (0, [], []) end
  = (8, [(0, 0); (1, 1); (6, 1); (7, 0)], [0; 1; 6; 7]).
Proof.
  split; [reflexivity|].
  split; [constructor; [intros q [<-|[]]; lia|]; constructor; [intros q [<-|[<-|[]]]; lia|constructor]|].
  split; [repeat constructor; cbn; intuition; discriminate|].
  split; [vm_compute; reflexivity|]. split; [vm_compute; reflexivity|]. split; [vm_compute; reflexivity|].
  split; [vm_compute; reflexivity|]. split; [exact kB_czh_norm|]. vm_compute. reflexivity.
Qed.
