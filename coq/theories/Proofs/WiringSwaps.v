(* The swap-completion loop of Circuit.add: what permutation [complete_swaps] builds.
   All helper lemmas carry the prefix [ws_] so that they do not clash with the
   dictionary lemmas of RewriteP / DisplayP. *)
From Coq Require Import ZArith List Bool Arith Lia Permutation.
From LW Require Import Base.Sx Base.Num Base.Mat Model.Circuit Model.Display Proofs.CompileP Proofs.CircuitP Proofs.DisplayP.
Import ListNotations.

(* ---------- dictionaries ---------- *)
Lemma ws_dget_dset (d : dict) k v k' :
  dget (dset d k v) k' = if Nat.eqb k k' then Some v else dget d k'.
Proof.
  induction d as [|[a b] d IH]; simpl.
  - reflexivity.
  - destruct (Nat.eqb_spec a k) as [->|Hne]; simpl.
    + destruct (Nat.eqb_spec k k'); reflexivity.
    + rewrite IH. destruct (Nat.eqb_spec a k'), (Nat.eqb_spec k k'); try reflexivity; congruence.
Qed.

Lemma ws_dget_inj (d : dict) a b v :
  NoDup (dvals d) -> dget d a = Some v -> dget d b = Some v -> a = b.
Proof.
  induction d as [|[k w] d IH]; simpl; intros Hn Ha Hb; [discriminate|].
  inversion Hn as [|? ? Hw Hn']; subst.
  destruct (Nat.eqb_spec k a) as [Eka|Nka], (Nat.eqb_spec k b) as [Ekb|Nkb].
  - congruence.
  - exfalso. injection Ha as ->. apply dget_some' in Hb. apply Hw. exact (proj2 Hb).
  - exfalso. injection Hb as ->. apply dget_some' in Ha. apply Hw. exact (proj2 Ha).
  - exact (IH Hn' Ha Hb).
Qed.

Lemma ws_vals_nodup (d : dict) :
  NoDup (dkeys d) ->
  (forall a b v, dget d a = Some v -> dget d b = Some v -> a = b) ->
  NoDup (dvals d).
Proof.
  induction d as [|[k w] d IH]; intros Hn Hinj; simpl; [constructor|].
  simpl in Hn. inversion Hn as [|? ? Hk Hn']; subst.
  assert (Hget : forall a v, In (a, v) d -> dget ((k, w) :: d) a = Some v).
  { intros a v Hin. simpl. destruct (Nat.eqb_spec k a) as [->|Hne].
    - exfalso. apply Hk. change (In a (map fst d)). apply in_map_iff. exists (a, v). split; [reflexivity|exact Hin].
    - apply dget_in; assumption. }
  constructor.
  - intros Hin. apply in_map_iff in Hin as ([k' w'] & Ew & Hin). simpl in Ew. subst w'.
    assert (E1 : dget ((k, w) :: d) k' = Some w) by (apply Hget; exact Hin).
    assert (E2 : dget ((k, w) :: d) k = Some w) by (simpl; rewrite Nat.eqb_refl; reflexivity).
    pose proof (Hinj _ _ _ E1 E2) as ->.
    apply Hk. change (In k (map fst d)). apply in_map_iff. exists (k, w). split; [reflexivity|exact Hin].
  - apply IH; [exact Hn'|]. intros a b v Ha Hb.
    apply (Hinj a b v); apply Hget; apply dget_some; assumption.
Qed.

Lemma ws_combine_fst (a b : list nat) : length a = length b -> map fst (combine a b) = a.
Proof.
  revert b. induction a as [|x a IH]; intros [|y b] H; simpl in *; try discriminate; [reflexivity|].
  f_equal. apply IH. lia.
Qed.
Lemma ws_combine_snd (a b : list nat) : length a = length b -> map snd (combine a b) = b.
Proof.
  revert b. induction a as [|x a IH]; intros [|y b] H; simpl in *; try discriminate; [reflexivity|].
  f_equal. apply IH. lia.
Qed.

(* ---------- counting free positions ---------- *)
Lemma ws_freec_lt V a b : ~ In a V -> a < b -> freec V a < freec V b.
Proof.
  intros Ha Hab. pose proof (freec_mono V (S a) b Hab) as Hm. rewrite freec_S in Hm.
  destruct (memb a V) eqn:E; [apply memb_in in E; contradiction|lia].
Qed.
Lemma ws_freec_lt_inv V a b : freec V a < freec V b -> a < b.
Proof.
  intros H. destruct (Nat.lt_ge_cases a b) as [Hlt|Hge]; [exact Hlt|].
  pose proof (freec_mono V b a Hge). lia.
Qed.

(* ---------- the loop ---------- *)
Lemma ws_cs_nodup (prov : dict) : forall cnt i cur acc,
  NoDup (dkeys acc) -> NoDup (dkeys (complete_swaps cnt i prov cur acc)).
Proof.
  induction cnt as [|cnt IH]; intros i cur acc H; cbn [complete_swaps]; [exact H|].
  destruct (dget prov i) as [v|].
  - apply IH, DisplayP.dset_nodup, H.
  - cbv zeta. apply IH. destruct (Nat.eqb i _); [exact H|apply DisplayP.dset_nodup, H].
Qed.

Lemma ws_loop_inv N (prov : dict) :
  forall cnt i cur acc,
    i + cnt = N -> freec (dvals prov) cur = freec (dkeys prov) i ->
    forall x,
      (x < i \/ N <= x -> dget (complete_swaps cnt i prov cur acc) x = dget acc x) /\
      (i <= x < N -> forall v, dget prov x = Some v ->
         dget (complete_swaps cnt i prov cur acc) x = Some v) /\
      (i <= x < N -> dget prov x = None ->
         exists y, ~ In y (dvals prov) /\ freec (dvals prov) y = freec (dkeys prov) x /\
                   dget (complete_swaps cnt i prov cur acc) x
                   = if Nat.eqb x y then dget acc x else Some y).
Proof.
  assert (Hlp : length prov = length (dvals prov)) by (unfold dvals; rewrite map_length; reflexivity).
  induction cnt as [|cnt IH]; intros i cur acc Hi Hf x; cbn [complete_swaps].
  - split; [reflexivity|]. split; intros; lia.
  - destruct (dget prov i) as [v|] eqn:E.
    + assert (Eik : In i (dkeys prov)) by (apply dget_some' in E; tauto).
      assert (Hf' : freec (dvals prov) cur = freec (dkeys prov) (S i)).
      { rewrite freec_S. replace (memb i (dkeys prov)) with true by (symmetry; apply memb_in, Eik). lia. }
      destruct (IH (S i) cur (dset acc i v) ltac:(lia) Hf' x) as (I1 & I2 & I3).
      split; [|split].
      * intros Hx. rewrite I1 by lia. rewrite ws_dget_dset. destruct (Nat.eqb_spec i x); [lia|reflexivity].
      * intros Hx v' Hv'. destruct (Nat.eq_dec x i) as [->|Hne].
        -- rewrite I1 by lia. rewrite ws_dget_dset, Nat.eqb_refl. congruence.
        -- apply I2; [lia|exact Hv'].
      * intros Hx Hn. assert (x <> i) by congruence.
        destruct (I3 ltac:(lia) Hn) as (y & Hy1 & Hy2 & Hy3).
        exists y. split; [exact Hy1|]. split; [exact Hy2|].
        rewrite Hy3, ws_dget_dset. destruct (Nat.eqb_spec i x); [lia|reflexivity].
    + cbv zeta.
      pose proof (dget_none' _ _ E) as Enk.
      set (cur' := skip_vals (S (length prov)) (dvals prov) cur).
      assert (Hfree : ~ In cur' (dvals prov)) by (subst cur'; rewrite Hlp; apply skip_free).
      pose proof (skip_spec (dvals prov) (S (length prov)) cur) as Hs. cbv zeta in Hs. fold cur' in Hs.
      destruct Hs as (Hge & Hall & _).
      assert (Hfc : freec (dvals prov) cur' = freec (dkeys prov) i)
        by (rewrite (freec_skip _ cur cur' Hge Hall); exact Hf).
      assert (HSi : freec (dkeys prov) (S i) = freec (dkeys prov) i + 1).
      { rewrite freec_S. destruct (memb i (dkeys prov)) eqn:Em; [apply memb_in in Em; contradiction|reflexivity]. }
      assert (HSc : freec (dvals prov) (S cur') = freec (dvals prov) cur' + 1).
      { rewrite freec_S. destruct (memb cur' (dvals prov)) eqn:Em; [apply memb_in in Em; contradiction|reflexivity]. }
      set (acc' := if Nat.eqb i cur' then acc else dset acc i cur').
      assert (Hacc' : forall z, z <> i -> dget acc' z = dget acc z).
      { intros z Hz. subst acc'. destruct (Nat.eqb i cur'); [reflexivity|].
        rewrite ws_dget_dset. destruct (Nat.eqb_spec i z); [lia|reflexivity]. }
      assert (Hacci : dget acc' i = if Nat.eqb i cur' then dget acc i else Some cur').
      { subst acc'. destruct (Nat.eqb i cur'); [reflexivity|]. rewrite ws_dget_dset, Nat.eqb_refl. reflexivity. }
      destruct (IH (S i) (S cur') acc' ltac:(lia) ltac:(lia) x) as (I1 & I2 & I3).
      split; [|split].
      * intros Hx. rewrite I1 by lia. apply Hacc'. lia.
      * intros Hx v' Hv'. assert (x <> i) by congruence. apply I2; [lia|exact Hv'].
      * intros Hx Hn. destruct (Nat.eq_dec x i) as [->|Hne].
        -- exists cur'. split; [exact Hfree|]. split; [exact Hfc|]. rewrite I1 by lia. exact Hacci.
        -- destruct (I3 ltac:(lia) Hn) as (y & Hy1 & Hy2 & Hy3).
           exists y. split; [exact Hy1|]. split; [exact Hy2|]. rewrite Hy3, Hacc' by exact Hne. reflexivity.
Qed.

(* ---------- the completed dictionary as a permutation of [0,N) ---------- *)
Section WS.
  Variables (N : nat) (prov : dict).
  Hypothesis Hnk : NoDup (dkeys prov).
  Hypothesis Hk : lt_all N (dkeys prov).
  Hypothesis Hnv : NoDup (dvals prov).
  Hypothesis Hv : lt_all N (dvals prov).
  Let sw := complete_swaps N 0 prov 0 [].
  Let F := swap_fun sw.

  Lemma ws_inv0 x :
    (N <= x -> dget sw x = None) /\
    (x < N -> forall v, dget prov x = Some v -> dget sw x = Some v) /\
    (x < N -> dget prov x = None ->
       exists y, ~ In y (dvals prov) /\ freec (dvals prov) y = freec (dkeys prov) x /\
                 dget sw x = if Nat.eqb x y then None else Some y).
  Proof.
    destruct (ws_loop_inv N prov N 0 0 [] eq_refl eq_refl x) as (I1 & I2 & I3).
    split; [|split].
    - intros H. apply (I1 (or_intror H)).
    - intros H. apply I2. lia.
    - intros H. apply I3. lia.
  Qed.

  Lemma ws_key_lt x : In x (dkeys prov) -> x < N.
  Proof. unfold lt_all in Hk. rewrite Forall_forall in Hk. apply Hk. Qed.
  Lemma ws_val_lt x : In x (dvals prov) -> x < N.
  Proof. unfold lt_all in Hv. rewrite Forall_forall in Hv. apply Hv. Qed.

  Lemma ws_sw_key x v : dget prov x = Some v -> dget sw x = Some v.
  Proof.
    intros E. destruct (ws_inv0 x) as (_ & I2 & _). apply I2; [|exact E].
    apply ws_key_lt. apply dget_some' in E. tauto.
  Qed.
  Lemma ws_F_key x v : dget prov x = Some v -> F x = v.
  Proof. intros E. unfold F, swap_fun. rewrite (ws_sw_key x v E). reflexivity. Qed.
  Lemma ws_F_big x : N <= x -> F x = x.
  Proof. intros H. unfold F, swap_fun. destruct (ws_inv0 x) as (I1 & _). rewrite (I1 H). reflexivity. Qed.
  Lemma ws_F_nonkey x : x < N -> ~ In x (dkeys prov) ->
    ~ In (F x) (dvals prov) /\ freec (dvals prov) (F x) = freec (dkeys prov) x.
  Proof.
    intros Hx Hn. apply dget_none in Hn. destruct (ws_inv0 x) as (_ & _ & I3).
    destruct (I3 Hx Hn) as (y & Hy1 & Hy2 & Hy3).
    assert (E : F x = y).
    { unfold F, swap_fun. rewrite Hy3. destruct (Nat.eqb_spec x y); [assumption|reflexivity]. }
    rewrite E. split; assumption.
  Qed.

  Lemma ws_len : length (dvals prov) = length (dkeys prov).
  Proof. unfold dvals, dkeys. rewrite !map_length. reflexivity. Qed.

  Lemma ws_F_nonkey_lt x : x < N -> ~ In x (dkeys prov) -> F x < N.
  Proof.
    intros Hx Hn. destruct (ws_F_nonkey x Hx Hn) as [_ Hf].
    destruct (Nat.lt_ge_cases (F x) N) as [Hlt|Hge]; [exact Hlt|exfalso].
    pose proof (freec_mono (dvals prov) N (F x) Hge) as Hm1.
    pose proof (ws_freec_lt (dkeys prov) x N Hn Hx) as Hm2.
    rewrite (freec_total _ N Hnv Hv) in Hm1. rewrite (freec_total _ N Hnk Hk) in Hm2.
    rewrite ws_len in Hm1. lia.
  Qed.

  Lemma ws_F_key_val x : In x (dkeys prov) -> In (F x) (dvals prov).
  Proof.
    intros Hin. destruct (dget prov x) as [v|] eqn:E.
    - rewrite (ws_F_key x v E). apply dget_some' in E. tauto.
    - apply dget_none' in E. contradiction.
  Qed.

  Lemma ws_F_lt x : x < N -> F x < N.
  Proof.
    intros Hx. destruct (in_dec Nat.eq_dec x (dkeys prov)) as [Hin|Hn].
    - apply ws_val_lt, ws_F_key_val, Hin.
    - apply ws_F_nonkey_lt; assumption.
  Qed.

  Lemma ws_F_mono i j : i < j -> j < N -> ~ In i (dkeys prov) -> ~ In j (dkeys prov) -> F i < F j.
  Proof.
    intros Hij Hj Hi Hjn.
    destruct (ws_F_nonkey i ltac:(lia) Hi) as [_ E1]. destruct (ws_F_nonkey j Hj Hjn) as [_ E2].
    apply (ws_freec_lt_inv (dvals prov)). rewrite E1, E2. apply ws_freec_lt; assumption.
  Qed.

  Lemma ws_F_inj x y : x < N -> y < N -> F x = F y -> x = y.
  Proof.
    intros Hx Hy E.
    destruct (in_dec Nat.eq_dec x (dkeys prov)) as [Hin|Hn], (in_dec Nat.eq_dec y (dkeys prov)) as [Hin'|Hn'].
    - destruct (dget prov x) as [v|] eqn:E1; [|apply dget_none' in E1; contradiction].
      destruct (dget prov y) as [v'|] eqn:E2; [|apply dget_none' in E2; contradiction].
      rewrite (ws_F_key _ _ E1), (ws_F_key _ _ E2) in E. subst v'.
      exact (ws_dget_inj prov x y v Hnv E1 E2).
    - exfalso. apply (proj1 (ws_F_nonkey y Hy Hn')). rewrite <- E. apply ws_F_key_val, Hin.
    - exfalso. apply (proj1 (ws_F_nonkey x Hx Hn)). rewrite E. apply ws_F_key_val, Hin'.
    - destruct (Nat.lt_trichotomy x y) as [Hlt|[Heq|Hgt]]; [|exact Heq|].
      + pose proof (ws_F_mono x y Hlt Hy Hn Hn'). lia.
      + pose proof (ws_F_mono y x Hgt Hx Hn' Hn). lia.
  Qed.

  Lemma ws_sw_keys_lt k : In k (dkeys sw) -> k < N.
  Proof.
    intros Hin. destruct (Nat.lt_ge_cases k N) as [Hlt|Hge]; [exact Hlt|exfalso].
    destruct (ws_inv0 k) as (I1 & _). apply (dget_none' _ _ (I1 Hge)), Hin.
  Qed.

  Lemma ws_sw_keys_nodup : NoDup (dkeys sw).
  Proof. apply ws_cs_nodup. constructor. Qed.

  Lemma ws_sw_get k v : dget sw k = Some v -> k < N /\ F k = v.
  Proof.
    intros E. split.
    - apply ws_sw_keys_lt. apply dget_some' in E. tauto.
    - unfold F, swap_fun. rewrite E. reflexivity.
  Qed.

  Lemma ws_sw_vals_nodup : NoDup (dvals sw).
  Proof.
    apply ws_vals_nodup; [exact ws_sw_keys_nodup|].
    intros a b v Ha Hb. apply ws_sw_get in Ha as [Ha1 Ha2]. apply ws_sw_get in Hb as [Hb1 Hb2].
    apply ws_F_inj; congruence.
  Qed.

  Lemma ws_sw_vals_keys v : In v (dvals sw) -> In v (dkeys sw).
  Proof.
    intros Hin. apply in_map_iff in Hin as ([k v'] & Ev & Hin). simpl in Ev. subst v'.
    pose proof (dget_in sw k v ws_sw_keys_nodup Hin) as Ek.
    destruct (ws_sw_get k v Ek) as [Hk1 Hk2].
    destruct (dget sw v) as [w|] eqn:E.
    - apply dget_some' in E. tauto.
    - exfalso. assert (Fv : F v = v) by (unfold F, swap_fun; rewrite E; reflexivity).
      assert (Hvn : v < N) by (rewrite <- Hk2; apply ws_F_lt, Hk1).
      assert (v = k) by (apply ws_F_inj; congruence). subst v. congruence.
  Qed.

  Lemma ws_sw_wf : wf_swaps N sw.
  Proof.
    split; [exact ws_sw_keys_nodup|]. split; [exact ws_sw_vals_nodup|]. split; [|exact ws_sw_keys_lt].
    intros k. split; [|apply ws_sw_vals_keys].
    assert (Hincl : incl (dkeys sw) (dvals sw)).
    { apply NoDup_length_incl; [exact ws_sw_vals_nodup| |intros v; apply ws_sw_vals_keys].
      unfold dkeys, dvals. rewrite !map_length. lia. }
    apply Hincl.
  Qed.

  Theorem ws_complete_swaps_gen :
    wf_swaps N sw /\
    (forall x v, dget prov x = Some v -> swap_fun sw x = v) /\
    (forall i, i < N -> ~ In i (dkeys prov) -> swap_fun sw i < N /\ ~ In (swap_fun sw i) (dvals prov)) /\
    (forall i j, i < j -> j < N -> ~ In i (dkeys prov) -> ~ In j (dkeys prov) -> swap_fun sw i < swap_fun sw j) /\
    (forall i, N <= i -> swap_fun sw i = i) /\
    (forall i, i < N -> swap_fun sw i < N) /\
    (forall i j, i < N -> j < N -> swap_fun sw i = swap_fun sw j -> i = j).
  Proof.
    split; [exact ws_sw_wf|]. split; [exact ws_F_key|]. split.
    { intros i Hi Hn. split; [apply ws_F_nonkey_lt; assumption|apply (ws_F_nonkey i Hi Hn)]. }
    split; [exact ws_F_mono|]. split; [exact ws_F_big|]. split; [exact ws_F_lt|exact ws_F_inj].
  Qed.
End WS.

(* 1 *)
Theorem complete_swaps_spec (n : nat) (outs ins : list nat) :
  NoDup outs -> NoDup ins -> length outs = length ins ->
  (forall x, In x outs -> x < n) -> (forall x, In x ins -> x < n) ->
  let sw := complete_swaps n 0 (dict_of (combine outs ins)) 0 [] in
  wf_swaps n sw /\
  (forall k, k < length outs -> swap_fun sw (nth k outs 0) = nth k ins 0) /\
  (forall i, i < n -> ~ In i outs -> swap_fun sw i < n /\ ~ In (swap_fun sw i) ins) /\
  (forall i j, i < j -> j < n -> ~ In i outs -> ~ In j outs -> swap_fun sw i < swap_fun sw j) /\
  (forall i, n <= i -> swap_fun sw i = i).
Proof.
  intros Hno Hni Hlen Ho Hi.
  assert (Hk : dkeys (combine outs ins) = outs) by (apply ws_combine_fst; exact Hlen).
  assert (Hv : dvals (combine outs ins) = ins) by (apply ws_combine_snd; exact Hlen).
  rewrite DisplayP.dict_of_id by (change (NoDup (dkeys (combine outs ins))); rewrite Hk; exact Hno).
  intros sw.
  assert (H1 : NoDup (dkeys (combine outs ins))) by (rewrite Hk; exact Hno).
  assert (H2 : lt_all n (dkeys (combine outs ins))) by (rewrite Hk; apply Forall_forall; exact Ho).
  assert (H3 : NoDup (dvals (combine outs ins))) by (rewrite Hv; exact Hni).
  assert (H4 : lt_all n (dvals (combine outs ins))) by (rewrite Hv; apply Forall_forall; exact Hi).
  destruct (ws_complete_swaps_gen n (combine outs ins) H1 H2 H3 H4) as (G1 & G2 & G3 & G4 & G5 & _).
  fold sw in G1, G2, G3, G4, G5. rewrite Hk in G3, G4. rewrite Hv in G3.
  split; [exact G1|]. split; [|split; [exact G3|split; [exact G4|exact G5]]].
  intros k Hlt. apply G2. apply dget_in; [exact H1|].
  rewrite <- (combine_nth outs ins k 0 0 Hlen). apply nth_In. rewrite combine_length. lia.
Qed.

(* 2 *)
Lemma swaps_keys_eq_vals_id (sw : dict) :
  NoDup (dkeys sw) -> dkeys sw = dvals sw -> forall i, swap_fun sw i = i.
Proof.
  intros _ E i. unfold swap_fun.
  induction sw as [|[k v] sw IH]; simpl in *; [reflexivity|].
  injection E as Ekv E. subst v.
  destruct (Nat.eqb_spec k i) as [->|Hne]; [reflexivity|]. apply IH, E.
Qed.

(* 2b *)
Lemma list_eqb_true (a b : list nat) : list_eqb a b = true -> a = b.
Proof. apply list_eqb_eq. Qed.

(* 3 *)
Fixpoint sasc (l : list nat) : Prop :=
  match l with [] => True | x :: l' => (forall y, In y l' -> x < y) /\ sasc l' end.

Lemma sasc_filter_seq (f : nat -> bool) a n : sasc (filter f (seq a n)).
Proof.
  revert a. induction n as [|n IH]; intros a; simpl; [exact Logic.I|].
  destruct (f a); simpl; [|apply IH].
  split; [|apply IH]. intros y Hy. apply filter_In in Hy as [Hy _]. apply in_seq in Hy. lia.
Qed.

Lemma incr_enum (A B : list nat) (g : nat -> nat) :
  sasc A -> sasc B ->
  (forall a, In a A -> In (g a) B) ->
  (forall a a', In a A -> In a' A -> a < a' -> g a < g a') ->
  (forall b a, In b B -> In a A -> b < g a -> exists a', In a' A /\ g a' = b) ->
  forall j, j < length A -> g (nth j A 0) = nth j B 0.
Proof.
  revert B. induction A as [|a A IH]; intros B HA HB Hin Hmono Hseg j Hj; simpl in Hj; [lia|].
  destruct HA as [Ha HA].
  destruct B as [|b B]; [exfalso; apply (Hin a); left; reflexivity|].
  destruct HB as [Hb HB].
  assert (Hhead : g a = b).
  { destruct (Hin a (or_introl eq_refl)) as [E|HinB]; [symmetry; exact E|exfalso].
    pose proof (Hb _ HinB) as Hlt.
    destruct (Hseg b a (or_introl eq_refl) (or_introl eq_refl) Hlt) as (a' & [<-|Ha'] & E); [lia|].
    pose proof (Hmono a a' (or_introl eq_refl) (or_intror Ha') (Ha _ Ha')). lia. }
  destruct j as [|j]; simpl; [exact Hhead|].
  apply IH; [exact HA|exact HB| | | |lia].
  - intros a' Ha'. destruct (Hin a' (or_intror Ha')) as [E|HinB]; [|exact HinB].
    exfalso. pose proof (Hmono a a' (or_introl eq_refl) (or_intror Ha') (Ha _ Ha')). lia.
  - intros x y Hx Hy. apply Hmono; right; assumption.
  - intros b' a' Hb' Ha' Hlt.
    destruct (Hseg b' a' (or_intror Hb') (or_intror Ha') Hlt) as (a'' & [<-|Ha''] & E).
    + exfalso. pose proof (Hb _ Hb'). lia.
    + exists a''. split; assumption.
Qed.
