(* Lemmas about Model/Results.v (property C17). *)
From Coq Require Import ZArith List Bool Arith Lia Permutation Ring.
From LW Require Import Base.Sx Base.Num Base.Sums Model.State Proofs.StateP Model.Results.
Import ListNotations.
Local Open Scope nat_scope.

(* ------------------------------------------------------------ state keys *)
Lemma st_eqb_refl s : st_eqb s s = true.
Proof. apply st_eqb_eq. reflexivity. Qed.

Lemma st_eqb_neq s t : st_eqb s t = false <-> s <> t.
Proof.
  split; intros H.
  - intros E. apply st_eqb_eq in E. congruence.
  - destruct (st_eqb s t) eqn:E; [|reflexivity]. apply st_eqb_eq in E. contradiction.
Qed.

Definition st_dec (s t : state) : {s = t} + {s <> t} := list_eq_dec Z.eq_dec s t.

Lemma existsb_st_eqb s l : existsb (st_eqb s) l = true <-> In s l.
Proof.
  rewrite existsb_exists. split.
  - intros [x [Hx E]]. apply st_eqb_eq in E. subst. exact Hx.
  - intros H. exists s. split; [exact H|apply st_eqb_refl].
Qed.

Lemma NoDup_snoc {A} (l : list A) (x : A) : NoDup l -> ~ In x l -> NoDup (l ++ [x]).
Proof.
  intros ND H. induction l as [|a l IH]; simpl.
  - constructor; [intros []|constructor].
  - inversion ND as [|? ? Ha ND']; subst. constructor.
    + rewrite in_app_iff. simpl. intros [H1|[H1|[]]]; [contradiction|]. subst. apply H. left. reflexivity.
    + apply IH; [exact ND'|]. intros H1. apply H. right. exact H1.
Qed.

(* ------------------------------------------------------------------ dict *)
Section DictP.
  Context {V : Type}.
  Implicit Types (d : dict V) (k : state) (v : V) (l : list (state * V)).

  Lemma dget_dset d k v k' :
    dget (dset d k v) k' = if st_eqb k k' then Some v else dget d k'.
  Proof.
    induction d as [|[k0 v0] d IH]; simpl; [reflexivity|].
    destruct (st_eqb k0 k) eqn:E; simpl.
    - apply st_eqb_eq in E. subst k0. destruct (st_eqb k k'); reflexivity.
    - destruct (st_eqb k0 k') eqn:E'; [|apply IH].
      destruct (st_eqb k k') eqn:E''; [|reflexivity].
      apply st_eqb_eq in E', E''. subst. rewrite st_eqb_refl in E. discriminate.
  Qed.

  Lemma dget_app d1 d2 k :
    dget (d1 ++ d2) k = match dget d1 k with Some v => Some v | None => dget d2 k end.
  Proof.
    induction d1 as [|[k0 v0] d1 IH]; simpl; [reflexivity|].
    destruct (st_eqb k0 k); [reflexivity|apply IH].
  Qed.

  Lemma dget_none d k : dget d k = None <-> ~ In k (dkeys d).
  Proof.
    induction d as [|[k0 v0] d IH]; simpl; [tauto|].
    destruct (st_eqb k0 k) eqn:E.
    - apply st_eqb_eq in E. subst. split; [discriminate|]. intros H. exfalso. apply H. left. reflexivity.
    - apply st_eqb_neq in E. rewrite IH. tauto.
  Qed.

  Lemma dget_in_keys d k : In k (dkeys d) <-> exists v, dget d k = Some v.
  Proof.
    split.
    - intros H. destruct (dget d k) eqn:E; [eauto|]. apply dget_none in E. contradiction.
    - intros [v E] . destruct (in_dec st_dec k (dkeys d)) as [H|H]; [exact H|].
      apply dget_none in H. congruence.
  Qed.

  Lemma dget_some_in d k v : dget d k = Some v -> In (k, v) d.
  Proof.
    induction d as [|[k0 v0] d IH]; simpl; [discriminate|].
    destruct (st_eqb k0 k) eqn:E.
    - apply st_eqb_eq in E. subst. intros [= ->]. left. reflexivity.
    - intros H. right. apply IH. exact H.
  Qed.

  Lemma dget_in_nodup d k v : NoDup (dkeys d) -> In (k, v) d -> dget d k = Some v.
  Proof.
    induction d as [|[k0 v0] d IH]; simpl; intros ND H; [contradiction|].
    inversion ND as [|? ? Hn ND']; subst.
    destruct H as [[= -> ->]|H].
    - rewrite st_eqb_refl. reflexivity.
    - destruct (st_eqb k0 k) eqn:E.
      + apply st_eqb_eq in E. subst. exfalso. apply Hn. apply (in_map fst) in H. exact H.
      + apply IH; assumption.
  Qed.

  Lemma dset_notin d k v : ~ In k (dkeys d) -> dset d k v = d ++ [(k, v)].
  Proof.
    induction d as [|[k0 v0] d IH]; simpl; intros H; [reflexivity|].
    destruct (st_eqb k0 k) eqn:E.
    - apply st_eqb_eq in E. subst. exfalso. apply H. left. reflexivity.
    - rewrite IH; [reflexivity|]. intros H'. apply H. right. exact H'.
  Qed.

  Lemma dkeys_dset_in d k v : In k (dkeys d) -> dkeys (dset d k v) = dkeys d.
  Proof.
    induction d as [|[k0 v0] d IH]; simpl; intros H; [contradiction|].
    destruct (st_eqb k0 k) eqn:E; simpl; [reflexivity|].
    apply st_eqb_neq in E. f_equal. apply IH. destruct H; [contradiction|assumption].
  Qed.

  Lemma dkeys_dset d k v :
    dkeys (dset d k v) = if in_dec st_dec k (dkeys d) then dkeys d else dkeys d ++ [k].
  Proof.
    destruct (in_dec st_dec k (dkeys d)) as [H|H].
    - apply dkeys_dset_in. exact H.
    - rewrite dset_notin by exact H. unfold dkeys. rewrite map_app. reflexivity.
  Qed.

  Lemma dkeys_dset_nodup d k v : NoDup (dkeys d) -> NoDup (dkeys (dset d k v)).
  Proof.
    intros ND. rewrite dkeys_dset. destruct (in_dec st_dec k (dkeys d)) as [H|H]; [exact ND|].
    apply NoDup_snoc; assumption.
  Qed.

  Lemma dkeys_dset_mem d k v x : In x (dkeys (dset d k v)) <-> x = k \/ In x (dkeys d).
  Proof.
    rewrite dkeys_dset. destruct (in_dec st_dec k (dkeys d)) as [H|H].
    - split; [tauto|]. intros [->|H']; assumption.
    - rewrite in_app_iff. simpl. intuition.
  Qed.

  (* ---- dict_of: {}; for k, v in l: d[k] = v ---- *)
  Let step := fun (d : dict V) (kv : state * V) => dset d (fst kv) (snd kv).

  Lemma fold_dset_get l d k :
    dget (fold_left step l d) k =
    match dget (rev l) k with Some v => Some v | None => dget d k end.
  Proof.
    revert d. induction l as [|[k1 v1] l IH]; intros d; simpl; [reflexivity|].
    rewrite IH. rewrite dget_app. destruct (dget (rev l) k); [reflexivity|].
    unfold step. simpl. rewrite dget_dset. destruct (st_eqb k1 k); reflexivity.
  Qed.

  Lemma dget_dict_of l k : dget (dict_of l) k = dget (rev l) k.
  Proof.
    unfold dict_of. fold step. rewrite fold_dset_get. destruct (dget (rev l) k); reflexivity.
  Qed.

  Lemma fold_dset_nodup l d : NoDup (dkeys d ++ map fst l) -> fold_left step l d = d ++ l.
  Proof.
    revert d. induction l as [|[k1 v1] l IH]; intros d ND; simpl.
    - rewrite app_nil_r. reflexivity.
    - unfold step at 2. simpl. simpl in ND.
      assert (Hn : ~ In k1 (dkeys d)).
      { intros H. apply NoDup_remove_2 in ND. apply ND. apply in_or_app. left. exact H. }
      rewrite dset_notin by exact Hn. rewrite IH.
      + rewrite <- app_assoc. reflexivity.
      + unfold dkeys. rewrite map_app. simpl. rewrite <- app_assoc. simpl. exact ND.
  Qed.

  Lemma dict_of_nodup l : NoDup (map fst l) -> dict_of l = l.
  Proof. intros ND. unfold dict_of. fold step. rewrite fold_dset_nodup; [reflexivity|exact ND]. Qed.

  Lemma fold_dset_keys_nodup l d : NoDup (dkeys d) -> NoDup (dkeys (fold_left step l d)).
  Proof.
    revert d. induction l as [|kv l IH]; intros d ND; simpl; [exact ND|].
    apply IH. apply dkeys_dset_nodup. exact ND.
  Qed.

  Lemma dkeys_dict_of_nodup l : NoDup (dkeys (dict_of l)).
  Proof. apply fold_dset_keys_nodup. constructor. Qed.

  Lemma fold_dset_keys_mem l d x :
    In x (dkeys (fold_left step l d)) <-> In x (dkeys d) \/ In x (map fst l).
  Proof.
    revert d. induction l as [|[k1 v1] l IH]; intros d; simpl; [tauto|].
    rewrite IH. unfold step. simpl. rewrite dkeys_dset_mem. intuition.
  Qed.

  Lemma dkeys_dict_of_mem l x : In x (dkeys (dict_of l)) <-> In x (map fst l).
  Proof. unfold dict_of. fold step. rewrite fold_dset_keys_mem. simpl. tauto. Qed.
End DictP.


(* ------------------------------------------------------- SamplingResult *)
Section SampP.
  Context {K : Type}.

  Lemma sampling_counts_exact (d : dict K) (s : state) :
    NoDup (dkeys d) ->
    exists r, samp_make d (OState s) = Ok r /\
      sp_input r = s /\ sp_outputs r = dkeys d /\ sp_dict r = d /\
      (forall k v, In (k, v) d -> samp_getitem r (ItObj (OState k)) = Ok v) /\
      (forall k, ~ In k (dkeys d) -> samp_getitem r (ItObj (OState k)) = Err KeyError).
  Proof.
    intros ND. eexists. split; [reflexivity|]. simpl. repeat split.
    - intros k v H. rewrite (dget_in_nodup d k v ND H). reflexivity.
    - intros k H. apply dget_none in H. rewrite H. reflexivity.
  Qed.

  Lemma samp_make_refuses (d : dict K) (x : pyobj) :
    (forall s, x <> OState s) -> samp_make d x = Err ResultCreationError.
  Proof. intros H. destruct x; [exfalso; eapply H; reflexivity|reflexivity|reflexivity]. Qed.

  Lemma samp_getitem_type (r : @sampres K) (it : item) :
    (forall s, it <> ItObj (OState s)) -> samp_getitem r it = Err TypeError.
  Proof.
    intros H. destruct it as [[s| |]|l]; try reflexivity. exfalso. eapply H. reflexivity.
  Qed.
End SampP.

Section RefuseP.
  Context {K : Type} (o : ops K).
  Lemma mapping_refused_amplitude ord f (r : @simres K) :
    sr_type r = Amplitude -> apply_mapping o ord f r = Err ValueError.
  Proof. intros H. unfold apply_mapping. rewrite H. reflexivity. Qed.
End RefuseP.

(* ------------------------------------------- sums over images (ring part) *)
Section ImgP.
  Context {K : Type} {o : ops K} {SR : StarRing o}.
  Let R := sr_ring (o:=o).
  Add Ring Kr17 : R.
  Local Notation "0" := (k0 o).
  Local Notation "a + b" := (kadd o a b).

  (* total weight sent to [t] by [f]: sum of the values of the entries of the
     row whose key has image [t] *)
  Definition img_sum (f : state -> state) (row : dict K) (t : state) : K :=
    suml o (filter (fun ov => st_eqb (f (fst ov)) t) row) snd.
  Definition row_total (row : dict K) : K := suml o row snd.

  Lemma suml_filter {A} (l : list A) (p : A -> bool) g :
    suml o (filter p l) g = suml o l (fun a => if p a then g a else 0).
  Proof.
    induction l as [|a l IH]; simpl; [reflexivity|].
    destruct (p a); simpl; rewrite IH; ring.
  Qed.

  Lemma suml_all_zero {A} (l : list A) g : (forall a, In a l -> g a = 0) -> suml o l g = 0.
  Proof. intros H. rewrite (suml_ext l g (fun _ => 0)) by exact H. apply suml_zero. Qed.

  Lemma suml_map {A B} (h : A -> B) (l : list A) g : suml o (map h l) g = suml o l (fun a => g (h a)).
  Proof. induction l as [|a l IH]; simpl; [reflexivity|]. rewrite IH. reflexivity. Qed.

  Lemma suml_delta (p : state -> bool) ts x (v : K) :
    NoDup ts -> In x ts ->
    suml o ts (fun t => if p t && st_eqb x t then v else 0) = if p x then v else 0.
  Proof.
    induction ts as [|a ts IH]; intros ND Hin; [contradiction|].
    inversion ND as [|? ? Hna ND']; subst. simpl.
    destruct (st_dec x a) as [->|Hne].
    - rewrite st_eqb_refl, andb_true_r. rewrite suml_all_zero.
      + destruct (p a); ring.
      + intros t Ht. assert (E : st_eqb a t = false).
        { apply st_eqb_neq. intros ->. contradiction. }
        rewrite E, andb_false_r. reflexivity.
    - assert (E : st_eqb x a = false) by (apply st_eqb_neq; exact Hne).
      rewrite E, andb_false_r. rewrite IH.
      + ring.
      + exact ND'.
      + destruct Hin as [Hin|Hin]; [congruence|exact Hin].
  Qed.

  Lemma img_sum_nil f t : img_sum f [] t = 0.
  Proof. reflexivity. Qed.

  Lemma img_sum_cons f o1 v1 row t :
    img_sum f ((o1, v1) :: row) t = (if st_eqb (f o1) t then v1 else 0) + img_sum f row t.
  Proof. unfold img_sum. simpl. destruct (st_eqb (f o1) t); simpl; ring. Qed.

  Lemma img_sum_none f row t :
    existsb (fun ov => st_eqb (f (fst ov)) t) row = false -> img_sum f row t = 0.
  Proof.
    intros H. unfold img_sum. rewrite suml_filter. apply suml_all_zero. intros a Ha.
    destruct (st_eqb (f (fst a)) t) eqn:E; [|reflexivity].
    assert (X : existsb (fun ov => st_eqb (f (fst ov)) t) row = true).
    { apply existsb_exists. exists a. split; assumption. }
    congruence.
  Qed.

  (* regrouping: summing the image sums over the (distinct) images [ts], with
     a selector [p] on images, is summing the selected entries of the row *)
  Lemma img_partition f (p : state -> bool) ts (row : dict K) :
    NoDup ts -> (forall ov, In ov row -> In (f (fst ov)) ts) ->
    suml o ts (fun t => if p t then img_sum f row t else 0) =
    suml o (filter (fun ov => p (f (fst ov))) row) snd.
  Proof.
    intros ND. induction row as [|[o1 v1] row IH]; intros Hin.
    - simpl. apply suml_all_zero. intros t _. destruct (p t); reflexivity.
    - assert (E : suml o ts (fun t => if p t then img_sum f ((o1, v1) :: row) t else 0) =
                  suml o ts (fun t => (if p t && st_eqb (f o1) t then v1 else 0)
                                      + (if p t then img_sum f row t else 0))).
      { apply suml_ext. intros t _. rewrite img_sum_cons.
        destruct (p t), (st_eqb (f o1) t); simpl; ring. }
      rewrite E, suml_add. rewrite IH by (intros ov H; apply Hin; right; exact H).
      rewrite suml_delta; [|exact ND|apply (Hin (o1, v1)); left; reflexivity].
      simpl. destruct (p (f o1)); simpl; ring.
  Qed.

  Lemma filter_true {A} (l : list A) : filter (fun _ => true) l = l.
  Proof. induction l as [|a l IH]; simpl; [reflexivity|]. rewrite IH. reflexivity. Qed.

  (* a dictionary with distinct keys, summed through its keys *)
  Lemma suml_dict_keys (d : dict K) (p : state -> bool) :
    NoDup (dkeys d) ->
    suml o (filter (fun ov => p (fst ov)) d) snd =
    suml o (dkeys d) (fun t => if p t then cell o d t else 0).
  Proof.
    induction d as [|[k v] d IH]; intros ND; [reflexivity|].
    inversion ND as [|? ? Hn ND']; subst.
    assert (E : suml o (dkeys d) (fun t => if p t then cell o ((k, v) :: d) t else 0) =
                suml o (dkeys d) (fun t => if p t then cell o d t else 0)).
    { apply suml_ext. intros t Ht. unfold cell. simpl.
      assert (X : st_eqb k t = false) by (apply st_eqb_neq; intros ->; contradiction).
      rewrite X. reflexivity. }
    cbn [dkeys map fst suml fold_right]. fold (dkeys d).
    change (fold_right (fun a acc => (if p a then cell o ((k, v) :: d) a else 0) + acc) 0 (dkeys d))
      with (suml o (dkeys d) (fun t => if p t then cell o ((k, v) :: d) t else 0)).
    rewrite E, <- IH by exact ND'.
    unfold cell at 1. simpl. rewrite st_eqb_refl. destruct (p k); simpl; ring.
  Qed.

  (* ---- map_row ---- *)
  Definition mstep (f : state -> state) (m : dict K) (ov : state * K) : dict K :=
    let t := f (fst ov) in
    match dget m t with
    | Some w => dset m t (w + snd ov)
    | None => dset m t (snd ov)
    end.

  Lemma map_row_unfold f row : map_row o f row = fold_left (mstep f) row [].
  Proof. reflexivity. Qed.

  Lemma mstep_get f m ov t :
    dget (mstep f m ov) t =
    if st_eqb (f (fst ov)) t
    then Some (match dget m (f (fst ov)) with Some w => w + snd ov | None => snd ov end)
    else dget m t.
  Proof. unfold mstep. simpl. destruct (dget m (f (fst ov))); rewrite dget_dset; reflexivity. Qed.

  Lemma map_row_fold_get f l m t :
    dget (fold_left (mstep f) l m) t =
    match dget m t with
    | Some w => Some (w + img_sum f l t)
    | None => if existsb (fun ov => st_eqb (f (fst ov)) t) l then Some (img_sum f l t) else None
    end.
  Proof.
    revert m. induction l as [|[o1 v1] l IH]; intros m.
    - cbn [fold_left existsb]. rewrite img_sum_nil. destruct (dget m t); [f_equal; ring|reflexivity].
    - cbn [fold_left existsb]. rewrite IH, mstep_get, img_sum_cons. cbn [fst snd].
      destruct (st_eqb (f o1) t) eqn:E.
      + apply st_eqb_eq in E. subst t. cbn [orb].
        destruct (dget m (f o1)); f_equal; ring.
      + cbn [orb]. destruct (dget m t); [f_equal; ring|].
        destruct (existsb (fun ov => st_eqb (f (fst ov)) t) l); [f_equal; ring|reflexivity].
  Qed.

  Lemma map_row_get f row t :
    dget (map_row o f row) t =
    if existsb (fun ov => st_eqb (f (fst ov)) t) row then Some (img_sum f row t) else None.
  Proof. rewrite map_row_unfold, map_row_fold_get. reflexivity. Qed.

  Lemma cell_map_row f row t : cell o (map_row o f row) t = img_sum f row t.
  Proof.
    unfold cell. rewrite map_row_get.
    destruct (existsb (fun ov => st_eqb (f (fst ov)) t) row) eqn:E; [reflexivity|].
    symmetry. apply img_sum_none. exact E.
  Qed.

  Lemma map_row_keys f row t :
    In t (dkeys (map_row o f row)) <-> exists ov, In ov row /\ f (fst ov) = t.
  Proof.
    rewrite dget_in_keys, map_row_get. split.
    - intros [v H]. destruct (existsb (fun ov => st_eqb (f (fst ov)) t) row) eqn:E; [|discriminate].
      apply existsb_exists in E. destruct E as [ov [H1 H2]]. apply st_eqb_eq in H2. eauto.
    - intros [ov [H1 H2]].
      assert (E : existsb (fun ov => st_eqb (f (fst ov)) t) row = true).
      { apply existsb_exists. exists ov. split; [exact H1|]. apply st_eqb_eq. exact H2. }
      rewrite E. eauto.
  Qed.

  Lemma mstep_keys_nodup f m ov : NoDup (dkeys m) -> NoDup (dkeys (mstep f m ov)).
  Proof. intros H. unfold mstep. simpl. destruct (dget m (f (fst ov))); apply dkeys_dset_nodup; exact H. Qed.

  Lemma map_row_keys_nodup f row : NoDup (dkeys (map_row o f row)).
  Proof.
    rewrite map_row_unfold. assert (G : forall l m, NoDup (dkeys m) -> NoDup (dkeys (fold_left (mstep f) l m))).
    { induction l as [|a l IH]; intros m H; simpl; [exact H|]. apply IH. apply mstep_keys_nodup. exact H. }
    apply G. constructor.
  Qed.

  (* the mapped row, summed, is the row, summed (weight conservation) *)
  Lemma map_row_total f row : row_total (map_row o f row) = row_total row.
  Proof.
    unfold row_total.
    pose proof (suml_dict_keys (map_row o f row) (fun _ => true) (map_row_keys_nodup f row)) as H.
    rewrite filter_true in H. rewrite H.
    rewrite (suml_ext _ _ (fun t => if true then img_sum f row t else 0))
      by (intros t _; rewrite cell_map_row; reflexivity).
    rewrite (img_partition f (fun _ => true) _ row (map_row_keys_nodup f row)).
    - rewrite filter_true. reflexivity.
    - intros ov Hov. apply map_row_keys. eauto.
  Qed.

  (* mapping a mapped row = mapping once with the composed function *)
  Lemma map_row_compose f g h row u :
    (forall s, g (f s) = h s) ->
    img_sum g (map_row o f row) u = img_sum h row u.
  Proof.
    intros Hc. unfold img_sum at 1.
    rewrite (suml_dict_keys (map_row o f row) (fun t => st_eqb (g t) u) (map_row_keys_nodup f row)).
    rewrite (suml_ext _ _ (fun t => if st_eqb (g t) u then img_sum f row t else 0))
      by (intros t _; rewrite cell_map_row; reflexivity).
    rewrite (img_partition f (fun t => st_eqb (g t) u) _ row (map_row_keys_nodup f row)).
    - unfold img_sum. f_equal. apply filter_ext. intros ov. rewrite Hc. reflexivity.
    - intros ov Hov. apply map_row_keys. eauto.
  Qed.
End ImgP.

(* ------------------------------------------------------ generic list facts *)
Lemma combine_fst {A B} (l : list A) (l' : list B) :
  length l = length l' -> map fst (combine l l') = l.
Proof.
  revert l'. induction l as [|a l IH]; intros [|b l'] H; simpl in *; try discriminate; [reflexivity|].
  f_equal. apply IH. lia.
Qed.

Lemma combine_map_graph {A B} (h : A -> B) (l : list A) :
  combine l (map h l) = map (fun x => (x, h x)) l.
Proof. induction l as [|a l IH]; simpl; [reflexivity|]. rewrite IH. reflexivity. Qed.

Lemma res_map_ok {A B} (F : A -> res B) (G : A -> B) (l : list A) :
  (forall a, In a l -> F a = Ok (G a)) -> res_map F l = Ok (map G l).
Proof.
  induction l as [|a l IH]; intros H; simpl; [reflexivity|].
  rewrite H by (left; reflexivity). simpl.
  rewrite IH by (intros; apply H; right; assumption). reflexivity.
Qed.

Lemma dget_graph_in {V} (c : state -> V) (l : list state) t :
  In t l -> dget (map (fun x => (x, c x)) l) t = Some (c t).
Proof.
  induction l as [|x l IH]; intros H; [contradiction|]. simpl.
  destruct (st_eqb x t) eqn:E.
  - apply st_eqb_eq in E. subst. reflexivity.
  - apply st_eqb_neq in E. apply IH. destruct H; [contradiction|assumption].
Qed.

Lemma dkeys_graph {V} (c : state -> V) (l : list state) : dkeys (map (fun x => (x, c x)) l) = l.
Proof. unfold dkeys. rewrite map_map. simpl. apply map_id. Qed.

Lemma dget_graph_notin {V} (c : state -> V) (l : list state) t :
  ~ In t l -> dget (map (fun x => (x, c x)) l) t = None.
Proof. intros H. apply dget_none. rewrite dkeys_graph. exact H. Qed.

Lemma dget_rev_graph_in {V} (c : state -> V) (l : list state) t :
  In t l -> dget (rev (map (fun x => (x, c x)) l)) t = Some (c t).
Proof. intros H. rewrite <- map_rev. apply dget_graph_in. apply in_rev in H. exact H. Qed.

Lemma dget_rev_graph_notin {V} (c : state -> V) (l : list state) t :
  ~ In t l -> dget (rev (map (fun x => (x, c x)) l)) t = None.
Proof. intros H. rewrite <- map_rev. apply dget_graph_notin. intros H'. apply H. apply in_rev. exact H'. Qed.

(* the entry of a (possibly repeated) key that a dict built by successive
   assignment keeps: the LAST one *)
Definition is_last (l : list state) (a : nat) (k : state) : Prop :=
  nth_error l a = Some k /\ forall a', a < a' -> nth_error l a' <> Some k.

Lemma NoDup_is_last l a k : NoDup l -> nth_error l a = Some k -> is_last l a k.
Proof.
  intros ND H. split; [exact H|]. intros a' Hlt H'.
  rewrite NoDup_nth_error in ND. assert (E : a = a').
  { apply ND; [apply nth_error_Some; congruence|congruence]. }
  lia.
Qed.

Lemma dget_rev_combine_last {V} (ks : list state) (vs : list V) a k v :
  length ks = length vs -> nth_error ks a = Some k -> nth_error vs a = Some v ->
  (forall a', a < a' -> nth_error ks a' <> Some k) ->
  dget (rev (combine ks vs)) k = Some v.
Proof.
  revert vs a. induction ks as [|k0 ks IH]; intros vs a Hl Hk Hv Hlast.
  - destruct a; discriminate.
  - destruct vs as [|v0 vs]; [discriminate|]. simpl. rewrite dget_app. destruct a as [|a].
    + simpl in Hk, Hv. injection Hk as ->. injection Hv as ->.
      assert (N : dget (rev (combine ks vs)) k = None).
      { apply dget_none. intros H. unfold dkeys in H. apply in_map_iff in H.
        destruct H as [[k' v'] [E H]]. simpl in E. subst k'. apply in_rev in H.
        apply in_combine_l in H. apply In_nth_error in H. destruct H as [n Hn].
        apply (Hlast (S n)); [lia|exact Hn]. }
      rewrite N. simpl. rewrite st_eqb_refl. reflexivity.
    + simpl in Hk, Hv. rewrite (IH vs a); [reflexivity|simpl in Hl; lia|exact Hk|exact Hv|].
      intros a' Ha'. apply (Hlast (S a')). lia.
Qed.

(* ----------------------------------- construction, indexing, recombination *)
Section SimP.
  Context {K : Type} {o : ops K} {SR : StarRing o}.

  (* admissible iteration orders of the python set *)
  Definition ord_ok (ord : list state -> list state) : Prop := forall l, Permutation l (ord l).

  (* what __init__ establishes *)
  Definition WF (r : @simres K) : Prop :=
    length (sr_array r) = length (sr_inputs r) /\
    Forall (fun rw => length rw = length (sr_outputs r)) (sr_array r) /\
    sr_dict r = build_dict (sr_inputs r) (sr_outputs r) (sr_array r) /\
    sr_ncols r = length (sr_outputs r).

  Lemma np_array_shape a n m rows :
    np_array o a = Ok (Sh2 n m, rows) -> length rows = n /\ Forall (fun rw => length rw = m) rows.
  Proof.
    destruct a as [rows0|l|x|n0 m0]; simpl.
    - destruct rows0 as [|r rs]; [intros H; discriminate H|].
      destruct (forallb (fun r' => Nat.eqb (length r') (length r)) rs) eqn:E; [|intros H; discriminate H].
      intros H. injection H as <- <- <-. split; [reflexivity|]. constructor; [reflexivity|].
      rewrite forallb_forall in E. apply Forall_forall. intros x Hx. apply Nat.eqb_eq. apply E. exact Hx.
    - intros H. discriminate H.
    - intros H. discriminate H.
    - intros H. injection H as <- <- <-. split; [apply repeat_length|].
      apply Forall_forall. intros x Hx. apply repeat_spec in Hx. subst. apply repeat_length.
  Qed.

  Lemma sim_of_array_ok rt sh rows ins outs (r : @simres K) :
    sim_of_array rt sh rows ins outs = Ok r ->
    sh = Sh2 (length ins) (length outs) /\
    r = mkSim rt (length outs) rows ins outs (build_dict ins outs rows).
  Proof.
    destruct sh as [|n|n m]; simpl.
    - intros H. discriminate H.
    - destruct (Nat.eqb (length ins) n); intros H; discriminate H.
    - destruct (Nat.eqb (length ins) n) eqn:E1; simpl; [|intros H; discriminate H].
      destruct (Nat.eqb (length outs) m) eqn:E2; simpl; [|intros H; discriminate H].
      apply Nat.eqb_eq in E1, E2. subst. intros H. injection H as <-. split; reflexivity.
  Qed.

  Lemma sim_make_ok rt a ins outs (r : @simres K) :
    sim_make o rt a ins outs = Ok r ->
    rt <> BadType /\ exists rows,
      np_array o a = Ok (Sh2 (length ins) (length outs), rows) /\
      r = mkSim rt (length outs) rows ins outs (build_dict ins outs rows).
  Proof.
    unfold sim_make. destruct rt; try (intros H; discriminate H);
      (destruct (np_array o a) as [[sh rows]|e] eqn:E; simpl; [|intros H; discriminate H];
       intros H; apply sim_of_array_ok in H; destruct H as [-> ->];
       split; [discriminate|]; exists rows; split; reflexivity).
  Qed.

  Lemma sim_make_wf rt a ins outs r : sim_make o rt a ins outs = Ok r -> WF r.
  Proof.
    intros H. apply sim_make_ok in H. destruct H as [_ [rows [Ha ->]]].
    apply np_array_shape in Ha. destruct Ha as [H1 H2]. unfold WF. simpl. repeat split; assumption.
  Qed.

  (* ---- lookups in the nested dictionary ---- *)
  Lemma build_dict_get_in ins outs (rows : list (list K)) i :
    length rows = length ins -> In i ins -> exists row, dget (build_dict ins outs rows) i = Some row.
  Proof.
    intros Hl Hi. apply dget_in_keys. unfold build_dict. apply dkeys_dict_of_mem.
    rewrite combine_fst; [exact Hi|]. rewrite map_length. symmetry. exact Hl.
  Qed.

  Lemma build_dict_get_some ins outs (rows : list (list K)) i row :
    dget (build_dict ins outs rows) i = Some row ->
    In i ins /\ exists rw, In rw rows /\ row = build_row outs rw.
  Proof.
    unfold build_dict. rewrite dget_dict_of. intros H. apply dget_some_in in H. apply in_rev in H.
    split; [eapply in_combine_l; exact H|]. apply in_combine_r in H. apply in_map_iff in H.
    destruct H as [rw [E Hin]]. exists rw. split; [exact Hin|symmetry; exact E].
  Qed.

  Lemma build_row_keys outs (rw : list K) t :
    length rw = length outs -> (In t (dkeys (build_row outs rw)) <-> In t outs).
  Proof.
    intros Hl. unfold build_row. rewrite dkeys_dict_of_mem. rewrite combine_fst by (symmetry; exact Hl). tauto.
  Qed.

  Lemma WF_get_in r i : WF r -> In i (sr_inputs r) -> exists row, dget (sr_dict r) i = Some row.
  Proof. intros (Hl & _ & Hd & _) Hi. rewrite Hd. apply build_dict_get_in; assumption. Qed.

  Lemma WF_get_some r i row :
    WF r -> dget (sr_dict r) i = Some row ->
    In i (sr_inputs r) /\ NoDup (dkeys row) /\ forall t, In t (dkeys row) <-> In t (sr_outputs r).
  Proof.
    intros (Hl & Hr & Hd & _) H. rewrite Hd in H. apply build_dict_get_some in H.
    destruct H as [Hi [rw [Hin ->]]]. split; [exact Hi|]. split; [apply dkeys_dict_of_nodup|].
    intros t. apply build_row_keys. rewrite Forall_forall in Hr. apply Hr. exact Hin.
  Qed.

  Lemma WF_get_none r i : WF r -> dget (sr_dict r) i = None -> ~ In i (sr_inputs r).
  Proof. intros W H Hi. destruct (WF_get_in r i W Hi) as [row E]. congruence. Qed.

  Lemma WF_dict_nodup r : WF r -> NoDup (dkeys (sr_dict r)).
  Proof. intros (_ & _ & Hd & _). rewrite Hd. apply dkeys_dict_of_nodup. Qed.

  (* ---- index coherence ---- *)
  Lemma getitem_pair (r : @simres K) i t :
    sim_getitem r (ItTuple [OState i; OState t]) =
    match dget (sr_dict r) i with
    | Some row => match dget row t with Some v => Ok (GVal v) | None => Err KeyError end
    | None => Err KeyError
    end.
  Proof. simpl. unfold get_input. destruct (dget (sr_dict r) i); reflexivity. Qed.

  Lemma getitem_state (r : @simres K) i :
    sim_getitem r (ItObj (OState i)) =
    match dget (sr_dict r) i with Some row => Ok (GRow row) | None => Err KeyError end.
  Proof. simpl. unfold get_input. destruct (dget (sr_dict r) i); reflexivity. Qed.

  Lemma getitem_state_inv (r : @simres K) i row :
    sim_getitem r (ItObj (OState i)) = Ok (GRow row) -> dget (sr_dict r) i = Some row.
  Proof.
    rewrite getitem_state. destruct (dget (sr_dict r) i); intros H; [|discriminate H].
    injection H as ->. reflexivity.
  Qed.

  Lemma index_last_wins_wf r a b i t :
    WF r -> is_last (sr_inputs r) a i -> is_last (sr_outputs r) b t ->
    exists v row, arr_at (sr_array r) a b = Some v /\
      sim_getitem r (ItTuple [OState i; OState t]) = Ok (GVal v) /\
      sim_getitem r (ItObj (OState i)) = Ok (GRow row) /\
      dget row t = Some v.
  Proof.
    intros (Hl & Hr & Hd & _) [Ha La] [Hb Lb].
    destruct r as [rt nc rows ins outs dct]. simpl in Hl, Hr, Hd, Ha, La, Hb, Lb.
    assert (Ea : exists rw, nth_error rows a = Some rw).
    { destruct (nth_error rows a) eqn:E; [eauto|]. apply nth_error_None in E.
      assert (a < length ins) by (apply nth_error_Some; congruence). lia. }
    destruct Ea as [rw Erw].
    assert (Lrw : length rw = length outs).
    { rewrite Forall_forall in Hr. apply Hr. eapply nth_error_In. exact Erw. }
    assert (Eb : exists v, nth_error rw b = Some v).
    { destruct (nth_error rw b) eqn:E; [eauto|]. apply nth_error_None in E.
      assert (b < length outs) by (apply nth_error_Some; congruence). lia. }
    destruct Eb as [v Ev].
    assert (D1 : dget dct i = Some (build_row outs rw)).
    { rewrite Hd. unfold build_dict. rewrite dget_dict_of. apply (dget_rev_combine_last _ _ a).
      - rewrite map_length. symmetry. exact Hl.
      - exact Ha.
      - apply map_nth_error. exact Erw.
      - exact La. }
    assert (D2 : dget (build_row outs rw) t = Some v).
    { unfold build_row. rewrite dget_dict_of. apply (dget_rev_combine_last _ _ b); auto. }
    exists v, (build_row outs rw). repeat split.
    - unfold arr_at. simpl. rewrite Erw. exact Ev.
    - rewrite getitem_pair. simpl. rewrite D1, D2. reflexivity.
    - rewrite getitem_state. simpl. rewrite D1. reflexivity.
    - exact D2.
  Qed.

  Lemma index_coherent_wf r :
    WF r -> NoDup (sr_inputs r) -> NoDup (sr_outputs r) ->
    dkeys (sr_dict r) = sr_inputs r /\
    forall a b i t, nth_error (sr_inputs r) a = Some i -> nth_error (sr_outputs r) b = Some t ->
      exists v row, arr_at (sr_array r) a b = Some v /\
        sim_getitem r (ItTuple [OState i; OState t]) = Ok (GVal v) /\
        sim_getitem r (ItObj (OState i)) = Ok (GRow row) /\
        dkeys row = sr_outputs r /\ dget row t = Some v.
  Proof.
    intros W NDi NDo. pose proof W as (Hl & Hr & Hd & _). split.
    { rewrite Hd. unfold build_dict. rewrite dict_of_nodup.
      - unfold dkeys. apply combine_fst. rewrite map_length. symmetry. exact Hl.
      - rewrite combine_fst; [exact NDi|]. rewrite map_length. symmetry. exact Hl. }
    intros a b i t Ha Hb.
    destruct (index_last_wins_wf r a b i t W (NoDup_is_last _ _ _ NDi Ha) (NoDup_is_last _ _ _ NDo Hb))
      as (v & row & E1 & E2 & E3 & E4).
    exists v, row. repeat split; try assumption.
    apply getitem_state_inv in E3. rewrite Hd in E3.
    apply build_dict_get_some in E3. destruct E3 as [_ [rw [Hin ->]]].
    assert (Lrw : length rw = length (sr_outputs r)) by (rewrite Forall_forall in Hr; apply Hr; exact Hin).
    unfold build_row. rewrite dict_of_nodup.
    - unfold dkeys. apply combine_fst. symmetry. exact Lrw.
    - rewrite combine_fst; [exact NDo|symmetry; exact Lrw].
  Qed.

  Lemma sim_make_fields rt arg ins outs r :
    sim_make o rt arg ins outs = Ok r ->
    sr_type r = rt /\ sr_inputs r = ins /\ sr_outputs r = outs /\
    np_array o arg = Ok (Sh2 (length ins) (length outs), sr_array r).
  Proof.
    intros H. apply sim_make_ok in H. destruct H as [_ [rows [Hnp ->]]]. simpl. repeat split. exact Hnp.
  Qed.

  (* ---- the set of mapped outputs ---- *)
  Lemma add_new_in acc s x : In x (add_new acc s) <-> In x acc \/ x = s.
  Proof.
    unfold add_new. destruct (existsb (st_eqb s) acc) eqn:E.
    - apply existsb_st_eqb in E. split; [tauto|]. intros [H| ->]; assumption.
    - rewrite in_app_iff. simpl. split.
      + intros [H|[H|[]]]; [left; exact H|right; symmetry; exact H].
      + intros [H|H]; [left; exact H|right; left; symmetry; exact H].
  Qed.

  Lemma add_new_nodup acc s : NoDup acc -> NoDup (add_new acc s).
  Proof.
    unfold add_new. destruct (existsb (st_eqb s) acc) eqn:E; [auto|]. intros ND.
    apply NoDup_snoc; [exact ND|]. intros Hin. apply existsb_st_eqb in Hin. congruence.
  Qed.

  Lemma inner_fold_in (row : dict K) acc x :
    In x (fold_left (fun acc' ov => add_new acc' (fst ov)) row acc) <-> In x acc \/ In x (dkeys row).
  Proof.
    revert acc. induction row as [|[k v] row IH]; intros acc; simpl; [tauto|].
    rewrite IH, add_new_in. simpl. split.
    - intros [[H|H]|H]; [left; exact H|right; left; symmetry; exact H|right; right; exact H].
    - intros [H|[H|H]]; [left; left; exact H|left; right; symmetry; exact H|right; exact H].
  Qed.

  Lemma inner_fold_nodup (row : dict K) acc :
    NoDup acc -> NoDup (fold_left (fun acc' ov => add_new acc' (fst ov)) row acc).
  Proof.
    revert acc. induction row as [|[k v] row IH]; intros acc ND; simpl; [exact ND|].
    apply IH. apply add_new_nodup. exact ND.
  Qed.

  Lemma outer_fold_in (m : dict (dict K)) acc x :
    In x (fold_left (fun acc ir => fold_left (fun acc' ov => add_new acc' (fst ov)) (snd ir) acc) m acc)
    <-> In x acc \/ exists ir, In ir m /\ In x (dkeys (snd ir)).
  Proof.
    revert acc. induction m as [|ir m IH]; intros acc; simpl.
    - split; [tauto|]. intros [H|[ir [[] _]]]. exact H.
    - rewrite IH, inner_fold_in. split.
      + intros [[H|H]|[ir' [H1 H2]]]; [left; exact H|right; exists ir; split; [left; reflexivity|exact H]|].
        right. exists ir'. split; [right; exact H1|exact H2].
      + intros [H|[ir' [[->|H1] H2]]]; [left; left; exact H|left; right; exact H2|].
        right. exists ir'. split; assumption.
  Qed.

  Lemma unique_outputs_in (m : dict (dict K)) x :
    In x (unique_outputs m) <-> exists ir, In ir m /\ In x (dkeys (snd ir)).
  Proof. unfold unique_outputs. rewrite outer_fold_in. simpl. tauto. Qed.

  Lemma unique_outputs_nodup (m : dict (dict K)) : NoDup (unique_outputs m).
  Proof.
    unfold unique_outputs.
    assert (G : forall (m : dict (dict K)) acc, NoDup acc ->
      NoDup (fold_left (fun acc ir => fold_left (fun acc' ov => add_new acc' (fst ov)) (snd ir) acc) m acc)).
    { induction m0 as [|ir m0 IH]; intros acc ND; simpl; [exact ND|]. apply IH. apply inner_fold_nodup. exact ND. }
    apply G. constructor.
  Qed.

  Lemma dget_map_all f (d : dict (dict K)) i :
    dget (map_all o f d) i = option_map (map_row o f) (dget d i).
  Proof.
    induction d as [|[k row] d IH]; simpl; [reflexivity|].
    destruct (st_eqb k i); [reflexivity|exact IH].
  Qed.

  (* ---- recombination ---- *)
  Lemma recombine_ok ord (r : @simres K) m (G : state -> list K) :
    (forall i, In i (sr_inputs r) ->
       exists row, dget m i = Some row /\ G i = map (cell o row) (ord (unique_outputs m))) ->
    recombine o ord r m =
    Ok (mkSim (sr_type r) (length (ord (unique_outputs m))) (map G (sr_inputs r)) (sr_inputs r)
              (ord (unique_outputs m))
              (build_dict (sr_inputs r) (ord (unique_outputs m)) (map G (sr_inputs r)))).
  Proof.
    intros H. unfold recombine. cbv zeta. rewrite (res_map_ok _ G).
    - simpl. rewrite !Nat.eqb_refl. reflexivity.
    - intros i Hi. destruct (H i Hi) as [row [E1 E2]]. rewrite E1, E2. reflexivity.
  Qed.

  (* a row built from the values of a function on distinct outputs *)
  Definition graph (outs : list state) (c : state -> K) : dict K := map (fun t => (t, c t)) outs.

  Lemma build_row_graph outs (c : state -> K) : NoDup outs -> build_row outs (map c outs) = graph outs c.
  Proof.
    intros ND. unfold build_row, graph. rewrite combine_map_graph. apply dict_of_nodup.
    change (map fst (map (fun x => (x, c x)) outs)) with (dkeys (map (fun x => (x, c x)) outs)).
    rewrite dkeys_graph. exact ND.
  Qed.

  (* structure of a mapped result: same inputs; outputs = the distinct images,
     in the order chosen by [ord]; the row of input i is the graph of the image
     sums of the old row of i *)
  Lemma apply_mapping_struct ord f (r : @simres K) :
    WF r -> sr_type r <> Amplitude -> ord_ok ord ->
    exists r', apply_mapping o ord f r = Ok r' /\ WF r' /\
      sr_type r' = sr_type r /\ sr_inputs r' = sr_inputs r /\
      NoDup (sr_outputs r') /\
      (forall t, In t (sr_outputs r') <->
                 exists i row ov, dget (sr_dict r) i = Some row /\ In ov row /\ f (fst ov) = t) /\
      (forall i row, dget (sr_dict r) i = Some row ->
                     dget (sr_dict r') i = Some (graph (sr_outputs r') (img_sum (o:=o) f row))) /\
      (forall i, dget (sr_dict r) i = None -> dget (sr_dict r') i = None).
  Proof.
    intros W Hty Hord.
    set (m := map_all o f (sr_dict r)).
    set (outs' := ord (unique_outputs m)).
    set (rowof := fun i => match dget (sr_dict r) i with Some row => row | None => [] end).
    set (G := fun i => map (cell o (map_row o f (rowof i))) outs').
    assert (ND : NoDup outs').
    { unfold outs'. eapply Permutation_NoDup; [apply Hord|apply unique_outputs_nodup]. }
    assert (Hrec : recombine o ord r m =
                   Ok (mkSim (sr_type r) (length outs') (map G (sr_inputs r)) (sr_inputs r) outs'
                             (build_dict (sr_inputs r) outs' (map G (sr_inputs r))))).
    { apply recombine_ok. intros i Hi. destruct (WF_get_in r i W Hi) as [row E].
      exists (map_row o f row). split.
      - unfold m. rewrite dget_map_all, E. reflexivity.
      - unfold G, rowof. rewrite E. reflexivity. }
    exists (mkSim (sr_type r) (length outs') (map G (sr_inputs r)) (sr_inputs r) outs'
                  (build_dict (sr_inputs r) outs' (map G (sr_inputs r)))).
    split.
    { unfold apply_mapping. fold m. destruct (sr_type r); [exact Hrec|contradiction|exact Hrec]. }
    assert (Hget : forall i, dget (build_dict (sr_inputs r) outs' (map G (sr_inputs r))) i =
                             if in_dec st_dec i (sr_inputs r)
                             then Some (graph outs' (img_sum (o:=o) f (rowof i))) else None).
    { intros i. unfold build_dict. rewrite map_map, combine_map_graph, dget_dict_of.
      destruct (in_dec st_dec i (sr_inputs r)) as [Hi|Hi].
      - rewrite (dget_rev_graph_in (fun i => build_row outs' (G i))) by exact Hi. f_equal.
        unfold G. rewrite build_row_graph by exact ND. unfold graph. apply map_ext.
        intros t. rewrite cell_map_row. reflexivity.
      - apply dget_rev_graph_notin. exact Hi. }
    simpl. split; [|split; [reflexivity|split; [reflexivity|split; [exact ND|split; [|split]]]]].
    - unfold WF. simpl. rewrite map_length. repeat split.
      apply Forall_forall. intros rw Hrw. apply in_map_iff in Hrw. destruct Hrw as [i [<- _]].
      unfold G. apply map_length.
    - intros t. unfold outs'. split.
      + intros Ht. apply (Permutation_in _ (Permutation_sym (Hord _))) in Ht.
        apply unique_outputs_in in Ht. destruct Ht as [[i mrow] [Hin Hk]]. simpl in Hk.
        unfold m, map_all in Hin. apply in_map_iff in Hin. destruct Hin as [[i' row] [E Hin]].
        simpl in E. injection E as -> <-. apply map_row_keys in Hk. destruct Hk as [ov [H1 H2]].
        exists i, row, ov. split; [|split; assumption].
        apply dget_in_nodup; [apply WF_dict_nodup; exact W|exact Hin].
      + intros (i & row & ov & H1 & H2 & H3). apply (Permutation_in _ (Hord _)).
        apply unique_outputs_in. exists (i, map_row o f row). split.
        * unfold m, map_all. apply in_map_iff. exists (i, row). split; [reflexivity|].
          apply dget_some_in. exact H1.
        * simpl. apply map_row_keys. exists ov. split; assumption.
    - intros i row E. rewrite Hget. destruct (WF_get_some r i row W E) as [Hi _].
      destruct (in_dec st_dec i (sr_inputs r)) as [_|N]; [|contradiction].
      unfold rowof. rewrite E. reflexivity.
    - intros i E. rewrite Hget. pose proof (WF_get_none r i W E) as N.
      destruct (in_dec st_dec i (sr_inputs r)) as [Hi|_]; [contradiction|reflexivity].
  Qed.
End SimP.

(* ---------------------------------------- the per-mode functions, composed *)
Section MapFns.
  Local Open Scope Z_scope.

  Lemma bit_cases x : 0 <= x mod 2 < 2 -> x mod 2 = 0 \/ x mod 2 = 1.
  Proof. lia. Qed.

  (* any of the four mappings applied after any of them acts on 0/1 vectors:
     as the identity (plain) or the complement (inverted) *)
  Lemma thr_thr a b s : thr_map b (thr_map a s) = thr_map (xorb a b) s.
  Proof.
    destruct a, b; unfold thr_map; simpl; rewrite ?map_map; apply map_ext; intros x;
      destruct (1 <=? x); reflexivity.
  Qed.

  Lemma par_par a b s : par_map b (par_map a s) = par_map (xorb a b) s.
  Proof.
    destruct a, b; unfold par_map; simpl; rewrite ?map_map; apply map_ext; intros x;
      destruct (bit_cases x (Z.mod_pos_bound x 2 ltac:(lia))) as [E|E]; rewrite E; reflexivity.
  Qed.

  Lemma par_thr a b s : par_map b (thr_map a s) = thr_map (xorb a b) s.
  Proof.
    destruct a, b; unfold par_map, thr_map; simpl; rewrite ?map_map; apply map_ext; intros x;
      destruct (1 <=? x); reflexivity.
  Qed.

  Lemma thr_par a b s : thr_map b (par_map a s) = par_map (xorb a b) s.
  Proof.
    destruct a, b; unfold par_map, thr_map; simpl; rewrite ?map_map; apply map_ext; intros x;
      destruct (bit_cases x (Z.mod_pos_bound x 2 ltac:(lia))) as [E|E]; rewrite E; reflexivity.
  Qed.
End MapFns.

(* ------------------------------------------------ theorems on the containers *)
Section SimThms.
  Context {K : Type} {o : ops K} {SR : StarRing o}.

  (* the results obtainable through the API: a construction followed by any
     number of mappings (whatever order the set iteration takes) *)
  Inductive constructed : @simres K -> Prop :=
  | C_make rt arg ins outs r : sim_make o rt arg ins outs = Ok r -> constructed r
  | C_map ord f r r' :
      constructed r -> ord_ok ord -> apply_mapping o ord f r = Ok r' -> constructed r'.

  Lemma apply_ok_type ord f (r r' : @simres K) :
    apply_mapping o ord f r = Ok r' -> sr_type r <> Amplitude.
  Proof. intros H Et. rewrite (mapping_refused_amplitude o ord f r Et) in H. discriminate H. Qed.

  Lemma constructed_wf r : constructed r -> WF r.
  Proof.
    induction 1 as [rt arg ins outs r H|ord f r r' Hc IH Hord H].
    - eapply sim_make_wf. exact H.
    - destruct (apply_mapping_struct ord f r IH (apply_ok_type _ _ _ _ H) Hord) as (r'' & E & W' & _).
      rewrite E in H. injection H as <-. exact W'.
  Qed.

  Theorem index_coherent_constructed r :
    constructed r -> NoDup (sr_inputs r) -> NoDup (sr_outputs r) ->
    dkeys (sr_dict r) = sr_inputs r /\
    forall a b i t, nth_error (sr_inputs r) a = Some i -> nth_error (sr_outputs r) b = Some t ->
      exists v row, arr_at (sr_array r) a b = Some v /\
        sim_getitem r (ItTuple [OState i; OState t]) = Ok (GVal v) /\
        sim_getitem r (ItObj (OState i)) = Ok (GRow row) /\
        dkeys row = sr_outputs r /\ dget row t = Some v.
  Proof. intros C. apply index_coherent_wf. apply constructed_wf. exact C. Qed.

  Theorem index_coherent rt arg ins outs r :
    sim_make o rt arg ins outs = Ok r -> NoDup ins -> NoDup outs ->
    sr_inputs r = ins /\ sr_outputs r = outs /\ dkeys (sr_dict r) = ins /\
    (exists sh, np_array o arg = Ok (sh, sr_array r)) /\
    forall a b i t, nth_error ins a = Some i -> nth_error outs b = Some t ->
      exists v row, arr_at (sr_array r) a b = Some v /\
        sim_getitem r (ItTuple [OState i; OState t]) = Ok (GVal v) /\
        sim_getitem r (ItObj (OState i)) = Ok (GRow row) /\
        dkeys row = outs /\ dget row t = Some v.
  Proof.
    intros H NDi NDo. destruct (sim_make_fields _ _ _ _ _ H) as (_ & Ei & Eo & Hnp).
    pose proof (index_coherent_wf r (sim_make_wf _ _ _ _ _ H)) as X.
    rewrite Ei, Eo in X. destruct (X NDi NDo) as [X1 X2].
    split; [exact Ei|]. split; [exact Eo|]. split; [exact X1|]. split; [eauto|exact X2].
  Qed.

  (* duplicates among the inputs / outputs: the dictionary keeps the LAST row / column *)
  Theorem index_duplicates_last_wins rt arg ins outs r a b i t :
    sim_make o rt arg ins outs = Ok r -> is_last ins a i -> is_last outs b t ->
    exists v row, arr_at (sr_array r) a b = Some v /\
      sim_getitem r (ItTuple [OState i; OState t]) = Ok (GVal v) /\
      sim_getitem r (ItObj (OState i)) = Ok (GRow row) /\
      dget row t = Some v.
  Proof.
    intros H Ha Hb. destruct (sim_make_fields _ _ _ _ _ H) as (_ & Ei & Eo & _).
    apply index_last_wins_wf; [eapply sim_make_wf; exact H|rewrite Ei; exact Ha|rewrite Eo; exact Hb].
  Qed.

  (* ---- mapping image ---- *)
  Theorem mapping_image ord f r :
    constructed r -> sr_type r = Probability -> ord_ok ord ->
    exists r', apply_mapping o ord f r = Ok r' /\
      sr_type r' = Probability /\ sr_inputs r' = sr_inputs r /\ NoDup (sr_outputs r') /\
      (forall t, In t (sr_outputs r') <->
                 sr_inputs r <> [] /\ exists s, In s (sr_outputs r) /\ f s = t) /\
      forall i row, sim_getitem r (ItObj (OState i)) = Ok (GRow row) ->
        sim_getitem r' (ItObj (OState i)) = Ok (GRow (graph (sr_outputs r') (img_sum (o:=o) f row))) /\
        (forall t, In t (sr_outputs r') ->
           sim_getitem r' (ItTuple [OState i; OState t]) = Ok (GVal (img_sum (o:=o) f row t))) /\
        (forall t, ~ In t (sr_outputs r') ->
           sim_getitem r' (ItTuple [OState i; OState t]) = Err KeyError).
  Proof.
    intros C Et Hord. pose proof (constructed_wf r C) as W.
    assert (Hty : sr_type r <> Amplitude) by (rewrite Et; discriminate).
    destruct (apply_mapping_struct ord f r W Hty Hord) as (r' & E & W' & T' & I' & ND & O' & D' & N').
    exists r'. split; [exact E|]. split; [congruence|]. split; [exact I'|]. split; [exact ND|]. split.
    - intros t. rewrite O'. split.
      + intros (i & row & ov & H1 & H2 & H3). destruct (WF_get_some r i row W H1) as (Hi & _ & Hk).
        split; [intros N; rewrite N in Hi; contradiction|].
        exists (fst ov). split; [|exact H3]. apply Hk. unfold dkeys. apply in_map. exact H2.
      + intros (Hne & s & Hs & Hf). destruct (sr_inputs r) as [|i l] eqn:Ei; [contradiction|].
        assert (Hi : In i (sr_inputs r)) by (rewrite Ei; left; reflexivity).
        destruct (WF_get_in r i W Hi) as [row Hrow].
        destruct (WF_get_some r i row W Hrow) as (_ & _ & Hk).
        apply Hk in Hs. apply dget_in_keys in Hs. destruct Hs as [v Hv]. apply dget_some_in in Hv.
        exists i, row, (s, v). split; [exact Hrow|]. split; [exact Hv|exact Hf].
    - intros i row Hrow. apply getitem_state_inv in Hrow. pose proof (D' i row Hrow) as Dr. split; [|split].
      + rewrite getitem_state, Dr. reflexivity.
      + intros t Ht. rewrite getitem_pair, Dr. unfold graph. rewrite dget_graph_in by exact Ht. reflexivity.
      + intros t Ht. rewrite getitem_pair, Dr. unfold graph. rewrite dget_graph_notin by exact Ht. reflexivity.
  Qed.

  Lemma row_total_graph outs (c : state -> K) : row_total (o:=o) (graph outs c) = suml o outs c.
  Proof. unfold row_total, graph. rewrite suml_map. reflexivity. Qed.

  (* ---- each input keeps its total ---- *)
  Theorem mapping_conserves_rows ord f r r' :
    constructed r -> ord_ok ord -> apply_mapping o ord f r = Ok r' ->
    forall i row, sim_getitem r (ItObj (OState i)) = Ok (GRow row) ->
      exists row', sim_getitem r' (ItObj (OState i)) = Ok (GRow row') /\
        dkeys row' = sr_outputs r' /\
        row_total (o:=o) row' = row_total (o:=o) row.
  Proof.
    intros C Hord E i row Hrow. pose proof (constructed_wf r C) as W.
    destruct (apply_mapping_struct ord f r W (apply_ok_type _ _ _ _ E) Hord)
      as (r'' & E' & W' & T' & I' & ND & O' & D' & N').
    rewrite E in E'. injection E' as <-. apply getitem_state_inv in Hrow.
    exists (graph (sr_outputs r') (img_sum (o:=o) f row)). split; [|split].
    - rewrite getitem_state, (D' i row Hrow). reflexivity.
    - apply dkeys_graph.
    - rewrite row_total_graph.
      rewrite (suml_ext _ _ (fun t => if true then img_sum (o:=o) f row t else k0 o)) by reflexivity.
      rewrite (img_partition f (fun _ => true) _ row ND).
      + rewrite filter_true. reflexivity.
      + intros ov Hov. apply O'. exists i, row, ov. repeat split; assumption.
  Qed.

  (* ---- repeated application ---- *)
  Definition sim_equiv (r1 r2 : @simres K) : Prop :=
    sr_type r1 = sr_type r2 /\ sr_inputs r1 = sr_inputs r2 /\
    Permutation (sr_outputs r1) (sr_outputs r2) /\
    forall i t, sim_getitem r1 (ItTuple [OState i; OState t]) =
                sim_getitem r2 (ItTuple [OState i; OState t]).

  Lemma img_graph_compose f g h outs1 (row : dict K) u :
    NoDup outs1 -> (forall ov, In ov row -> In (f (fst ov)) outs1) -> (forall s, g (f s) = h s) ->
    img_sum (o:=o) g (graph outs1 (img_sum (o:=o) f row)) u = img_sum (o:=o) h row u.
  Proof.
    intros ND Hin Hc. unfold img_sum at 1.
    assert (NDk : NoDup (dkeys (graph outs1 (img_sum (o:=o) f row)))) by (unfold graph; rewrite dkeys_graph; exact ND).
    rewrite (suml_dict_keys (graph outs1 (img_sum (o:=o) f row)) (fun t => st_eqb (g t) u) NDk).
    unfold graph at 1. rewrite dkeys_graph.
    rewrite (suml_ext _ _ (fun t => if st_eqb (g t) u then img_sum (o:=o) f row t else k0 o)).
    - rewrite (img_partition f (fun t => st_eqb (g t) u) _ row ND Hin).
      unfold img_sum. f_equal. apply filter_ext. intros ov. rewrite Hc. reflexivity.
    - intros t Ht. unfold cell, graph. rewrite dget_graph_in by exact Ht. reflexivity.
  Qed.

  (* mapping with f and then with g is mapping once with g o f *)
  Theorem mapping_compose ord1 ord2 ord3 f g h r r1 r2 r3 :
    constructed r -> ord_ok ord1 -> ord_ok ord2 -> ord_ok ord3 ->
    (forall s, g (f s) = h s) ->
    apply_mapping o ord1 f r = Ok r1 -> apply_mapping o ord2 g r1 = Ok r2 ->
    apply_mapping o ord3 h r = Ok r3 ->
    sim_equiv r2 r3.
  Proof.
    intros C H1 H2 H3 Hc E1 E2 E3. pose proof (constructed_wf r C) as W.
    pose proof (apply_ok_type _ _ _ _ E1) as Hty.
    destruct (apply_mapping_struct ord1 f r W Hty H1) as (x1 & X1 & W1 & T1 & I1 & ND1 & O1 & D1 & N1).
    rewrite E1 in X1. injection X1 as <-.
    destruct (apply_mapping_struct ord2 g r1 W1 (apply_ok_type _ _ _ _ E2) H2)
      as (x2 & X2 & W2 & T2 & I2 & ND2 & O2 & D2 & N2).
    rewrite E2 in X2. injection X2 as <-.
    destruct (apply_mapping_struct ord3 h r W Hty H3) as (x3 & X3 & W3 & T3 & I3 & ND3 & O3 & D3 & N3).
    rewrite E3 in X3. injection X3 as <-.
    assert (Hout : forall t, In t (sr_outputs r2) <-> In t (sr_outputs r3)).
    { intros t. rewrite O2, O3. split.
      - intros (i & row1 & ov1 & A1 & A2 & A3).
        destruct (dget (sr_dict r) i) as [row|] eqn:Er.
        + rewrite (D1 i row Er) in A1. injection A1 as <-.
          unfold graph in A2. apply in_map_iff in A2. destruct A2 as [t1 [<- Ht1]]. simpl in A3.
          apply O1 in Ht1. destruct Ht1 as (i' & row' & ov & B1 & B2 & B3).
          exists i', row', ov. split; [exact B1|]. split; [exact B2|]. rewrite <- Hc, B3. exact A3.
        + rewrite (N1 i Er) in A1. discriminate A1.
      - intros (i & row & ov & A1 & A2 & A3).
        exists i, (graph (sr_outputs r1) (img_sum (o:=o) f row)),
               (f (fst ov), img_sum (o:=o) f row (f (fst ov))).
        split; [apply D1; exact A1|]. split; [|simpl; rewrite Hc; exact A3].
        unfold graph. apply in_map_iff. exists (f (fst ov)). split; [reflexivity|].
        apply O1. exists i, row, ov. repeat split; assumption. }
    unfold sim_equiv. split; [congruence|]. split; [congruence|]. split.
    - apply NoDup_Permutation; assumption.
    - intros i t. rewrite !getitem_pair. destruct (dget (sr_dict r) i) as [row|] eqn:Er.
      + rewrite (D2 i _ (D1 i row Er)), (D3 i row Er). unfold graph at 1 3.
        destruct (in_dec st_dec t (sr_outputs r2)) as [Ht|Ht].
        * rewrite dget_graph_in by exact Ht. rewrite dget_graph_in by (apply Hout; exact Ht).
          rewrite (img_graph_compose f g h); [reflexivity|exact ND1| |exact Hc].
          intros ov Hov. apply O1. exists i, row, ov. repeat split; assumption.
        * rewrite dget_graph_notin by exact Ht.
          rewrite dget_graph_notin by (intros X; apply Ht; apply Hout; exact X). reflexivity.
      + rewrite (N2 i (N1 i Er)), (N3 i Er). reflexivity.
  Qed.

  (* applying an idempotent mapping twice = once *)
  Corollary mapping_idempotent ord1 ord2 f r r1 r2 :
    constructed r -> ord_ok ord1 -> ord_ok ord2 -> (forall s, f (f s) = f s) ->
    apply_mapping o ord1 f r = Ok r1 -> apply_mapping o ord2 f r1 = Ok r2 ->
    sim_equiv r2 r1.
  Proof. intros C H1 H2 Hf E1 E2. exact (mapping_compose ord1 ord2 ord1 f f f r r1 r2 r1 C H1 H2 H1 Hf E1 E2 E1). Qed.

  Theorem threshold_idempotent ord1 ord2 r r1 r2 :
    constructed r -> ord_ok ord1 -> ord_ok ord2 ->
    apply_threshold_mapping o ord1 false r = Ok r1 -> apply_threshold_mapping o ord2 false r1 = Ok r2 ->
    sim_equiv r2 r1.
  Proof. intros C H1 H2. apply mapping_idempotent; try assumption. intros s. apply (thr_thr false false). Qed.

  Theorem parity_idempotent ord1 ord2 r r1 r2 :
    constructed r -> ord_ok ord1 -> ord_ok ord2 ->
    apply_parity_mapping o ord1 false r = Ok r1 -> apply_parity_mapping o ord2 false r1 = Ok r2 ->
    sim_equiv r2 r1.
  Proof. intros C H1 H2. apply mapping_idempotent; try assumption. intros s. apply (par_par false false). Qed.

  (* any two threshold (parity) mappings in a row: the second is the identity or the complement *)
  Theorem threshold_repeated ord1 ord2 ord3 a b r r1 r2 r3 :
    constructed r -> ord_ok ord1 -> ord_ok ord2 -> ord_ok ord3 ->
    apply_threshold_mapping o ord1 a r = Ok r1 -> apply_threshold_mapping o ord2 b r1 = Ok r2 ->
    apply_threshold_mapping o ord3 (xorb a b) r = Ok r3 ->
    sim_equiv r2 r3.
  Proof. intros C H1 H2 H3. apply mapping_compose; try assumption. intros s. apply thr_thr. Qed.

  Theorem parity_repeated ord1 ord2 ord3 a b r r1 r2 r3 :
    constructed r -> ord_ok ord1 -> ord_ok ord2 -> ord_ok ord3 ->
    apply_parity_mapping o ord1 a r = Ok r1 -> apply_parity_mapping o ord2 b r1 = Ok r2 ->
    apply_parity_mapping o ord3 (xorb a b) r = Ok r3 ->
    sim_equiv r2 r3.
  Proof. intros C H1 H2 H3. apply mapping_compose; try assumption. intros s. apply par_par. Qed.

  (* ---- SamplingResult mappings ---- *)
  Lemma map_row_get_in f (row : dict K) t :
    In t (dkeys (map_row o f row)) -> dget (map_row o f row) t = Some (img_sum (o:=o) f row t).
  Proof.
    intros H. apply dget_in_keys in H. destruct H as [v Hv]. rewrite Hv. f_equal.
    pose proof (cell_map_row (o:=o) f row t) as X. unfold cell in X. rewrite Hv in X. exact X.
  Qed.

  Theorem samp_mapping_image f (r : @sampres K) :
    let r' := samp_apply_mapping o f r in
    sp_input r' = sp_input r /\ sp_outputs r' = dkeys (sp_dict r') /\ NoDup (sp_outputs r') /\
    (forall t, In t (sp_outputs r') <-> exists ov, In ov (sp_dict r) /\ f (fst ov) = t) /\
    (forall t, In t (sp_outputs r') ->
       samp_getitem r' (ItObj (OState t)) = Ok (img_sum (o:=o) f (sp_dict r) t)) /\
    (forall t, ~ In t (sp_outputs r') -> samp_getitem r' (ItObj (OState t)) = Err KeyError).
  Proof.
    simpl. split; [reflexivity|]. split; [reflexivity|]. split; [apply map_row_keys_nodup|].
    split; [intros t; apply map_row_keys|]. split.
    - intros t Ht. rewrite (map_row_get_in f _ t Ht). reflexivity.
    - intros t Ht. apply dget_none in Ht. rewrite Ht. reflexivity.
  Qed.

  Theorem samp_mapping_conserves_total f (r : @sampres K) :
    row_total (o:=o) (sp_dict (samp_apply_mapping o f r)) = row_total (o:=o) (sp_dict r).
  Proof. simpl. apply map_row_total. Qed.

  Theorem samp_mapping_compose f g h (r : @sampres K) :
    (forall s, g (f s) = h s) ->
    let r2 := samp_apply_mapping o g (samp_apply_mapping o f r) in
    let r3 := samp_apply_mapping o h r in
    (forall t, In t (sp_outputs r2) <-> In t (sp_outputs r3)) /\
    forall t, samp_getitem r2 (ItObj (OState t)) = samp_getitem r3 (ItObj (OState t)).
  Proof.
    intros Hc. simpl.
    assert (Hout : forall t, In t (dkeys (map_row o g (map_row o f (sp_dict r)))) <->
                             In t (dkeys (map_row o h (sp_dict r)))).
    { intros t. rewrite !map_row_keys. split.
      - intros [ov1 [A1 A2]]. assert (A3 : In (fst ov1) (dkeys (map_row o f (sp_dict r)))).
        { unfold dkeys. apply in_map. exact A1. }
        apply map_row_keys in A3. destruct A3 as [ov [B1 B2]]. exists ov. split; [exact B1|].
        rewrite <- Hc, B2. exact A2.
      - intros [ov [A1 A2]].
        assert (A3 : In (f (fst ov)) (dkeys (map_row o f (sp_dict r)))) by (apply map_row_keys; eauto).
        apply dget_in_keys in A3. destruct A3 as [v Hv]. apply dget_some_in in Hv.
        exists (f (fst ov), v). split; [exact Hv|]. simpl. rewrite Hc. exact A2. }
    split; [exact Hout|]. intros t.
    destruct (in_dec st_dec t (dkeys (map_row o g (map_row o f (sp_dict r))))) as [Ht|Ht].
    - rewrite (map_row_get_in g _ t Ht). rewrite (map_row_get_in h _ t (proj1 (Hout t) Ht)).
      rewrite (map_row_compose f g h _ t Hc). reflexivity.
    - assert (Ht' : ~ In t (dkeys (map_row o h (sp_dict r)))) by (intros X; apply Ht; apply Hout; exact X).
      apply dget_none in Ht, Ht'. rewrite Ht, Ht'. reflexivity.
  Qed.
End SimThms.

(* ---------------------------------------------- the forms of __getitem__ *)
Section GetitemForms.
  Context {K : Type}.
  Lemma getitem_forms (r : @simres K) :
    (forall l, 2 < length l -> sim_getitem r (ItTuple l) = Err ValueError) /\
    sim_getitem r (ItTuple []) = Err IndexError /\
    (forall x, (forall s, x <> OState s) -> sim_getitem r (ItObj x) = Err TypeError) /\
    (forall x y, (forall s, x <> OState s) -> sim_getitem r (ItTuple [x; y]) = Err TypeError) /\
    (forall i, sim_getitem r (ItTuple [OState i; OOther]) = Err TypeError) /\
    (forall i, sim_getitem r (ItTuple [OState i]) = sim_getitem r (ItObj (OState i))) /\
    (forall i, sim_getitem r (ItTuple [OState i; ONone]) = sim_getitem r (ItObj (OState i))) /\
    (forall i, dget (sr_dict r) i = None -> sim_getitem r (ItObj (OState i)) = Err KeyError) /\
    (forall i t row, dget (sr_dict r) i = Some row -> dget row t = None ->
                     sim_getitem r (ItTuple [OState i; OState t]) = Err KeyError).
  Proof.
    repeat split.
    - intros l H. simpl. apply Nat.ltb_lt in H. rewrite H. reflexivity.
    - intros x H. destruct x; [exfalso; eapply H; reflexivity|reflexivity|reflexivity].
    - intros x y H. destruct x; [exfalso; eapply H; reflexivity| |]; destruct y; reflexivity.
    - intros i E. simpl. unfold get_input. rewrite E. reflexivity.
    - intros i t row E1 E2. simpl. unfold get_input. rewrite E1. simpl. rewrite E2. reflexivity.
  Qed.
End GetitemForms.

(* ------------------------- an instance, to show the hypotheses satisfiable *)
Definition zops17 : ops Z :=
  mkOps Z 0%Z 1%Z Z.add Z.mul Z.sub Z.opp (fun x => x) (fun x => x) Z.eqb Z.leb (fun z => z).

Lemma zops17_ring : ring_theory (k0 zops17) (k1 zops17) (kadd zops17) (kmul zops17) (ksub zops17) (kopp zops17) eq.
Proof. exact InitialRing.Zth. Qed.

Global Instance zops17_star : StarRing zops17.
Proof. constructor; [exact zops17_ring|..]; simpl; intros; reflexivity. Qed.

Lemma ord_ok_id : ord_ok (fun l => l).
Proof. intros l. apply Permutation_refl. Qed.

Lemma ord_ok_rev : ord_ok (@rev state).
Proof. intros l. apply Permutation_rev. Qed.

(* mapping_image instantiated at the four stated mappings *)
Section StatedMappings.
  Context {K : Type} {o : ops K} {SR : StarRing o}.
  Lemma threshold_and_parity_image ord (parity invert : bool) (r : @simres K) :
    let f := if parity then par_map invert else thr_map invert in
    constructed (o:=o) r -> sr_type r = Probability -> ord_ok ord ->
    exists r',
      (if parity then apply_parity_mapping o ord invert r else apply_threshold_mapping o ord invert r) = Ok r' /\
      sr_inputs r' = sr_inputs r /\ NoDup (sr_outputs r') /\
      forall i row, sim_getitem r (ItObj (OState i)) = Ok (GRow row) ->
        forall t, In t (sr_outputs r') ->
          sim_getitem r' (ItTuple [OState i; OState t]) = Ok (GVal (img_sum (o:=o) f row t)).
  Proof.
    intros f C T H.
    destruct (mapping_image ord f r C T H) as (r' & E & _ & I & N & _ & V).
    exists r'. split; [destruct parity; exact E|]. split; [exact I|]. split; [exact N|].
    intros i row Hr t Ht. exact (proj1 (proj2 (V i row Hr)) t Ht).
  Qed.
End StatedMappings.
