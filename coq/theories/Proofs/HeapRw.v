(* Reference-level heap model: the rewrite calls of Model/Rewrite.v (op9). *)
From Coq Require Import ZArith List Bool Arith Lia PArith FMapPositive.
From LW Require Import Base.Sx Base.Num Base.Sums Base.Mat Model.Circuit Model.World Model.Rewrite Model.Heap
     Proofs.WorldP Proofs.HeapP Proofs.HeapP2 Proofs.HeapFlat Proofs.HeapP3 Proofs.HeapP4.
From LW Require Import Proofs.HeapP5 Proofs.HeapP6 Proofs.HeapMain.
Import ListNotations.

Section HeapRw.
  Context {K : Type} (o : ops K).
  Notation heap := (@heap K).
  Notation cell := (@cell K).
  Notation comp := (@comp K).
  Notation circ := (@circ K).
  Notation hworld := (@hworld K).
  Notation world := (@world K).
  Notation op := (@op K).
  Notation op9 := (@op9 K).

  (* ---------------- copy(freeze_parameters=True) ---------------- *)
  Lemma h_copy_frozen_eq (e : env (K:=K)) (h : heap) c : hwf h -> cwf h c ->
    h_copy_frozen e h c =
    let '(h0, l) := hmap (h_freeze 2 e) h (rd_list h (hc_spec c)) in
    alloc6 h0 l (rd_dict h (hc_in c)) (rd_dict h (hc_out c)) (rd_dict h (hc_xin c)) (rd_dict h (hc_xout c))
           (rd_nats h (hc_int c)) (hc_n c).
  Proof.
    intros Hw Hc. destruct (cwf_fields h c Hc) as (L1 & L2 & L3 & L4 & L5 & L6).
    unfold h_copy_frozen, alloc6.
    destruct (hmap (h_freeze 2 e) h (rd_list h (hc_spec c))) as [h0 l] eqn:E0.
    destruct (h_freeze_list_post e _ h h0 l Hw (rd_list_below h _ Hw) E0) as (Q1 & Q2 & Q3 & _).
    assert (Hn : h_next h <=p h_next h0) by apply Q1.
    destruct (halloc h0 (CList l)) as [h1 a1] eqn:E1.
    destruct (halloc_inv _ _ _ _ [] h E1 Q2 Q3 Q1) as (-> & N1 & W1 & F1 & G1 & _).
    rewrite (rd_dict_agree h h1) by (try apply hframe_agree; assumption).
    destruct (halloc h1 (CDict (rd_dict h (hc_in c)))) as [h2 a2] eqn:E2.
    destruct (halloc_inv _ _ _ _ [] h E2 W1 (Forall_nil _) F1) as (-> & N2 & W2 & F2 & G2 & S2).
    rewrite (rd_dict_agree h h2) by (try apply hframe_agree; assumption).
    destruct (halloc h2 (CDict (rd_dict h (hc_out c)))) as [h3 a3] eqn:E3.
    destruct (halloc_inv _ _ _ _ [] h E3 W2 (Forall_nil _) F2) as (-> & N3 & W3 & F3 & G3 & S3).
    rewrite (rd_dict_agree h h3) by (try apply hframe_agree; assumption).
    destruct (halloc h3 (CDict (rd_dict h (hc_xin c)))) as [h4 a4] eqn:E4.
    destruct (halloc_inv _ _ _ _ [] h E4 W3 (Forall_nil _) F3) as (-> & N4 & W4 & F4 & G4 & S4).
    rewrite (rd_dict_agree h h4) by (try apply hframe_agree; assumption).
    destruct (halloc h4 (CDict (rd_dict h (hc_xout c)))) as [h5 a5] eqn:E5.
    destruct (halloc_inv _ _ _ _ [] h E5 W4 (Forall_nil _) F4) as (-> & N5 & W5 & F5 & G5 & S5).
    rewrite (rd_nats_agree h h5) by (try apply hframe_agree; assumption).
    reflexivity.
  Qed.

  Lemma freeze_is_group e (c : comp) : is_group (freeze_comp e c) = is_group c.
  Proof. destruct c; reflexivity. Qed.
  Lemma freeze_flat e (c : comp) : flat_comp c -> flat_comp (freeze_comp e c).
  Proof.
    destruct c; try (intros; exact Logic.I). cbn [freeze_comp flat_comp]. apply nogroup_map. apply freeze_is_group.
  Qed.

  Definition target9 (x : op9) : nat :=
    match x with
    | Base b => target b
    | OCompress id | ONonAdj id => id
    | OCopyFrozen new _ => new
    end.

  (* the calls of op9 covered by the theorems below *)
  Definition covered9 (x : op9) : bool :=
    match x with
    | Base _ | OCopyFrozen _ _ => true
    | OCompress _ | ONonAdj _ => false
    end.

  Theorem hstep9_refines_base_frozen (e : env (K:=K)) (hw : hworld) (x : op9) :
    covered9 x = true -> inv hw ->
    inv (fst (hstep9 o e hw x)) /\
    abs (fst (hstep9 o e hw x)) = fst (step9 o true e (abs hw) x) /\
    snd (hstep9 o e hw x) = snd (step9 o true e (abs hw) x) /\
    (* no pre-existing cell of any circuit other than the target is written *)
    (forall j cj, pget (hw_pool hw) j = Some cj -> j <> target9 x ->
       pget (hw_pool (fst (hstep9 o e hw x))) j = Some cj /\
       forall a, In a (reach (hw_heap hw) cj) ->
         ~ In a (h_log (hw_heap (fst (hstep9 o e hw x)))) /\
         hget (hw_heap (fst (hstep9 o e hw x))) a = hget (hw_heap hw) a).
  Proof.
    intros Hcov I. destruct x as [b|id|id|new a]; try discriminate.
    - (* a call of Model/World.v *)
      change (hstep9 o e hw (Base b)) with (hstep o e hw b). cbn [step9 target9].
      destruct (hstep_refines o e hw b I) as (H1 & H2 & H3).
      split; [exact H1|]. split; [exact H2|]. split; [exact H3|].
      intros j cj Ej Hne. destruct (hstep_args_unchanged o e hw b j cj I Ej Hne) as (P1 & P2 & _).
      split; [exact P1|exact P2].
    - (* new = a.copy(freeze_parameters=True) *)
      cbn [hstep9 step9 target9].
      destruct (inv_clear hw I) as (I' & Eabs).
      set (p := hw_pool hw) in *. set (h := clear_log (hw_heap hw)) in *.
      pose proof (inv_hwf _ I') as Hw. cbn [hw_heap] in Hw.
      rewrite <- Eabs.
      destruct (pget p a) as [ca|] eqn:Ea.
      2:{ rewrite (pget_abs_none h p a Ea). cbn [fst snd hw_heap hw_pool].
          split; [exact I'|]. split; [reflexivity|]. split; [reflexivity|].
          intros j cj Ej Hne. split; [exact Ej|]. intros x Hx. split; [intros []|reflexivity]. }
      rewrite (pget_abs_some h p a ca Ea).
      pose proof (pget_In p a ca Ea) as Ha. destruct (inv_cwf _ I' a ca Ha) as (Hca & _). cbn [hw_heap] in Hca.
      rewrite (h_copy_frozen_eq e h ca Hw Hca).
      destruct (hmap (h_freeze 2 e) h (rd_list h (hc_spec ca))) as [h0 l] eqn:E0.
      destruct (h_freeze_list_post e _ h h0 l Hw (rd_list_below h _ Hw) E0) as (Q1 & Q2 & Q3 & Q4 & Q5 & Q6 & Q7).
      match goal with |- context [alloc6 h0 l ?d1 ?d2 ?d3 ?d4 ?ns ?n] =>
        destruct (alloc6 h0 l d1 d2 d3 d4 ns n) as [h' c'] eqn:E6 end.
      destruct (alloc6_post h0 l _ _ _ _ _ _ _ _ Q2 Q3 E6) as (R1 & R2 & R3 & R4 & R5 & R6 & R7 & R8 & R9).
      cbn [fst snd hw_heap hw_pool].
      assert (Fr : hframe [] h h') by (eapply hframe_trans; eassumption).
      assert (Hn0 : h_next h <=p h_next h0) by apply Q1.
      destruct (hnew_ok p h h' new c' (copy_frozen e (abs_circ h ca)) I' Fr R2 R3 R7) as (J1 & J2).
      + eapply Forall_impl; [|exact R5]. intros x Hx. cbv beta in Hx |- *. lia.
      + rewrite R4. unfold copy_frozen, set_spec, freeze_spec. cbn [abs_circ c_n c_spec c_in c_out c_xin c_xout c_int].
        unfold abs_list in *. rewrite Q4. reflexivity.
      + unfold flat_circ, copy_frozen, set_spec. cbn [c_spec]. unfold freeze_spec. apply flat_map_pres; [apply freeze_flat|].
        exact (inv_flat _ I' a ca Ha).
      + rewrite R8. intros x Hx.
        rewrite (proj2 (abs_list_stable h0 h' l Q2 (hframe_agree _ _ R1) Q3)) in Hx.
        split.
        * unfold spec_cells in Hx. destruct (Q6 x Hx) as [H|H].
          -- intros Ho. pose proof (owned_below _ _ I' Ho) as Hb. cbn [hw_heap] in Hb. lia.
          -- exact (proj1 (frozen_entries p h a ca I' Ha x H)).
        * intros Hp. rewrite Forall_forall in R5. specialize (R5 _ Hp). cbv beta in R5.
          pose proof (spec_cells_below h0 l Q2 Q3) as Hb. unfold below in Hb. rewrite Forall_forall in Hb.
          specialize (Hb x Hx). cbv beta in Hb. lia.
      + split; [exact J1|]. split; [exact J2|]. split; [reflexivity|].
        intros j cj Ej Hne. split; [rewrite pget_pset_other by exact Hne; exact Ej|].
        intros x Hx.
        pose proof (pget_In _ _ _ Ej) as Hj. destruct (inv_cwf _ I' j cj Hj) as (Hcj & _). cbn [hw_heap] in Hcj.
        pose proof (reach_below h cj Hw Hcj) as Hb. unfold below in Hb. rewrite Forall_forall in Hb.
        change (reach (hw_heap hw) cj) with (reach h cj) in Hx.
        specialize (Hb x Hx). cbv beta in Hb. split.
        * intros Hl. destruct Fr as (_ & _ & F3). destruct (F3 x Hl) as [[]|[H|[]]]. lia.
        * change (hget (hw_heap hw) x) with (hget h x). apply (hget_frame h h' x Fr Hb).
  Qed.
End HeapRw.
