(* Cauchy-Binet for permanents (sequence form and occupation form), composition
   of Fock-space amplitudes, block factorisation, and unitarity of the
   Fock-space transformation induced by a unitary matrix (over the reals). *)
From Coq Require Import ZArith Arith Lia Ring_theory Ring List Bool Permutation.
From LW Require Import Base.Num Base.Sums Base.Mat Model.State Model.Fock Proofs.StateP Proofs.PermP.
Import ListNotations.
Open Scope nat_scope.

(* ------------------------------------------------------------------ *)
(* enumerations                                                        *)
(* ------------------------------------------------------------------ *)
(* all sequences of length n with entries below N *)
Fixpoint seqs (N n : nat) : list (list nat) :=
  match n with
  | 0 => [[]]
  | S n' => flat_map (fun k => map (cons k) (seqs N n')) (seq 0 N)
  end.

(* all occupation lists of N modes with n photons (also for N = 0) *)
Fixpoint focks (N n : nat) : list (list nat) :=
  match N with
  | 0 => if Nat.eqb n 0 then [[]] else []
  | S N' => flat_map (fun v => map (cons v) (focks N' (n - v))) (seq 0 (S n))
  end.

(* L lists every N-mode occupation list with n photons exactly once *)
Definition fock_enum (L : list (list nat)) (N n : nat) : Prop :=
  NoDup L /\ forall t, In t L <-> length t = N /\ osum t = n.

Section Enum.
  Lemma focks_spec N n t : In t (focks N n) <-> length t = N /\ osum t = n.
  Proof.
    revert n t. induction N as [|N IH]; intros n t.
    - simpl. destruct (Nat.eqb_spec n 0) as [->|Hn]; simpl.
      + split.
        * intros [<-|[]]. split; reflexivity.
        * intros [Hl _]. left. destruct t; [reflexivity|discriminate].
      + split; [intros []|]. intros [Hl Hs]. destruct t; [|discriminate]. simpl in Hs. lia.
    - cbn [focks]. rewrite in_flat_map. split.
      + intros [v [Hv Hin]]. apply in_seq in Hv. apply in_map_iff in Hin.
        destruct Hin as [t' [<- Ht']]. apply IH in Ht'. destruct Ht' as [Hl Hs].
        simpl length. rewrite osum_cons, Hl, Hs. split; lia.
      + intros [Hl Hs]. destruct t as [|v t']; [discriminate|].
        rewrite osum_cons in Hs. simpl in Hl. exists v. split; [apply in_seq; lia|].
        apply in_map. apply IH. split; lia.
  Qed.

  Lemma focks_nodup N n : NoDup (focks N n).
  Proof.
    revert n. induction N as [|N IH]; intros n.
    - simpl. destruct (Nat.eqb n 0); [constructor; [intros []|constructor]|constructor].
    - cbn [focks]. apply nodup_flat_map.
      + apply seq_NoDup.
      + intros v _. apply nodup_map_inj; [|apply IH]. intros x y H. inversion H. reflexivity.
      + intros v v' b _ _ Hb Hb'. apply in_map_iff in Hb, Hb'.
        destruct Hb as [x [<- _]]. destruct Hb' as [x' [E _]]. inversion E. reflexivity.
  Qed.

  Lemma focks_enum N n : fock_enum (focks N n) N n.
  Proof. split; [apply focks_nodup|apply focks_spec]. Qed.

  Lemma fock_sums_nodup N n : NoDup (fock_sums N n).
  Proof.
    revert n. induction N as [|N IH]; intros n; [constructor|].
    destruct N as [|N'].
    - simpl. constructor; [intros []|constructor].
    - change (fock_sums (S (S N')) n) with
        (flat_map (fun v => map (fun p => p ++ [v]) (fock_sums (S N') (n - v))) (seq 0 (S n))).
      apply nodup_flat_map.
      + apply seq_NoDup.
      + intros v _. apply nodup_map_inj; [|apply IH]. intros x y H.
        apply app_inj_tail in H. destruct H as [H _]. exact H.
      + intros v v' b _ _ Hb Hb'. apply in_map_iff in Hb, Hb'.
        destruct Hb as [x [<- _]]. destruct Hb' as [x' [E _]].
        apply app_inj_tail in E. destruct E as [_ E]. symmetry. exact E.
  Qed.

  (* the generator of the code enumerates the Fock basis when there is a mode *)
  Lemma fock_sums_enum N n : 0 < N -> fock_enum (fock_sums N n) N n.
  Proof.
    intros HN. split; [apply fock_sums_nodup|]. intros t. split.
    - intros H. apply fock_sums_sound in H. exact H.
    - intros [Hl Hs]. apply fock_sums_complete; assumption.
  Qed.

  Lemma fock_enum_perm L L' N n : fock_enum L N n -> fock_enum L' N n -> Permutation L L'.
  Proof.
    intros [H1 H2] [H1' H2']. apply NoDup_Permutation; [exact H1|exact H1'|].
    intros t. rewrite H2, H2'. tauto.
  Qed.

  Lemma fock_enum_zero L N : fock_enum L N 0 -> L = [repeat 0 N].
  Proof.
    intros [Hnd Hin].
    assert (Hall : forall t, In t L -> t = repeat 0 N).
    { intros t Ht. apply Hin in Ht. destruct Ht as [Hl Hs]. rewrite (osum_zero t Hs), Hl. reflexivity. }
    assert (H0 : In (repeat 0 N) L) by (apply Hin; rewrite repeat_length, osum_repeat0; split; reflexivity).
    destruct L as [|a L]; [contradiction|].
    assert (a = repeat 0 N) by (apply Hall; left; reflexivity). subst a.
    destruct L as [|b L]; [reflexivity|]. exfalso.
    assert (b = repeat 0 N) by (apply Hall; right; left; reflexivity). subst b.
    inversion Hnd as [|? ? Hn _]. apply Hn. left. reflexivity.
  Qed.

  Lemma seqs_spec N n m : In m (seqs N n) <-> length m = n /\ forall k, In k m -> k < N.
  Proof.
    revert m. induction n as [|n IH]; intros m.
    - simpl. split.
      + intros [<-|[]]. split; [reflexivity|intros k []].
      + intros [Hl _]. left. destruct m; [reflexivity|discriminate].
    - cbn [seqs]. rewrite in_flat_map. split.
      + intros [k [Hk Hin]]. apply in_seq in Hk. apply in_map_iff in Hin.
        destruct Hin as [m' [<- Hm']]. apply IH in Hm'. destruct Hm' as [Hl Hb].
        split; [simpl; lia|]. intros j [<-|Hj]; [lia|apply Hb; exact Hj].
      + intros [Hl Hb]. destruct m as [|k m']; [discriminate|]. exists k. split.
        * apply in_seq. assert (k < N) by (apply Hb; left; reflexivity). lia.
        * apply in_map. apply IH. split; [simpl in Hl; lia|]. intros j Hj. apply Hb. right. exact Hj.
  Qed.
End Enum.

(* ------------------------------------------------------------------ *)
(* multinomial coefficients (division free)                            *)
(* ------------------------------------------------------------------ *)
Fixpoint binom (n k : nat) : nat :=
  match n, k with
  | _, 0 => 1
  | 0, S _ => 0
  | S n', S k' => binom n' k' + binom n' (S k')
  end.

(* (sum t)! / prod t! *)
Fixpoint multinom (t : list nat) : nat :=
  match t with
  | [] => 1
  | n :: t' => binom (n + osum t') n * multinom t'
  end.

Section Multinomial.
  Lemma binom_gt n k : n < k -> binom n k = 0.
  Proof.
    revert k. induction n as [|n IH]; intros [|k] H; try lia; [reflexivity|].
    simpl. rewrite !IH by lia. reflexivity.
  Qed.

  Lemma binom_fact n k : k <= n -> binom n k * fact k * fact (n - k) = fact n.
  Proof.
    revert k. induction n as [|n IH]; intros k Hk.
    - assert (k = 0) by lia. subst. reflexivity.
    - destruct k as [|k].
      + simpl binom. rewrite Nat.sub_0_r. simpl fact at 1. lia.
      + cbn [binom]. replace (S n - S k) with (n - k) by lia.
        destruct (Nat.eq_dec k n) as [->|Hne].
        * rewrite (binom_gt n (S n)) by lia. pose proof (IH n (le_n n)) as H.
          rewrite Nat.sub_diag in *. change (fact (S n)) with (S n * fact n). nia.
        * pose proof (IH k ltac:(lia)) as H1. pose proof (IH (S k) ltac:(lia)) as H2.
          replace (n - k) with (S (n - S k)) in * by lia.
          change (fact (S (n - S k))) with (S (n - S k) * fact (n - S k)) in *.
          change (fact (S k)) with (S k * fact k) in *.
          change (fact (S n)) with (S n * fact n).
          set (a := binom n k) in *. set (b := binom n (S k)) in *.
          set (fk := fact k) in *. set (fd := fact (n - S k)) in *. set (fn := fact n) in *.
          assert (E : S n = S k + S (n - S k)) by lia. rewrite E at 1.
          nia.
  Qed.

  Lemma multinom_spec t : multinom t * fact_prod t = fact (osum t).
  Proof.
    induction t as [|n t IH]; [reflexivity|].
    cbn [multinom fact_prod]. rewrite osum_cons.
    pose proof (binom_fact (n + osum t) n ltac:(lia)) as H.
    replace (n + osum t - n) with (osum t) in H by lia.
    rewrite <- H, <- IH. ring.
  Qed.
End Multinomial.

(* ------------------------------------------------------------------ *)
(* Cauchy-Binet                                                        *)
(* ------------------------------------------------------------------ *)
Section CauchyBinet.
  Context {R : Type} {r : ops R} {SR : StarRing r}.
  Let Rr := sr_ring (o:=r).
  Add Ring Kr : Rr.
  Local Notation "0" := (k0 r) : K_scope.
  Local Notation "1" := (k1 r) : K_scope.
  Local Notation "a + b" := (kadd r a b) : K_scope.
  Local Notation "a * b" := (kmul r a b) : K_scope.
  Local Notation suml := (suml r).
  Local Notation sumn := (sumn r).
  Local Notation perm_ml := (perm_ml r).
  Local Notation kofnat := (kofnat r).
  Local Notation mmul := (mmul r).
  Local Notation prod2 := (prod2 r).
  Notation mat := (@mat R).

  Lemma sum3_swap {P S} (lp : list P) (ls : list S) N (T : nat -> S -> P -> R) :
    suml lp (fun p => sumn N (fun m => suml ls (fun s => T m s p))) =
    sumn N (fun m => suml ls (fun s => suml lp (fun p => T m s p))).
  Proof.
    rewrite suml_sumn_swap. apply sumn_ext. intros m _. apply suml_swap.
  Qed.

  Lemma sumn_suml_prod {S} N (ls : list S) (c : R) (f : nat -> R) (h : S -> R) :
    (c * sumn N f * suml ls h)%K = sumn N (fun m => suml ls (fun s => (c * f m * h s)%K)).
  Proof.
    rewrite <- sumn_mul_l, <- sumn_mul_r. apply sumn_ext. intros m _.
    rewrite <- suml_mul_l. reflexivity.
  Qed.

  (* ---------------- (F1) sequence form ---------------- *)
  Theorem cauchy_binet_seq N (A B : mat) xs ys :
    suml (seqs N (length ys)) (fun m => (perm_ml A xs m * prod2 B m ys)%K) =
    perm_ml (mmul N A B) xs ys.
  Proof.
    revert xs. induction ys as [|y ys IH]; intros xs.
    - simpl. destruct xs; ring.
    - cbn [length seqs]. rewrite suml_flat_map, suml_seq, perm_ml_cons.
      transitivity (sumn N (fun k => suml (seqs N (length ys)) (fun m' => suml (selects xs)
                      (fun p => (1 * (A (fst p) k * B k y) * (perm_ml A (snd p) m' * prod2 B m' ys))%K)))).
      + apply sumn_ext. intros k _. rewrite suml_map. apply suml_ext. intros m' _.
        rewrite perm_ml_cons. cbn [prod2]. rewrite <- suml_mul_r.
        apply suml_ext. intros p _. ring.
      + rewrite <- sum3_swap. apply suml_ext. intros p _.
        rewrite <- IH. unfold Mat.mmul. rewrite <- sumn_suml_prod. ring.
  Qed.

  Context {ZM : ZMorph r}.

  Fixpoint cprod (c : nat -> R) (n : nat) : R :=
    match n with 0 => 1%K | S n' => (c n' * cprod c n')%K end.

  (* ---------------- (F2) occupation form, arbitrary compatible weights ----------------
     w (t + e_m) * (t_m + 1) = c |t| * w t.  Instances: w t = 1 / prod t!, c = 1;
     w t = multinomial coefficient, c k = k + 1. *)
  Theorem cauchy_binet_weighted N (w : list nat -> R) (c : nat -> R) :
    (forall m s, length s = N -> m < N ->
                 (w (incr m s) * kofnat (S (nth m s 0%nat)))%K = (c (osum s) * w s)%K) ->
    forall (A B : mat) ys xs L, fock_enum L N (length ys) ->
      suml L (fun t => (w t * perm_ml A xs (expand t) * perm_ml B (expand t) ys)%K) =
      (cprod c (length ys) * w (repeat 0%nat N) * perm_ml (mmul N A B) xs ys)%K.
  Proof.
    intros Hw A B ys. induction ys as [|y ys IH]; intros xs L HL.
    - simpl in HL. rewrite (fock_enum_zero L N HL). simpl.
      unfold expand. rewrite expand_from_repeat0. simpl. destruct xs; ring.
    - cbn [length] in HL. set (n' := length ys) in *.
      pose proof (focks_enum N n') as HL'. set (L' := focks N n') in *.
      destruct HL as [Hnd Hin]. destruct HL' as [Hnd' Hin'].
      set (T := fun (m : nat) (s : list nat) (p : nat * list nat) =>
                  (c n' * (A (fst p) m * B m y) *
                   (w s * perm_ml A (snd p) (expand s) * perm_ml B (expand s) ys))%K).
      transitivity (sumn N (fun m => suml L' (fun s => suml (selects xs) (fun p => T m s p)))).
      + (* left-hand side: grouped Laplace expansion, then reindex t = s + e_m *)
        set (g := fun (m : nat) (t : list nat) =>
                    (w t * perm_ml A xs (expand t) *
                     (kofnat (nth m t 0%nat) * B m y * perm_ml B (expand (decr m t)) ys))%K).
        transitivity (sumn N (fun m => suml L (fun t => g m t))).
        { rewrite <- suml_sumn_swap. apply suml_ext. intros t Ht.
          apply Hin in Ht. destruct Ht as [Hl _].
          rewrite perm_ml_expand_step, Hl. unfold g. rewrite <- sumn_mul_l. reflexivity. }
        apply sumn_ext. intros m Hm.
        transitivity (suml (filter (fun t => 0 <? nth m t 0) L) (g m)).
        { rewrite suml_filter. apply suml_ext. intros t _.
          destruct (Nat.ltb_spec 0 (nth m t 0)) as [Hp|Hp]; [reflexivity|].
          unfold g. replace (nth m t 0) with 0%nat by lia. rewrite kofnat_0. ring. }
        rewrite (suml_perm _ (map (incr m) L')).
        2:{ apply NoDup_Permutation.
            - apply NoDup_filter. exact Hnd.
            - apply nodup_map_inj; [apply incr_inj|exact Hnd'].
            - intros t. rewrite filter_In, in_map_iff, Hin. split.
              + intros [[Hl Hs] Hp]. apply Nat.ltb_lt in Hp. exists (decr m t). split.
                * apply incr_decr. exact Hp.
                * apply Hin'. rewrite decr_length. split; [exact Hl|].
                  pose proof (osum_decr m t Hp). lia.
              + intros [s [<- Hs]]. apply Hin' in Hs. destruct Hs as [Hl Hs].
                rewrite incr_length, osum_incr, nth_incr_same by lia.
                split; [split; [exact Hl|lia]|]. apply Nat.ltb_lt. lia. }
        rewrite suml_map. apply suml_ext. intros s Hs. apply Hin' in Hs. destruct Hs as [Hl Hs].
        unfold g, T. rewrite decr_incr, nth_incr_same by lia.
        rewrite (perm_ml_cols_perm A xs _ _ (expand_incr m s ltac:(lia))), perm_ml_cons.
        transitivity ((w (incr m s) * kofnat (S (nth m s 0%nat))) *
                      suml (selects xs) (fun p => (A (fst p) m * perm_ml A (snd p) (expand s))%K) *
                      (B m y * perm_ml B (expand s) ys))%K; [ring|].
        rewrite Hw by assumption. rewrite Hs.
        rewrite <- suml_mul_l, <- suml_mul_r. apply suml_ext. intros p _. ring.
      + (* right-hand side: Laplace expansion and the induction hypothesis *)
        rewrite <- sum3_swap. rewrite perm_ml_cons, <- suml_mul_l.
        apply suml_ext. intros p _. unfold T.
        transitivity (c n' * sumn N (fun m => (A (fst p) m * B m y)%K) *
                      suml L' (fun s => (w s * perm_ml A (snd p) (expand s) * perm_ml B (expand s) ys)%K))%K.
        { rewrite sumn_suml_prod. reflexivity. }
        rewrite (IH (snd p) L' (conj Hnd' Hin')). change (length (y :: ys)) with (S n'). cbn [cprod]. unfold Mat.mmul. ring.
  Qed.

  (* ---------------- (F2) division-free: multinomial weights ---------------- *)
  Lemma cprod_fact n : cprod (fun k => kofnat (S k)) n = kofnat (fact n).
  Proof.
    induction n as [|n IH]; simpl cprod; [symmetry; apply kofnat_1|].
    rewrite IH, <- kofnat_mul. reflexivity.
  Qed.

  Theorem cauchy_binet_multinomial_gen N (M : list nat -> nat) :
    (forall t, length t = N -> (M t * fact_prod t = fact (osum t))%nat) ->
    forall (A B : mat) xs ys L, fock_enum L N (length ys) ->
      suml L (fun t => (kofnat (M t) * perm_ml A xs (expand t) * perm_ml B (expand t) ys)%K) =
      (kofnat (fact (length ys)) * perm_ml (mmul N A B) xs ys)%K.
  Proof.
    intros HM A B xs ys L HL.
    rewrite (cauchy_binet_weighted N (fun t => kofnat (M t)) (fun k => kofnat (S k))) with (L := L);
      [| |exact HL].
    - rewrite cprod_fact.
      assert (E : M (repeat 0%nat N) = 1%nat).
      { pose proof (HM (repeat 0%nat N) (repeat_length _ _)) as H.
        rewrite fact_prod_repeat0, osum_repeat0 in H. simpl in H. lia. }
      rewrite E, kofnat_1. ring.
    - intros m s Hl Hm. rewrite <- !kofnat_mul. f_equal.
      pose proof (HM (incr m s) ltac:(rewrite incr_length; exact Hl)) as H1.
      pose proof (HM s Hl) as H2.
      rewrite fact_prod_incr, osum_incr in H1 by lia.
      change (fact (S (osum s))) with (S (osum s) * fact (osum s))%nat in H1.
      rewrite <- H2 in H1. pose proof (fact_prod_pos s) as Hp.
      apply (Nat.mul_cancel_r _ _ (fact_prod s)); [lia|]. lia.
  Qed.

  (* sum_t (n! / prod t!) perm A[xs|t] perm B[t|ys] = n! perm (A B)[xs|ys] *)
  Theorem cauchy_binet_multinomial N (A B : mat) xs ys L :
    fock_enum L N (length ys) ->
    suml L (fun t => (kofnat (multinom t) * perm_ml A xs (expand t) * perm_ml B (expand t) ys)%K) =
    (kofnat (fact (length ys)) * perm_ml (mmul N A B) xs ys)%K.
  Proof. apply cauchy_binet_multinomial_gen. intros t _. apply multinom_spec. Qed.

  (* ---------------- inverses of the positive integers ---------------- *)
  Section Inv.
    Variable ninv : nat -> R.
    Hypothesis Hninv : forall k, 0 < k -> (kofnat k * ninv k)%K = 1%K.

    Lemma ninv_mul a b : 0 < a -> 0 < b -> (ninv (a * b) * kofnat a)%K = ninv b.
    Proof.
      intros Ha Hb.
      transitivity ((kofnat (a * b) * ninv (a * b)) * ninv b)%K.
      - rewrite kofnat_mul.
        transitivity (ninv (a * b) * kofnat a * (kofnat b * ninv b))%K; [|ring].
        rewrite Hninv by exact Hb. ring.
      - rewrite Hninv by nia. ring.
    Qed.

    Lemma ninv_1 : ninv 1 = 1%K.
    Proof.
      transitivity (kofnat 1 * ninv 1)%K; [rewrite kofnat_1; ring|]. apply Hninv. lia.
    Qed.

    Lemma cprod_one n : cprod (fun _ => 1%K) n = 1%K.
    Proof. induction n as [|n IH]; simpl; [reflexivity|]. rewrite IH. ring. Qed.

    (* (F2) sum over the Fock basis of perm A[xs|t] perm B[t|ys] / prod t! *)
    Theorem cauchy_binet_fock N (A B : mat) xs ys L :
      fock_enum L N (length ys) ->
      suml L (fun t => (perm_ml A xs (expand t) * perm_ml B (expand t) ys * ninv (fact_prod t))%K) =
      perm_ml (mmul N A B) xs ys.
    Proof.
      intros HL.
      pose proof (cauchy_binet_weighted N (fun t => ninv (fact_prod t)) (fun _ => 1%K)) as H.
      cbv beta in H. rewrite (suml_ext L _ (fun t => (ninv (fact_prod t) * perm_ml A xs (expand t) *
                                                       perm_ml B (expand t) ys)%K))
        by (intros; ring).
      rewrite H with (B := B) (ys := ys) (xs := xs) (L := L); [|clear H|exact HL].
      - rewrite cprod_one, fact_prod_repeat0, ninv_1. ring.
      - intros m s Hl Hm. rewrite fact_prod_incr by lia.
        rewrite ninv_mul; [ring|lia|apply fact_prod_pos].
    Qed.

    (* (F4) composition of amplitudes: the permanents of the product circuit are
       the sums over intermediate Fock states *)
    Corollary amp_perm_compose N (U1 U2 : mat) ins outs L :
      fock_enum L N (osum ins) ->
      suml L (fun t => (amp_perm r U2 t outs * amp_perm r U1 ins t * ninv (fact_prod t))%K) =
      amp_perm r (mmul N U2 U1) ins outs.
    Proof.
      intros HL. unfold amp_perm. apply cauchy_binet_fock. rewrite expand_length. exact HL.
    Qed.

    (* Gram matrix of the Fock-space columns of a (left-)unitary: orthonormality
       of the images of the Fock basis states, up to the factors prod s! *)
    Theorem fock_gram N (U : mat) s s' L :
      lunit r N U -> length s = N -> length s' = N -> fock_enum L N (osum s') ->
      suml L (fun t => (kconj r (perm_ml U (expand t) (expand s)) * perm_ml U (expand t) (expand s') *
                        ninv (fact_prod t))%K) =
      if nlist_eqb s s' then kofnat (fact_prod s) else 0%K.
    Proof.
      intros HU Hs Hs' HL.
      rewrite (suml_ext L _ (fun t => (perm_ml (madj r U) (expand s) (expand t) *
                                       perm_ml U (expand t) (expand s') * ninv (fact_prod t))%K))
        by (intros t _; rewrite perm_ml_conj_adj; reflexivity).
      rewrite cauchy_binet_fock with (N := N) by (rewrite expand_length; exact HL).
      rewrite (perm_ml_meq N _ (mid r)).
      - apply perm_ml_mid_delta. congruence.
      - exact HU.
      - intros a Ha. apply expand_bounds in Ha. lia.
      - intros a Ha. apply expand_bounds in Ha. lia.
    Qed.
  End Inv.
End CauchyBinet.

(* ------------------------------------------------------------------ *)
(* (F3) Fock-space unitarity over the reals                            *)
(* ------------------------------------------------------------------ *)
From Coq Require Import Reals Lra.
From LW Require Import Base.RInst Proofs.SlosP.

Global Instance rops_zmorph : ZMorph rops.
Proof. constructor; simpl; [exact plus_IZR|reflexivity|reflexivity]. Qed.

Global Instance cops_zmorph : ZMorph cops := cplx_zmorph rops.

Section RealUnitarity.
  Local Open Scope R_scope.

  (* 1/k as a complex number *)
  Definition cinvn (k : nat) : C := (/ IZR (Z.of_nat k), 0).

  Lemma cinvn_spec k : (0 < k)%nat -> kmul cops (kofnat cops k) (cinvn k) = k1 cops.
  Proof.
    intros Hk. assert (IZR (Z.of_nat k) <> 0) by (apply not_0_IZR; lia).
    unfold cinvn, kofnat, cops. simpl. unfold cmul. simpl. f_equal; field; assumption.
  Qed.

  Lemma fst_suml_cops {A} (L : list A) (f : A -> C) :
    fst (suml cops L f) = suml rops L (fun a => fst (f a)).
  Proof. induction L as [|a L IH]; simpl; [reflexivity|]. rewrite IH. reflexivity. Qed.

  Lemma IZR_fact_prod_neq s : IZR (Z.of_nat (fact_prod s)) <> 0.
  Proof. apply not_0_IZR. pose proof (fact_prod_pos s). lia. Qed.

  Lemma prob_of_eq (U : @mat C) ins t :
    prob_of rops U ins t =
    cnorm2 rops (perm_ml cops U (expand t) (expand ins)) *
    / (IZR (Z.of_nat (fact_prod ins)) * IZR (Z.of_nat (fact_prod t))).
  Proof.
    unfold prob_of, amp_perm, amp_factor, kofnat. rewrite Nat2Z.inj_mul, mult_IZR. reflexivity.
  Qed.

  (* sum of |amplitude|^2 over any exact enumeration of the output Fock basis *)
  Theorem fock_unitarity_enum N (U : @mat C) ins L :
    lunit cops N U -> length ins = N -> fock_enum L N (osum ins) ->
    suml rops L (fun outs => prob_of rops U ins outs) = 1.
  Proof.
    intros HU Hlen HL.
    pose proof (cauchy_binet_fock (r:=cops) cinvn cinvn_spec N (madj cops U) U
                  (expand ins) (expand ins) L) as H.
    rewrite expand_length in H. specialize (H HL).
    rewrite (perm_ml_meq N _ (mid cops)) in H.
    2:{ exact HU. }
    2,3: intros a Ha; apply expand_bounds in Ha; lia.
    rewrite perm_ml_identity in H.
    apply (f_equal fst) in H. rewrite fst_suml_cops in H.
    change (fst (kofnat cops (fact_prod ins))) with (IZR (Z.of_nat (fact_prod ins))) in H.
    pose proof (IZR_fact_prod_neq ins) as Hi.
    rewrite (suml_ext L _ (fun t => kmul rops (/ IZR (Z.of_nat (fact_prod ins)))
               (fst (kmul cops (kmul cops (perm_ml cops (madj cops U) (expand ins) (expand t))
                                           (perm_ml cops U (expand t) (expand ins)))
                               (cinvn (fact_prod t)))))).
    - rewrite suml_mul_l, H. simpl. field. exact Hi.
    - intros t _. rewrite <- perm_ml_conj_adj, prob_of_eq.
      destruct (perm_ml cops U (expand t) (expand ins)) as [a b].
      pose proof (IZR_fact_prod_neq t) as Ht.
      unfold cinvn, cnorm2. simpl. unfold cmul. simpl.
      field. split; assumption.
  Qed.

  (* the headline: the probabilities of the permanent backend over the Fock
     basis generated by the code sum to one (N = 0 is excluded: fock_sums 0 n = []) *)
  Theorem fock_unitarity N (U : @mat C) ins :
    (0 < N)%nat -> unitary cops N U -> length ins = N ->
    suml rops (fock_sums N (osum ins)) (fun outs => prob_of rops U ins outs) = 1.
  Proof.
    intros HN [HU _] Hlen. apply (fock_unitarity_enum N U ins); [exact HU|exact Hlen|].
    apply fock_sums_enum. exact HN.
  Qed.

  (* ---------------- consequences used by the distribution properties ---------------- *)
  Lemma prob_of_nonneg (U : @mat C) ins t : 0 <= prob_of rops U ins t.
  Proof.
    rewrite prob_of_eq. apply Rmult_le_pos.
    - unfold cnorm2. simpl. nra.
    - left. apply Rinv_0_lt_compat. apply Rmult_lt_0_compat; apply IZR_lt;
        [pose proof (fact_prod_pos ins)|pose proof (fact_prod_pos t)]; lia.
  Qed.

  Lemma suml_rops_nonneg {A} (L : list A) f : (forall a, In a L -> 0 <= f a) -> 0 <= suml rops L f.
  Proof.
    induction L as [|a L IH]; intros H; simpl; [lra|].
    pose proof (H a (or_introl eq_refl)). assert (0 <= suml rops L f) by (apply IH; intros; apply H; right; assumption).
    lra.
  Qed.

  Lemma suml_rops_term_le {A} (L : list A) f a :
    (forall b, In b L -> 0 <= f b) -> In a L -> f a <= suml rops L f.
  Proof.
    induction L as [|x L IH]; intros H Hin; [contradiction|]. simpl.
    assert (H0 : 0 <= suml rops L f) by (apply suml_rops_nonneg; intros; apply H; right; assumption).
    pose proof (H x (or_introl eq_refl)). destruct Hin as [->|Hin]; [lra|].
    assert (f a <= suml rops L f) by (apply IH; [intros; apply H; right; assumption|exact Hin]). lra.
  Qed.

  (* every probability of a photon-number conserving transition is at most one *)
  Theorem prob_of_le_1 N (U : @mat C) ins outs :
    lunit cops N U -> length ins = N -> length outs = N -> osum outs = osum ins ->
    prob_of rops U ins outs <= 1.
  Proof.
    intros HU Hi Ho Hs. rewrite <- (fock_unitarity_enum N U ins (focks N (osum ins)) HU Hi (focks_enum _ _)).
    apply (suml_rops_term_le (focks N (osum ins)) (fun outs => prob_of rops U ins outs)).
    - intros b _. apply prob_of_nonneg.
    - apply focks_spec. split; assumption.
  Qed.

  (* the SLOS back end assigns the same probability as the permanent back end *)
  Theorem slos_prob_eq_prob_of n (U : @mat C) ins t c :
    length t = n -> osum t = osum ins -> fd_get (slos cops n U ins) t = Some c ->
    slos_prob rops ins (t, c) = prob_of rops U ins t.
  Proof.
    intros Hl Hs Hg. destruct (slos_perm (r:=cops) n U ins t Hl Hs) as [c' [Hg' Hc]].
    rewrite Hg in Hg'. inversion Hg'; subst c'. clear Hg'.
    rewrite prob_of_eq, <- Hc. unfold slos_prob, kofnat. destruct c as [a b].
    pose proof (IZR_fact_prod_neq t) as Ht. pose proof (IZR_fact_prod_neq ins) as Hi.
    unfold cnorm2. simpl. unfold cmul. simpl. field. split; assumption.
  Qed.

  Lemma fd_get_in_nodup {V} (d : list (list nat * V)) k v :
    NoDup (map fst d) -> In (k, v) d -> fd_get d k = Some v.
  Proof.
    induction d as [|[k' v'] d IH]; intros Hnd Hin; [contradiction|].
    simpl in Hnd. inversion Hnd as [|? ? Hk Hd]; subst. simpl. destruct Hin as [E|Hin].
    - inversion E; subst. rewrite nlist_eqb_refl. reflexivity.
    - destruct (nlist_eqb k' k) eqn:E; [|apply IH; assumption].
      apply nlist_eqb_eq in E. subst. exfalso. apply Hk. apply (in_map fst) in Hin. exact Hin.
  Qed.

  Theorem slos_entry_prob n (U : @mat C) ins kv :
    In kv (slos cops n U ins) -> slos_prob rops ins kv = prob_of rops U ins (fst kv).
  Proof.
    intros Hin. destruct kv as [t c]. simpl fst.
    assert (Hk : In t (map fst (slos cops n U ins))) by (apply (in_map fst) in Hin; exact Hin).
    apply (slos_keys (r:=cops)) in Hk. destruct Hk as [Hl Hs].
    apply (slos_prob_eq_prob_of n); try assumption.
    apply fd_get_in_nodup; [apply (slos_keys_nodup (r:=cops))|exact Hin].
  Qed.

  (* the SLOS dictionary of a (left-)unitary is normalised *)
  Theorem slos_total n (U : @mat C) ins :
    lunit cops n U -> length ins = n ->
    suml rops (slos cops n U ins) (fun kv => slos_prob rops ins kv) = 1.
  Proof.
    intros HU Hl.
    rewrite (suml_ext (slos cops n U ins) _ (fun kv => prob_of rops U ins (fst kv)))
      by (intros kv Hin; apply (slos_entry_prob n); exact Hin).
    rewrite <- (suml_map fst (slos cops n U ins) (fun t => prob_of rops U ins t)).
    apply (fock_unitarity_enum n); [exact HU|exact Hl|]. split.
    - apply (slos_keys_nodup (r:=cops)).
    - intros t. apply (slos_keys (r:=cops)).
  Qed.

  (* orthogonality of the images of distinct Fock states (complex Gram matrix) *)
  Theorem fock_orthogonality N (U : @mat C) s s' L :
    lunit cops N U -> length s = N -> length s' = N -> s <> s' -> fock_enum L N (osum s') ->
    suml cops L (fun t => kmul cops (kmul cops (kconj cops (perm_ml cops U (expand t) (expand s)))
                                               (perm_ml cops U (expand t) (expand s')))
                                    (cinvn (fact_prod t))) = k0 cops.
  Proof.
    intros HU Hs Hs' Hne HL.
    rewrite (fock_gram (r:=cops) cinvn cinvn_spec N U s s' L HU Hs Hs' HL).
    rewrite (proj2 (nlist_eqb_neq s s') Hne). reflexivity.
  Qed.
End RealUnitarity.
