(* Lemmas for property C05: the Analyzer / QuickSampler models of
   Model/Analyzer.v related to the Sampler distribution (Model/Fock.v
   full_dist / pdist_calc) and to the Simulator amplitudes.

   Part 1  probability dictionaries (pd_add / pd_set folds) over any StarRing
   Part 2  the Sampler distribution (threshold 0, both back ends) at a key is
           the sum over all loss-mode occupations of prob_of      (over R)
   Part 3  what Analyzer.analyze returns (any ops), performance, error rate
   Part 4  analyzer = sampler, quick sampler = conditioned sampler,
           |simulate|^2 = sampler                                  (over R)
   Part 5  totality: refutation witnesses and the partial statement *)
From Coq Require Import ZArith Arith Lia Ring_theory Ring List Bool Permutation.
From LW Require Import Base.Sx Base.Num Base.Sums Base.Mat Model.State Model.Fock Model.Analyzer
     Proofs.StateP Proofs.PermP Proofs.SimP Proofs.SlosP Proofs.FockUnitP.
Import ListNotations.
Open Scope nat_scope.

(* the occupations of the loss modes that hold j photons; without loss modes
   the only (empty) configuration *)
Definition loss_cfgs (l j : nat) : list (list nat) :=
  if Nat.eqb l 0 then [[]] else fock_sums l j.

Lemma Forall2_len {A B} (R : A -> B -> Prop) l r : Forall2 R l r -> length l = length r.
Proof. induction 1; simpl; congruence. Qed.

Lemma Forall2_map_l {A B C} (f : A -> B) (R : B -> C -> Prop) l r :
  Forall2 (fun a c => R (f a) c) l r -> Forall2 R (map f l) r.
Proof. induction 1; simpl; constructor; assumption. Qed.

Lemma Forall2_map_lr {A B C} (f : A -> B) (g : A -> C) (R : B -> C -> Prop) (l : list A) :
  Forall (fun a => R (f a) (g a)) l -> Forall2 R (map f l) (map g l).
Proof. induction 1; simpl; constructor; assumption. Qed.

Lemma fold_left_ext {A B} (f g : A -> B -> A) (L : list B) (a : A) :
  (forall x b, f x b = g x b) -> fold_left f L a = fold_left g L a.
Proof.
  intros H. revert a. induction L as [|b L IH]; intros a; simpl; [reflexivity|].
  rewrite H. apply IH.
Qed.

(* ------------------------------------------------------------------ *)
(* Part 1: dictionaries                                                *)
(* ------------------------------------------------------------------ *)
Section Dict.
  Context {K : Type} {o : ops K} {SR : StarRing o}.
  Let Rr := sr_ring (o:=o).
  Add Ring Kr : Rr.
  Local Notation "0" := (k0 o) : K_scope.
  Local Notation "1" := (k1 o) : K_scope.
  Local Notation "a + b" := (kadd o a b) : K_scope.
  Local Notation "a * b" := (kmul o a b) : K_scope.
  Local Notation "a - b" := (ksub o a b) : K_scope.
  Local Notation pdict := (@pdict K).
  Local Notation pd_val := (pd_val o).
  Local Notation pd_add := (pd_add o).
  Local Notation pd_total := (pd_total o).
  Local Notation suml := (suml o).

  Definition pd_keys (d : pdict) : list (list nat) := map fst d.

  Lemma pd_get_none (d : pdict) k : pd_get d k = None <-> ~ In k (pd_keys d).
  Proof.
    induction d as [|[k' v] d IH]; simpl; [intuition|].
    destruct (nlist_eqb k' k) eqn:E.
    - apply nlist_eqb_eq in E. subst. split; [discriminate|]. intros H. exfalso. apply H. left. reflexivity.
    - apply nlist_eqb_neq in E. rewrite IH. intuition.
  Qed.

  Lemma pd_val_absent (d : pdict) k : ~ In k (pd_keys d) -> pd_val d k = 0%K.
  Proof. intros H. unfold Analyzer.pd_val. apply pd_get_none in H. rewrite H. reflexivity. Qed.

  Lemma pd_val_add (d : pdict) k v k' :
    pd_val (pd_add d k v) k' = if nlist_eqb k k' then (pd_val d k' + v)%K else pd_val d k'.
  Proof.
    unfold Analyzer.pd_val. induction d as [|[k0 v0] d IH]; simpl.
    - destruct (nlist_eqb k k'); [ring|reflexivity].
    - destruct (nlist_eqb k0 k) eqn:E0; simpl.
      + apply nlist_eqb_eq in E0. subst k0. destruct (nlist_eqb k k'); reflexivity.
      + destruct (nlist_eqb k0 k') eqn:E1.
        * apply nlist_eqb_eq in E1. subst k0.
          replace (nlist_eqb k k') with false; [reflexivity|].
          symmetry. apply nlist_eqb_neq. apply nlist_eqb_neq in E0. congruence.
        * exact IH.
  Qed.

  Lemma pd_keys_add (d : pdict) k v t : In t (pd_keys (pd_add d k v)) <-> t = k \/ In t (pd_keys d).
  Proof.
    induction d as [|[k0 v0] d IH]; simpl; [intuition|].
    destruct (nlist_eqb k0 k) eqn:E; simpl.
    - apply nlist_eqb_eq in E. subst. intuition.
    - rewrite IH. intuition.
  Qed.

  Lemma pd_add_nodup (d : pdict) k v : NoDup (pd_keys d) -> NoDup (pd_keys (pd_add d k v)).
  Proof.
    induction d as [|[k0 v0] d IH]; simpl; intros H.
    - constructor; [intros []|constructor].
    - inversion H as [|? ? Hn Hd]; subst. destruct (nlist_eqb k0 k) eqn:E; simpl.
      + constructor; assumption.
      + constructor; [|apply IH; assumption]. intros Hin. apply pd_keys_add in Hin.
        destruct Hin as [->|Hin]; [|contradiction]. rewrite nlist_eqb_refl in E. discriminate.
  Qed.

  Lemma pd_total_suml (d : pdict) : pd_total d = suml d snd.
  Proof.
    unfold Fock.pd_total.
    assert (G : forall a, fold_left (fun acc kv => (acc + snd kv)%K) d a = (a + suml d snd)%K).
    { induction d as [|kv d IH]; intros a; simpl; [ring|]. rewrite IH. ring. }
    rewrite G. ring.
  Qed.

  Lemma pd_total_add (d : pdict) k v : pd_total (pd_add d k v) = (pd_total d + v)%K.
  Proof.
    rewrite !pd_total_suml. induction d as [|[k0 v0] d IH]; simpl; [ring|].
    destruct (nlist_eqb k0 k); simpl; [ring|]. rewrite IH. ring.
  Qed.

  Lemma pd_val_set (d : pdict) k v k' :
    pd_val (pd_set d k v) k' = if nlist_eqb k k' then v else pd_val d k'.
  Proof.
    unfold Analyzer.pd_val. induction d as [|[k0 v0] d IH]; simpl.
    - destruct (nlist_eqb k k'); reflexivity.
    - destruct (nlist_eqb k0 k) eqn:E0; simpl.
      + apply nlist_eqb_eq in E0. subst k0. destruct (nlist_eqb k k'); reflexivity.
      + destruct (nlist_eqb k0 k') eqn:E1.
        * apply nlist_eqb_eq in E1. subst k0.
          replace (nlist_eqb k k') with false; [reflexivity|].
          symmetry. apply nlist_eqb_neq. apply nlist_eqb_neq in E0. congruence.
        * exact IH.
  Qed.

  Lemma pd_total_set_absent (d : pdict) k v :
    ~ In k (pd_keys d) -> pd_total (pd_set d k v) = (pd_total d + v)%K.
  Proof.
    rewrite !pd_total_suml. induction d as [|[k0 v0] d IH]; simpl; intros H; [ring|].
    destruct (nlist_eqb k0 k) eqn:E; simpl.
    - apply nlist_eqb_eq in E. subst. exfalso. apply H. left. reflexivity.
    - rewrite IH by (intros Hin; apply H; right; exact Hin). ring.
  Qed.

  Lemma pd_total_set_present (d : pdict) k v :
    NoDup (pd_keys d) -> In k (pd_keys d) ->
    (pd_total (pd_set d k v) + pd_val d k)%K = (pd_total d + v)%K.
  Proof.
    rewrite !pd_total_suml. unfold Analyzer.pd_val.
    induction d as [|[k0 v0] d IH]; simpl; intros Hnd Hin; [contradiction|].
    inversion Hnd as [|? ? Hn Hd]; subst.
    destruct (nlist_eqb k0 k) eqn:E; simpl.
    - ring.
    - apply nlist_eqb_neq in E. destruct Hin as [->|Hin]; [congruence|].
      specialize (IH Hd Hin). rewrite <- (sr_ring (o:=o)).(Radd_assoc), IH. ring.
  Qed.

  (* the value of a key in a dictionary with distinct keys, as a sum over its items *)
  Lemma pd_val_suml (d : pdict) k :
    NoDup (pd_keys d) ->
    pd_val d k = suml d (fun kv => if nlist_eqb (fst kv) k then snd kv else 0%K).
  Proof.
    unfold Analyzer.pd_val. induction d as [|[k0 v0] d IH]; simpl; intros Hnd; [reflexivity|].
    inversion Hnd as [|? ? Hn Hd]; subst. destruct (nlist_eqb k0 k) eqn:E.
    - apply nlist_eqb_eq in E. subst k0.
      rewrite (suml_zero' (r:=o)); [ring|]. intros [k1' v1] Hin. simpl.
      destruct (nlist_eqb k1' k) eqn:E1; [|reflexivity].
      apply nlist_eqb_eq in E1. subst. exfalso. apply Hn. apply (in_map fst) in Hin. exact Hin.
    - rewrite IH by assumption. ring.
  Qed.

  (* ---- folds that add selected items ---- *)
  Section Fold.
    Context {A : Type} (keep : A -> bool) (key : A -> list nat) (val : A -> K).
    Definition pd_step (pd : pdict) (a : A) : pdict :=
      if keep a then pd_add pd (key a) (val a) else pd.

    Lemma pd_fold_val (L : list A) (d0 : pdict) k :
      pd_val (fold_left pd_step L d0) k =
      (pd_val d0 k + suml L (fun a => if keep a && nlist_eqb (key a) k then val a else 0%K))%K.
    Proof.
      revert d0. induction L as [|a L IH]; intros d0; simpl; [ring|].
      rewrite IH. unfold pd_step. destruct (keep a); simpl.
      - rewrite pd_val_add. destruct (nlist_eqb (key a) k); ring.
      - ring.
    Qed.

    Lemma pd_fold_total (L : list A) (d0 : pdict) :
      pd_total (fold_left pd_step L d0) =
      (pd_total d0 + suml L (fun a => if keep a then val a else 0%K))%K.
    Proof.
      revert d0. induction L as [|a L IH]; intros d0; simpl; [ring|].
      rewrite IH. unfold pd_step. destruct (keep a); simpl.
      - rewrite pd_total_add. ring.
      - ring.
    Qed.

    Lemma pd_fold_keys (L : list A) (d0 : pdict) t :
      In t (pd_keys (fold_left pd_step L d0)) ->
      In t (pd_keys d0) \/ exists a, In a L /\ keep a = true /\ key a = t.
    Proof.
      revert d0. induction L as [|a L IH]; intros d0; simpl; [intros H; left; exact H|].
      intros H. apply IH in H. destruct H as [H|[b [Hb [Hk He]]]].
      - unfold pd_step in H. destruct (keep a) eqn:Ek.
        + apply pd_keys_add in H. destruct H as [->|H]; [|left; exact H].
          right. exists a. split; [left; reflexivity|]. split; [exact Ek|reflexivity].
        + left. exact H.
      - right. exists b. split; [right; exact Hb|]. split; assumption.
    Qed.

    Lemma pd_fold_nodup (L : list A) (d0 : pdict) :
      NoDup (pd_keys d0) -> NoDup (pd_keys (fold_left pd_step L d0)).
    Proof.
      revert d0. induction L as [|a L IH]; intros d0 H; simpl; [exact H|].
      apply IH. unfold pd_step. destruct (keep a); [apply pd_add_nodup|]; exact H.
    Qed.
  End Fold.

  (* a filtered sum over an exact enumeration of N-mode occupations, grouped by
     the first n modes: the remaining modes run over every occupation *)
  Lemma firstn_app_exact {X} (a b : list X) n : length a = n -> firstn n (a ++ b) = a.
  Proof. intros <-. rewrite firstn_app, Nat.sub_diag, firstn_all. simpl. apply app_nil_r. Qed.

  Lemma marginal_split n l N k (f : list nat -> K) :
    0 < n -> length k = n -> osum k <= N -> (l = 0 -> osum k = N) ->
    suml (filter (fun os => nlist_eqb (firstn n os) k) (fock_sums (n + l) N)) f =
    suml (loss_cfgs l (N - osum k)) (fun ls => f (k ++ ls)).
  Proof.
    intros Hn Hk Hle Hl0.
    rewrite <- (suml_map (r:=o) (fun ls => k ++ ls) (loss_cfgs l (N - osum k)) f).
    apply (suml_perm (r:=o)). apply NoDup_Permutation.
    - apply NoDup_filter. apply fock_sums_nodup.
    - apply nodup_map_inj; [intros x y H; apply app_inv_head in H; exact H|].
      unfold loss_cfgs. destruct (Nat.eqb l 0); [constructor; [intros []|constructor]|apply fock_sums_nodup].
    - intros t. rewrite filter_In, in_map_iff.
      pose proof (fock_sums_enum (n + l) N ltac:(lia)) as [_ HF]. rewrite HF. split.
      + intros [[Hlen Hsum] E]. apply nlist_eqb_eq in E. exists (skipn n t).
        assert (Et : t = k ++ skipn n t) by (rewrite <- E; symmetry; apply firstn_skipn).
        split; [symmetry; exact Et|]. unfold loss_cfgs.
        assert (Hls : length (skipn n t) = l) by (rewrite skipn_length; lia).
        assert (Hos : osum (skipn n t) = N - osum k).
        { rewrite Et in Hsum. rewrite osum_app in Hsum. lia. }
        destruct (Nat.eqb_spec l 0) as [->|Hl].
        * left. symmetry. apply length_zero_iff_nil. exact Hls.
        * apply (fock_sums_enum l (N - osum k) ltac:(lia)). split; assumption.
      + intros [ls [<- Hin]]. unfold loss_cfgs in Hin.
        assert (Hls : length ls = l /\ osum ls = N - osum k).
        { destruct (Nat.eqb_spec l 0) as [->|Hl].
          - destruct Hin as [<-|[]]. simpl. split; [reflexivity|]. specialize (Hl0 eq_refl). lia.
          - apply (fock_sums_enum l (N - osum k) ltac:(lia)) in Hin. exact Hin. }
        destruct Hls as [Hls Hos]. split.
        * rewrite app_length, osum_app. split; lia.
        * apply nlist_eqb_eq. apply firstn_app_exact. exact Hk.
  Qed.
End Dict.

Section DictMore.
  Context {K : Type} {o : ops K} {SR : StarRing o}.
  Lemma pd_keys_set (d : @pdict K) k v t : In t (pd_keys (pd_set d k v)) <-> t = k \/ In t (pd_keys d).
  Proof.
    induction d as [|[k0 v0] d IH]; simpl; [intuition|].
    destruct (nlist_eqb k0 k) eqn:E; simpl.
    - apply nlist_eqb_eq in E. subst. intuition.
    - rewrite IH. intuition.
  Qed.

  Lemma pd_set_nodup (d : @pdict K) k v : NoDup (pd_keys d) -> NoDup (pd_keys (pd_set d k v)).
  Proof.
    induction d as [|[k0 v0] d IH]; simpl; intros H.
    - constructor; [intros []|constructor].
    - inversion H as [|? ? Hn Hd]; subst. destruct (nlist_eqb k0 k) eqn:E; simpl.
      + constructor; assumption.
      + constructor; [|apply IH; assumption]. intros Hin. apply pd_keys_set in Hin.
        destruct Hin as [->|Hin]; [|contradiction]. rewrite nlist_eqb_refl in E. discriminate.
  Qed.
End DictMore.

Lemma add_heralds_length st h r : add_heralds_to_state st h = Ok r -> length r = length st + length h.
Proof.
  unfold add_heralds_to_state. destruct h as [|kv h].
  - intros H. injection H as <-. simpl. lia.
  - intros H. apply add_her_length in H. exact H.
Qed.

Lemma firstn_repeat_le {A} (x : A) n m : n <= m -> firstn n (repeat x m) = repeat x n.
Proof.
  revert m. induction n as [|n IH]; intros m H; [reflexivity|].
  destruct m; [lia|]. simpl. f_equal. apply IH. lia.
Qed.

Lemma znat_length s : length (znat s) = length s.
Proof. apply map_length. Qed.

Lemma osum_firstn_zero n t : length t >= n -> osum (firstn n t) = 0 -> firstn n t = repeat 0 n.
Proof.
  intros Hl H. rewrite (osum_zero _ H). rewrite firstn_length. f_equal. lia.
Qed.

(* ------------------------------------------------------------------ *)
(* Part 2: the Sampler distribution over the reals, threshold 0        *)
(* ------------------------------------------------------------------ *)
From Coq Require Import Reals Lra.
From LW Require Import Base.RInst.

Section RealDist.
  Local Open Scope R_scope.
  Local Notation pdv := (pd_val rops).
  Local Notation P := (prob_of rops).

  Lemma klt_spec a b : klt rops a b = true <-> a < b.
  Proof.
    unfold klt. rewrite negb_true_iff. split.
    - intros H. destruct (Rlt_le_dec a b) as [|r]; [assumption|]. apply rleb_true in r. congruence.
    - intros H. apply not_true_is_false. intros E. apply rleb_true in E. lra.
  Qed.

  Lemma klt0_val p : 0 <= p -> (if klt rops 0 p then p else 0) = p.
  Proof.
    intros Hp. destruct (klt rops 0 p) eqn:E; [reflexivity|].
    destruct (Rle_lt_or_eq_dec 0 p Hp) as [Hlt|<-]; [|reflexivity].
    apply klt_spec in Hlt. congruence.
  Qed.

  Lemma prob_vac (U : @mat C) j : P U (repeat 0%nat j) (repeat 0%nat j) = 1.
  Proof.
    unfold prob_of, amp_perm, amp_factor, expand. rewrite expand_from_repeat0, fact_prod_repeat0.
    simpl. unfold cnorm2. simpl. field.
  Qed.

  Section OneInput.
    Variables (n l : nat) (U : @mat C) (ins : list nat).
    Hypothesis Hn : (0 < n)%nat.
    Hypothesis Hlen : length ins = n.
    Let ins' := ins ++ repeat 0%nat l.
    Let N := osum ins.
    Let F := fock_sums (n + l) N.
    Let vac := repeat 0%nat n.

    Lemma ins'_length : length ins' = (n + l)%nat.
    Proof. unfold ins'. rewrite app_length, repeat_length. lia. Qed.
    Lemma ins'_osum : osum ins' = N.
    Proof. unfold ins'. rewrite osum_app, osum_repeat0. unfold N. lia. Qed.

    Lemma F_enum : fock_enum F (n + l) N.
    Proof. apply fock_sums_enum. lia. Qed.

    Lemma F_firstn os : In os F -> length (firstn n os) = n.
    Proof. intros H. apply F_enum in H. rewrite firstn_length. lia. Qed.

    (* the marginal of the full Fock distribution on the first n modes *)
    Definition marg (k : list nat) : R :=
      suml rops (filter (fun os => nlist_eqb (firstn n os) k) F) (fun os => P U ins' os).

    Lemma marg_alt k :
      marg k = suml rops F (fun os => if nlist_eqb (firstn n os) k then P U ins' os else 0).
    Proof. unfold marg. apply (suml_filter (r:=rops)). Qed.

    Lemma total_one : lunit cops (n + l) U -> suml rops F (fun os => P U ins' os) = 1.
    Proof.
      intros HU. apply (fock_unitarity_enum (n + l) U ins' F HU ins'_length).
      rewrite ins'_osum. exact F_enum.
    Qed.

    Lemma marg_nonneg k : 0 <= marg k.
    Proof. unfold marg. apply suml_rops_nonneg. intros a _. apply prob_of_nonneg. Qed.

    (* ---------- permanent back end ---------- *)
    Let keepP (os : list nat) : bool := negb (Nat.eqb (osum (firstn n os)) 0) && klt rops 0 (P U ins' os).
    Let pdP : @pdict R := fold_left (pd_step (o:=rops) keepP (firstn n) (fun os => P U ins' os)) F [].

    Lemma full_dist_perm_unfold :
      N <> 0%nat ->
      full_dist rops Permanent 0 n l U ins =
      if klt rops (pd_total rops pdP) 1 && negb (Nat.eqb l 0)
      then pd_set pdP vac (1 - pd_total rops pdP) else pdP.
    Proof.
      intros HN. unfold full_dist. fold N. rewrite (proj2 (Nat.eqb_neq N 0) HN).
      cbv zeta. fold ins'. rewrite ins'_length, ins'_osum. fold F.
      rewrite (fold_left_ext _ (pd_step (o:=rops) keepP (firstn n) (fun os => P U ins' os)) F []).
      - reflexivity.
      - intros pd os. unfold pd_step, keepP.
        destruct (Nat.eqb (osum (firstn n os)) 0); simpl; [reflexivity|].
        destruct (klt rops 0 (P U ins' os)); reflexivity.
    Qed.

    Lemma pdP_val k :
      pdv pdP k = suml rops F (fun os => if negb (Nat.eqb (osum (firstn n os)) 0) && nlist_eqb (firstn n os) k
                                       then P U ins' os else 0).
    Proof.
      unfold pdP. rewrite (pd_fold_val (o:=rops)).
      unfold pd_val at 1. simpl pd_get. cbn [k0 rops kadd]. rewrite Rplus_0_l.
      apply (suml_ext (o:=rops)). intros os _. unfold keepP.
      destruct (Nat.eqb (osum (firstn n os)) 0); simpl; [reflexivity|].
      destruct (nlist_eqb (firstn n os) k); simpl.
      - rewrite andb_true_r. apply klt0_val. apply prob_of_nonneg.
      - rewrite andb_false_r. reflexivity.
    Qed.

    Lemma pdP_total :
      pd_total rops pdP = suml rops F (fun os => if negb (Nat.eqb (osum (firstn n os)) 0) then P U ins' os else 0).
    Proof.
      unfold pdP. rewrite (pd_fold_total (o:=rops)).
      rewrite (pd_total_suml (o:=rops)). simpl suml. cbn [k0 rops kadd]. rewrite Rplus_0_l.
      apply (suml_ext (o:=rops)). intros os _. unfold keepP.
      destruct (Nat.eqb (osum (firstn n os)) 0); simpl; [reflexivity|].
      apply klt0_val. apply prob_of_nonneg.
    Qed.

    Lemma pdP_nodup : NoDup (pd_keys pdP).
    Proof. unfold pdP. apply (pd_fold_nodup (o:=rops)). constructor. Qed.

    Lemma pdP_vac_absent : ~ In vac (pd_keys pdP).
    Proof.
      intros H. unfold pdP in H. apply (pd_fold_keys (o:=rops)) in H.
      destruct H as [[]|[os [_ [Hk He]]]]. unfold keepP in Hk. apply andb_true_iff in Hk.
      destruct Hk as [Hk _]. rewrite He in Hk. unfold vac in Hk. rewrite osum_repeat0 in Hk. discriminate.
    Qed.

    Lemma vac_iff os : In os F -> (nlist_eqb (firstn n os) vac = Nat.eqb (osum (firstn n os)) 0).
    Proof.
      intros Hin. destruct (Nat.eqb_spec (osum (firstn n os)) 0) as [E|E].
      - apply nlist_eqb_eq. unfold vac. rewrite <- (F_firstn os Hin) at 2.
        rewrite (osum_zero _ E) at 1. reflexivity.
      - apply nlist_eqb_neq. intros E'. apply E. rewrite E'. apply osum_repeat0.
    Qed.

    Lemma pdP_split : (pd_total rops pdP + marg vac)%R = suml rops F (fun os => P U ins' os).
    Proof.
      rewrite pdP_total, marg_alt. change Rplus with (kadd rops). rewrite <- (suml_add (o:=rops)).
      apply (suml_ext (o:=rops)). intros os Hin. rewrite (vac_iff os Hin).
      destruct (Nat.eqb (osum (firstn n os)) 0); simpl; ring.
    Qed.

    Lemma full_dist_perm_val k :
      N <> 0%nat -> length k = n ->
      (lunit cops (n + l) U \/ (0 < osum k)%nat) ->
      pdv (full_dist rops Permanent 0 n l U ins) k = marg k.
    Proof.
      intros HN Hk Hg. rewrite (full_dist_perm_unfold HN).
      destruct (Nat.eqb_spec (osum k) 0) as [Ek|Ek].
      - (* the vacuum key *)
        destruct Hg as [HU|Hg]; [|lia].
        assert (Ekv : k = vac) by (unfold vac; rewrite (osum_zero _ Ek), Hk; reflexivity). subst k.
        pose proof pdP_split as Hs. rewrite (total_one HU) in Hs.
        pose proof (marg_nonneg vac) as Hm.
        destruct (klt rops (pd_total rops pdP) 1 && negb (Nat.eqb l 0)) eqn:Eb.
        + rewrite (pd_val_set (o:=rops)), nlist_eqb_refl. lra.
        + rewrite (pd_val_absent (o:=rops)) by exact pdP_vac_absent. cbn [k0 rops].
          apply andb_false_iff in Eb. destruct Eb as [Eb|Eb].
          * assert (~ pd_total rops pdP < 1) by (intros H; apply klt_spec in H; congruence). lra.
          * apply negb_false_iff, Nat.eqb_eq in Eb.
            (* no loss modes: every state has N > 0 photons in the first n modes *)
            rewrite marg_alt. symmetry. apply (suml_zero' (r:=rops)). intros os Hin.
            rewrite (vac_iff os Hin). apply F_enum in Hin. destruct Hin as [Hl Hs'].
            rewrite firstn_all2 by lia. rewrite Hs'.
            rewrite (proj2 (Nat.eqb_neq N 0) HN). reflexivity.
      - assert (Hne : nlist_eqb vac k = false).
        { apply nlist_eqb_neq. intros E. apply Ek. rewrite <- E. apply osum_repeat0. }
        assert (G : pdv pdP k = marg k).
        { rewrite pdP_val, marg_alt. apply (suml_ext (o:=rops)). intros os _.
          destruct (nlist_eqb (firstn n os) k) eqn:E; [|rewrite andb_false_r; reflexivity].
          apply nlist_eqb_eq in E. rewrite E. rewrite (proj2 (Nat.eqb_neq _ _) Ek). reflexivity. }
        destruct (klt rops (pd_total rops pdP) 1 && negb (Nat.eqb l 0)).
        + rewrite (pd_val_set (o:=rops)), Hne. exact G.
        + exact G.
    Qed.

    Lemma full_dist_perm_total :
      N <> 0%nat -> lunit cops (n + l) U -> pd_total rops (full_dist rops Permanent 0 n l U ins) = 1.
    Proof.
      intros HN HU. rewrite (full_dist_perm_unfold HN).
      pose proof pdP_split as Hs. rewrite (total_one HU) in Hs.
      pose proof (marg_nonneg vac) as Hm.
      destruct (klt rops (pd_total rops pdP) 1 && negb (Nat.eqb l 0)) eqn:Eb.
      - rewrite (pd_total_set_absent (o:=rops)) by exact pdP_vac_absent. cbn [kadd rops]. lra.
      - apply andb_false_iff in Eb. destruct Eb as [Eb|Eb].
        + assert (~ pd_total rops pdP < 1) by (intros H; apply klt_spec in H; congruence). lra.
        + apply negb_false_iff, Nat.eqb_eq in Eb.
          assert (marg vac = 0); [|lra].
          rewrite marg_alt. apply (suml_zero' (r:=rops)). intros os Hin.
          rewrite (vac_iff os Hin). apply F_enum in Hin. destruct Hin as [Hl Hs'].
          rewrite firstn_all2 by lia. rewrite Hs'.
          rewrite (proj2 (Nat.eqb_neq N 0) HN). reflexivity.
    Qed.

    Lemma full_dist_perm_nodup : NoDup (pd_keys (full_dist rops Permanent 0 n l U ins)).
    Proof.
      destruct (Nat.eq_dec N 0) as [E|HN].
      - unfold full_dist. fold N. rewrite E. simpl. constructor; [intros []|constructor].
      - rewrite (full_dist_perm_unfold HN).
        destruct (klt rops (pd_total rops pdP) 1 && negb (Nat.eqb l 0)); [apply pd_set_nodup|]; exact pdP_nodup.
    Qed.

    (* ---------- SLOS back end ---------- *)
    Let S := slos cops (n + l) U ins'.
    Let keepS (kv : list nat * C) : bool := klt rops 0 (slos_prob rops ins' kv).

    Lemma full_dist_slos_unfold :
      N <> 0%nat ->
      full_dist rops Slos 0 n l U ins =
      fold_left (pd_step (o:=rops) keepS (fun kv => firstn n (fst kv)) (fun kv => slos_prob rops ins' kv)) S [].
    Proof.
      intros HN. unfold full_dist. fold N. rewrite (proj2 (Nat.eqb_neq N 0) HN).
      cbv zeta. fold ins'. apply fold_left_ext. intros pd kv. reflexivity.
    Qed.

    Lemma S_perm : Permutation (map fst S) F.
    Proof.
      apply (fock_enum_perm _ _ (n + l) N); [|exact F_enum]. split.
      - apply (slos_keys_nodup (r:=cops)).
      - intros t. unfold S. rewrite (slos_keys (r:=cops)). rewrite ins'_osum. tauto.
    Qed.

    Lemma full_dist_slos_val k :
      N <> 0%nat -> pdv (full_dist rops Slos 0 n l U ins) k = marg k.
    Proof.
      intros HN. rewrite (full_dist_slos_unfold HN), (pd_fold_val (o:=rops)).
      unfold pd_val at 1. simpl pd_get. cbn [k0 rops kadd]. rewrite Rplus_0_l.
      rewrite marg_alt, <- (suml_perm (r:=rops) _ _ _ S_perm), (suml_map (r:=rops)).
      apply (suml_ext (o:=rops)). intros kv Hin. unfold keepS.
      rewrite (slos_entry_prob (n + l) U ins' kv Hin).
      destruct (nlist_eqb (firstn n (fst kv)) k).
      - rewrite andb_true_r. apply klt0_val. apply prob_of_nonneg.
      - rewrite andb_false_r. reflexivity.
    Qed.

    Lemma full_dist_slos_total :
      N <> 0%nat -> lunit cops (n + l) U -> pd_total rops (full_dist rops Slos 0 n l U ins) = 1.
    Proof.
      intros HN HU. rewrite (full_dist_slos_unfold HN), (pd_fold_total (o:=rops)).
      rewrite (pd_total_suml (o:=rops)). simpl suml. cbn [k0 rops kadd]. rewrite Rplus_0_l.
      rewrite <- (slos_total (n + l) U ins' HU ins'_length).
      apply (suml_ext (o:=rops)). intros kv Hin. unfold keepS. apply klt0_val.
      rewrite (slos_entry_prob (n + l) U ins' kv Hin). apply prob_of_nonneg.
    Qed.

    Lemma full_dist_slos_nodup : NoDup (pd_keys (full_dist rops Slos 0 n l U ins)).
    Proof.
      destruct (Nat.eq_dec N 0) as [E|HN].
      - unfold full_dist. fold N. rewrite E. simpl. constructor; [intros []|constructor].
      - rewrite (full_dist_slos_unfold HN). apply (pd_fold_nodup (o:=rops)). constructor.
    Qed.

    (* ---------- both back ends, any photon number ---------- *)
    Lemma marg_vacuum_input k : N = 0%nat -> length k = n -> marg k = if nlist_eqb vac k then 1 else 0.
    Proof.
      intros HN Hk. rewrite marg_alt. unfold F. rewrite HN.
      rewrite (fock_enum_zero _ _ (fock_sums_enum (n + l) 0 ltac:(lia))). simpl suml. cbn [kadd k0 rops].
      rewrite Rplus_0_r. rewrite firstn_repeat_le by lia. fold vac.
      destruct (nlist_eqb vac k); [|reflexivity].
      assert (E : ins' = repeat 0%nat (n + l)).
      { rewrite <- ins'_length. apply osum_zero. rewrite ins'_osum. exact HN. }
      rewrite E. apply prob_vac.
    Qed.

    Theorem full_dist_val b k :
      length k = n ->
      (lunit cops (n + l) U \/ (0 < osum k)%nat \/ N = 0%nat) ->
      pdv (full_dist rops b 0 n l U ins) k = marg k.
    Proof.
      intros Hk Hg. destruct (Nat.eq_dec N 0) as [E|HN].
      - rewrite (marg_vacuum_input k E Hk). unfold full_dist. fold N. rewrite E. simpl.
        unfold pd_val. simpl. fold vac. destruct (nlist_eqb vac k); reflexivity.
      - destruct b.
        + apply full_dist_perm_val; [exact HN|exact Hk|]. destruct Hg as [H|[H|H]]; [left; exact H|right; exact H|contradiction].
        + apply full_dist_slos_val. exact HN.
    Qed.

    Theorem full_dist_total b :
      (lunit cops (n + l) U \/ N = 0%nat) -> pd_total rops (full_dist rops b 0 n l U ins) = 1.
    Proof.
      intros Hg. destruct (Nat.eq_dec N 0) as [E|HN].
      - unfold full_dist. fold N. rewrite E. simpl. unfold pd_total. simpl. lra.
      - destruct Hg as [HU|]; [|contradiction]. destruct b; [apply full_dist_perm_total|apply full_dist_slos_total]; assumption.
    Qed.

    Lemma full_dist_nodup b : NoDup (pd_keys (full_dist rops b 0 n l U ins)).
    Proof. destruct b; [apply full_dist_perm_nodup|apply full_dist_slos_nodup]. Qed.

    (* pdist_calc on the single input of an ideal source *)
    Theorem pdist_calc_val b k :
      length k = n ->
      (lunit cops (n + l) U \/ (0 < osum k)%nat \/ N = 0%nat) ->
      pdv (pdist_calc rops b 0 n l U [(ins, 1)]) k = marg k.
    Proof.
      intros Hk Hg. rewrite <- (full_dist_val b k Hk Hg).
      unfold pdist_calc. cbn [fold_left fst snd]. cbv zeta.
      set (sub := full_dist rops b 0 n l U ins).
      set (pd := fold_left (fun pd sp => pd_add rops pd (fst sp) (kmul rops (snd sp) 1)) sub []).
      assert (Epd : pd = fold_left (pd_step (o:=rops) (fun _ => true) fst (fun sp => kmul rops (snd sp) 1)) sub [])
        by (apply fold_left_ext; intros; reflexivity).
      assert (Hv : forall t, pdv pd t = pdv sub t).
      { intros t. rewrite Epd, (pd_fold_val (o:=rops)).
        unfold pd_val at 1. simpl pd_get. cbn [k0 rops kadd]. rewrite Rplus_0_l.
        rewrite (pd_val_suml (o:=rops) sub t (full_dist_nodup b)).
        apply (suml_ext (o:=rops)). intros sp _. simpl. destruct (nlist_eqb (fst sp) t); simpl; ring. }
      assert (Ht : pd_total rops pd = pd_total rops sub).
      { rewrite Epd, (pd_fold_total (o:=rops)), !(pd_total_suml (o:=rops)).
        simpl suml at 1. cbn [k0 rops kadd]. rewrite Rplus_0_l.
        apply (suml_ext (o:=rops)). intros sp _. simpl. ring. }
      match goal with |- pdv (if ?c then _ else _) _ = _ => destruct c eqn:Eb end; [|apply Hv].
      apply andb_true_iff in Eb. destruct Eb as [Eb _]. apply klt_spec in Eb.
      rewrite (pd_val_set (o:=rops)). fold vac.
      destruct (nlist_eqb vac k) eqn:Ev; [|apply Hv].
      apply nlist_eqb_eq in Ev. exfalso.
      assert (pd_total rops sub = 1); [|change (k1 rops) with 1 in Eb; lra].
      apply full_dist_total. destruct Hg as [H|[H|H]]; [left; exact H| |right; exact H].
      rewrite <- Ev in H. unfold vac in H. rewrite osum_repeat0 in H. lia.
    Qed.
  End OneInput.
End RealDist.

(* the Sampler distribution of an ideal source at a key k on the n circuit
   modes: the sum over every occupation of the loss modes *)
Theorem sampler_marginal b n l (U : @mat C) hin input d :
  0 < n -> length hin <= n ->
  sampler_dist rops b 0%R n l U hin input = Ok d ->
  exists fi, add_heralds_to_state input hin = Ok fi /\ length fi = n /\
    forall k, length k = n -> osum k <= osum (znat fi) -> (l = 0 -> osum k = osum (znat fi)) ->
      (lunit cops (n + l) U \/ 0 < osum k \/ osum (znat fi) = 0) ->
      pd_val rops d k =
      suml rops (loss_cfgs l (osum (znat fi) - osum k))
           (fun ls => prob_of rops U (znat fi ++ repeat 0 l) (k ++ ls)).
Proof.
  intros Hn Hh H. unfold sampler_dist in H.
  destruct (Nat.eqb_spec (length input) (n - length hin)) as [El|]; simpl in H; [|discriminate].
  destruct (st_validate input); cbn [bind] in H; [|discriminate].
  destruct (add_heralds_to_state input hin) as [fi|] eqn:Ef; cbn [bind] in H; [|discriminate].
  injection H as <-. exists fi. split; [reflexivity|].
  assert (Hl : length fi = n) by (rewrite (add_heralds_length _ _ _ Ef); lia).
  split; [exact Hl|]. intros k Hk Hle Hl0 Hg.
  assert (Hz : length (znat fi) = n) by (rewrite znat_length; exact Hl).
  rewrite (pdist_calc_val n l U (znat fi) Hn Hz b k Hk Hg). unfold marg.
  apply (marginal_split (o:=rops) n l (osum (znat fi)) k); assumption.
Qed.

(* ------------------------------------------------------------------ *)
(* Part 3: what the Analyzer returns                                   *)
(* ------------------------------------------------------------------ *)
Definition zs (c : list nat) : state := map Z.of_nat c.
Definition ps_acc (ps : state -> res bool) (s : state) : bool :=
  match ps s with Ok true => true | _ => false end.

Lemma an_filter_spec {K} (o : ops K) ps hout cands outs :
  an_filter ps hout cands = Ok outs ->
  map fst outs = map zs (filter (fun c => ps_acc ps (zs c)) cands) /\
  Forall (fun sf => add_heralds_to_state (fst sf) hout = Ok (snd sf)) outs /\
  Forall (fun c => exists b, ps (zs c) = Ok b) cands.
Proof.
  revert outs. induction cands as [|c cs IH]; intros outs H; simpl in H.
  - injection H as <-. repeat split; constructor.
  - fold (zs c) in H. cbn [filter].
    assert (Hacc : ps_acc ps (zs c) = match ps (zs c) with Ok true => true | _ => false end) by reflexivity.
    rewrite Hacc. clear Hacc.
    destruct (ps (zs c)) as [[|]|] eqn:Ep; cbn [bind] in H; [| |discriminate].
    + destruct (add_heralds_to_state (zs c) hout) as [fo|] eqn:Ef; cbn [bind] in H; [|discriminate].
      destruct (an_filter ps hout cs) as [r|] eqn:Er; cbn [bind] in H; [|discriminate].
      injection H as <-. destruct (IH r eq_refl) as (H1 & H2 & H3). simpl. repeat split.
      * f_equal. exact H1.
      * constructor; [exact Ef|exact H2].
      * constructor; [eexists; exact Ep|exact H3].
    + destruct (IH outs H) as (H1 & H2 & H3). repeat split; try assumption.
      constructor; [eexists; exact Ep|exact H3].
Qed.

(* converse: a total post-selection on the candidates and heralds that fit give a result *)
Lemma an_filter_total ps hout cands :
  Forall (fun c => exists b, ps (zs c) = Ok b) cands ->
  Forall (fun c => ps_acc ps (zs c) = true -> exists fo, add_heralds_to_state (zs c) hout = Ok fo) cands ->
  exists outs, an_filter ps hout cands = Ok outs.
Proof.
  induction cands as [|c cs IH]; intros H1 H2; simpl; [eexists; reflexivity|].
  inversion H1 as [|? ? [b Hb] H1']; subst. inversion H2 as [|? ? Hf H2']; subst.
  destruct (IH H1' H2') as [r Hr]. fold (zs c). rewrite Hb. cbn [bind]. destruct b.
  - unfold ps_acc in Hf. rewrite Hb in Hf. destruct (Hf eq_refl) as [fo Hfo].
    rewrite Hfo, Hr. cbn [bind]. eexists; reflexivity.
  - rewrite Hr. eexists; reflexivity.
Qed.

(* list(dict.fromkeys(l)): every state of l exactly once *)
Lemma st_dedupe_in l x : In x (st_dedupe l) <-> In x l.
Proof.
  induction l as [|a l IH]; simpl; [tauto|]. rewrite filter_In, IH. split.
  - intros [->|[H _]]; [left; reflexivity|right; exact H].
  - intros [->|H]; [left; reflexivity|].
    destruct (st_eqb a x) eqn:E; [left; apply st_eqb_eq; exact E|right; split; [exact H|reflexivity]].
Qed.

Lemma st_dedupe_nodup l : NoDup (st_dedupe l).
Proof.
  induction l as [|a l IH]; simpl; constructor.
  - intros H. apply filter_In in H. destruct H as [_ H].
    assert (E : st_eqb a a = true) by (apply st_eqb_eq; reflexivity). rewrite E in H. discriminate.
  - apply NoDup_filter. exact IH.
Qed.

Section AnalyzerSpec.
  Context {K : Type} {o : ops K} {SR : StarRing o}.
  Let Rr := sr_ring (o:=o).
  Add Ring Kr2 : Rr.
  Local Notation "0" := (k0 o) : K_scope.
  Local Notation "1" := (k1 o) : K_scope.
  Local Notation "a + b" := (kadd o a b) : K_scope.
  Local Notation "a * b" := (kmul o a b) : K_scope.
  Local Notation "a - b" := (ksub o a b) : K_scope.
  Local Notation mat := (@mat (K * K)).
  Local Notation P := (prob_of o).

  Lemma backend_prob_ok (U : mat) ins outs p :
    backend_prob o U ins outs = Ok p ->
    p = P U ins outs /\ osum ins = osum outs /\ length ins <= length outs.
  Proof.
    unfold backend_prob. destruct (Nat.ltb_spec (length outs) (length ins)); [discriminate|].
    destruct (Nat.eqb_spec (osum ins) (osum outs)); [|discriminate].
    intros Hp. injection Hp as <-. repeat split; assumption.
  Qed.

  Lemma backend_prob_total (U : mat) ins outs :
    osum ins = osum outs -> length ins <= length outs -> backend_prob o U ins outs = Ok (P U ins outs).
  Proof.
    intros Hs Hl. unfold backend_prob.
    destruct (Nat.ltb_spec (length outs) (length ins)); [lia|].
    rewrite (proj2 (Nat.eqb_eq _ _) Hs). reflexivity.
  Qed.

  (* the value every entry of the analyzer array has: all ways of losing the
     missing photons into the loss modes *)
  Definition entry_val (l : nat) (U : mat) (ins fo : list nat) : K :=
    suml o (loss_cfgs l (osum ins - osum fo)) (fun ls => P U ins (fo ++ ls)).

  Lemma loss_fold_err (U : mat) ins fo L e :
    fold_left (fun acc ls => do a <- acc; do p <- backend_prob o U ins (fo ++ ls); Ok (a + p)%K) L (Err e) = Err e.
  Proof. induction L as [|x L IH]; simpl; [reflexivity|exact IH]. Qed.

  Lemma loss_fold_ok (U : mat) ins fo L a0 r :
    fold_left (fun acc ls => do a <- acc; do p <- backend_prob o U ins (fo ++ ls); Ok (a + p)%K) L (Ok a0) = Ok r ->
    r = (a0 + suml o L (fun ls => P U ins (fo ++ ls)))%K.
  Proof.
    revert a0. induction L as [|x L IH]; intros a0 H; simpl in H.
    - injection H as <-. simpl. ring.
    - destruct (backend_prob o U ins (fo ++ x)) as [p|e] eqn:Ep; cbn [bind] in H.
      + apply backend_prob_ok in Ep. destruct Ep as [-> _]. apply IH in H. rewrite H. simpl. ring.
      + rewrite loss_fold_err in H. discriminate.
  Qed.

  Lemma loss_fold_total (U : mat) ins fo L a0 :
    (forall ls, In ls L -> osum ins = osum (fo ++ ls) /\ length ins <= length (fo ++ ls)) ->
    exists r, fold_left (fun acc ls => do a <- acc; do p <- backend_prob o U ins (fo ++ ls); Ok (a + p)%K) L (Ok a0) = Ok r.
  Proof.
    revert a0. induction L as [|x L IH]; intros a0 H; simpl; [eexists; reflexivity|].
    destruct (H x (or_introl eq_refl)) as [Hs Hl]. rewrite (backend_prob_total U ins (fo ++ x) Hs Hl). cbn [bind].
    apply IH. intros ls Hin. apply H. right. exact Hin.
  Qed.

  Lemma loss_cfgs_zero l : loss_cfgs l 0 = [repeat 0 l].
  Proof.
    unfold loss_cfgs. destruct (Nat.eqb_spec l 0) as [->|Hl]; [reflexivity|].
    apply (fock_enum_zero _ l). apply fock_sums_enum. lia.
  Qed.

  Theorem an_entry_spec l (U : mat) ins fo p :
    an_entry o l U ins fo = Ok p ->
    osum fo <= osum ins /\ (l = 0 -> osum fo = osum ins) /\ p = entry_val l U ins fo.
  Proof.
    unfold an_entry, entry_val. destruct (Nat.eqb_spec l 0) as [->|Hl].
    - destruct (backend_prob o U ins fo) as [p0|] eqn:Ep; cbn [bind]; [|discriminate].
      intros H. injection H as <-. apply backend_prob_ok in Ep. destruct Ep as (-> & Hs & _).
      rewrite Hs, Nat.sub_diag. unfold loss_cfgs. simpl. rewrite app_nil_r.
      split; [lia|]. split; [intros _; reflexivity|ring].
    - destruct (Nat.eqb_spec (osum ins) (osum fo)) as [Es|Es].
      + destruct (backend_prob o U ins (fo ++ repeat 0 l)) as [p0|] eqn:Ep; cbn [bind]; [|discriminate].
        intros H. injection H as <-. apply backend_prob_ok in Ep. destruct Ep as (-> & _ & _).
        rewrite Es, Nat.sub_diag, loss_cfgs_zero. simpl.
        split; [lia|]. split; [intros; lia|ring].
      + destruct (Nat.ltb_spec (osum ins) (osum fo)) as [Hlt|Hge]; [discriminate|].
        intros Hf. apply loss_fold_ok in Hf. unfold loss_cfgs.
        rewrite (proj2 (Nat.eqb_neq l 0) Hl). split; [lia|]. split; [intros; lia|]. rewrite Hf. ring.
  Qed.

  Theorem an_entry_total l (U : mat) ins fo :
    osum fo <= osum ins -> (l = 0 -> osum fo = osum ins) -> length ins <= length fo + l ->
    exists p, an_entry o l U ins fo = Ok p.
  Proof.
    intros Hle Hl0 Hlen. unfold an_entry. destruct (Nat.eqb_spec l 0) as [->|Hl].
    - rewrite backend_prob_total by (try rewrite (Hl0 eq_refl); lia). eexists; reflexivity.
    - destruct (Nat.eqb_spec (osum ins) (osum fo)) as [Es|Es].
      + rewrite backend_prob_total.
        * eexists; reflexivity.
        * rewrite osum_app, osum_repeat0. lia.
        * rewrite app_length, repeat_length. lia.
      + destruct (Nat.ltb_spec (osum ins) (osum fo)) as [Hlt|Hge]; [lia|].
        apply loss_fold_total. intros ls Hin.
        apply (fock_sums_enum l (osum ins - osum fo) ltac:(lia)) in Hin. destruct Hin as [Hll Hls].
        rewrite osum_app, app_length. lia.
  Qed.

  (* ---- error rate ---- *)
  (* the fraction of row i that lies on the expected outputs which are listed *)
  Definition exp_frac (row : list K) (outs : list state) (exp : list state) : K :=
    suml o exp (fun x => match index_of outs x with
                         | Some loc => (nth loc row 0%K * kinv o (ksum o row))%K
                         | None => 0%K
                         end).

  Lemma an_row_error_pinned_some row outs exp v :
    an_row_error_pinned o row outs exp = Some v -> v = (1 - exp_frac row outs exp)%K.
  Proof.
    unfold an_row_error_pinned, exp_frac.
    assert (G : forall e0 v,
      fold_left (fun acc x => match acc with
                              | None => None
                              | Some er => match index_of outs x with
                                           | Some loc => if keqb o (ksum o row) 0%K then None
                                                         else Some (er - nth loc row 0%K * kinv o (ksum o row))%K
                                           | None => Some er
                                           end
                              end) exp (Some e0) = Some v ->
      v = (e0 - suml o exp (fun x => match index_of outs x with
                                     | Some loc => (nth loc row 0%K * kinv o (ksum o row))%K
                                     | None => 0%K end))%K).
    { induction exp as [|x exp IH]; intros e0 v0 H; simpl in H.
      - injection H as <-. simpl. ring.
      - simpl. destruct (index_of outs x) as [loc|].
        + destruct (keqb o (ksum o row) 0%K).
          * exfalso. clear -H. induction exp as [|y exp IH]; simpl in H; [discriminate|auto].
          * apply IH in H. rewrite H. ring.
        + apply IH in H. rewrite H. ring. }
    apply G.
  Qed.

  Lemma an_row_error_some row outs exp v :
    an_row_error o row outs exp = Some v -> v = (1 - exp_frac row outs (st_dedupe exp))%K.
  Proof. unfold an_row_error. apply an_row_error_pinned_some. Qed.

  Lemma opt_all_some {A} (l : list (option A)) r : opt_all l = Some r -> l = map Some r.
  Proof.
    revert r. induction l as [|[a|] l IH]; intros r H; simpl in H.
    - injection H as <-. reflexivity.
    - destruct (opt_all l) as [r'|]; simpl in H; [|discriminate]. injection H as <-.
      simpl. f_equal. apply IH. reflexivity.
    - discriminate.
  Qed.

  Definition exp_of (e : expected_t) (s : state) : list state :=
    match exp_lookup e s with Some v => v | None => [] end.

  (* the list of per-input errors the code averages *)
  Fixpoint frac_list (inputs : list state) (probs : list (list K)) (outs : list state) (e : expected_t) : list K :=
    match inputs, probs with
    | s :: inputs', row :: probs' => exp_frac row outs (st_dedupe (exp_of e s)) :: frac_list inputs' probs' outs e
    | _, _ => []
    end.
  Definition err_list (inputs : list state) (probs : list (list K)) (outs : list state) (e : expected_t) : list K :=
    map (fun f => (1 - f)%K) (frac_list inputs probs outs e).

  Lemma frac_list_length inputs probs outs e :
    length inputs = length probs -> length (frac_list inputs probs outs e) = length inputs.
  Proof.
    revert probs. induction inputs as [|s inputs IH]; intros probs H; [reflexivity|].
    destruct probs as [|row probs]; [discriminate|]. simpl. f_equal. apply IH. simpl in H. lia.
  Qed.

  Theorem an_error_rate_spec probs inputs outs e v :
    an_error_rate o probs inputs outs e = Ok (Some v) ->
    (forall s, In s inputs -> exists x, exp_lookup e s = Some x) /\
    v = kdivn o (ksum o (err_list inputs probs outs e)) (length (err_list inputs probs outs e)).
  Proof.
    unfold an_error_rate.
    destruct (forallb _ inputs) eqn:Ef; simpl; [|discriminate].
    intros H. injection H as H. split.
    - intros s Hs. rewrite forallb_forall in Ef. specialize (Ef s Hs).
      destruct (exp_lookup e s) as [x|]; [exists x; reflexivity|discriminate].
    - destruct (opt_all _) as [es|] eqn:Eo; simpl in H; [|discriminate]. injection H as <-.
      apply opt_all_some in Eo.
      assert (G : es = err_list inputs probs outs e).
      { clear Ef. unfold err_list. revert probs es Eo. induction inputs as [|s inputs IH]; intros probs es Eo.
        - simpl in Eo. destruct es; [reflexivity|discriminate].
        - destruct probs as [|row probs]; simpl in Eo; [destruct es; [reflexivity|discriminate]|].
          destruct es as [|x es]; [discriminate|]. simpl in Eo. injection Eo as Ex Eo.
          simpl. f_equal.
          + fold (exp_of e s) in Ex. apply an_row_error_some in Ex. exact Ex.
          + apply IH. exact Eo. }
      rewrite G. reflexivity.
  Qed.

  Lemma an_error_rate_keyerror probs inputs outs e s :
    In s inputs -> exp_lookup e s = None -> an_error_rate o probs inputs outs e = Err KeyError.
  Proof.
    intros Hs Hn. unfold an_error_rate.
    replace (forallb _ inputs) with false; [reflexivity|].
    symmetry. apply not_true_is_false. intros H. rewrite forallb_forall in H.
    specialize (H s Hs). rewrite Hn in H. discriminate.
  Qed.

  (* ---- analyze ---- *)
  Theorem analyze_body_spec n l (U : mat) hin hout ps inputs expected r :
    analyze_body o n l U hin hout ps inputs expected = Ok r ->
    exists fins,
      an_process_inputs (n - length hin) l hin inputs = Ok fins /\
      n - length hin <> 0 /\
      ar_outputs r = map zs (filter (fun c => ps_acc ps (zs c))
                                    (an_candidates (n - length hin) l (an_nphotons inputs))) /\
      ar_outputs r <> [] /\
      Forall2 (fun x fo => add_heralds_to_state x hout = Ok fo) (ar_outputs r) (ar_full r) /\
      Forall2 (fun fin row =>
                 Forall2 (fun fo p => osum (znat fo) <= osum fin /\ (l = 0 -> osum (znat fo) = osum fin) /\
                                      p = entry_val l U fin (znat fo))
                         (ar_full r) row)
              fins (ar_probs r) /\
      ar_perf r = kdivn o (ksum o (map (ksum o) (ar_probs r))) (length inputs) /\
      match expected with
      | None => ar_err r = None
      | Some e => exists x, ar_err r = Some x /\ an_error_rate o (ar_probs r) inputs (ar_outputs r) e = Ok x
      end.
  Proof.
    unfold analyze_body. intros H.
    destruct (an_process_inputs (n - length hin) l hin inputs) as [fins|] eqn:Ei; cbn [bind] in H; [|discriminate].
    destruct (an_generate_outputs ps (n - length hin) l (an_nphotons inputs) hout) as [outs|] eqn:Eo; cbn [bind] in H; [|discriminate].
    destruct (an_probs o l U fins outs) as [probs|] eqn:Ep; cbn [bind] in H; [|discriminate].
    exists fins. split; [reflexivity|].
    unfold an_generate_outputs in Eo.
    destruct (Nat.eqb_spec (n - length hin) 0) as [|Hm]; [discriminate|].
    destruct (an_filter ps hout _) as [outs'|] eqn:Ef; cbn [bind] in Eo; [|discriminate].
    assert (outs' = outs /\ outs <> []) as [-> Hne].
    { destruct outs'; [discriminate|]. injection Eo as <-. split; [reflexivity|discriminate]. }
    apply (an_filter_spec o) in Ef. destruct Ef as (Hf1 & Hf2 & _).
    assert (Hlen : length fins = length inputs).
    { unfold an_process_inputs in Ei. destruct inputs as [|i0 inputs']; [discriminate|].
      destruct (negb _); [discriminate|].
      match type of Ei with bind ?x _ = _ => destruct x as [full|] eqn:Em; cbn [bind] in Ei; [|discriminate] end.
      injection Ei as <-. apply mapM_ok in Em. apply Forall2_len in Em. rewrite map_length. symmetry. exact Em. }
    assert (Hentries :
      Forall2 (fun fin row =>
                 Forall2 (fun fo p => osum (znat fo) <= osum fin /\ (l = 0 -> osum (znat fo) = osum fin) /\
                                      p = entry_val l U fin (znat fo)) (map snd outs) row) fins probs).
    { unfold an_probs in Ep. apply mapM_ok in Ep. eapply Forall2_impl; [|exact Ep].
      intros fin row Hrow. apply mapM_ok in Hrow.
      apply Forall2_map_l. eapply Forall2_impl; [|exact Hrow].
      intros sf p Hsp. apply an_entry_spec in Hsp. exact Hsp. }
    destruct expected as [e|].
    - destruct (an_error_rate o probs inputs (map fst outs) e) as [x|] eqn:Ee; cbn [bind] in H; [|discriminate].
      injection H as <-. simpl. repeat split; try assumption.
      + intros E. apply Hne. destruct outs; [reflexivity|discriminate].
      + apply Forall2_map_lr. exact Hf2.
      + rewrite Hlen. reflexivity.
      + exists x. split; [reflexivity|exact Ee].
    - cbn [bind] in H. injection H as <-. simpl. repeat split; try assumption.
      + intros E. apply Hne. destruct outs; [reflexivity|discriminate].
      + apply Forall2_map_lr. exact Hf2.
      + rewrite Hlen. reflexivity.
  Qed.

  (* analyze = the guard on the number of heralds, then the body *)
  Lemma analyze_ok n l (U : mat) hin hout ps inputs expected r :
    analyze o n l U hin hout ps inputs expected = Ok r ->
    length hout = length hin /\ analyze_body o n l U hin hout ps inputs expected = Ok r.
  Proof.
    unfold analyze. destruct (Nat.eqb_spec (length hin) (length hout)) as [E|]; simpl; [|discriminate].
    intros H. split; [symmetry; exact E|exact H].
  Qed.

  Lemma analyze_guard n l (U : mat) hin hout ps inputs expected :
    length hin <> length hout -> analyze o n l U hin hout ps inputs expected = Err OtherError.
  Proof. unfold analyze. intros H. rewrite (proj2 (Nat.eqb_neq _ _) H). reflexivity. Qed.

  (* the inputs the analyzer works with: heralds inserted, vacuum on the loss modes *)
  Lemma an_process_inputs_spec m l hin inputs fins :
    an_process_inputs m l hin inputs = Ok fins ->
    inputs <> [] /\ all_equal (map zsum inputs) = true /\
    Forall2 (fun i fin => length i = m /\ st_validate i = Ok tt /\
                          exists fi, add_heralds_to_state i hin = Ok fi /\ fin = znat fi ++ repeat 0 l)
            inputs fins.
  Proof.
    unfold an_process_inputs. destruct inputs as [|i0 inputs']; [discriminate|].
    remember (i0 :: inputs') as L eqn:EL.
    destruct (all_equal (map zsum L)) eqn:Ea; cbn [negb]; [|discriminate].
    match goal with |- bind ?x _ = _ -> _ => destruct x as [full|] eqn:Em; cbn [bind]; [|discriminate] end.
    intros H. injection H as <-. split; [rewrite EL; discriminate|]. split; [reflexivity|].
    apply mapM_ok in Em. clear Ea EL. induction Em as [|i fi ins fis Hi _ IH]; simpl; constructor; [|exact IH].
    destruct (Nat.eqb_spec (length i) m); simpl in Hi; [|discriminate].
    destruct (st_validate i) as [[]|]; cbn [bind] in Hi; [|discriminate].
    split; [assumption|]. split; [reflexivity|]. exists fi. split; [exact Hi|reflexivity].
  Qed.
End AnalyzerSpec.

(* ------------------------------------------------------------------ *)
(* herald insertion: photon number and sign                            *)
(* ------------------------------------------------------------------ *)
Definition oval (x : option Z) : Z := match x with Some v => v | None => 0%Z end.
Fixpoint hsum (f i : nat) (h : nat -> option Z) : Z :=
  match f with
  | O => 0%Z
  | S f' => (oval (h i) + hsum f' (S i) h)%Z
  end.

Lemma add_her_zsum f i h st r :
  add_her f i h st = Ok r -> (count_some f i h + length st = f)%nat ->
  zsum r = (zsum st + hsum f i h)%Z.
Proof.
  revert i st r; induction f as [|f IH]; intros i st r H Hc; simpl in *.
  - injection H as <-. destruct st; simpl in *; [reflexivity|lia].
  - destruct (h i) eqn:Hi.
    + destruct (add_her f (S i) h st) eqn:E; simpl in H; [|discriminate]. injection H as <-.
      simpl. rewrite (IH (S i) st l E) by lia. lia.
    + destruct st as [|x st']; [discriminate|].
      destruct (add_her f (S i) h st') eqn:E; simpl in H; [|discriminate]. injection H as <-.
      simpl in *. rewrite (IH (S i) st' l E) by lia. lia.
Qed.

Lemma hsum_ext f i h1 h2 : (forall j, i <= j < i + f -> h1 j = h2 j) -> hsum f i h1 = hsum f i h2.
Proof.
  revert i; induction f as [|f IH]; intros i H; simpl; [reflexivity|].
  rewrite (H i) by lia. rewrite (IH (S i)) by (intros; apply H; lia). reflexivity.
Qed.

Lemma hsum_override f i k v (g : nat -> option Z) :
  i <= k < i + f -> g k = None ->
  hsum f i (fun j => if Nat.eqb k j then Some v else g j) = (hsum f i g + v)%Z.
Proof.
  revert i; induction f as [|f IH]; intros i Hk Hg; [lia|]. simpl.
  destruct (Nat.eqb_spec k i) as [->|Hne].
  - rewrite Hg. simpl. rewrite (hsum_ext f (S i) _ g); [lia|].
    intros j Hj. destruct (Nat.eqb_spec i j); [lia|reflexivity].
  - rewrite IH by (try lia; exact Hg). lia.
Qed.

Lemma hsum_hlookup (d : hdict) f i :
  NoDup (hkeys d) -> (forall k, In k (hkeys d) -> i <= k < i + f) ->
  hsum f i (hlookup d) = hd_photons d.
Proof.
  induction d as [|[k v] d IH]; intros Hnd Hr.
  - simpl. clear. revert i. induction f as [|f IH]; intros i; simpl; [reflexivity|apply IH].
  - simpl in Hnd. inversion Hnd as [|? ? Hn Hd]; subst.
    change (hlookup ((k, v) :: d)) with (fun j => if Nat.eqb k j then Some v else hlookup d j).
    rewrite hsum_override.
    + rewrite IH; [simpl; lia|exact Hd|]. intros k' Hk'. apply Hr. right. exact Hk'.
    + apply Hr. left. reflexivity.
    + apply hlookup_none. exact Hn.
Qed.

Lemma add_her_forall (Q : Z -> Prop) f i h st r :
  add_her f i h st = Ok r -> Forall Q st -> (forall j v, h j = Some v -> Q v) -> Forall Q r.
Proof.
  revert i st r; induction f as [|f IH]; intros i st r H Hst Hh; simpl in H.
  - injection H as <-. constructor.
  - destruct (h i) eqn:Hi.
    + destruct (add_her f (S i) h st) eqn:E; simpl in H; [|discriminate]. injection H as <-.
      constructor; [eapply Hh; exact Hi|eapply IH; eauto].
    + destruct st as [|x st']; [discriminate|]. inversion Hst; subst.
      destruct (add_her f (S i) h st') eqn:E; simpl in H; [|discriminate]. injection H as <-.
      constructor; [assumption|eapply IH; eauto].
Qed.

Lemma osum_znat s : Forall (fun x => (0 <= x)%Z) s -> Z.of_nat (osum (znat s)) = zsum s.
Proof.
  induction 1 as [|x s Hx _ IH]; simpl; [reflexivity|].
  change (osum (Z.to_nat x :: znat s)) with (Z.to_nat x + osum (znat s)). lia.
Qed.

(* well-formed herald dictionary of an n-mode circuit *)
Definition herald_ok (n : nat) (h : hdict) : Prop :=
  NoDup (hkeys h) /\ (forall k, In k (hkeys h) -> k < n) /\ Forall (fun kv => (0 <= snd kv)%Z) h.

Lemma hlookup_in (h : hdict) j v : hlookup h j = Some v -> In (j, v) h.
Proof.
  induction h as [|[k w] h IH]; simpl; [discriminate|].
  destruct (Nat.eqb_spec k j) as [->|]; [intros E; injection E as ->; left; reflexivity|].
  intros E. right. apply IH. exact E.
Qed.

Theorem add_heralds_total n (h : hdict) (st : state) :
  herald_ok n h -> length st = n - length h -> length h <= n -> Forall (fun x => (0 <= x)%Z) st ->
  exists full, add_heralds_to_state st h = Ok full /\ length full = n /\
               Forall (fun x => (0 <= x)%Z) full /\
               Z.of_nat (osum (znat full)) = (zsum st + hd_photons h)%Z.
Proof.
  intros (Hnd & Hr & Hpos) Hl Hle Hst.
  assert (Hr' : forall k, In k (hkeys h) -> k < length st + length h) by (intros k Hk; specialize (Hr k Hk); lia).
  destruct (herald_roundtrip st h Hnd Hr') as (full & Hf & Hlen & _ & _).
  exists full. split; [exact Hf|]. split; [lia|].
  assert (Hfp : Forall (fun x => (0 <= x)%Z) full /\ zsum full = (zsum st + hd_photons h)%Z).
  { unfold add_heralds_to_state in Hf. destruct h as [|kv h'] eqn:Eh.
    - injection Hf as <-. split; [exact Hst|]. simpl. lia.
    - rewrite <- Eh in *. clear Eh kv h'. split.
      + eapply add_her_forall; [exact Hf|exact Hst|]. intros j v Hv. apply hlookup_in in Hv.
        rewrite Forall_forall in Hpos. apply (Hpos (j, v) Hv).
      + rewrite (add_her_zsum _ _ _ _ _ Hf).
        * f_equal. apply hsum_hlookup; [exact Hnd|]. intros k Hk. specialize (Hr' k Hk). lia.
        * rewrite count_some_keys; [lia|exact Hnd|]. intros k Hk. specialize (Hr' k Hk). lia. }
  destruct Hfp as [Hp Hs]. split; [exact Hp|]. rewrite osum_znat by exact Hp. exact Hs.
Qed.

(* ------------------------------------------------------------------ *)
(* Part 4: the four objects agree (over R, Sampler threshold 0)        *)
(* ------------------------------------------------------------------ *)
Lemma Forall2_comp {A B C} (R1 : A -> B -> Prop) (R2 : B -> C -> Prop) a b c :
  Forall2 R1 a b -> Forall2 R2 b c -> Forall2 (fun x z => exists y, R1 x y /\ R2 y z) a c.
Proof.
  intros H. revert c. induction H as [|x y a b Hxy _ IH]; intros c Hc; inversion Hc; subst; constructor.
  - exists y. split; assumption.
  - apply IH. assumption.
Qed.

Lemma Forall2_eq_map {A B} (f : A -> B) l r : Forall2 (fun a b => b = f a) l r -> r = map f l.
Proof. induction 1; simpl; congruence. Qed.

Lemma Forall2_impl_Forall {A B} (Q : A -> Prop) (R R' : A -> B -> Prop) l r :
  Forall Q l -> Forall2 R l r -> (forall a b, Q a -> R a b -> R' a b) -> Forall2 R' l r.
Proof.
  intros HQ HR Himp. induction HR as [|a b l r Hab _ IH]; constructor; inversion HQ; subst.
  - apply Himp; assumption.
  - apply IH. assumption.
Qed.

Lemma Forall2_Forall_r {A B} (R : A -> B -> Prop) (Ql : A -> Prop) (Qr : B -> Prop) l r :
  Forall2 R l r -> Forall Ql l -> (forall a b, R a b -> Ql a -> Qr b) -> Forall Qr r.
Proof.
  intros HR HQ Himp. induction HR as [|a b l r Hab _ IH]; constructor; inversion HQ; subst.
  - eapply Himp; eassumption.
  - apply IH. assumption.
Qed.

Lemma zs_znat c : znat (zs c) = c.
Proof.
  unfold znat, zs. rewrite map_map. rewrite <- (map_id c) at 2. apply map_ext. intros a. apply Nat2Z.id.
Qed.

Lemma zs_length c : length (zs c) = length c.
Proof. apply map_length. Qed.

Lemma zs_nonneg c : Forall (fun x => (0 <= x)%Z) (zs c).
Proof. unfold zs. induction c; simpl; constructor; [lia|assumption]. Qed.

Lemma zsum_zs c : zsum (zs c) = Z.of_nat (osum c).
Proof. induction c as [|a c IH]; simpl; [reflexivity|]. rewrite IH. change (osum (a :: c)) with (a + osum c). lia. Qed.

Lemma an_candidates_spec m l N c :
  0 < m -> In c (an_candidates m l N) -> length c = m /\ osum c <= N /\ (l = 0 -> osum c = N).
Proof.
  intros Hm. unfold an_candidates. destruct (Nat.eqb_spec l 0) as [->|Hl].
  - intros H. apply (fock_sums_enum m N Hm) in H. destruct H as [H1 H2]. repeat split; try assumption; lia.
  - rewrite in_flat_map. intros [k [Hk H]]. apply in_seq in Hk.
    apply (fock_sums_enum m k Hm) in H. destruct H as [H1 H2]. repeat split; try assumption; lia.
Qed.

Lemma an_candidates_complete m l N c :
  0 < m -> length c = m -> osum c <= N -> (l = 0 -> osum c = N) -> In c (an_candidates m l N).
Proof.
  intros Hm Hl Hle H0. unfold an_candidates. destruct (Nat.eqb_spec l 0) as [E|E].
  - apply (fock_sums_enum m N Hm). split; [exact Hl|apply H0; exact E].
  - apply in_flat_map. exists (osum c). split; [apply in_seq; lia|].
    apply (fock_sums_enum m (osum c) Hm). split; [exact Hl|reflexivity].
Qed.

Lemma hd_eqb_length a b : hd_eqb a b = true -> length a = length b.
Proof. unfold hd_eqb. intros H. apply andb_true_iff in H. destruct H as [H _]. apply Nat.eqb_eq. exact H. Qed.

Section Consistency.
  Local Open Scope R_scope.
  Local Notation P := (prob_of rops).

  (* the Sampler's probability of the pattern k on the circuit modes, for the
     user input i (ideal source, threshold 0); 0 if the Sampler rejects i *)
  Definition sampler_p (b : backend) (n l : nat) (U : @mat C) (hin : hdict) (i : state) (k : list nat) : R :=
    match sampler_dist rops b 0 n l U hin i with Ok d => pd_val rops d k | Err _ => 0 end.
  Definition sampler_accepts (b : backend) (n l : nat) (U : @mat C) (hin : hdict) (i : state) : Prop :=
    exists d, sampler_dist rops b 0 n l U hin i = Ok d.

  Lemma sampler_dist_ok b n l (U : @mat C) hin i fi :
    length i = (n - length hin)%nat -> st_validate i = Ok tt -> add_heralds_to_state i hin = Ok fi ->
    sampler_dist rops b 0 n l U hin i = Ok (pdist_calc rops b 0 n l U [(znat fi, 1)]).
  Proof.
    intros Hl Hv Hf. unfold sampler_dist. rewrite Hl, Nat.eqb_refl. simpl. rewrite Hv, Hf. reflexivity.
  Qed.

  (* the value of the Sampler at a key, from sampler_marginal, as a function *)
  Lemma sampler_p_marginal b n l (U : @mat C) hin i fi k :
    (0 < n)%nat -> (length hin <= n)%nat ->
    length i = (n - length hin)%nat -> st_validate i = Ok tt -> add_heralds_to_state i hin = Ok fi ->
    length k = n -> (osum k <= osum (znat fi))%nat -> (l = 0%nat -> osum k = osum (znat fi)) ->
    (lunit cops (n + l) U \/ (0 < osum k)%nat \/ osum (znat fi) = 0%nat) ->
    sampler_p b n l U hin i k = entry_val (o:=rops) l U (znat fi ++ repeat 0%nat l) k.
  Proof.
    intros Hn Hh Hl Hv Hf Hk Hle Hl0 Hg. unfold sampler_p.
    pose proof (sampler_dist_ok b n l U hin i fi Hl Hv Hf) as Hd. rewrite Hd.
    destruct (sampler_marginal b n l U hin i _ Hn Hh Hd) as (fi' & Hf' & _ & Hm).
    rewrite Hf in Hf'. injection Hf' as <-.
    rewrite (Hm k Hk Hle Hl0 Hg). unfold entry_val. rewrite osum_app, osum_repeat0, Nat.add_0_r. reflexivity.
  Qed.

  Lemma analyzer_full_lengths n l (U : @mat C) hin hout ps inputs expected r :
    analyze_body rops n l U hin hout ps inputs expected = Ok r -> (length hin <= n)%nat ->
    length hout = length hin ->
    Forall (fun fo => length (znat fo) = n) (ar_full r).
  Proof.
    intros H Hh Heq. destruct (analyze_body_spec (o:=rops) _ _ _ _ _ _ _ _ _ H)
      as (fins & _ & Hm & Hout & _ & Hfull & _).
    eapply (Forall2_Forall_r _ (fun x => length x = (n - length hin)%nat)); [exact Hfull| |].
    - rewrite Hout. apply Forall_forall. intros x Hx. apply in_map_iff in Hx.
      destruct Hx as [c [<- Hc]]. apply filter_In in Hc. destruct Hc as [Hc _].
      apply an_candidates_spec in Hc; [|lia]. rewrite zs_length. exact (proj1 Hc).
    - intros x fo Hfo Hx. simpl in Hx.
      apply add_heralds_length in Hfo. rewrite znat_length, Hfo. lia.
  Qed.

  Theorem analyzer_eq_sampler b n l (U : @mat C) hin hout ps inputs expected r :
    (0 < n)%nat -> (length hin <= n)%nat -> length hout = length hin ->
    analyze_body rops n l U hin hout ps inputs expected = Ok r ->
    (lunit cops (n + l) U \/ Forall (fun fo => (0 < osum (znat fo))%nat) (ar_full r)) ->
    Forall2 (fun i row => sampler_accepts b n l U hin i /\
                          row = map (fun fo => sampler_p b n l U hin i (znat fo)) (ar_full r))
            inputs (ar_probs r).
  Proof.
    intros Hn Hh Hho H Hg. pose proof (analyzer_full_lengths _ _ _ _ _ _ _ _ _ H Hh Hho) as Hlens.
    destruct (analyze_body_spec (o:=rops) _ _ _ _ _ _ _ _ _ H)
      as (fins & Hpi & Hm & Hout & Hne & Hfull & Hent & _).
    apply an_process_inputs_spec in Hpi. destruct Hpi as (_ & _ & Hins).
    eapply Forall2_impl; [|exact (Forall2_comp _ _ _ _ _ Hins Hent)].
    intros i row (fin & (Hli & Hv & fi & Hfi & ->) & Hrow). split.
    - eexists. apply (sampler_dist_ok b n l U hin i fi Hli Hv Hfi).
    - apply Forall2_eq_map.
      assert (HQ : Forall (fun fo => length (znat fo) = n /\
                                     (lunit cops (n + l) U \/ (0 < osum (znat fo))%nat)) (ar_full r)).
      { apply Forall_forall. intros fo Hfo. split.
        - rewrite Forall_forall in Hlens. apply Hlens. exact Hfo.
        - destruct Hg as [HU|Hp]; [left; exact HU|right]. rewrite Forall_forall in Hp. apply Hp. exact Hfo. }
      eapply Forall2_impl_Forall; [exact HQ|exact Hrow|].
      intros fo p [Hlk Hgk] (Hle & Hl0 & ->).
      rewrite osum_app, osum_repeat0, Nat.add_0_r in Hle, Hl0.
      symmetry. apply (sampler_p_marginal b n l U hin i fi (znat fo)); try assumption.
      destruct Hgk as [HU|Hp]; [left; exact HU|right; left; exact Hp].
  Qed.
End Consistency.

(* ---- which outputs are listed ---- *)
Theorem analyzer_outputs_iff {K} {o : ops K} {SR : StarRing o} n l (U : @mat (K * K)) hin hout ps inputs expected r :
  analyze_body o n l U hin hout ps inputs expected = Ok r ->
  exists i0, hd_error inputs = Some i0 /\
    forall x, In x (ar_outputs r) <->
              exists c, x = zs c /\ length c = n - length hin /\ osum c <= Z.to_nat (zsum i0) /\
                        (l = 0 -> osum c = Z.to_nat (zsum i0)) /\ ps x = Ok true.
Proof.
  intros H. destruct (analyze_body_spec (o:=o) _ _ _ _ _ _ _ _ _ H)
    as (fins & Hpi & Hm & Hout & _).
  apply an_process_inputs_spec in Hpi. destruct Hpi as (Hne & _ & _).
  destruct inputs as [|i0 inputs']; [contradiction|].
  exists i0. split; [reflexivity|].
  change (an_nphotons (i0 :: inputs')) with (Z.to_nat (zsum i0)) in Hout.
  intros x. rewrite Hout, in_map_iff. split.
  - intros [c [<- Hc]]. apply filter_In in Hc. destruct Hc as [Hc Hp].
    apply an_candidates_spec in Hc; [|lia]. destruct Hc as (H1 & H2 & H3).
    exists c. repeat split; try assumption.
    unfold ps_acc in Hp. destruct (ps (zs c)) as [[|]|]; try discriminate. reflexivity.
  - intros [c (-> & H1 & H2 & H3 & Hp)]. exists c. split; [reflexivity|]. apply filter_In. split.
    + apply an_candidates_complete; try assumption. lia.
    + unfold ps_acc. rewrite Hp. reflexivity.
Qed.

Section Metrics.
  Local Open Scope R_scope.

  Lemma ksum_map {A} (f : A -> R) (l : list A) : ksum rops (map f l) = suml rops l f.
  Proof. unfold ksum. exact (suml_map (r:=rops) f l (fun x => x)). Qed.

  (* performance = mean over the inputs of the total probability of the listed outputs *)
  Theorem performance_spec b n l (U : @mat C) hin hout ps inputs expected r :
    (0 < n)%nat -> (length hin <= n)%nat -> length hout = length hin ->
    analyze_body rops n l U hin hout ps inputs expected = Ok r ->
    (lunit cops (n + l) U \/ Forall (fun fo => (0 < osum (znat fo))%nat) (ar_full r)) ->
    inputs <> [] /\
    ar_perf r = suml rops (ar_probs r) (fun row => ksum rops row) / IZR (Z.of_nat (length inputs)) /\
    ar_perf r = suml rops inputs (fun i => suml rops (ar_full r) (fun fo => sampler_p b n l U hin i (znat fo)))
                / IZR (Z.of_nat (length inputs)).
  Proof.
    intros Hn Hh Hho H Hg.
    pose proof (analyzer_eq_sampler b n l U hin hout ps inputs expected r Hn Hh Hho H Hg) as Heq.
    destruct (analyze_body_spec (o:=rops) _ _ _ _ _ _ _ _ _ H) as (fins & Hpi & _ & _ & _ & _ & _ & Hperf & _).
    apply an_process_inputs_spec in Hpi. destruct Hpi as (Hne & _ & _).
    split; [exact Hne|].
    assert (E1 : ar_perf r = suml rops (ar_probs r) (fun row => ksum rops row) / IZR (Z.of_nat (length inputs))).
    { rewrite Hperf. unfold kdivn, kofnat. rewrite ksum_map. reflexivity. }
    split; [exact E1|]. rewrite E1. f_equal.
    set (g := fun i => map (fun fo => sampler_p b n l U hin i (znat fo)) (ar_full r)).
    assert (Ep : ar_probs r = map g inputs).
    { apply Forall2_eq_map. eapply Forall2_impl; [|exact Heq]. intros i row [_ ->]. reflexivity. }
    rewrite Ep, (suml_map (r:=rops)). apply (suml_ext (o:=rops)). intros i _. unfold g. apply ksum_map.
  Qed.

  (* ---- error rate ---- *)
  Lemma keqb_spec a b : keqb rops a b = true <-> a = b.
  Proof. simpl. destruct (Req_EM_T a b); split; intros; try assumption; try reflexivity; try discriminate; contradiction. Qed.

  Lemma an_row_error_pinned_none_iff row outs exp :
    an_row_error_pinned rops row outs exp = None <->
    ksum rops row = 0 /\ exists x, In x exp /\ index_of outs x <> None.
  Proof.
    unfold an_row_error_pinned. generalize (k1 rops) as e0.
    induction exp as [|x exp IH]; intros e0; cbn [fold_left].
    - split; [discriminate|]. intros [_ [x [[] _]]].
    - destruct (index_of outs x) as [loc|] eqn:Ei.
      + destruct (keqb rops (ksum rops row) (k0 rops)) eqn:Ek.
        * apply keqb_spec in Ek. split.
          -- intros _. split; [exact Ek|]. exists x. split; [left; reflexivity|]. rewrite Ei. discriminate.
          -- intros _. clear. induction exp as [|y exp IH]; cbn [fold_left]; [reflexivity|exact IH].
        * rewrite IH. split.
          -- intros [Hz [y [Hy Hl]]]. split; [exact Hz|]. exists y. split; [right; exact Hy|exact Hl].
          -- intros [Hz _]. exfalso. apply keqb_spec in Hz. change (k0 rops) with 0 in Ek. congruence.
      + rewrite IH. split.
        * intros [Hz [y [Hy Hl]]]. split; [exact Hz|]. exists y. split; [right; exact Hy|exact Hl].
        * intros [Hz [y [[<-|Hy] Hl]]]; [congruence|]. split; [exact Hz|]. exists y. split; assumption.
  Qed.

  Lemma suml_one_minus (L : list R) :
    L <> [] ->
    ksum rops (map (fun f => 1 - f) L) / IZR (Z.of_nat (length L)) = 1 - ksum rops L / IZR (Z.of_nat (length L)).
  Proof.
    intros Hne.
    assert (G : ksum rops (map (fun f => 1 - f) L) = IZR (Z.of_nat (length L)) - ksum rops L).
    { unfold ksum. induction L as [|a L IH]; [contradiction|]. destruct L as [|a' L'].
      - simpl. lra.
      - specialize (IH ltac:(discriminate)). cbn [map suml fold_right length] in *.
        cbn [kadd rops] in *. rewrite IH. rewrite !Nat2Z.inj_succ, !succ_IZR. lra. }
    rewrite G. assert (IZR (Z.of_nat (length L)) <> 0).
    { apply not_0_IZR. destruct L; [contradiction|]. simpl. lia. }
    field. assumption.
  Qed.

  (* error_rate = 1 - mean over the inputs of the fraction of the row that lies
     on the expected outputs (those that are listed); no guard on a zero row *)
  Theorem error_rate_spec n l (U : @mat C) hin hout ps inputs e r :
    analyze_body rops n l U hin hout ps inputs (Some e) = Ok r ->
    (forall s, In s inputs -> exists x, exp_lookup e s = Some x) /\
    exists x, ar_err r = Some x /\
      match x with
      | Some v => v = 1 - ksum rops (frac_list (o:=rops) inputs (ar_probs r) (ar_outputs r) e)
                          / IZR (Z.of_nat (length inputs))
      | None => exists row, In row (ar_probs r) /\ ksum rops row = 0
      end.
  Proof.
    intros H. destruct (analyze_body_spec (o:=rops) _ _ _ _ _ _ _ _ _ H)
      as (fins & Hpi & _ & _ & _ & _ & Hent & _ & (x & Hx & Her)).
    apply an_process_inputs_spec in Hpi. destruct Hpi as (Hne & _ & Hins).
    assert (Hlen : length inputs = length (ar_probs r)).
    { transitivity (length fins); [apply (Forall2_len _ _ _ Hins)|apply (Forall2_len _ _ _ Hent)]. }
    assert (Hcov : forall s, In s inputs -> exists x, exp_lookup e s = Some x).
    { intros s Hs. destruct (exp_lookup e s) as [y|] eqn:Ey; [exists y; reflexivity|].
      rewrite (an_error_rate_keyerror (o:=rops) _ _ _ _ s Hs Ey) in Her. discriminate. }
    split; [exact Hcov|]. exists x. split; [exact Hx|]. destruct x as [v|].
    - apply an_error_rate_spec in Her. destruct Her as [_ ->].
      unfold err_list, kdivn, kofnat. rewrite map_length.
      rewrite <- (frac_list_length (o:=rops) inputs (ar_probs r) (ar_outputs r) e Hlen) at 1.
      apply suml_one_minus. intros E. apply (f_equal (@length R)) in E.
      rewrite (frac_list_length (o:=rops)) in E by exact Hlen. destruct inputs; [contradiction|discriminate].
    - unfold an_error_rate in Her. destruct (negb _); [discriminate|].
      injection Her as Her. destruct (opt_all _) eqn:Eo; [discriminate|]. clear Her.
      revert Eo. generalize (ar_probs r) as probs. clear. induction inputs as [|s inputs IH]; intros probs Eo.
      + simpl in Eo. discriminate.
      + destruct probs as [|row probs]; [simpl in Eo; discriminate|]. simpl in Eo.
        destruct (an_row_error rops row (ar_outputs r) _) eqn:Er.
        * destruct (opt_all _) eqn:Eo' in Eo; [discriminate|].
          destruct (IH probs Eo') as [row' [Hin Hz]]. exists row'. split; [right; exact Hin|exact Hz].
        * unfold an_row_error in Er. apply an_row_error_pinned_none_iff in Er. exists row. split; [left; reflexivity|exact (proj1 Er)].
  Qed.
End Metrics.

(* ------------------------------------------------------------------ *)
(* QuickSampler                                                        *)
(* ------------------------------------------------------------------ *)
Lemma filterR_spec {A} (f : A -> res bool) l r :
  filterR f l = Ok r ->
  r = filter (fun a => match f a with Ok true => true | _ => false end) l /\
  Forall (fun a => exists b, f a = Ok b) l.
Proof.
  revert r. induction l as [|a l IH]; intros r H; simpl in H.
  - injection H as <-. split; [reflexivity|constructor].
  - destruct (f a) as [b|] eqn:Ea; cbn [bind] in H; [|discriminate].
    destruct (filterR f l) as [r'|]; cbn [bind] in H; [|discriminate]. injection H as <-.
    destruct (IH r' eq_refl) as [-> Hall]. split.
    + simpl. rewrite Ea. destruct b; reflexivity.
    + constructor; [exists b; exact Ea|exact Hall].
Qed.

Lemma filterR_total {A} (f : A -> res bool) l :
  Forall (fun a => exists b, f a = Ok b) l -> exists r, filterR f l = Ok r.
Proof.
  induction 1 as [|a l [b Hb] _ [r Hr]]; simpl; [eexists; reflexivity|].
  rewrite Hb, Hr. cbn [bind]. eexists; reflexivity.
Qed.

(* the outputs the quick sampler considers: the input's photon number on the
   input's modes (photon number conserved), threshold detectors keep max <= 1 *)
Definition qs_basis (pc : bool) (input : state) : list state :=
  let basis := map zs (fock_sums (length input) (Z.to_nat (zsum input))) in
  if pc then basis else filter (fun s => Z.leb (zmax s) 1) basis.
Definition qs_cands (ps : state -> res bool) (pc : bool) (input : state) : list state :=
  filter (ps_acc ps) (qs_basis pc input).

Lemma qs_candidates_spec ps pc input outs :
  qs_candidates ps pc input = Ok outs ->
  length input <> 0 /\ outs = qs_cands ps pc input /\ outs <> [] /\
  Forall (fun s => exists b, ps s = Ok b) (qs_basis pc input).
Proof.
  assert (E0 : qs_candidates ps pc input =
               if Nat.eqb (length input) 0 then Err OtherError else
               do outs <- filterR ps (qs_basis pc input);
               match outs with [] => Err ValueError | _ => Ok outs end) by reflexivity.
  rewrite E0. clear E0.
  destruct (Nat.eqb_spec (length input) 0) as [|Hm]; [discriminate|].
  destruct (filterR ps (qs_basis pc input)) as [r|] eqn:Ef; cbn [bind]; [|discriminate].
  apply filterR_spec in Ef. destruct Ef as [-> Hall].
  destruct (filter _ _) eqn:E; [discriminate|]. intros H. injection H as <-.
  split; [exact Hm|]. split; [unfold qs_cands, ps_acc; rewrite E; reflexivity|].
  split; [discriminate|exact Hall].
Qed.

Lemma znat_zs_nonneg s : Forall (fun x => (0 <= x)%Z) s -> zs (znat s) = s.
Proof.
  induction 1 as [|x s Hx _ IH]; [reflexivity|]. unfold zs, znat in *. simpl. rewrite IH. f_equal. lia.
Qed.

Lemma qs_basis_iff pc input x :
  length input <> 0 -> Forall (fun v => (0 <= v)%Z) input ->
  (In x (qs_basis pc input) <->
   length x = length input /\ Forall (fun v => (0 <= v)%Z) x /\ zsum x = zsum input /\
   (pc = true \/ (zmax x <= 1)%Z)).
Proof.
  intros Hm Hpos.
  assert (Hs : (0 <= zsum input)%Z).
  { clear Hm. induction Hpos; simpl; lia. }
  assert (Hb : In x (map zs (fock_sums (length input) (Z.to_nat (zsum input)))) <->
               length x = length input /\ Forall (fun v => (0 <= v)%Z) x /\ zsum x = zsum input).
  { rewrite in_map_iff. split.
    - intros [c [<- Hc]]. apply (fock_sums_enum (length input) _ ltac:(lia)) in Hc. destruct Hc as [H1 H2].
      rewrite zs_length, zsum_zs, H2. split; [exact H1|]. split; [apply zs_nonneg|lia].
    - intros (H1 & H2 & H3). exists (znat x). split; [apply znat_zs_nonneg; exact H2|].
      apply (fock_sums_enum (length input) _ ltac:(lia)). split; [rewrite znat_length; exact H1|].
      apply Nat2Z.inj. rewrite osum_znat by exact H2. lia. }
  unfold qs_basis. cbv zeta. destruct pc.
  - rewrite Hb. intuition.
  - rewrite filter_In, Hb, Z.leb_le. intuition discriminate.
Qed.

Lemma qs_cands_iff ps pc input x :
  length input <> 0 -> Forall (fun v => (0 <= v)%Z) input ->
  (In x (qs_cands ps pc input) <->
   (length x = length input /\ Forall (fun v => (0 <= v)%Z) x /\ zsum x = zsum input /\
    (pc = true \/ (zmax x <= 1)%Z)) /\ ps x = Ok true).
Proof.
  intros Hm Hp. unfold qs_cands. rewrite filter_In, (qs_basis_iff pc input x Hm Hp). unfold ps_acc.
  destruct (ps x) as [[|]|]; intuition congruence.
Qed.

Lemma zmax_bounds s : Forall (fun v => (0 <= v)%Z) s -> (0 <= zmax s)%Z /\ Forall (fun v => (v <= zmax s)%Z) s.
Proof.
  induction 1 as [|x s Hx _ [IH1 IH2]]; simpl; [split; [lia|constructor]|].
  split; [lia|]. constructor; [lia|]. eapply Forall_impl; [|exact IH2]. intros a Ha. simpl in Ha. lia.
Qed.

Lemma zmax_in s : s <> [] -> Forall (fun v => (0 <= v)%Z) s -> In (zmax s) s \/ zmax s = 0%Z.
Proof.
  intros _. induction 1 as [|x s Hx _ IH]; simpl; [right; reflexivity|].
  destruct (Z.max_spec x (zmax s)) as [[_ ->]|[_ ->]]; [|left; left; reflexivity].
  destruct IH as [IH|IH]; [left; right; exact IH|right; exact IH].
Qed.

(* for at least one photon, "max = 1" is "at most one photon per mode" *)
Lemma zmax_one_iff s :
  Forall (fun v => (0 <= v)%Z) s -> (1 <= zsum s)%Z ->
  (zmax s = 1%Z <-> Forall (fun v => (v <= 1)%Z) s).
Proof.
  intros Hpos Hsum. destruct (zmax_bounds s Hpos) as [H0 Hle]. split.
  - intros E. rewrite E in Hle. exact Hle.
  - intros H1.
    assert (Hz : (zmax s <= 1)%Z).
    { destruct s as [|a s]; [simpl; lia|]. destruct (zmax_in (a :: s) ltac:(discriminate) Hpos) as [Hin|E]; [|lia].
      rewrite Forall_forall in H1. apply H1. exact Hin. }
    assert (Hnz : zmax s <> 0%Z).
    { intros E. rewrite E in Hle. assert (zsum s <= 0)%Z; [|lia].
      clear -Hle. induction Hle; simpl; lia. }
    lia.
Qed.

(* the threshold filter: "max <= 1" is "at most one photon per mode", for every state *)
Lemma zmax_le1_iff s : (zmax s <= 1)%Z <-> Forall (fun v => (v <= 1)%Z) s.
Proof.
  induction s as [|x s IH]; simpl.
  - split; [constructor|lia].
  - split.
    + intros H. constructor; [lia|]. apply IH. lia.
    + intros H. inversion H; subst. apply IH in H3. lia.
Qed.

Section QuickSampler.
  Context {K : Type} (o : ops K).
  Local Notation mat := (@mat (K * K)).

  (* un-normalised weight of a candidate: heralds inserted, no photon in a loss mode *)
  Definition qs_w (l : nat) (U : mat) (hout : hdict) (fin : list nat) (x : state) : K :=
    match add_heralds_to_state x hout with
    | Ok fo => prob_of o U fin (znat fo ++ repeat 0 l)
    | Err _ => k0 o
    end.

  Lemma qs_raw_spec eps l (U : mat) hout fin outs raw :
    qs_raw o eps l U hout fin outs = Ok raw ->
    raw = map (fun x => (x, qs_w l U hout fin x)) (filter (fun x => klt o eps (qs_w l U hout fin x)) outs) /\
    Forall (fun x => exists fo, add_heralds_to_state x hout = Ok fo /\ osum fin = osum (znat fo ++ repeat 0 l)) outs.
  Proof.
    revert raw. induction outs as [|x outs IH]; intros raw H; simpl in H.
    - injection H as <-. split; [reflexivity|constructor].
    - destruct (add_heralds_to_state x hout) as [fo|] eqn:Ef; cbn [bind] in H; [|discriminate].
      destruct (backend_prob o U fin (znat fo ++ repeat 0 l)) as [p|] eqn:Ep; cbn [bind] in H; [|discriminate].
      destruct (qs_raw o eps l U hout fin outs) as [r|]; cbn [bind] in H; [|discriminate].
      injection H as <-. destruct (IH r eq_refl) as [-> Hall].
      unfold backend_prob in Ep. destruct (Nat.ltb _ _); [discriminate|].
      destruct (Nat.eqb_spec (osum fin) (osum (znat fo ++ repeat 0 l))) as [Es|]; [|discriminate].
      injection Ep as <-.
      assert (Ew : qs_w l U hout fin x = prob_of o U fin (znat fo ++ repeat 0 l)) by (unfold qs_w; rewrite Ef; reflexivity).
      split.
      + simpl. rewrite Ew. destruct (klt o eps _); simpl; [rewrite Ew|]; reflexivity.
      + constructor; [exists fo; split; [exact Ef|exact Es]|exact Hall].
  Qed.

  Lemma qs_raw_total eps l (U : mat) hout fin outs :
    Forall (fun x => exists fo, add_heralds_to_state x hout = Ok fo /\ osum fin = osum (znat fo ++ repeat 0 l) /\
                                length fin <= length (znat fo ++ repeat 0 l)) outs ->
    exists raw, qs_raw o eps l U hout fin outs = Ok raw.
  Proof.
    induction 1 as [|x outs (fo & Hf & Hs & Hl) _ [r Hr]]; simpl; [eexists; reflexivity|].
    rewrite Hf. cbn [bind]. unfold backend_prob.
    destruct (Nat.ltb_spec (length (znat fo ++ repeat 0 l)) (length fin)); [lia|].
    rewrite (proj2 (Nat.eqb_eq _ _) Hs). cbn [bind]. rewrite Hr. cbn [bind]. eexists; reflexivity.
  Qed.

  (* what an accepted request returns *)
  Theorem quick_sampler_struct eps n l (U : mat) hin hout ps pc input pd :
    quick_sampler o eps n l U hin hout ps pc input = Ok pd ->
    length input = n - length hin /\ st_validate input = Ok tt /\ length input <> 0 /\
    exists fi, add_heralds_to_state input hin = Ok fi /\
      let fin := znat fi ++ repeat 0 l in
      let cands := qs_cands ps pc input in
      let kept := filter (fun x => klt o eps (qs_w l U hout fin x)) cands in
      cands <> [] /\ kept <> [] /\
      Forall (fun x => exists fo, add_heralds_to_state x hout = Ok fo /\ osum fin = osum (znat fo ++ repeat 0 l)) cands /\
      pd = map (fun x => (x, kmul o (qs_w l U hout fin x)
                                   (kinv o (suml o kept (fun y => qs_w l U hout fin y))))) kept.
  Proof.
    unfold quick_sampler, quick_sampler_lazy, qs_new.
    destruct (Nat.eqb_spec (length input) (n - length hin)) as [Hl|]; simpl negb; cbv iota; [|discriminate].
    destruct (st_validate input) as [[]|] eqn:Ev; cbn [bind]; [|discriminate].
    destruct (qs_candidates ps pc input) as [outs|] eqn:Ec; cbn [bind]; [|discriminate].
    apply qs_candidates_spec in Ec. destruct Ec as (Hm & -> & Hne & _).
    cbn [fst snd]. replace (n + l - n) with l by lia.
    unfold qs_probs. destruct (add_heralds_to_state input hin) as [fi|] eqn:Ef; cbn [bind]; [|discriminate].
    destruct (qs_raw o eps l U hout _ _) as [raw|] eqn:Er; cbn [bind]; [|discriminate].
    apply qs_raw_spec in Er. destruct Er as [-> Hall].
    intros H. split; [exact Hl|]. split; [reflexivity|]. split; [exact Hm|]. exists fi. split; [reflexivity|].
    cbv zeta. split; [exact Hne|].
    set (kept := filter _ (qs_cands ps pc input)) in *.
    unfold qs_normalise in H. rewrite !map_map in H. cbn [fst snd] in H.
    destruct kept as [|x0 kept'] eqn:Ek; [simpl in H; discriminate|]. rewrite <- Ek in *.
    split; [rewrite Ek; discriminate|]. split; [exact Hall|].
    assert (E : map (fun x => (x, kmul o (qs_w l U hout (znat fi ++ repeat 0 l) x)
                                       (kinv o (ksum o (map (fun x => qs_w l U hout (znat fi ++ repeat 0 l) x) kept))))) kept = pd).
    { destruct (map _ kept) eqn:Em in H; [rewrite Ek in Em; discriminate|]. rewrite <- Em in H.
      injection H as <-. reflexivity. }
    rewrite <- E. apply map_ext. intros x. do 3 f_equal. unfold ksum.
    clear. induction kept as [|a kept IH]; simpl; [reflexivity|]. rewrite IH. reflexivity.
  Qed.
  (* the zero-total behaviour: when no candidate has a probability above the
     threshold the dictionary is empty, nothing is divided, EmulatorError *)
  Theorem quick_sampler_zero_total eps n l (U : mat) hin hout ps pc input outs fi raw :
    qs_new (n - length hin) input = Ok tt ->
    qs_candidates ps pc input = Ok outs ->
    add_heralds_to_state input hin = Ok fi ->
    qs_raw o eps l U hout (znat fi ++ repeat 0 l) outs = Ok raw ->
    (forall x, In x outs -> klt o eps (qs_w l U hout (znat fi ++ repeat 0 l) x) = false) ->
    quick_sampler o eps n l U hin hout ps pc input = Err OtherError.
  Proof.
    intros Hnew Hc Hf Hr Hz. unfold quick_sampler, quick_sampler_lazy.
    rewrite Hnew, Hc. cbn [bind fst snd]. replace (n + l - n) with l by lia.
    unfold qs_probs. rewrite Hf. cbn [bind]. rewrite Hr. cbn [bind].
    apply qs_raw_spec in Hr. destruct Hr as [-> _].
    replace (filter (fun x => klt o eps (qs_w l U hout (znat fi ++ repeat 0 l) x)) outs) with (@nil state).
    - reflexivity.
    - symmetry. clear -Hz. induction outs as [|x outs IH]; [reflexivity|]. simpl.
      rewrite (Hz x (or_introl eq_refl)). apply IH. intros y Hy. apply Hz. right. exact Hy.
  Qed.
End QuickSampler.

Lemma filter_ext_in' {A} (f g : A -> bool) l : (forall a, In a l -> f a = g a) -> filter f l = filter g l.
Proof.
  induction l as [|a l IH]; intros H; simpl; [reflexivity|].
  rewrite (H a (or_introl eq_refl)), IH by (intros; apply H; right; assumption). reflexivity.
Qed.

Lemma qs_basis_length pc input x : length input <> 0 -> In x (qs_basis pc input) -> length x = length input.
Proof.
  intros Hm H. unfold qs_basis in H. cbv zeta in H.
  assert (G : In x (map zs (fock_sums (length input) (Z.to_nat (zsum input))))).
  { destruct pc; [exact H|]. apply filter_In in H. exact (proj1 H). }
  apply in_map_iff in G. destruct G as [c [<- Hc]].
  apply (fock_sums_enum (length input) _ ltac:(lia)) in Hc. rewrite zs_length. exact (proj1 Hc).
Qed.

Section QuickSamplerR.
  Local Open Scope R_scope.
  Local Notation P := (prob_of rops).

  Lemma qs_w_nonneg l (U : @mat C) hout fin x : 0 <= qs_w rops l U hout fin x.
  Proof. unfold qs_w. destruct (add_heralds_to_state x hout); [apply prob_of_nonneg|simpl; lra]. Qed.

  (* the quick sampler's weight of a candidate in terms of the Sampler *)
  Definition qs_sw (b : backend) (n l : nat) (U : @mat C) (hin hout : hdict) (input x : state) : R :=
    match add_heralds_to_state x hout with
    | Ok fo => sampler_p b n l U hin input (znat fo)
    | Err _ => 0
    end.

  Theorem quick_sampler_spec b n l (U : @mat C) hin hout ps pc input pd :
    (0 < n)%nat -> (length hin <= n)%nat -> length hout = length hin ->
    quick_sampler rops 0 n l U hin hout ps pc input = Ok pd ->
    let cands := qs_cands ps pc input in
    let w := qs_sw b n l U hin hout input in
    let W := suml rops cands w in
    sampler_accepts b n l U hin input /\ 0 < W /\
    pd = map (fun x => (x, w x / W)) (filter (fun x => klt rops 0 (w x)) cands).
  Proof.
    intros Hn Hh Hho H.
    destruct (quick_sampler_struct rops 0 n l U hin hout ps pc input pd H) as (Hl & Hv & Hm & fi & Hfi & Hs).
    cbv zeta in Hs. destruct Hs as (Hcne & Hkne & Hall & Hpd). cbv zeta.
    set (fin := znat fi ++ repeat 0%nat l) in *.
    set (w0 := qs_w rops l U hout fin) in *.
    set (cands := qs_cands ps pc input) in *.
    assert (HA : forall x, In x cands -> w0 x = qs_sw b n l U hin hout input x).
    { intros x Hx. rewrite Forall_forall in Hall. destruct (Hall x Hx) as (fo & Hfo & Hos).
      unfold w0, qs_w, qs_sw. rewrite Hfo.
      assert (Hlx : length x = length input).
      { apply (qs_basis_length pc input x Hm). unfold cands, qs_cands in Hx. apply filter_In in Hx. exact (proj1 Hx). }
      assert (Hlk : length (znat fo) = n).
      { rewrite znat_length, (add_heralds_length _ _ _ Hfo). lia. }
      unfold fin in Hos. rewrite !osum_app, !osum_repeat0, !Nat.add_0_r in Hos.
      rewrite (sampler_p_marginal b n l U hin input fi (znat fo) Hn Hh Hl Hv Hfi Hlk); try lia.
      unfold entry_val. rewrite osum_app, osum_repeat0, Nat.add_0_r, Hos, Nat.sub_diag.
      rewrite loss_cfgs_zero. unfold fin. simpl. ring. }
    assert (HB : suml rops (filter (fun x => klt rops 0 (w0 x)) cands) w0 = suml rops cands w0).
    { rewrite (suml_filter (r:=rops)). apply (suml_ext (o:=rops)). intros x _. apply klt0_val. apply qs_w_nonneg. }
    split; [eexists; apply (sampler_dist_ok b n l U hin input fi Hl Hv Hfi)|].
    assert (HW : suml rops cands (qs_sw b n l U hin hout input) = suml rops cands w0).
    { apply (suml_ext (o:=rops)). intros x Hx. symmetry. apply HA. exact Hx. }
    split.
    - rewrite HW. destruct (filter (fun x => klt rops 0 (w0 x)) cands) as [|x0 kept] eqn:Ek; [contradiction|].
      assert (Hin : In x0 (filter (fun x => klt rops 0 (w0 x)) cands)) by (rewrite Ek; left; reflexivity).
      apply filter_In in Hin. destruct Hin as [Hin Hp]. apply klt_spec in Hp.
      pose proof (suml_rops_term_le cands w0 x0 (fun y _ => qs_w_nonneg l U hout fin y) Hin). lra.
    - rewrite Hpd, HB, HW.
      rewrite (filter_ext_in' (fun x => klt rops 0 (w0 x)) (fun x => klt rops 0 (qs_sw b n l U hin hout input x)) cands)
        by (intros x Hx; rewrite (HA x Hx); reflexivity).
      apply map_ext_in. intros x Hx. apply filter_In in Hx. rewrite (HA x (proj1 Hx)). reflexivity.
  Qed.

  (* ---- squared Simulator amplitudes, lossless ---- *)
  Lemma valid_state_iff m s : valid_state m s <-> length s = m /\ st_validate s = Ok tt.
  Proof. unfold valid_state. rewrite st_validate_ok. tauto. Qed.

  Theorem sim_sq_eq_sampler b n (U : @mat C) hin hout inputs outputs outs rows :
    (0 < n - length hin)%nat -> herald_ok n hin -> herald_ok n hout ->
    length hout = length hin -> hd_photons hin = hd_photons hout ->
    simulate rops n 0 U hin hout (n - length hin) inputs outputs = Ok (outs, rows) ->
    Forall2 (fun i row =>
               sampler_accepts b n 0 U hin i /\
               Forall2 (fun x e => exists fo, add_heralds_to_state x hout = Ok fo /\
                                   cnorm2 rops (fst e) / IZR (Z.of_nat (snd e)) = sampler_p b n 0 U hin i (znat fo))
                       outs row)
            inputs rows.
  Proof.
    intros Hm Hhin Hhout Hho Hph H.
    assert (Hn : (0 < n)%nat) by lia. assert (Hh : (length hin <= n)%nat) by lia.
    pose proof (simulate_entries rops _ _ _ _ _ _ _ _ _ _ H) as [Houts Hent].
    (* validity and photon numbers of the states involved *)
    assert (Hval : Forall (valid_state (n - length hin)) inputs /\ Forall (valid_state (n - length hin)) outs /\
                   forall i x, In i inputs -> In x outs -> zsum i = zsum x).
    { unfold simulate in H. destruct (check_states (n - length hin) inputs) as [[]|] eqn:Ec; cbn [bind] in H; [|discriminate].
      apply check_states_ok in Ec. split; [exact Ec|].
      destruct outputs as [os|].
      - subst outs. destruct (check_states (n - length hin) os) as [[]|] eqn:Eo; cbn [bind] in H; [|discriminate].
        apply check_states_ok in Eo. split; [exact Eo|].
        destruct (all_equal (map zsum (inputs ++ os))) eqn:Ea; cbn [bind] in H; [|discriminate].
        pose proof (proj1 (all_equal_spec _) Ea) as Ea'. clear Ea. rename Ea' into Ea. intros i x Hi Hx.
        apply Ea; apply in_map; apply in_or_app; [left|right]; assumption.
      - destruct inputs as [|i0 inputs']; [discriminate|].
        destruct (all_equal (map zsum (i0 :: inputs'))) eqn:Ea; cbn [bind] in H; [|discriminate].
        pose proof (proj1 (all_equal_spec _) Ea) as Ea'. clear Ea. rename Ea' into Ea. simpl hd in Houts.
        assert (H0 : (0 <= zsum i0)%Z).
        { inversion Ec as [|? ? [_ Hp] _]; subst. clear -Hp. induction Hp; simpl; lia. }
        split.
        + subst outs. apply Forall_forall. intros x Hx. apply in_map_iff in Hx. destruct Hx as [c [<- Hc]].
          apply (fock_sums_enum _ _ Hm) in Hc. split; [unfold zs; rewrite map_length; exact (proj1 Hc)|apply zs_nonneg].
        + intros i x Hi Hx. subst outs. apply in_map_iff in Hx. destruct Hx as [c [<- Hc]].
          apply (fock_sums_enum _ _ Hm) in Hc. change (map Z.of_nat c) with (zs c). rewrite zsum_zs, (proj2 Hc).
          rewrite (Ea (zsum i) (zsum i0)); [lia|apply in_map; exact Hi|left; reflexivity]. }
    destruct Hval as (Vi & Vo & Vs).
    eapply Forall2_impl_Forall; [| exact Hent |].
    { apply Forall_forall. intros i Hi. exact (conj Hi (proj1 (Forall_forall _ _) Vi i Hi)). }
    intros i row [Hi [Hli Hpi]] (fi & Hfi & Hrow).
    assert (Hvi : st_validate i = Ok tt) by (apply st_validate_ok; exact Hpi).
    destruct (add_heralds_total n hin i Hhin Hli Hh Hpi) as (fi' & Hfi' & Hlfi & _ & Hsfi).
    rewrite Hfi in Hfi'. injection Hfi' as <-.
    split; [eexists; apply (sampler_dist_ok b n 0 U hin i fi Hli Hvi Hfi)|].
    eapply Forall2_impl_Forall; [| exact Hrow |].
    { apply Forall_forall. intros x Hx. exact (conj Hx (proj1 (Forall_forall _ _) Vo x Hx)). }
    intros x e [Hx [Hlx Hpx]] (fx & Hfx & ->). exists fx. split; [exact Hfx|].
    destruct (add_heralds_total n hout x Hhout ltac:(lia) ltac:(lia) Hpx) as (fx' & Hfx' & Hlfx & _ & Hsfx).
    rewrite Hfx in Hfx'. injection Hfx' as <-.
    assert (Hos : osum (znat fx) = osum (znat fi)).
    { apply Nat2Z.inj. rewrite Hsfi, Hsfx, (Vs i x Hi Hx). lia. }
    assert (Hlk : length (znat fx) = n) by (rewrite znat_length; exact Hlfx).
    rewrite (sampler_p_marginal b n 0 U hin i fi (znat fx) Hn Hh Hli Hvi Hfi Hlk); try lia.
    unfold entry_val. rewrite osum_app, osum_repeat0, Nat.add_0_r, Hos, Nat.sub_diag. simpl.
    cbn [fst snd]. unfold prob_of, kofnat. unfold Rdiv. ring.
  Qed.
End QuickSamplerR.

(* ------------------------------------------------------------------ *)
(* Part 5: totality                                                    *)
(* ------------------------------------------------------------------ *)
Lemma mapM_total {A B} (f : A -> res B) l :
  Forall (fun a => exists b, f a = Ok b) l -> exists r, mapM f l = Ok r.
Proof.
  induction 1 as [|a l [b Hb] _ [r Hr]]; simpl; [eexists; reflexivity|].
  rewrite Hb, Hr. cbn [bind]. eexists; reflexivity.
Qed.

Lemma hd_photons_zero h : Forall (fun kv => snd kv = 0%Z) h -> hd_photons h = 0%Z.
Proof. induction 1 as [|kv h Hkv _ IH]; simpl; [reflexivity|]. rewrite Hkv, IH. reflexivity. Qed.

Lemma zsum_nonneg s : Forall (fun x => (0 <= x)%Z) s -> (0 <= zsum s)%Z.
Proof. induction 1; simpl; lia. Qed.

Lemma hd_photons_nonneg h : Forall (fun kv => (0 <= snd kv)%Z) h -> (0 <= hd_photons h)%Z.
Proof. induction 1 as [|kv h Hkv _ IH]; simpl; lia. Qed.

Lemma hlookup_some_key (h : hdict) j v : hlookup h j = Some v -> In j (hkeys h).
Proof. intros H. apply hlookup_in in H. apply (in_map fst) in H. exact H. Qed.

(* equal herald dictionaries (python ==) agree at every mode and hold the same photons *)
Lemma hd_eqb_lookup n a b :
  herald_ok n a -> herald_ok n b -> hd_eqb a b = true -> forall j, hlookup a j = hlookup b j.
Proof.
  intros (Na & _ & _) (Nb & _ & _) H. unfold hd_eqb in H. apply andb_true_iff in H. destruct H as [Hl Hf].
  apply Nat.eqb_eq in Hl. rewrite forallb_forall in Hf.
  assert (Hsub : forall k v, In (k, v) a -> hlookup b k = Some v).
  { intros k v Hin. specialize (Hf (k, v) Hin). simpl in Hf. destruct (hlookup b k) as [w|]; [|discriminate].
    apply Z.eqb_eq in Hf. congruence. }
  assert (Hincl : incl (hkeys b) (hkeys a)).
  { apply NoDup_length_incl; [exact Na|unfold hkeys; rewrite !map_length; lia|].
    intros k Hk. unfold hkeys in Hk. apply in_map_iff in Hk. destruct Hk as [[k' v] [<- Hin]].
    apply (hlookup_some_key b k' v). apply Hsub. exact Hin. }
  intros j. destruct (hlookup a j) as [v|] eqn:Ea.
  - symmetry. apply Hsub. apply hlookup_in. exact Ea.
  - symmetry. apply hlookup_none. intros Hj. apply Hincl in Hj. apply hlookup_none in Ea. contradiction.
Qed.

Lemma hd_eqb_photons n a b :
  herald_ok n a -> herald_ok n b -> hd_eqb a b = true -> hd_photons a = hd_photons b.
Proof.
  intros Ha Hb H. pose proof (hd_eqb_lookup n a b Ha Hb H) as Hl.
  destruct Ha as (Na & Ra & _). destruct Hb as (Nb & Rb & _).
  rewrite <- (hsum_hlookup a n 0 Na), <- (hsum_hlookup b n 0 Nb).
  - apply hsum_ext. intros j _. apply Hl.
  - intros k Hk. specialize (Rb k Hk). lia.
  - intros k Hk. specialize (Ra k Hk). lia.
Qed.

Section Totality.
  Context {K : Type} (o : ops K).
  Local Notation mat := (@mat (K * K)).

  (* The behaviour before fixes 35b3f09 and e8102ee (kept as regression
     witnesses): the guard compared the two dictionaries, and the photon number
     handed to _generate_outputs was full_inputs[0].n_photons, i.e. it INCLUDED
     the herald photons. *)
  Definition analyze_pinned (n l : nat) (U : mat) (hin hout : hdict) (ps : state -> res bool)
             (inputs : list state) : res (list state * list (list K)) :=
    let m := n - length hin in
    if negb (hd_eqb hin hout) then Err OtherError else
    do fins <- an_process_inputs m l hin inputs;
    do outs <- an_generate_outputs ps m l (osum (hd [] fins)) hout;
    do probs <- an_probs o l U fins outs;
    Ok (map fst outs, probs).

  (* F6: a herald that carries a photon (2 modes, mode 1 heralded with one
     photon, any matrix): Simulator and Sampler accept the input |1>; the old
     Analyzer raised ValueError ("Input matrix must be square"),
     PhotonNumberError with a loss mode; the repaired Analyzer returns a result.
     N14: a zero-photon herald with input mode 1 and output mode 0: the old guard
     raised RuntimeError; the repaired Analyzer returns a result. *)
  Theorem analyzer_total_pinned_refuted (U : mat) :
    (exists r, simulate o 2 0 U [(1, 1%Z)] [(1, 1%Z)] 1 [[1%Z]] None = Ok r) /\
    (exists d, sampler_dist o Permanent (k0 o) 2 0 U [(1, 1%Z)] [1%Z] = Ok d) /\
    analyze_pinned 2 0 U [(1, 1%Z)] [(1, 1%Z)] (fun _ => Ok true) [[1%Z]] = Err ValueError /\
    analyze_pinned 2 1 U [(1, 1%Z)] [(1, 1%Z)] (fun _ => Ok true) [[1%Z]] = Err PhotonNumberError /\
    (exists r, analyze o 2 0 U [(1, 1%Z)] [(1, 1%Z)] (fun _ => Ok true) [[1%Z]] None = Ok r) /\
    (exists r, analyze o 2 1 U [(1, 1%Z)] [(1, 1%Z)] (fun _ => Ok true) [[1%Z]] None = Ok r) /\
    (exists r, simulate o 2 0 U [(1, 0%Z)] [(0, 0%Z)] 1 [[1%Z]] None = Ok r) /\
    (exists d, sampler_dist o Permanent (k0 o) 2 0 U [(1, 0%Z)] [1%Z] = Ok d) /\
    analyze_pinned 2 0 U [(1, 0%Z)] [(0, 0%Z)] (fun _ => Ok true) [[1%Z]] = Err OtherError /\
    (exists r, analyze o 2 0 U [(1, 0%Z)] [(0, 0%Z)] (fun _ => Ok true) [[1%Z]] None = Ok r).
  Proof.
    split; [eexists; reflexivity|]. split; [eexists; reflexivity|]. split; [reflexivity|].
    split; [reflexivity|]. split; [eexists; reflexivity|]. split; [eexists; reflexivity|].
    split; [eexists; reflexivity|]. split; [eexists; reflexivity|]. split; [reflexivity|eexists; reflexivity].
  Qed.

  (* before fix 3ccdb7f the quick sampler refused threshold detection on a
     vacuum input (max(s) == 1 left no candidate), which the Sampler accepts; the
     repaired filter keeps the vacuum *)
  Theorem quick_sampler_vacuum_threshold_pinned_refuted eps (U : mat) :
    (exists d, sampler_dist o Permanent eps 2 0 U [] [0%Z; 0%Z] = Ok d) /\
    qs_candidates_pinned (fun _ => Ok true) false [0%Z; 0%Z] = Err ValueError /\
    qs_candidates (fun _ => Ok true) false [0%Z; 0%Z] = Ok [[0%Z; 0%Z]].
  Proof. split; [eexists; reflexivity|]. split; reflexivity. Qed.

  (* Everything analyze() does after its guard works for ANY well-formed heralds
     (photons or not, input mode = or <> output mode) that hold the same number
     of photons at input and output, on every input list the Simulator accepts,
     provided the post-selection is defined on every candidate and keeps one of
     them, and the expected mapping (if given) covers every input. *)
  Theorem analyzer_body_total n l (U : mat) hin hout ps inputs expected :
    0 < n - length hin -> herald_ok n hin -> herald_ok n hout ->
    length hout = length hin -> hd_photons hin = hd_photons hout ->
    inputs <> [] -> Forall (valid_state (n - length hin)) inputs -> all_equal (map zsum inputs) = true ->
    (forall s, exists b, ps s = Ok b) ->
    (exists c, In c (an_candidates (n - length hin) l (an_nphotons inputs)) /\ ps (zs c) = Ok true) ->
    match expected with
    | Some e => forall s, In s inputs -> exp_lookup e s <> None
    | None => True
    end ->
    exists r, analyze_body o n l U hin hout ps inputs expected = Ok r.
  Proof.
    intros Hm Hhin Hhout Hlen Hph Hne Hval Hall Hps (c0 & Hc0 & Hp0) Hexp.
    pose proof (hd_photons_nonneg _ (proj2 (proj2 Hhin))) as Pin.
    set (m := n - length hin) in *. set (N := an_nphotons inputs) in *.
    set (T := (N + Z.to_nat (hd_photons hin))%nat).
    pose proof (proj1 (all_equal_spec _) Hall) as Hsame.
    (* every input gets its heralds, has T photons and n + l modes *)
    assert (Hfi : forall i, In i inputs -> exists fi, add_heralds_to_state i hin = Ok fi /\
                    length (znat fi ++ repeat 0 l) = n + l /\ osum (znat fi ++ repeat 0 l) = T).
    { intros i Hi. rewrite Forall_forall in Hval. destruct (Hval i Hi) as [Hli Hpi].
      destruct (add_heralds_total n hin i Hhin Hli ltac:(lia) Hpi) as (fi & Hf & Hlf & _ & Hsf).
      exists fi. split; [exact Hf|]. rewrite app_length, repeat_length, znat_length, Hlf. split; [reflexivity|].
      rewrite osum_app, osum_repeat0, Nat.add_0_r. unfold T, N, an_nphotons. apply Nat2Z.inj. rewrite Hsf.
      destruct inputs as [|i0 inputs']; [contradiction|]. simpl hd.
      rewrite (Hsame (zsum i) (zsum i0)); [|apply in_map; exact Hi|left; reflexivity].
      assert (Hv0 : valid_state m i0) by (apply Hval; left; reflexivity).
      pose proof (zsum_nonneg _ (proj2 Hv0)). lia. }
    unfold analyze_body. fold m. fold N.
    (* _process_inputs *)
    assert (Hpi : exists fins, an_process_inputs m l hin inputs = Ok fins /\
                    Forall (fun fin => length fin = n + l /\ osum fin = T) fins).
    { unfold an_process_inputs. destruct inputs as [|i0 inputs'] eqn:Ei; [contradiction|]. rewrite <- Ei in *.
      rewrite Hall. cbn [negb].
      destruct (mapM_total (fun s => if negb (Nat.eqb (length s) m) then Err ModeMismatchError
                                     else do _ <- st_validate s; add_heralds_to_state s hin) inputs) as [full Hfull].
      { apply Forall_forall. intros i Hi. destruct (Hfi i Hi) as (fi & Hf & _).
        rewrite Forall_forall in Hval. destruct (Hval i Hi) as [Hli Hpi].
        exists fi. rewrite Hli, Nat.eqb_refl. cbn [negb].
        rewrite (proj2 (st_validate_ok i) Hpi). cbn [bind]. exact Hf. }
      rewrite Hfull. cbn [bind]. eexists. split; [reflexivity|]. apply mapM_ok in Hfull.
      apply Forall_forall. intros fin Hfin. apply in_map_iff in Hfin. destruct Hfin as [fi [<- Hfi']].
      assert (G : exists i, In i inputs /\ add_heralds_to_state i hin = Ok fi).
      { clear -Hfull Hfi' Hval. induction Hfull as [|i f ins fs Hif _ IH]; [contradiction|].
        inversion Hval as [|? ? Hvi Hval']; subst.
        destruct Hfi' as [<-|Hin].
        - exists i. split; [left; reflexivity|]. destruct Hvi as [Hli Hpi]. rewrite Hli, Nat.eqb_refl in Hif.
          cbn [negb] in Hif. rewrite (proj2 (st_validate_ok i) Hpi) in Hif. exact Hif.
        - destruct (IH Hval' Hin) as [i' [Hi' Hf']]. exists i'. split; [right; exact Hi'|exact Hf']. }
      destruct G as [i [Hi Hf]]. destruct (Hfi i Hi) as (fi' & Hf' & H1 & H2).
      rewrite Hf in Hf'. injection Hf' as <-. split; assumption. }
    destruct Hpi as (fins & Hpi & Hfins). rewrite Hpi. cbn [bind].
    (* _generate_outputs *)
    unfold an_generate_outputs. rewrite (proj2 (Nat.eqb_neq m 0)) by lia.
    destruct (an_filter_total ps hout (an_candidates m l N)) as [outs Houts].
    { apply Forall_forall. intros c _. apply Hps. }
    { apply Forall_forall. intros c Hc _. apply an_candidates_spec in Hc; [|lia].
      destruct (add_heralds_total n hout (zs c) Hhout) as (fo & Hfo & _); [rewrite zs_length; lia|lia|apply zs_nonneg|].
      exists fo. exact Hfo. }
    rewrite Houts. cbn [bind]. pose proof (an_filter_spec o _ _ _ _ Houts) as (Hf1 & Hf2 & _).
    assert (Hone : outs <> []).
    { intros ->. simpl in Hf1.
      assert (Hin : In (zs c0) (map zs (filter (fun c => ps_acc ps (zs c)) (an_candidates m l N)))).
      { apply in_map. apply filter_In. split; [exact Hc0|]. unfold ps_acc. rewrite Hp0. reflexivity. }
      rewrite <- Hf1 in Hin. contradiction. }
    destruct outs as [|sf0 outs'] eqn:Eo; [contradiction|]. cbn [bind]. rewrite <- Eo in *.
    (* _get_probs *)
    assert (Hsf : forall sf, In sf outs -> length (znat (snd sf)) = n /\ osum (znat (snd sf)) <= T /\
                                          (l = 0 -> osum (znat (snd sf)) = T)).
    { intros sf Hin. assert (Hs : In (fst sf) (map fst outs)) by (apply in_map; exact Hin).
      rewrite Hf1 in Hs. apply in_map_iff in Hs. destruct Hs as [c [Ec Hc]].
      apply filter_In in Hc. destruct Hc as [Hc _]. apply an_candidates_spec in Hc; [|lia].
      destruct Hc as (Hlc & Hle & H0). rewrite Forall_forall in Hf2. specialize (Hf2 sf Hin).
      destruct (add_heralds_total n hout (zs c) Hhout) as (fo & Hfo & Hlfo & _ & Hsfo); [rewrite zs_length; lia|lia|apply zs_nonneg|].
      rewrite <- Ec in Hf2. rewrite Hfo in Hf2. injection Hf2 as <-.
      rewrite znat_length. split; [exact Hlfo|].
      assert (osum (znat fo) = (osum c + Z.to_nat (hd_photons hin))%nat)
        by (apply Nat2Z.inj; rewrite Hsfo, <- Hph, zsum_zs; lia).
      unfold T. split; [lia|]. intros E. rewrite (H0 E) in *. lia. }
    assert (Hprobs : exists probs, an_probs o l U fins outs = Ok probs).
    { unfold an_probs. apply mapM_total. apply Forall_forall.
      intros fin Hfin. rewrite Forall_forall in Hfins. destruct (Hfins fin Hfin) as [Hlf Hsf'].
      apply mapM_total. apply Forall_forall. intros sf Hin. destruct (Hsf sf Hin) as (H1 & H2 & H3).
      apply (an_entry_total (o:=o)).
      - rewrite Hsf'. exact H2.
      - intros E. rewrite Hsf'. exact (H3 E).
      - rewrite Hlf. apply Nat.eq_le_incl. f_equal. symmetry. exact H1. }
    destruct Hprobs as [probs Hprobs]. rewrite Hprobs. cbn [bind].
    (* error rate *)
    destruct expected as [e|]; [|cbn [bind]; eexists; reflexivity].
    unfold an_error_rate.
    replace (forallb _ inputs) with true.
    - cbn [negb bind]. eexists; reflexivity.
    - symmetry. apply forallb_forall. intros s Hs. specialize (Hexp s Hs).
      destruct (exp_lookup e s); [reflexivity|contradiction].
  Qed.

  (* analyze() itself: the guard passes for every circuit (a herald adds one
     entry to each dictionary), so it is total under the same hypotheses *)
  Theorem analyzer_total n l (U : mat) hin hout ps inputs expected :
    0 < n - length hin -> herald_ok n hin -> herald_ok n hout ->
    length hout = length hin -> hd_photons hin = hd_photons hout ->
    inputs <> [] -> Forall (valid_state (n - length hin)) inputs -> all_equal (map zsum inputs) = true ->
    (forall s, exists b, ps s = Ok b) ->
    (exists c, In c (an_candidates (n - length hin) l (an_nphotons inputs)) /\ ps (zs c) = Ok true) ->
    match expected with
    | Some e => forall s, In s inputs -> exp_lookup e s <> None
    | None => True
    end ->
    exists r, analyze o n l U hin hout ps inputs expected = Ok r.
  Proof.
    intros Hm Hhin Hhout Hlen. unfold analyze. rewrite Hlen, Nat.eqb_refl. cbn [negb].
    apply analyzer_body_total; assumption.
  Qed.

  (* The QuickSampler works on every circuit and input the Simulator accepts,
     lossy circuits included, with the two documented exceptions: no candidate
     output is left by the detector / post-selection filters (ValueError), and no
     remaining candidate has a probability above the threshold (EmulatorError). *)
  Theorem quick_sampler_total eps n l (U : mat) hin hout ps pc input :
    0 < n - length hin -> herald_ok n hin -> herald_ok n hout ->
    length hout = length hin -> hd_photons hin = hd_photons hout ->
    valid_state (n - length hin) input ->
    (forall s, exists b, ps s = Ok b) ->
    (exists x fi, In x (qs_cands ps pc input) /\ add_heralds_to_state input hin = Ok fi /\
                  klt o eps (qs_w o l U hout (znat fi ++ repeat 0 l) x) = true) ->
    exists pd, quick_sampler o eps n l U hin hout ps pc input = Ok pd.
  Proof.
    intros Hm Hhin Hhout Hlen Hph [Hli Hpi] Hps (x0 & fi & Hx0 & Hfi & Hk0).
    unfold quick_sampler, quick_sampler_lazy, qs_new. rewrite Hli, Nat.eqb_refl. cbn [negb].
    rewrite (proj2 (st_validate_ok input) Hpi). cbn [bind].
    assert (Hm0 : length input <> 0) by lia.
    assert (Ec : qs_candidates ps pc input = Ok (qs_cands ps pc input)).
    { assert (E0 : qs_candidates ps pc input =
                   if Nat.eqb (length input) 0 then Err OtherError else
                   do outs <- filterR ps (qs_basis pc input);
                   match outs with [] => Err ValueError | _ => Ok outs end) by reflexivity.
      rewrite E0, (proj2 (Nat.eqb_neq _ _) Hm0).
      destruct (filterR_total ps (qs_basis pc input)) as [r Hr]; [apply Forall_forall; intros s _; apply Hps|].
      rewrite Hr. cbn [bind]. apply filterR_spec in Hr. destruct Hr as [-> _].
      change (filter _ (qs_basis pc input)) with (qs_cands ps pc input).
      destruct (qs_cands ps pc input); [contradiction|reflexivity]. }
    rewrite Ec. cbn [bind fst snd]. replace (n + l - n) with l by lia.
    unfold qs_probs. rewrite Hfi. cbn [bind].
    destruct (add_heralds_total n hin input Hhin Hli ltac:(lia) Hpi) as (fi' & Hfi' & Hlfi & _ & Hsfi).
    rewrite Hfi in Hfi'. injection Hfi' as <-.
    destruct (qs_raw_total o eps l U hout (znat fi ++ repeat 0 l) (qs_cands ps pc input)) as [raw Hraw].
    { apply Forall_forall. intros x Hx. unfold qs_cands in Hx. apply filter_In in Hx. destruct Hx as [Hx _].
      apply (qs_basis_iff pc input x Hm0 Hpi) in Hx. destruct Hx as (Hlx & Hpx & Hsx & _).
      destruct (add_heralds_total n hout x Hhout ltac:(lia) ltac:(lia) Hpx) as (fo & Hfo & Hlfo & _ & Hsfo).
      exists fo. split; [exact Hfo|]. rewrite !osum_app, !osum_repeat0, !app_length, !repeat_length, !znat_length.
      split; [|lia]. apply Nat2Z.inj. rewrite !Nat2Z.inj_add. simpl. lia. }
    rewrite Hraw. cbn [bind]. apply qs_raw_spec in Hraw. destruct Hraw as [-> _].
    assert (Hin : In x0 (filter (fun x => klt o eps (qs_w o l U hout (znat fi ++ repeat 0 l) x)) (qs_cands ps pc input))).
    { apply filter_In. split; assumption. }
    unfold qs_normalise. destruct (filter _ (qs_cands ps pc input)); [contradiction|]. simpl. eexists; reflexivity.
  Qed.
End Totality.

(* ------------------------------------------------------------------ *)
(* the statements for analyze() itself (guard + body)                  *)
(* ------------------------------------------------------------------ *)
Theorem analyze_spec {K} {o : ops K} {SR : StarRing o} n l (U : @mat (K * K)) hin hout ps inputs expected r :
  analyze o n l U hin hout ps inputs expected = Ok r ->
  length hout = length hin /\
  exists fins,
    an_process_inputs (n - length hin) l hin inputs = Ok fins /\
    n - length hin <> 0 /\
    ar_outputs r = map zs (filter (fun c => ps_acc ps (zs c))
                                  (an_candidates (n - length hin) l (an_nphotons inputs))) /\
    ar_outputs r <> [] /\
    Forall2 (fun x fo => add_heralds_to_state x hout = Ok fo) (ar_outputs r) (ar_full r) /\
    Forall2 (fun fin row =>
               Forall2 (fun fo p => osum (znat fo) <= osum fin /\ (l = 0 -> osum (znat fo) = osum fin) /\
                                    p = entry_val (o:=o) l U fin (znat fo))
                       (ar_full r) row)
            fins (ar_probs r) /\
    ar_perf r = kdivn o (ksum o (map (ksum o) (ar_probs r))) (length inputs) /\
    match expected with
    | None => ar_err r = None
    | Some e => exists x, ar_err r = Some x /\ an_error_rate o (ar_probs r) inputs (ar_outputs r) e = Ok x
    end.
Proof.
  intros H. destruct (analyze_ok (o:=o) _ _ _ _ _ _ _ _ _ H) as [Hl Hb]. split; [exact Hl|].
  exact (analyze_body_spec (o:=o) _ _ _ _ _ _ _ _ _ Hb).
Qed.

Theorem analyze_outputs_iff {K} {o : ops K} {SR : StarRing o} n l (U : @mat (K * K)) hin hout ps inputs expected r :
  analyze o n l U hin hout ps inputs expected = Ok r ->
  exists i0, hd_error inputs = Some i0 /\
    forall x, In x (ar_outputs r) <->
              exists c, x = zs c /\ length c = n - length hin /\ osum c <= Z.to_nat (zsum i0) /\
                        (l = 0 -> osum c = Z.to_nat (zsum i0)) /\ ps x = Ok true.
Proof.
  intros H. destruct (analyze_ok (o:=o) _ _ _ _ _ _ _ _ _ H) as [_ Hb].
  exact (analyzer_outputs_iff (o:=o) _ _ _ _ _ _ _ _ _ Hb).
Qed.

Theorem analyze_eq_sampler b n l (U : @mat C) hin hout ps inputs expected r :
  0 < n -> length hin <= n ->
  analyze rops n l U hin hout ps inputs expected = Ok r ->
  (lunit cops (n + l) U \/ Forall (fun fo => 0 < osum (znat fo)) (ar_full r)) ->
  Forall2 (fun i row => sampler_accepts b n l U hin i /\
                        row = map (fun fo => sampler_p b n l U hin i (znat fo)) (ar_full r))
          inputs (ar_probs r).
Proof.
  intros Hn Hh H. destruct (analyze_ok (o:=rops) _ _ _ _ _ _ _ _ _ H) as [Hl Hb].
  exact (analyzer_eq_sampler b n l U hin hout ps inputs expected r Hn Hh Hl Hb).
Qed.

Theorem analyze_performance b n l (U : @mat C) hin hout ps inputs expected r :
  0 < n -> length hin <= n ->
  analyze rops n l U hin hout ps inputs expected = Ok r ->
  (lunit cops (n + l) U \/ Forall (fun fo => 0 < osum (znat fo)) (ar_full r)) ->
  inputs <> [] /\
  ar_perf r = (suml rops (ar_probs r) (fun row => ksum rops row) / IZR (Z.of_nat (length inputs)))%R /\
  ar_perf r = (suml rops inputs (fun i => suml rops (ar_full r) (fun fo => sampler_p b n l U hin i (znat fo)))
               / IZR (Z.of_nat (length inputs)))%R.
Proof.
  intros Hn Hh H. destruct (analyze_ok (o:=rops) _ _ _ _ _ _ _ _ _ H) as [Hl Hb].
  exact (performance_spec b n l U hin hout ps inputs expected r Hn Hh Hl Hb).
Qed.

Theorem analyze_error_rate n l (U : @mat C) hin hout ps inputs e r :
  analyze rops n l U hin hout ps inputs (Some e) = Ok r ->
  (forall s, In s inputs -> exists x, exp_lookup e s = Some x) /\
  exists x, ar_err r = Some x /\
    match x with
    | Some v => v = (1 - ksum rops (frac_list (o:=rops) inputs (ar_probs r) (ar_outputs r) e)
                         / IZR (Z.of_nat (length inputs)))%R
    | None => exists row, In row (ar_probs r) /\ ksum rops row = 0%R
    end.
Proof.
  intros H. destruct (analyze_ok (o:=rops) _ _ _ _ _ _ _ _ _ H) as [_ Hb].
  exact (error_rate_spec n l U hin hout ps inputs e r Hb).
Qed.

(* ------------------------------------------------------------------ *)
(* two recorded behaviours over the reals                              *)
(* ------------------------------------------------------------------ *)
Section Recorded.
  Local Open Scope R_scope.

  (* the repaired quick sampler accepts a vacuum input with threshold detectors *)
  Theorem quick_sampler_vacuum_threshold_accepted (U : @mat C) :
    exists pd, quick_sampler rops 0 2 0 U [] [] (fun _ => Ok true) false [0%Z; 0%Z] = Ok pd.
  Proof.
    apply (quick_sampler_total rops 0 2 0 U [] [] (fun _ => Ok true) false [0%Z; 0%Z]).
    - simpl. lia.
    - split; [constructor|split; [intros k []|constructor]].
    - split; [constructor|split; [intros k []|constructor]].
    - reflexivity.
    - reflexivity.
    - split; [reflexivity|repeat constructor; lia].
    - intros s. exists true. reflexivity.
    - exists [0%Z; 0%Z], [0%Z; 0%Z]. split; [left; reflexivity|]. split; [reflexivity|].
      apply klt_spec. unfold qs_w. simpl add_heralds_to_state. cbv iota.
      change (znat [0%Z; 0%Z] ++ repeat 0%nat 0) with (repeat 0%nat 2).
      rewrite prob_vac. lra.
  Qed.

  (* before fix 23dccaf a state listed twice in expected[s] was subtracted twice:
     row error 1 - 2 p/total instead of one minus the expected fraction; the
     repaired loop counts it once *)
  Theorem error_rate_duplicate_pinned_refuted (x y : state) :
    st_eqb x y = false ->
    an_row_error_pinned rops [1; 0] [x; y] [x; x] = Some (1 - 1 - 1) /\
    an_row_error rops [1; 0] [x; y] [x; x] = Some (1 - 1) /\
    an_row_error rops [1; 0] [x; y] [x] = Some (1 - 1).
  Proof.
    intros _.
    assert (Ex : st_eqb x x = true) by (apply st_eqb_eq; reflexivity).
    unfold an_row_error. simpl st_dedupe. rewrite Ex. simpl filter.
    unfold an_row_error_pinned. simpl. rewrite Ex. simpl.
    destruct (Req_EM_T (1 + (0 + 0)) 0) as [E|_]; [lra|]. repeat split; do 2 f_equal; field.
  Qed.
End Recorded.
