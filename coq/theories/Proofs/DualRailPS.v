(* Photonic-level correctness with POST-SELECTION (C12, allow_post_selection = True).

   [accepts_dual_rail o e c nq Kc V Dd]: as [acts_as_dual_rail], but the statement is made only
   for the outputs y whose pair count (photons on modes 2q, 2q+1) is 1 on every qubit q < nq of
   the set Dd: for those, amp(dr b -> y) = Kc * V[b',b] if y = dr b' and 0 for every other y.
   With Dd = the rule qubits this is "every output ACCEPTED by the post-selection rules is a
   dual-rail state with amplitude Kc * V, or has amplitude 0".
   Step lemma [block_step_ps] (core: Proofs/DualRailPSStep.v). *)
From Coq Require Import ZArith List Bool Arith Lia Permutation Ring_theory Ring.
From LW Require Import Base.Sx Base.Num Base.Sums Base.Mat Model.State Model.Circuit Model.World Model.Fock Model.Gates
     Proofs.StateP Proofs.PermP Proofs.FockUnitP Proofs.CircuitP Proofs.AddP Proofs.DisplayP
     Proofs.WiringDefs Proofs.WiringMat Proofs.WiringSwaps Proofs.WiringRank Proofs.WiringP
     Proofs.WiringAmpFock Proofs.WiringAmpP Proofs.GatesP Proofs.DualRailDefs Proofs.DualRailFull Proofs.DualRailStep
     Proofs.DualRailP Proofs.DualRailPSStep.
Import ListNotations.
Open Scope nat_scope.

Section PS.
  Context {K : Type} (o : ops K) {SRK : StarRing o} {ZMK : ZMorph o}.
  Notation T := (K * K)%type.
  Notation cq := (co o).
  Notation circ := (@circ K).
  Notation mat := (@mat T).
  Variable ninv : nat -> T.
  Hypothesis ninv_spec : forall k, 0 < k -> kmul cq (kofnat cq k) (ninv k) = k1 cq.
  Variable e : env (K:=K).

  Definition accepts_dual_rail (c : circ) (nq : nat) (Kc : T) (V : qmat T) (Dd : nat -> bool) : Prop :=
    dr_shape c nq /\
    exists l U, build o e c = Ok (c_n c + l, U) /\
      forall (b : list bool) (y : list nat), In b (bits nq) -> length y = 2 * nq -> okD nq Dd y = true ->
        exists fi fy,
          add_heralds_to_state (dr b) (hdz (c_in c)) = Ok fi /\
          add_heralds_to_state (map Z.of_nat y) (hdz (c_out c)) = Ok fy /\
          let x' := znat fi ++ repeat 0 l in
          let y' := znat fy ++ repeat 0 l in
          (forall b', In b' (bits nq) -> y = drn b' ->
             amp_perm cq U x' y' = kmul cq Kc (V b' b) /\ amp_factor x' y' = 1) /\
          ((forall b', In b' (bits nq) -> y <> drn b') -> amp_perm cq U x' y' = k0 cq).

  Definition dr_acts_ps (c : circ) (nq : nat) (Kc : T) (V : qmat T) (Dd : nat -> bool) : Prop :=
    dr_shape c nq /\
    exists l U, build o e c = Ok (c_n c + l, U) /\
      forall b x y v, In b (bits nq) -> length v = 2 * nq ->
        full_st (c_n c) l (c_in c) (drn b) x -> full_st (c_n c) l (c_out c) v y -> okD nq Dd v = true ->
        (forall b', In b' (bits nq) -> v = drn b' ->
           amp_perm cq U x y = kmul cq Kc (V b' b) /\ amp_factor x y = 1) /\
        ((forall b', In b' (bits nq) -> v <> drn b') -> amp_perm cq U x y = k0 cq).

  Theorem accepts_iff c nq Kc V Dd : accepts_dual_rail c nq Kc V Dd <-> dr_acts_ps c nq Kc V Dd.
  Proof.
    split.
    - intros (S & l & U & Hb & H). split; [exact S|]. exists l, U. split; [exact Hb|].
      intros b x y v Hbb Hv Fx Fy Hok.
      destruct (H b v Hbb Hv Hok) as (fi & fy & E1 & E2 & H1 & H2). cbv zeta in H1, H2.
      rewrite <- dr_of_drn in E1.
      assert (Lb : length (drn b) = 2 * nq) by (rewrite drn_length; apply in_bits_length in Hbb; lia).
      pose proof (full_of_heralds c nq l (c_in c) (drn b) fi S (or_introl eq_refl) Lb E1) as Fx'.
      pose proof (full_of_heralds c nq l (c_out c) v fy S (or_intror eq_refl) Hv E2) as Fy'.
      rewrite (full_st_unique _ _ _ _ _ _ Fx Fx'), (full_st_unique _ _ _ _ _ _ Fy Fy'). split; assumption.
    - intros (S & l & U & Hb & H). split; [exact S|]. exists l, U. split; [exact Hb|].
      intros b y Hbb Hy Hok.
      assert (Lb : length (drn b) = 2 * nq) by (rewrite drn_length; apply in_bits_length in Hbb; lia).
      destruct (heralds_total c nq (c_in c) (drn b) S (or_introl eq_refl) Lb) as (fi & E1).
      destruct (heralds_total c nq (c_out c) y S (or_intror eq_refl) Hy) as (fy & E2).
      exists fi, fy. rewrite <- dr_of_drn. split; [exact E1|]. split; [exact E2|]. cbv zeta.
      apply (H b _ _ y Hbb Hy); [| |exact Hok].
      + apply (full_of_heralds c nq l (c_in c) (drn b) fi S (or_introl eq_refl) Lb E1).
      + apply (full_of_heralds c nq l (c_out c) y fy S (or_intror eq_refl) Hy E2).
  Qed.

  Lemma dr_acts_ps_of_acts c nq Kc V Dd : dr_acts o e c nq Kc V -> dr_acts_ps c nq Kc V Dd.
  Proof.
    intros (S & l & U & Hb & H). split; [exact S|]. exists l, U. split; [exact Hb|].
    intros b x y v Hbb Hv Fx Fy _. exact (H b x y v Hbb Hv Fx Fy).
  Qed.

  Lemma dr_acts_ps_none c nq Kc V : dr_acts_ps c nq Kc V (fun _ => false) -> dr_acts o e c nq Kc V.
  Proof.
    intros (S & l & U & Hb & H). split; [exact S|]. exists l, U. split; [exact Hb|].
    intros b x y v Hbb Hv Fx Fy. apply (H b x y v Hbb Hv Fx Fy). apply okD_spec. intros q _ E. discriminate.
  Qed.

  Lemma dr_acts_ps_weaken c nq Kc V Dd Dd' :
    (forall p, p < nq -> Dd p = true -> Dd' p = true) -> dr_acts_ps c nq Kc V Dd -> dr_acts_ps c nq Kc V Dd'.
  Proof.
    intros HD (S & l & U & Hb & H). split; [exact S|]. exists l, U. split; [exact Hb|].
    intros b x y v Hbb Hv Fx Fy Hok. apply (H b x y v Hbb Hv Fx Fy).
    apply okD_spec. intros p Hp E. apply (proj1 (okD_spec _ _ _) Hok p Hp). apply HD; assumption.
  Qed.

  Lemma dr_acts_ps_ext c nq Kc V V' Dd :
    (forall b b', In b (bits nq) -> In b' (bits nq) -> V b' b = V' b' b) ->
    dr_acts_ps c nq Kc V Dd -> dr_acts_ps c nq Kc V' Dd.
  Proof.
    intros HV (S & l & U & Hb & H). split; [exact S|]. exists l, U. split; [exact Hb|].
    intros b x y v Hbb Hv Fx Fy Hok. destruct (H b x y v Hbb Hv Fx Fy Hok) as [H1 H2]. split; [|exact H2].
    intros b' Hb' E. rewrite <- HV by assumption. apply H1; assumption.
  Qed.

  (* ---- the added gate: its dual-rail table; zero leakage only when [lf] ---- *)
  Definition gate_tab (sub : circ) (k : nat) (kG : T) (M : qmat T) (lf : bool) : Prop :=
    WFH sub /\ Forall swnd (c_spec sub) /\ 1 <= k /\
    c_n sub = 2 * k + length (c_in sub) /\ length (c_in sub) = length (c_out sub) /\
    dvals (c_out sub) = dvals (c_in sub) /\ (forall kv, In kv (c_in sub) -> snd kv <= 1) /\
    exists US, build o e sub = Ok (c_n sub, US) /\
      (forall b b' xs ys, In b (bits k) -> In b' (bits k) ->
         full_st (c_n sub) 0 (c_in sub) (drn b) xs -> full_st (c_n sub) 0 (c_out sub) (drn b') ys ->
         amp_perm cq US xs ys = kmul cq kG (M b' b)) /\
      (lf = true ->
       forall b w xs ys, In b (bits k) -> length w = 2 * k ->
         full_st (c_n sub) 0 (c_in sub) (drn b) xs -> full_st (c_n sub) 0 (c_out sub) w ys ->
         (forall b', In b' (bits k) -> w <> drn b') -> amp_perm cq US xs ys = k0 cq).

  Lemma gate_tab_of_ok sub k kG M : gate_ok o e sub k kG M -> gate_tab sub k kG M true.
  Proof.
    intros (H1 & H2 & H3 & H4 & H5 & H6 & H7 & US & Hb & GF).
    repeat (split; [assumption|]). exists US. split; [exact Hb|]. split.
    - intros b b' xs ys Hbb Hb' Fx Fy.
      destruct (GF b (drn b') xs ys Hbb ltac:(rewrite drn_length; apply in_bits_length in Hb'; lia) Fx Fy) as [G1 _].
      apply G1; [exact Hb'|reflexivity].
    - intros _ b w xs ys Hbb Hw Fx Fy Hnd. destruct (GF b w xs ys Hbb Hw Fx Fy) as [_ G2]. apply G2. exact Hnd.
  Qed.

  (* from the form in which C13 states a post-selected gate (table only) *)
  Theorem gate_tab_of_c13 (gt : @gate K) (k : nat) (kG : T) (M : qmat T) :
    (forall b b', In b (bits k) -> In b' (bits k) ->
       sim_amp o gt (dr b) (dr b') = Ok (kmul cq kG (M b' b), 1)) ->
    WFH (g_circ gt) -> Forall swnd (c_spec (g_circ gt)) -> 1 <= k ->
    c_n (g_circ gt) = 2 * k + length (c_in (g_circ gt)) ->
    length (c_in (g_circ gt)) = length (c_out (g_circ gt)) ->
    dvals (c_out (g_circ gt)) = dvals (c_in (g_circ gt)) ->
    (forall kv, In kv (c_in (g_circ gt)) -> snd kv <= 1) ->
    build o e (g_circ gt) = Ok (c_n (g_circ gt), g_U gt) ->
    gate_tab (g_circ gt) k kG M false.
  Proof.
    intros C1 WS Sw Hk Hn Hl Hv Hle Hb.
    split; [exact WS|]. split; [exact Sw|]. split; [exact Hk|]. split; [exact Hn|]. split; [exact Hl|].
    split; [exact Hv|]. split; [exact Hle|]. exists (g_U gt). split; [exact Hb|]. split; [|discriminate].
    set (sub := g_circ gt) in *. destruct WS as (WFs & N1 & N2).
    assert (B1 : forall i, In i (dkeys (c_in sub)) -> i < c_n sub) by (intros i; apply lt_all_in', WFs).
    assert (B2 : forall i, In i (dkeys (c_out sub)) -> i < c_n sub) by (intros i; apply lt_all_in', WFs).
    intros b b' xs ys Hbb Hb' Fxs Fys.
    assert (Lb : length (drn b) = 2 * k) by (rewrite drn_length; apply in_bits_length in Hbb; lia).
    assert (Lb' : length (drn b') = 2 * k) by (rewrite drn_length; apply in_bits_length in Hb'; lia).
    destruct (add_heralds_full (c_n sub) (c_in sub) (drn b) N1 B1 ltac:(lia)) as (f1 & E1 & F1).
    destruct (add_heralds_full (c_n sub) (c_out sub) (drn b') N2 B2 ltac:(lia)) as (f2 & E2 & F2).
    rewrite (full_st_unique _ _ _ _ _ _ Fxs F1), (full_st_unique _ _ _ _ _ _ Fys F2).
    rewrite dr_of_drn in E1, E2.
    pose proof (C1 b b' Hbb Hb') as SA. unfold sim_amp in SA. fold sub in SA. rewrite E1, E2 in SA.
    cbn [bind] in SA. injection SA as SA _. exact SA.
  Qed.

  (* the gate gives amplitude 0 from a state with a wrong photon number on its i-th qubit to every
     output that carries one photon on each of its qubits that are dead afterwards *)
  Definition blk_kill (sub : circ) (k q : nat) (Dd' : nat -> bool) (i : nat) : Prop :=
    forall US, build o e sub = Ok (c_n sub, US) ->
    forall w_in w_out xs ys, length w_in = 2 * k -> length w_out = 2 * k ->
      full_st (c_n sub) 0 (c_in sub) w_in xs -> full_st (c_n sub) 0 (c_out sub) w_out ys ->
      cnt w_in i <> 1 -> (forall j, j < k -> Dd' (q + j) = true -> cnt w_out j = 1) ->
      amp_perm cq US xs ys = k0 cq.

  Theorem block_step_ps (c sub c' : circ) (nq q k : nat) (Kc kG : T) (V M : qmat T) (g : bool)
          (lf : bool) (Dd Dd' : nat -> bool) :
    dr_acts_ps c nq Kc V Dd -> gate_tab sub k kG M lf -> q + k <= nq ->
    (lf = true \/ forall i j, i < k -> j < k -> i <> j -> Dd' (q + i) = true \/ Dd' (q + j) = true) ->
    (forall p, p < nq -> p < q \/ q + k <= p -> Dd p = true -> Dd' p = true) ->
    (forall i, i < k -> Dd (q + i) = true -> blk_kill sub k q Dd' i) ->
    op_add o c sub (Z.of_nat (2 * q)) g = Ok c' ->
    dr_acts_ps c' nq (kmul cq Kc kG) (lift_blk cq M q k V) Dd'.
  Proof.
    intros (S & lP & UP & HbP & IH) (WS & SwS & Hk1 & HnS & HlS & HvS & Hle1S & US & HbS & GF1 & GFL) Hqk Hlf HDs Hbk Hadd.
    pose proof S as (WP & SwP & HnP & KinP & KoutP & Le1in & Le1out & Hsum).
    destruct (shape_facts c nq S) as (F1 & F2 & F3 & F4 & F5 & F6 & F7 & F8).
    assert (HbS' : build o e sub = Ok (c_n sub + 0, US)) by (rewrite Nat.add_0_r; exact HbS).
    destruct (add_amplitudes (o:=o) ninv ninv_spec e c sub c' (Z.of_nat (2 * q)) g lP UP 0 US
                WP WS ltac:(lia) SwP SwS HlS Hadd HbP HbS') as (m & old & loc & phi_in & phi_out & UR & E & iP & W & TB & _).
    cbv zeta in W, TB.
    replace (c_n sub + 0) with (c_n sub) in * by lia.
    destruct W as (Wm & Wm1 & Wm2 & Wn & Wb & Wmono & Wold & WoldL & _ & Wloc & Wlocinj & Wint & Win & Wout & Wher &
                   Wvl & Wopen & _ & _ & Wphiinj & _ & _ & _ & _ & _ & _ & _ & WFc' & Swc').
    set (h := length (c_in sub)) in *.
    assert (Hh2 : c_n sub - h = 2 * k) by lia.
    destruct WS as (WFs & NSin & NSout).
    assert (Lins : length (dkeys (c_in sub)) = h) by (unfold dkeys; rewrite map_length; reflexivity).
    assert (Louts : length (dkeys (c_out sub)) = h) by (unfold dkeys; rewrite map_length; lia).
    assert (Emap : map phi_in (dkeys (c_in sub)) = map loc (seq 0 h))
      by (apply map_phi_loc; [exact Lins|intros j Hj; apply Wher, Hj]).
    (* the shape of the result *)
    assert (Kin' : forall i, In i (dkeys (c_in c')) <-> In i (c_int c')).
    { intros i. rewrite Win. change (In i (dkeys (dmap old (c_in c) ++ dmap phi_in (c_in sub))) <-> In i (c_int c')).
      rewrite dkeys_app, !dkeys_dmap, Emap. split; intros H.
      - eapply Permutation_in; [apply Permutation_sym, Wint|]. apply in_app_or in H. apply in_or_app.
        destruct H as [H|H]; [left|right; exact H]. apply in_map_iff in H as (x & <- & Hx). apply in_map, KinP, Hx.
      - apply (Permutation_in _ Wint) in H. apply in_app_or in H. apply in_or_app.
        destruct H as [H|H]; [left|right; exact H]. apply in_map_iff in H as (x & <- & Hx). apply in_map, KinP, Hx. }
    assert (Kout' : forall i, In i (dkeys (c_out c')) <-> In i (c_int c')).
    { intros i. rewrite Wout. change (In i (dkeys (dmap old (c_out c) ++ dmap phi_in (c_in sub))) <-> In i (c_int c')).
      rewrite dkeys_app, !dkeys_dmap, Emap. split; intros H.
      - eapply Permutation_in; [apply Permutation_sym, Wint|]. apply in_app_or in H. apply in_or_app.
        destruct H as [H|H]; [left|right; exact H]. apply in_map_iff in H as (x & <- & Hx). apply in_map, KoutP, Hx.
      - apply (Permutation_in _ Wint) in H. apply in_app_or in H. apply in_or_app.
        destruct H as [H|H]; [left|right; exact H]. apply in_map_iff in H as (x & <- & Hx). apply in_map, KoutP, Hx. }
    assert (S' : dr_shape c' nq).
    { split; [exact WFc'|]. split; [exact Swc'|]. split.
      { rewrite Wn, (Permutation_length Wint), app_length, !map_length, seq_length. lia. }
      split; [exact Kin'|]. split; [exact Kout'|]. split; [|split].
      - intros kv Hkv. rewrite Win in Hkv. apply in_app_or in Hkv as [H|H]; apply in_map_iff in H as (kv0 & <- & H); cbn [snd];
          [apply Le1in|apply Hle1S]; exact H.
      - intros kv Hkv. rewrite Wout in Hkv. apply in_app_or in Hkv as [H|H]; apply in_map_iff in H as (kv0 & <- & H); cbn [snd];
          [apply Le1out|apply Hle1S]; exact H.
      - rewrite Win, Wout.
        change (osum (dvals (dmap old (c_in c) ++ dmap phi_in (c_in sub))) =
                osum (dvals (dmap old (c_out c) ++ dmap phi_in (c_in sub)))).
        rewrite !dvals_app, !dvals_dmap, !osum_app, Hsum. reflexivity. }
    split; [exact S'|]. exists lP, UR. split; [rewrite Wn; replace (c_n c + h + lP + 0) with (c_n c + h + lP) in Wb by lia; exact Wb|].
    intros b x y v Hb Hv Fx Fy Hok. rewrite Wn in Fx, Fy. rewrite Win in Fx. rewrite Wout in Fy.
    assert (GF2 : (forall b0 w xs ys, In b0 (bits k) -> length w = 2 * k ->
                     full_st (c_n sub) 0 (c_in sub) (drn b0) xs -> full_st (c_n sub) 0 (c_out sub) w ys ->
                     (forall b', In b' (bits k) -> w <> drn b') -> amp_perm cq US xs ys = k0 cq) \/
                  (forall i j, i < k -> j < k -> i <> j -> Dd' (q + i) = true \/ Dd' (q + j) = true)).
    { destruct Hlf as [Hl|Hp]; [left; exact (GFL Hl)|right; exact Hp]. }
    refine (wired_step_ps (r:=cq) ninv ninv_spec (c_n c) lP nq (c_int c) (c_in c) (c_out c) (c_n sub) h k q (c_in sub) (c_out sub)
              old loc phi_in phi_out F1 F2 HnP KinP KoutP F3 F4 Le1in Le1out Hsum ltac:(lia) eq_refl ltac:(lia)
              NSin NSout _ _ HvS Hle1S Hqk Wmono Wold WoldL Wloc Wlocinj Wher _ UP US UR Kc kG V M Dd Dd' _ IH GF1 GF2 HDs (fun i Hi HD => Hbk i Hi HD US HbS) b x y v Hb Hv Fx Fy Hok).
    - intros i Hi. apply (lt_all_in' _ _ _ (wf_in _ WFs) Hi).
    - intros i Hi. apply (lt_all_in' _ _ _ (wf_out _ WFs) Hi).
    - intros j Hj. destruct (Wopen j ltac:(lia)) as [O1 O2].
      pose proof (block_position c nq q m j S Wm ltac:(lia) ltac:(lia)) as BP. rewrite BP in O1. rewrite BP in O2. split; [exact O1|exact O2].
    - intros x0 y0 L Hx0 Hy0 HL.
      destruct (TB x0 y0 L ltac:(lia) ltac:(lia) ltac:(replace (c_n c + h + lP + 0) with (c_n c + h + lP) by lia; exact HL))
        as (_ & _ & Hc & _).
      replace (c_n c + h + lP + 0) with (c_n c + h + lP) in Hc by lia. exact Hc.
  Qed.


  (* a one-qubit gate conserves the photon number of its qubit *)
  Lemma blk_kill_single (sub : circ) q Dd' :
    WFH sub -> c_n sub = 2 * 1 + length (c_in sub) -> dvals (c_out sub) = dvals (c_in sub) ->
    length (c_in sub) = length (c_out sub) ->
    Dd' q = true -> blk_kill sub 1 q Dd' 0.
  Proof.
    intros (WFs & N1 & N2) Hn Hv Hl HD US _ w_in w_out xs ys L1 L2 Fx Fy Hc Hout.
    assert (B1 : forall i, In i (dkeys (c_in sub)) -> i < c_n sub) by (intros i; apply lt_all_in', WFs).
    assert (B2 : forall i, In i (dkeys (c_out sub)) -> i < c_n sub) by (intros i; apply lt_all_in', WFs).
    specialize (Hout 0 ltac:(lia)). rewrite Nat.add_0_r in Hout. specialize (Hout HD).
    unfold amp_perm. apply perm_ml_length. rewrite !expand_length.
    rewrite (full_st_osum _ _ _ _ _ Fx N1 B1) by (rewrite vis_length by assumption; unfold dkeys; rewrite map_length; lia).
    rewrite (full_st_osum _ _ _ _ _ Fy N2 B2) by (rewrite vis_length by assumption; unfold dkeys; rewrite map_length; lia).
    rewrite Hv.
    assert (S1 : forall w0 : list nat, length w0 = 2 * 1 -> osum w0 = cnt w0 0).
    { intros w0 Hw. destruct w0 as [|a0 [|a1 [|? ?]]]; try discriminate. unfold cnt, osum. simpl. lia. }
    rewrite (S1 _ L1), (S1 _ L2). lia.
  Qed.
End PS.
