(* Lemmas about the circuit rewrites (property C09). *)
From Coq Require Import ZArith List Bool Arith Lia Ring_theory Ring Permutation.
From LW Require Import Base.Sx Base.Num Base.Sums Base.Mat Base.Embed Model.Circuit Model.World
     Model.Rewrite Proofs.CompileP.
Import ListNotations.

(* ====================================================================== *)
(* Part 1: permutation matrices over an abstract commutative *-ring       *)
(* ====================================================================== *)
Section PermGeneric.
  Context {K : Type} {o : ops K} {SR : StarRing o}.
  Let R := sr_ring (o:=o).
  Add Ring Kr : R.
  Local Notation "0" := (k0 o).
  Local Notation "1" := (k1 o).
  Local Notation "a + b" := (kadd o a b).
  Local Notation "a * b" := (kmul o a b).
  Local Notation sumn := (sumn o).
  Local Notation mmul := (mmul o).
  Local Notation mid := (mid o).
  Local Notation meq := (@meq K).
  Local Notation mat := (@mat K).

  (* p and q are mutually inverse bijections of [0,n) *)
  Definition bij (n : nat) (p q : nat -> nat) : Prop :=
    (forall i, i < n -> p i < n) /\ (forall i, i < n -> q i < n) /\
    (forall i, i < n -> q (p i) = i) /\ (forall i, i < n -> p (q i) = i).

  Lemma bij_sym n p q : bij n p q -> bij n q p.
  Proof. intros (H1 & H2 & H3 & H4). repeat split; assumption. Qed.

  Lemma bij_inj n p q a b : bij n p q -> a < n -> b < n -> p a = p b -> a = b.
  Proof. intros (_ & _ & H & _) Ha Hb E. rewrite <- (H a), <- (H b), E by assumption. reflexivity. Qed.

  Lemma perm_mul_l n p q (A : mat) :
    bij n p q -> meq n (mmul n (perm_mat o p) A) (fun i j => A (q i) j).
  Proof.
    intros (Hp & Hq & Hqp & Hpq) i j Hi Hj. unfold Mat.mmul.
    rewrite (sumn_single n (q i)).
    - unfold perm_mat. rewrite Hpq by assumption. rewrite Nat.eqb_refl. ring.
    - apply Hq; assumption.
    - intros k Hk Hne. unfold perm_mat. replace (i =? p k) with false; [ring|].
      symmetry. apply Nat.eqb_neq. intros E. apply Hne. rewrite E, Hqp; auto.
  Qed.

  Lemma perm_mul_r n p (A : mat) :
    (forall i, i < n -> p i < n) -> meq n (mmul n A (perm_mat o p)) (fun i j => A i (p j)).
  Proof.
    intros Hp i j Hi Hj. unfold Mat.mmul. rewrite (sumn_single n (p j)).
    - unfold perm_mat. rewrite Nat.eqb_refl. ring.
    - apply Hp; assumption.
    - intros k Hk Hne. unfold perm_mat. apply Nat.eqb_neq in Hne. rewrite Hne. ring.
  Qed.

  (* product of permutation matrices = matrix of the composition *)
  Lemma perm_mat_comp n p1 p2 :
    (forall i, i < n -> p1 i < n) ->
    meq n (mmul n (perm_mat o p2) (perm_mat o p1)) (perm_mat o (fun i => p2 (p1 i))).
  Proof.
    intros H1. eapply meq_trans; [apply perm_mul_r; exact H1|]. intros i j _ _. reflexivity.
  Qed.

  Lemma perm_mat_ext n p p' : (forall i, i < n -> p i = p' i) -> meq n (perm_mat o p) (perm_mat o p').
  Proof. intros H i j _ Hj. unfold perm_mat. rewrite H by assumption. reflexivity. Qed.

  (* Q A P  relabels the matrix: (Q A P)[i,j] = A[p i, p j] *)
  Lemma perm_conj n p q (A : mat) :
    bij n p q ->
    meq n (mmul n (perm_mat o q) (mmul n A (perm_mat o p))) (fun i j => A (p i) (p j)).
  Proof.
    intros Hb. eapply meq_trans; [apply (perm_mul_l n q p); apply bij_sym; exact Hb|].
    intros i j Hi Hj. destruct Hb as (Hp & _). apply perm_mul_r; auto.
  Qed.

  (* a matrix that is the identity outside the index set S *)
  Definition id_off (S : nat -> bool) (A : mat) : Prop :=
    forall i j, S i = false \/ S j = false -> A i j = mid i j.

  (* "a permutation supported off a component's modes commutes with it" *)
  Lemma perm_commute_off n p q S (A : mat) :
    bij n p q -> id_off S A -> (forall i, S i = true -> p i = i) ->
    meq n (mmul n (perm_mat o p) A) (mmul n A (perm_mat o p)).
  Proof.
    intros Hb Hoff Hfix.
    eapply meq_trans; [apply (perm_mul_l n p q); exact Hb|].
    apply meq_sym. eapply meq_trans; [apply perm_mul_r; apply Hb|]. apply meq_sym.
    pose proof Hb as (Hp & Hq & Hqp & Hpq).
    intros i j Hi Hj.
    assert (Hqfix : forall x, x < n -> S x = true -> q x = x).
    { intros x Hx Hs. rewrite <- (Hfix x Hs) at 1. apply Hqp. exact Hx. }
    assert (HpS : forall x, x < n -> S x = false -> S (p x) = false).
    { intros x Hx Hs. destruct (S (p x)) eqn:E; [|reflexivity].
      assert (p x = x) by (apply (bij_inj n p q); auto; apply Hfix; exact E).
      congruence. }
    assert (HqS : forall x, x < n -> S x = false -> S (q x) = false).
    { intros x Hx Hs. destruct (S (q x)) eqn:E; [|reflexivity].
      assert (p (q x) = q x) by (apply Hfix; exact E). rewrite Hpq in H by assumption. congruence. }
    destruct (S i) eqn:Si.
    - rewrite (Hqfix i Hi Si). destruct (S j) eqn:Sj.
      + rewrite (Hfix j Sj). reflexivity.
      + rewrite (Hoff i j) by (right; exact Sj).
        rewrite (Hoff i (p j)) by (right; apply HpS; assumption).
        unfold Mat.mid.
        replace (i =? j) with false by (symmetry; apply Nat.eqb_neq; intros ->; congruence).
        replace (i =? p j) with false; [reflexivity|].
        symmetry. apply Nat.eqb_neq. intros E. specialize (HpS j Hj Sj). rewrite <- E in HpS. congruence.
    - rewrite (Hoff (q i) j) by (left; apply HqS; assumption).
      rewrite (Hoff i (p j)) by (left; exact Si).
      unfold Mat.mid.
      destruct (Nat.eqb_spec (q i) j) as [E|E], (Nat.eqb_spec i (p j)) as [E'|E']; try reflexivity.
      + exfalso. apply E'. rewrite <- E, Hpq; auto.
      + exfalso. apply E. rewrite E', Hqp; auto.
  Qed.

  (* ---- the elementary embeddings are the identity off their modes ---- *)
  Lemma id_off_embed2 a b u00 u01 u10 u11 :
    id_off (fun i => (i =? a) || (i =? b)) (embed2 o a b u00 u01 u10 u11).
  Proof.
    intros i j [H|H]; apply orb_false_iff in H as [H1 H2]; apply Nat.eqb_neq in H1, H2.
    - apply embed2_out_l; assumption.
    - apply embed2_out_r; assumption.
  Qed.

  Lemma id_off_phase a e : id_off (fun i => i =? a) (phase_mat o a e).
  Proof.
    intros i j H. unfold phase_mat, Mat.mid.
    destruct (Nat.eqb_spec i j) as [->|Hne]; [|reflexivity].
    destruct H as [H|H]; rewrite H; reflexivity.
  Qed.

  Lemma id_off_block m k V :
    id_off (fun i => (m <=? i) && (i <? m + k)) (block_mat o m k V).
  Proof.
    intros i j [H|H].
    - apply block_out_l. apply andb_false_iff in H as [H|H];
        [apply Nat.leb_gt in H; lia|apply Nat.ltb_ge in H; lia].
    - apply block_out_r. apply andb_false_iff in H as [H|H];
        [apply Nat.leb_gt in H; lia|apply Nat.ltb_ge in H; lia].
  Qed.

  Lemma id_off_perm S p :
    (forall j, S j = false -> p j = j) -> (forall j, S j = true -> S (p j) = true) ->
    id_off S (perm_mat o p).
  Proof.
    intros Hout Hin i j H. unfold perm_mat, Mat.mid.
    destruct (S j) eqn:Sj.
    - destruct H as [Si|]; [|discriminate]. specialize (Hin j Sj).
      replace (i =? p j) with false by (symmetry; apply Nat.eqb_neq; intros ->; congruence).
      replace (i =? j) with false by (symmetry; apply Nat.eqb_neq; intros ->; congruence).
      reflexivity.
    - rewrite (Hout j Sj). reflexivity.
  Qed.

  Lemma id_off_weaken (S S' : nat -> bool) A :
    (forall i, S i = true -> S' i = true) -> id_off S A -> id_off S' A.
  Proof.
    intros Hw Hoff i j H. apply Hoff.
    destruct H as [H|H]; [left|right]; (destruct (S _) eqn:E; [apply Hw in E; congruence|reflexivity]).
  Qed.

  (* relabelling a 2x2 embedding *)
  Lemma embed2_relabel n p q a b u00 u01 u10 u11 :
    bij n p q -> a < n -> b < n ->
    meq n (fun i j => embed2 o a b u00 u01 u10 u11 (p i) (p j)) (embed2 o (q a) (q b) u00 u01 u10 u11).
  Proof.
    intros (Hp & Hq & Hqp & Hpq) Ha Hb i j Hi Hj.
    assert (E : forall x c, x < n -> c < n -> (p x =? c) = (x =? q c)).
    { intros x c Hx Hc. destruct (Nat.eqb_spec (p x) c) as [E|E], (Nat.eqb_spec x (q c)) as [E'|E']; try reflexivity.
      - exfalso. apply E'. rewrite <- E, Hqp; auto.
      - exfalso. apply E. rewrite E', Hpq; auto. }
    unfold embed2. rewrite !E by assumption.
    unfold Mat.mid.
    assert (Em : (p i =? p j) = (i =? j)).
    { destruct (Nat.eqb_spec (p i) (p j)) as [E1|E1], (Nat.eqb_spec i j) as [E2|E2]; try reflexivity.
      - exfalso. apply E2. rewrite <- (Hqp i), <- (Hqp j), E1; auto.
      - exfalso. apply E1. congruence. }
    rewrite Em. reflexivity.
  Qed.

  (* tab is invisible; two compile steps in a row *)
  Lemma tab2 n (A B U : mat) :
    meq n (tab o n (mmul n A (tab o n (mmul n B U)))) (mmul n (mmul n A B) U).
  Proof.
    eapply meq_trans; [apply tab_spec|].
    eapply meq_trans; [apply mmul_compat; [apply meq_refl|apply tab_spec]|].
    intros i j _ _. symmetry. apply mmul_assoc.
  Qed.

  Lemma tab_mmul_compat n (A A' U U' : mat) :
    meq n A A' -> meq n U U' -> meq n (tab o n (mmul n A U)) (tab o n (mmul n A' U')).
  Proof.
    intros HA HU. eapply meq_trans; [apply tab_spec|]. apply meq_sym.
    eapply meq_trans; [apply tab_spec|]. apply meq_sym. apply mmul_compat; assumption.
  Qed.

  Lemma pad_compat n (U U' : mat) : meq n U U' -> meq (S n) (pad o n U) (pad o n U').
  Proof.
    intros H i j _ _. unfold pad.
    destruct (i <? n) eqn:Ei, (j <? n) eqn:Ej; simpl; try reflexivity.
    apply H; apply Nat.ltb_lt; assumption.
  Qed.

  (* a permutation that fixes the new mode n commutes with padding *)
  Lemma pad_perm n p q (U : mat) :
    bij n p q -> p n = n -> q n = n ->
    meq (S n) (pad o n (tab o n (mmul n (perm_mat o p) U))) (mmul (S n) (perm_mat o p) (pad o n U)).
  Proof.
    intros Hb Hpn Hqn.
    assert (Hb' : bij (S n) p q).
    { destruct Hb as (Hp & Hq & Hqp & Hpq). repeat split; intros i Hi;
        (destruct (Nat.eq_dec i n) as [->|Hne]; [rewrite ?Hpn, ?Hqn; auto; lia|]);
        [specialize (Hp i ltac:(lia)); lia|specialize (Hq i ltac:(lia)); lia|apply Hqp; lia|apply Hpq; lia]. }
    apply meq_sym. eapply meq_trans; [apply (perm_mul_l (S n) p q); exact Hb'|].
    intros i j Hi Hj. unfold pad.
    destruct (Nat.eq_dec i n) as [->|Hin].
    - rewrite Hqn. rewrite Nat.ltb_irrefl. simpl. reflexivity.
    - assert (Hi' : i < n) by lia. destruct Hb as (Hp & Hq & Hqp & Hpq).
      pose proof (Hq i Hi') as Hqi.
      replace (q i <? n) with true by (symmetry; apply Nat.ltb_lt; exact Hqi).
      replace (i <? n) with true by (symmetry; apply Nat.ltb_lt; exact Hi').
      destruct (j <? n) eqn:Ej; simpl.
      + apply Nat.ltb_lt in Ej. rewrite tab_spec by assumption.
        symmetry. apply (perm_mul_l n p q); [repeat split; assumption|assumption|assumption].
      + apply Nat.ltb_ge in Ej. unfold Mat.mid.
        replace (q i =? j) with false by (symmetry; apply Nat.eqb_neq; lia).
        replace (i =? j) with false by (symmetry; apply Nat.eqb_neq; lia). reflexivity.
  Qed.
End PermGeneric.

(* ====================================================================== *)
(* Part 2: compiled circuits up to equality of the matrix on [0,n)        *)
(* ====================================================================== *)
Section RewriteP.
  Context {K : Type} {o : ops K} {SRK : StarRing o}.
  Notation T := (@T K).
  Notation co := (co o).
  Notation comp := (@comp K).
  Notation circ := (@circ K).
  Notation mat := (@mat T).
  Notation cstate := (@cstate K).
  Notation cadd := (cadd o).
  Notation cadd_list := (cadd_list o).

  (* same dimension and same matrix entries inside the dimension, or the same error *)
  Definition steq (s s' : res cstate) : Prop :=
    match s, s' with
    | Ok (n, U), Ok (n', U') => n = n' /\ meq n U U'
    | Err x, Err y => x = y
    | _, _ => False
    end.

  Lemma steq_refl s : steq s s.
  Proof. destruct s as [[n U]|x]; simpl; [split; [reflexivity|apply meq_refl]|reflexivity]. Qed.
  Lemma steq_sym s s' : steq s s' -> steq s' s.
  Proof.
    destruct s as [[n U]|x], s' as [[n' U']|x']; simpl; try contradiction.
    - intros [-> H]. split; [reflexivity|apply meq_sym; exact H].
    - congruence.
  Qed.
  Lemma steq_trans s1 s2 s3 : steq s1 s2 -> steq s2 s3 -> steq s1 s3.
  Proof.
    destruct s1 as [[n1 U1]|x1], s2 as [[n2 U2]|x2], s3 as [[n3 U3]|x3]; simpl; try contradiction.
    - intros [-> H1] [-> H2]. split; [reflexivity|eapply meq_trans; eassumption].
    - congruence.
  Qed.
  Lemma steq_eq s s' : s = s' -> steq s s'.
  Proof. intros ->. apply steq_refl. Qed.

  Lemma cadd_list_steq_aux e (sp : list comp) :
    Forall (fun c => forall s s', steq s s' -> steq (cadd e c s) (cadd e c s')) sp ->
    forall s s', steq s s' -> steq (cadd_list e sp s) (cadd_list e sp s').
  Proof.
    induction 1 as [|c sp Hc _ IH]; intros s s' H; [exact H|].
    rewrite !cadd_list_cons. apply IH, Hc, H.
  Qed.

  (* compiling one more component respects the equivalence *)
  Lemma cadd_steq e c : forall s s', steq s s' -> steq (cadd e c s) (cadd e c s').
  Proof.
    induction c as [m1 m2 v cv|m v|m v|ms|sw|m k V|sp m1 m2 hin hout IH] using comp_ind';
      intros s s' H.
    7:{ rewrite !cadd_group. apply cadd_list_steq_aux; assumption. }
    all: destruct s as [[n U]|x], s' as [[n' U']|x']; simpl in H; try contradiction;
      try (subst; reflexivity); destruct H as [<- HU]; simpl.
    - destruct (in01 o (t1 (getv e v))); [|reflexivity]. simpl. split; [reflexivity|].
      apply tab_mmul_compat; [apply meq_refl|exact HU].
    - split; [reflexivity|]. apply tab_mmul_compat; [apply meq_refl|exact HU].
    - destruct (in01 o (t1 (getv e v))); [|reflexivity]. simpl. split; [reflexivity|].
      apply tab_mmul_compat; [apply meq_refl|apply pad_compat; exact HU].
    - split; [reflexivity|exact HU].
    - split; [reflexivity|]. apply tab_mmul_compat; [apply meq_refl|exact HU].
    - split; [reflexivity|]. apply tab_mmul_compat; [apply meq_refl|exact HU].
  Qed.

  Lemma cadd_list_steq e sp s s' : steq s s' -> steq (cadd_list e sp s) (cadd_list e sp s').
  Proof. apply cadd_list_steq_aux. apply Forall_forall. intros c _. apply cadd_steq. Qed.

  (* the state has at least N modes *)
  Definition dim_ge (N : nat) (s : res cstate) : Prop :=
    match s with Ok (n, _) => N <= n | Err _ => True end.

  Lemma cadd_dim_ge e N c s : dim_ge N s -> dim_ge N (cadd e c s).
  Proof.
    destruct s as [[n U]|x]; [|rewrite cadd_err; trivial]. intros H. simpl in H.
    match goal with |- dim_ge _ ?t => destruct t as [[n' U']|y] eqn:E end; [|exact I].
    apply cadd_dim in E. simpl. lia.
  Qed.
  Lemma cadd_list_dim_ge e N sp s : dim_ge N s -> dim_ge N (cadd_list e sp s).
  Proof. revert s. induction sp as [|c sp IH]; intros s H; [exact H|]. rewrite cadd_list_cons. apply IH, cadd_dim_ge, H. Qed.

  (* two component lists denote the same transformation on every state with >= N modes *)
  Definition speq (e : env (K:=K)) (N : nat) (sp sp' : list comp) : Prop :=
    forall s, dim_ge N s -> steq (cadd_list e sp s) (cadd_list e sp' s).

  Lemma speq_refl e N sp : speq e N sp sp.
  Proof. intros s _. apply steq_refl. Qed.
  Lemma speq_sym e N a b : speq e N a b -> speq e N b a.
  Proof. intros H s Hs. apply steq_sym, H, Hs. Qed.
  Lemma speq_trans e N a b c : speq e N a b -> speq e N b c -> speq e N a c.
  Proof. intros H1 H2 s Hs. eapply steq_trans; [apply H1|apply H2]; exact Hs. Qed.
  Lemma speq_app_r e N a a' b : speq e N a a' -> speq e N (a ++ b) (a' ++ b).
  Proof. intros H s Hs. rewrite !cadd_list_app. apply cadd_list_steq, H, Hs. Qed.
  Lemma speq_app_l e N a b b' : speq e N b b' -> speq e N (a ++ b) (a ++ b').
  Proof. intros H s Hs. rewrite !cadd_list_app. apply H, cadd_list_dim_ge, Hs. Qed.
  Lemma speq_app e N a a' b b' : speq e N a a' -> speq e N b b' -> speq e N (a ++ b) (a' ++ b').
  Proof. intros H1 H2. eapply speq_trans; [apply speq_app_r, H1|apply speq_app_l, H2]. Qed.
  Lemma speq_cons e N c b b' : speq e N b b' -> speq e N (c :: b) (c :: b').
  Proof. apply (speq_app_l e N [c]). Qed.

  (* ---- permutations of the circuit modes [0,N), identity above ---- *)
  Definition perm_on (N : nat) (p : nat -> nat) : Prop :=
    exists q, bij N p q /\ (forall i, N <= i -> p i = i) /\ (forall i, N <= i -> q i = i).

  Lemma perm_on_bij N n p : perm_on N p -> N <= n ->
    exists q, bij n p q /\ (forall i, N <= i -> p i = i) /\ (forall i, N <= i -> q i = i).
  Proof.
    intros (q & (Hp & Hq & Hqp & Hpq) & Hpo & Hqo) Hle. exists q. split; [|split; assumption].
    repeat split; intros i Hi; destruct (le_lt_dec N i) as [Hge|Hlt].
    - rewrite Hpo by assumption. exact Hi.
    - specialize (Hp i Hlt). lia.
    - rewrite Hqo by assumption. exact Hi.
    - specialize (Hq i Hlt). lia.
    - rewrite (Hpo i Hge). apply Hqo, Hge.
    - apply Hqp, Hlt.
    - rewrite (Hqo i Hge). apply Hpo, Hge.
    - apply Hpq, Hlt.
  Qed.

  Lemma perm_on_comp N p1 p2 : perm_on N p1 -> perm_on N p2 -> perm_on N (fun i => p2 (p1 i)).
  Proof.
    intros (q1 & (Hp1 & Hq1 & Hqp1 & Hpq1) & Hpo1 & Hqo1) (q2 & (Hp2 & Hq2 & Hqp2 & Hpq2) & Hpo2 & Hqo2).
    exists (fun i => q1 (q2 i)). repeat split; intros i Hi.
    - apply Hp2, Hp1, Hi.
    - apply Hq1, Hq2, Hi.
    - rewrite Hqp2 by (apply Hp1, Hi). apply Hqp1, Hi.
    - rewrite Hpq1 by (apply Hq2, Hi). apply Hpq2, Hi.
    - rewrite (Hpo1 i Hi). apply Hpo2, Hi.
    - rewrite (Hqo2 i Hi). apply Hqo1, Hi.
  Qed.

  Lemma perm_on_ext N p p' : (forall i, p i = p' i) -> perm_on N p -> perm_on N p'.
  Proof.
    intros E (q & (Hp & Hq & Hqp & Hpq) & Hpo & Hqo). exists q.
    repeat split; intros i Hi; rewrite <- ?E; auto.
  Qed.

  Lemma perm_on_inj N p a b : perm_on N p -> p a = p b -> a = b.
  Proof.
    intros (q & (Hp & Hq & Hqp & Hpq) & Hpo & Hqo) E.
    destruct (le_lt_dec N a) as [Ha|Ha], (le_lt_dec N b) as [Hb|Hb].
    - rewrite (Hpo a Ha), (Hpo b Hb) in E. exact E.
    - rewrite (Hpo a Ha) in E. specialize (Hp b Hb). lia.
    - rewrite (Hpo b Hb) in E. specialize (Hp a Ha). lia.
    - rewrite <- (Hqp a Ha), <- (Hqp b Hb), E. reflexivity.
  Qed.

  Lemma perm_on_surj N p k : perm_on N p -> exists k', p k' = k.
  Proof.
    intros (q & (Hp & Hq & Hqp & Hpq) & Hpo & Hqo).
    destruct (le_lt_dec N k) as [Hk|Hk]; [exists k; apply Hpo, Hk|exists (q k); apply Hpq, Hk].
  Qed.

  Lemma perm_on_id N : perm_on N (fun i => i).
  Proof. exists (fun i => i). repeat split; auto. Qed.

  (* ---- swap dictionaries ---- *)
  Lemma memb_In x l : memb x l = true <-> In x l.
  Proof.
    unfold memb. rewrite existsb_exists. split.
    - intros (y & Hy & E). apply Nat.eqb_eq in E. subst. exact Hy.
    - intros H. exists x. split; [exact H|apply Nat.eqb_refl].
  Qed.
  Lemma memb_false x l : memb x l = false <-> ~ In x l.
  Proof. rewrite <- memb_In. destruct (memb x l); split; congruence. Qed.

  Lemma swap_fun_notin sw k : ~ In k (dkeys sw) -> swap_fun sw k = k.
  Proof. intros H. unfold swap_fun. apply dget_none in H. rewrite H. reflexivity. Qed.

  Lemma swap_fun_in sw k : In k (dkeys sw) -> dget sw k = Some (swap_fun sw k).
  Proof.
    intros H. unfold swap_fun. destruct (dget sw k) eqn:E; [reflexivity|].
    apply dget_none in E. contradiction.
  Qed.

  Lemma wf_swaps_perm_on N sw : wf_swaps N sw -> perm_on N (swap_fun sw).
  Proof.
    intros (Hk & Hv & Hkv & Hr). exists (swap_fun (inv_dict sw)).
    assert (Hkv' : forall k, In k (dkeys (inv_dict sw)) <-> In k (dvals (inv_dict sw))).
    { intros k. rewrite inv_dict_keys, inv_dict_vals. symmetry. apply Hkv. }
    assert (Hr' : forall k, In k (dkeys (inv_dict sw)) -> k < N).
    { intros k. rewrite inv_dict_keys. intros Hin. apply Hr, Hkv, Hin. }
    repeat split.
    - intros i Hi. apply swap_fun_range; assumption.
    - intros i Hi. apply swap_fun_range; assumption.
    - intros i _. apply swap_inv_l; assumption.
    - intros i _. replace sw with (inv_dict (inv_dict sw)) at 1.
      + apply swap_inv_l; rewrite ?inv_dict_keys, ?inv_dict_vals; try assumption.
        intros k. symmetry. apply Hkv.
      + unfold inv_dict. rewrite map_map. rewrite <- (map_id sw) at 2. apply map_ext. intros [a b]; reflexivity.
    - intros i Hi. apply swap_fun_notin. intros Hin. specialize (Hr i Hin). lia.
    - intros i Hi. apply swap_fun_notin. intros Hin. specialize (Hr' i Hin). lia.
  Qed.

  (* ---- the modes a component acts on ---- *)
  Fixpoint cmodes (c : comp) : list nat :=
    match c with
    | BS m1 m2 _ _ => [m1; m2]
    | PS m _ => [m]
    | LossC m _ => [m]
    | Barrier _ => []
    | Swaps sw => dkeys sw
    | UMat m k _ => seq m k
    | Group sp _ _ _ _ => flat_map cmodes sp
    end.

  (* what the rewrites need of a component: beam splitter modes distinct and inside the circuit,
     swap dictionaries denote permutations of [0,N) whose keys are closed under the swap,
     the components of a group act inside the span the group records *)
  Definition swaps_ok (N : nat) (sw : dict) : Prop :=
    perm_on N (swap_fun sw) /\ forall k, In k (dkeys sw) -> k < N /\ In (swap_fun sw k) (dkeys sw).

  Inductive rok (N : nat) : comp -> Prop :=
  | rok_bs m1 m2 v cv : m1 < N -> m2 < N -> m1 <> m2 -> rok N (BS m1 m2 v cv)
  | rok_ps m v : rok N (PS m v)
  | rok_loss m v : rok N (LossC m v)
  | rok_bar ms : rok N (Barrier ms)
  | rok_sw sw : swaps_ok N sw -> rok N (Swaps sw)
  | rok_u m k V : rok N (UMat m k V)
  | rok_group sp m1 m2 hin hout :
      Forall (rok N) sp -> (forall m, In m (flat_map cmodes sp) -> m1 <= m <= m2) ->
      rok N (Group sp m1 m2 hin hout).

  Lemma wf_swaps_ok N sw : wf_swaps N sw -> swaps_ok N sw.
  Proof.
    intros H. split; [apply wf_swaps_perm_on, H|]. destruct H as (Hk & Hv & Hkv & Hr).
    intros k Hin. split; [apply Hr, Hin|]. apply Hkv.
    pose proof (swap_fun_in sw k Hin) as E. apply dget_some in E.
    unfold dvals. apply in_map_iff. exists (k, swap_fun sw k). split; [reflexivity|exact E].
  Qed.

  (* ---- commutation of a swap with a component it does not touch ---- *)
  Lemma commute_step n (A P U : mat) :
    meq n (mmul co n P A) (mmul co n A P) ->
    meq n (tab co n (mmul co n A (tab co n (mmul co n P U))))
          (tab co n (mmul co n P (tab co n (mmul co n A U)))).
  Proof.
    intros H. eapply meq_trans; [apply tab2|]. apply meq_sym.
    eapply meq_trans; [apply tab2|]. apply mmul_compat; [exact H|apply meq_refl].
  Qed.

  Lemma swap_commute_list_aux e N sw (sp : list comp) :
    Forall (fun c => forall st, dim_ge N st ->
              steq (cadd e c (cadd e (Swaps sw) st)) (cadd e (Swaps sw) (cadd e c st))) sp ->
    forall st, dim_ge N st ->
      steq (cadd_list e sp (cadd e (Swaps sw) st)) (cadd e (Swaps sw) (cadd_list e sp st)).
  Proof.
    induction 1 as [|c sp Hc _ IH]; intros st Hst; [apply steq_refl|].
    rewrite !cadd_list_cons.
    eapply steq_trans; [apply cadd_list_steq, Hc, Hst|]. apply IH, cadd_dim_ge, Hst.
  Qed.

  Lemma swap_commute e N sw c :
    rok N c -> perm_on N (swap_fun sw) -> (forall m, In m (cmodes c) -> ~ In m (dkeys sw)) ->
    forall st, dim_ge N st ->
      steq (cadd e c (cadd e (Swaps sw) st)) (cadd e (Swaps sw) (cadd e c st)).
  Proof.
    intros Hok Hperm. revert Hok.
    induction c as [m1 m2 v cv|m v|m v|ms|sw2|m k V|sp m1 m2 hin hout IH] using comp_ind';
      intros Hok Hdis st Hst.
    7:{ rewrite !cadd_group. apply (swap_commute_list_aux e N); [|exact Hst].
        inversion Hok; subst. rewrite Forall_forall in *. intros x Hx. apply IH; [exact Hx|auto|].
        intros m Hm. apply Hdis. simpl. apply in_flat_map. exists x. split; assumption. }
    all: destruct st as [[n U]|x]; [|rewrite !cadd_err; reflexivity]; simpl in Hst;
      destruct (perm_on_bij N n _ Hperm Hst) as (q & Hb & Hpo & Hqo);
      assert (Hfix : forall m, In m (cmodes _) -> swap_fun sw m = m)
        by (intros m0 Hm0; apply swap_fun_notin, Hdis, Hm0).
    - (* beam splitter *)
      simpl. destruct (in01 o (t1 (getv e v))); [|reflexivity]. simpl. split; [reflexivity|].
      apply commute_step. apply (perm_commute_off n _ q (fun i => (i =? m1) || (i =? m2))); [exact Hb| |].
      + unfold bs_mat. destruct cv; apply id_off_embed2.
      + intros i Hi. apply Hfix. simpl. apply orb_true_iff in Hi as [Hi|Hi]; apply Nat.eqb_eq in Hi; auto.
    - (* phase shifter *)
      simpl. split; [reflexivity|]. apply commute_step.
      apply (perm_commute_off n _ q (fun i => i =? m)); [exact Hb|apply id_off_phase|].
      intros i Hi. apply Hfix. simpl. apply Nat.eqb_eq in Hi. auto.
    - (* loss: one more mode, fixed by the swap *)
      simpl. destruct (in01 o (t1 (getv e v))); [|reflexivity]. simpl. split; [reflexivity|].
      destruct (perm_on_bij N (S n) _ Hperm ltac:(lia)) as (q' & Hb' & _ & _).
      set (P := swaps_mat o sw). set (L := loss_mat o (S n) m (getv e v)).
      assert (HLP : meq (S n) (mmul co (S n) P L) (mmul co (S n) L P)).
      { apply (perm_commute_off (S n) _ q' (fun i => (i =? m) || (i =? S n - 1))); [exact Hb'|apply id_off_embed2|].
        intros i Hi. apply orb_true_iff in Hi as [Hi|Hi]; apply Nat.eqb_eq in Hi; subst i.
        - apply Hfix. simpl. auto.
        - apply Hpo. lia. }
      eapply meq_trans; [apply tab_spec|].
      eapply meq_trans; [apply mmul_compat; [apply meq_refl|apply (pad_perm n _ q); [exact Hb|apply Hpo; lia|apply Hqo; lia]]|].
      eapply meq_trans; [intros i j _ _; symmetry; apply mmul_assoc|].
      apply meq_sym. eapply meq_trans; [apply tab2|].
      apply mmul_compat; [exact HLP|apply meq_refl].
    - (* barrier *)
      simpl. split; [reflexivity|apply meq_refl].
    - (* another swap, on disjoint modes *)
      simpl. split; [reflexivity|]. apply commute_step.
      inversion Hok as [| | | |? [_ Hcl]| |]; subst.
      apply (perm_commute_off n _ q (fun j => memb j (dkeys sw2))); [exact Hb| |].
      + apply id_off_perm.
        * intros j Hj. apply swap_fun_notin. apply memb_false. exact Hj.
        * intros j Hj. apply memb_In. apply Hcl. apply memb_In. exact Hj.
      + intros i Hi. apply Hfix. simpl. apply memb_In. exact Hi.
    - (* unitary block *)
      simpl. split; [reflexivity|]. apply commute_step.
      apply (perm_commute_off n _ q (fun i => (m <=? i) && (i <? m + k))); [exact Hb|apply id_off_block|].
      intros i Hi. apply Hfix. simpl. apply in_seq. apply andb_true_iff in Hi as [H1 H2].
      apply Nat.leb_le in H1. apply Nat.ltb_lt in H2. lia.
  Qed.

  (* two consecutive swaps = one swap with the composed function *)
  Lemma swaps_merge e N s1 s2 s12 :
    perm_on N (swap_fun s1) -> (forall i, swap_fun s12 i = swap_fun s2 (swap_fun s1 i)) ->
    forall st, dim_ge N st ->
      steq (cadd e (Swaps s2) (cadd e (Swaps s1) st)) (cadd e (Swaps s12) st).
  Proof.
    intros Hperm Hc st Hst. destruct st as [[n U]|x]; [|reflexivity]. simpl in Hst.
    destruct (perm_on_bij N n _ Hperm Hst) as (q & Hb & _ & _).
    simpl. split; [reflexivity|]. eapply meq_trans; [apply tab2|]. apply meq_sym.
    eapply meq_trans; [apply tab_spec|]. apply mmul_compat; [|apply meq_refl].
    unfold swaps_mat. apply meq_sym. eapply meq_trans; [apply perm_mat_comp; apply Hb|].
    apply perm_mat_ext. intros i _. symmetry. apply Hc.
  Qed.

  (* ====================================================================== *)
  (* Part 3: combine_mode_swap_dicts                                        *)
  (* ====================================================================== *)
  Lemma dget_dset d k v k' : dget (dset d k v) k' = if k =? k' then Some v else dget d k'.
  Proof.
    induction d as [|[a b] d IH]; simpl.
    - destruct (k =? k'); reflexivity.
    - destruct (Nat.eqb_spec a k) as [->|Hne]; simpl.
      + destruct (k =? k'); reflexivity.
      + rewrite IH. destruct (Nat.eqb_spec a k') as [->|Hne']; [|reflexivity].
        replace (k =? k') with false by (symmetry; apply Nat.eqb_neq; congruence). reflexivity.
  Qed.

  Lemma dset_keys d k v x : In x (dkeys (dset d k v)) <-> x = k \/ In x (dkeys d).
  Proof.
    induction d as [|[a b] d IH]; simpl; [intuition|].
    destruct (Nat.eqb_spec a k) as [->|Hne]; simpl; [intuition|]. rewrite IH. intuition.
  Qed.

  Lemma dset_nodup d k v : NoDup (dkeys d) -> NoDup (dkeys (dset d k v)).
  Proof.
    induction d as [|[a b] d IH]; intros H; simpl.
    - constructor; [intros []|constructor].
    - inversion H as [|? ? Hn Hd]; subst. destruct (Nat.eqb_spec a k) as [->|Hne]; simpl.
      + constructor; assumption.
      + constructor; [|apply IH; assumption]. rewrite dset_keys. intros [E|Hin]; [congruence|contradiction].
  Qed.

  Lemma in_keys_dget d k : In k (dkeys d) <-> dget d k <> None.
  Proof.
    split.
    - intros H E. apply dget_none in E. contradiction.
    - intros H. destruct (in_dec Nat.eq_dec k (dkeys d)) as [Hin|Hn]; [exact Hin|].
      apply dget_none in Hn. contradiction.
  Qed.

  (* a loop "for k in ks: if g k is Some v: d[k] = v" *)
  Definition fold_set (g : nat -> option nat) (ks : list nat) (d0 : dict) : dict :=
    fold_left (fun d k => match g k with Some v => dset d k v | None => d end) ks d0.

  Lemma fold_set_get g ks d0 k :
    dget (fold_set g ks d0) k =
    match (if memb k ks then g k else None) with Some v => Some v | None => dget d0 k end.
  Proof.
    revert d0. induction ks as [|a ks IH]; intros d0; [reflexivity|].
    unfold fold_set in *. simpl fold_left. rewrite IH.
    unfold memb. simpl existsb. fold (memb k ks).
    destruct (Nat.eqb_spec k a) as [->|Hne]; simpl.
    - destruct (g a) as [v'|] eqn:Ga.
      + destruct (memb a ks); [reflexivity|]. rewrite dget_dset, Nat.eqb_refl. reflexivity.
      + destruct (memb a ks); reflexivity.
    - destruct (memb k ks); [destruct (g k); [reflexivity|]|];
        (destruct (g a) as [v'|];
         [rewrite dget_dset; replace (a =? k) with false by (symmetry; apply Nat.eqb_neq; congruence)|];
         reflexivity).
  Qed.

  Lemma fold_set_nodup g ks d0 : NoDup (dkeys d0) -> NoDup (dkeys (fold_set g ks d0)).
  Proof.
    revert d0. induction ks as [|a ks IH]; intros d0 H; [exact H|].
    unfold fold_set in *. simpl. apply IH. destruct (g a); [apply dset_nodup|]; exact H.
  Qed.

  Lemma fold_left_ext {A B} (f g : A -> B -> A) l a :
    (forall x y, f x y = g x y) -> fold_left f l a = fold_left g l a.
  Proof. intros H. revert a. induction l as [|b l IH]; intros a; simpl; [reflexivity|]. rewrite H. apply IH. Qed.

  Lemma find_key_spec ks v : find_key ks v = if memb v ks then Some v else None.
  Proof.
    induction ks as [|k ks IH]; [reflexivity|]. simpl. unfold memb. simpl existsb. fold (memb v ks).
    destruct (Nat.eqb_spec v k) as [->|Hne]; simpl; [reflexivity|exact IH].
  Qed.

  Definition comp_fun (s1 s2 : dict) (k : nat) : nat := swap_fun s2 (swap_fun s1 k).
  Definition added_of (s1 s2 : dict) (ks : list nat) : list nat :=
    filter (fun v => memb v (dkeys s2)) (map (swap_fun s1) ks).

  Lemma combine_phase1 s1 s2 ks new0 added0 :
    fold_left (combine_step1 s1 s2) ks (new0, added0) =
    (fold_set (fun k => Some (comp_fun s1 s2 k)) ks new0, added0 ++ added_of s1 s2 ks).
  Proof.
    revert new0 added0. induction ks as [|k ks IH]; intros new0 added0.
    - simpl. unfold added_of. simpl. rewrite app_nil_r. reflexivity.
    - change (fold_left (combine_step1 s1 s2) (k :: ks) (new0, added0))
        with (fold_left (combine_step1 s1 s2) ks (combine_step1 s1 s2 (new0, added0) k)).
      assert (Estep : combine_step1 s1 s2 (new0, added0) k =
                      (dset new0 k (comp_fun s1 s2 k), added0 ++ added_of s1 s2 [k])).
      { unfold combine_step1. rewrite find_key_spec. unfold added_of, comp_fun. simpl.
        destruct (memb (swap_fun s1 k) (dkeys s2)) eqn:E.
        - reflexivity.
        - rewrite app_nil_r. rewrite (swap_fun_notin s2 (swap_fun s1 k)) by (apply memb_false; exact E).
          reflexivity. }
      rewrite Estep, IH. unfold fold_set. simpl. f_equal. rewrite <- app_assoc. f_equal.
      unfold added_of. simpl. destruct (memb (swap_fun s1 k) (dkeys s2)); reflexivity.
  Qed.

  (* the dictionary before the final filter *)
  Definition combine_raw (s1 s2 : dict) : dict :=
    fold_set (fun k => if memb k (added_of s1 s2 (dkeys s1)) then None else Some (swap_fun s2 k)) (dkeys s2)
             (fold_set (fun k => Some (comp_fun s1 s2 k)) (dkeys s1) []).

  Definition nonfixed (kv : nat * nat) : bool := negb (Nat.eqb (fst kv) (snd kv)).

  Lemma combine_swaps_raw s1 s2 : combine_swaps s1 s2 = filter nonfixed (combine_raw s1 s2).
  Proof.
    unfold combine_swaps. rewrite combine_phase1. simpl app. unfold combine_raw, fold_set.
    f_equal. apply fold_left_ext. intros d k. unfold combine_step2.
    destruct (memb k (added_of s1 s2 (dkeys s1))); reflexivity.
  Qed.

  Lemma combine_raw_nodup s1 s2 : NoDup (dkeys (combine_raw s1 s2)).
  Proof. unfold combine_raw. apply fold_set_nodup, fold_set_nodup. constructor. Qed.

  Lemma added_in s1 s2 k :
    In k (added_of s1 s2 (dkeys s1)) <-> In k (dkeys s2) /\ exists k1, In k1 (dkeys s1) /\ swap_fun s1 k1 = k.
  Proof.
    unfold added_of. rewrite filter_In, in_map_iff, memb_In. split.
    - intros [(k1 & E & H1) H2]. split; [exact H2|]. exists k1. split; assumption.
    - intros [H2 (k1 & H1 & E)]. split; [|exact H2]. exists k1. split; assumption.
  Qed.

  Section Combine.
    Variables s1 s2 : dict.
    Hypothesis Hinj : forall a b, swap_fun s1 a = swap_fun s1 b -> a = b.

    (* a value of s1 that is not a key of s1 cannot exist (injectivity) *)
    Lemma added_is_key k : In k (added_of s1 s2 (dkeys s1)) -> In k (dkeys s1).
    Proof.
      intros H. apply added_in in H as [_ (k1 & H1 & E)].
      destruct (in_dec Nat.eq_dec k (dkeys s1)) as [Hin|Hn]; [exact Hin|exfalso].
      assert (k1 = k) by (apply Hinj; rewrite E; symmetry; apply swap_fun_notin, Hn). subst k1. contradiction.
    Qed.

    Lemma combine_raw_keys k : In k (dkeys (combine_raw s1 s2)) <-> In k (dkeys s1) \/ In k (dkeys s2).
    Proof.
      rewrite in_keys_dget. unfold combine_raw. rewrite !fold_set_get. simpl (dget [] k).
      destruct (memb k (dkeys s2)) eqn:E2; [destruct (memb k (added_of s1 s2 (dkeys s1))) eqn:Ea|].
      - apply memb_In, added_is_key in Ea. apply memb_In in Ea as Ea'. rewrite Ea'. split; [auto|discriminate].
      - split; [intros _; right; apply memb_In; exact E2|discriminate].
      - destruct (memb k (dkeys s1)) eqn:E1.
        + split; [intros _; left; apply memb_In; exact E1|discriminate].
        + split; [congruence|]. intros [H|H]; apply memb_In in H; congruence.
    Qed.

    Hypothesis Hsurj : forall k, exists k', swap_fun s1 k' = k.

    Lemma combine_raw_fun k : swap_fun (combine_raw s1 s2) k = comp_fun s1 s2 k.
    Proof.
      unfold swap_fun at 1. unfold combine_raw. rewrite !fold_set_get. simpl (dget [] k).
      destruct (memb k (dkeys s2)) eqn:E2; [destruct (memb k (added_of s1 s2 (dkeys s1))) eqn:Ea|].
      - apply memb_In, added_is_key, memb_In in Ea. rewrite Ea. reflexivity.
      - (* a key of s2 that is not the image of a key of s1 is fixed by s1 *)
        destruct (Hsurj k) as (k' & Hk').
        assert (Hfix : swap_fun s1 k = k).
        { destruct (in_dec Nat.eq_dec k' (dkeys s1)) as [Hin|Hn].
          - exfalso. apply memb_false in Ea. apply Ea. apply added_in. split; [apply memb_In; exact E2|].
            exists k'. split; assumption.
          - rewrite (swap_fun_notin _ _ Hn) in Hk'. subst k'. apply swap_fun_notin, Hn. }
        unfold comp_fun. rewrite Hfix. reflexivity.
      - destruct (memb k (dkeys s1)) eqn:E1; [reflexivity|].
        unfold comp_fun. rewrite (swap_fun_notin s1 k) by (apply memb_false; exact E1).
        symmetry. apply swap_fun_notin. apply memb_false. exact E2.
    Qed.
  End Combine.

  Lemma filter_keys_sub (f : nat * nat -> bool) (d : dict) k : In k (dkeys (filter f d)) -> In k (dkeys d).
  Proof.
    unfold dkeys. rewrite !in_map_iff. intros (kv & E & H). apply filter_In in H as [H _]. exists kv. split; assumption.
  Qed.

  Lemma swap_fun_filter d k : NoDup (dkeys d) -> swap_fun (filter nonfixed d) k = swap_fun d k.
  Proof.
    induction d as [|[a b] d IH]; intros Hnd; [reflexivity|].
    inversion Hnd as [|? ? Hn Hd]; subst. simpl filter. unfold nonfixed at 1. simpl fst. simpl snd.
    destruct (Nat.eqb_spec a b) as [->|Hab]; simpl negb; cbv iota.
    - unfold swap_fun at 2. simpl. destruct (Nat.eqb_spec b k) as [->|Hne].
      + apply swap_fun_notin. intros Hin. apply Hn. eapply filter_keys_sub, Hin.
      + apply IH, Hd.
    - unfold swap_fun. simpl. destruct (a =? k); [reflexivity|].
      apply IH, Hd.
  Qed.

  Lemma filter_keys d k :
    NoDup (dkeys d) -> (In k (dkeys (filter nonfixed d)) <-> In k (dkeys d) /\ swap_fun d k <> k).
  Proof.
    induction d as [|[a b] d IH]; intros Hnd; [simpl; intuition|].
    inversion Hnd as [|? ? Hn Hd]; subst. simpl filter. unfold nonfixed at 1. simpl fst. simpl snd.
    unfold swap_fun. simpl dget.
    destruct (Nat.eqb_spec a b) as [->|Hab]; simpl negb; cbv iota.
    - rewrite (IH Hd). simpl. destruct (Nat.eqb_spec b k) as [->|Hne].
      + split; [intros [Hin _]; contradiction|intros [_ H]; congruence].
      + unfold swap_fun. split; [intros [H1 H2]; auto|intros [[H|H] H2]; [congruence|auto]].
    - simpl. rewrite (IH Hd). destruct (Nat.eqb_spec a k) as [->|Hne].
      + split; [intros _; split; [auto|congruence]|auto].
      + unfold swap_fun. split; [intros [H|[H1 H2]]; [congruence|auto]|intros [[H|H] H2]; [congruence|auto]].
  Qed.

  (* combine s1 s2 denotes "first s1, then s2" ... *)
  Theorem combine_is_composition s1 s2 :
    (forall a b, swap_fun s1 a = swap_fun s1 b -> a = b) -> (forall k, exists k', swap_fun s1 k' = k) ->
    forall k, swap_fun (combine_swaps s1 s2) k = swap_fun s2 (swap_fun s1 k).
  Proof.
    intros Hinj Hsurj k. rewrite combine_swaps_raw, swap_fun_filter by apply combine_raw_nodup.
    apply combine_raw_fun; assumption.
  Qed.

  (* ... and drops exactly the fixed points *)
  Theorem combine_keys s1 s2 :
    (forall a b, swap_fun s1 a = swap_fun s1 b -> a = b) -> (forall k, exists k', swap_fun s1 k' = k) ->
    forall k, In k (dkeys (combine_swaps s1 s2)) <->
              (In k (dkeys s1) \/ In k (dkeys s2)) /\ swap_fun s2 (swap_fun s1 k) <> k.
  Proof.
    intros Hinj Hsurj k. rewrite combine_swaps_raw, filter_keys by apply combine_raw_nodup.
    rewrite combine_raw_keys by assumption. rewrite combine_raw_fun by assumption. reflexivity.
  Qed.

  Lemma combine_nodup s1 s2 : NoDup (dkeys (combine_swaps s1 s2)).
  Proof.
    rewrite combine_swaps_raw. pose proof (combine_raw_nodup s1 s2) as H.
    induction (combine_raw s1 s2) as [|[a b] d IH]; [constructor|].
    inversion H as [|? ? Hn Hd]; subst. simpl. destruct (nonfixed (a, b)); [|apply IH, Hd].
    simpl. constructor; [|apply IH, Hd]. intros Hin. apply Hn. eapply filter_keys_sub, Hin.
  Qed.

  Lemma combine_ok N s1 s2 : swaps_ok N s1 -> swaps_ok N s2 -> swaps_ok N (combine_swaps s1 s2).
  Proof.
    intros [Hp1 Hk1] [Hp2 Hk2].
    assert (Hinj : forall a b, swap_fun s1 a = swap_fun s1 b -> a = b) by (intros a b; apply (perm_on_inj N), Hp1).
    assert (Hsurj : forall k, exists k', swap_fun s1 k' = k) by (intros k; apply (perm_on_surj N), Hp1).
    pose proof (perm_on_comp N _ _ Hp1 Hp2) as Hc.
    split.
    - eapply perm_on_ext; [|exact Hc]. intros i. symmetry. apply combine_is_composition; assumption.
    - intros k Hin. apply (combine_keys s1 s2 Hinj Hsurj) in Hin as [Hor Hne]. split.
      + destruct Hor as [H|H]; [apply Hk1, H|apply Hk2, H].
      + rewrite combine_is_composition by assumption. apply combine_keys; try assumption.
        set (fk := swap_fun s2 (swap_fun s1 k)) in *. split.
        * destruct (in_dec Nat.eq_dec fk (dkeys s1)) as [H1|H1]; [left; exact H1|].
          destruct (in_dec Nat.eq_dec fk (dkeys s2)) as [H2|H2]; [right; exact H2|exfalso].
          apply Hne. apply (perm_on_inj N _ _ _ Hc). fold fk.
          rewrite (swap_fun_notin s1 fk H1), (swap_fun_notin s2 fk H2). reflexivity.
        * intros E. apply Hne. apply (perm_on_inj N _ _ _ Hc). exact E.
  Qed.

  (* ====================================================================== *)
  (* Part 4: compress_mode_swaps (with the N5 repair)                       *)
  (* ====================================================================== *)
  (* the entries of l (positions idx, idx+1, ...) that are not marked as merged *)
  Fixpoint live (idx : nat) (l : list comp) (skip : list nat) : list comp :=
    match l with
    | [] => []
    | c :: l' => if memb idx skip then live (S idx) l' skip else c :: live (S idx) l' skip
    end.

  Lemma live_ext l : forall idx skip skip',
    (forall x, idx <= x -> memb x skip = memb x skip') -> live idx l skip = live idx l skip'.
  Proof.
    induction l as [|c l IH]; intros idx skip skip' H; simpl; [reflexivity|].
    rewrite (H idx) by lia. rewrite (IH (S idx) skip skip') by (intros; apply H; lia). reflexivity.
  Qed.

  Lemma live_nil l idx : live idx l [] = l.
  Proof. revert idx. induction l as [|c l IH]; intros idx; simpl; [reflexivity|]. rewrite IH. reflexivity. Qed.

  Lemma memb_app x l1 l2 : memb x (l1 ++ l2) = memb x l1 || memb x l2.
  Proof. unfold memb. apply existsb_app. Qed.

  (* the inner scan only ever adds positions >= idx to to_skip *)
  Lemma compress_inner_skip : forall (rest : list comp) r idx blocked cur skip cur' skip',
    compress_inner r idx rest blocked cur skip = (cur', skip') ->
    (forall x, memb x skip = true -> memb x skip' = true) /\
    (forall x, x < idx -> memb x skip' = memb x skip).
  Proof.
    induction rest as [|c2 rest IH]; intros r idx blocked cur skip cur' skip' H.
    - simpl in H. injection H as <- <-. split; auto.
    - simpl in H. destruct (r && memb idx skip).
      + apply IH in H as [H1 H2]. split; [exact H1|]. intros x Hx. apply H2. lia.
      + destruct c2;
          try (apply IH in H as [H1 H2]; split; [exact H1|intros x Hx; apply H2; lia]).
        destruct (existsb (fun m => memb m blocked) (dkeys sw)).
        * apply IH in H as [H1 H2]. split; [exact H1|intros x Hx; apply H2; lia].
        * apply IH in H as [H1 H2]. split.
          -- intros x Hx. apply H1. rewrite memb_app, Hx. reflexivity.
          -- intros x Hx. rewrite H2 by lia. rewrite memb_app.
             replace (memb x [idx]) with false; [apply orb_false_r|].
             symmetry. unfold memb. simpl. replace (x =? idx) with false by (symmetry; apply Nat.eqb_neq; lia). reflexivity.
  Qed.

  Lemma inner_nonswap (c2 : comp) rest idx blocked cur skip :
    (forall sw, c2 <> Swaps sw) -> memb idx skip = false ->
    compress_inner true idx (c2 :: rest) blocked cur skip =
    compress_inner true (S idx) rest (blocked ++ blocked_of c2) cur skip.
  Proof.
    intros H E. simpl. rewrite E. simpl. destruct c2; try reflexivity. exfalso. eapply H. reflexivity.
  Qed.

  (* blocked_modes covers the modes of every component scanned so far *)
  Lemma cmodes_blocked N (c : comp) :
    rok N c -> (forall sw, c <> Swaps sw) -> forall m, In m (cmodes c) -> In m (blocked_of c).
  Proof.
    intros Hok Hns m Hm. destruct Hok; try exact Hm.
    - exfalso. eapply Hns. reflexivity.
    - unfold blocked_of. apply in_seq. specialize (H0 m Hm). lia.
  Qed.

  Definition Bok (N : nat) (blocked : list nat) (B : list comp) : Prop :=
    Forall (fun c => rok N c /\ forall m, In m (cmodes c) -> In m blocked) B.

  Lemma Bok_snoc N blocked B c extra :
    Bok N blocked B -> rok N c -> (forall m, In m (cmodes c) -> In m extra) ->
    Bok N (blocked ++ extra) (B ++ [c]).
  Proof.
    intros HB Hc Hm. apply Forall_app. split.
    - eapply Forall_impl; [|exact HB]. intros x [H1 H2]. split; [exact H1|].
      intros m Hin. apply in_or_app. left. apply H2, Hin.
    - constructor; [|constructor]. split; [exact Hc|]. intros m Hin. apply in_or_app. right. apply Hm, Hin.
  Qed.

  (* a swap that touches none of the modes of B can be moved in front of B *)
  Lemma commute_back e N sw (B : list comp) :
    perm_on N (swap_fun sw) ->
    Forall (fun c => rok N c /\ forall m, In m (cmodes c) -> ~ In m (dkeys sw)) B ->
    speq e N (B ++ [Swaps sw]) (Swaps sw :: B).
  Proof.
    intros Hperm. induction 1 as [|c B [Hc Hd] _ IH]; [apply speq_refl|].
    simpl app. eapply speq_trans; [apply speq_cons, IH|].
    apply (speq_app_r e N [c; Swaps sw] [Swaps sw; c] B).
    intros st Hst. apply steq_sym. apply (swap_commute e N); assumption.
  Qed.

  Lemma compress_inner_swaps_ok N : forall rest idx blocked cur skip cur' skip',
    Forall (rok N) rest -> swaps_ok N cur ->
    compress_inner true idx rest blocked cur skip = (cur', skip') -> swaps_ok N cur'.
  Proof.
    induction rest as [|c2 rest IH]; intros idx blocked cur skip cur' skip' Hrest Hcur H.
    - simpl in H. injection H as <- _. exact Hcur.
    - inversion Hrest as [|? ? Hc2 Hrest']; subst. simpl in H. destruct (memb idx skip); simpl in H.
      + eapply IH; eassumption.
      + destruct c2; try (eapply IH; eassumption).
        destruct (existsb (fun m => memb m blocked) (dkeys sw)); [eapply IH; eassumption|].
        eapply IH; [exact Hrest'| |exact H]. apply combine_ok; [exact Hcur|]. inversion Hc2; assumption.
  Qed.

  (* the inner scan: merging the unblocked later swaps into the current one preserves the transformation *)
  Lemma compress_inner_ok e N : forall rest idx blocked cur skip B cur' skip',
    Forall (rok N) rest -> swaps_ok N cur -> Bok N blocked B ->
    compress_inner true idx rest blocked cur skip = (cur', skip') ->
    speq e N (Swaps cur :: B ++ live idx rest skip) (Swaps cur' :: B ++ live idx rest skip').
  Proof.
    induction rest as [|c2 rest IH]; intros idx blocked cur skip B cur' skip' Hrest Hcur HB Hrun.
    - simpl in Hrun. injection Hrun as <- <-. apply speq_refl.
    - inversion Hrest as [|? ? Hc2 Hrest']; subst.
      destruct (memb idx skip) eqn:Eskip.
      + (* already merged into an earlier swap: skipped *)
        simpl in Hrun. rewrite Eskip in Hrun. simpl in Hrun.
        pose proof (compress_inner_skip _ _ _ _ _ _ _ _ Hrun) as [Hmono _].
        simpl live. rewrite Eskip, (Hmono idx Eskip).
        eapply IH; eassumption.
      + assert (Hcase : (exists sw2, c2 = Swaps sw2) \/ (forall sw, c2 <> Swaps sw)).
        { destruct c2; try (right; intros ? ?; discriminate). left. eexists. reflexivity. }
        (* common part for a component that stays where it is *)
        assert (Hstay : forall blocked',
                   Bok N blocked' (B ++ [c2]) ->
                   compress_inner true (S idx) rest blocked' cur skip = (cur', skip') ->
                   speq e N (Swaps cur :: B ++ live idx (c2 :: rest) skip)
                            (Swaps cur' :: B ++ live idx (c2 :: rest) skip')).
        { intros blocked' HB' Hrun'.
          pose proof (compress_inner_skip _ _ _ _ _ _ _ _ Hrun') as [_ Hlow].
          simpl live. rewrite (Hlow idx) by lia. rewrite Eskip.
          pose proof (IH _ _ _ _ _ _ _ Hrest' Hcur HB' Hrun') as Heq.
          rewrite <- !app_assoc in Heq. exact Heq. }
        destruct Hcase as [[sw2 ->]|Hns].
        * simpl in Hrun. rewrite Eskip in Hrun. simpl in Hrun.
          destruct (existsb (fun m => memb m blocked) (dkeys sw2)) eqn:Eblk.
          -- (* blocked swap *)
             apply (Hstay (blocked ++ dkeys sw2)); [|exact Hrun].
             apply Bok_snoc; [exact HB|exact Hc2|]. intros m Hm. exact Hm.
          -- (* merge: move sw2 in front of B, combine with cur *)
             assert (Hfree : forall m, In m (dkeys sw2) -> ~ In m blocked).
             { intros m Hm Hb. apply memb_In in Hb.
               assert (existsb (fun m => memb m blocked) (dkeys sw2) = true)
                 by (apply existsb_exists; exists m; split; assumption).
               congruence. }
             assert (Hok2 : swaps_ok N sw2) by (inversion Hc2; assumption).
             pose proof (compress_inner_skip _ _ _ _ _ _ _ _ Hrun) as [Hmono _].
             pose proof (IH _ _ _ _ _ _ _ Hrest' (combine_ok N _ _ Hcur Hok2) HB Hrun) as Heq.
             simpl live. rewrite Eskip.
             rewrite (Hmono idx) by (rewrite memb_app; unfold memb at 2; simpl; rewrite Nat.eqb_refl; apply orb_true_r).
             rewrite (live_ext rest (S idx) (skip ++ [idx]) skip) in Heq.
             2:{ intros x Hx. rewrite memb_app. unfold memb at 2. simpl.
                 replace (x =? idx) with false by (symmetry; apply Nat.eqb_neq; lia). apply orb_false_r. }
             eapply speq_trans; [|exact Heq].
             set (R := live (S idx) rest skip).
             (* Swaps cur :: B ++ Swaps sw2 :: R  ~  Swaps cur :: Swaps sw2 :: B ++ R  ~  Swaps comb :: B ++ R *)
             eapply speq_trans.
             { apply speq_cons. replace (B ++ Swaps sw2 :: R) with ((B ++ [Swaps sw2]) ++ R)
                 by (rewrite <- app_assoc; reflexivity).
               apply speq_app_r. apply commute_back; [apply Hok2|].
               eapply Forall_impl; [|exact HB]. intros x [H1 H2]. split; [exact H1|].
               intros m Hm Hk. apply (Hfree m Hk). apply H2, Hm. }
             apply (speq_app_r e N [Swaps cur; Swaps sw2] [Swaps (combine_swaps cur sw2)] (B ++ R)).
             intros st Hst. apply (swaps_merge e N); [apply Hcur| |exact Hst].
             destruct Hcur as [Hp _]. apply combine_is_composition.
             ++ intros a b. apply (perm_on_inj N), Hp.
             ++ intros k. apply (perm_on_surj N), Hp.
        * rewrite inner_nonswap in Hrun by assumption.
          apply (Hstay (blocked ++ blocked_of c2)); [|exact Hrun].
          apply Bok_snoc; [exact HB|exact Hc2|]. apply (cmodes_blocked N); assumption.
  Qed.

  Lemma compress_outer_ok e N : forall l i skip new,
    Forall (rok N) l -> speq e N (compress_outer true i l skip new) (new ++ live i l skip).
  Proof.
    induction l as [|c rest IH]; intros i skip new Hl.
    - simpl. rewrite app_nil_r. apply speq_refl.
    - inversion Hl as [|? ? Hc Hrest]; subst. simpl. destruct (memb i skip) eqn:E; [apply IH; assumption|].
      destruct c; try (eapply speq_trans; [apply IH; assumption|]; rewrite <- app_assoc; apply speq_refl).
      destruct (compress_inner true (S i) rest [] sw skip) as [sw' ts'] eqn:Einner.
      eapply speq_trans; [apply IH; assumption|]. rewrite <- app_assoc. apply speq_app_l. simpl.
      apply speq_sym.
      apply (compress_inner_ok e N rest (S i) [] sw skip [] sw' ts'); try assumption.
      + inversion Hc; assumption.
      + constructor.
  Qed.

  (* T1 compress_preserves (full, for the repaired function) *)
  Theorem compress_preserves e N (sp : list comp) :
    Forall (rok N) sp -> speq e N (compress_spec sp) sp.
  Proof.
    intros H. unfold compress_spec, compress_gen.
    pose proof (compress_outer_ok e N sp 0 [] [] H) as Heq. simpl in Heq. rewrite live_nil in Heq. exact Heq.
  Qed.

  (* T1 compress_len: holds for the repaired and for the pinned function *)
  Lemma compress_outer_len r : forall (l : list comp) i skip new,
    length (compress_outer r i l skip new) <= length new + length l.
  Proof.
    induction l as [|c rest IH]; intros i skip new; simpl; [lia|].
    destruct (memb i skip); [specialize (IH (S i) skip new); lia|].
    destruct c;
      try (match goal with |- context [compress_outer r (S i) rest skip (new ++ [?x])] =>
             specialize (IH (S i) skip (new ++ [x])) end; rewrite app_length in IH; simpl in IH; lia).
    destruct (compress_inner r (S i) rest [] sw skip) as [sw' ts'].
    specialize (IH (S i) ts' (new ++ [Swaps sw'])). rewrite app_length in IH. simpl in IH. lia.
  Qed.

  Theorem compress_len r (sp : list comp) : length (compress_gen r sp) <= length sp.
  Proof. unfold compress_gen. pose proof (compress_outer_len r sp 0 [] []). simpl in H. exact H. Qed.

  Lemma compress_outer_rok N : forall (l : list comp) i skip new,
    Forall (rok N) l -> Forall (rok N) new -> Forall (rok N) (compress_outer true i l skip new).
  Proof.
    induction l as [|c rest IH]; intros i skip new Hl Hnew; simpl; [exact Hnew|].
    inversion Hl as [|? ? Hc Hrest]; subst. destruct (memb i skip); [apply IH; assumption|].
    destruct c; try (apply IH; [assumption|apply Forall_app; split; [assumption|constructor; [assumption|constructor]]]).
    destruct (compress_inner true (S i) rest [] sw skip) as [sw' ts'] eqn:Einner.
    apply IH; [assumption|]. apply Forall_app. split; [assumption|]. constructor; [|constructor].
    constructor. eapply compress_inner_swaps_ok; [exact Hrest| |exact Einner]. inversion Hc; assumption.
  Qed.

  Lemma compress_rok N (sp : list comp) : Forall (rok N) sp -> Forall (rok N) (compress_spec sp).
  Proof. intros H. apply compress_outer_rok; [exact H|constructor]. Qed.

  (* ====================================================================== *)
  (* Part 5: convert_non_adj_beamsplitters                                  *)
  (* ====================================================================== *)
  Lemma dset_notin d k v : ~ In k (dkeys d) -> dset d k v = d ++ [(k, v)].
  Proof.
    induction d as [|[a b] d IH]; intros H; simpl; [reflexivity|].
    destruct (Nat.eqb_spec a k) as [->|Hne]; [exfalso; apply H; left; reflexivity|].
    rewrite IH; [reflexivity|]. intros Hin. apply H. right. exact Hin.
  Qed.

  Lemma dict_of_nodup (l : list (nat * nat)) : NoDup (map fst l) -> dict_of l = l.
  Proof.
    intros H. unfold dict_of.
    assert (G : forall l acc, NoDup (dkeys acc ++ map fst l) ->
                fold_left (fun dd kv => dset dd (fst kv) (snd kv)) l acc = acc ++ l).
    { clear. induction l as [|[a b] l IHl]; intros acc Hn; simpl; [rewrite app_nil_r; reflexivity|].
      simpl in Hn. pose proof (NoDup_remove_2 _ _ _ Hn) as Hna.
      rewrite dset_notin by (intros Hin; apply Hna; apply in_or_app; left; exact Hin).
      rewrite IHl; [rewrite <- app_assoc; reflexivity|].
      unfold dkeys. rewrite map_app. simpl. rewrite <- app_assoc. simpl. exact Hn. }
    apply (G l []). simpl. exact H.
  Qed.

  Lemma wf_swaps_mono N N' sw : N <= N' -> wf_swaps N sw -> wf_swaps N' sw.
  Proof.
    intros Hle (Hk & Hv & Hkv & Hr). repeat split; try assumption; try apply Hkv.
    intros k Hin. specialize (Hr k Hin). lia.
  Qed.

  Lemma wf_swaps_bij N sw : wf_swaps N sw -> bij N (swap_fun sw) (swap_fun (inv_dict sw)).
  Proof.
    intros (Hk & Hv & Hkv & Hr).
    assert (Hkv' : forall k, In k (dkeys (inv_dict sw)) <-> In k (dvals (inv_dict sw))).
    { intros k. rewrite inv_dict_keys, inv_dict_vals. symmetry. apply Hkv. }
    assert (Hr' : forall k, In k (dkeys (inv_dict sw)) -> k < N).
    { intros k. rewrite inv_dict_keys. intros Hin. apply Hr, Hkv, Hin. }
    repeat split.
    - intros i Hi. apply swap_fun_range; assumption.
    - intros i Hi. apply swap_fun_range; assumption.
    - intros i _. apply swap_inv_l; assumption.
    - intros i _. replace sw with (inv_dict (inv_dict sw)) at 1.
      + apply swap_inv_l; rewrite ?inv_dict_keys, ?inv_dict_vals; try assumption.
        intros k. symmetry. apply Hkv.
      + unfold inv_dict. rewrite map_map. rewrite <- (map_id sw) at 2. apply map_ext. intros [a b]; reflexivity.
  Qed.

  Lemma wf_swaps_inv N sw : wf_swaps N sw -> wf_swaps N (inv_dict sw).
  Proof.
    intros (Hk & Hv & Hkv & Hr). unfold wf_swaps. rewrite inv_dict_keys, inv_dict_vals.
    repeat split; try assumption; try apply Hkv. intros k Hin. apply Hr, Hkv, Hin.
  Qed.

  Lemma flip_dict_inv sw : NoDup (dvals sw) -> flip_dict sw = inv_dict sw.
  Proof.
    intros H. unfold flip_dict. change (map (fun kv => (snd kv, fst kv)) sw) with (inv_dict sw).
    apply dict_of_nodup. change (map fst (inv_dict sw)) with (dkeys (inv_dict sw)).
    rewrite inv_dict_keys. exact H.
  Qed.

  Lemma tab3 n (A B C U : mat) :
    meq n (tab co n (mmul co n A (tab co n (mmul co n B (tab co n (mmul co n C U))))))
          (mmul co n (mmul co n A (mmul co n B C)) U).
  Proof.
    eapply meq_trans; [apply tab_spec|].
    eapply meq_trans; [apply mmul_compat; [apply meq_refl|apply tab2]|].
    intros i j _ _. symmetry. apply mmul_assoc.
  Qed.

  (* swap . BS . unswap = the beam splitter on the pre-images of its modes,
     for either mode order and either convention *)
  Lemma conj_bs_mat N n sw a1 a2 x cv :
    wf_swaps N sw -> N <= n -> a1 < N -> a2 < N ->
    meq n (mmul co n (swaps_mat o (inv_dict sw)) (mmul co n (bs_mat o a1 a2 x cv) (swaps_mat o sw)))
          (bs_mat o (swap_fun (inv_dict sw) a1) (swap_fun (inv_dict sw) a2) x cv).
  Proof.
    intros Hwf Hle H1 H2.
    pose proof (wf_swaps_bij n sw (wf_swaps_mono N n sw Hle Hwf)) as Hb.
    unfold swaps_mat. eapply meq_trans; [apply perm_conj; exact Hb|].
    unfold bs_mat. destruct cv; apply embed2_relabel; try exact Hb; lia.
  Qed.

  Lemma conj_bs e N sw a1 a2 v cv :
    wf_swaps N sw -> a1 < N -> a2 < N ->
    speq e N [Swaps sw; BS a1 a2 v cv; Swaps (inv_dict sw)]
             [BS (swap_fun (inv_dict sw) a1) (swap_fun (inv_dict sw) a2) v cv].
  Proof.
    intros Hwf H1 H2 st Hst. destruct st as [[n U]|x]; [|reflexivity]. simpl in Hst.
    unfold Circuit.cadd_list. simpl.
    destruct (in01 o (t1 (getv e v))); [|reflexivity]. simpl. split; [reflexivity|].
    eapply meq_trans; [apply tab3|]. apply meq_sym. eapply meq_trans; [apply tab_spec|]. apply meq_sym.
    apply mmul_compat; [|apply meq_refl]. apply (conj_bs_mat N); assumption.
  Qed.

  (* ---- the dictionary built by the two loops ---- *)
  Lemma mid_bounds lo hi : lo < hi -> lo <= non_adj_mid lo hi /\ non_adj_mid lo hi < hi.
  Proof.
    intros H. unfold non_adj_mid.
    pose proof (Nat.div_mod (lo + hi - 1) 2 ltac:(lia)).
    pose proof (Nat.mod_upper_bound (lo + hi - 1) 2 ltac:(lia)). lia.
  Qed.

  Definition na_fun (lo hi i : nat) : nat :=
    let mid := non_adj_mid lo hi in
    if i <=? mid then (if i =? lo then mid else i - 1) else (if i =? hi then mid + 1 else i + 1).

  Lemma non_adj_pairs_eq lo hi :
    lo < hi -> non_adj_pairs lo hi = map (fun i => (i, na_fun lo hi i)) (seq lo (hi + 1 - lo)).
  Proof.
    intros H. destruct (mid_bounds lo hi H) as [H1 H2]. unfold non_adj_pairs.
    set (mid := non_adj_mid lo hi) in *.
    replace (hi + 1 - lo) with ((mid + 1 - lo) + (hi - mid)) by lia.
    rewrite seq_app, map_app. replace (lo + (mid + 1 - lo)) with (mid + 1) by lia.
    f_equal; apply map_ext_in; intros i Hi; apply in_seq in Hi; unfold na_fun; fold mid.
    - replace (i <=? mid) with true by (symmetry; apply Nat.leb_le; lia). reflexivity.
    - replace (i <=? mid) with false by (symmetry; apply Nat.leb_gt; lia). reflexivity.
  Qed.

  Ltac na_cases i lo hi mid :=
    destruct (Nat.leb_spec i mid); destruct (Nat.eqb_spec i lo); destruct (Nat.eqb_spec i hi).

  Lemma na_fun_range lo hi i : lo < hi -> lo <= i <= hi -> lo <= na_fun lo hi i <= hi.
  Proof.
    intros H Hi. destruct (mid_bounds lo hi H). unfold na_fun. set (mid := non_adj_mid lo hi) in *.
    na_cases i lo hi mid; lia.
  Qed.

  Lemma na_fun_inj lo hi a b :
    lo < hi -> lo <= a <= hi -> lo <= b <= hi -> na_fun lo hi a = na_fun lo hi b -> a = b.
  Proof.
    intros H Ha Hb. destruct (mid_bounds lo hi H). unfold na_fun. set (mid := non_adj_mid lo hi) in *.
    na_cases a lo hi mid; na_cases b lo hi mid; lia.
  Qed.

  Lemma na_fun_surj lo hi k : lo < hi -> lo <= k <= hi -> exists i, lo <= i <= hi /\ na_fun lo hi i = k.
  Proof.
    intros H Hk. destruct (mid_bounds lo hi H). unfold na_fun. set (mid := non_adj_mid lo hi) in *.
    destruct (Nat.eq_dec k mid) as [->|E1]; [exists lo|destruct (Nat.eq_dec k (mid + 1)) as [->|E2];
      [exists hi|destruct (le_lt_dec k mid); [exists (k + 1)|exists (k - 1)]]].
    - split; [lia|]. na_cases lo lo hi mid; lia.
    - split; [lia|]. na_cases hi lo hi mid; lia.
    - split; [lia|]. na_cases (k + 1) lo hi mid; lia.
    - split; [lia|]. na_cases (k - 1) lo hi mid; lia.
  Qed.

  Lemma NoDup_map_inj_in {A B} (f : A -> B) (l : list A) :
    (forall a b, In a l -> In b l -> f a = f b -> a = b) -> NoDup l -> NoDup (map f l).
  Proof.
    induction l as [|a l IH]; intros Hinj Hn; simpl; [constructor|].
    inversion Hn as [|? ? Hna Hnl]; subst. constructor.
    - rewrite in_map_iff. intros (b & E & Hb). assert (b = a) by (apply Hinj; simpl; auto). subst. contradiction.
    - apply IH; [|exact Hnl]. intros x y Hx Hy. apply Hinj; simpl; auto.
  Qed.

  Lemma non_adj_swaps_eq lo hi :
    lo < hi -> non_adj_swaps lo hi = map (fun i => (i, na_fun lo hi i)) (seq lo (hi + 1 - lo)).
  Proof.
    intros H. unfold non_adj_swaps. rewrite non_adj_pairs_eq by exact H.
    apply dict_of_nodup. rewrite map_map. simpl. rewrite map_id. apply seq_NoDup.
  Qed.

  Lemma non_adj_keys lo hi : lo < hi -> dkeys (non_adj_swaps lo hi) = seq lo (hi + 1 - lo).
  Proof. intros H. rewrite non_adj_swaps_eq by exact H. unfold dkeys. rewrite map_map. simpl. apply map_id. Qed.

  Lemma non_adj_vals lo hi : lo < hi -> dvals (non_adj_swaps lo hi) = map (na_fun lo hi) (seq lo (hi + 1 - lo)).
  Proof. intros H. rewrite non_adj_swaps_eq by exact H. unfold dvals. rewrite map_map. reflexivity. Qed.

  Lemma non_adj_wf N lo hi : lo < hi -> hi < N -> wf_swaps N (non_adj_swaps lo hi).
  Proof.
    intros H HN. unfold wf_swaps. rewrite non_adj_keys, non_adj_vals by exact H. repeat split.
    - apply seq_NoDup.
    - apply NoDup_map_inj_in; [|apply seq_NoDup]. intros a b Ha Hb. apply in_seq in Ha, Hb.
      apply na_fun_inj; lia.
    - intros Hk. apply in_seq in Hk. destruct (na_fun_surj lo hi k H ltac:(lia)) as (i & Hi & E).
      apply in_map_iff. exists i. split; [exact E|apply in_seq; lia].
    - intros Hk. apply in_map_iff in Hk as (i & <- & Hi). apply in_seq in Hi.
      pose proof (na_fun_range lo hi i H ltac:(lia)). apply in_seq. lia.
    - intros k Hk. apply in_seq in Hk. lia.
  Qed.

  Lemma non_adj_fun lo hi i : lo < hi -> lo <= i <= hi -> swap_fun (non_adj_swaps lo hi) i = na_fun lo hi i.
  Proof.
    intros H Hi. unfold swap_fun. rewrite (dget_in _ i (na_fun lo hi i)); [reflexivity| |].
    - rewrite non_adj_keys by exact H. apply seq_NoDup.
    - rewrite non_adj_swaps_eq by exact H. apply in_map_iff. exists i. split; [reflexivity|apply in_seq; lia].
  Qed.

  Lemma non_adj_lo lo hi : lo < hi -> swap_fun (non_adj_swaps lo hi) lo = non_adj_mid lo hi.
  Proof.
    intros H. rewrite non_adj_fun by lia. destruct (mid_bounds lo hi H). unfold na_fun.
    set (mid := non_adj_mid lo hi) in *. na_cases lo lo hi mid; lia.
  Qed.
  Lemma non_adj_hi lo hi : lo < hi -> swap_fun (non_adj_swaps lo hi) hi = non_adj_mid lo hi + 1.
  Proof.
    intros H. rewrite non_adj_fun by lia. destruct (mid_bounds lo hi H). unfold na_fun.
    set (mid := non_adj_mid lo hi) in *. na_cases hi lo hi mid; lia.
  Qed.

  (* the unswap dictionary sends mid, mid+1 back to lo, hi *)
  Lemma non_adj_back N lo hi :
    lo < hi -> hi < N ->
    swap_fun (inv_dict (non_adj_swaps lo hi)) (non_adj_mid lo hi) = lo /\
    swap_fun (inv_dict (non_adj_swaps lo hi)) (non_adj_mid lo hi + 1) = hi.
  Proof.
    intros H HN. destruct (non_adj_wf N lo hi H HN) as (Hk & Hv & Hkv & _).
    split.
    - rewrite <- (non_adj_lo lo hi H). apply swap_inv_l; assumption.
    - rewrite <- (non_adj_hi lo hi H). apply swap_inv_l; assumption.
  Qed.

  Lemma adjacent_spec m1 m2 : adjacent m1 m2 = true <-> m1 + 1 = m2 \/ m2 + 1 = m1.
  Proof. unfold adjacent. rewrite orb_true_iff, !Nat.eqb_eq. reflexivity. Qed.

  (* the three components that replace a non-adjacent beam splitter *)
  Lemma non_adj_comp_lt m1 m2 (v : val (K:=K)) cv :
    adjacent m1 m2 = false -> m1 < m2 ->
    non_adj_comp (BS m1 m2 v cv) =
    [Swaps (non_adj_swaps m1 m2); BS (non_adj_mid m1 m2) (non_adj_mid m1 m2 + 1) v cv;
     Swaps (flip_dict (non_adj_swaps m1 m2))].
  Proof.
    intros Ha Hlt. unfold non_adj_comp. rewrite Ha.
    rewrite Nat.min_l, Nat.max_r by lia.
    replace (m2 <? m1) with false by (symmetry; apply Nat.ltb_ge; lia). reflexivity.
  Qed.

  Lemma non_adj_comp_gt m1 m2 (v : val (K:=K)) cv :
    adjacent m1 m2 = false -> m2 < m1 ->
    non_adj_comp (BS m1 m2 v cv) =
    [Swaps (non_adj_swaps m2 m1); BS (non_adj_mid m2 m1 + 1) (non_adj_mid m2 m1) v cv;
     Swaps (flip_dict (non_adj_swaps m2 m1))].
  Proof.
    intros Ha Hlt. unfold non_adj_comp. rewrite Ha.
    rewrite Nat.min_r, Nat.max_l by lia.
    replace (m2 <? m1) with true by (symmetry; apply Nat.ltb_lt; lia). reflexivity.
  Qed.

  Lemma non_adj_bs e N m1 m2 v cv :
    m1 < N -> m2 < N -> m1 <> m2 -> speq e N (non_adj_comp (BS m1 m2 v cv)) [BS m1 m2 v cv].
  Proof.
    intros H1 H2 Hne. destruct (adjacent m1 m2) eqn:Ha.
    { unfold non_adj_comp. rewrite Ha. apply speq_refl. }
    destruct (lt_dec m1 m2) as [Hlt|Hge].
    - rewrite non_adj_comp_lt by assumption.
      pose proof (non_adj_wf N m1 m2 Hlt H2) as Hwf. destruct (mid_bounds m1 m2 Hlt).
      rewrite flip_dict_inv by apply Hwf.
      destruct (non_adj_back N m1 m2 Hlt H2) as [E1 E2].
      pose proof (conj_bs e N (non_adj_swaps m1 m2) (non_adj_mid m1 m2) (non_adj_mid m1 m2 + 1) v cv Hwf
                          ltac:(lia) ltac:(lia)) as Hgoal.
      rewrite E1, E2 in Hgoal. exact Hgoal.
    - assert (Hlt : m2 < m1) by lia. rewrite non_adj_comp_gt by assumption.
      pose proof (non_adj_wf N m2 m1 Hlt H1) as Hwf. destruct (mid_bounds m2 m1 Hlt).
      rewrite flip_dict_inv by apply Hwf.
      destruct (non_adj_back N m2 m1 Hlt H1) as [E1 E2].
      pose proof (conj_bs e N (non_adj_swaps m2 m1) (non_adj_mid m2 m1 + 1) (non_adj_mid m2 m1) v cv Hwf
                          ltac:(lia) ltac:(lia)) as Hgoal.
      rewrite E1, E2 in Hgoal. exact Hgoal.
  Qed.

  Lemma flat_map_speq e N (f : comp -> list comp) (sp : list comp) :
    Forall (fun c => speq e N (f c) [c]) sp -> speq e N (flat_map f sp) sp.
  Proof.
    induction 1 as [|c sp Hc _ IH]; [apply speq_refl|]. simpl.
    apply (speq_app e N (f c) [c] (flat_map f sp) sp); assumption.
  Qed.

  Lemma non_adj_comp_ok e N c : rok N c -> speq e N (non_adj_comp c) [c].
  Proof.
    induction c as [m1 m2 v cv|m v|m v|ms|sw|m k V|sp m1 m2 hin hout IH] using comp_ind';
      intros Hok; try apply speq_refl.
    - inversion Hok; subst. apply non_adj_bs; assumption.
    - inversion Hok as [| | | | | |? ? ? ? ? Hall Hspan]; subst.
      change (non_adj_comp (Group sp m1 m2 hin hout)) with [Group (flat_map non_adj_comp sp) m1 m2 hin hout].
      intros st Hst.
      change (steq (cadd e (Group (flat_map non_adj_comp sp) m1 m2 hin hout) st)
                   (cadd e (Group sp m1 m2 hin hout) st)).
      rewrite !cadd_group.
      apply (flat_map_speq e N); [|exact Hst].
      rewrite Forall_forall in *. intros x Hx. apply IH; [exact Hx|apply Hall, Hx].
  Qed.

  (* T1 non_adj_preserves (full) *)
  Theorem non_adj_preserves e N (sp : list comp) :
    Forall (rok N) sp -> speq e N (non_adj_spec sp) sp.
  Proof.
    intros H. apply flat_map_speq. eapply Forall_impl; [|exact H]. intros c. apply non_adj_comp_ok.
  Qed.

  (* T1 non_adj_post: afterwards every beam splitter, also inside groups, is on adjacent modes *)
  Inductive adj_ok : comp -> Prop :=
  | adj_bs m1 m2 v cv : m1 + 1 = m2 \/ m2 + 1 = m1 -> adj_ok (BS m1 m2 v cv)
  | adj_ps m v : adj_ok (PS m v)
  | adj_loss m v : adj_ok (LossC m v)
  | adj_bar ms : adj_ok (Barrier ms)
  | adj_sw sw : adj_ok (Swaps sw)
  | adj_u m k V : adj_ok (UMat m k V)
  | adj_group sp m1 m2 hin hout : Forall adj_ok sp -> adj_ok (Group sp m1 m2 hin hout).

  Lemma Forall_flat_map' {A B} (P : B -> Prop) (f : A -> list B) l :
    Forall (fun a => Forall P (f a)) l -> Forall P (flat_map f l).
  Proof. induction 1; simpl; [constructor|]. apply Forall_app. split; assumption. Qed.

  Lemma non_adj_comp_post c : Forall adj_ok (non_adj_comp c).
  Proof.
    induction c as [m1 m2 v cv|m v|m v|ms|sw|m k V|sp m1 m2 hin hout IH] using comp_ind'.
    2-6: repeat constructor.
    - unfold non_adj_comp. destruct (adjacent m1 m2) eqn:Ha.
      + constructor; [|constructor]. constructor. apply adjacent_spec. exact Ha.
      + destruct (m2 <? m1); repeat constructor; lia.
    - change (non_adj_comp (Group sp m1 m2 hin hout)) with [Group (flat_map non_adj_comp sp) m1 m2 hin hout].
      constructor; [|constructor]. constructor. apply Forall_flat_map'. exact IH.
  Qed.

  Theorem non_adj_post (sp : list comp) : Forall adj_ok (non_adj_spec sp).
  Proof. apply Forall_flat_map'. apply Forall_forall. intros c _. apply non_adj_comp_post. Qed.

  (* ====================================================================== *)
  (* Part 6: unpack_groups, _freeze_params, preservation of [rok]           *)
  (* ====================================================================== *)
  (* T1 unpack_preserves: literally the same compiled state *)
  Theorem unpack_cadd_list e (sp : list comp) st :
    cadd_list e (unpack_spec sp) st = cadd_list e sp st.
  Proof.
    revert st. induction sp as [|c sp IH]; intros st; [reflexivity|].
    unfold unpack_spec in *. simpl flat_map. rewrite cadd_list_app, cadd_list_cons, IH.
    f_equal. destruct c; try reflexivity. symmetry. apply cadd_group.
  Qed.

  (* groups are never nested (Circuit.add unpacks what it groups); with nesting the Python
     "while" would not terminate, so this is the guard of the postcondition *)
  Definition no_nested (sp : list comp) : Prop :=
    Forall (fun c => match c with
                     | Group g _ _ _ _ => Forall (fun x => is_group x = false) g
                     | _ => True
                     end) sp.

  Theorem unpack_no_group (sp : list comp) :
    no_nested sp -> Forall (fun c => is_group c = false) (unpack_spec sp).
  Proof.
    unfold no_nested, unpack_spec. induction 1 as [|c sp Hc _ IH]; simpl; [constructor|].
    apply Forall_app. split; [|exact IH]. destruct c; try (constructor; [reflexivity|constructor]). exact Hc.
  Qed.

  Lemma unpack_rok N (sp : list comp) : Forall (rok N) sp -> Forall (rok N) (unpack_spec sp).
  Proof.
    unfold unpack_spec. induction 1 as [|c sp Hc _ IH]; simpl; [constructor|].
    apply Forall_app. split; [|exact IH]. destruct Hc; try (constructor; [constructor; assumption|constructor]).
    assumption.
  Qed.

  (* ---- frozen copies ---- *)
  Theorem freeze_cadd e e' c : forall st, cadd e' (freeze_comp e c) st = cadd e c st.
  Proof.
    induction c as [m1 m2 v cv|m v|m v|ms|sw|m k V|sp m1 m2 hin hout IH] using comp_ind';
      intros st; try reflexivity.
    change (freeze_comp e (Group sp m1 m2 hin hout)) with (Group (map (freeze_comp e) sp) m1 m2 hin hout).
    rewrite !cadd_group. revert st. induction IH as [|c sp Hc _ IHsp]; intros st; [reflexivity|].
    simpl map. rewrite !cadd_list_cons, Hc. apply IHsp.
  Qed.

  Theorem freeze_cadd_list e e' (sp : list comp) st :
    cadd_list e' (freeze_spec e sp) st = cadd_list e sp st.
  Proof.
    revert st. induction sp as [|c sp IH]; intros st; [reflexivity|].
    unfold freeze_spec in *. simpl map. rewrite !cadd_list_cons, freeze_cadd. apply IH.
  Qed.

  Fixpoint has_ref (c : comp) : bool :=
    match c with
    | BS _ _ (Ref _) _ => true
    | PS _ (Ref _) => true
    | LossC _ (Ref _) => true
    | Group sp _ _ _ _ => existsb has_ref sp
    | _ => false
    end.

  Theorem freeze_no_ref e c : has_ref (freeze_comp e c) = false.
  Proof.
    induction c as [m1 m2 v cv|m v|m v|ms|sw|m k V|sp m1 m2 hin hout IH] using comp_ind'; try reflexivity.
    change (freeze_comp e (Group sp m1 m2 hin hout)) with (Group (map (freeze_comp e) sp) m1 m2 hin hout).
    simpl. induction IH as [|c sp Hc _ IHsp]; [reflexivity|]. simpl. rewrite Hc. exact IHsp.
  Qed.

  Lemma freeze_cmodes e c : cmodes (freeze_comp e c) = cmodes c.
  Proof.
    induction c as [m1 m2 v cv|m v|m v|ms|sw|m k V|sp m1 m2 hin hout IH] using comp_ind'; try reflexivity.
    change (freeze_comp e (Group sp m1 m2 hin hout)) with (Group (map (freeze_comp e) sp) m1 m2 hin hout).
    simpl. induction IH as [|c sp Hc _ IHsp]; [reflexivity|]. simpl. rewrite Hc. f_equal. exact IHsp.
  Qed.

  Lemma freeze_rok e N c : rok N c -> rok N (freeze_comp e c).
  Proof.
    induction c as [m1 m2 v cv|m v|m v|ms|sw|m k V|sp m1 m2 hin hout IH] using comp_ind';
      intros H; inversion H; subst; try (constructor; assumption).
    change (freeze_comp e (Group sp m1 m2 hin hout)) with (Group (map (freeze_comp e) sp) m1 m2 hin hout).
    constructor.
    - rewrite Forall_forall in *. intros y Hy. apply in_map_iff in Hy as (x & <- & Hx). apply IH; auto.
    - intros m Hm. match goal with Hs : forall m, In m (flat_map cmodes sp) -> _ |- _ => apply Hs end.
      apply in_flat_map in Hm as (y & Hy & Hm). apply in_map_iff in Hy as (x & <- & Hx).
      rewrite freeze_cmodes in Hm. apply in_flat_map. exists x. split; assumption.
  Qed.

  Lemma freeze_spec_rok e N (sp : list comp) : Forall (rok N) sp -> Forall (rok N) (freeze_spec e sp).
  Proof.
    intros H. unfold freeze_spec. rewrite Forall_forall in *. intros y Hy.
    apply in_map_iff in Hy as (x & <- & Hx). apply freeze_rok, H, Hx.
  Qed.

  (* ---- remove_non_adjacent_bs keeps [rok]: the new components stay between the old modes ---- *)
  Lemma non_adj_triple_modes N lo hi a1 a2 (v : val (K:=K)) cv m :
    lo < hi -> hi < N -> lo <= a1 <= hi -> lo <= a2 <= hi ->
    In m (flat_map cmodes [Swaps (non_adj_swaps lo hi); BS a1 a2 v cv; Swaps (flip_dict (non_adj_swaps lo hi))]) ->
    lo <= m <= hi.
  Proof.
    intros H HN H1 H2 Hm. pose proof (non_adj_wf N lo hi H HN) as Hwf.
    rewrite flip_dict_inv in Hm by apply Hwf. simpl in Hm. rewrite app_nil_r in Hm.
    rewrite inv_dict_keys in Hm.
    assert (Hk : forall x, In x (dkeys (non_adj_swaps lo hi)) -> lo <= x <= hi).
    { intros x Hx. rewrite non_adj_keys in Hx by exact H. apply in_seq in Hx. lia. }
    apply in_app_or in Hm as [Hm|[<-|[<-|Hm]]]; try lia; [apply Hk, Hm|].
    apply Hk. destruct Hwf as (_ & _ & Hkv & _). apply Hkv, Hm.
  Qed.

  Lemma non_adj_modes N c :
    rok N c -> forall m, In m (flat_map cmodes (non_adj_comp c)) ->
    exists a b, In a (cmodes c) /\ In b (cmodes c) /\ a <= m <= b.
  Proof.
    induction c as [m1 m2 v cv|m0 v|m0 v|ms|sw|m0 k V|sp m1 m2 hin hout IH] using comp_ind';
      intros Hok m Hm;
      try solve [simpl in Hm; rewrite ?app_nil_r in Hm; exists m, m; repeat split; simpl; auto; tauto].
    - inversion Hok; subst. destruct (adjacent m1 m2) eqn:Ha.
      { unfold non_adj_comp in Hm. rewrite Ha in Hm. simpl in Hm.
        exists m, m. repeat split; simpl; try tauto; lia. }
      destruct (lt_dec m1 m2) as [Hlt|Hge].
      + rewrite non_adj_comp_lt in Hm by assumption. destruct (mid_bounds m1 m2 Hlt).
        apply (non_adj_triple_modes N) in Hm; try lia.
        exists m1, m2. simpl. repeat split; auto; lia.
      + assert (Hlt : m2 < m1) by lia. rewrite non_adj_comp_gt in Hm by assumption.
        destruct (mid_bounds m2 m1 Hlt).
        apply (non_adj_triple_modes N) in Hm; try lia.
        exists m2, m1. simpl. repeat split; auto; lia.
    - inversion Hok as [| | | | | |? ? ? ? ? Hall Hspan]; subst.
      change (non_adj_comp (Group sp m1 m2 hin hout)) with [Group (flat_map non_adj_comp sp) m1 m2 hin hout] in Hm.
      simpl in Hm. rewrite app_nil_r in Hm.
      apply in_flat_map in Hm as (y & Hy & Hm). apply in_flat_map in Hy as (x & Hx & Hy).
      rewrite Forall_forall in IH, Hall.
      destruct (IH x Hx (Hall x Hx) m) as (a & b & Ha & Hb & Hab).
      { apply in_flat_map. exists y. split; assumption. }
      exists a, b. simpl. repeat split; try lia; apply in_flat_map; exists x; split; assumption.
  Qed.

  Lemma non_adj_comp_rok N c : rok N c -> Forall (rok N) (non_adj_comp c).
  Proof.
    induction c as [m1 m2 v cv|m0 v|m0 v|ms|sw|m0 k V|sp m1 m2 hin hout IH] using comp_ind';
      intros Hok; try (constructor; [exact Hok|constructor]).
    - inversion Hok; subst. destruct (adjacent m1 m2) eqn:Ha.
      { unfold non_adj_comp. rewrite Ha. constructor; [exact Hok|constructor]. }
      destruct (lt_dec m1 m2) as [Hlt|Hge].
      + rewrite non_adj_comp_lt by assumption. destruct (mid_bounds m1 m2 Hlt).
        pose proof (non_adj_wf N m1 m2 Hlt ltac:(lia)) as Hwf.
        rewrite flip_dict_inv by apply Hwf.
        constructor; [constructor; apply wf_swaps_ok, Hwf|].
        constructor; [constructor; lia|].
        constructor; [constructor; apply wf_swaps_ok, wf_swaps_inv, Hwf|constructor].
      + assert (Hlt : m2 < m1) by lia. rewrite non_adj_comp_gt by assumption. destruct (mid_bounds m2 m1 Hlt).
        pose proof (non_adj_wf N m2 m1 Hlt ltac:(lia)) as Hwf.
        rewrite flip_dict_inv by apply Hwf.
        constructor; [constructor; apply wf_swaps_ok, Hwf|].
        constructor; [constructor; lia|].
        constructor; [constructor; apply wf_swaps_ok, wf_swaps_inv, Hwf|constructor].
    - inversion Hok as [| | | | | |? ? ? ? ? Hall Hspan]; subst.
      change (non_adj_comp (Group sp m1 m2 hin hout)) with [Group (flat_map non_adj_comp sp) m1 m2 hin hout].
      constructor; [|constructor]. constructor.
      + apply Forall_flat_map'. rewrite Forall_forall in *. intros x Hx. apply IH; auto.
      + intros m Hm. apply in_flat_map in Hm as (y & Hy & Hm). apply in_flat_map in Hy as (x & Hx & Hy).
        rewrite Forall_forall in Hall.
        destruct (non_adj_modes N x (Hall x Hx) m) as (a & b & Ha & Hb & Hab).
        { apply in_flat_map. exists y. split; assumption. }
        assert (m1 <= a <= m2) by (apply Hspan, in_flat_map; exists x; split; assumption).
        assert (m1 <= b <= m2) by (apply Hspan, in_flat_map; exists x; split; assumption). lia.
  Qed.

  Lemma non_adj_rok N (sp : list comp) : Forall (rok N) sp -> Forall (rok N) (non_adj_spec sp).
  Proof.
    intros H. apply Forall_flat_map'. eapply Forall_impl; [|exact H]. intros c. apply non_adj_comp_rok.
  Qed.

  (* what Circuit.bs / mode_swaps / ... record (CompileP.wf) satisfies [rok] as soon as the
     components of every group lie inside the group's span *)
  Inductive span_ok : comp -> Prop :=
  | span_group sp m1 m2 hin hout :
      Forall span_ok sp -> (forall m, In m (flat_map cmodes sp) -> m1 <= m <= m2) ->
      span_ok (Group sp m1 m2 hin hout)
  | span_bs m1 m2 v cv : span_ok (BS m1 m2 v cv)
  | span_ps m v : span_ok (PS m v)
  | span_loss m v : span_ok (LossC m v)
  | span_bar ms : span_ok (Barrier ms)
  | span_sw sw : span_ok (Swaps sw)
  | span_u m k V : span_ok (UMat m k V).

  Lemma wf_rok e N c : wf (o:=o) e N c -> span_ok c -> rok N c.
  Proof.
    induction c as [m1 m2 v cv|m0 v|m0 v|ms|sw|m0 k V|sp m1 m2 hin hout IH] using comp_ind';
      intros Hwf Hsp; inversion Hwf; subst; try (constructor; assumption).
    - constructor. apply wf_swaps_ok. assumption.
    - inversion Hsp; subst. constructor; [|assumption].
      rewrite Forall_forall in *. intros x Hx. apply IH; auto.
  Qed.

  (* ====================================================================== *)
  (* Part 7: the Circuit-level rewrites, singly and in any sequence          *)
  (* ====================================================================== *)
  Inductive rw : Type := RUnpack | RCompress | RNonAdj | RCopy | RFreeze.

  Definition apply_rw (e : env (K:=K)) (r : rw) (c : circ) : circ :=
    match r with
    | RUnpack => unpack_groups c
    | RCompress => compress_circ c
    | RNonAdj => non_adj_circ c
    | RCopy => copy_circ c
    | RFreeze => copy_frozen e c
    end.

  Definition circ_ok (c : circ) : Prop := Forall (rok (c_n c)) (c_spec c).

  (* n_modes, heralds, input size unchanged; same compile outcome and same U_full *)
  Definition same_circ (e : env (K:=K)) (c c' : circ) : Prop :=
    c_n c' = c_n c /\ c_in c' = c_in c /\ c_out c' = c_out c /\ input_modes c' = input_modes c /\
    steq (build o e c') (build o e c).

  Lemma build_steq e (c c' : circ) :
    c_n c' = c_n c -> speq e (c_n c) (c_spec c') (c_spec c) -> steq (build o e c') (build o e c).
  Proof.
    intros Hn H. unfold build. rewrite Hn.
    specialize (H (Ok (c_n c, mid co)) (le_n _)).
    destruct (cadd_list e (c_spec c') (Ok (c_n c, mid co))) as [[n1 U1]|x1],
             (cadd_list e (c_spec c) (Ok (c_n c, mid co))) as [[n2 U2]|x2]; simpl in *; try contradiction; auto.
  Qed.

  Theorem rewrite_preserves e r c :
    circ_ok c -> same_circ e c (apply_rw e r c) /\ circ_ok (apply_rw e r c).
  Proof.
    intros Hok. unfold same_circ, circ_ok. destruct r; simpl.
    - (* unpack_groups *)
      repeat split; try reflexivity; [|apply unpack_rok, Hok].
      apply build_steq; [reflexivity|]. intros st _. simpl. rewrite unpack_cadd_list. apply steq_refl.
    - repeat split; try reflexivity; [|apply compress_rok, Hok].
      apply build_steq; [reflexivity|]. apply compress_preserves, Hok.
    - repeat split; try reflexivity; [|apply non_adj_rok, Hok].
      apply build_steq; [reflexivity|]. apply non_adj_preserves, Hok.
    - repeat split; try reflexivity; [apply steq_refl|exact Hok].
    - repeat split; try reflexivity; [|apply freeze_spec_rok, Hok].
      apply build_steq; [reflexivity|]. intros st _. simpl. rewrite freeze_cadd_list. apply steq_refl.
  Qed.

  Theorem rewrites_preserve e (rs : list rw) : forall c,
    circ_ok c -> same_circ e c (fold_left (fun c r => apply_rw e r c) rs c) /\
                 circ_ok (fold_left (fun c r => apply_rw e r c) rs c).
  Proof.
    induction rs as [|r rs IH]; intros c Hok; simpl.
    - split; [|exact Hok]. repeat split; try reflexivity. apply steq_refl.
    - destruct (rewrite_preserves e r c Hok) as [(H1 & H2 & H3 & H4 & H5) Hok'].
      destruct (IH _ Hok') as [(G1 & G2 & G3 & G4 & G5) Hok'']. split; [|exact Hok''].
      repeat split; try congruence. eapply steq_trans; eassumption.
  Qed.

  (* a frozen copy does not depend on later parameter values *)
  Theorem frozen_constant e e' c : build o e' (copy_frozen e c) = build o e c.
  Proof. unfold build, copy_frozen. simpl. rewrite freeze_cadd_list. reflexivity. Qed.

  (* ---- the pinned compress_mode_swaps (finding N5) is wrong ---- *)
  (* where a photon entering mode i leaves, following only the mode swaps *)
  Definition net_perm (sp : list comp) (i : nat) : nat :=
    fold_left (fun x c => match c with Swaps sw => swap_fun sw x | _ => x end) sp i.

  Definition n5_witness (v : val (K:=K)) : list comp :=
    [Swaps [(0, 1); (1, 0)]; PS 2 v; Swaps [(2, 3); (3, 2)]; Swaps [(0, 1); (1, 0)]].

  Theorem compress_pinned_refuted v :
    net_perm (n5_witness v) 0 = 0 /\ net_perm (compress_pinned (n5_witness v)) 0 = 1 /\
    net_perm (compress_spec (n5_witness v)) 0 = 0.
  Proof. repeat split; reflexivity. Qed.

  (* ---- a spec that satisfies the hypotheses and on which every rewrite does something ---- *)
  Lemma wf_swaps_transp N a b : a < N -> b < N -> a <> b -> wf_swaps N [(a, b); (b, a)].
  Proof.
    intros Ha Hb Hne. unfold wf_swaps. simpl. repeat split.
    - constructor; [simpl; intuition|]. constructor; [simpl; intuition|constructor].
    - constructor; [simpl; intuition|]. constructor; [simpl; intuition|constructor].
    - intuition.
    - intuition.
    - intros k [<-|[<-|[]]]; assumption.
  Qed.

  Definition example_spec (v : val (K:=K)) : list comp :=
    [Swaps [(0, 1); (1, 0)]; PS 2 v; BS 0 3 v Rx;
     Group [BS 3 1 v Hv; Swaps [(1, 2); (2, 1)]] 1 3 [] [];
     Swaps [(2, 3); (3, 2)]; Swaps [(0, 1); (1, 0)]].

  Lemma example_rok v : Forall (rok 4) (example_spec v).
  Proof.
    unfold example_spec.
    assert (Hs : forall a b, a < 4 -> b < 4 -> a <> b -> rok 4 (Swaps (K:=K) [(a, b); (b, a)])).
    { intros a b Ha Hb Hne. constructor. apply wf_swaps_ok, wf_swaps_transp; assumption. }
    constructor; [apply Hs; lia|].
    constructor; [constructor|].
    constructor; [constructor; lia|].
    constructor.
    { constructor.
      - constructor; [constructor; lia|]. constructor; [apply Hs; lia|constructor].
      - simpl. intros m Hm. intuition lia. }
    constructor; [apply Hs; lia|].
    constructor; [apply Hs; lia|constructor].
  Qed.

  Lemma example_effects v :
    length (compress_spec (example_spec v)) = 5 /\ length (non_adj_spec (example_spec v)) = 8 /\
    length (unpack_spec (example_spec v)) = 7 /\ no_nested (example_spec v).
  Proof. repeat split; try reflexivity. unfold no_nested, example_spec. repeat constructor. Qed.

  (* ---- packaged statements for Properties/C09.v ---- *)
  Theorem freeze_closed e e' (c : circ) :
    Forall (fun x => has_ref x = false) (c_spec (copy_frozen e c)) /\
    build o e' (copy_frozen e c) = build o e c.
  Proof.
    split; [|apply frozen_constant]. unfold copy_frozen, freeze_spec. simpl.
    apply Forall_forall. intros x Hx. apply in_map_iff in Hx as (y & <- & _). apply freeze_no_ref.
  Qed.

  Theorem non_adj_dictionary N lo hi :
    lo < hi -> hi < N ->
    wf_swaps N (non_adj_swaps lo hi) /\
    swap_fun (non_adj_swaps lo hi) lo = non_adj_mid lo hi /\
    swap_fun (non_adj_swaps lo hi) hi = non_adj_mid lo hi + 1 /\
    flip_dict (non_adj_swaps lo hi) = inv_dict (non_adj_swaps lo hi).
  Proof.
    intros H HN. pose proof (non_adj_wf N lo hi H HN) as Hwf.
    repeat split; try apply Hwf; [apply non_adj_lo, H|apply non_adj_hi, H|apply flip_dict_inv, Hwf].
  Qed.

  Theorem complete_is_bijection N sw :
    wf_swaps N sw ->
    (forall a b, swap_fun sw a = swap_fun sw b -> a = b) /\ (forall k, exists k', swap_fun sw k' = k).
  Proof.
    intros H. pose proof (wf_swaps_perm_on N sw H) as Hp. split.
    - intros a b. apply (perm_on_inj N), Hp.
    - intros k. apply (perm_on_surj N), Hp.
  Qed.

  (* ---- N5 at the level of U_full: the pinned function changes the compiled matrix ---- *)
  Let RK := sr_ring (o:=o).
  Add Ring Kr9 : RK.

  Lemma n5_witness_rok v : Forall (rok 4) (n5_witness v).
  Proof.
    assert (Hs : forall a b, a < 4 -> b < 4 -> a <> b -> rok 4 (Swaps (K:=K) [(a, b); (b, a)])).
    { intros a b Ha Hb Hne. constructor. apply wf_swaps_ok, wf_swaps_transp; assumption. }
    unfold n5_witness. constructor; [apply Hs; lia|]. constructor; [constructor|].
    constructor; [apply Hs; lia|]. constructor; [apply Hs; lia|constructor].
  Qed.

  Theorem compress_pinned_changes_U (e : env (K:=K)) (x : triple (K:=K)) :
    k1 o <> k0 o ->
    ~ steq (cadd_list e (compress_pinned (n5_witness (Lit x))) (Ok (4, mid co)))
           (cadd_list e (n5_witness (Lit x)) (Ok (4, mid co))).
  Proof.
    intros Hne H. apply Hne.
    assert (E : compress_pinned (n5_witness (Lit x)) =
                [Swaps []; PS 2 (Lit x); Swaps [(2, 3); (3, 2); (0, 1); (1, 0)]]) by reflexivity.
    rewrite E in H. clear E.
    cbv [Circuit.cadd_list fold_left n5_witness Circuit.cadd mul_in snd fst] in H.
    destruct H as [_ H]. specialize (H 1 0 ltac:(lia) ltac:(lia)).
    cbv in H. injection H as H1 _.
    fold (kadd o) (kmul o) (ksub o) (kopp o) (k0 o) (k1 o) in H1.
    ring_simplify in H1. exact H1.
  Qed.

  (* ---- groups stay un-nested under every rewrite, so "no Group remains" holds for an
     unpack_groups at the end of any sequence of rewrites ---- *)
  Definition nn (c : comp) : Prop :=
    match c with
    | Group g _ _ _ _ => Forall (fun x => is_group x = false) g
    | _ => True
    end.

  Lemma no_nested_nn (sp : list comp) : no_nested sp <-> Forall nn sp.
  Proof. reflexivity. Qed.

  Lemma compress_outer_forall (P : comp -> Prop) r :
    (forall sw, P (Swaps sw)) -> forall l i skip new,
    Forall P l -> Forall P new -> Forall P (compress_outer r i l skip new).
  Proof.
    intros HP. induction l as [|c rest IH]; intros i skip new Hl Hnew; simpl; [exact Hnew|].
    inversion Hl as [|? ? Hc Hrest]; subst. destruct (memb i skip); [apply IH; assumption|].
    destruct c; try (apply IH; [assumption|apply Forall_app; split; [assumption|constructor; [assumption|constructor]]]).
    destruct (compress_inner r (S i) rest [] sw skip) as [sw' ts'].
    apply IH; [assumption|]. apply Forall_app. split; [assumption|]. constructor; [apply HP|constructor].
  Qed.

  Lemma non_adj_comp_nogroup (c : comp) :
    is_group c = false -> Forall (fun x => is_group x = false) (non_adj_comp c).
  Proof.
    destruct c; intros H; try discriminate; try (constructor; [reflexivity|constructor]).
    unfold non_adj_comp. destruct (adjacent m1 m2); [constructor; [reflexivity|constructor]|].
    destruct (m2 <? m1); repeat constructor.
  Qed.

  Lemma non_adj_comp_nn (c : comp) : nn c -> Forall nn (non_adj_comp c).
  Proof.
    destruct c; intros H; try (constructor; [exact I|constructor]).
    - unfold non_adj_comp. destruct (adjacent m1 m2); [constructor; [exact I|constructor]|].
      destruct (m2 <? m1); repeat constructor.
    - change (non_adj_comp (Group sp m1 m2 hin hout)) with [Group (flat_map non_adj_comp sp) m1 m2 hin hout].
      constructor; [|constructor]. simpl. apply Forall_flat_map'. simpl in H.
      eapply Forall_impl; [|exact H]. intros x. apply non_adj_comp_nogroup.
  Qed.

  Lemma freeze_is_group e (c : comp) : is_group (freeze_comp e c) = is_group c.
  Proof. destruct c; reflexivity. Qed.

  Lemma freeze_nn e c : nn c -> nn (freeze_comp e c).
  Proof.
    destruct c; intros H; try exact I.
    change (freeze_comp e (Group sp m1 m2 hin hout)) with (Group (map (freeze_comp e) sp) m1 m2 hin hout).
    simpl in *. rewrite Forall_forall in *. intros y Hy. apply in_map_iff in Hy as (x & <- & Hx).
    rewrite freeze_is_group. apply H, Hx.
  Qed.

  Lemma rewrite_no_nested e r (c : circ) : no_nested (c_spec c) -> no_nested (c_spec (apply_rw e r c)).
  Proof.
    intros H. destruct r; simpl.
    - (* unpack: nothing left to nest *)
      pose proof (unpack_no_group _ H) as Hn. unfold no_nested.
      eapply Forall_impl; [|exact Hn]. intros x Hx. destruct x; try exact I. discriminate.
    - apply compress_outer_forall; [intros; exact I|exact H|constructor].
    - apply Forall_flat_map'. eapply Forall_impl; [|exact H]. intros x. apply non_adj_comp_nn.
    - exact H.
    - unfold freeze_spec, no_nested in *. rewrite Forall_forall in *. intros y Hy.
      apply in_map_iff in Hy as (x & <- & Hx). apply freeze_nn, H, Hx.
  Qed.

  Theorem rewrites_then_unpack_no_group e (rs : list rw) : forall (c : circ),
    no_nested (c_spec c) ->
    Forall (fun x => is_group x = false)
           (c_spec (unpack_groups (fold_left (fun c r => apply_rw e r c) rs c))).
  Proof.
    induction rs as [|r rs IH]; intros c H; simpl fold_left.
    - apply unpack_no_group, H.
    - apply IH. apply rewrite_no_nested, H.
  Qed.
End RewriteP.
