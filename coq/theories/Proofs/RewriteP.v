(* Lemmas about the circuit rewrites (property C09). *)
From Coq Require Import ZArith List Bool Arith Lia Ring_theory Ring Permutation.
From LW Require Import Base.Sx Base.Num Base.Sums Base.Mat Base.Embed Model.Circuit Model.World
     Model.Rewrite Proofs.CompileP.
Import ListNotations.

Section RewriteP.
  Context {K : Type} {o : ops K} {SRK : StarRing o}.
  Notation comp := (@comp K).
  Notation circ := (@circ K).

  Lemma unpack_cadd_list e (sp : list comp) st :
    cadd_list o e (unpack_spec sp) st = cadd_list o e sp st.
  Proof.
    revert st. induction sp as [|c sp IH]; intros st; [reflexivity|].
    unfold unpack_spec in *. simpl flat_map. rewrite cadd_list_app, cadd_list_cons, IH.
    f_equal. destruct c; try reflexivity. symmetry. apply cadd_group.
  Qed.
End RewriteP.
