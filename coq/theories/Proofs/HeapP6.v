(* Reference-level heap model: Circuit.add establishes [upd_post]. *)
From Coq Require Import ZArith List Bool Arith Lia PArith FMapPositive.
From LW Require Import Base.Sx Base.Num Base.Sums Base.Mat Model.Circuit Model.World Model.Rewrite Model.Heap
     Proofs.WorldP Proofs.HeapP Proofs.HeapP2 Proofs.HeapFlat Proofs.HeapP3 Proofs.HeapP4.
From LW Require Import Proofs.HeapP5.
Import ListNotations.

Section HeapP6.
  Context {K : Type} (o : ops K).
  Notation heap := (@heap K).
  Notation cell := (@cell K).
  Notation hcomp := (@hcomp K).
  Notation comp := (@comp K).
  Notation circ := (@circ K).

  (* ---------------- Circuit.add of the functional model, with its loops named ---------------- *)
  Definition fpass (m : nat) (acc : circ * list comp) (i : nat) : circ * list comp :=
    let '(w, sp) := acc in
    let target := fold_left (fun t hm => if (Z.of_nat hm <? t)%Z then (t + 1)%Z else t)
                            (sort_nat (dkeys (c_in w))) (Z.of_nat i - Z.of_nat m)%Z in
    if ((0 <=? target) && (target <? Z.of_nat (c_n w)))%Z
    then add_empty_mode o w sp (Z.to_nat target) else (w, sp).
  Definition fanc (m : nat) (p : circ) (hm : nat) : circ :=
    let '(p', sp') := add_empty_mode o p (c_spec p) (m + hm) in
    mkCirc (c_n p') sp' (c_in p') (c_out p') (c_xin p') (c_xout p') (c_int p' ++ [m + hm]).
  Definition fher (m : nat) (p : circ) (kv : nat * nat) : circ :=
    mkCirc (c_n p) (c_spec p) (dset (c_in p) (fst kv + m) (snd kv))
           (dset (c_out p) (fst kv + m) (snd kv)) (c_xin p) (c_xout p) (c_int p).

  Definition add_swaps (w : circ) : dict :=
    complete_swaps (c_n w) 0 (dict_of (combine (dkeys (c_out w)) (dkeys (c_in w)))) 0 [].
  Definition add_sp0 (w : circ) : list comp :=
    if list_eqb (dkeys (add_swaps w)) (dvals (add_swaps w)) then c_spec w else c_spec w ++ [Swaps (add_swaps w)].
  Definition add_w1 (w : circ) : circ :=
    mkCirc (c_n w) (c_spec w) (c_in w) (c_in w) (c_xin w) (c_xin w) (c_int w).

  Definition add_body (c w : circ) (m : nat) (group : bool) : res circ :=
    let '(w2, sp) := fold_left (fpass m) (sort_nat (c_int c)) (add_w1 w, add_sp0 w) in
    let c' := fold_left (fanc m) (sort_nat (dkeys (c_in w2))) c in
    let c'' := fold_left (fher m) (c_in w2) c' in
    let add_cs := shift_spec m sp in
    if group
    then Ok (app_spec c'' [Group add_cs m (m + c_n w2 - 1) (c_in w2) (c_in w2)])
    else Ok (app_spec c'' add_cs).

  Lemma op_add_unfold (cf sf : circ) mode g :
    op_add o cf sf mode g =
    match mode_ok cf (map_mode (c_int cf) mode) with
    | Err x => Err x
    | Ok m =>
        let grp := g || negb (length (c_in sf) =? 0) in
        let w := if grp then unpack_groups sf else sf in
        if (c_n cf - m - length (filter (fun i => m <=? i) (c_int cf))) <? (c_n w - length (c_in w))
        then Err ModeRangeError else add_body cf w m grp
    end.
  Proof.
    unfold op_add. destruct (mode_ok cf (map_mode (c_int cf) mode)) as [m|x]; [|reflexivity]. cbn [bind].
    unfold copy_circ. cbv zeta. cbn [unpack_groups c_in].
    destruct (g || negb (length (c_in sf) =? 0)); reflexivity.
  Qed.

  Definition book (h : heap) (w : hcirc) : nat * dict * dict * dict * dict * list nat :=
    (hc_n w, rd_dict h (hc_in w), rd_dict h (hc_out w), rd_dict h (hc_xin w), rd_dict h (hc_xout w), rd_nats h (hc_int w)).
  Definition bookf (wf : circ) : nat * dict * dict * dict * dict * list nat :=
    (c_n wf, c_in wf, c_out wf, c_xin wf, c_xout wf, c_int wf).
  Lemma book_abs (h : heap) w : book h w = bookf (abs_circ h w).
  Proof. reflexivity. Qed.
  Lemma book_stable (h h' : heap) w : agree h h' -> cwf h w -> book h' w = book h w.
  Proof.
    intros Ag Hc. destruct (cwf_fields h w Hc) as (L1 & L2 & L3 & L4 & L5 & L6). unfold book.
    rewrite !(rd_dict_agree h h' _ Ag), (rd_nats_agree h h' _ Ag) by assumption. reflexivity.
  Qed.

  Section Add.
    Variables (p : hpool) (h0 : heap) (id : nat) (c : hcirc) (sid : nat) (s : hcirc).
    Hypothesis I : inv (mkHW p h0).
    Hypothesis Hin : In (id, c) p.
    Hypothesis Hsin : In (sid, s) p.

    Let Hw0 : hwf h0 := inv_hwf _ I.

    Lemma owned_lt a : owned p a -> a <p h_next h0.
    Proof. apply (owned_below _ a I). Qed.

    (* ---------------- the pass-through loop (work copy w, local list sp) ---------------- *)
    Definition wrel (hh : heap) (w : hcirc) (sp : list addr) (wf : circ) (spf : list comp) : Prop :=
      hframe [] h0 hh /\ hwf hh /\ cwf hh w /\ below hh sp /\
      book hh w = bookf wf /\ abs_list hh sp = spf /\
      (forall a, In a (spec_cells hh sp) -> ~ owned p a).

    Lemma pass_step m (acc : heap * hcirc * list addr) (accf : circ * list comp) i :
      wrel (fst (fst acc)) (snd (fst acc)) (snd acc) (fst accf) (snd accf) ->
      wrel (fst (fst (h_pass_step o m acc i))) (snd (fst (h_pass_step o m acc i))) (snd (h_pass_step o m acc i))
           (fst (fpass m accf i)) (snd (fpass m accf i)).
    Proof.
      destruct acc as [[hh w] sp]. destruct accf as [wf spf]. cbn [fst snd].
      intros (Fr & Hw & Hc & Hl & Bk & Al & Fz).
      unfold h_pass_step, fpass. unfold book, bookf in Bk. injection Bk as B1 B2 B3 B4 B5 B6.
      rewrite B1, B2.
      destruct ((0 <=? _) && _)%Z.
      2:{ cbn [fst snd]. split; [exact Fr|]. split; [exact Hw|]. split; [exact Hc|]. split; [exact Hl|].
          split; [unfold book, bookf; congruence|]. split; [exact Al|exact Fz]. }
      set (t := Z.to_nat _).
      destruct (h_add_empty_mode o hh w sp t) as [[hh' w'] sp'] eqn:E.
      destruct (h_add_empty_mode_post o hh w sp t hh' w' sp' Hw Hc Hl E)
        as (P1 & P2 & P3 & P4 & P5 & P6 & P7 & P8 & P9 & P10 & P11 & P12 & P13 & P14 & P15).
      cbn [fst snd add_empty_mode].
      split; [eapply hframe_trans; eassumption|]. split; [exact P2|]. split; [exact P3|]. split; [exact P4|].
      split; [unfold book, bookf; cbn [c_n c_in c_out c_xin c_xout c_int]; congruence|].
      split; [rewrite P5, Al; reflexivity|].
      intros a Ha Ho. destruct (proj1 (P13 a Ha)) as [H|H].
      - pose proof (owned_lt a Ho). destruct Fr as (Fr & _). lia.
      - exact (Fz a H Ho).
    Qed.

    (* ---------------- the loop that opens new ancilla modes in the parent ---------------- *)
    Definition prel (h7 hh : heap) (pp : hcirc) (pf : circ) : Prop :=
      hframe [] h7 hh /\ hwf hh /\ cwf hh pp /\ sep_circ pp /\ abs_circ hh pp = pf /\
      (pp = c \/ (Forall (fun a => h_next h7 <=p a) (priv pp) /\ NoDup (priv pp))) /\
      (forall a, In a (spec_cells hh (rd_list hh (hc_spec pp))) -> ~ owned p a /\ ~ In a (priv pp)) /\
      (* every entry of the parent's list is one it had before the call, or a cell made by the call *)
      (forall a, In a (rd_list hh (hc_spec pp)) -> In a (rd_list h0 (hc_spec c)) \/ h_next h0 <=p a).

    Lemma anc_step h7 m (acc : heap * hcirc) (pf : circ) hm :
      h_next h0 <=p h_next h7 ->
      prel h7 (fst acc) (snd acc) pf ->
      prel h7 (fst (h_anc_step o m acc hm)) (snd (h_anc_step o m acc hm)) (fanc m pf hm) /\
      (Forall (fun a => h_next h7 <=p a) (priv (snd (h_anc_step o m acc hm))) /\ NoDup (priv (snd (h_anc_step o m acc hm)))).
    Proof.
      destruct acc as [hh pp]. cbn [fst snd]. intros Hh7 (Fr & Hw & Hc & Hs & Ab & _ & Fz & _).
      unfold h_anc_step.
      destruct (h_add_empty_mode o hh pp (rd_list hh (hc_spec pp)) (m + hm)) as [[hh1 p'] sp'] eqn:E.
      destruct (h_add_empty_mode_post o hh pp _ (m + hm) hh1 p' sp' Hw Hc (rd_list_below hh _ Hw) E)
        as (P1 & P2 & P3 & P4 & P5 & P6 & P7 & P8 & P9 & P10 & P11 & P12 & P13 & P14 & P15).
      destruct P15 as (O1 & O2 & O3 & O4 & O5 & O6).
      destruct (halloc hh1 (CList sp')) as [hh2 spa] eqn:E2.
      destruct (halloc_inv _ _ _ _ [] hh E2 P2 P4 P1) as (-> & N2 & W2 & F2 & G2 & S2).
      cbn [fst snd].
      set (hh3 := h_nappend hh2 (hc_int p') (m + hm)).
      assert (N3 : h_next hh3 = h_next hh2) by reflexivity.
      assert (G3 : forall b, b <> hc_int p' -> hget hh3 b = hget hh2 b).
      { intros b Hb. unfold hh3, h_nappend. rewrite hget_write. destruct (Pos.eqb_spec b (hc_int p')); [contradiction|reflexivity]. }
      assert (Rint2 : rd_nats hh2 (hc_int p') = rd_nats hh1 (hc_int p')).
      { unfold rd_nats. rewrite (hget_frame hh1 hh2 _ S2) by lia. reflexivity. }
      assert (Gint : hget hh3 (hc_int p') = Some (CNats (map (bump (m + hm)) (rd_nats hh (hc_int pp)) ++ [m + hm]))).
      { unfold hh3, h_nappend. rewrite hget_write, Pos.eqb_refl, Rint2, P12. reflexivity. }
      assert (W3 : hwf hh3).
      { unfold hh3, h_nappend. apply hwf_write; [exact W2|lia|apply Forall_nil]. }
      assert (F3 : hframe [] hh hh3).
      { unfold hh3, h_nappend. apply hframe_write; [exact F2|left; lia]. }
      assert (Old : forall b, b <p hc_in p' -> hget hh3 b = hget hh1 b).
      { intros b Hb. rewrite G3 by lia. apply (hget_frame hh1 hh2 _ S2). lia. }
      assert (Cells : forall b, In b (spec_cells hh1 sp') -> hget hh3 b = hget hh1 b).
      { intros b Hb. apply Old. exact (proj2 (P13 b Hb)). }
      destruct (abs_list_cells hh1 hh3 sp' Cells) as (A1 & A2).
      assert (Rsp : rd_list hh3 (h_next hh1) = sp').
      { unfold rd_list. rewrite G3 by lia. rewrite G2. reflexivity. }
      assert (Rd : forall x, h_next hh <=p x -> x <p hc_int p' -> rd_dict hh3 x = rd_dict hh1 x).
      { intros x H1 H2. unfold rd_dict. rewrite G3 by lia. rewrite (hget_frame hh1 hh2 _ S2) by lia. reflexivity. }
      assert (FrP : Forall (fun a => h_next h7 <=p a) (priv (set_spec_ref p' (h_next hh1))) /\
                    NoDup (priv (set_spec_ref p' (h_next hh1)))).
      { destruct Fr as (Fr & _). split.
        - unfold priv, set_spec_ref. cbn [hc_spec hc_in hc_out hc_xin hc_xout hc_int]. repeat constructor; lia.
        - unfold priv, set_spec_ref. cbn [hc_spec hc_in hc_out hc_xin hc_xout hc_int].
          repeat (constructor; [simpl; intros H; repeat (destruct H as [H|H]; [lia|]); exact H|]). constructor. }
      split; [|exact FrP].
      split; [eapply hframe_trans; eassumption|]. split; [exact W3|]. split.
      { unfold cwf, below, priv, set_spec_ref. cbn [hc_spec hc_in hc_out hc_xin hc_xout hc_int]. repeat constructor; lia. }
      split.
      { unfold sep_circ, set_spec_ref. cbn [hc_spec hc_in hc_out hc_xin hc_xout hc_int]. simpl.
        repeat split; intros H; repeat (destruct H as [H|H]; [lia|]); try lia; exact H. }
      split.
      { unfold fanc, add_empty_mode. rewrite <- Ab.
        unfold abs_circ, set_spec_ref. cbn [c_n c_spec c_in c_out c_xin c_xout c_int hc_n hc_spec hc_in hc_out hc_xin hc_xout hc_int].
        rewrite Rsp, A1, P5, P6. unfold rd_nats at 1. rewrite Gint.
        rewrite !Rd by lia. rewrite P8, P9, P10, P11. reflexivity. }
      split; [right; exact FrP|].
      split.
      2:{ intros a Ha. unfold set_spec_ref in Ha. cbn [hc_spec] in Ha. rewrite Rsp in Ha. right.
          rewrite Forall_forall in P14. specialize (P14 a Ha). cbv beta in P14. destruct Fr as (Fr & _). lia. }
      intros a Ha. unfold set_spec_ref in Ha. cbn [hc_spec] in Ha. rewrite Rsp, A2 in Ha.
      destruct (P13 a Ha) as (Q1 & Q2). split.
      - intros Ho. destruct Q1 as [H|H].
        + pose proof (owned_lt a Ho). destruct Fr as (Fr & _). lia.
        + exact (proj1 (Fz a H) Ho).
      - unfold priv, set_spec_ref. cbn [hc_spec hc_in hc_out hc_xin hc_xout hc_int]. simpl.
        pose proof (spec_cells_below hh1 sp' P2 P4) as Hb. unfold below in Hb. rewrite Forall_forall in Hb. specialize (Hb a Ha).
        intros H. repeat (destruct H as [H|H]; [lia|]). exact H.
    Qed.

    Lemma anc_fold h7 m l : h_next h0 <=p h_next h7 -> forall (acc : heap * hcirc) (pf : circ),
      prel h7 (fst acc) (snd acc) pf ->
      prel h7 (fst (fold_left (h_anc_step o m) l acc)) (snd (fold_left (h_anc_step o m) l acc)) (fold_left (fanc m) l pf) /\
      (l <> [] -> Forall (fun a => h_next h7 <=p a) (priv (snd (fold_left (h_anc_step o m) l acc))) /\
                  NoDup (priv (snd (fold_left (h_anc_step o m) l acc)))).
    Proof.
      intros Hh7. induction l as [|x l IH]; intros acc pf H; [split; [exact H|congruence]|].
      cbn [fold_left]. destruct (anc_step h7 m acc pf x Hh7 H) as (H1 & H2).
      destruct (IH _ _ H1) as (J1 & J2). split; [exact J1|]. intros _.
      destruct l as [|y l]; [exact H2|]. apply J2. discriminate.
    Qed.

    Lemma nodup6 (a1 a2 a3 a4 a5 a6 : addr) : NoDup [a1; a2; a3; a4; a5; a6] ->
      a1 <> a2 /\ a1 <> a3 /\ a4 <> a2 /\ a4 <> a3 /\ a5 <> a2 /\ a5 <> a3 /\ a6 <> a2 /\ a6 <> a3 /\ a2 <> a3.
    Proof.
      intros H. inversion H as [|? ? N1 H1]; subst. inversion H1 as [|? ? N2 H2]; subst.
      inversion H2 as [|? ? N3 H3]; subst. simpl in *. repeat split; intros E; subst; tauto.
    Qed.

    (* the loop that records the heralds of the added circuit in the parent's dicts *)
    Lemma her_fold h7 m pp (l : dict) :
      Forall (fun a => h_next h7 <=p a) (priv pp) -> NoDup (priv pp) ->
      forall hh pf, prel h7 hh pp pf ->
      prel h7 (fold_left (h_her_step m pp) l hh) pp (fold_left (fher m) l pf).
    Proof.
      intros Hfr Hnd. induction l as [|kv l IH]; intros hh pf H; [exact H|]. cbn [fold_left]. apply IH. clear IH.
      destruct H as (Fr & Hw & Hc & Hs & Ab & Dj & Fz & Pv).
      destruct (cwf_fields hh pp Hc) as (L1 & L2 & L3 & L4 & L5 & L6).
      unfold priv in Hnd. destruct (nodup6 _ _ _ _ _ _ Hnd) as (D1 & D2 & D3 & D4 & D5 & D6 & D7 & D8 & D9).
      unfold h_her_step.
      set (k := fst kv + m). set (v := snd kv).
      set (h1 := h_dset hh (hc_in pp) k v). set (h2 := h_dset h1 (hc_out pp) k v).
      assert (Other : forall b, b <> hc_in pp -> b <> hc_out pp -> hget h2 b = hget hh b).
      { intros b B1 B2. unfold h2, h1. rewrite !hget_dset_other by assumption. reflexivity. }
      assert (Fin : h_next h7 <=p hc_in pp /\ h_next h7 <=p hc_out pp).
      { rewrite Forall_forall in Hfr. split; apply Hfr; unfold priv; simpl; auto. }
      split.
      { unfold h2, h1, h_dset. apply hframe_write; [apply hframe_write; [exact Fr|left; apply Fin]|left; apply Fin]. }
      split.
      { unfold h2, h1, h_dset. apply hwf_write; [apply hwf_write; [exact Hw|exact L2|apply Forall_nil]|exact L3|apply Forall_nil]. }
      split; [exact Hc|]. split; [exact Hs|].
      assert (Cells : forall b, In b (spec_cells hh (rd_list hh (hc_spec pp))) -> hget h2 b = hget hh b).
      { intros b Hb. destruct (Fz b Hb) as (_ & Np). apply Other; intros ->; apply Np; unfold priv; simpl; auto. }
      destruct (abs_list_cells hh h2 _ Cells) as (A1 & A2).
      assert (Rl : rd_list h2 (hc_spec pp) = rd_list hh (hc_spec pp)).
      { unfold rd_list. rewrite Other by assumption. reflexivity. }
      split.
      { rewrite <- Ab. unfold fher, abs_circ. cbn [c_n c_spec c_in c_out c_xin c_xout c_int]. rewrite Rl, A1.
        unfold h2, h1. rewrite !rd_dict_dset.
        rewrite Pos.eqb_refl.
        rewrite (proj2 (Pos.eqb_neq (hc_in pp) (hc_out pp))) by exact D9.
        rewrite (proj2 (Pos.eqb_neq (hc_out pp) (hc_in pp))) by congruence.
        rewrite Pos.eqb_refl.
        rewrite (proj2 (Pos.eqb_neq (hc_xin pp) (hc_out pp))) by exact D4.
        rewrite (proj2 (Pos.eqb_neq (hc_xin pp) (hc_in pp))) by exact D3.
        rewrite (proj2 (Pos.eqb_neq (hc_xout pp) (hc_out pp))) by exact D6.
        rewrite (proj2 (Pos.eqb_neq (hc_xout pp) (hc_in pp))) by exact D5.
        unfold rd_nats. fold h1 h2. rewrite Other by assumption. reflexivity. }
      split; [exact Dj|]. split.
      - intros a Ha. rewrite Rl, A2 in Ha. exact (Fz a Ha).
      - intros a Ha. rewrite Rl in Ha. exact (Pv a Ha).
    Qed.

    Lemma abs_comp_group (h : heap) d a lst m1 m2 hi ho :
      hget h a = Some (CComp (HGroup lst m1 m2 hi ho)) ->
      abs_comp (S d) h a = Group (map (abs_comp d h) (rd_list h lst)) m1 m2 (rd_dict h hi) (rd_dict h ho) /\
      comp_cells (S d) h a = a :: lst :: hi :: ho :: flat_map (comp_cells d h) (rd_list h lst).
    Proof. intros E. cbn [abs_comp comp_cells]. rewrite E. split; reflexivity. Qed.

    Lemma is_group_depth (h : heap) a : is_group (abs_comp 1 h a) = is_group (abs_comp 2 h a).
    Proof. cbn [abs_comp]. destruct (hget h a) as [[[| | | | | |]| | |]|]; reflexivity. Qed.

    Lemma set_spec_eta (w : circ) : set_spec w (c_spec w) = w.
    Proof. destruct w; reflexivity. Qed.

    (* ---------------- Circuit.add ---------------- *)
    Definition add_entries (h' : heap) (r : res hcirc) : Prop :=
      match r with
      | Ok c' => forall a, In a (rd_list h' (hc_spec c')) -> In a (rd_list h0 (hc_spec c)) \/ h_next h0 <=p a
      | Err _ => True
      end.

    Lemma h_add_post_full mode g :
      upd_post p h0 c (fun cf => op_add o cf (abs_circ h0 s) mode g)
               (fst (h_add o h0 c s mode g)) (snd (h_add o h0 c s mode g)) /\
      add_entries (fst (h_add o h0 c s mode g)) (snd (h_add o h0 c s mode g)).
    Proof.
      destruct (inv_cwf _ I id c Hin) as (Hc0 & Hsc). destruct (inv_cwf _ I sid s Hsin) as (Hcs & Hss).
      cbn [hw_heap] in Hc0, Hcs.
      pose proof (inv_flat _ I sid s Hsin) as Fls. cbn [hw_heap] in Fls.
      set (sf := abs_circ h0 s) in *. set (cf := abs_circ h0 c).
      unfold h_add. cbv zeta.
      match goal with |- context [match ?t with Ok _ => _ | Err _ => _ end] => destruct t as [m|x] eqn:E1 end; cbn [fst snd].
      2:{ split; [|exact Logic.I]. apply (err_post p h0 c I). rewrite op_add_unfold, mode_ok_n_eq. cbn [abs_circ c_int]. rewrite E1. reflexivity. }
      (* the two copies *)
      destruct (h_copy_circ h0 s) as [h1 cc0] eqn:Ecp.
      destruct (h_copy_circ_post h0 s h1 cc0 Hw0 Hcs Ecp) as (F1 & W1 & C1 & A1 & Fr1 & ND1 & Sp1 & RL1 & N1).
      assert (Fl1 : flat_spec (abs_list h1 (rd_list h1 (hc_spec cc0)))).
      { change (flat_spec (c_spec (abs_circ h1 cc0))). rewrite A1. exact Fls. }
      destruct (h_unpack_groups h1 cc0) as [h2 cc] eqn:Eup.
      destruct (h_unpack_groups_local h1 cc0 h2 cc W1 C1 Sp1 Fl1 Eup)
        as (F2 & W2 & C2 & Sp2 & A2 & I1 & I2 & I3 & I4 & I5 & I6 & I7).
      assert (F02 : hframe [] h0 h2) by (eapply hframe_trans; eassumption).
      assert (Ecc : abs_circ h2 cc = unpack_groups sf) by (rewrite A2, A1; reflexivity).
      assert (Egrp : rd_dict h2 (hc_in cc) = c_in sf).
      { change (c_in (abs_circ h2 cc) = c_in sf). rewrite Ecc. reflexivity. }
      rewrite Egrp.
      set (grp := g || negb (length (c_in sf) =? 0)).
      set (w0f := if grp then unpack_groups sf else sf).
      set (ls := rd_list h0 (hc_spec s)) in *.
      assert (Bls : below h0 ls) by apply (rd_list_below h0 _ Hw0).
      assert (Fzs : forall a, In a (spec_cells h0 ls) -> ~ owned p a /\ a <p h_next h0).
      { intros a Ha. split; [exact (inv_frozen _ I sid s Hsin a Ha)|].
        pose proof (spec_cells_below h0 ls Hw0 Bls) as Hb. unfold below in Hb. rewrite Forall_forall in Hb. exact (Hb a Ha). }
      destruct (if grp then (h2, cc) else h_copy_circ h2 s) as [h3 w] eqn:Ew.
      assert (W3 : hframe [] h0 h3 /\ hwf h3 /\ cwf h3 w /\ sep_circ w /\ abs_circ h3 w = w0f /\
                   Forall (fun a => h_next h0 <=p a) (priv w) /\
                   (forall a, In a (spec_cells h3 (rd_list h3 (hc_spec w))) -> ~ owned p a /\ a <p h_next h0)).
      { unfold w0f. destruct grp.
        - injection Ew as <- <-. split; [exact F02|]. split; [exact W2|]. split; [exact C2|]. split; [exact Sp2|].
          split; [exact Ecc|]. split.
          + rewrite Forall_forall in Fr1. destruct F1 as (F1 & _).
            unfold priv. rewrite I1, I2, I3, I4.
            repeat constructor; try lia; apply Fr1; unfold priv; simpl; auto.
          + intros a Ha. apply I7 in Ha. rewrite RL1 in Ha.
            rewrite (proj2 (abs_list_stable h0 h1 ls Hw0 (hframe_agree _ _ F1) Bls)) in Ha. exact (Fzs a Ha).
        - assert (Cs2 : cwf h2 s) by (eapply cwf_mono; [apply F02|exact Hcs]).
          destruct (h_copy_circ_post h2 s h3 w W2 Cs2 Ew) as (G1 & G2 & G3 & G4 & G5 & G6 & G7 & G8 & G9).
          split; [eapply hframe_trans; eassumption|]. split; [exact G2|]. split; [exact G3|]. split; [exact G7|].
          split; [rewrite G4; apply (abs_circ_stable h0 h2 s Hw0 (hframe_agree _ _ F02) Hcs)|]. split.
          + eapply Forall_impl; [|exact G5]. intros a Ha. cbv beta in Ha |- *. destruct F02 as (F02 & _). lia.
          + intros a Ha. rewrite G8 in Ha.
            destruct (cwf_fields h0 s Hcs) as (L1 & _).
            rewrite (rd_list_agree h0 h2 _ (hframe_agree _ _ F02) L1) in Ha. fold ls in Ha.
            assert (F03 : hframe [] h0 h3) by (eapply hframe_trans; eassumption).
            rewrite (proj2 (abs_list_stable h0 h3 ls Hw0 (hframe_agree _ _ F03) Bls)) in Ha. exact (Fzs a Ha). }
      destruct W3 as (F03 & W3 & C3 & Sp3 & A3 & Fr3 & Fz3).
      assert (En : hc_n w = c_n w0f) by (rewrite <- A3; reflexivity).
      assert (Ein : rd_dict h3 (hc_in w) = c_in w0f) by (rewrite <- A3; reflexivity).
      assert (Eout : rd_dict h3 (hc_out w) = c_out w0f) by (rewrite <- A3; reflexivity).
      rewrite En, Ein, Eout.
      match goal with |- context [if ?b then _ else _] => destruct b eqn:E2 end; cbn [fst snd].
      { split; [|exact Logic.I]. split; [apply hframe_nil; exact F03|]. split; [exact W3|]. split; [|exact F03].
        rewrite op_add_unfold, mode_ok_n_eq. cbn [abs_circ c_int c_n]. rewrite E1. cbv zeta. fold sf grp w0f.
        rewrite E2. reflexivity. }
      assert (EF : forall r, add_body cf w0f m grp = r -> op_add o cf sf mode g = r).
      { intros r Hr. rewrite op_add_unfold. unfold cf. rewrite mode_ok_n_eq. cbn [abs_circ c_int c_n]. rewrite E1. cbv zeta.
        fold sf grp w0f. rewrite E2. exact Hr. }
      fold (add_swaps w0f).
      (* spec.append(ModeSwaps(swaps)) on the work copy *)
      set (h4 := if list_eqb (dkeys (add_swaps w0f)) (dvals (add_swaps w0f)) then h3
                 else let '(hh, a) := halloc h3 (CComp (HSwaps (add_swaps w0f))) in h_append hh (hc_spec w) a).
      assert (Wsp : forall a, In a (priv w) -> h_next h0 <=p a) by (rewrite Forall_forall in Fr3; exact Fr3).
      assert (W4 : hframe [] h0 h4 /\ hwf h4 /\ cwf h4 w /\ abs_circ h4 w = set_spec w0f (add_sp0 w0f) /\
                   (forall a, In a (spec_cells h4 (rd_list h4 (hc_spec w))) -> ~ owned p a)).
      { unfold h4, add_sp0. destruct (list_eqb _ _).
        - split; [exact F03|]. split; [exact W3|]. split; [exact C3|]. split; [rewrite set_spec_eta; exact A3|].
          intros a Ha. exact (proj1 (Fz3 a Ha)).
        - rewrite (halloc_eta h3). cbv iota beta.
          destruct (append_entry_gen h3 w (CComp (HSwaps (add_swaps w0f))) W3 C3 Sp3) as (J1 & J2 & J3 & J4 & J5 & _).
          + intros a Ha E. specialize (Wsp (hc_spec w)). destruct (Fz3 a Ha) as (_ & Hlt). rewrite E in Hlt.
            assert (h_next h0 <=p hc_spec w) by (apply Wsp; unfold priv; simpl; auto). lia.
          + apply Forall_nil.
          + intros b Hb E. cbn [comp_cells] in Hb. rewrite hget_alloc, Pos.eqb_refl in Hb. destruct Hb as [<-|[]].
            destruct (cwf_fields h3 w C3) as (L1 & _). lia.
          + cbv zeta in J1, J2, J3, J4, J5.
            split.
            { unfold h_append. apply hframe_write; [apply hframe_alloc; exact F03|left]. apply Wsp. unfold priv; simpl; auto. }
            split; [exact J1|]. split; [eapply cwf_mono; [|exact C3]; rewrite J2; lia|]. split.
            { rewrite J3, A3. cbn [abs_comp]. rewrite hget_alloc, Pos.eqb_refl. reflexivity. }
            intros a Ha. rewrite J4 in Ha. apply in_app_or in Ha as [Ha|Ha]; [exact (proj1 (Fz3 a Ha))|].
            cbn [comp_cells] in Ha. rewrite hget_alloc, Pos.eqb_refl in Ha. destruct Ha as [<-|[]].
            intros Ho. pose proof (owned_lt _ Ho). destruct F03 as (F03 & _). lia. }
      clearbody h4. destruct W4 as (F04 & W4 & C4 & A4 & Fz4).
      destruct (cwf_fields h4 w C4) as (L41 & L42 & L43 & L44 & L45 & L46).
      (* circuit.__out_heralds = copy(circuit.__in_heralds); the same for the external dicts *)
      destruct (halloc h4 (CDict (rd_dict h4 (hc_in w)))) as [h5 o'] eqn:E5.
      destruct (halloc_inv _ _ _ _ [] h0 E5 W4 (Forall_nil _) F04) as (-> & N5 & W5 & F05 & G5 & S5).
      destruct (halloc h5 (CDict (rd_dict h5 (hc_xin w)))) as [h6 xo'] eqn:E6.
      destruct (halloc_inv _ _ _ _ [] h0 E6 W5 (Forall_nil _) F05) as (-> & N6 & W6 & F06 & G6 & S6).
      set (w1 := mkHC (c_n w0f) (hc_spec w) (hc_in w) (h_next h4) (hc_xin w) (h_next h5) (hc_int w)).
      assert (Ag46 : agree h4 h6) by (apply hframe_agree; eapply hframe_trans; eassumption).
      assert (R0 : wrel h6 w1 (rd_list h6 (hc_spec w1)) (add_w1 w0f) (add_sp0 w0f)).
      { split; [exact F06|]. split; [exact W6|]. split.
        { unfold cwf, below, priv, w1. cbn [hc_spec hc_in hc_out hc_xin hc_xout hc_int]. repeat constructor; lia. }
        split; [apply rd_list_below; exact W6|].
        assert (Rl : rd_list h6 (hc_spec w1) = rd_list h4 (hc_spec w)) by (apply (rd_list_agree h4 h6 _ Ag46 L41)).
        split.
        { unfold book, bookf, w1, add_w1. cbn [hc_n hc_spec hc_in hc_out hc_xin hc_xout hc_int c_n c_in c_out c_xin c_xout c_int].
          unfold rd_dict at 2 4. rewrite G6. rewrite (hget_frame h5 h6 (h_next h4) S6) by lia. rewrite G5.
          rewrite (rd_dict_agree h4 h5 _ (hframe_agree _ _ S5) L44).
          rewrite !(rd_dict_agree h4 h6 _ Ag46), (rd_nats_agree h4 h6 _ Ag46) by assumption.
          change (bookf (abs_circ h4 w) = bookf (add_w1 w0f)) || idtac.
          assert (Bk : book h4 w = bookf (set_spec w0f (add_sp0 w0f))) by (rewrite <- A4; reflexivity).
          unfold book, bookf, set_spec in Bk. cbn [c_n c_in c_out c_xin c_xout c_int] in Bk.
          injection Bk as B1 B2 B3 B4 B5 B6. rewrite B2, B4, B6. reflexivity. }
        split.
        { rewrite Rl. rewrite (proj1 (abs_list_stable h4 h6 _ W4 Ag46 (rd_list_below h4 _ W4))).
          change (c_spec (abs_circ h4 w) = add_sp0 w0f). rewrite A4. reflexivity. }
        intros a Ha. rewrite Rl in Ha. rewrite (proj2 (abs_list_stable h4 h6 _ W4 Ag46 (rd_list_below h4 _ W4))) in Ha.
        exact (Fz4 a Ha). }
      (* the pass-through loop *)
      fold w1.
      pose proof (fold_sim (fun (acc : heap * hcirc * list addr) (accf : circ * list comp) =>
                              wrel (fst (fst acc)) (snd (fst acc)) (snd acc) (fst accf) (snd accf))
                           (h_pass_step o m) (fpass m) (sort_nat (rd_nats h0 (hc_int c)))
                           (fun a b x => pass_step m a b x)
                           (h6, w1, rd_list h6 (hc_spec w1)) (add_w1 w0f, add_sp0 w0f) R0) as Hp.
      destruct (fold_left (h_pass_step o m) (sort_nat (rd_nats h0 (hc_int c))) (h6, w1, rd_list h6 (hc_spec w1)))
        as [[h7 w2] sp] eqn:Ep.
      destruct (fold_left (fpass m) (sort_nat (rd_nats h0 (hc_int c))) (add_w1 w0f, add_sp0 w0f)) as [w2f spf] eqn:Epf.
      cbn [fst snd] in Hp. destruct Hp as (F07 & W7 & C7 & Bsp & Bk7 & Asp & Fzsp).
      unfold book, bookf in Bk7. injection Bk7 as K1 K2 K3 K4 K5 K6.
      assert (Hh7 : h_next h0 <=p h_next h7) by apply F07.
      (* the parent: new ancilla modes, then the herald records *)
      rewrite K2.
      assert (P7 : prel h7 h7 c cf).
      { split; [apply hframe_refl|]. split; [exact W7|]. split; [eapply cwf_mono; [|exact Hc0]; exact Hh7|].
        split; [exact Hsc|]. split; [apply (abs_circ_stable h0 h7 c Hw0 (hframe_agree _ _ F07) Hc0)|].
        split; [left; reflexivity|]. split.
        intros a Ha. destruct (cwf_fields h0 c Hc0) as (L1 & _).
        rewrite (rd_list_agree h0 h7 _ (hframe_agree _ _ F07) L1) in Ha.
        rewrite (proj2 (abs_list_stable h0 h7 _ Hw0 (hframe_agree _ _ F07) (rd_list_below h0 _ Hw0))) in Ha.
        pose proof (inv_frozen _ I id c Hin a Ha) as Hno. split; [exact Hno|].
        intros Hp'. apply Hno. exists id, c. split; assumption.
        intros a Ha. destruct (cwf_fields h0 c Hc0) as (L1 & _).
        rewrite (rd_list_agree h0 h7 _ (hframe_agree _ _ F07) L1) in Ha. left. exact Ha. }
      destruct (anc_fold h7 m (sort_nat (dkeys (c_in w2f))) Hh7 (h7, c) cf P7) as (P8 & Fresh8).
      destruct (fold_left (h_anc_step o m) (sort_nat (dkeys (c_in w2f))) (h7, c)) as [h8 c'] eqn:Ea.
      cbn [fst snd] in P8, Fresh8.
      set (c1f := fold_left (fanc m) (sort_nat (dkeys (c_in w2f))) cf) in *.
      assert (Rin8 : rd_dict h8 (hc_in w2) = c_in w2f).
      { destruct (cwf_fields h7 w2 C7) as (_ & L2 & _).
        rewrite (rd_dict_agree h7 h8 _ (hframe_agree _ _ (proj1 P8)) L2). exact K2. }
      rewrite Rin8.
      set (h9 := fold_left (h_her_step m c') (c_in w2f) h8).
      set (c2f := fold_left (fher m) (c_in w2f) c1f).
      assert (P9 : prel h7 h9 c' c2f).
      { unfold h9, c2f. destruct (c_in w2f) as [|kv0 hl] eqn:Ehl; [exact P8|].
        destruct Fresh8 as (Fr8 & Nd8).
        { intros Hnil. apply sort_nat_nil in Hnil. discriminate. }
        apply her_fold; assumption. }
      clearbody h9. destruct P9 as (F79 & W9 & C9 & Sp9 & A9 & Dj9 & Fz9 & Pv9).
      pose proof (hframe_agree _ _ F79) as Ag79.
      (* add_modes_to_circuit_spec(spec, mode) *)
      assert (Bsp9 : below h9 sp) by (eapply below_mono; [apply F79|exact Bsp]).
      destruct (hmap (h_shift 2 m) h9 sp) as [h10 add_cs] eqn:Es.
      destruct (h_shift_list_post m sp h9 h10 add_cs W9 Bsp9 Es) as (Q1 & Q2 & Q3 & Q4 & Q5 & Q6 & Q7).
      pose proof (hframe_agree _ _ Q1) as Ag910.
      assert (Asp9 : abs_list h9 sp = spf) by (rewrite (proj1 (abs_list_stable h7 h9 sp W7 Ag79 Bsp)); exact Asp).
      assert (Csp9 : spec_cells h9 sp = spec_cells h7 sp) by apply (proj2 (abs_list_stable h7 h9 sp W7 Ag79 Bsp)).
      assert (Aadd : abs_list h10 add_cs = shift_spec m spf).
      { unfold abs_list, shift_spec in *. rewrite Q4, Asp9. reflexivity. }
      assert (F010 : hframe [] h0 h10).
      { eapply hframe_trans; [exact F07|]. eapply hframe_trans; [exact F79|exact Q1]. }
      assert (C10 : cwf h10 c') by (eapply cwf_mono; [apply Q1|exact C9]).
      destruct (abs_circ_stable h9 h10 c' W9 Ag910 C9) as (A10 & R10).
      assert (Rl10 : rd_list h10 (hc_spec c') = rd_list h9 (hc_spec c')).
      { destruct (cwf_fields h9 c' C9) as (L1 & _). apply (rd_list_agree h9 h10 _ Ag910 L1). }
      assert (Fz10 : forall a, In a (spec_cells h10 (rd_list h10 (hc_spec c'))) -> ~ owned p a /\ ~ In a (priv c')).
      { intros a Ha. unfold reach in R10. apply app_inv_head in R10. rewrite R10 in Ha. exact (Fz9 a Ha). }
      (* where the private cells of the parent come from *)
      assert (Prov : forall a, In a (priv c') -> In a (priv c) \/ h_next h0 <=p a).
      { intros a Ha. destruct Dj9 as [->|(Fr & _)]; [left; exact Ha|right].
        rewrite Forall_forall in Fr. specialize (Fr a Ha). cbv beta in Fr. lia. }
      (* the cells behind the new entries are nobody's private cells *)
      assert (Fadd : forall b, In b (spec_cells h10 add_cs) -> ~ owned p b /\ ~ In b (priv c')).
      { intros b Hb. unfold spec_cells in Hb. destruct (Q6 b Hb) as [H|H].
        - split.
          + intros Ho. pose proof (owned_lt _ Ho). destruct F79 as (F79' & _). lia.
          + intros Hp'. unfold cwf, below in C9. rewrite Forall_forall in C9. specialize (C9 b Hp'). cbv beta in C9. lia.
        - fold (spec_cells h9 sp) in H. rewrite Csp9 in H. pose proof (Fzsp b H) as Hno. split; [exact Hno|].
          intros Hp'. destruct Dj9 as [->|(Fr & _)].
          + apply Hno. exists id, c. split; assumption.
          + rewrite Forall_forall in Fr. specialize (Fr b Hp'). cbv beta in Fr.
            pose proof (spec_cells_below h7 sp W7 Bsp) as Hb7. unfold below in Hb7. rewrite Forall_forall in Hb7.
            specialize (Hb7 b H). cbv beta in Hb7. lia. }
      assert (K1' : hc_n w2 = c_n w2f) by exact K1.
      assert (EB : add_body cf w0f m grp =
                   if grp then Ok (app_spec c2f [Group (shift_spec m spf) m (m + c_n w2f - 1) (c_in w2f) (c_in w2f)])
                   else Ok (app_spec c2f (shift_spec m spf))).
      { unfold add_body. unfold cf at 1. cbn [abs_circ c_int]. rewrite Epf. reflexivity. }
      destruct grp eqn:Egrp'.
      - (* grouped: self.__circuit_spec.append(Group(add_cs, name, mode, mode + n - 1, new_heralds)) *)
        destruct (halloc h10 (CList add_cs)) as [h11 lst] eqn:E11.
        destruct (halloc_inv _ _ _ _ [] h0 E11 Q2 Q3 F010) as (-> & N11 & W11 & F011 & G11 & S11).
        destruct (halloc h11 (CDict (rd_dict h11 (hc_in w2)))) as [h12 gi] eqn:E12.
        destruct (halloc_inv _ _ _ _ [] h0 E12 W11 (Forall_nil _) F011) as (-> & N12 & W12 & F012 & G12 & S12).
        destruct (halloc h12 (CDict (rd_dict h12 (hc_in w2)))) as [h13 go] eqn:E13.
        destruct (halloc_inv _ _ _ _ [] h0 E13 W12 (Forall_nil _) F012) as (-> & N13 & W13 & F013 & G13 & S13).
        rewrite (halloc_eta h13). cbv iota beta. cbn [fst snd].
        assert (S1013 : hframe [] h10 h13).
        { eapply hframe_trans; [exact S11|]. eapply hframe_trans; [exact S12|exact S13]. }
        pose proof (hframe_agree _ _ S1013) as Ag1013.
        assert (C13 : cwf h13 c') by (eapply cwf_mono; [apply S1013|exact C10]).
        destruct (abs_circ_stable h10 h13 c' Q2 Ag1013 C10) as (A13 & R13).
        assert (Rl13 : rd_list h13 (hc_spec c') = rd_list h10 (hc_spec c')).
        { destruct (cwf_fields h10 c' C10) as (L1 & _). apply (rd_list_agree h10 h13 _ Ag1013 L1). }
        assert (Fz13 : forall a, In a (spec_cells h13 (rd_list h13 (hc_spec c'))) -> ~ owned p a /\ ~ In a (priv c')).
        { intros a Ha. unfold reach in R13. apply app_inv_head in R13. rewrite R13 in Ha. exact (Fz10 a Ha). }
        set (gc := CComp (HGroup (h_next h10) m (m + hc_n w2 - 1) (h_next h11) (h_next h12))).
        set (h14 := fst (halloc h13 gc)).
        assert (G14 : hget h14 (h_next h13) = Some gc) by (unfold h14; rewrite hget_alloc, Pos.eqb_refl; reflexivity).
        assert (Ag1314 : agree h13 h14).
        { intros b Hb. unfold h14. rewrite hget_alloc. destruct (Pos.eqb_spec b (h_next h13)); [lia|reflexivity]. }
        assert (Rlst : rd_list h14 (h_next h10) = add_cs).
        { unfold rd_list. rewrite Ag1314 by lia. rewrite (hget_frame h12 h13 _ S13), (hget_frame h11 h12 _ S12) by lia.
          rewrite G11. reflexivity. }
        assert (Rin : forall hz, agree h7 hz -> rd_dict hz (hc_in w2) = c_in w2f).
        { intros hz Az. destruct (cwf_fields h7 w2 C7) as (_ & L2 & _). rewrite (rd_dict_agree h7 hz _ Az L2). exact K2. }
        assert (Ag711 : agree h7 h11).
        { apply hframe_agree. eapply hframe_trans; [exact F79|]. eapply hframe_trans; [exact Q1|exact S11]. }
        assert (Ag712 : agree h7 h12).
        { apply hframe_agree. eapply hframe_trans; [exact F79|]. eapply hframe_trans; [exact Q1|].
          eapply hframe_trans; [exact S11|exact S12]. }
        assert (Rgi : rd_dict h14 (h_next h11) = c_in w2f).
        { unfold rd_dict at 1. rewrite Ag1314 by lia. rewrite (hget_frame h12 h13 _ S13) by lia. rewrite G12.
          apply Rin, Ag711. }
        assert (Rgo : rd_dict h14 (h_next h12) = c_in w2f).
        { unfold rd_dict at 1. rewrite Ag1314 by lia. rewrite G13. apply Rin, Ag712. }
        assert (Ag1014 : agree h10 h14).
        { intros b Hb. rewrite Ag1314 by (destruct S1013 as (S & _); lia). apply Ag1013, Hb. }
        destruct (abs_list_stable h10 h14 add_cs Q2 Ag1014 Q3) as (Aadd14 & Cadd14).
        (* the members are not groups: the added circuit was unpacked *)
        assert (Nog : nogroup (shift_spec m spf)).
        { unfold shift_spec. apply nogroup_map; [apply shift_is_group|].
          assert (N0 : nogroup (add_sp0 w0f)).
          { unfold add_sp0, w0f. assert (Nw : nogroup (c_spec (unpack_groups sf))) by (apply unpack_nogroup; exact Fls).
            destruct (list_eqb _ _); [exact Nw|]. apply Forall_app. split; [exact Nw|]. constructor; [reflexivity|constructor]. }
          change spf with (snd (w2f, spf)). rewrite <- Epf. unfold fpass.
          apply (pass_fold_P o nogroup); [|exact N0].
          intros t sp' Hs'. unfold aem_spec. apply nogroup_map; [apply aem_is_group|exact Hs']. }
        assert (Mem : map (abs_comp 1 h14) add_cs = shift_spec m spf /\
                      flat_map (comp_cells 1 h14) add_cs = spec_cells h10 add_cs).
        { rewrite <- Aadd, <- Cadd14, <- Aadd14. unfold abs_list, spec_cells.
          assert (Gm : forall a, In a add_cs -> is_group (abs_comp 1 h14 a) = false).
          { intros a Ha. rewrite is_group_depth. unfold nogroup in Nog. rewrite <- Aadd, <- Aadd14 in Nog.
            unfold abs_list in Nog. rewrite Forall_map, Forall_forall in Nog. exact (Nog a Ha). }
          split; [apply map_ext_in|apply flat_map_ext_in]; intros a Ha; symmetry; apply (nongroup_depth h14 a (Gm a Ha)). }
        destruct Mem as (Mem1 & Mem2).
        assert (Eg : abs_comp 2 h14 (h_next h13) = Group (shift_spec m spf) m (m + c_n w2f - 1) (c_in w2f) (c_in w2f)).
        { rewrite (proj1 (abs_comp_group h14 1 _ _ _ _ _ _ G14)). rewrite Rlst, Rgi, Rgo, Mem1, K1'. reflexivity. }
        assert (Cg : comp_cells 2 h14 (h_next h13) =
                     h_next h13 :: h_next h10 :: h_next h11 :: h_next h12 :: spec_cells h10 add_cs).
        { rewrite (proj2 (abs_comp_group h14 1 _ _ _ _ _ _ G14)). rewrite Rlst, Mem2. reflexivity. }
        assert (Lsp : hc_spec c' <p h_next h10) by (destruct (cwf_fields h10 c' C10) as (L1 & _); exact L1).
        destruct (append_entry_gen h13 c' gc W13 C13 Sp9) as (J1 & J2 & J3 & J4 & J5 & J6).
        + intros a Ha E. apply (proj2 (Fz13 a Ha)). rewrite E. unfold priv; simpl; auto.
        + unfold gc. cbn [cell_addrs]. repeat constructor; lia.
        + fold h14. rewrite Cg. intros b Hb E.
          destruct Hb as [<-|[<-|[<-|[<-|Hb]]]]; try lia.
          apply (proj2 (Fadd b Hb)). rewrite E. unfold priv; simpl; auto.
        + cbv zeta in J1, J2, J3, J4, J5, J6. fold h14 in J1, J2, J3, J4, J5, J6.
          set (h15 := h_append h14 (hc_spec c') (h_next h13)) in *.
          split.
          2:{ cbn [add_entries]. intros a Ha. rewrite J6 in Ha. apply in_app_or in Ha as [Ha|[<-|[]]].
              - rewrite Rl13, Rl10 in Ha. exact (Pv9 a Ha).
              - right. destruct F013 as (F & _). lia. }
          split.
          { unfold h15, h_append. apply hframe_write.
            - unfold h14. apply hframe_alloc. apply hframe_nil. exact F013.
            - destruct (Prov (hc_spec c')) as [H|H]; [unfold priv; simpl; auto|right; exact H|left; exact H]. }
          split; [exact J1|]. split.
          { apply EF. rewrite EB, J3, A13, A10, A9, Eg. reflexivity. }
          split; [eapply cwf_mono; [|exact C13]; rewrite J2; lia|]. split; [exact Sp9|]. split; [exact Prov|].
          intros a Ha. rewrite J4 in Ha. apply in_app_or in Ha as [Ha|Ha]; [exact (Fz13 a Ha)|].
          fold h14 in Ha. rewrite Cg in Ha.
          assert (Hp13 : forall x, In x (priv c') -> x <p h_next h10).
          { intros x Hx. unfold cwf, below in C10. rewrite Forall_forall in C10. exact (C10 x Hx). }
          assert (Hnew : forall x, h_next h10 <=p x -> ~ owned p x /\ ~ In x (priv c')).
          { intros x Hx. split; [intros Ho; pose proof (owned_lt _ Ho); destruct F010 as (F & _); lia|].
            intros Hp'. specialize (Hp13 x Hp'). lia. }
          destruct Ha as [<-|[<-|[<-|[<-|Ha]]]]; try (apply Hnew; lia). exact (Fadd a Ha).
      - (* not grouped: self.__circuit_spec = self.__circuit_spec + add_cs *)
        cbn [fst snd].
        assert (Bl10 : below h10 (rd_list h10 (hc_spec c') ++ add_cs)).
        { apply Forall_app. split; [apply rd_list_below; exact Q2|exact Q3]. }
        destruct (halloc h10 (CList (rd_list h10 (hc_spec c') ++ add_cs))) as [h11 spa] eqn:E11.
        destruct (halloc_inv _ _ _ _ [] h0 E11 Q2 Bl10 F010) as (-> & N11 & W11 & F011 & G11 & S11).
        cbn [fst snd].
        pose proof (hframe_agree _ _ S11) as Ag1011.
        assert (Rl : rd_list h11 (h_next h10) = rd_list h10 (hc_spec c') ++ add_cs) by (unfold rd_list at 1; rewrite G11; reflexivity).
        destruct (abs_list_stable h10 h11 _ Q2 Ag1011 Bl10) as (Al11 & Cl11).
        destruct (cwf_fields h10 c' C10) as (L1 & L2 & L3 & L4 & L5 & L6).
        destruct Sp9 as (T1 & T2 & T3 & T4 & T5 & T6).
        split.
        2:{ cbn [add_entries]. intros a Ha. unfold set_spec_ref in Ha. cbn [hc_spec] in Ha. rewrite Rl in Ha.
            apply in_app_or in Ha as [Ha|Ha].
            - rewrite Rl10 in Ha. exact (Pv9 a Ha).
            - right. assert (Hq : h_next h9 <=p a).
              { assert (Hq5 := Q5 (Nat.lt_0_succ 1)). rewrite Forall_forall in Hq5. exact (Hq5 a Ha). }
              destruct F07 as (F & _). destruct F79 as (F' & _). lia. }
        split; [apply hframe_nil; exact F011|]. split; [exact W11|]. split.
        { apply EF. rewrite EB. f_equal. rewrite <- A9, <- A10.
          unfold abs_circ, app_spec, set_spec, set_spec_ref.
          cbn [c_n c_spec c_in c_out c_xin c_xout c_int hc_n hc_spec hc_in hc_out hc_xin hc_xout hc_int].
          rewrite Rl, Al11. unfold abs_list. rewrite map_app. fold (abs_list h10 add_cs). rewrite Aadd.
          rewrite !(rd_dict_agree h10 h11 _ Ag1011), (rd_nats_agree h10 h11 _ Ag1011) by assumption. reflexivity. }
        split.
        { unfold cwf, below, priv, set_spec_ref. cbn [hc_spec hc_in hc_out hc_xin hc_xout hc_int]. repeat constructor; lia. }
        split.
        { unfold sep_circ, set_spec_ref. cbn [hc_spec hc_in hc_out hc_xin hc_xout hc_int].
          repeat split; try assumption. simpl. intros H. repeat (destruct H as [H|H]; [lia|]). exact H. }
        split.
        { intros a Ha. unfold priv, set_spec_ref in Ha. cbn [hc_spec hc_in hc_out hc_xin hc_xout hc_int] in Ha.
          destruct Ha as [<-|Ha]; [right; destruct F010 as (F & _); lia|].
          apply Prov. unfold priv. right. exact Ha. }
        intros a Ha. unfold set_spec_ref in Ha. cbn [hc_spec] in Ha. rewrite Rl, Cl11 in Ha.
        unfold spec_cells in Ha. rewrite flat_map_app in Ha.
        assert (Hp10 : forall x, In x (priv c') -> x <p h_next h10).
        { intros x Hx. unfold cwf, below in C10. rewrite Forall_forall in C10. exact (C10 x Hx). }
        assert (Hb10 : a <p h_next h10).
        { pose proof (spec_cells_below h10 _ Q2 Bl10) as Hb. unfold below in Hb. rewrite Forall_forall in Hb.
          apply Hb. unfold spec_cells. rewrite flat_map_app. exact Ha. }
        assert (Hfin : (~ owned p a /\ ~ In a (priv c')) -> ~ owned p a /\ ~ In a (priv (set_spec_ref c' (h_next h10)))).
        { intros (H1 & H2). split; [exact H1|]. unfold priv, set_spec_ref. cbn [hc_spec hc_in hc_out hc_xin hc_xout hc_int].
          intros [E|H]; [lia|]. apply H2. unfold priv. right. exact H. }
        apply Hfin. apply in_app_or in Ha as [Ha|Ha]; [exact (Fz10 a Ha)|exact (Fadd a Ha)].
    Qed.

    Lemma h_add_post mode g :
      upd_post p h0 c (fun cf => op_add o cf (abs_circ h0 s) mode g)
               (fst (h_add o h0 c s mode g)) (snd (h_add o h0 c s mode g)).
    Proof. apply h_add_post_full. Qed.
  End Add.
End HeapP6.
