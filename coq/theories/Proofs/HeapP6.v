(* Reference-level heap model: Circuit.add establishes [upd_post]. *)
From Coq Require Import ZArith List Bool Arith Lia PArith FMapPositive.
From LW Require Import Base.Sx Base.Num Base.Sums Base.Mat Model.Circuit Model.World Model.Rewrite Model.Heap
     Proofs.WorldP Proofs.HeapP Proofs.HeapP2 Proofs.HeapFlat Proofs.HeapP3 Proofs.HeapP4 Proofs.HeapP5.
Import ListNotations.

Section HeapP6.
  Context {K : Type} (o : ops K).
  Notation heap := (@heap K).
  Notation cell := (@cell K).
  Notation hcomp := (@hcomp K).
  Notation comp := (@comp K).
  Notation circ := (@circ K).

  (* ---------------- Circuit.add of the functional model, with its loops named ---------------- *)
  Definition fpass (m : nat) (acc : circ * list comp) (i : nat) : circ * list comp :=
    let '(w, sp) := acc in
    let target := fold_left (fun t hm => if (Z.of_nat hm <? t)%Z then (t + 1)%Z else t)
                            (sort_nat (dkeys (c_in w))) (Z.of_nat i - Z.of_nat m)%Z in
    if ((0 <=? target) && (target <? Z.of_nat (c_n w)))%Z
    then add_empty_mode o w sp (Z.to_nat target) else (w, sp).
  Definition fanc (m : nat) (p : circ) (hm : nat) : circ :=
    let '(p', sp') := add_empty_mode o p (c_spec p) (m + hm) in
    mkCirc (c_n p') sp' (c_in p') (c_out p') (c_xin p') (c_xout p') (c_int p' ++ [m + hm]).
  Definition fher (m : nat) (p : circ) (kv : nat * nat) : circ :=
    mkCirc (c_n p) (c_spec p) (dset (c_in p) (fst kv + m) (snd kv))
           (dset (c_out p) (fst kv + m) (snd kv)) (c_xin p) (c_xout p) (c_int p).

  Definition add_swaps (w : circ) : dict :=
    complete_swaps (c_n w) 0 (dict_of (combine (dkeys (c_out w)) (dkeys (c_in w)))) 0 [].
  Definition add_sp0 (w : circ) : list comp :=
    if list_eqb (dkeys (add_swaps w)) (dvals (add_swaps w)) then c_spec w else c_spec w ++ [Swaps (add_swaps w)].
  Definition add_w1 (w : circ) : circ :=
    mkCirc (c_n w) (c_spec w) (c_in w) (c_in w) (c_xin w) (c_xin w) (c_int w).

  Definition add_body (c w : circ) (m : nat) (group : bool) : res circ :=
    let '(w2, sp) := fold_left (fpass m) (sort_nat (c_int c)) (add_w1 w, add_sp0 w) in
    let c' := fold_left (fanc m) (sort_nat (dkeys (c_in w2))) c in
    let c'' := fold_left (fher m) (c_in w2) c' in
    let add_cs := shift_spec m sp in
    if group
    then Ok (app_spec c'' [Group add_cs m (m + c_n w2 - 1) (c_in w2) (c_in w2)])
    else Ok (app_spec c'' add_cs).

  Lemma op_add_unfold (cf sf : circ) mode g :
    op_add o cf sf mode g =
    match mode_ok cf (map_mode (c_int cf) mode) with
    | Err x => Err x
    | Ok m =>
        let grp := g || negb (length (c_in sf) =? 0) in
        let w := if grp then unpack_groups sf else sf in
        if (c_n cf - m - length (filter (fun i => m <=? i) (c_int cf))) <? (c_n w - length (c_in w))
        then Err ModeRangeError else add_body cf w m grp
    end.
  Proof.
    unfold op_add. destruct (mode_ok cf (map_mode (c_int cf) mode)) as [m|x]; [|reflexivity]. cbn [bind].
    unfold copy_circ. cbv zeta. cbn [unpack_groups c_in].
    destruct (g || negb (length (c_in sf) =? 0)); reflexivity.
  Qed.

  Definition book (h : heap) (w : hcirc) : nat * dict * dict * dict * dict * list nat :=
    (hc_n w, rd_dict h (hc_in w), rd_dict h (hc_out w), rd_dict h (hc_xin w), rd_dict h (hc_xout w), rd_nats h (hc_int w)).
  Definition bookf (wf : circ) : nat * dict * dict * dict * dict * list nat :=
    (c_n wf, c_in wf, c_out wf, c_xin wf, c_xout wf, c_int wf).
  Lemma book_abs (h : heap) w : book h w = bookf (abs_circ h w).
  Proof. reflexivity. Qed.
  Lemma book_stable (h h' : heap) w : agree h h' -> cwf h w -> book h' w = book h w.
  Proof.
    intros Ag Hc. destruct (cwf_fields h w Hc) as (L1 & L2 & L3 & L4 & L5 & L6). unfold book.
    rewrite !(rd_dict_agree h h' _ Ag), (rd_nats_agree h h' _ Ag) by assumption. reflexivity.
  Qed.

  Section Add.
    Variables (p : hpool) (h0 : heap) (id : nat) (c : hcirc) (sid : nat) (s : hcirc).
    Hypothesis I : inv (mkHW p h0).
    Hypothesis Hin : In (id, c) p.
    Hypothesis Hsin : In (sid, s) p.

    Let Hw0 : hwf h0 := inv_hwf _ I.

    Lemma owned_lt a : owned p a -> a <p h_next h0.
    Proof. apply (owned_below _ a I). Qed.

    (* ---------------- the pass-through loop (work copy w, local list sp) ---------------- *)
    Definition wrel (hh : heap) (w : hcirc) (sp : list addr) (wf : circ) (spf : list comp) : Prop :=
      hframe [] h0 hh /\ hwf hh /\ cwf hh w /\ below hh sp /\
      book hh w = bookf wf /\ abs_list hh sp = spf /\
      (forall a, In a (spec_cells hh sp) -> ~ owned p a).

    Lemma pass_step m (acc : heap * hcirc * list addr) (accf : circ * list comp) i :
      wrel (fst (fst acc)) (snd (fst acc)) (snd acc) (fst accf) (snd accf) ->
      wrel (fst (fst (h_pass_step o m acc i))) (snd (fst (h_pass_step o m acc i))) (snd (h_pass_step o m acc i))
           (fst (fpass m accf i)) (snd (fpass m accf i)).
    Proof.
      destruct acc as [[hh w] sp]. destruct accf as [wf spf]. cbn [fst snd].
      intros (Fr & Hw & Hc & Hl & Bk & Al & Fz).
      unfold h_pass_step, fpass. unfold book, bookf in Bk. injection Bk as B1 B2 B3 B4 B5 B6.
      rewrite B1, B2.
      destruct ((0 <=? _) && _)%Z.
      2:{ cbn [fst snd]. split; [exact Fr|]. split; [exact Hw|]. split; [exact Hc|]. split; [exact Hl|].
          split; [unfold book, bookf; congruence|]. split; [exact Al|exact Fz]. }
      set (t := Z.to_nat _).
      destruct (h_add_empty_mode o hh w sp t) as [[hh' w'] sp'] eqn:E.
      destruct (h_add_empty_mode_post o hh w sp t hh' w' sp' Hw Hc Hl E)
        as (P1 & P2 & P3 & P4 & P5 & P6 & P7 & P8 & P9 & P10 & P11 & P12 & P13 & P14 & P15).
      cbn [fst snd add_empty_mode].
      split; [eapply hframe_trans; eassumption|]. split; [exact P2|]. split; [exact P3|]. split; [exact P4|].
      split; [unfold book, bookf; cbn [c_n c_in c_out c_xin c_xout c_int]; congruence|].
      split; [rewrite P5, Al; reflexivity|].
      intros a Ha Ho. destruct (proj1 (P13 a Ha)) as [H|H].
      - pose proof (owned_lt a Ho). destruct Fr as (Fr & _). lia.
      - exact (Fz a H Ho).
    Qed.

    (* ---------------- the loop that opens new ancilla modes in the parent ---------------- *)
    Definition prel (h7 hh : heap) (pp : hcirc) (pf : circ) : Prop :=
      hframe [] h7 hh /\ hwf hh /\ cwf hh pp /\ sep_circ pp /\ abs_circ hh pp = pf /\
      (pp = c \/ (Forall (fun a => h_next h7 <=p a) (priv pp) /\ NoDup (priv pp))) /\
      (forall a, In a (spec_cells hh (rd_list hh (hc_spec pp))) -> ~ owned p a /\ ~ In a (priv pp)).

    Lemma anc_step h7 m (acc : heap * hcirc) (pf : circ) hm :
      h_next h0 <=p h_next h7 ->
      prel h7 (fst acc) (snd acc) pf ->
      prel h7 (fst (h_anc_step o m acc hm)) (snd (h_anc_step o m acc hm)) (fanc m pf hm) /\
      (Forall (fun a => h_next h7 <=p a) (priv (snd (h_anc_step o m acc hm))) /\ NoDup (priv (snd (h_anc_step o m acc hm)))).
    Proof.
      destruct acc as [hh pp]. cbn [fst snd]. intros Hh7 (Fr & Hw & Hc & Hs & Ab & _ & Fz).
      unfold h_anc_step.
      destruct (h_add_empty_mode o hh pp (rd_list hh (hc_spec pp)) (m + hm)) as [[hh1 p'] sp'] eqn:E.
      destruct (h_add_empty_mode_post o hh pp _ (m + hm) hh1 p' sp' Hw Hc (rd_list_below hh _ Hw) E)
        as (P1 & P2 & P3 & P4 & P5 & P6 & P7 & P8 & P9 & P10 & P11 & P12 & P13 & P14 & P15).
      destruct P15 as (O1 & O2 & O3 & O4 & O5 & O6).
      destruct (halloc hh1 (CList sp')) as [hh2 spa] eqn:E2.
      destruct (halloc_inv _ _ _ _ [] hh E2 P2 P4 P1) as (-> & N2 & W2 & F2 & G2 & S2).
      cbn [fst snd].
      set (hh3 := h_nappend hh2 (hc_int p') (m + hm)).
      assert (N3 : h_next hh3 = h_next hh2) by reflexivity.
      assert (G3 : forall b, b <> hc_int p' -> hget hh3 b = hget hh2 b).
      { intros b Hb. unfold hh3, h_nappend. rewrite hget_write. destruct (Pos.eqb_spec b (hc_int p')); [contradiction|reflexivity]. }
      assert (Rint2 : rd_nats hh2 (hc_int p') = rd_nats hh1 (hc_int p')).
      { unfold rd_nats. rewrite (hget_frame hh1 hh2 _ S2) by lia. reflexivity. }
      assert (Gint : hget hh3 (hc_int p') = Some (CNats (map (bump (m + hm)) (rd_nats hh (hc_int pp)) ++ [m + hm]))).
      { unfold hh3, h_nappend. rewrite hget_write, Pos.eqb_refl, Rint2, P12. reflexivity. }
      assert (W3 : hwf hh3).
      { unfold hh3, h_nappend. apply hwf_write; [exact W2|lia|apply Forall_nil]. }
      assert (F3 : hframe [] hh hh3).
      { unfold hh3, h_nappend. apply hframe_write; [exact F2|left; lia]. }
      assert (Old : forall b, b <p hc_in p' -> hget hh3 b = hget hh1 b).
      { intros b Hb. rewrite G3 by lia. apply (hget_frame hh1 hh2 _ S2). lia. }
      assert (Cells : forall b, In b (spec_cells hh1 sp') -> hget hh3 b = hget hh1 b).
      { intros b Hb. apply Old. exact (proj2 (P13 b Hb)). }
      destruct (abs_list_cells hh1 hh3 sp' Cells) as (A1 & A2).
      assert (Rsp : rd_list hh3 (h_next hh1) = sp').
      { unfold rd_list. rewrite G3 by lia. rewrite G2. reflexivity. }
      assert (Rd : forall x, h_next hh <=p x -> x <p hc_int p' -> rd_dict hh3 x = rd_dict hh1 x).
      { intros x H1 H2. unfold rd_dict. rewrite G3 by lia. rewrite (hget_frame hh1 hh2 _ S2) by lia. reflexivity. }
      assert (FrP : Forall (fun a => h_next h7 <=p a) (priv (set_spec_ref p' (h_next hh1))) /\
                    NoDup (priv (set_spec_ref p' (h_next hh1)))).
      { destruct Fr as (Fr & _). split.
        - unfold priv, set_spec_ref. cbn [hc_spec hc_in hc_out hc_xin hc_xout hc_int]. repeat constructor; lia.
        - unfold priv, set_spec_ref. cbn [hc_spec hc_in hc_out hc_xin hc_xout hc_int].
          repeat (constructor; [simpl; intros H; repeat (destruct H as [H|H]; [lia|]); exact H|]). constructor. }
      split; [|exact FrP].
      split; [eapply hframe_trans; eassumption|]. split; [exact W3|]. split.
      { unfold cwf, below, priv, set_spec_ref. cbn [hc_spec hc_in hc_out hc_xin hc_xout hc_int]. repeat constructor; lia. }
      split.
      { unfold sep_circ, set_spec_ref. cbn [hc_spec hc_in hc_out hc_xin hc_xout hc_int]. simpl.
        repeat split; intros H; repeat (destruct H as [H|H]; [lia|]); try lia; exact H. }
      split.
      { unfold fanc, add_empty_mode. rewrite <- Ab.
        unfold abs_circ, set_spec_ref. cbn [c_n c_spec c_in c_out c_xin c_xout c_int hc_n hc_spec hc_in hc_out hc_xin hc_xout hc_int].
        rewrite Rsp, A1, P5, P6. unfold rd_nats at 1. rewrite Gint.
        rewrite !Rd by lia. rewrite P8, P9, P10, P11. reflexivity. }
      split; [right; exact FrP|].
      intros a Ha. unfold set_spec_ref in Ha. cbn [hc_spec] in Ha. rewrite Rsp, A2 in Ha.
      destruct (P13 a Ha) as (Q1 & Q2). split.
      - intros Ho. destruct Q1 as [H|H].
        + pose proof (owned_lt a Ho). destruct Fr as (Fr & _). lia.
        + exact (proj1 (Fz a H) Ho).
      - unfold priv, set_spec_ref. cbn [hc_spec hc_in hc_out hc_xin hc_xout hc_int]. simpl.
        pose proof (spec_cells_below hh1 sp' P2 P4) as Hb. unfold below in Hb. rewrite Forall_forall in Hb. specialize (Hb a Ha).
        intros H. repeat (destruct H as [H|H]; [lia|]). exact H.
    Qed.
  End Add.
End HeapP6.
