(* The SWAP gate of the qiskit converter on dual-rail basis states (C12 / C15).

   1. amp_perm_perm_mat: the amplitude permanent of the permutation matrix of an involution p of
      [0,n) between two n-mode Fock states s (input) and t (output) is prod s! if t is s read
      along p, and 0 otherwise.
   2. swap_gate_dual_rail: SWAP((2qa,2qa+1),(2qb,2qb+1)) compiles to a circuit of 2k modes
      (k = S (max qa qb)) made of one mode-swap component and no heralds; it sends the dual-rail
      state of the k-qubit basis state b to the dual-rail state of b with the qubits qa and qb
      exchanged with amplitude exactly 1, and every other output occupation list of 2k modes has
      amplitude 0. *)
From Coq Require Import ZArith List Bool Arith Lia Permutation Ring_theory Ring.
From LW Require Import Base.Sx Base.Num Base.Sums Base.Mat Model.State Model.Circuit Model.World Model.Fock Model.Gates
     Proofs.PermP Proofs.FockUnitP Proofs.WiringAmpFock Proofs.GatesP Proofs.DisplayP Proofs.WiringMat Proofs.WiringP
     Proofs.ConvertP Proofs.DualRailDefs.
Import ListNotations.
Open Scope nat_scope.

(* ------------------------------------------------------------------ *)
(* lists read along an involution of [0,n)                             *)
(* ------------------------------------------------------------------ *)
Section InvolLists.
  Variables (n : nat) (p : nat -> nat).
  Hypothesis Hlt : forall i, i < n -> p i < n.
  Hypothesis Hinv : forall i, i < n -> p (p i) = i.

  Lemma restr_invol s : length s = n -> restr p n (restr p n s) = s.
  Proof.
    intros Hl. apply (nth_ext _ _ 0 0).
    - rewrite restr_length. symmetry. exact Hl.
    - rewrite restr_length. intros i Hi.
      rewrite nth_restr by exact Hi. rewrite nth_restr by (apply Hlt; exact Hi).
      rewrite Hinv by exact Hi. reflexivity.
  Qed.

  Lemma invol_seq_perm : Permutation (map p (seq 0 n)) (seq 0 n).
  Proof.
    apply NoDup_Permutation_bis.
    - apply nodup_map_inj_in; [|apply seq_NoDup].
      intros x y Hx Hy E. apply in_seq in Hx. apply in_seq in Hy.
      rewrite <- (Hinv x) by lia. rewrite <- (Hinv y) by lia. rewrite E. reflexivity.
    - rewrite map_length. apply Nat.le_refl.
    - intros x Hx. apply in_map_iff in Hx. destruct Hx as [a [E Ha]]. apply in_seq in Ha.
      apply in_seq. subst x. pose proof (Hlt a). lia.
  Qed.

  Lemma restr_as_map s : restr p n s = map (fun i => nth i s 0) (map p (seq 0 n)).
  Proof. unfold restr. rewrite map_map. reflexivity. Qed.

  Lemma nth_seq_id s : map (fun i => nth i s 0) (seq 0 (length s)) = s.
  Proof.
    apply (nth_ext _ _ 0 0).
    - rewrite map_length, seq_length. reflexivity.
    - rewrite map_length, seq_length. intros i Hi.
      set (g := fun i => nth i s 0).
      rewrite (nth_indep _ 0 (g 0)) by (rewrite map_length, seq_length; exact Hi).
      rewrite map_nth, seq_nth by exact Hi. reflexivity.
  Qed.

  Lemma restr_invol_perm s : length s = n -> Permutation (restr p n s) s.
  Proof.
    intros Hl. rewrite restr_as_map.
    eapply perm_trans; [apply Permutation_map, invol_seq_perm|].
    rewrite <- Hl. rewrite nth_seq_id. apply Permutation_refl.
  Qed.
End InvolLists.

(* ------------------------------------------------------------------ *)
(* dual-rail occupation lists, entry by entry                          *)
(* ------------------------------------------------------------------ *)
Section DrnFacts.
  Definition drf (b : list bool) (i : nat) : nat :=
    if nth (i / 2) b false then i mod 2 else 1 - i mod 2.

  Lemma drn_cons x b : drn (x :: b) = (if x then [0; 1] else [1; 0]) ++ drn b.
  Proof. reflexivity. Qed.

  Lemma drn_length b : length (drn b) = 2 * length b.
  Proof.
    induction b as [|x b IH]; [reflexivity|].
    rewrite drn_cons, app_length, IH. destruct x; simpl; lia.
  Qed.

  Lemma nth_drn b i : i < 2 * length b -> nth i (drn b) 0 = drf b i.
  Proof.
    revert i. induction b as [|x b IH]; intros i Hi; [simpl in Hi; lia|].
    rewrite drn_cons.
    destruct i as [|[|i]].
    - destruct x; reflexivity.
    - destruct x; reflexivity.
    - transitivity (nth i (drn b) 0); [destruct x; reflexivity|].
      rewrite IH by (simpl in Hi; lia).
      unfold drf. replace (S (S i)) with (i + 1 * 2) by lia.
      rewrite Nat.div_add by lia. rewrite Nat.mod_add by lia.
      replace (i / 2 + 1) with (S (i / 2)) by lia. reflexivity.
  Qed.

  Lemma fact_prod_drn b : fact_prod (drn b) = 1.
  Proof.
    induction b as [|x b IH]; [reflexivity|].
    rewrite drn_cons. destruct x; cbn [app fact_prod fact]; rewrite IH; reflexivity.
  Qed.

  Lemma bits_In_length k b : In b (bits k) -> length b = k.
  Proof.
    revert b. induction k as [|k IH]; intros b Hb.
    - simpl in Hb. destruct Hb as [<-|[]]. reflexivity.
    - cbn [bits] in Hb. apply in_flat_map in Hb. destruct Hb as [x [_ Hb]].
      apply in_map_iff in Hb. destruct Hb as [b' [<- Hb']]. simpl. f_equal. apply IH. exact Hb'.
  Qed.

  Lemma swapbits_length qa qb b : length (swapbits qa qb b) = length b.
  Proof. unfold swapbits. rewrite map_length, seq_length. reflexivity. Qed.

  Lemma nth_swapbits qa qb b j :
    j < length b -> nth j (swapbits qa qb b) false = nth (transp qa qb j) b false.
  Proof.
    intros Hj. unfold swapbits. set (g := fun q => nth (transp qa qb q) b false).
    rewrite (nth_indep _ false (g 0)) by (rewrite map_length, seq_length; exact Hj).
    rewrite map_nth, seq_nth by exact Hj. reflexivity.
  Qed.
End DrnFacts.

(* ------------------------------------------------------------------ *)
(* the permutation of the SWAP gate                                    *)
(* ------------------------------------------------------------------ *)
Section SwapPerm.
  Lemma swap_perm_cases a0 a1 b0 b1 i :
    swap_perm a0 a1 b0 b1 i =
      if a0 =? i then b0 else if b0 =? i then a0 else if a1 =? i then b1 else if b1 =? i then a1 else i.
  Proof.
    unfold swap_perm, swap_fun. cbn [dget].
    destruct (a0 =? i); [reflexivity|]. destruct (b0 =? i); [reflexivity|].
    destruct (a1 =? i); [reflexivity|]. destruct (b1 =? i); reflexivity.
  Qed.

  (* on the mode pairs of the qubits qa, qb: the qubit index is transposed, the rail is kept *)
  Lemma swap_perm_dual_rail qa qb j r :
    qa <> qb -> r < 2 ->
    swap_perm (2 * qa) (2 * qa + 1) (2 * qb) (2 * qb + 1) (2 * j + r) = 2 * transp qa qb j + r.
  Proof.
    intros Hab Hr. rewrite swap_perm_cases. unfold transp.
    destruct (Nat.eqb_spec (2 * qa) (2 * j + r)); destruct (Nat.eqb_spec (2 * qb) (2 * j + r));
      destruct (Nat.eqb_spec (2 * qa + 1) (2 * j + r)); destruct (Nat.eqb_spec (2 * qb + 1) (2 * j + r));
      destruct (Nat.eqb_spec j qa); destruct (Nat.eqb_spec j qb); lia.
  Qed.

  Lemma transp_lt qa qb k j : qa < k -> qb < k -> j < k -> transp qa qb j < k.
  Proof. intros Ha Hb Hj. unfold transp. destruct (j =? qa); [exact Hb|]. destruct (j =? qb); assumption. Qed.

  Lemma transp_invol qa qb j : transp qa qb (transp qa qb j) = j.
  Proof.
    unfold transp.
    destruct (Nat.eqb_spec j qa) as [E1|E1].
    - destruct (Nat.eqb_spec qb qa); [lia|]. rewrite Nat.eqb_refl. lia.
    - destruct (Nat.eqb_spec j qb) as [E2|E2].
      + rewrite Nat.eqb_refl. lia.
      + destruct (Nat.eqb_spec j qa); [lia|]. destruct (Nat.eqb_spec j qb); [lia|]. reflexivity.
  Qed.

  Lemma split2 i : exists j r, i = 2 * j + r /\ r < 2.
  Proof.
    exists (i / 2), (i mod 2). split; [apply Nat.div_mod; lia|apply Nat.mod_upper_bound; lia].
  Qed.

  Lemma swap_perm_dr_lt qa qb k i :
    qa <> qb -> qa < k -> qb < k -> i < 2 * k ->
    swap_perm (2 * qa) (2 * qa + 1) (2 * qb) (2 * qb + 1) i < 2 * k.
  Proof.
    intros Hab Ha Hb Hi. destruct (split2 i) as [j [r [-> Hr]]].
    rewrite swap_perm_dual_rail by assumption.
    pose proof (transp_lt qa qb k j Ha Hb). lia.
  Qed.

  Lemma swap_perm_dr_invol qa qb i :
    qa <> qb ->
    swap_perm (2 * qa) (2 * qa + 1) (2 * qb) (2 * qb + 1)
      (swap_perm (2 * qa) (2 * qa + 1) (2 * qb) (2 * qb + 1) i) = i.
  Proof.
    intros Hab. destruct (split2 i) as [j [r [-> Hr]]].
    rewrite !swap_perm_dual_rail by assumption. rewrite transp_invol. reflexivity.
  Qed.

  (* the dual-rail state read along the permutation of the gate *)
  Lemma restr_swap_drn qa qb k b :
    qa <> qb -> qa < k -> qb < k -> length b = k ->
    restr (swap_perm (2 * qa) (2 * qa + 1) (2 * qb) (2 * qb + 1)) (2 * k) (drn b) = drn (swapbits qa qb b).
  Proof.
    intros Hab Ha Hb Hl. apply (nth_ext _ _ 0 0).
    - rewrite restr_length, drn_length, swapbits_length. lia.
    - rewrite restr_length. intros i Hi.
      rewrite nth_restr by exact Hi.
      rewrite nth_drn by (rewrite Hl; apply swap_perm_dr_lt; assumption).
      rewrite nth_drn by (rewrite swapbits_length, Hl; exact Hi).
      destruct (split2 i) as [j [r [-> Hr]]].
      rewrite swap_perm_dual_rail by assumption.
      unfold drf.
      rewrite <- (Nat.div_unique (2 * transp qa qb j + r) 2 (transp qa qb j) r Hr eq_refl).
      rewrite <- (Nat.mod_unique (2 * transp qa qb j + r) 2 (transp qa qb j) r Hr eq_refl).
      rewrite <- (Nat.div_unique (2 * j + r) 2 j r Hr eq_refl).
      rewrite <- (Nat.mod_unique (2 * j + r) 2 j r Hr eq_refl).
      rewrite nth_swapbits by lia. reflexivity.
  Qed.
End SwapPerm.

(* ------------------------------------------------------------------ *)
(* the SWAP constructor, exposing the circuit it builds                *)
(* ------------------------------------------------------------------ *)
Section SwapCirc.
  Context {K : Type} (o : ops K) {SR : StarRing o}.
  Notation co := (cplx o).

  Lemma gate_SWAP_circ a0 a1 b0 b1 :
    NoDup [a0; a1; b0; b1] ->
    exists gt, gate_SWAP o (zq a0 a1) (zq b0 b1) = Ok gt /\
      g_circ gt = app_spec (new_circ (S (Nat.max (Nat.max (Nat.max a0 a1) b0) b1)))
                           [Swaps [(a0, b0); (b0, a0); (a1, b1); (b1, a1)]] /\
      build o (env0 o) (g_circ gt) = Ok (S (Nat.max (Nat.max (Nat.max a0 a1) b0) b1), g_U gt) /\
      meq (S (Nat.max (Nat.max (Nat.max a0 a1) b0) b1)) (g_U gt) (perm_mat co (swap_perm a0 a1 b0 b1)).
  Proof.
    intros ND.
    unfold gate_SWAP, compile_gate, mk_SWAP, zq. cbn [length Nat.eqb negb app all_some bind].
    assert (En : Z.to_nat (zmax [Z.of_nat a0; Z.of_nat a1; Z.of_nat b0; Z.of_nat b1] + 1)
                 = S (Nat.max (Nat.max (Nat.max a0 a1) b0) b1)).
    { unfold zmax. cbn [tl hd fold_left]. lia. }
    rewrite En. cbn [World.run World.step World.wset World.upd World.wget Nat.eqb].
    change [(Z.of_nat a0, Z.of_nat b0); (Z.of_nat b0, Z.of_nat a0); (Z.of_nat a1, Z.of_nat b1);
            (Z.of_nat b1, Z.of_nat a1)]
      with (map (fun kv : nat * nat => (Z.of_nat (fst kv), Z.of_nat (snd kv)))
                [(a0, b0); (b0, a0); (a1, b1); (b1, a1)]).
    rewrite (op_mode_swaps_swap a0 a1 b0 b1 ND). cbn [World.wset World.wget Nat.eqb first_err fold_right bind].
    eexists. split; [reflexivity|]. split; [reflexivity|]. split; [reflexivity|].
    cbn [g_U snd mul_in]. eapply meq_trans; [apply tab_spec|]. apply mmul_id_r.
  Qed.
End SwapCirc.

Section SwapAmp.
  Context {K : Type} (o : ops K) {SR : StarRing o} {ZM : ZMorph o}.

  (* 1. general: the amplitude permanent of a permutation matrix *)
  Lemma amp_perm_perm_mat (n : nat) (p : nat -> nat) (s t : list nat) :
    (forall i, i < n -> p i < n) -> (forall i, i < n -> p (p i) = i) ->
    length s = n -> length t = n ->
    amp_perm (cplx o) (perm_mat (cplx o) p) s t =
      if nlist_eqb t (map (fun i => nth (p i) s 0) (seq 0 n)) then kofnat (cplx o) (fact_prod s) else k0 (cplx o).
  Proof.
    intros Hlt Hinv Hs Ht.
    change (map (fun i => nth (p i) s 0) (seq 0 n)) with (restr p n s).
    set (s0 := restr p n s).
    assert (Hs0 : length s0 = n) by apply restr_length.
    assert (Es : s = restr p n s0) by (symmetry; apply restr_invol; assumption).
    unfold amp_perm.
    transitivity (perm_ml (cplx o) (mid (cplx o)) (map (fun x => x) (expand t)) (map p (expand s))).
    { rewrite perm_ml_map. reflexivity. }
    rewrite map_id.
    assert (HP : Permutation (map p (expand s)) (expand s0)).
    { rewrite Es at 1. rewrite <- expl_img.
      rewrite (expand_expl s0), Hs0. apply expl_perm. apply invol_seq_perm; assumption. }
    rewrite (perm_ml_cols_perm _ _ _ _ HP).
    rewrite perm_ml_mid_delta by (rewrite Hs0; exact Ht).
    destruct (nlist_eqb t s0) eqn:E; [|reflexivity].
    apply nlist_eqb_eq in E. rewrite E. f_equal.
    apply fact_prod_perm. apply restr_invol_perm; assumption.
  Qed.

  (* 2. the SWAP gate of the converter *)
  Lemma swap_gate_dual_rail (qa qb : nat) : qa <> qb ->
    let k := S (Nat.max qa qb) in
    exists gt, gate_SWAP o (zq (2 * qa) (2 * qa + 1)) (zq (2 * qb) (2 * qb + 1)) = Ok gt /\
      c_n (g_circ gt) = 2 * k /\ c_in (g_circ gt) = [] /\ c_out (g_circ gt) = [] /\ c_int (g_circ gt) = [] /\
      build o (env0 o) (g_circ gt) = Ok (2 * k, g_U gt) /\
      WFH (g_circ gt) /\ Forall swnd (c_spec (g_circ gt)) /\
      forall b y, In b (bits k) -> length y = 2 * k ->
        amp_perm (cplx o) (g_U gt) (drn b) y =
          if nlist_eqb y (drn (swapbits qa qb b)) then k1 (cplx o) else k0 (cplx o).
  Proof.
    intros Hab k.
    assert (Ha : qa < k) by (unfold k; lia).
    assert (Hb : qb < k) by (unfold k; lia).
    assert (ND : NoDup [2 * qa; 2 * qa + 1; 2 * qb; 2 * qb + 1]).
    { repeat constructor; simpl; lia. }
    destruct (gate_SWAP_circ o (2 * qa) (2 * qa + 1) (2 * qb) (2 * qb + 1) ND) as [gt [Hg [Hc [Hbd HU]]]].
    assert (En : S (Nat.max (Nat.max (Nat.max (2 * qa) (2 * qa + 1)) (2 * qb)) (2 * qb + 1)) = 2 * k)
      by (unfold k; lia).
    rewrite En in Hc, Hbd, HU.
    exists gt. split; [exact Hg|].
    split; [rewrite Hc; reflexivity|]. split; [rewrite Hc; reflexivity|].
    split; [rewrite Hc; reflexivity|]. split; [rewrite Hc; reflexivity|].
    split; [exact Hbd|].
    split; [|split].
    - (* WFH *)
      rewrite Hc. unfold WFH. cbn [app_spec set_spec new_circ c_n c_spec c_in c_out c_xin c_xout c_int app dkeys map].
      split; [|split; constructor].
      constructor; cbn [app_spec set_spec new_circ c_n c_spec c_in c_out c_xin c_xout c_int app dkeys map];
        try (apply Forall_nil); try (apply NoDup_nil).
      constructor; [|constructor]. constructor; unfold lt_all, dkeys, dvals; cbn [map fst snd];
        repeat (constructor; try lia).
    - (* swnd *)
      rewrite Hc. cbn [app_spec set_spec new_circ c_spec app].
      constructor; [|constructor]. cbn [swnd dkeys map fst].
      repeat constructor; simpl; lia.
    - (* amplitudes *)
      intros b y Hbk Hy.
      pose proof (bits_In_length k b Hbk) as Hl.
      assert (Hd : length (drn b) = 2 * k) by (rewrite drn_length, Hl; reflexivity).
      unfold amp_perm.
      rewrite (perm_ml_meq (2 * k) _ _ _ _ HU).
      2:{ intros a Ha'. apply expand_bounds in Ha'. rewrite Hy in Ha'. exact Ha'. }
      2:{ intros a Ha'. apply expand_bounds in Ha'. rewrite Hd in Ha'. exact Ha'. }
      change (perm_ml (cplx o) (perm_mat (cplx o) (swap_perm (2 * qa) (2 * qa + 1) (2 * qb) (2 * qb + 1)))
                (expand y) (expand (drn b)))
        with (amp_perm (cplx o) (perm_mat (cplx o) (swap_perm (2 * qa) (2 * qa + 1) (2 * qb) (2 * qb + 1)))
                (drn b) y).
      rewrite (amp_perm_perm_mat (2 * k) _ (drn b) y).
      + change (map (fun i => nth (swap_perm (2 * qa) (2 * qa + 1) (2 * qb) (2 * qb + 1) i) (drn b) 0)
                    (seq 0 (2 * k)))
          with (restr (swap_perm (2 * qa) (2 * qa + 1) (2 * qb) (2 * qb + 1)) (2 * k) (drn b)).
        rewrite (restr_swap_drn qa qb k b Hab Ha Hb Hl).
        rewrite fact_prod_drn. rewrite (kofnat_1 (r:=cplx o)). reflexivity.
      + intros i Hi. apply swap_perm_dr_lt; assumption.
      + intros i _. apply swap_perm_dr_invol. exact Hab.
      + exact Hd.
      + exact Hy.
  Qed.
End SwapAmp.
