(* C12 T2 convert_heralded_correct: the circuit the qiskit converter builds in heralded-only mode
   acts on the dual-rail basis as (product of the gate scalars) * (the source program's unitary),
   with zero leakage.  Induction over the emitted operations (Model/Convert.v) run through the
   Circuit model, with the step lemma of Proofs/DualRailP.v, the gate facts in the form C13 states
   them, and C12_emitted_denotes_source for the passage emitted operations -> source program
   (qubit-level semantics: Proofs/DualRailSem.v). *)
From Coq Require Import ZArith NArith List Bool Arith Lia Permutation Ring_theory Ring.
From LW Require Import Base.Sx Base.Num Base.Sums Base.Mat Model.State Model.Circuit Model.World Model.Fock Model.Gates
     Model.Convert Proofs.StateP Proofs.PermP Proofs.FockUnitP Proofs.CircuitP Proofs.AddP Proofs.DisplayP
     Proofs.WiringDefs Proofs.WiringMat Proofs.WiringP Proofs.WiringAmpFock Proofs.GatesP Proofs.ConvertP
     Proofs.DualRailDefs Proofs.DualRailSem Proofs.DualRailSwap Proofs.DualRailFull Proofs.DualRailStep Proofs.DualRailP.
Import ListNotations.
Open Scope nat_scope.

(* ------------------------------------------------------------------ *)
(* the emitted swaps exchange two DIFFERENT qubits                      *)
(* ------------------------------------------------------------------ *)
Definition swap_ok (op : eop) : Prop :=
  match op with ESwap _ a0 _ b0 _ => a0 <> b0 | _ => True end.

Lemma convert_gate_swap_ok i g ps ops :
  NoDup (g_qubits g) -> convert_gate i g ps = Ok ops -> Forall swap_ok ops.
Proof.
  destruct g as [n qs p]. unfold convert_gate. cbn [g_name g_qubits g_param]. intros Hnd.
  destruct (is_allowed n); cbn [negb]; [|discriminate].
  destruct qs as [|q0 [|q1 [|q2 [|q3 r]]]]; try discriminate.
  - unfold add_one. destruct (is_single n); [intros H; inversion H; repeat constructor|].
    destruct p; cbn [negb]; [|discriminate]. destruct (is_rot n); [|discriminate].
    intros H; inversion H; repeat constructor.
  - assert (Hne : q0 <> q1) by (inversion Hnd; subst; cbn in *; intuition).
    unfold add_two. destruct n; try discriminate.
    3:{ intros H; inversion H. repeat constructor. cbn. unfold mode0. lia. }
    all: destruct (adjacent_spec q0 q1 Hne) as (a & b & sw & E & _ & _ & _ & _ & _ & _ & _ & Hsw & _); rewrite E;
         intros H; inversion H; apply Forall_app; split;
         [|constructor; [exact Logic.I|]]; apply Forall_forall; intros o Ho;
         apply in_map_iff in Ho as (pr & <- & Hp); destruct (Hsw pr Hp) as (P1 & _); cbn; unfold mode0; lia.
  - unfold add_three. destruct n; try discriminate;
      (destruct (negb ps); [discriminate|]);
      (destruct (negb (max3 q0 q1 q2 - min3 q0 q1 q2 =? 2)); [discriminate|]);
      intros H; inversion H; repeat constructor.
Qed.

Lemma convert_swap_ok allow gs ops rules :
  Forall (fun g => NoDup (g_qubits g)) gs -> convert allow gs = Ok (ops, rules) -> Forall swap_ok ops.
Proof.
  intros Hd. rewrite convert_eq. destruct (conv_spec allow 0 gs) as [o|e] eqn:E; [|discriminate].
  intros H; inversion H; subst. clear H. revert E. generalize 0. revert ops.
  induction gs as [|g rest IH]; intros ops i H; cbn [conv_spec] in H.
  - inversion H. constructor.
  - destruct (convert_gate i g (allow && can_ps g rest)) as [o1|e] eqn:E1; [|discriminate]. cbn [bind] in H.
    destruct (conv_spec allow (S i) rest) as [o2|e] eqn:E2; [|discriminate].
    inversion H. inversion Hd; subst. apply Forall_app. split; [eapply convert_gate_swap_ok; eauto|eapply IH; eauto].
Qed.

(* ------------------------------------------------------------------ *)
(* small facts about swapbits                                          *)
(* ------------------------------------------------------------------ *)
Lemma swapbits_invol qa qb b : qa < length b -> qb < length b -> swapbits qa qb (swapbits qa qb b) = b.
Proof.
  intros Ha Hb. apply (nth_ext _ _ false false); [rewrite !swapbits_length; reflexivity|].
  intros p Hp. rewrite !swapbits_length in Hp.
  rewrite DualRailSwap.nth_swapbits by (rewrite swapbits_length; exact Hp).
  rewrite DualRailSwap.nth_swapbits by (apply transp_lt; assumption).
  rewrite DualRailSwap.transp_invol. reflexivity.
Qed.

Lemma splice_swapbits qa qb k (b : list bool) : qa < k -> qb < k -> k <= length b ->
  splice b 0 (swapbits qa qb (slice b 0 k)) = swapbits qa qb b.
Proof.
  intros Ha Hb Hk.
  assert (Ls : length (slice b 0 k) = k) by (apply slice_length; lia).
  assert (Lw : length (swapbits qa qb (slice b 0 k)) = k) by (rewrite swapbits_length; exact Ls).
  apply (nth_ext _ _ false false); [rewrite splice_length, swapbits_length by lia; reflexivity|].
  intros p Hp. rewrite splice_length in Hp by lia.
  rewrite DualRailFull.nth_splice by lia. rewrite Lw, Nat.add_0_l.
  destruct (Nat.ltb_spec p 0) as [H0|_]; [lia|].
  rewrite (DualRailSwap.nth_swapbits qa qb b p Hp).
  destruct (Nat.ltb_spec p k) as [H1|H1].
  - rewrite Nat.sub_0_r. rewrite DualRailSwap.nth_swapbits by lia.
    rewrite nth_slice by (apply transp_lt; assumption). reflexivity.
  - f_equal. unfold transp. destruct (Nat.eqb_spec p qa); [lia|]. destruct (Nat.eqb_spec p qb); [lia|]. reflexivity.
Qed.

Section CqNorm.
  Context {K : Type} (o : ops K) {SRK : StarRing o}.
  Let Rc := cplx_ring o.
  Add Ring Kcqn : Rc.
  Lemma cq_norm_one : kmul (cplx o) (k1 (cplx o)) (kmul (cplx o) (k1 (cplx o)) (kconj (cplx o) (k1 (cplx o)))) = k1 (cplx o).
  Proof. rewrite (sr_conj_1 (o:=cplx o)). ring. Qed.
  Lemma cq_norm_step (K0 a w0 c : K * K) :
    kmul (cplx o) (kmul (cplx o) (kmul (cplx o) K0 a) (kconj (cplx o) (kmul (cplx o) K0 a))) (kmul (cplx o) w0 c) =
    kmul (cplx o) (kmul (cplx o) (kmul (cplx o) K0 (kconj (cplx o) K0)) w0)
                  (kmul (cplx o) c (kmul (cplx o) a (kconj (cplx o) a))).
  Proof. rewrite (sr_conj_mul (o:=cplx o)). ring. Qed.
End CqNorm.

Section Conv.
  Context {K : Type} (o : ops K) {SRK : StarRing o} {ZMK : ZMorph o}.
  Notation T := (K * K)%type.
  Notation cq := (co o).
  Notation circ := (@circ K).
  Notation e0 := (env0 o).
  Variable ninv : nat -> T.
  Hypothesis ninv_spec : forall k, 0 < k -> kmul cq (kofnat cq k) (ninv k) = k1 cq.
  Let Rr := sr_ring (o:=o).
  Add Ring Kconvr : Rr.

  Lemma gate_ok_ext (sub : circ) k kG M M' :
    (forall b b', In b (bits k) -> In b' (bits k) -> M b' b = M' b' b) ->
    gate_ok o e0 sub k kG M -> gate_ok o e0 sub k kG M'.
  Proof.
    intros HM (H1 & H2 & H3 & H4 & H5 & H6 & H7 & US & Hb & GF).
    repeat (split; [assumption|]). exists US. split; [exact Hb|].
    intros b w xs ys Hbb Hw Fx Fy. destruct (GF b w xs ys Hbb Hw Fx Fy) as [G1 G2]. split; [|exact G2].
    intros b' Hb' E. rewrite <- HM by assumption. apply G1; assumption.
  Qed.

  (* ---- single-qubit gates: any 2 x 2 array handed to Unitary ---- *)
  Lemma unitary_circ_wfh (V : @mat T) : WFH (unitary_circ 2 V) /\ Forall swnd (c_spec (unitary_circ 2 V)).
  Proof.
    split.
    - split; [|split; constructor]. constructor; cbn; try constructor; [|constructor]. constructor; lia.
    - repeat constructor.
  Qed.

  Lemma zstates_2_1 t : In t (zstates 2 1) -> undr t <> None.
  Proof. intros [<-|[<-|[]]]; discriminate. Qed.

  Theorem unitary2_gate_ok (rows : list (list T)) :
    exists gt, compile_gate o (Ok [OUnitary 0 2 rows]) 0 = Ok gt /\
      g_circ gt = unitary_circ 2 (of_rows cq rows) /\
      gate_ok o e0 (g_circ gt) 1 (k1 cq) (m1_of (of_rows cq rows)).
  Proof.
    destruct (unitary2_acts o rows (of_rows cq rows) (fun i j _ _ => eq_refl)) as (gt & Hg & Hi & Ho & Hn & Hact).
    exists gt. split; [exact Hg|].
    assert (Hc : g_circ gt = unitary_circ 2 (of_rows cq rows) /\ build o e0 (g_circ gt) = Ok (2, g_U gt)).
    { revert Hg. unfold compile_gate. cbn [bind run step wset first_err fold_right wget Nat.eqb].
      cbn [build unitary_circ c_spec c_n cadd_list fold_left cadd bind]. intros Hg. injection Hg as <-. split; reflexivity. }
    destruct Hc as [Hc Hb]. split; [exact Hc|].
    destruct (unitary_circ_wfh (of_rows cq rows)) as [W1 W2].
    apply (gate_ok_of_c13 o e0 gt 1 (k1 cq) (m1_of (of_rows cq rows))).
    - split.
      + intros b b' Hb0 Hb'. rewrite (Hact b b' Hb0 Hb'). unfold m1_of. rewrite (cq_mul_1_l o). reflexivity.
      + intros b t _ Ht Hu. exfalso. exact (zstates_2_1 t Ht Hu).
    - rewrite Hc. exact W1.
    - rewrite Hc. exact W2.
    - lia.
    - rewrite Hi, Hn. reflexivity.
    - rewrite Hi, Ho. reflexivity.
    - rewrite Hi, Ho. reflexivity.
    - rewrite Hi. intros kv [].
    - rewrite Hn. exact Hb.
  Qed.

  (* ---- SWAP ---- *)
  Definition m_swap (qa qb : nat) : qmat T := fun b' b => delta cq b' (swapbits qa qb b).

  Theorem swap_gate_ok (qa qb : nat) : qa <> qb ->
    exists gt, gate_SWAP o (zq (2 * qa) (2 * qa + 1)) (zq (2 * qb) (2 * qb + 1)) = Ok gt /\
      gate_ok o e0 (g_circ gt) (S (Nat.max qa qb)) (k1 cq) (m_swap qa qb).
  Proof.
    intros Hne. destruct (swap_gate_dual_rail o qa qb Hne) as (gt & Hg & Hn & Hi & Ho & _ & Hb & W1 & W2 & Hamp).
    cbv zeta in Hn, Hb, Hamp. set (k := S (Nat.max qa qb)) in *.
    exists gt. split; [exact Hg|].
    split; [exact W1|]. split; [exact W2|]. split; [lia|]. split; [rewrite Hi, Hn; cbn [length]; lia|].
    split; [rewrite Hi, Ho; reflexivity|]. split; [rewrite Hi, Ho; reflexivity|].
    split; [rewrite Hi; intros kv []|]. exists (g_U gt). split; [rewrite Hn; exact Hb|].
    intros b w xs ys Hbb Hw Fx Fy. rewrite Hn, Hi in Fx. rewrite Hn, Ho in Fy.
    assert (Lb : length b = k) by (apply in_bits_length; exact Hbb).
    assert (Ld : length (drn b) = 2 * k) by (rewrite DualRailFull.drn_length; lia).
    rewrite (full_st_nil _ _ _ Ld Fx), (full_st_nil _ _ _ Hw Fy). 
    assert (HA : amp_perm cq (g_U gt) (drn b) w = if nlist_eqb w (drn (swapbits qa qb b)) then k1 cq else k0 cq)
      by (exact (Hamp b w Hbb Hw)).
    rewrite HA.
    assert (Hs : In (swapbits qa qb b) (bits k)) by (apply in_bits_length; rewrite swapbits_length; exact Lb).
    split.
    - intros b' Hb' ->. unfold m_swap, delta. destruct (bits_eqb b' (swapbits qa qb b)) eqn:E.
      + apply bits_eqb_eq in E. subst b'. rewrite nlist_eqb_refl. symmetry. apply (cq_mul_1_l o).
      + destruct (nlist_eqb (drn b') (drn (swapbits qa qb b))) eqn:E'.
        * apply nlist_eqb_eq, drn_inj in E'. subst b'. rewrite (proj2 (bits_eqb_eq _ _) eq_refl) in E. discriminate.
        * symmetry. apply (cq_mul_0_r o).
    - intros Hnd. destruct (nlist_eqb w (drn (swapbits qa qb b))) eqn:E; [|reflexivity].
      apply nlist_eqb_eq in E. exfalso. exact (Hnd _ Hs E).
  Qed.

  (* the SWAP gate on the first k qubits, composed after V *)
  Lemma lift_swap_eq qa qb k nq (V : qmat T) b' b : qa < k -> qb < k -> k <= nq -> In b' (bits nq) ->
    lift_blk cq (m_swap qa qb) 0 k V b' b = lift_swap qa qb V b' b.
  Proof.
    intros Ha Hb Hk Hb'. assert (Lb' : length b' = nq) by (apply in_bits_length; exact Hb').
    unfold lift_blk, lift_swap.
    assert (Ls : length (slice b' 0 k) = k) by (apply slice_length; lia).
    set (x0 := swapbits qa qb (slice b' 0 k)).
    assert (Lx0 : length x0 = k) by (unfold x0; rewrite swapbits_length; exact Ls).
    rewrite (suml_collapse (r:=cq) (bits k) [x0] (fun x => x)).
    - cbn [suml fold_right]. unfold m_swap, delta, x0.
      rewrite swapbits_invol by lia. rewrite (proj2 (bits_eqb_eq _ _) eq_refl).
      rewrite (splice_swapbits qa qb k b') by lia.
      destruct (cplx_ring o) as [_ _ _ _ Rm1 _ _ _ _].
      transitivity (kmul cq (k1 cq) (V (swapbits qa qb b') b)); [|apply (cq_mul_1_l o)].
      generalize (kmul cq (k1 cq) (V (swapbits qa qb b') b)). intros z.
      change (kadd (cplx o) z (k0 (cplx o)) = z). destruct (cplx_ring o) as [R0 Rc _ _ _ _ _ _ _]. rewrite Rc. apply R0.
    - apply bits_nodup.
    - repeat constructor. intros [].
    - intros x [<-|[]]. apply in_bits_length. exact Lx0.
    - intros x Hx Hn. unfold m_swap, delta.
      destruct (bits_eqb (slice b' 0 k) (swapbits qa qb x)) eqn:E; [|apply (cq_mul_0_l o)].
      exfalso. apply Hn. left. unfold x0. apply bits_eqb_eq in E. rewrite E.
      apply in_bits_length in Hx. cbv beta. apply swapbits_invol; lia.
  Qed.

  (* ------------------------------------------------------------------ *)
  (* the emitted program run through the Circuit model                   *)
  (* ------------------------------------------------------------------ *)
  (* the irrational constants of the gate library and the rotation amplitudes:
     ang i = (cos(theta/2), sin(theta/2)) of instruction i ((cos theta, sin theta) for p) *)
  Variables (h r2 r3i qi gm r7 : K) (ang : nat -> K * K).
  Hypothesis Hh : kmul o h h = kq o 1 2.

  Definition sq_of (g : gname) : option sq :=
    match g with
    | Gh => Some gH | Gx => Some gX | Gy => Some gY | Gz => Some gZ | Gs => Some gS | Gsdg => Some gSadj
    | Gt => Some gT | Gtdg => Some gTadj | Gsx => Some gSX | _ => None
    end.
  Definition rq_of (g : gname) : option rq :=
    match g with Grx => Some gRx | Gry => Some gRy | Grz => Some gRz | Gp => Some gP | _ => None end.

  (* the lightworks.qubit object the converter adds for an emitted operation *)
  Definition gate_of (op : eop) : res (@gate K) :=
    match op with
    | EGate1 g i _ =>
        match sq_of g, rq_of g with
        | Some s, _ => gate_sq o h s
        | None, Some r => gate_rq o r (fst (ang i)) (snd (ang i))
        | None, None => Err KeyError
        end
    | ESwap _ a0 a1 b0 b1 => gate_SWAP o (zq a0 a1) (zq b0 b1)
    | ECZ true _ => gate_CZ_Heralded o h r2 qi gm
    | ECZ false _ => gate_CZ o r2 r3i
    | ECX true t _ => gate_CNOT_Heralded o h r2 qi gm (Z.of_nat t)
    | ECX false t _ => gate_CNOT o h r2 r3i (Z.of_nat t)
    | ECCZ _ => gate_CCZ o h r2 r3i r7
    | ECCX t _ => gate_CCNOT o h r2 r3i r7 (Z.of_nat t)
    end.
  Definition op_mode (op : eop) : nat :=
    match op with
    | EGate1 _ _ m | ECZ _ m | ECX _ _ m | ECCZ m | ECCX _ m => m
    | ESwap _ _ _ _ _ => 0
    end.
  (* circuit.add(gate, mode)  (group = False, as the converter calls it) *)
  Definition emit_step (c : circ) (op : eop) : res circ :=
    do gt <- gate_of op; op_add o c (g_circ gt) (Z.of_nat (op_mode op)) false.
  Definition run_emitted (ops : list eop) (c : circ) : res circ :=
    fold_left (fun r op => do c0 <- r; emit_step c0 op) ops (Ok c).

  Lemma run_emitted_err ops e : fold_left (fun r op => do c0 <- r; emit_step c0 op) ops (Err e) = Err e.
  Proof. induction ops as [|op ops IH]; [reflexivity|]. cbn [fold_left bind]. exact IH. Qed.

  (* ---- qubit-level meaning of the single-qubit instructions ---- *)
  Definition m1 (g : gname) (i : nat) : qmat T :=
    match sq_of g, rq_of g with
    | Some s, _ => m1_of (named_sq o h s)
    | None, Some r => m1_of (named_rq o r (fst (ang i)) (snd (ang i)))
    | None, None => qid cq
    end.

  Lemma sq_rows_named (s : sq) i j : i < 2 -> j < 2 -> of_rows cq (sq_rows o h s) i j = named_sq o h s i j.
  Proof.
    intros Hi Hj. pose proof Hh as Hh'. unfold kq in Hh'.
    destruct i as [|[|i]]; [| |lia]; (destruct j as [|[|j]]; [| |lia]); destruct s;
      cbn; unfold cmul, Num.cadd, csub, copp, re, im, kq; cbn; try rewrite <- Hh'; f_equal; ring.
  Qed.

  Lemma rq_rows_named (g : rq) c s i j : i < 2 -> j < 2 -> of_rows cq (rq_rows o g c s) i j = named_rq o g c s i j.
  Proof.
    intros Hi Hj.
    destruct i as [|[|i]]; [| |lia]; (destruct j as [|[|j]]; [| |lia]); destruct g;
      cbn; unfold cmul, Num.cadd, csub, copp, re, im, kq; cbn; f_equal; ring.
  Qed.

  (* ---- the heralded two-qubit gates: hypotheses in the form C13 proves them, packaged by
          [gate_ok_of_c13] (instantiated for tower B in Properties/C12.v) ---- *)
  Variables (gtCZ gtCX0 gtCX1 : @gate K) (kcz kcx0 kcx1 : T).
  Hypothesis HCZ : gate_CZ_Heralded o h r2 qi gm = Ok gtCZ /\ gate_ok o e0 (g_circ gtCZ) 2 kcz (spec_CZ cq).
  Hypothesis HCX0 : gate_CNOT_Heralded o h r2 qi gm 0%Z = Ok gtCX0 /\ gate_ok o e0 (g_circ gtCX0) 2 kcx0 (spec_CNOT cq 0).
  Hypothesis HCX1 : gate_CNOT_Heralded o h r2 qi gm 1%Z = Ok gtCX1 /\ gate_ok o e0 (g_circ gtCX1) 2 kcx1 (spec_CNOT cq 1).

  (* the scalar of one emitted operation, and their product *)
  Definition op_k (op : eop) : T :=
    match op with
    | ECZ true _ => kcz
    | ECX true 0 _ => kcx0
    | ECX true _ _ => kcx1
    | _ => k1 cq
    end.
  Definition kprod (ops : list eop) (K0 : T) : T := fold_left (fun a op => kmul cq a (op_k op)) ops K0.

  (* an operation the converter emits in heralded-only mode, inside a circuit of nq qubits *)
  Definition op_ok (nq : nat) (op : eop) : Prop :=
    match op with
    | EGate1 g i m => exists q, m = 2 * q /\ q < nq /\ (is_single g = true \/ is_rot g = true)
    | ESwap _ a0 a1 b0 b1 =>
        exists qa qb, a0 = 2 * qa /\ a1 = 2 * qa + 1 /\ b0 = 2 * qb /\ b1 = 2 * qb + 1 /\
                      qa < nq /\ qb < nq /\ qa <> qb
    | ECZ true m => exists q, m = 2 * q /\ q + 1 < nq
    | ECX true t m => exists q, m = 2 * q /\ q + 1 < nq /\ t <= 1
    | _ => False
    end.

  Lemma op_ok_intro nq gs op : op_wf nq gs op -> op_heralded op -> swap_ok op -> op_ok nq op.
  Proof.
    destruct op as [g i m|r a0 a1 b0 b1|hh m|hh t m|m|t m]; cbn [op_wf op_heralded swap_ok op_ok].
    - intros (q & -> & Hq & [Hs|[Hr _]]) _ _; exists q; auto.
    - intros (qa & qb & -> & -> & -> & -> & Ha & Hb & _) _ Hne. exists qa, qb. repeat split; auto; lia.
    - intros Hw -> _. exact Hw.
    - intros Hw -> _. exact Hw.
    - intros _ [].
    - intros _ [].
  Qed.

  (* the qubit-level operator of a (sparse) state of the semantics of Proofs/DualRailSem.v *)
  Definition Vs (s : @sst T) : qmat T := fun b' b => sval cq s (lab b') (lab b).

  Lemma sq_of_single g : is_single g = true -> exists s, sq_of g = Some s.
  Proof. destruct g; try discriminate; intros _; eexists; reflexivity. Qed.
  Lemma rq_of_rot g : is_rot g = true -> sq_of g = None /\ exists r, rq_of g = Some r.
  Proof. destruct g; try discriminate; intros _; (split; [reflexivity|eexists; reflexivity]). Qed.

  Lemma idx1_lt b : idx1 b < 2.
  Proof. unfold idx1. destruct (hd false b); lia. Qed.

  (* one circuit.add of the converter *)
  Lemma emit_step_acts nq op (c : circ) (s : @sst T) (Kc : T) :
    op_ok nq op -> dr_acts o e0 c nq Kc (Vs s) ->
    exists c', emit_step c op = Ok c' /\
               dr_acts o e0 c' nq (kmul cq Kc (op_k op)) (Vs (den sst (sact cq m1) ssw op s)).
  Proof.
    intros Hop HA. pose proof HA as (Sh & _).
    destruct op as [g i m|r a0 a1 b0 b1|[|] m|[|] t m|m|t m]; cbn [op_ok] in Hop; try contradiction.
    - (* single-qubit gate / rotation *)
      destruct Hop as (q & -> & Hq & Hg).
      assert (G : exists gt rows, gate_of (EGate1 g i (2 * q)) = compile_gate o (Ok [OUnitary 0 2 rows]) 0 /\
                  compile_gate o (Ok [OUnitary 0 2 rows]) 0 = Ok gt /\
                  gate_ok o e0 (g_circ gt) 1 (k1 cq) (m1 g (pidx g i))).
      { destruct Hg as [Hs|Hr].
        - destruct (sq_of_single g Hs) as [s' Es].
          destruct (unitary2_gate_ok (sq_rows o h s')) as (gt & Hgt & _ & Hok).
          exists gt, (sq_rows o h s'). split; [cbn [gate_of]; rewrite Es; reflexivity|]. split; [exact Hgt|].
          eapply gate_ok_ext; [|exact Hok]. intros b b' _ _. unfold m1, m1_of. rewrite Es.
          apply sq_rows_named; apply idx1_lt.
        - destruct (rq_of_rot g Hr) as [En [r' Er]].
          destruct (unitary2_gate_ok (rq_rows o r' (fst (ang i)) (snd (ang i)))) as (gt & Hgt & _ & Hok).
          exists gt, (rq_rows o r' (fst (ang i)) (snd (ang i))). split; [cbn [gate_of]; rewrite En, Er; reflexivity|].
          split; [exact Hgt|].
          eapply gate_ok_ext; [|exact Hok]. intros b b' _ _. unfold m1, m1_of, pidx. rewrite En, Er, Hr.
          apply rq_rows_named; apply idx1_lt. }
      destruct G as (gt & rows & G1 & G2 & Hok).
      pose proof Hok as (_ & _ & _ & HnS & _).
      destruct (block_accept o c (g_circ gt) nq q 1 false Sh HnS ltac:(lia) ltac:(lia)) as [c' Hc'].
      exists c'. split; [unfold emit_step; rewrite G1, G2; cbn [bind op_mode]; exact Hc'|].
      pose proof (block_step o ninv ninv_spec e0 c (g_circ gt) c' nq q 1 Kc (k1 cq) (Vs s) _ false HA Hok ltac:(lia) Hc') as HB.
      cbn [op_k]. eapply dr_acts_ext; [|exact HB].
      intros b b' Hb Hb'. cbn [den]. unfold Vs, lift_blk. rewrite half_double.
      symmetry. apply (sval_act1 cq m1 g (pidx g i) q nq s b' (lab b)); [tauto|exact Hq|exact Hb'].
    - (* SWAP *)
      destruct Hop as (qa & qb & -> & -> & -> & -> & Ha & Hb & Hne).
      destruct (swap_gate_ok qa qb Hne) as (gt & Hgt & Hok).
      pose proof Hok as (_ & _ & _ & HnS & _).
      set (k := S (Nat.max qa qb)) in *.
      destruct (block_accept o c (g_circ gt) nq 0 k false Sh HnS ltac:(lia) ltac:(lia)) as [c' Hc'].
      exists c'. split; [unfold emit_step; cbn [gate_of]; rewrite Hgt; cbn [bind op_mode]; exact Hc'|].
      pose proof (block_step o ninv ninv_spec e0 c (g_circ gt) c' nq 0 k Kc (k1 cq) (Vs s) _ false HA Hok ltac:(lia) Hc') as HB.
      cbn [op_k]. eapply dr_acts_ext; [|exact HB].
      intros b b' Hb0 Hb'. cbn [den]. rewrite !half_double.
      rewrite (lift_swap_eq qa qb k nq (Vs s) b' b) by (try exact Hb'; lia).
      unfold lift_swap, Vs. symmetry. apply (sval_sw cq qa qb nq s b' (lab b) Ha Hb Hb').
    - (* CZ_Heralded *)
      destruct Hop as (q & -> & Hq). destruct HCZ as [Hgt Hok].
      pose proof Hok as (_ & _ & _ & HnS & _).
      destruct (block_accept o c (g_circ gtCZ) nq q 2 false Sh HnS ltac:(lia) ltac:(lia)) as [c' Hc'].
      exists c'. split; [unfold emit_step; cbn [gate_of]; rewrite Hgt; cbn [bind op_mode]; exact Hc'|].
      pose proof (block_step o ninv ninv_spec e0 c (g_circ gtCZ) c' nq q 2 Kc kcz (Vs s) _ false HA Hok ltac:(lia) Hc') as HB.
      cbn [op_k]. eapply dr_acts_ext; [|exact HB].
      intros b b' Hb0 Hb'. cbn [den]. unfold Vs, lift_blk. rewrite half_double.
      symmetry. apply (sval_cz cq m1 0 q nq s b' (lab b) Hq Hb').
    - (* CNOT_Heralded *)
      destruct Hop as (q & -> & Hq & Ht).
      assert (G : exists gt kG, gate_of (ECX true t (2 * q)) = Ok gt /\ op_k (ECX true t (2 * q)) = kG /\
                                gate_ok o e0 (g_circ gt) 2 kG (spec_CNOT cq t)).
      { destruct t as [|[|t]]; [| |lia].
        - exists gtCX0, kcx0. destruct HCX0 as [H1 H2]. split; [exact H1|]. split; [reflexivity|exact H2].
        - exists gtCX1, kcx1. destruct HCX1 as [H1 H2]. split; [exact H1|]. split; [reflexivity|exact H2]. }
      destruct G as (gt & kG & Hgt & Hk & Hok). rewrite Hk.
      pose proof Hok as (_ & _ & _ & HnS & _).
      destruct (block_accept o c (g_circ gt) nq q 2 false Sh HnS ltac:(lia) ltac:(lia)) as [c' Hc'].
      exists c'. split; [unfold emit_step; rewrite Hgt; cbn [bind op_mode]; exact Hc'|].
      pose proof (block_step o ninv ninv_spec e0 c (g_circ gt) c' nq q 2 Kc kG (Vs s) _ false HA Hok ltac:(lia) Hc') as HB.
      eapply dr_acts_ext; [|exact HB].
      intros b b' Hb0 Hb'. cbn [den]. unfold Vs, lift_blk. rewrite half_double.
      symmetry. apply (sval_cx cq m1 0 q t nq s b' (lab b) Ht Hq Hb').
  Qed.

  Lemma run_emitted_acts nq ops : forall (c : circ) (s : @sst T) (Kc : T),
    Forall (op_ok nq) ops -> dr_acts o e0 c nq Kc (Vs s) ->
    exists c', run_emitted ops c = Ok c' /\
               dr_acts o e0 c' nq (kprod ops Kc) (Vs (run_ops sst (sact cq m1) ssw ops s)).
  Proof.
    induction ops as [|op ops IH]; intros c s Kc Hok HA.
    - exists c. split; [reflexivity|exact HA].
    - inversion Hok as [|? ? H1 H2]; subst.
      destruct (emit_step_acts nq op c s Kc H1 HA) as (c1 & E1 & A1).
      destruct (IH c1 _ _ H2 A1) as (c' & E' & A').
      exists c'. split; [|exact A'].
      unfold run_emitted in *. cbn [fold_left bind]. rewrite E1. exact E'.
  Qed.

  (* ---- D3 ---- *)
  (* the qubit-level operator of the SOURCE program: the instructions applied in order to the
     identity, in the semantics [sact]/[ssw] (single-qubit matrices m1 = the matrices C13 names,
     cz/cx = spec_CZ / spec_CNOT, swap = exchange; see sval_act1, sval_cz, sval_cx, sval_sw) *)
  Definition Vsrc (nq : nat) (gs : list qgate) : qmat T :=
    Vs (run_src sst (sact cq m1) 0 gs (s_id cq nq)).

  Theorem convert_heralded_correct nq gs ops rules :
    Forall (ConvertP.in_range nq) gs -> Forall (fun g => NoDup (g_qubits g)) gs ->
    convert false gs = Ok (ops, rules) ->
    rules = None /\
    exists c, run_emitted ops (new_circ (2 * nq)) = Ok c /\
              acts_as_dual_rail o e0 c nq (kprod ops (k1 cq)) (Vsrc nq gs).
  Proof.
    intros Hr Hd Hc. destruct (heralded_only gs ops rules Hc) as [Hrules Hher].
    split; [exact Hrules|].
    destruct (emitted_wf nq false gs ops rules Hr Hc) as [Hwf _].
    pose proof (convert_swap_ok false gs ops rules Hd Hc) as Hsw.
    assert (Hok : Forall (op_ok nq) ops).
    { rewrite Forall_forall in *. intros op Hop. eapply op_ok_intro; eauto. }
    assert (A0 : dr_acts o e0 (new_circ (2 * nq)) nq (k1 cq) (Vs (s_id cq nq))).
    { eapply dr_acts_ext; [|apply new_circ_acts]. intros b b' Hb Hb'. unfold Vs, qid.
      symmetry. exact (@sval_id T cq (cplx_star o) nq b b' Hb Hb'). all: assumption. }
    destruct (run_emitted_acts nq ops _ _ _ Hok A0) as (c & Ec & Ac).
    exists c. split; [exact Ec|]. apply acts_iff. unfold Vsrc.
    rewrite <- (sem_emitted_denotes_source cq m1 false gs ops rules (s_id cq nq) Hd Hc). exact Ac.
  Qed.

  (* ---- |K|^2 is a unit: 16^(number of heralded two-qubit gates) * K * conj K = 1 ---- *)
  Definition op_w (op : eop) : T :=
    match op with ECZ true _ | ECX true _ _ => kofZ cq 16 | _ => k1 cq end.
  Definition wprod (ops : list eop) (w0 : T) : T := fold_left (fun a op => kmul cq a (op_w op)) ops w0.

  Hypothesis Ncz : kmul cq (kofZ cq 16) (kmul cq kcz (kconj cq kcz)) = k1 cq.
  Hypothesis Ncx0 : kmul cq (kofZ cq 16) (kmul cq kcx0 (kconj cq kcx0)) = k1 cq.
  Hypothesis Ncx1 : kmul cq (kofZ cq 16) (kmul cq kcx1 (kconj cq kcx1)) = k1 cq.

  Lemma op_k_norm op : kmul cq (op_w op) (kmul cq (op_k op) (kconj cq (op_k op))) = k1 cq.
  Proof.
    pose proof (cq_norm_one o) as E1.
    destruct op as [g i m|r a0 a1 b0 b1|[|] m|[|] [|t] m|m|t m]; cbn [op_w op_k]; assumption.
  Qed.

  Theorem kprod_unit ops : forall K0 w0 : T,
    kmul cq (kmul cq K0 (kconj cq K0)) w0 = k1 cq ->
    kmul cq (kmul cq (kprod ops K0) (kconj cq (kprod ops K0))) (wprod ops w0) = k1 cq.
  Proof.
    induction ops as [|op ops IH]; intros K0 w0 H; [exact H|].
    unfold kprod, wprod in *. cbn [fold_left]. apply IH.
    pose proof (op_k_norm op) as N.
    transitivity (kmul cq (kmul cq (kmul cq K0 (kconj cq K0)) w0)
                          (kmul cq (op_w op) (kmul cq (op_k op) (kconj cq (op_k op))))).
    - exact (cq_norm_step o K0 (op_k op) w0 (op_w op)).
    - rewrite H, N. apply (cq_mul_1_l o).
  Qed.
End Conv.
