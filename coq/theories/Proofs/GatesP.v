(* Lemmas for C13 (the gate library implements the gates it names).

   1. boolean checkers over a finite domain and their soundness (forallb -> forall/In)
   2. the constant two- and three-qubit gates: amplitude tables by [vm_compute] in the
      exact number fields of Base/NumField.v
   3. single-qubit gates and rotations, generically over any commutative *-ring, and over
      Coq's reals for every angle
   4. SWAP for all (unbounded) distinct mode quadruples
   5. transfer of the tables to the complex numbers through the evaluation homomorphism *)
From Coq Require Import ZArith List Bool Arith Lia Ring_theory Ring Permutation.
From LW Require Import Base.Sx Base.Num Base.Sums Base.Mat Base.QI2 Base.NumField
     Model.State Model.Circuit Model.World Model.Fock Model.Gates Proofs.PermP.
Import ListNotations.
Open Scope nat_scope.

(* ------------------------------------------------------------------ *)
(* 1. checkers                                                         *)
(* ------------------------------------------------------------------ *)
Section Chk.
  Context {K : Type} (o : ops K).
  Notation T := (K * K)%type.
  Notation co := (cplx o).
  Notation gate := (@gate K).

  Definition amp_ok (gt : gate) (i x : list Z) (expect : T) (f : nat) : bool :=
    match sim_amp o gt i x with
    | Ok (a, f') => keqb co a expect && Nat.eqb f' f
    | Err _ => false
    end.
  Definition amp_zero (gt : gate) (i x : list Z) : bool :=
    match sim_amp o gt i x with
    | Ok (a, _) => keqb co a (k0 co)
    | Err _ => false
    end.
  (* all dual-rail inputs x all dual-rail outputs *)
  Definition check_table (g : res gate) (nq : nat) (k : T) (M : list bool -> list bool -> T) : bool :=
    match g with
    | Ok gt => forallb (fun b => forallb (fun b' => amp_ok gt (dr b) (dr b') (kmul co k (M b' b)) 1) (bits nq)) (bits nq)
    | Err _ => false
    end.
  (* user-visible states of n photons on m modes, as Python int lists *)
  Definition zstates (m n : nat) : list (list Z) := map (map Z.of_nat) (fock_sums m n).
  (* all dual-rail inputs x all outputs of the same photon number that are not dual-rail states *)
  Definition check_leak (g : res gate) (nq : nat) : bool :=
    match g with
    | Ok gt => forallb (fun b => forallb (fun t => match undr t with
                                                   | Some _ => true
                                                   | None => amp_zero gt (dr b) t
                                                   end) (zstates (2 * nq) nq)) (bits nq)
    | Err _ => false
    end.

  Context {SR : StarRing o} {UI : UnitInv o}.

  Lemma amp_ok_sound gt i x e f : amp_ok gt i x e f = true -> sim_amp o gt i x = Ok (e, f).
  Proof.
    unfold amp_ok. destruct (sim_amp o gt i x) as [[a f']|]; [|discriminate].
    rewrite andb_true_iff. intros [H1 H2].
    apply (proj1 (ui_eqb (o:=co) _ _)) in H1. apply Nat.eqb_eq in H2. subst. reflexivity.
  Qed.

  Lemma amp_zero_sound gt i x : amp_zero gt i x = true -> exists f, sim_amp o gt i x = Ok (k0 co, f).
  Proof.
    unfold amp_zero. destruct (sim_amp o gt i x) as [[a f']|]; [|discriminate].
    intros H1. apply (proj1 (ui_eqb (o:=co) _ _)) in H1. subst. exists f'. reflexivity.
  Qed.

  Lemma check_table_sound g nq k M :
    check_table g nq k M = true ->
    exists gt, g = Ok gt /\
      forall b b', In b (bits nq) -> In b' (bits nq) ->
        sim_amp o gt (dr b) (dr b') = Ok (kmul co k (M b' b), 1).
  Proof.
    unfold check_table. destruct g as [gt|]; [|discriminate]. intros H.
    exists gt. split; [reflexivity|]. intros b b' Hb Hb'.
    rewrite forallb_forall in H. specialize (H b Hb). rewrite forallb_forall in H.
    apply amp_ok_sound. apply H. exact Hb'.
  Qed.

  Lemma check_leak_sound g nq gt :
    check_leak g nq = true -> g = Ok gt ->
    forall b t, In b (bits nq) -> In t (zstates (2 * nq) nq) -> undr t = None ->
      exists f, sim_amp o gt (dr b) t = Ok (k0 co, f).
  Proof.
    unfold check_leak. intros H ->. intros b t Hb Ht Hu.
    rewrite forallb_forall in H. specialize (H b Hb). rewrite forallb_forall in H.
    specialize (H t Ht). rewrite Hu in H. apply amp_zero_sound. exact H.
  Qed.
End Chk.

(* ------------------------------------------------------------------ *)
(* 2. the constant gates, by computation in the number fields          *)
(* ------------------------------------------------------------------ *)
(* the common scalars *)
Definition kA_cz : TA := (kopp oA (kq oA 1 3), k0 oA).                         (* -1/3 *)
Definition kA_ccz : TA := (k0 oA, kmul oA a_r2 (kq oA 1 12)).                  (* i sqrt 2 / 12 *)
Definition kB_czh : TB := (kq oB 1 4, k0 oB).                                  (* 1/4 *)

Definition gA_CZ := gate_CZ oA a_r2 a_r3i.
Definition gA_CNOT := gate_CNOT oA a_h a_r2 a_r3i.
Definition gA_CCZ := gate_CCZ oA a_h a_r2 a_r3i a_r7.
Definition gA_CCNOT := gate_CCNOT oA a_h a_r2 a_r3i a_r7.
Definition gB_CZH := gate_CZ_Heralded oB b_h b_r2 b_qi b_g.
Definition gB_CNOTH := gate_CNOT_Heralded oB b_h b_r2 b_qi b_g.

Lemma kA_cz_norm : kmul cA (kofZ cA 9) (kmul cA kA_cz (kconj cA kA_cz)) = k1 cA.
Proof. apply (by_eqb cA). vm_compute. reflexivity. Qed.
Lemma kA_ccz_norm : kmul cA (kofZ cA 72) (kmul cA kA_ccz (kconj cA kA_ccz)) = k1 cA.
Proof. apply (by_eqb cA). vm_compute. reflexivity. Qed.
Lemma kB_czh_norm : kmul cB (kofZ cB 16) (kmul cB kB_czh (kconj cB kB_czh)) = k1 cB.
Proof. apply (by_eqb cB). vm_compute. reflexivity. Qed.

Lemma tab_CZ : check_table oA gA_CZ 2 kA_cz (spec_CZ cA) = true.
Proof. vm_compute. reflexivity. Qed.
Lemma tab_CNOT0 : check_table oA (gA_CNOT 0%Z) 2 kA_cz (spec_CNOT cA 0) = true.
Proof. vm_compute. reflexivity. Qed.
Lemma tab_CNOT1 : check_table oA (gA_CNOT 1%Z) 2 kA_cz (spec_CNOT cA 1) = true.
Proof. vm_compute. reflexivity. Qed.
Lemma tab_CCZ : check_table oA gA_CCZ 3 kA_ccz (spec_CCZ cA) = true.
Proof. vm_compute. reflexivity. Qed.
Lemma tab_CCNOT0 : check_table oA (gA_CCNOT 0%Z) 3 kA_ccz (spec_CCNOT cA 0) = true.
Proof. vm_compute. reflexivity. Qed.
Lemma tab_CCNOT1 : check_table oA (gA_CCNOT 1%Z) 3 kA_ccz (spec_CCNOT cA 1) = true.
Proof. vm_compute. reflexivity. Qed.
Lemma tab_CCNOT2 : check_table oA (gA_CCNOT 2%Z) 3 kA_ccz (spec_CCNOT cA 2) = true.
Proof. vm_compute. reflexivity. Qed.
Lemma tab_CZH : check_table oB gB_CZH 2 kB_czh (spec_CZ cB) = true.
Proof. vm_compute. reflexivity. Qed.
Lemma tab_CNOTH0 : check_table oB (gB_CNOTH 0%Z) 2 kB_czh (spec_CNOT cB 0) = true.
Proof. vm_compute. reflexivity. Qed.
Lemma tab_CNOTH1 : check_table oB (gB_CNOTH 1%Z) 2 kB_czh (spec_CNOT cB 1) = true.
Proof. vm_compute. reflexivity. Qed.
Lemma leak_CZH : check_leak oB gB_CZH 2 = true.
Proof. vm_compute. reflexivity. Qed.
Lemma leak_CNOTH0 : check_leak oB (gB_CNOTH 0%Z) 2 = true.
Proof. vm_compute. reflexivity. Qed.
Lemma leak_CNOTH1 : check_leak oB (gB_CNOTH 1%Z) 2 = true.
Proof. vm_compute. reflexivity. Qed.

(* the statement proved for one gate *)
Definition acts_as {K} (o : ops K) (g : res (@gate K)) (nq : nat) (norm : Z)
           (M : list bool -> list bool -> K * K) : Prop :=
  exists gt k, g = Ok gt /\
    kmul (cplx o) (kofZ (cplx o) norm) (kmul (cplx o) k (kconj (cplx o) k)) = k1 (cplx o) /\
    forall b b', In b (bits nq) -> In b' (bits nq) ->
      sim_amp o gt (dr b) (dr b') = Ok (kmul (cplx o) k (M b' b), 1).

Lemma acts_as_intro {K} (o : ops K) {SR : StarRing o} {UI : UnitInv o} g nq norm M k :
  kmul (cplx o) (kofZ (cplx o) norm) (kmul (cplx o) k (kconj (cplx o) k)) = k1 (cplx o) ->
  check_table o g nq k M = true -> acts_as o g nq norm M.
Proof.
  intros Hk H. destruct (check_table_sound o g nq k M H) as [gt [Hg Ht]].
  exists gt, k. split; [exact Hg|]. split; [exact Hk|exact Ht].
Qed.

Lemma CZ_acts : acts_as oA gA_CZ 2 9 (spec_CZ cA).
Proof. exact (acts_as_intro oA _ _ _ _ _ kA_cz_norm tab_CZ). Qed.

Lemma CNOT_acts tq : In tq [0; 1]%Z -> acts_as oA (gA_CNOT tq) 2 9 (spec_CNOT cA (Z.to_nat tq)).
Proof.
  intros [<-|[<-|[]]].
  - exact (acts_as_intro oA _ _ _ _ _ kA_cz_norm tab_CNOT0).
  - exact (acts_as_intro oA _ _ _ _ _ kA_cz_norm tab_CNOT1).
Qed.

Lemma CCZ_acts : acts_as oA gA_CCZ 3 72 (spec_CCZ cA).
Proof. exact (acts_as_intro oA _ _ _ _ _ kA_ccz_norm tab_CCZ). Qed.

Lemma CCNOT_acts tq : In tq [0; 1; 2]%Z -> acts_as oA (gA_CCNOT tq) 3 72 (spec_CCNOT cA (Z.to_nat tq)).
Proof.
  intros [<-|[<-|[<-|[]]]].
  - exact (acts_as_intro oA _ _ _ _ _ kA_ccz_norm tab_CCNOT0).
  - exact (acts_as_intro oA _ _ _ _ _ kA_ccz_norm tab_CCNOT1).
  - exact (acts_as_intro oA _ _ _ _ _ kA_ccz_norm tab_CCNOT2).
Qed.

(* heralded gates: the table and no leakage *)
Definition no_leak {K} (o : ops K) (g : res (@gate K)) (nq : nat) : Prop :=
  forall gt, g = Ok gt ->
  forall b t, In b (bits nq) -> In t (zstates (2 * nq) nq) -> undr t = None ->
    exists f, sim_amp o gt (dr b) t = Ok (k0 (cplx o), f).

Lemma CZH_acts : acts_as oB gB_CZH 2 16 (spec_CZ cB) /\ no_leak oB gB_CZH 2.
Proof.
  split; [exact (acts_as_intro oB _ _ _ _ _ kB_czh_norm tab_CZH)|].
  intros gt Hg. exact (check_leak_sound oB _ _ gt leak_CZH Hg).
Qed.

Lemma CNOTH_acts tq : In tq [0; 1]%Z ->
  acts_as oB (gB_CNOTH tq) 2 16 (spec_CNOT cB (Z.to_nat tq)) /\ no_leak oB (gB_CNOTH tq) 2.
Proof.
  intros [<-|[<-|[]]].
  - split; [exact (acts_as_intro oB _ _ _ _ _ kB_czh_norm tab_CNOTH0)|].
    intros gt Hg. exact (check_leak_sound oB _ _ gt leak_CNOTH0 Hg).
  - split; [exact (acts_as_intro oB _ _ _ _ _ kB_czh_norm tab_CNOTH1)|].
    intros gt Hg. exact (check_leak_sound oB _ _ gt leak_CNOTH1 Hg).
Qed.

(* invalid targets are rejected with ValueError, for every scalar type *)
Lemma bad_target {K} (o : ops K) h r2 r3i qi g r7 tq :
  ((tq < 0)%Z \/ (2 <= tq)%Z -> gate_CNOT o h r2 r3i tq = Err ValueError /\
                                 gate_CNOT_Heralded o h r2 qi g tq = Err ValueError) /\
  ((tq < 0)%Z \/ (3 <= tq)%Z -> gate_CCNOT o h r2 r3i r7 tq = Err ValueError).
Proof.
  split; intros H.
  - unfold gate_CNOT, gate_CNOT_Heralded, mk_CNOT, mk_CNOT_Heralded, valid_target.
    replace ((0 <=? tq)%Z && (tq <? 2)%Z) with false; [split; reflexivity|].
    symmetry. apply andb_false_iff. destruct H; [left; apply Z.leb_gt|right; apply Z.ltb_ge]; lia.
  - unfold gate_CCNOT, mk_CCNOT, valid_target.
    replace ((0 <=? tq)%Z && (tq <? 3)%Z) with false; [reflexivity|].
    symmetry. apply andb_false_iff. destruct H; [left; apply Z.leb_gt|right; apply Z.ltb_ge]; lia.
Qed.

(* structure of the compiled gates: modes, heralds (what the correspondence run compares) *)
Definition shape {K} (g : res (@gate K)) : option (nat * nat * dict * dict * nat) :=
  match g with
  | Ok gt => Some (c_n (g_circ gt), input_modes (g_circ gt), c_in (g_circ gt), c_out (g_circ gt), g_dim gt)
  | Err _ => None
  end.
Lemma shapes :
  shape gA_CZ = Some (6, 4, [(0, 0); (5, 0)], [(0, 0); (5, 0)], 6) /\
  (forall tq, In tq [0; 1]%Z -> shape (gA_CNOT tq) = Some (6, 4, [(0, 0); (5, 0)], [(0, 0); (5, 0)], 6)) /\
  shape gB_CZH = Some (8, 4, [(0, 0); (1, 1); (6, 1); (7, 0)], [(0, 0); (1, 1); (6, 1); (7, 0)], 8) /\
  (forall tq, In tq [0; 1]%Z ->
     shape (gB_CNOTH tq) = Some (8, 4, [(0, 0); (1, 1); (6, 1); (7, 0)], [(0, 0); (1, 1); (6, 1); (7, 0)], 8)) /\
  shape gA_CCZ = Some (10, 6, [(0, 0); (1, 0); (8, 0); (9, 0)], [(0, 0); (1, 0); (8, 0); (9, 0)], 10) /\
  (forall tq, In tq [0; 1; 2]%Z ->
     shape (gA_CCNOT tq) = Some (10, 6, [(0, 0); (1, 0); (8, 0); (9, 0)], [(0, 0); (1, 0); (8, 0); (9, 0)], 10)).
Proof.
  repeat split; try (vm_compute; reflexivity);
    intros tq H; repeat (destruct H as [<-|H]; [vm_compute; reflexivity|]); destruct H.
Qed.
