(* Lemmas for C13 (the gate library implements the gates it names).

   1. boolean checkers over a finite domain and their soundness (forallb -> forall/In)
   2. the constant two- and three-qubit gates: amplitude tables by [vm_compute] in the
      exact number fields of Base/NumField.v
   3. single-qubit gates and rotations, generically over any commutative *-ring, and over
      Coq's reals for every angle
   4. SWAP for all (unbounded) distinct mode quadruples
   5. transfer of the tables to the complex numbers through the evaluation homomorphism *)
From Coq Require Import ZArith List Bool Arith Lia Ring_theory Ring Permutation Reals Lra.
From LW Require Import Base.Sx Base.Num Base.Sums Base.Mat Base.QI2 Base.NumField Base.RInst
     Model.State Model.Circuit Model.World Model.Fock Model.Gates Proofs.PermP.
Import ListNotations.
Open Scope nat_scope.

(* ------------------------------------------------------------------ *)
(* 1. checkers                                                         *)
(* ------------------------------------------------------------------ *)
Section Chk.
  Context {K : Type} (o : ops K).
  Notation T := (K * K)%type.
  Notation co := (cplx o).
  Notation gate := (@gate K).

  Definition amp_ok (gt : gate) (i x : list Z) (expect : T) (f : nat) : bool :=
    match sim_amp o gt i x with
    | Ok (a, f') => keqb co a expect && Nat.eqb f' f
    | Err _ => false
    end.
  Definition amp_zero (gt : gate) (i x : list Z) : bool :=
    match sim_amp o gt i x with
    | Ok (a, _) => keqb co a (k0 co)
    | Err _ => false
    end.
  (* all dual-rail inputs x all dual-rail outputs *)
  Definition check_table (g : res gate) (nq : nat) (k : T) (M : list bool -> list bool -> T) : bool :=
    match g with
    | Ok gt => forallb (fun b => forallb (fun b' => amp_ok gt (dr b) (dr b') (kmul co k (M b' b)) 1) (bits nq)) (bits nq)
    | Err _ => false
    end.
  (* user-visible states of n photons on m modes, as Python int lists *)
  Definition zstates (m n : nat) : list (list Z) := map (map Z.of_nat) (fock_sums m n).
  (* all dual-rail inputs x all outputs of the same photon number that are not dual-rail states *)
  Definition check_leak (g : res gate) (nq : nat) : bool :=
    match g with
    | Ok gt => forallb (fun b => forallb (fun t => match undr t with
                                                   | Some _ => true
                                                   | None => amp_zero gt (dr b) t
                                                   end) (zstates (2 * nq) nq)) (bits nq)
    | Err _ => false
    end.

  Context {SR : StarRing o} {UI : UnitInv o}.

  Lemma amp_ok_sound gt i x e f : amp_ok gt i x e f = true -> sim_amp o gt i x = Ok (e, f).
  Proof.
    unfold amp_ok. destruct (sim_amp o gt i x) as [[a f']|]; [|discriminate].
    rewrite andb_true_iff. intros [H1 H2].
    apply (proj1 (ui_eqb (o:=co) _ _)) in H1. apply Nat.eqb_eq in H2. subst. reflexivity.
  Qed.

  Lemma amp_zero_sound gt i x : amp_zero gt i x = true -> exists f, sim_amp o gt i x = Ok (k0 co, f).
  Proof.
    unfold amp_zero. destruct (sim_amp o gt i x) as [[a f']|]; [|discriminate].
    intros H1. apply (proj1 (ui_eqb (o:=co) _ _)) in H1. subst. exists f'. reflexivity.
  Qed.

  Lemma check_table_sound g nq k M :
    check_table g nq k M = true ->
    exists gt, g = Ok gt /\
      forall b b', In b (bits nq) -> In b' (bits nq) ->
        sim_amp o gt (dr b) (dr b') = Ok (kmul co k (M b' b), 1).
  Proof.
    unfold check_table. destruct g as [gt|]; [|discriminate]. intros H.
    exists gt. split; [reflexivity|]. intros b b' Hb Hb'.
    rewrite forallb_forall in H. specialize (H b Hb). rewrite forallb_forall in H.
    apply amp_ok_sound. apply H. exact Hb'.
  Qed.

  Lemma check_leak_sound g nq gt :
    check_leak g nq = true -> g = Ok gt ->
    forall b t, In b (bits nq) -> In t (zstates (2 * nq) nq) -> undr t = None ->
      exists f, sim_amp o gt (dr b) t = Ok (k0 co, f).
  Proof.
    unfold check_leak. intros H ->. intros b t Hb Ht Hu.
    rewrite forallb_forall in H. specialize (H b Hb). rewrite forallb_forall in H.
    specialize (H t Ht). rewrite Hu in H. apply amp_zero_sound. exact H.
  Qed.
End Chk.

(* ------------------------------------------------------------------ *)
(* 2. the constant gates, by computation in the number fields          *)
(* ------------------------------------------------------------------ *)
(* the common scalars *)
Definition kA_cz : TA := (kopp oA (kq oA 1 3), k0 oA).                         (* -1/3 *)
Definition kA_ccz : TA := (k0 oA, kmul oA a_r2 (kq oA 1 12)).                  (* i sqrt 2 / 12 *)
Definition kB_czh : TB := (kq oB 1 4, k0 oB).                                  (* 1/4 *)

Notation gA_CZ := (gate_CZ oA a_r2 a_r3i).
Notation gA_CNOT := (gate_CNOT oA a_h a_r2 a_r3i).
Notation gA_CCZ := (gate_CCZ oA a_h a_r2 a_r3i a_r7).
Notation gA_CCNOT := (gate_CCNOT oA a_h a_r2 a_r3i a_r7).
Notation gB_CZH := (gate_CZ_Heralded oB b_h b_r2 b_qi b_g).
Notation gB_CNOTH := (gate_CNOT_Heralded oB b_h b_r2 b_qi b_g).

Lemma kA_cz_norm : kmul cA (kofZ cA 9) (kmul cA kA_cz (kconj cA kA_cz)) = k1 cA.
Proof. apply (@by_eqb _ cA cA_unit). vm_compute. reflexivity. Qed.
Lemma kA_ccz_norm : kmul cA (kofZ cA 72) (kmul cA kA_ccz (kconj cA kA_ccz)) = k1 cA.
Proof. apply (@by_eqb _ cA cA_unit). vm_compute. reflexivity. Qed.
Lemma kB_czh_norm : kmul cB (kofZ cB 16) (kmul cB kB_czh (kconj cB kB_czh)) = k1 cB.
Proof. apply (@by_eqb _ cB cB_unit). vm_compute. reflexivity. Qed.

Lemma tab_CZ : check_table oA gA_CZ 2 kA_cz (spec_CZ cA) = true.
Proof. vm_compute. reflexivity. Qed.
Lemma tab_CNOT0 : check_table oA (gA_CNOT 0%Z) 2 kA_cz (spec_CNOT cA 0) = true.
Proof. vm_compute. reflexivity. Qed.
Lemma tab_CNOT1 : check_table oA (gA_CNOT 1%Z) 2 kA_cz (spec_CNOT cA 1) = true.
Proof. vm_compute. reflexivity. Qed.
Lemma tab_CCZ : check_table oA gA_CCZ 3 kA_ccz (spec_CCZ cA) = true.
Proof. vm_compute. reflexivity. Qed.
Lemma tab_CCNOT0 : check_table oA (gA_CCNOT 0%Z) 3 kA_ccz (spec_CCNOT cA 0) = true.
Proof. vm_compute. reflexivity. Qed.
Lemma tab_CCNOT1 : check_table oA (gA_CCNOT 1%Z) 3 kA_ccz (spec_CCNOT cA 1) = true.
Proof. vm_compute. reflexivity. Qed.
Lemma tab_CCNOT2 : check_table oA (gA_CCNOT 2%Z) 3 kA_ccz (spec_CCNOT cA 2) = true.
Proof. vm_compute. reflexivity. Qed.
Lemma tab_CZH : check_table oB gB_CZH 2 kB_czh (spec_CZ cB) = true.
Proof. vm_compute. reflexivity. Qed.
Lemma tab_CNOTH0 : check_table oB (gB_CNOTH 0%Z) 2 kB_czh (spec_CNOT cB 0) = true.
Proof. vm_compute. reflexivity. Qed.
Lemma tab_CNOTH1 : check_table oB (gB_CNOTH 1%Z) 2 kB_czh (spec_CNOT cB 1) = true.
Proof. vm_compute. reflexivity. Qed.
Lemma leak_CZH : check_leak oB gB_CZH 2 = true.
Proof. vm_compute. reflexivity. Qed.
Lemma leak_CNOTH0 : check_leak oB (gB_CNOTH 0%Z) 2 = true.
Proof. vm_compute. reflexivity. Qed.
Lemma leak_CNOTH1 : check_leak oB (gB_CNOTH 1%Z) 2 = true.
Proof. vm_compute. reflexivity. Qed.

(* the statement proved for one gate *)
Definition acts_as {K} (o : ops K) (g : res (@gate K)) (nq : nat) (norm : Z)
           (M : list bool -> list bool -> K * K) : Prop :=
  exists gt k, g = Ok gt /\
    kmul (cplx o) (kofZ (cplx o) norm) (kmul (cplx o) k (kconj (cplx o) k)) = k1 (cplx o) /\
    forall b b', In b (bits nq) -> In b' (bits nq) ->
      sim_amp o gt (dr b) (dr b') = Ok (kmul (cplx o) k (M b' b), 1).

Lemma acts_as_intro {K} (o : ops K) {SR : StarRing o} {UI : UnitInv o} g nq norm M k :
  kmul (cplx o) (kofZ (cplx o) norm) (kmul (cplx o) k (kconj (cplx o) k)) = k1 (cplx o) ->
  check_table o g nq k M = true -> acts_as o g nq norm M.
Proof.
  intros Hk H. destruct (check_table_sound o g nq k M H) as [gt [Hg Ht]].
  exists gt, k. split; [exact Hg|]. split; [exact Hk|exact Ht].
Qed.

Lemma CZ_acts : acts_as oA gA_CZ 2 9 (spec_CZ cA).
Proof. exact (@acts_as_intro _ oA oA_star oA_unit _ _ _ _ _ kA_cz_norm tab_CZ). Qed.

Lemma CNOT_acts tq : In tq [0; 1]%Z -> acts_as oA (gA_CNOT tq) 2 9 (spec_CNOT cA (Z.to_nat tq)).
Proof.
  intros [<-|[<-|[]]].
  - exact (@acts_as_intro _ oA oA_star oA_unit _ _ _ _ _ kA_cz_norm tab_CNOT0).
  - exact (@acts_as_intro _ oA oA_star oA_unit _ _ _ _ _ kA_cz_norm tab_CNOT1).
Qed.

Lemma CCZ_acts : acts_as oA gA_CCZ 3 72 (spec_CCZ cA).
Proof. exact (@acts_as_intro _ oA oA_star oA_unit _ _ _ _ _ kA_ccz_norm tab_CCZ). Qed.

Lemma CCNOT_acts tq : In tq [0; 1; 2]%Z -> acts_as oA (gA_CCNOT tq) 3 72 (spec_CCNOT cA (Z.to_nat tq)).
Proof.
  intros [<-|[<-|[<-|[]]]].
  - exact (@acts_as_intro _ oA oA_star oA_unit _ _ _ _ _ kA_ccz_norm tab_CCNOT0).
  - exact (@acts_as_intro _ oA oA_star oA_unit _ _ _ _ _ kA_ccz_norm tab_CCNOT1).
  - exact (@acts_as_intro _ oA oA_star oA_unit _ _ _ _ _ kA_ccz_norm tab_CCNOT2).
Qed.

(* heralded gates: the table and no leakage *)
Definition no_leak {K} (o : ops K) (g : res (@gate K)) (nq : nat) : Prop :=
  forall gt, g = Ok gt ->
  forall b t, In b (bits nq) -> In t (zstates (2 * nq) nq) -> undr t = None ->
    exists f, sim_amp o gt (dr b) t = Ok (k0 (cplx o), f).

Lemma CZH_acts : acts_as oB gB_CZH 2 16 (spec_CZ cB) /\ no_leak oB gB_CZH 2.
Proof.
  split; [exact (@acts_as_intro _ oB oB_star oB_unit _ _ _ _ _ kB_czh_norm tab_CZH)|].
  intros gt Hg. exact (@check_leak_sound _ oB oB_star oB_unit _ _ gt leak_CZH Hg).
Qed.

Lemma CNOTH_acts tq : In tq [0; 1]%Z ->
  acts_as oB (gB_CNOTH tq) 2 16 (spec_CNOT cB (Z.to_nat tq)) /\ no_leak oB (gB_CNOTH tq) 2.
Proof.
  intros [<-|[<-|[]]].
  - split; [exact (@acts_as_intro _ oB oB_star oB_unit _ _ _ _ _ kB_czh_norm tab_CNOTH0)|].
    intros gt Hg. exact (@check_leak_sound _ oB oB_star oB_unit _ _ gt leak_CNOTH0 Hg).
  - split; [exact (@acts_as_intro _ oB oB_star oB_unit _ _ _ _ _ kB_czh_norm tab_CNOTH1)|].
    intros gt Hg. exact (@check_leak_sound _ oB oB_star oB_unit _ _ gt leak_CNOTH1 Hg).
Qed.

(* both claims about one compiled heralded gate *)
Definition heralded_acts {K} (o : ops K) (g : res (@gate K)) (nq : nat) (norm : Z)
           (M : list bool -> list bool -> K * K) : Prop :=
  exists gt k, g = Ok gt /\
    kmul (cplx o) (kofZ (cplx o) norm) (kmul (cplx o) k (kconj (cplx o) k)) = k1 (cplx o) /\
    (forall b b', In b (bits nq) -> In b' (bits nq) ->
       sim_amp o gt (dr b) (dr b') = Ok (kmul (cplx o) k (M b' b), 1)) /\
    (forall b t, In b (bits nq) -> In t (zstates (2 * nq) nq) -> undr t = None ->
       exists f, sim_amp o gt (dr b) t = Ok (k0 (cplx o), f)).

Lemma heralded_intro {K} (o : ops K) g nq norm M :
  acts_as o g nq norm M /\ no_leak o g nq -> heralded_acts o g nq norm M.
Proof.
  intros [[gt [k [Hg [Hk Ht]]]] Hl]. exists gt, k. repeat (split; [assumption|]). exact (Hl gt Hg).
Qed.

Lemma CZH_full : heralded_acts oB gB_CZH 2 16 (spec_CZ cB).
Proof. exact (heralded_intro oB _ _ _ _ CZH_acts). Qed.
Lemma CNOTH_full tq : In tq [0; 1]%Z -> heralded_acts oB (gB_CNOTH tq) 2 16 (spec_CNOT cB (Z.to_nat tq)).
Proof. intros H. exact (heralded_intro oB _ _ _ _ (CNOTH_acts tq H)). Qed.

(* invalid targets are rejected with ValueError, for every scalar type *)
Lemma bad_target {K} (o : ops K) h r2 r3i qi g r7 tq :
  ((tq < 0)%Z \/ (2 <= tq)%Z -> gate_CNOT o h r2 r3i tq = Err ValueError /\
                                 gate_CNOT_Heralded o h r2 qi g tq = Err ValueError) /\
  ((tq < 0)%Z \/ (3 <= tq)%Z -> gate_CCNOT o h r2 r3i r7 tq = Err ValueError).
Proof.
  split; intros H.
  - unfold gate_CNOT, gate_CNOT_Heralded, mk_CNOT, mk_CNOT_Heralded, valid_target.
    replace ((0 <=? tq)%Z && (tq <? 2)%Z) with false; [split; reflexivity|].
    symmetry. apply andb_false_iff. destruct H; [left; apply Z.leb_gt|right; apply Z.ltb_ge]; lia.
  - unfold gate_CCNOT, mk_CCNOT, valid_target.
    replace ((0 <=? tq)%Z && (tq <? 3)%Z) with false; [reflexivity|].
    symmetry. apply andb_false_iff. destruct H; [left; apply Z.leb_gt|right; apply Z.ltb_ge]; lia.
Qed.

(* structure of the compiled gates: modes, heralds (what the correspondence run compares) *)
Definition shape {K} (g : res (@gate K)) : option (nat * nat * dict * dict * nat) :=
  match g with
  | Ok gt => Some (c_n (g_circ gt), input_modes (g_circ gt), c_in (g_circ gt), c_out (g_circ gt), g_dim gt)
  | Err _ => None
  end.
Lemma shapes :
  shape gA_CZ = Some (6, 4, [(0, 0); (5, 0)], [(0, 0); (5, 0)], 6) /\
  (forall tq, In tq [0; 1]%Z -> shape (gA_CNOT tq) = Some (6, 4, [(0, 0); (5, 0)], [(0, 0); (5, 0)], 6)) /\
  shape gB_CZH = Some (8, 4, [(0, 0); (1, 1); (6, 1); (7, 0)], [(0, 0); (1, 1); (6, 1); (7, 0)], 8) /\
  (forall tq, In tq [0; 1]%Z ->
     shape (gB_CNOTH tq) = Some (8, 4, [(0, 0); (1, 1); (6, 1); (7, 0)], [(0, 0); (1, 1); (6, 1); (7, 0)], 8)) /\
  shape gA_CCZ = Some (10, 6, [(0, 0); (1, 0); (8, 0); (9, 0)], [(0, 0); (1, 0); (8, 0); (9, 0)], 10) /\
  (forall tq, In tq [0; 1; 2]%Z ->
     shape (gA_CCNOT tq) = Some (10, 6, [(0, 0); (1, 0); (8, 0); (9, 0)], [(0, 0); (1, 0); (8, 0); (9, 0)], 10)).
Proof.
  split; [vm_compute; reflexivity|].
  split; [intros tq H; repeat (destruct H as [<-|H]; [vm_compute; reflexivity|]); destruct H|].
  split; [vm_compute; reflexivity|].
  split; [intros tq H; repeat (destruct H as [<-|H]; [vm_compute; reflexivity|]); destruct H|].
  split; [vm_compute; reflexivity|].
  intros tq H; repeat (destruct H as [<-|H]; [vm_compute; reflexivity|]); destruct H.
Qed.

(* ------------------------------------------------------------------ *)
(* 3. single-qubit gates and rotations, any commutative *-ring         *)
(* ------------------------------------------------------------------ *)
Section Single.
  Context {K : Type} (o : ops K) {SR : StarRing o}.
  Let Rr := sr_ring (o:=o).
  Add Ring Ksq : Rr.
  Notation co := (cplx o).

  Lemma in_bits1 b : In b (bits 1) -> b = [false] \/ b = [true].
  Proof. simpl. intros [<-|[<-|[]]]; auto. Qed.

  Let Rc := cplx_ring o.
  Add Ring Kcq : Rc.

  (* one photon, no heralds: the amplitude is one matrix entry (permanent of a 1 x 1 matrix), factor 1 *)
  Lemma sim_amp_one_photon (gt : @gate K) (x y : bool) :
    c_in (g_circ gt) = [] -> c_out (g_circ gt) = [] ->
    sim_amp o gt (dr [x]) (dr [y]) = Ok (g_U gt (idx1 [y]) (idx1 [x]), 1).
  Proof.
    intros H1 H2. unfold sim_amp. rewrite H1, H2.
    transitivity (Ok (kadd co (kmul co (g_U gt (idx1 [y]) (idx1 [x])) (k1 co)) (k0 co), 1));
      [destruct x, y; reflexivity|].
    f_equal. f_equal. ring.
  Qed.

  (* Unitary(V) compiles to V on [0,2) *)
  Lemma unitary2_gate rows :
    exists gt, compile_gate o (Ok [OUnitary 0 2 rows]) 0 = Ok gt /\
      c_in (g_circ gt) = [] /\ c_out (g_circ gt) = [] /\ c_n (g_circ gt) = 2 /\ g_dim gt = 2 /\
      meq 2 (g_U gt) (of_rows co rows).
  Proof.
    eexists. split; [reflexivity|]. repeat (split; [reflexivity|]).
    cbn [g_U snd mul_in c_n unitary_circ].
    eapply meq_trans; [apply tab_spec|].
    eapply meq_trans; [apply mmul_id_r|].
    intros i j Hi Hj. unfold umat_mat, block_mat.
    destruct i as [|[|i]]; [| |lia]; (destruct j as [|[|j]]; [| |lia]); reflexivity.
  Qed.

  Definition acts_exactly (g : res (@gate K)) (M : nat -> nat -> K * K) : Prop :=
    exists gt, g = Ok gt /\ c_in (g_circ gt) = [] /\ c_out (g_circ gt) = [] /\ c_n (g_circ gt) = 2 /\
      forall b b', In b (bits 1) -> In b' (bits 1) ->
        sim_amp o gt (dr b) (dr b') = Ok (M (idx1 b') (idx1 b), 1).

  Lemma unitary2_acts rows M :
    (forall i j, i < 2 -> j < 2 -> of_rows co rows i j = M i j) ->
    acts_exactly (compile_gate o (Ok [OUnitary 0 2 rows]) 0) M.
  Proof.
    intros HM. destruct (unitary2_gate rows) as [gt [Hg [H1 [H2 [H3 [_ HU]]]]]].
    exists gt. repeat (split; [assumption|]).
    intros b b' Hb Hb'. apply in_bits1 in Hb. apply in_bits1 in Hb'.
    assert (E : forall x y : bool, sim_amp o gt (dr [x]) (dr [y]) = Ok (M (idx1 [y]) (idx1 [x]), 1)).
    { intros x y. rewrite sim_amp_one_photon by assumption.
      rewrite HU, HM; [reflexivity| | | |]; unfold idx1; simpl; destruct x, y; lia. }
    destruct Hb as [-> | ->]; destruct Hb' as [-> | ->]; apply E.
  Qed.

  Lemma sq_acts (h : K) (g : sq) :
    kmul o h h = kq o 1 2 -> acts_exactly (gate_sq o h g) (named_sq o h g).
  Proof.
    intros Hh. unfold kq in Hh. apply unitary2_acts. intros i j Hi Hj.
    destruct i as [|[|i]]; [| |lia]; (destruct j as [|[|j]]; [| |lia]); destruct g;
      cbn; unfold cmul, Num.cadd, csub, copp, re, im, kq; cbn; try rewrite <- Hh; f_equal; ring.
  Qed.

  Lemma rq_acts (g : rq) (c s : K) : acts_exactly (gate_rq o g c s) (named_rq o g c s).
  Proof.
    apply unitary2_acts. intros i j Hi Hj.
    destruct i as [|[|i]]; [| |lia]; (destruct j as [|[|j]]; [| |lia]); destruct g;
      cbn; unfold cmul, Num.cadd, csub, copp, re, im, kq; cbn; f_equal; ring.
  Qed.
  (* with c^2 + s^2 = 1 the rotation arrays are unitary (so Unitary's check accepts them) *)
  Lemma rq_unitary (g : rq) (c s : K) :
    kadd o (kmul o c c) (kmul o s s) = k1 o -> unitary co 2 (of_rows co (rq_rows o g c s)).
  Proof.
    intros H. split; intros i j Hi Hj;
      (destruct i as [|[|i]]; [| |lia]); (destruct j as [|[|j]]; [| |lia]); destruct g;
      cbn; unfold cmul, Num.cadd, csub, copp, cconj, re, im; cbn; f_equal;
      first [ring | (rewrite <- H; ring)].
  Qed.
End Single.


Lemma rot_real (g : rq) (theta : R) :
  acts_exactly rops (gate_rq rops g (cos (theta / 2)) (sin (theta / 2)))
               (named_rq rops g (cos (theta / 2)) (sin (theta / 2))) /\
  unitary cops 2 (of_rows cops (rq_rows rops g (cos (theta / 2)) (sin (theta / 2)))).
Proof.
  split; [apply (rq_acts rops)|]. apply (rq_unitary rops). simpl.
  generalize (sin2_cos2 (theta / 2)). unfold Rsqr. lra.
Qed.

Lemma sq_real (g : sq) : acts_exactly rops (gate_sq rops (/ sqrt 2)%R g) (named_sq rops (/ sqrt 2)%R g).
Proof.
  apply (sq_acts rops). unfold kq. simpl.
  assert (H : (sqrt 2 * sqrt 2 = 2)%R) by (apply sqrt_def; lra).
  assert (H0 : (sqrt 2 <> 0)%R) by (intros E; rewrite E in H; lra).
  rewrite <- Rinv_mult. rewrite H. lra.
Qed.


(* ------------------------------------------------------------------ *)
(* 4. SWAP on all distinct mode quadruples                             *)
(* ------------------------------------------------------------------ *)
Lemma insert_nat_comm x y l : insert_nat x (insert_nat y l) = insert_nat y (insert_nat x l).
Proof.
  induction l as [|z l IH]; simpl.
  - destruct (x <=? y) eqn:E1, (y <=? x) eqn:E2; try reflexivity;
      apply Nat.leb_le in E1 || apply Nat.leb_gt in E1; apply Nat.leb_le in E2 || apply Nat.leb_gt in E2;
      try lia. replace y with x by lia. reflexivity.
  - destruct (y <=? z) eqn:Eyz, (x <=? z) eqn:Exz; simpl;
      destruct (x <=? y) eqn:Exy, (y <=? x) eqn:Eyx; simpl; rewrite ?Eyz, ?Exz, ?Exy, ?Eyx; simpl;
      rewrite ?Eyz, ?Exz; try reflexivity; try (rewrite IH; reflexivity);
      repeat match goal with
             | H : (_ <=? _) = true |- _ => apply Nat.leb_le in H
             | H : (_ <=? _) = false |- _ => apply Nat.leb_gt in H
             end; try lia.
    + replace y with x by lia. reflexivity.
Qed.

Lemma sort_nat_permutation l l' : Permutation l l' -> sort_nat l = sort_nat l'.
Proof.
  induction 1; simpl; try congruence. apply insert_nat_comm.
Qed.

Lemma list_eqb_refl l : list_eqb l l = true.
Proof. induction l as [|x l IH]; simpl; [reflexivity|]. rewrite Nat.eqb_refl. exact IH. Qed.

Section TwoPhotons.
  Context {R : Type} {r : ops R} {SR : StarRing r}.
  Let Rr := sr_ring (o:=r).
  Add Ring Ktp : Rr.

  Lemma expand_two_photons n x y :
    x < n -> y < n -> Permutation (expand (two_photons n x y)) [x; y].
  Proof.
    intros Hx Hy. unfold two_photons.
    eapply perm_trans; [apply expand_incr; rewrite incr_length, repeat_length; exact Hx|].
    apply perm_skip.
    eapply perm_trans; [apply expand_incr; rewrite repeat_length; exact Hy|].
    unfold expand. rewrite expand_from_repeat0. reflexivity.
  Qed.

  Lemma fact_prod_two_photons n x y : x < n -> y < n -> x <> y -> fact_prod (two_photons n x y) = 1.
  Proof.
    intros Hx Hy Hxy. unfold two_photons.
    rewrite fact_prod_incr by (rewrite incr_length, repeat_length; exact Hx).
    rewrite nth_incr_other by (intros E; apply Hxy; symmetry; exact E).
    rewrite fact_prod_incr by (rewrite repeat_length; exact Hy).
    rewrite fact_prod_repeat0.
    assert (E : forall k, nth k (repeat 0 n) 0 = 0).
    { intros k. destruct (Nat.lt_ge_cases k n) as [Hk|Hk];
        [apply nth_repeat|apply nth_overflow; rewrite repeat_length; exact Hk]. }
    rewrite !E. reflexivity.
  Qed.

  (* two photons in distinct modes: the permanent of the 2 x 2 sub-matrix, factor 1 *)
  Lemma amp_two_photons (U : @mat R) n x y x' y' :
    x < n -> y < n -> x' < n -> y' < n -> x <> y -> x' <> y' ->
    amp_perm r U (two_photons n x y) (two_photons n x' y') =
      kadd r (kmul r (U x' x) (U y' y)) (kmul r (U y' x) (U x' y)) /\
    amp_factor (two_photons n x y) (two_photons n x' y') = 1.
  Proof.
    intros Hx Hy Hx' Hy' Hxy Hxy'. split.
    - unfold amp_perm.
      rewrite (perm_ml_rows_perm U _ [x'; y'] _ (expand_two_photons n x' y' Hx' Hy')).
      rewrite (perm_ml_cols_perm U _ _ [x; y] (expand_two_photons n x y Hx Hy)).
      simpl. ring.
    - unfold amp_factor. rewrite !fact_prod_two_photons by assumption. reflexivity.
  Qed.
End TwoPhotons.

Section Swap.
  Context {K : Type} (o : ops K) {SR : StarRing o}.
  Notation co := (cplx o).
  Let Rc := cplx_ring o.
  Add Ring Kcs : Rc.

  Variables a0 a1 b0 b1 : nat.
  Hypothesis ND : NoDup [a0; a1; b0; b1].
  Let n := S (Nat.max (Nat.max (Nat.max a0 a1) b0) b1).
  Let sw : dict := [(a0, b0); (b0, a0); (a1, b1); (b1, a1)].
  Let zsw : list (Z * Z) := map (fun kv => (Z.of_nat (fst kv), Z.of_nat (snd kv))) sw.

  Lemma nd_facts : a0 <> a1 /\ a0 <> b0 /\ a0 <> b1 /\ a1 <> b0 /\ a1 <> b1 /\ b0 <> b1.
  Proof.
    inversion ND as [|? ? N1 ND1]; subst. inversion ND1 as [|? ? N2 ND2]; subst.
    inversion ND2 as [|? ? N3 ND3]; subst. simpl in *. intuition.
  Qed.

  Lemma swap_modes_lt : a0 < n /\ a1 < n /\ b0 < n /\ b1 < n.
  Proof. unfold n. lia. Qed.

  Lemma op_mode_swaps_swap :
    op_mode_swaps (new_circ (K:=K) n) zsw = Ok (app_spec (new_circ n) [Swaps sw]).
  Proof.
    destruct nd_facts as [H01 [H02 [H03 [H12 [H13 H23]]]]].
    destruct swap_modes_lt as [L0 [L1 [L2 L3]]].
    unfold op_mode_swaps. cbn [c_int new_circ].
    assert (MM : forall z, map_mode [] z = z) by reflexivity.
    unfold zsw, sw. cbn [map fst snd fold_left]. rewrite !MM.
    assert (E : forall x y, x <> y -> (Z.of_nat x =? Z.of_nat y)%Z = false)
      by (intros x y Hxy; apply Z.eqb_neq; lia).
    repeat (cbn [zdset]; rewrite E by lia).
    cbn [zdset map fst snd all_ok].
    assert (MO : forall a, a < n -> mode_ok (new_circ (K:=K) n) (Z.of_nat a) = Ok a).
    { intros a Ha. unfold mode_ok, in_range. cbn [c_n new_circ].
      replace ((0 <=? Z.of_nat a)%Z && (Z.of_nat a <? Z.of_nat n)%Z) with true.
      - rewrite Nat2Z.id. reflexivity.
      - symmetry. apply andb_true_iff. split; [apply Z.leb_le|apply Z.ltb_lt]; lia. }
    rewrite !MO by assumption. cbn [bind].
    rewrite (sort_nat_permutation [a0; b0; a1; b1] [b0; a0; b1; a1]).
    - rewrite list_eqb_refl. reflexivity.
    - eapply perm_trans; [apply perm_swap|]. do 2 apply perm_skip. apply perm_swap.
  Qed.

  Definition zq (m0 m1 : nat) : list (option Z) := [Some (Z.of_nat m0); Some (Z.of_nat m1)].
  Definition swap_perm (i : nat) : nat := swap_fun sw i.

  Lemma gate_SWAP_compiles :
    exists gt, gate_SWAP o (zq a0 a1) (zq b0 b1) = Ok gt /\
      c_n (g_circ gt) = n /\ c_in (g_circ gt) = [] /\ c_out (g_circ gt) = [] /\ g_dim gt = n /\
      meq n (g_U gt) (perm_mat co swap_perm).
  Proof.
    unfold gate_SWAP, compile_gate, mk_SWAP, zq. cbn [length Nat.eqb negb app all_some bind].
    assert (En : Z.to_nat (zmax [Z.of_nat a0; Z.of_nat a1; Z.of_nat b0; Z.of_nat b1] + 1) = n).
    { unfold zmax, n. cbn [tl hd fold_left]. lia. }
    rewrite En. cbn [run step wset upd wget Nat.eqb].
    change [(Z.of_nat a0, Z.of_nat b0); (Z.of_nat b0, Z.of_nat a0); (Z.of_nat a1, Z.of_nat b1);
            (Z.of_nat b1, Z.of_nat a1)] with zsw.
    rewrite op_mode_swaps_swap. cbn [wset wget Nat.eqb first_err fold_right bind].
    eexists. split; [reflexivity|]. repeat (split; [reflexivity|]).
    cbn [g_U snd mul_in]. eapply meq_trans; [apply tab_spec|]. apply mmul_id_r.
  Qed.

  Lemma znat_of_nat s : znat (map Z.of_nat s) = s.
  Proof. unfold znat. rewrite map_map. rewrite <- (map_id s) at 2. apply map_ext. intros. apply Nat2Z.id. Qed.

  Definition zstate (s : list nat) : list Z := map Z.of_nat s.

  Lemma SWAP_acts :
    exists gt, gate_SWAP o (zq a0 a1) (zq b0 b1) = Ok gt /\
      c_n (g_circ gt) = n /\ c_in (g_circ gt) = [] /\ c_out (g_circ gt) = [] /\
      meq n (g_U gt) (perm_mat co swap_perm) /\
      forall p q p' q' : bool,
        sim_amp o gt (zstate (two_photons n (rail p a0 a1) (rail q b0 b1)))
                     (zstate (two_photons n (rail p' a0 a1) (rail q' b0 b1)))
        = Ok (spec_SWAP co [p'; q'] [p; q], 1).
  Proof.
    destruct gate_SWAP_compiles as [gt [Hg [Hn [Hi [Ho [Hd HU]]]]]].
    exists gt. repeat (split; [assumption|]).
    destruct nd_facts as [H01 [H02 [H03 [H12 [H13 H23]]]]].
    destruct swap_modes_lt as [L0 [L1 [L2 L3]]].
    intros p q p' q'. unfold sim_amp, zstate. rewrite Hi, Ho. cbn [hdz map add_heralds_to_state bind].
    rewrite !znat_of_nat.
    assert (Lr : forall b m0 m1, m0 < n -> m1 < n -> rail b m0 m1 < n) by (intros [|]; simpl; auto).
    assert (Dr : forall b c, rail b a0 a1 <> rail c b0 b1) by (intros [|] [|]; simpl; lia).
    destruct (amp_two_photons (r:=co) (g_U gt) n (rail p a0 a1) (rail q b0 b1) (rail p' a0 a1) (rail q' b0 b1))
      as [EA EF]; auto.
    rewrite EA, EF. f_equal. f_equal.
    rewrite !HU by auto.
    assert (E : forall x y, x <> y -> (x =? y) = false) by (intros; apply Nat.eqb_neq; assumption).
    unfold perm_mat, swap_perm, swap_fun, sw, spec_SWAP, delta, bit.
    destruct p, q, p', q'; cbn [rail dget nth bits_eqb Bool.eqb andb];
      repeat (rewrite ?Nat.eqb_refl; rewrite ?(E a0 a1), ?(E a0 b0), ?(E a0 b1), ?(E a1 a0), ?(E a1 b0), ?(E a1 b1),
                ?(E b0 a0), ?(E b0 a1), ?(E b0 b1), ?(E b1 a0), ?(E b1 a1), ?(E b1 b0) by lia; cbn [dget]);
      ring.
  Qed.
End Swap.

(* ------------------------------------------------------------------ *)
(* 5. transfer to the complex numbers through the evaluation morphism  *)
(* ------------------------------------------------------------------ *)
Section Transfer.
  Context {K L : Type} (o : ops K) (p : ops L) (f : K -> L) (H : RingHom o p f).

  Lemma suml_hom {A} (l : list A) (g : A -> K) : f (suml o l g) = suml p l (fun a => f (g a)).
  Proof.
    induction l as [|a l IH]; simpl; [apply (rh_0 _ _ _ H)|].
    rewrite (rh_add _ _ _ H), IH. reflexivity.
  Qed.

  (* a ring homomorphism commutes with the permanent *)
  Lemma perm_ml_hom (U : @mat K) xs ys :
    f (perm_ml o U xs ys) = perm_ml p (fun i j => f (U i j)) xs ys.
  Proof.
    revert xs. induction ys as [|y ys IH]; intros xs; simpl.
    - destruct xs; [apply (rh_1 _ _ _ H)|apply (rh_0 _ _ _ H)].
    - rewrite suml_hom. induction (selects xs) as [|q l IHl]; simpl; [reflexivity|].
      rewrite (rh_mul _ _ _ H), IH, IHl. reflexivity.
  Qed.
End Transfer.

(* the gate seen through a homomorphism f : K -> R of the reals of the number field:
   U_full becomes the complex matrix (ev_cplx f) o U, amplitudes are taken over C = R*R *)
Section Image.
  Context {K : Type} (o : ops K) (f : K -> R) (H : RingHom o rops f).
  Let F := ev_cplx f.
  Let HF : RingHom (cplx o) cops F := ev_cplx_hom o f H.

  Definition gate_image (gt : @gate K) : @gate R :=
    mkGate (mkCirc (c_n (g_circ gt)) [] (c_in (g_circ gt)) (c_out (g_circ gt))
                   (c_xin (g_circ gt)) (c_xout (g_circ gt)) (c_int (g_circ gt)))
           (g_dim gt) (fun i j => F (g_U gt i j)).

  Lemma sim_amp_image gt i x a n :
    sim_amp o gt i x = Ok (a, n) -> sim_amp rops (gate_image gt) i x = Ok (F a, n).
  Proof.
    unfold sim_amp. cbn [gate_image g_circ c_in c_out g_U].
    destruct (add_heralds_to_state i (hdz (c_in (g_circ gt)))) as [fi|]; [|discriminate].
    destruct (add_heralds_to_state x (hdz (c_out (g_circ gt)))) as [fx|]; [|discriminate].
    cbn [bind]. intros E. injection E as <- <-. unfold amp_perm.
    rewrite (perm_ml_hom (cplx o) cops F HF). reflexivity.
  Qed.
End Image.


Section SpecHom.
  Context {K L : Type} (t : ops K) (u : ops L) (F : K -> L) (HF : RingHom t u F).
  Lemma delta_hom a b : F (delta t a b) = delta u a b.
  Proof. unfold delta. destruct (bits_eqb a b); [apply (rh_1 _ _ _ HF)|apply (rh_0 _ _ _ HF)]. Qed.
  Lemma spec_CZ_hom b' b : F (spec_CZ t b' b) = spec_CZ u b' b.
  Proof. unfold spec_CZ. destruct (bit b 0 && bit b 1); rewrite ?(rh_opp _ _ _ HF), delta_hom; reflexivity. Qed.
  Lemma spec_CNOT_hom tq b' b : F (spec_CNOT t tq b' b) = spec_CNOT u tq b' b.
  Proof. unfold spec_CNOT. apply delta_hom. Qed.
  Lemma spec_CCZ_hom b' b : F (spec_CCZ t b' b) = spec_CCZ u b' b.
  Proof. unfold spec_CCZ. destruct (bit b 0 && bit b 1 && bit b 2); rewrite ?(rh_opp _ _ _ HF), delta_hom; reflexivity. Qed.
  Lemma spec_CCNOT_hom tq b' b : F (spec_CCNOT t tq b' b) = spec_CCNOT u tq b' b.
  Proof. unfold spec_CCNOT. apply delta_hom. Qed.
End SpecHom.

Section ComplexStatement.
  Context {K : Type} (o : ops K) (f : K -> R) (H : RingHom o rops f).
  Let F := ev_cplx f.
  Let HF : RingHom (cplx o) cops F := ev_cplx_hom o f H.

  (* the statement over the complex numbers: |k|^2 is the real number re^2 + im^2 *)
  Definition acts_as_complex (g : res (@gate K)) (nq : nat) (norm : Z)
             (MC : list bool -> list bool -> R * R) : Prop :=
    exists gt (k : R * R), g = Ok gt /\
      (IZR norm * (fst k * fst k + snd k * snd k) = 1)%R /\
      forall b b', In b (bits nq) -> In b' (bits nq) ->
        sim_amp rops (gate_image f gt) (dr b) (dr b') = Ok (kmul cops k (MC b' b), 1).
  Definition heralded_complex (g : res (@gate K)) (nq : nat) (norm : Z)
             (MC : list bool -> list bool -> R * R) : Prop :=
    exists gt (k : R * R), g = Ok gt /\
      (IZR norm * (fst k * fst k + snd k * snd k) = 1)%R /\
      (forall b b', In b (bits nq) -> In b' (bits nq) ->
         sim_amp rops (gate_image f gt) (dr b) (dr b') = Ok (kmul cops k (MC b' b), 1)) /\
      (forall b t, In b (bits nq) -> In t (zstates (2 * nq) nq) -> undr t = None ->
         exists n, sim_amp rops (gate_image f gt) (dr b) t = Ok ((0%R, 0%R), n)).

  Lemma norm_complex norm k :
    kmul (cplx o) (kofZ (cplx o) norm) (kmul (cplx o) k (kconj (cplx o) k)) = k1 (cplx o) ->
    (IZR norm * (fst (F k) * fst (F k) + snd (F k) * snd (F k)) = 1)%R.
  Proof.
    intros E. apply (f_equal F) in E.
    rewrite (rh_mul _ _ _ HF), (rh_mul _ _ _ HF), (rh_conj _ _ _ HF), (rh_ofZ _ _ _ HF), (rh_1 _ _ _ HF) in E.
    destruct (F k) as [x y]. simpl in E. unfold cmul, cconj in E. simpl in E.
    injection E as E1 _. simpl. lra.
  Qed.

  Lemma complex_of_acts g nq norm M MC :
    (forall b' b, F (M b' b) = MC b' b) -> acts_as o g nq norm M -> acts_as_complex g nq norm MC.
  Proof.
    intros HM [gt [k [Hg [Hk Ht]]]]. exists gt, (F k). split; [exact Hg|].
    split; [apply norm_complex; exact Hk|].
    intros b b' Hb Hb'. rewrite (sim_amp_image o f H gt _ _ _ _ (Ht b b' Hb Hb')).
    fold F. rewrite (rh_mul _ _ _ HF), HM. reflexivity.
  Qed.

  Lemma complex_of_heralded g nq norm M MC :
    (forall b' b, F (M b' b) = MC b' b) -> heralded_acts o g nq norm M -> heralded_complex g nq norm MC.
  Proof.
    intros HM [gt [k [Hg [Hk [Ht Hl]]]]]. exists gt, (F k). split; [exact Hg|].
    split; [apply norm_complex; exact Hk|]. split.
    - intros b b' Hb Hb'. rewrite (sim_amp_image o f H gt _ _ _ _ (Ht b b' Hb Hb')).
      fold F. rewrite (rh_mul _ _ _ HF), HM. reflexivity.
    - intros b t Hb Ht' Hu. destruct (Hl b t Hb Ht' Hu) as [n Hn]. exists n.
      rewrite (sim_amp_image o f H gt _ _ _ _ Hn). fold F. rewrite (rh_0 _ _ _ HF). reflexivity.
  Qed.
End ComplexStatement.

(* the gates over the complex numbers *)
Lemma CZ_complex : acts_as_complex evA gA_CZ 2 9 (spec_CZ cops).
Proof. exact (complex_of_acts oA evA evA_hom _ _ _ _ _ (spec_CZ_hom cA cops evCA evCA_hom) CZ_acts). Qed.
Lemma CNOT_complex tq : In tq [0; 1]%Z -> acts_as_complex evA (gA_CNOT tq) 2 9 (spec_CNOT cops (Z.to_nat tq)).
Proof.
  intros Ht. exact (complex_of_acts oA evA evA_hom _ _ _ _ _ (spec_CNOT_hom cA cops evCA evCA_hom _) (CNOT_acts tq Ht)).
Qed.
Lemma CCZ_complex : acts_as_complex evA gA_CCZ 3 72 (spec_CCZ cops).
Proof. exact (complex_of_acts oA evA evA_hom _ _ _ _ _ (spec_CCZ_hom cA cops evCA evCA_hom) CCZ_acts). Qed.
Lemma CCNOT_complex tq : In tq [0; 1; 2]%Z -> acts_as_complex evA (gA_CCNOT tq) 3 72 (spec_CCNOT cops (Z.to_nat tq)).
Proof.
  intros Ht. exact (complex_of_acts oA evA evA_hom _ _ _ _ _ (spec_CCNOT_hom cA cops evCA evCA_hom _) (CCNOT_acts tq Ht)).
Qed.
Lemma CZH_complex : heralded_complex evB gB_CZH 2 16 (spec_CZ cops).
Proof. exact (complex_of_heralded oB evB evB_hom _ _ _ _ _ (spec_CZ_hom cB cops evCB evCB_hom) CZH_full). Qed.
Lemma CNOTH_complex tq : In tq [0; 1]%Z -> heralded_complex evB (gB_CNOTH tq) 2 16 (spec_CNOT cops (Z.to_nat tq)).
Proof.
  intros Ht. exact (complex_of_heralded oB evB evB_hom _ _ _ _ _ (spec_CNOT_hom cB cops evCB evCB_hom _) (CNOTH_full tq Ht)).
Qed.
