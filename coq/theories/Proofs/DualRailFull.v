(* Full Fock states of a heralded circuit (heralds inserted on the herald modes, the
   user-visible occupations on the other modes in ascending order, vacuum on the loss
   modes): the relational form [full_st] of what add_heralds_to_state builds, with
   existence, uniqueness, photon number and factorials; and the collapse of a sum over
   a duplicate-free list onto the image of an injection.  Used by Proofs/DualRailP.v. *)
From Coq Require Import ZArith List Bool Arith Lia Permutation Ring_theory Ring.
From LW Require Import Base.Sx Base.Num Base.Sums Base.Mat Model.State Model.Circuit Model.Fock Model.Gates
     Proofs.StateP Proofs.PermP Proofs.FockUnitP Proofs.DisplayP Proofs.WiringDefs Proofs.WiringSwaps
     Proofs.WiringRank Proofs.WiringP Proofs.WiringAmpFock Proofs.DualRailDefs.
Import ListNotations.
Open Scope nat_scope.

(* ------------------------------------------------------------------ *)
(* sums                                                                *)
(* ------------------------------------------------------------------ *)
Section SumCollapse.
  Context {R : Type} {r : ops R} {SR : StarRing r}.
  Let Rr := sr_ring (o:=r).
  Add Ring Kdrf : Rr.

  Lemma suml_zero_in {A} (l : list A) (f : A -> R) :
    (forall a, In a l -> f a = k0 r) -> suml r l f = k0 r.
  Proof.
    induction l as [|a l IH]; intros H; simpl; [reflexivity|].
    rewrite H by (left; reflexivity). rewrite IH by (intros; apply H; right; assumption). ring.
  Qed.

  (* f vanishes on L outside the image of Tm : Bs -> L (injective on Bs) *)
  Lemma suml_collapse {A B} (L : list A) (Bs : list B) (Tm : B -> A) (f : A -> R) :
    NoDup L -> NoDup (map Tm Bs) -> (forall b, In b Bs -> In (Tm b) L) ->
    (forall t, In t L -> ~ In t (map Tm Bs) -> f t = k0 r) ->
    suml r L f = suml r Bs (fun b => f (Tm b)).
  Proof.
    revert L. induction Bs as [|b Bs IH]; intros L HL HB Hin Hz.
    - simpl. apply suml_zero_in. intros t Ht. apply Hz; [exact Ht|intros []].
    - cbn [map] in HB. inversion HB as [|? ? Hb HB']; subst.
      destruct (in_split (Tm b) L (Hin b (or_introl eq_refl))) as (L1 & L2 & ->).
      rewrite suml_app.
      change (suml r (Tm b :: L2) f) with (kadd r (f (Tm b)) (suml r L2 f)).
      change (suml r (b :: Bs) (fun b0 => f (Tm b0))) with (kadd r (f (Tm b)) (suml r Bs (fun b0 => f (Tm b0)))).
      rewrite <- (IH (L1 ++ L2)).
      + rewrite suml_app. ring.
      + apply NoDup_remove_1 in HL. exact HL.
      + exact HB'.
      + intros b' Hb'. specialize (Hin b' (or_intror Hb')).
        apply in_app_or in Hin. apply in_or_app. destruct Hin as [H|[H|H]]; [left; exact H| |right; exact H].
        exfalso. apply Hb. rewrite H. apply in_map. exact Hb'.
      + intros t Ht Hn. apply Hz.
        * apply in_app_or in Ht. apply in_or_app. destruct Ht; [left|right; right]; assumption.
        * intros [E|H]; [|contradiction]. apply NoDup_remove_2 in HL. apply HL. rewrite E. exact Ht.
  Qed.
End SumCollapse.

(* ------------------------------------------------------------------ *)
(* lists                                                               *)
(* ------------------------------------------------------------------ *)
Lemma sasc_ext l l' : sasc l -> sasc l' -> (forall x, In x l <-> In x l') -> l = l'.
Proof.
  revert l'. induction l as [|x l IH]; intros [|x' l'] H H' E.
  - reflexivity.
  - exfalso. apply (proj2 (E x')). left. reflexivity.
  - exfalso. apply (proj1 (E x)). left. reflexivity.
  - destruct H as [Hx Hl]. destruct H' as [Hx' Hl'].
    assert (x = x').
    { destruct (proj1 (E x) (or_introl eq_refl)) as [->|H1]; [reflexivity|].
      destruct (proj2 (E x') (or_introl eq_refl)) as [->|H2]; [reflexivity|].
      specialize (Hx _ H2). specialize (Hx' _ H1). lia. }
    subst x'. f_equal. apply IH; [exact Hl|exact Hl'|].
    intros y. split; intros Hy.
    + destruct (proj1 (E y) (or_intror Hy)) as [->|H1]; [|exact H1]. specialize (Hx _ Hy). lia.
    + destruct (proj2 (E y) (or_intror Hy)) as [->|H1]; [|exact H1]. specialize (Hx' _ Hy). lia.
Qed.

Lemma in_bits_length n b : In b (bits n) <-> length b = n.
Proof.
  revert b. induction n as [|n IH]; intros b.
  - simpl. split; [intros [<-|[]]; reflexivity|]. destruct b; [auto|discriminate].
  - cbn [bits flat_map]. rewrite app_nil_r, in_app_iff, !in_map_iff. split.
    + intros [[b0 [<- H]]|[b0 [<- H]]]; apply IH in H; simpl; lia.
    + destruct b as [|[|] b]; [discriminate| |]; intros H; simpl in H; injection H as H; apply IH in H.
      * right. exists b. auto.
      * left. exists b. auto.
Qed.

Lemma bits_nodup n : NoDup (bits n).
Proof.
  induction n as [|n IH]; [repeat constructor; intros []|].
  cbn [bits flat_map]. rewrite app_nil_r. apply nodup_app.
  - apply nodup_map_inj; [|exact IH]. intros a b E. injection E. auto.
  - apply nodup_map_inj; [|exact IH]. intros a b E. injection E. auto.
  - intros x H1 H2. apply in_map_iff in H1 as (a & <- & _). apply in_map_iff in H2 as (b & E & _). discriminate.
Qed.

(* ---- dual-rail occupation lists ---- *)
Lemma drn_length b : length (drn b) = 2 * length b.
Proof. induction b as [|[|] b IH]; simpl; lia. Qed.

Lemma drn_znat b : znat (dr b) = drn b.
Proof. induction b as [|[|] b IH]; simpl; [reflexivity| |]; rewrite <- IH; reflexivity. Qed.

Lemma dr_of_drn b : map Z.of_nat (drn b) = dr b.
Proof. induction b as [|[|] b IH]; simpl; [reflexivity| |]; rewrite IH; reflexivity. Qed.

Lemma drn_app a b : drn (a ++ b) = drn a ++ drn b.
Proof. unfold drn. apply flat_map_app. Qed.

Lemma drn_inj a b : drn a = drn b -> a = b.
Proof.
  revert b. induction a as [|x a IH]; intros [|y b] E.
  - reflexivity.
  - destruct y; discriminate.
  - destruct x; discriminate.
  - destruct x, y; simpl in E; try discriminate; injection E as E; f_equal; apply IH; exact E.
Qed.

Lemma drn_nth_even b j : nth (2 * j) (drn b) 0 = if j <? length b then (if nth j b false then 0 else 1) else 0.
Proof.
  revert j. induction b as [|x b IH]; intros j.
  - change (drn []) with (@nil nat). rewrite nth_overflow by (simpl; lia). reflexivity.
  - destruct j as [|j].
    + destruct x; reflexivity.
    + replace (2 * S j) with (S (S (2 * j))) by lia.
      change (drn (x :: b)) with ((if x then [0; 1] else [1; 0]) ++ drn b).
      destruct x; cbn [app nth]; rewrite IH; reflexivity.
Qed.

Lemma drn_nth_odd b j : nth (2 * j + 1) (drn b) 0 = if j <? length b then (if nth j b false then 1 else 0) else 0.
Proof.
  revert j. induction b as [|x b IH]; intros j.
  - change (drn []) with (@nil nat). rewrite nth_overflow by (simpl; lia). reflexivity.
  - destruct j as [|j].
    + destruct x; reflexivity.
    + replace (2 * S j + 1) with (S (S (2 * j + 1))) by lia.
      change (drn (x :: b)) with ((if x then [0; 1] else [1; 0]) ++ drn b).
      destruct x; cbn [app nth]; rewrite IH; reflexivity.
Qed.

Lemma drn_le1 b p : nth p (drn b) 0 <= 1.
Proof.
  destruct (Nat.even p) eqn:E.
  - apply Nat.even_spec in E as [j ->]. rewrite drn_nth_even. destruct (j <? length b); [destruct (nth j b false)|]; lia.
  - assert (O : Nat.odd p = true) by (rewrite <- Nat.negb_even, E; reflexivity).
    apply Nat.odd_spec in O as [j ->]. rewrite drn_nth_odd. destruct (j <? length b); [destruct (nth j b false)|]; lia.
Qed.

Lemma osum_drn b : osum (drn b) = length b.
Proof. induction b as [|[|] b IH]; simpl; unfold osum in *; simpl; lia. Qed.

(* all occupations at most one: the factorials are 1 *)
Definition le1 (s : list nat) : Prop := forall p, nth p s 0 <= 1.

Lemma le1_fact_prod s : le1 s -> fact_prod s = 1.
Proof.
  induction s as [|a s IH]; intros H; [reflexivity|].
  cbn [fact_prod]. rewrite IH by (intros p; exact (H (S p))).
  specialize (H 0). simpl in H. destruct a as [|[|a]]; simpl; lia.
Qed.

Lemma le1_map_nth s (l : list nat) : le1 s -> le1 (map (fun x => nth x s 0) l).
Proof.
  intros H p. destruct (lt_dec p (length l)) as [Hp|Hp].
  - rewrite (nth_indep _ 0 (nth 0 s 0)) by (rewrite map_length; exact Hp).
    rewrite (map_nth (fun x => nth x s 0)). apply H.
  - rewrite nth_overflow by (rewrite map_length; lia). lia.
Qed.

Lemma le1_restr f n s : le1 s -> le1 (restr f n s).
Proof.
  intros H. unfold restr. intros p. destruct (lt_dec p n) as [Hp|Hp].
  - rewrite (nth_indep _ 0 (nth (f 0) s 0)) by (rewrite map_length, seq_length; exact Hp).
    rewrite (map_nth (fun i => nth (f i) s 0)). apply H.
  - rewrite nth_overflow by (rewrite map_length, seq_length; lia). lia.
Qed.

Lemma le1_offocc f n N s : le1 s -> le1 (offocc f n N s).
Proof. intros H. unfold offocc. apply le1_map_nth. exact H. Qed.

(* ------------------------------------------------------------------ *)
(* full states                                                         *)
(* ------------------------------------------------------------------ *)
(* the non-herald modes of [0,n), ascending (= open_modes_of n keys = visible_from n keys 0) *)
Definition vis (n : nat) (keys : list nat) : list nat := filter (not_in keys) (seq 0 n).

Lemma vis_open n keys : vis n keys = open_modes_of n keys.
Proof. reflexivity. Qed.
Lemma vis_visible_from n keys : vis n keys = visible_from n keys 0.
Proof. unfold vis, visible_from. rewrite Nat.sub_0_r. reflexivity. Qed.

Lemma vis_in n keys x : In x (vis n keys) <-> x < n /\ ~ In x keys.
Proof. apply open_modes_in. Qed.

Lemma vis_ext n k1 k2 : (forall x, In x k1 <-> In x k2) -> vis n k1 = vis n k2.
Proof.
  intros H. unfold vis. apply filter_ext. intros x.
  destruct (not_in k1 x) eqn:E1, (not_in k2 x) eqn:E2; try reflexivity.
  - apply not_in_spec in E1. exfalso. destruct (not_in k2 x) eqn:E; [discriminate|].
    assert (In x k2). { destruct (in_dec Nat.eq_dec x k2); [assumption|]. apply not_in_spec in n0. congruence. }
    apply E1, H. assumption.
  - apply not_in_spec in E2. exfalso.
    assert (In x k1). { destruct (in_dec Nat.eq_dec x k1); [assumption|]. apply not_in_spec in n0. congruence. }
    apply E2, H. assumption.
Qed.

Lemma vis_sasc n keys : sasc (vis n keys).
Proof. apply sasc_filter_seq. Qed.

Lemma vis_nodup n keys : NoDup (vis n keys).
Proof. apply NoDup_filter, seq_NoDup. Qed.

Lemma vis_length n keys : NoDup keys -> (forall x, In x keys -> x < n) -> length (vis n keys) = n - length keys.
Proof. apply open_modes_length. Qed.

Lemma vis_nil n : vis n [] = seq 0 n.
Proof.
  unfold vis. induction (seq 0 n) as [|a l IH]; [reflexivity|]. cbn [filter]. unfold not_in at 1. cbn [existsb negb].
  rewrite IH. reflexivity.
Qed.

(* x is the state on n + l modes that holds the herald photons [her] on the herald modes, the
   occupations v on the other modes of [0,n) in ascending order, and nothing on the l loss modes *)
Definition full_st (n l : nat) (her : dict) (v x : list nat) : Prop :=
  length x = n + l /\
  (forall kv, In kv her -> nth (fst kv) x 0 = snd kv) /\
  (forall j, j < length (vis n (dkeys her)) -> nth (nth j (vis n (dkeys her)) 0) x 0 = nth j v 0) /\
  (forall i, n <= i -> nth i x 0 = 0).

Lemma full_st_unique n l her v x x' : full_st n l her v x -> full_st n l her v x' -> x = x'.
Proof.
  intros (L1 & H1 & V1 & Z1) (L2 & H2 & V2 & Z2).
  apply (nth_ext _ _ 0 0); [congruence|]. intros p Hp.
  destruct (le_lt_dec n p) as [Hn|Hn]; [rewrite Z1, Z2 by exact Hn; reflexivity|].
  destruct (in_dec Nat.eq_dec p (dkeys her)) as [Hin|Hin].
  - unfold dkeys in Hin. apply in_map_iff in Hin as (kv & <- & Hkv). rewrite H1, H2 by exact Hkv. reflexivity.
  - assert (Hv : In p (vis n (dkeys her))) by (apply vis_in; split; assumption).
    destruct (In_nth _ _ 0 Hv) as (j & Hj & <-). rewrite V1, V2 by exact Hj. reflexivity.
Qed.

Lemma full_st_pad n l her v x : full_st n 0 her v x -> full_st n l her v (x ++ repeat 0 l).
Proof.
  intros (L1 & H1 & V1 & Z1). rewrite Nat.add_0_r in L1.
  assert (K : forall p, p < n -> nth p (x ++ repeat 0 l) 0 = nth p x 0) by (intros p Hp; apply app_nth1; lia).
  split; [rewrite app_length, repeat_length; lia|]. split; [|split].
  - intros kv Hkv. destruct (lt_dec (fst kv) n) as [Hl|Hl]; [rewrite K by exact Hl; apply H1, Hkv|].
    rewrite <- (H1 kv Hkv), Z1 by lia. rewrite app_nth2 by lia.
    destruct (lt_dec (fst kv - length x) l); [apply nth_repeat|apply nth_overflow; rewrite repeat_length; lia].
  - intros j Hj. rewrite K; [apply V1, Hj|].
    assert (Hin : In (nth j (vis n (dkeys her)) 0) (vis n (dkeys her))) by (apply nth_In, Hj).
    apply vis_in in Hin. tauto.
  - intros i Hi. rewrite app_nth2 by lia.
    destruct (lt_dec (i - length x) l); [apply nth_repeat|apply nth_overflow; rewrite repeat_length; lia].
Qed.

(* all occupations at most one *)
Lemma full_st_le1 n l her v x :
  full_st n l her v x -> (forall kv, In kv her -> snd kv <= 1) -> le1 v -> le1 x.
Proof.
  intros (L1 & H1 & V1 & Z1) Hh Hv p.
  destruct (le_lt_dec n p) as [Hn|Hn]; [rewrite Z1 by exact Hn; lia|].
  destruct (in_dec Nat.eq_dec p (dkeys her)) as [Hin|Hin].
  - unfold dkeys in Hin. apply in_map_iff in Hin as (kv & <- & Hkv). rewrite H1 by exact Hkv. apply Hh, Hkv.
  - assert (Hv' : In p (vis n (dkeys her))) by (apply vis_in; split; assumption).
    destruct (In_nth _ _ 0 Hv') as (j & Hj & <-). rewrite V1 by exact Hj. apply Hv.
Qed.

(* photon number *)
Lemma osum_map_zero (g : nat -> nat) l : (forall x, In x l -> g x = 0) -> osum (map g l) = 0.
Proof.
  induction l as [|a l IH]; intros H; [reflexivity|]. cbn [map]. rewrite osum_cons, H by (left; reflexivity).
  rewrite IH by (intros; apply H; right; assumption). reflexivity.
Qed.

Lemma full_st_osum n l her v x :
  full_st n l her v x -> NoDup (dkeys her) -> (forall k, In k (dkeys her) -> k < n) ->
  length v = length (vis n (dkeys her)) ->
  osum x = osum v + osum (dvals her).
Proof.
  intros (L1 & H1 & V1 & Z1) Hnd Hlt Hlv.
  set (V := vis n (dkeys her)) in *. set (f := fun j => nth j V 0).
  assert (Hf1 : forall i, i < length V -> f i < n + l).
  { intros i Hi. assert (In (f i) V) by (apply nth_In, Hi). apply vis_in in H. lia. }
  assert (Hf2 : forall i j, i < length V -> j < length V -> f i = f j -> i = j).
  { intros i j Hi Hj E. apply (proj1 (NoDup_nth V 0) (vis_nodup n (dkeys her)) i j Hi Hj E). }
  rewrite (osum_split f (length V) (n + l) x Hf1 Hf2 L1). f_equal.
  - f_equal. apply (nth_ext _ _ 0 0); [rewrite restr_length; symmetry; exact Hlv|].
    intros j Hj. rewrite restr_length in Hj. rewrite nth_restr by exact Hj. apply V1, Hj.
  - unfold offocc.
    assert (P : Permutation (offm f (length V) (n + l)) (dkeys her ++ seq n l)).
    { apply NoDup_Permutation.
      - apply offm_nodup.
      - apply nodup_app; [exact Hnd|apply seq_NoDup|]. intros y Hy Hs. apply in_seq in Hs. specialize (Hlt y Hy). lia.
      - intros y. rewrite offm_in, in_app_iff, in_seq. split.
        + intros [Hy Hoff]. destruct (le_lt_dec n y) as [Hn|Hn]; [right; lia|]. left.
          destruct (in_dec Nat.eq_dec y (dkeys her)) as [Hin|Hin]; [exact Hin|]. exfalso.
          assert (Hv : In y V) by (apply vis_in; split; assumption).
          destruct (In_nth _ _ 0 Hv) as (j & Hj & E). exact (Hoff j Hj E).
        + intros [Hy|Hy].
          * split; [specialize (Hlt y Hy); lia|]. intros i Hi E.
            assert (Hv : In (f i) V) by (apply nth_In, Hi). apply vis_in in Hv. rewrite E in Hv. tauto.
          * split; [lia|]. intros i Hi E.
            assert (Hv : In (f i) V) by (apply nth_In, Hi). apply vis_in in Hv. lia. }
    rewrite (osum_perm _ _ (Permutation_map (fun y => nth y x 0) P)).
    rewrite map_app, osum_app. rewrite (osum_map_zero _ (seq n l)) by (intros y Hy; apply in_seq in Hy; apply Z1; lia).
    rewrite Nat.add_0_r. f_equal. unfold dkeys, dvals. rewrite map_map. apply map_ext_in. intros kv Hkv. apply H1, Hkv.
Qed.

(* ---- existence: what add_heralds_to_state builds ---- *)
Lemma keep_idx_filter {A} (d : A) (keep : nat -> bool) (l : list A) i :
  keep_idx i keep l = map (fun p => nth (p - i) l d) (filter keep (seq i (length l))).
Proof.
  revert i. induction l as [|a l IH]; intros i; [reflexivity|].
  cbn [keep_idx length seq filter]. rewrite IH. destruct (keep i).
  - cbn [map]. rewrite Nat.sub_diag. cbn [nth]. f_equal. apply map_ext_in. intros p Hp.
    apply filter_In in Hp as [Hp _]. apply in_seq in Hp. replace (p - i) with (S (p - S i)) by lia. reflexivity.
  - apply map_ext_in. intros p Hp.
    apply filter_In in Hp as [Hp _]. apply in_seq in Hp. replace (p - i) with (S (p - S i)) by lia. reflexivity.
Qed.

Lemma hlookup_hdz her p : hlookup (hdz her) p = option_map Z.of_nat (dget her p).
Proof.
  induction her as [|[k a] her IH]; [reflexivity|]. cbn [hdz map hlookup dget fst snd].
  destruct (Nat.eqb k p); [reflexivity|exact IH].
Qed.

Lemma dget_none her p : dget her p = None <-> ~ In p (dkeys her).
Proof.
  induction her as [|[k a] her IH]; simpl; [tauto|].
  destruct (Nat.eqb_spec k p) as [->|Hne]; [split; [discriminate|intros H; exfalso; apply H; left; reflexivity]|].
  rewrite IH. intuition.
Qed.

Lemma dget_in her kv : NoDup (dkeys her) -> In kv her -> dget her (fst kv) = Some (snd kv).
Proof.
  induction her as [|[k a] her IH]; intros Hnd Hin; [destruct Hin|].
  cbn [dkeys map fst] in Hnd. inversion Hnd as [|? ? Hk Hnd']; subst.
  destruct Hin as [<-|Hin]; cbn [dget fst snd]; [rewrite Nat.eqb_refl; reflexivity|].
  destruct (Nat.eqb_spec k (fst kv)) as [->|Hne]; [|apply IH; assumption].
  exfalso. apply Hk. unfold dkeys. apply in_map. exact Hin.
Qed.

Lemma hkeys_hdz her : hkeys (hdz her) = dkeys her.
Proof. unfold hkeys, hdz, dkeys. rewrite map_map. reflexivity. Qed.

(* the state add_heralds_to_state builds from the visible occupations v is a full state *)
Lemma add_heralds_full (n : nat) (her : dict) (v : list nat) :
  NoDup (dkeys her) -> (forall k, In k (dkeys her) -> k < n) -> length v + length her = n ->
  exists f, add_heralds_to_state (map Z.of_nat v) (hdz her) = Ok f /\ full_st n 0 her v (znat f).
Proof.
  intros Hnd Hlt Hlen.
  destruct her as [|kv0 her0] eqn:Eher.
  { exists (map Z.of_nat v). split; [reflexivity|]. simpl in Hlen. rewrite Nat.add_0_r in Hlen.
    assert (Ez : znat (map Z.of_nat v) = v).
    { unfold znat. rewrite map_map. rewrite <- (map_id v) at 2. apply map_ext. intros. apply Nat2Z.id. }
    rewrite Ez. split; [lia|]. split; [intros kv []|]. split.
    - intros j Hj. cbn [dkeys map] in *. rewrite vis_nil in *. rewrite seq_length in Hj. rewrite seq_nth by exact Hj. reflexivity.
    - intros i Hi. apply nth_overflow. lia. }
  assert (Hne : her <> []) by (rewrite Eher; discriminate).
  rewrite <- Eher in *. clear Eher kv0 her0.
  remember (hdz her) as h eqn:Eh0. set (st := map Z.of_nat v).
  assert (Lst : length st = length v) by (unfold st; apply map_length).
  assert (Lh : length h = length her) by (rewrite Eh0; unfold hdz; apply map_length).
  assert (Hc : count_some n 0 (hlookup h) + length st = n).
  { rewrite count_some_keys; [lia| |].
    - rewrite Eh0, hkeys_hdz. exact Hnd.
    - intros k Hk. rewrite Eh0, hkeys_hdz in Hk. specialize (Hlt k Hk). lia. }
  destruct (add_her_total n 0 (hlookup h) st Hc) as [f Hf].
  assert (Lf := add_her_length _ _ _ _ _ Hf).
  exists f. split.
  { assert (G : forall h0 : hdict, h0 <> [] ->
                 add_heralds_to_state st h0 = add_her (length st + length h0) 0 (hlookup h0) st)
      by (intros [|x h0] Hh0; [contradiction Hh0; reflexivity|reflexivity]).
    fold st. rewrite G.
    - replace (length st + length h) with n by lia. exact Hf.
    - rewrite Eh0. destruct her; [contradiction Hne; reflexivity|discriminate]. }
  assert (Lz : length (znat f) = n) by (unfold znat; rewrite map_length; exact Lf).
  split; [lia|]. split; [|split].
  - intros kv Hkv.
    assert (Hk : fst kv < n) by (apply Hlt; unfold dkeys; apply in_map; exact Hkv).
    pose proof (add_her_nth_herald n 0 (hlookup h) st f (fst kv) (Z.of_nat (snd kv)) Hf ltac:(lia)) as G.
    rewrite Nat.sub_0_r in G. rewrite Eh0, hlookup_hdz, (dget_in her kv Hnd Hkv) in G.
    specialize (G eq_refl).
    unfold znat. rewrite (nth_indep _ 0 (Z.to_nat 0%Z)) by (rewrite map_length; lia).
    rewrite map_nth, G. apply Nat2Z.id.
  - intros j Hj.
    pose proof (add_her_keep n 0 (hlookup h) st f Hf Hc) as G.
    rewrite (keep_idx_filter 0%Z) in G. rewrite Lf in G.
    assert (Ef : filter (fun j0 => match hlookup h j0 with Some _ => false | None => true end) (seq 0 n)
                 = vis n (dkeys her)).
    { unfold vis. apply filter_ext. intros p. rewrite Eh0, hlookup_hdz.
      destruct (dget her p) eqn:E; cbn [option_map].
      - symmetry. destruct (not_in (dkeys her) p) eqn:E'; [|reflexivity].
        apply not_in_spec in E'. apply dget_none in E'. congruence.
      - symmetry. apply not_in_spec. apply dget_none. exact E. }
    rewrite Ef in G.
    assert (G' : nth j (map (fun p => nth (p - 0) f 0%Z) (vis n (dkeys her))) 0%Z = nth j st 0%Z) by (rewrite G; reflexivity).
    rewrite (nth_indep _ 0%Z (nth (0 - 0) f 0%Z)) in G' by (rewrite map_length; exact Hj).
    rewrite (map_nth (fun p => nth (p - 0) f 0%Z)) in G'. rewrite Nat.sub_0_r in G'.
    assert (Hp : nth j (vis n (dkeys her)) 0 < n).
    { assert (Hin : In (nth j (vis n (dkeys her)) 0) (vis n (dkeys her))) by (apply nth_In, Hj). apply vis_in in Hin. tauto. }
    unfold znat. rewrite (nth_indep _ 0 (Z.to_nat 0%Z)) by (rewrite map_length; lia).
    rewrite map_nth, G'. unfold st.
    assert (Hjv : j < length v).
    { rewrite vis_length in Hj by assumption. unfold dkeys in Hj. rewrite map_length in Hj. lia. }
    rewrite (nth_indep _ 0%Z (Z.of_nat 0)) by (rewrite map_length; exact Hjv).
    rewrite map_nth. apply Nat2Z.id.
  - intros i Hi. apply nth_overflow. lia.
Qed.

(* a definite full state *)
Definition mkfull (n l : nat) (her : dict) (v : list nat) : list nat :=
  match add_heralds_to_state (map Z.of_nat v) (hdz her) with
  | Ok f => znat f ++ repeat 0 l
  | Err _ => []
  end.

Lemma mkfull_full n l her v :
  NoDup (dkeys her) -> (forall k, In k (dkeys her) -> k < n) -> length v + length her = n ->
  full_st n l her v (mkfull n l her v).
Proof.
  intros H1 H2 H3. destruct (add_heralds_full n her v H1 H2 H3) as (f & E & F).
  unfold mkfull. rewrite E. apply full_st_pad. exact F.
Qed.

(* ---- slices and splices ---- *)
Lemma nth_slice {A} (l : list A) a k j d : j < k -> nth j (slice l a k) d = nth (a + j) l d.
Proof. intros H. unfold slice. rewrite nth_firstn_lt by exact H. apply nth_skipn'. Qed.

Lemma slice_length {A} (l : list A) a k : a + k <= length l -> length (slice l a k) = k.
Proof. intros H. unfold slice. rewrite firstn_length, skipn_length. lia. Qed.

Lemma splice_length {A} (l x : list A) a : a + length x <= length l -> length (splice l a x) = length l.
Proof. intros H. unfold splice. rewrite !app_length, firstn_length, skipn_length. lia. Qed.

Lemma nth_splice {A} (l x : list A) a i d : a + length x <= length l ->
  nth i (splice l a x) d = if i <? a then nth i l d else if i <? a + length x then nth (i - a) x d else nth i l d.
Proof.
  intros H. unfold splice.
  assert (La : length (firstn a l) = a) by (rewrite firstn_length; lia).
  destruct (Nat.ltb_spec i a) as [Hi|Hi].
  - rewrite app_nth1 by lia. apply nth_firstn_lt. exact Hi.
  - rewrite app_nth2 by lia. rewrite La.
    destruct (Nat.ltb_spec i (a + length x)) as [Hj|Hj].
    + rewrite app_nth1 by lia. reflexivity.
    + rewrite app_nth2 by lia. rewrite nth_skipn'. f_equal. lia.
Qed.

Lemma drn_firstn b q : drn (firstn q b) = firstn (2 * q) (drn b).
Proof.
  revert b. induction q as [|q IH]; intros b; [reflexivity|].
  destruct b as [|x b]; [reflexivity|]. replace (2 * S q) with (S (S (2 * q))) by lia.
  cbn [firstn]. change (drn (x :: firstn q b)) with ((if x then [0; 1] else [1; 0]) ++ drn (firstn q b)).
  change (drn (x :: b)) with ((if x then [0; 1] else [1; 0]) ++ drn b). rewrite IH. destruct x; reflexivity.
Qed.

Lemma drn_skipn b q : drn (skipn q b) = skipn (2 * q) (drn b).
Proof.
  revert b. induction q as [|q IH]; intros b; [reflexivity|].
  destruct b as [|x b]; [reflexivity|]. replace (2 * S q) with (S (S (2 * q))) by lia.
  cbn [skipn]. change (drn (x :: b)) with ((if x then [0; 1] else [1; 0]) ++ drn b). rewrite IH. destruct x; reflexivity.
Qed.

Lemma drn_slice b q k : drn (slice b q k) = slice (drn b) (2 * q) (2 * k).
Proof. unfold slice. rewrite drn_firstn, drn_skipn. reflexivity. Qed.

Lemma drn_splice b q x : drn (splice b q x) = splice (drn b) (2 * q) (drn x).
Proof.
  unfold splice. rewrite !drn_app, drn_firstn, drn_skipn, drn_length. do 3 f_equal. lia.
Qed.

Lemma slice_splice {A} (l x : list A) a : a + length x <= length l -> slice (splice l a x) a (length x) = x.
Proof.
  intros H. unfold slice, splice.
  assert (La : length (firstn a l) = a) by (rewrite firstn_length; lia).
  rewrite skipn_app, La, Nat.sub_diag. rewrite (skipn_all2 (firstn a l)) by lia. cbn [skipn app].
  rewrite firstn_app, Nat.sub_diag, firstn_all. cbn [firstn]. apply app_nil_r.
Qed.
