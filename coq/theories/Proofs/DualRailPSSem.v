(* Block-form characterisation of the three-qubit gates (CCZ, CCNOT) of the sparse qubit-level
   semantics of Proofs/DualRailSem.v, in the style of [sval_cz] / [sval_cx] there: the matrix
   entries of [sact Gccz] / [sact Gccx] on three adjacent qubits q, q+1, q+2 are those of
   [spec_CCZ] / [spec_CCNOT tq] (Model/Gates.v) applied on the block, composed after the
   current operator. *)
From Coq Require Import ZArith NArith List Bool Arith Lia Ring_theory Ring.
From LW Require Import Base.Sx Base.Num Base.Sums Model.Convert Model.Gates Proofs.ConvertP
  Proofs.DualRailDefs Proofs.DualRailSem.
Import ListNotations.
Open Scope nat_scope.

(* bits q, q+1, q+2 := the first three entries of x *)
Definition setb3 (L : N) (q : nat) (x : list bool) : N :=
  setb (setb (setb L q (nth 0 x false)) (q + 1) (nth 1 x false)) (q + 2) (nth 2 x false).

Lemma slice_3 (b : list bool) q : q + 2 < length b ->
  slice b q 3 = [nth q b false; nth (q + 1) b false; nth (q + 2) b false].
Proof.
  intros H. unfold slice. rewrite (skipn_cons_nth b false q) by lia.
  rewrite (skipn_cons_nth b false (S q)) by lia.
  rewrite (skipn_cons_nth b false (S (S q))) by lia.
  replace (q + 1) with (S q) by lia. replace (q + 2) with (S (S q)) by lia. reflexivity.
Qed.

Lemma lab_splice_3 b q x : length x = 3 -> q + 2 < length b ->
  lab (splice b q x) = setb3 (lab b) q x.
Proof.
  intros Hx Hq. destruct x as [|x0 [|x1 [|x2 [|]]]]; try discriminate. unfold setb3. cbn [nth].
  apply tb_ext. intros p. rewrite tb_lab, nth_splice by (cbn [length]; lia).
  rewrite !tb_setb, tb_lab. cbn [length].
  destruct (Nat.eqb_spec p (q + 2)) as [->|Hp2].
  - destruct (Nat.leb_spec q (q + 2)), (Nat.ltb_spec (q + 2) (q + 3)); try lia. cbn [andb].
    replace (q + 2 - q) with 2 by lia. reflexivity.
  - destruct (Nat.eqb_spec p (q + 1)) as [->|Hp1].
    + destruct (Nat.leb_spec q (q + 1)), (Nat.ltb_spec (q + 1) (q + 3)); try lia. cbn [andb].
      replace (q + 1 - q) with 1 by lia. reflexivity.
    + destruct (Nat.eqb_spec p q) as [->|Hp].
      * rewrite Nat.leb_refl. destruct (Nat.ltb_spec q (q + 3)); [|lia]. cbn [andb].
        rewrite Nat.sub_diag. reflexivity.
      * destruct (Nat.leb_spec q p), (Nat.ltb_spec p (q + 3)); cbn [andb]; try reflexivity; lia.
Qed.

(* flipping bit X under two controls A, B (both different from X) is an involution *)
Lemma cflip2_invol A B X n : A <> X -> B <> X ->
  cflip (tb (cflip (tb n A && tb n B) X n) A && tb (cflip (tb n A && tb n B) X n) B) X
    (cflip (tb n A && tb n B) X n) = n.
Proof.
  intros HA HB. unfold cflip. destruct (tb n A && tb n B) eqn:E.
  - rewrite !tb_setb.
    destruct (Nat.eqb_spec A X); [contradiction|]. destruct (Nat.eqb_spec B X); [contradiction|].
    rewrite E. rewrite Nat.eqb_refl, negb_involutive, setb_setb. apply setb_same.
  - rewrite E. reflexivity.
Qed.

Section PSSem.
  Context {T : Type} (t : ops T) {SR : StarRing t}.
  Let R := sr_ring (o:=t).
  Add Ring PSSemR : R.
  Variable m1 : gname -> nat -> qmat T.

  (* ---------------------------------------------------------------- CCZ *)
  Lemma ccz_entry L q c r c0 v :
    ent t L c (r, c0, if forallb (tb r) [q; q + 1; q + 2] then kopp t v else v) =
    suml t (bits 3)
      (fun x => kmul t (spec_CCZ t [tb L q; tb L (q + 1); tb L (q + 2)] x)
                  (ent t (setb3 L q x) c (r, c0, v))).
  Proof.
    assert (EL : setb3 L q [tb L q; tb L (q + 1); tb L (q + 2)] = L).
    { unfold setb3. cbn [nth]. rewrite (setb_same L q), (setb_same L (q + 1)). apply setb_same. }
    unfold suml. cbn [bits flat_map map app fold_right]. unfold setb3 in *. cbn [nth] in *.
    revert EL.
    destruct (tb L q) eqn:U0, (tb L (q + 1)) eqn:U1, (tb L (q + 2)) eqn:U2; intros EL;
      unfold spec_CCZ, delta, bit; cbn [bits_eqb nth Bool.eqb andb]; rewrite EL;
      unfold ent; cbn [fst snd forallb];
      (destruct (N.eqb_spec r L) as [->|Hr]; cbn [andb];
       [rewrite U0, U1, U2; cbn [andb]; destruct (N.eqb c0 c) | ]; ring).
  Qed.

  Lemma sval_ccz i q nq s b' c : q + 2 < nq -> In b' (bits nq) ->
    sval t (sact t m1 Gccz i [q; q + 1; q + 2] s) (lab b') c =
    suml t (bits 3)
      (fun x => kmul t (spec_CCZ t (slice b' q 3) x) (sval t s (lab (splice b' q x)) c)).
  Proof.
    intros Hq Hb. apply bits_In_length in Hb. rewrite (sval_lin t (SR:=SR)).
    etransitivity; [apply sval_ent|]. cbn [sact]. rewrite sem_suml_map.
    apply suml_ext. intros [[r c0] v] _. cbn [fst snd].
    rewrite slice_3 by lia.
    rewrite <- (tb_lab b' q), <- (tb_lab b' (q + 1)), <- (tb_lab b' (q + 2)).
    rewrite (ccz_entry (lab b') q c r c0 v).
    apply suml_ext. intros x Hx. apply bits_In_length in Hx.
    rewrite (lab_splice_3 b' q x) by lia. reflexivity.
  Qed.

  (* ---------------------------------------------------------------- CCNOT *)
  Lemma ent_cflip2 A B X L c r c0 v : A <> X -> B <> X ->
    ent t L c (cflip (tb r A && tb r B) X r, c0, v) =
    ent t (cflip (tb L A && tb L B) X L) c (r, c0, v).
  Proof.
    intros HA HB. unfold ent. cbn [fst snd].
    pose proof (eqb_swap_invol (fun n => cflip (tb n A && tb n B) X n)
                  (fun n => cflip2_invol A B X n HA HB) r L) as E.
    cbv beta in E. rewrite E. reflexivity.
  Qed.

  (* the common end of the three cases: EL identifies the one surviving term of the block sum *)
  Ltac ccx_finish L q EL :=
    unfold suml; cbn [bits flat_map map app fold_right]; unfold setb3 in *; cbn [nth] in *;
    revert EL;
    destruct (tb L q) eqn:U0, (tb L (q + 1)) eqn:U1, (tb L (q + 2)) eqn:U2; intros EL;
    unfold spec_CCNOT, delta, bit;
    cbn [forallb bits_eqb nth flip_bit negb Bool.eqb andb orb Nat.eqb] in *;
    rewrite <- EL; ring.

  Ltac ccx_label L q :=
    unfold setb3, cflip; cbn [nth]; apply tb_ext; intros p;
    destruct (tb L q) eqn:U0, (tb L (q + 1)) eqn:U1, (tb L (q + 2)) eqn:U2; cbn [andb negb];
    rewrite !tb_setb;
    destruct (Nat.eqb_spec p (q + 2)), (Nat.eqb_spec p (q + 1)), (Nat.eqb_spec p q);
    subst; try lia; congruence.

  (* target = block position 0 (qubit q), controls q+1, q+2 *)
  Lemma ccx_entry0 L q c r c0 v :
    ent t L c (cflip (tb r (q + 1) && tb r (q + 2)) q r, c0, v) =
    suml t (bits 3)
      (fun x => kmul t (spec_CCNOT t 0 [tb L q; tb L (q + 1); tb L (q + 2)] x)
                  (ent t (setb3 L q x) c (r, c0, v))).
  Proof.
    rewrite ent_cflip2 by lia.
    assert (EL : setb3 L q [if tb L (q + 1) && tb L (q + 2) then negb (tb L q) else tb L q;
                            tb L (q + 1); tb L (q + 2)] =
                 cflip (tb L (q + 1) && tb L (q + 2)) q L) by ccx_label L q.
    ccx_finish L q EL.
  Qed.

  (* target = block position 1 (qubit q+1), controls q, q+2 *)
  Lemma ccx_entry1 L q c r c0 v :
    ent t L c (cflip (tb r q && tb r (q + 2)) (q + 1) r, c0, v) =
    suml t (bits 3)
      (fun x => kmul t (spec_CCNOT t 1 [tb L q; tb L (q + 1); tb L (q + 2)] x)
                  (ent t (setb3 L q x) c (r, c0, v))).
  Proof.
    rewrite ent_cflip2 by lia.
    assert (EL : setb3 L q [tb L q;
                            if tb L q && tb L (q + 2) then negb (tb L (q + 1)) else tb L (q + 1);
                            tb L (q + 2)] =
                 cflip (tb L q && tb L (q + 2)) (q + 1) L) by ccx_label L q.
    ccx_finish L q EL.
  Qed.

  (* target = block position 2 (qubit q+2), controls q, q+1 *)
  Lemma ccx_entry2 L q c r c0 v :
    ent t L c (cflip (tb r q && tb r (q + 1)) (q + 2) r, c0, v) =
    suml t (bits 3)
      (fun x => kmul t (spec_CCNOT t 2 [tb L q; tb L (q + 1); tb L (q + 2)] x)
                  (ent t (setb3 L q x) c (r, c0, v))).
  Proof.
    rewrite ent_cflip2 by lia.
    assert (EL : setb3 L q [tb L q; tb L (q + 1);
                            if tb L q && tb L (q + 1) then negb (tb L (q + 2)) else tb L (q + 2)] =
                 cflip (tb L q && tb L (q + 1)) (q + 2) L) by ccx_label L q.
    ccx_finish L q EL.
  Qed.

  Lemma sval_ccx i q tq nq s b' c : tq <= 2 -> q + 2 < nq -> In b' (bits nq) ->
    sval t (sact t m1 Gccx i (match tq with
                              | 0 => [q + 1; q + 2; q]
                              | 1 => [q; q + 2; q + 1]
                              | _ => [q; q + 1; q + 2]
                              end) s) (lab b') c =
    suml t (bits 3)
      (fun x => kmul t (spec_CCNOT t tq (slice b' q 3) x) (sval t s (lab (splice b' q x)) c)).
  Proof.
    intros Htq Hq Hb. apply bits_In_length in Hb. rewrite (sval_lin t (SR:=SR)).
    etransitivity; [apply sval_ent|].
    destruct tq as [|[|[|tq]]]; [| | |lia]; cbn [sact]; rewrite sem_suml_map;
      apply suml_ext; intros [[r c0] v] _; cbn [fst snd];
      rewrite slice_3 by lia;
      rewrite <- (tb_lab b' q), <- (tb_lab b' (q + 1)), <- (tb_lab b' (q + 2));
      [rewrite (ccx_entry0 (lab b') q c r c0 v)
      |rewrite (ccx_entry1 (lab b') q c r c0 v)
      |rewrite (ccx_entry2 (lab b') q c r c0 v)];
      apply suml_ext; intros x Hx; apply bits_In_length in Hx;
      rewrite (lab_splice_3 b' q x) by lia; reflexivity.
  Qed.
End PSSem.
