(* Groups never nest: every circuit a program can build has groups whose members are not
   groups (Circuit.add unpacks the circuit it adds before it wraps it in a Group).  A fact about
   the functional model (Model/Circuit.v), used by the reference-level refinement (unpack_circuit_spec
   and the depth-2 reading of a spec list rely on it). *)
From Coq Require Import ZArith List Bool Arith Lia.
From LW Require Import Base.Sx Base.Num Base.Sums Base.Mat Model.Circuit Model.World Model.Rewrite.
Import ListNotations.

Section Flat.
  Context {K : Type} (o : ops K).
  Notation comp := (@comp K).
  Notation circ := (@circ K).

  Definition nogroup (sp : list comp) : Prop := Forall (fun x => is_group x = false) sp.
  Definition flat_comp (c : comp) : Prop :=
    match c with Group sp _ _ _ _ => nogroup sp | _ => True end.
  Definition flat_spec (sp : list comp) : Prop := Forall flat_comp sp.
  Definition flat_circ (c : circ) : Prop := flat_spec (c_spec c).

  Lemma nogroup_flat sp : nogroup sp -> flat_spec sp.
  Proof. unfold nogroup, flat_spec. apply Forall_impl. intros x Hx. destruct x; try exact I. discriminate. Qed.

  Lemma aem_is_group mode (c : comp) : is_group (aem o mode c) = is_group c.
  Proof. destruct c; try reflexivity. cbn [aem]. destruct (_ && _); reflexivity. Qed.
  Lemma shift_is_group d (c : comp) : is_group (shift_comp d c) = is_group c.
  Proof. destruct c; reflexivity. Qed.

  Lemma nogroup_map (f : comp -> comp) sp :
    (forall c, is_group (f c) = is_group c) -> nogroup sp -> nogroup (map f sp).
  Proof.
    intros Hf H. unfold nogroup in *. rewrite Forall_map. eapply Forall_impl; [|exact H].
    intros x Hx. cbv beta. rewrite Hf. exact Hx.
  Qed.
  Lemma aem_flat mode (c : comp) : flat_comp c -> flat_comp (aem o mode c).
  Proof.
    destruct c; try (intros; exact I).
    - intros _. cbn [aem]. destruct (_ && _); exact I.
    - cbn [aem flat_comp]. apply nogroup_map. apply aem_is_group.
  Qed.
  Lemma shift_flat d (c : comp) : flat_comp c -> flat_comp (shift_comp d c).
  Proof.
    destruct c; try (intros; exact I). cbn [shift_comp flat_comp]. apply nogroup_map. apply shift_is_group.
  Qed.
  Lemma flat_map_pres (f : comp -> comp) sp :
    (forall c, flat_comp c -> flat_comp (f c)) -> flat_spec sp -> flat_spec (map f sp).
  Proof.
    intros Hf H. unfold flat_spec in *. rewrite Forall_map. eapply Forall_impl; [|exact H]. intros x. apply Hf.
  Qed.

  Lemma unpack_nogroup sp : flat_spec sp -> nogroup (unpack_spec sp).
  Proof.
    intros H. unfold nogroup, unpack_spec. apply Forall_forall. intros x Hx.
    apply in_flat_map in Hx as (g & Hg & Hx). unfold flat_spec in H. rewrite Forall_forall in H. specialize (H g Hg).
    destruct g; try (destruct Hx as [<-|[]]; reflexivity).
    cbn [flat_comp] in H. unfold nogroup in H. rewrite Forall_forall in H. apply H, Hx.
  Qed.

  (* the two folds of Circuit.add only map [aem] over the component lists *)
  Lemma add_empty_mode_snd (w : circ) sp t : snd (add_empty_mode o w sp t) = aem_spec o t sp.
  Proof. reflexivity. Qed.
  Lemma add_empty_mode_spec (w : circ) sp t : c_spec (fst (add_empty_mode o w sp t)) = c_spec w.
  Proof. reflexivity. Qed.

  Section AddFolds.
    Variable P : list comp -> Prop.
    Hypothesis P_aem : forall t sp, P sp -> P (aem_spec o t sp).

    Lemma pass_fold_P (m : nat) l : forall (w : circ) sp,
      P sp ->
      P (snd (fold_left (fun (acc : circ * list comp) i =>
                   let '(w, sp) := acc in
                   let target := fold_left (fun t hm => if (Z.of_nat hm <? t)%Z then (t + 1)%Z else t)
                                           (sort_nat (dkeys (c_in w))) (Z.of_nat i - Z.of_nat m)%Z in
                   if ((0 <=? target) && (target <? Z.of_nat (c_n w)))%Z
                   then add_empty_mode o w sp (Z.to_nat target) else (w, sp)) l (w, sp))).
    Proof.
      induction l as [|i l IH]; intros w sp H; [exact H|]. cbn [fold_left].
      destruct ((0 <=? _) && _)%Z.
      - unfold add_empty_mode at 1. apply IH. apply P_aem, H.
      - apply IH, H.
    Qed.

    Lemma anc_fold_P (m : nat) l : forall (c : circ),
      P (c_spec c) ->
      P (c_spec (fold_left (fun (p : circ) hm =>
                   let '(p', sp') := add_empty_mode o p (c_spec p) (m + hm) in
                   mkCirc (c_n p') sp' (c_in p') (c_out p') (c_xin p') (c_xout p') (c_int p' ++ [m + hm])) l c)).
    Proof.
      induction l as [|i l IH]; intros c H; [exact H|]. cbn [fold_left]. apply IH.
      unfold add_empty_mode. cbn [c_spec]. apply P_aem, H.
    Qed.
  End AddFolds.

  Lemma her_fold_spec (m : nat) (l : dict) : forall (c : circ),
    c_spec (fold_left (fun (p : circ) kv =>
                mkCirc (c_n p) (c_spec p) (dset (c_in p) (fst kv + m) (snd kv))
                       (dset (c_out p) (fst kv + m) (snd kv)) (c_xin p) (c_xout p) (c_int p)) l c) = c_spec c.
  Proof. induction l as [|kv l IH]; intros c; [reflexivity|]. cbn [fold_left]. rewrite IH. reflexivity. Qed.

  Lemma op_add_flat (c sub : circ) mode g c' :
    flat_circ c -> flat_circ sub -> op_add o c sub mode g = Ok c' -> flat_circ c'.
  Proof.
    intros Hc Hs H. unfold op_add in H.
    destruct (mode_ok c (map_mode (c_int c) mode)) as [m|] eqn:Em; [|discriminate]. cbn [bind] in H.
    set (cc := unpack_groups (copy_circ sub)) in *.
    set (grp := g || negb (length (c_in cc) =? 0)) in *.
    set (w := if grp then cc else copy_circ sub) in *.
    destruct (_ <? _); [discriminate|].
    set (sp0 := if list_eqb _ _ then c_spec w else c_spec w ++ [_]) in *.
    set (w1 := mkCirc (c_n w) (c_spec w) (c_in w) (c_in w) (c_xin w) (c_xin w) (c_int w)) in *.
    match type of H with context [fold_left ?f (sort_nat (c_int c)) (w1, sp0)] => set (pf := f) in * end.
    destruct (fold_left pf (sort_nat (c_int c)) (w1, sp0)) as [w2 sp] eqn:Ef.
    assert (Hsp : sp = snd (fold_left pf (sort_nat (c_int c)) (w1, sp0))) by (rewrite Ef; reflexivity).
    assert (Fw : flat_spec (c_spec w)).
    { unfold w. destruct grp; [|exact Hs]. apply nogroup_flat, unpack_nogroup. exact Hs. }
    assert (F0 : flat_spec sp0).
    { unfold sp0. destruct (list_eqb _ _); [exact Fw|]. apply Forall_app. split; [exact Fw|]. constructor; [exact I|constructor]. }
    assert (Fsp : flat_spec sp).
    { rewrite Hsp. unfold pf. apply (pass_fold_P flat_spec); [|exact F0].
      intros t s Hs'. unfold aem_spec. apply flat_map_pres; [apply aem_flat|exact Hs']. }
    assert (Fadd : flat_spec (shift_spec m sp)).
    { unfold shift_spec. apply flat_map_pres; [apply shift_flat|exact Fsp]. }
    match type of H with context [fold_left ?f (c_in w2) ?x] => set (hf := f) in *; set (c1 := x) in * end.
    assert (Fc1 : flat_spec (c_spec c1)).
    { unfold c1. apply (anc_fold_P flat_spec); [|exact Hc].
      intros t s Hs'. unfold aem_spec. apply flat_map_pres; [apply aem_flat|exact Hs']. }
    assert (Fc2 : flat_spec (c_spec (fold_left hf (c_in w2) c1))).
    { unfold hf. rewrite her_fold_spec. exact Fc1. }
    destruct grp eqn:Eg.
    - injection H as <-. unfold flat_circ, app_spec, set_spec. cbn [c_spec]. apply Forall_app. split; [exact Fc2|].
      constructor; [|constructor]. cbn [flat_comp].
      assert (N0 : nogroup sp0).
      { unfold sp0. assert (Nw : nogroup (c_spec w)) by (unfold w; apply unpack_nogroup; exact Hs).
        destruct (list_eqb _ _); [exact Nw|]. apply Forall_app. split; [exact Nw|]. constructor; [reflexivity|constructor]. }
      assert (Nsp : nogroup sp).
      { rewrite Hsp. unfold pf. apply (pass_fold_P nogroup); [|exact N0].
        intros t s Hs'. unfold aem_spec. apply nogroup_map; [apply aem_is_group|exact Hs']. }
      unfold shift_spec. apply nogroup_map; [apply shift_is_group|exact Nsp].
    - injection H as <-. unfold flat_circ, app_spec, set_spec. cbn [c_spec]. apply Forall_app. split; [exact Fc2|exact Fadd].
  Qed.

  Lemma app_flat (c : circ) sp : flat_circ c -> flat_spec sp -> flat_circ (app_spec c sp).
  Proof. intros H1 H2. unfold flat_circ, app_spec, set_spec. cbn [c_spec]. apply Forall_app. split; assumption. Qed.

  Lemma op_bs_flat e (c : circ) m1 m2 r l cv c' : flat_circ c -> op_bs o e c m1 m2 r l cv = Ok c' -> flat_circ c'.
  Proof.
    intros Hc H. unfold op_bs in H.
    destruct (mode_ok c _) as [a|]; [|discriminate]. cbn [bind] in H.
    destruct (_ =? _)%Z; [discriminate|].
    destruct (mode_ok c _) as [b|]; [|discriminate]. cbn [bind] in H.
    destruct (check_loss o e l); [|discriminate]. cbn [bind] in H.
    destruct (negb _); [discriminate|].
    destruct (loss_positive o l); injection H as <-; repeat apply app_flat; try exact Hc; repeat constructor.
  Qed.
  Lemma op_ps_flat e (c : circ) m phi l c' : flat_circ c -> op_ps o e c m phi l = Ok c' -> flat_circ c'.
  Proof.
    intros Hc H. unfold op_ps in H.
    destruct (mode_ok c _) as [a|]; [|discriminate]. cbn [bind] in H.
    destruct (check_loss o e l); [|discriminate]. cbn [bind] in H.
    destruct (loss_positive o l); injection H as <-; repeat apply app_flat; try exact Hc; repeat constructor.
  Qed.
  Lemma op_loss_flat e (c : circ) m l c' : flat_circ c -> op_loss o e c m l = Ok c' -> flat_circ c'.
  Proof.
    intros Hc H. unfold op_loss in H.
    destruct (mode_ok c _) as [a|]; [|discriminate]. cbn [bind] in H.
    destruct (check_loss o e l); [|discriminate]. cbn [bind] in H.
    injection H as <-; repeat apply app_flat; try exact Hc; repeat constructor.
  Qed.
  Lemma op_barrier_flat (c : circ) ms c' : flat_circ c -> op_barrier c ms = Ok c' -> flat_circ c'.
  Proof.
    intros Hc H. unfold op_barrier in H.
    destruct (all_ok c _) as [r|]; [|discriminate]. cbn [bind] in H.
    injection H as <-; repeat apply app_flat; try exact Hc; repeat constructor.
  Qed.
  Lemma op_mode_swaps_flat (c : circ) sw c' : flat_circ c -> op_mode_swaps c sw = Ok c' -> flat_circ c'.
  Proof.
    intros Hc H. unfold op_mode_swaps in H.
    destruct (all_ok c _) as [ks|]; [|discriminate]. cbn [bind] in H.
    destruct (all_ok c _) as [vs|]; [|discriminate]. cbn [bind] in H.
    destruct (list_eqb _ _); [|discriminate].
    injection H as <-; repeat apply app_flat; try exact Hc; repeat constructor.
  Qed.
  Lemma op_herald_flat (c : circ) n im om c' : flat_circ c -> op_herald c n im om = Ok c' -> flat_circ c'.
  Proof.
    intros Hc H. unfold op_herald in H.
    destruct (mode_ok c _) as [a|]; [|discriminate]. cbn [bind] in H.
    destruct (mode_ok c _) as [b|]; [|discriminate]. cbn [bind] in H.
    destruct (dmem _ _); [discriminate|]. destruct (dmem _ _); [discriminate|].
    injection H as <-. exact Hc.
  Qed.
  Lemma unpack_flat (c : circ) : flat_circ c -> flat_circ (unpack_groups c).
  Proof. intros Hc. unfold flat_circ, unpack_groups. cbn [c_spec]. apply nogroup_flat, unpack_nogroup, Hc. Qed.
  Lemma op_plus_flat (a b c' : circ) : flat_circ a -> flat_circ b -> op_plus a b = Ok c' -> flat_circ c'.
  Proof.
    intros Ha Hb H. unfold op_plus in H. destruct (negb _); [discriminate|]. destruct (_ || _); [discriminate|].
    injection H as <-. unfold flat_circ. cbn [c_spec]. apply Forall_app. split; assumption.
  Qed.
End Flat.
