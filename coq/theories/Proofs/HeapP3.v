(* Reference-level heap model: the ownership / separation invariant, the pool, and the two generic
   step lemmas (a call that updates its target in place / a call that binds a new object). *)
From Coq Require Import ZArith List Bool Arith Lia PArith FMapPositive.
From LW Require Import Base.Sx Base.Num Base.Sums Base.Mat Model.Circuit Model.World Model.Rewrite Model.Heap
     Proofs.WorldP Proofs.HeapP Proofs.HeapP2 Proofs.HeapFlat.
Import ListNotations.

Section HeapP3.
  Context {K : Type} (o : ops K).
  Notation heap := (@heap K).
  Notation cell := (@cell K).
  Notation hcomp := (@hcomp K).
  Notation comp := (@comp K).
  Notation circ := (@circ K).
  Notation hworld := (@hworld K).
  Notation world := (@world K).

  (* ---------------- the pool ---------------- *)
  Lemma pget_In (p : hpool) id c : pget p id = Some c -> In (id, c) p.
  Proof.
    induction p as [|[i ci] p IH]; simpl; [discriminate|].
    destruct (Nat.eqb_spec i id) as [->|Hne]; [intros E; injection E as <-; left; reflexivity|].
    intros E. right. apply IH, E.
  Qed.
  Lemma In_pget (p : hpool) id c : NoDup (map fst p) -> In (id, c) p -> pget p id = Some c.
  Proof.
    induction p as [|[i ci] p IH]; simpl; intros Hnd H; [destruct H|].
    inversion Hnd as [|? ? Hni Hnd']; subst.
    destruct H as [E|H].
    - injection E as -> ->. rewrite Nat.eqb_refl. reflexivity.
    - destruct (Nat.eqb_spec i id) as [->|Hne]; [|apply IH; assumption].
      exfalso. apply Hni. apply in_map_iff. exists (id, c). split; [reflexivity|exact H].
  Qed.
  Lemma pset_In (p : hpool) id c j cj :
    NoDup (map fst p) ->
    In (j, cj) (pset p id c) -> (j = id /\ cj = c) \/ (j <> id /\ In (j, cj) p).
  Proof.
    induction p as [|[i ci] p IH]; simpl; intros Hnd.
    - intros [E|[]]. injection E as <- <-. left. split; reflexivity.
    - inversion Hnd as [|? ? Hni Hnd']; subst.
      destruct (Nat.eqb_spec i id) as [->|Hne]; simpl.
      + intros [E|H]; [injection E as <- <-; left; split; reflexivity|].
        right. split; [|right; exact H]. intros ->. apply Hni. apply in_map_iff. exists (id, cj). split; [reflexivity|exact H].
      + intros [E|H]; [injection E as <- <-; right; split; [exact Hne|left; reflexivity]|].
        destruct (IH Hnd' H) as [H1|[H1 H2]]; [left; exact H1|right; split; [exact H1|right; exact H2]].
  Qed.
  Lemma In_pset_same (p : hpool) id c : In (id, c) (pset p id c).
  Proof.
    induction p as [|[i ci] p IH]; simpl; [left; reflexivity|].
    destruct (Nat.eqb_spec i id) as [->|Hne]; simpl; [left; reflexivity|right; exact IH].
  Qed.
  Lemma pset_ids (p : hpool) id c : NoDup (map fst p) -> NoDup (map fst (pset p id c)).
  Proof.
    induction p as [|[i ci] p IH]; simpl; intros Hnd; [constructor; [intros []|constructor]|].
    inversion Hnd as [|? ? Hni Hnd']; subst.
    destruct (Nat.eqb_spec i id) as [->|Hne]; simpl; [constructor; assumption|].
    constructor; [|apply IH, Hnd'].
    intros H. apply in_map_iff in H as ([j cj] & Ej & H). simpl in Ej. subst j.
    apply (pset_In p id c i cj Hnd') in H as [[H _]|[_ H]]; [congruence|].
    apply Hni. apply in_map_iff. exists (i, cj). split; [reflexivity|exact H].
  Qed.

  Definition abs_pool (h : heap) (p : hpool) : world := map (fun ic => (fst ic, abs_circ h (snd ic))) p.
  Lemma abs_unfold (hw : hworld) : abs hw = abs_pool (hw_heap hw) (hw_pool hw).
  Proof. reflexivity. Qed.

  Lemma wget_abs (h : heap) (p : hpool) id : wget (abs_pool h p) id = option_map (abs_circ h) (pget p id).
  Proof.
    induction p as [|[i ci] p IH]; simpl; [reflexivity|].
    destruct (Nat.eqb i id); [reflexivity|exact IH].
  Qed.
  Lemma abs_pool_ext (h h' : heap) (p : hpool) :
    (forall j cj, In (j, cj) p -> abs_circ h' cj = abs_circ h cj) -> abs_pool h' p = abs_pool h p.
  Proof.
    intros H. unfold abs_pool. apply map_ext_in. intros [j cj] Hin. simpl. rewrite (H j cj Hin). reflexivity.
  Qed.
  Lemma abs_pset (h h' : heap) (p : hpool) id c' :
    NoDup (map fst p) ->
    (forall j cj, In (j, cj) p -> j <> id -> abs_circ h' cj = abs_circ h cj) ->
    abs_pool h' (pset p id c') = wset (abs_pool h p) id (abs_circ h' c').
  Proof.
    induction p as [|[i ci] p IH]; simpl; intros Hnd H; [reflexivity|].
    inversion Hnd as [|? ? Hni Hnd']; subst.
    destruct (Nat.eqb_spec i id) as [->|Hne]; simpl.
    - f_equal. apply abs_pool_ext. intros j cj Hin. apply (H j cj); [right; exact Hin|].
      intros ->. apply Hni. apply in_map_iff. exists (id, cj). split; [reflexivity|exact Hin].
    - rewrite (H i ci (or_introl eq_refl) Hne). f_equal. apply IH; [exact Hnd'|].
      intros j cj Hin. apply (H j cj). right. exact Hin.
  Qed.

  (* ---------------- the invariant ---------------- *)
  Definition owned (p : hpool) (a : addr) : Prop := exists i c, In (i, c) p /\ In a (priv c).

  Record inv (hw : hworld) : Prop := mkInv {
    inv_hwf : hwf (hw_heap hw);
    inv_ids : NoDup (map fst (hw_pool hw));
    inv_cwf : forall i c, In (i, c) (hw_pool hw) -> cwf (hw_heap hw) c /\ sep_circ c;
    (* the private cells of two different circuits are disjoint *)
    inv_disj : forall i c j c', In (i, c) (hw_pool hw) -> In (j, c') (hw_pool hw) -> i <> j ->
               forall a, In a (priv c) -> ~ In a (priv c');
    (* component cells, group lists and group dicts are nobody's private cell *)
    inv_frozen : forall j c', In (j, c') (hw_pool hw) ->
               forall a, In a (spec_cells (hw_heap hw) (rd_list (hw_heap hw) (hc_spec c'))) -> ~ owned (hw_pool hw) a;
    inv_flat : forall i c, In (i, c) (hw_pool hw) -> flat_circ (abs_circ (hw_heap hw) c) }.

  Lemma owned_below (hw : hworld) a : inv hw -> owned (hw_pool hw) a -> a <p h_next (hw_heap hw).
  Proof.
    intros I (i & c & Hin & Ha). destruct (inv_cwf hw I i c Hin) as (Hc & _).
    unfold cwf, below in Hc. rewrite Forall_forall in Hc. apply Hc, Ha.
  Qed.

  Lemma inv_empty : inv (hw_empty (K:=K)).
  Proof.
    constructor; simpl; try (intros; contradiction).
    - apply hwf_empty.
    - constructor.
  Qed.

  (* the cells a circuit reaches avoid the private cells of every OTHER circuit, and its entries
     avoid its own private cells *)
  Lemma reach_avoids (hw : hworld) i c j cj :
    inv hw -> In (i, c) (hw_pool hw) -> In (j, cj) (hw_pool hw) -> i <> j ->
    forall a, In a (reach (hw_heap hw) cj) -> ~ In a (priv c).
  Proof.
    intros I Hi Hj Hne a Ha Hp. unfold reach in Ha. apply in_app_or in Ha as [Ha|Ha].
    - exact (inv_disj hw I i c j cj Hi Hj Hne a Hp Ha).
    - apply (inv_frozen hw I j cj Hj a Ha). exists i, c. split; assumption.
  Qed.

  (* a heap that only grew (allocations, writes to new cells) leaves the invariant alone *)
  Lemma inv_grow (p : hpool) (h h' : heap) :
    inv (mkHW p h) -> hframe [] h h' -> hwf h' -> inv (mkHW p h') /\ abs_pool h' p = abs_pool h p.
  Proof.
    intros I Fr Hw'. pose proof (hframe_agree _ _ Fr) as Ag. pose proof (inv_hwf _ I) as Hw. simpl in Hw.
    assert (St : forall j cj, In (j, cj) p -> abs_circ h' cj = abs_circ h cj /\ reach h' cj = reach h cj).
    { intros j cj Hin. apply abs_circ_stable; [exact Hw|exact Ag|]. apply (inv_cwf _ I j cj Hin). }
    split; [|apply abs_pool_ext; intros j cj Hin; apply (St j cj Hin)].
    constructor; simpl.
    - exact Hw'.
    - exact (inv_ids _ I).
    - intros i c Hin. destruct (inv_cwf _ I i c Hin) as (H1 & H2). split; [|exact H2].
      eapply cwf_mono; [apply Fr|exact H1].
    - exact (inv_disj _ I).
    - intros j cj Hin a Ha. destruct (inv_cwf _ I j cj Hin) as (H1 & _). simpl in H1.
      destruct (cwf_fields h cj H1) as (L1 & _).
      rewrite (rd_list_agree h h' _ Ag L1) in Ha.
      rewrite (proj2 (abs_list_stable h h' _ Hw Ag (rd_list_below h _ Hw))) in Ha.
      exact (inv_frozen _ I j cj Hin a Ha).
    - intros i c Hin. rewrite (proj1 (St i c Hin)). exact (inv_flat _ I i c Hin).
  Qed.

  (* ---------------- a call that updates its target ---------------- *)
  (* what such a call must establish, given the world before it *)
  Definition upd_post (p : hpool) (h : heap) (c : hcirc) (F : circ -> res circ) (h' : heap) (r : res hcirc) : Prop :=
    hframe (priv c) h h' /\ hwf h' /\
    match r with
    | Err x => F (abs_circ h c) = Err x /\ hframe [] h h'
    | Ok c' =>
        F (abs_circ h c) = Ok (abs_circ h' c') /\ cwf h' c' /\ sep_circ c' /\
        (forall a, In a (priv c') -> In a (priv c) \/ h_next h <=p a) /\
        (forall a, In a (spec_cells h' (rd_list h' (hc_spec c'))) -> ~ owned p a /\ ~ In a (priv c'))
    end.

  Definition F_flat (F : circ -> res circ) : Prop := forall c c', flat_circ c -> F c = Ok c' -> flat_circ c'.

  Lemma hupd_ok (p : hpool) (h : heap) id f (F : circ -> res circ) :
    inv (mkHW p h) -> F_flat F ->
    (forall c, In (id, c) p -> upd_post p h c F (fst (f h c)) (snd (f h c))) ->
    let hw' := fst (hupd p h id f) in
    inv hw' /\
    abs hw' = fst (upd (abs_pool h p) id F) /\
    snd (hupd p h id f) = snd (upd (abs_pool h p) id F) /\
    hframe (match pget p id with Some c => priv c | None => [] end) h (hw_heap hw') /\
    (forall x, snd (hupd p h id f) = Err x -> hframe [] h (hw_heap hw') /\ hw_pool hw' = p).
  Proof.
    intros I FF Hf. unfold hupd, upd. rewrite wget_abs.
    destruct (pget p id) as [c|] eqn:Eg; cbn [option_map].
    2:{ cbn [fst snd]. split; [exact I|]. split; [reflexivity|]. split; [reflexivity|].
        split; [apply hframe_refl|]. intros x _. split; [apply hframe_refl|reflexivity]. }
    pose proof (pget_In p id c Eg) as Hin. specialize (Hf c Hin).
    destruct (f h c) as [h' r]. cbn [fst snd] in Hf. destruct Hf as (Fr & Hw' & Hr).
    pose proof (inv_hwf _ I) as Hw. simpl in Hw.
    destruct r as [c'|x].
    - destruct Hr as (EF & Hc' & Hs' & Hpr & Hfz). rewrite EF. cbn [fst snd hw_heap hw_pool].
      (* every other circuit is out of reach of the writes *)
      assert (Oth : forall j cj, In (j, cj) p -> j <> id ->
                    abs_circ h' cj = abs_circ h cj /\ reach h' cj = reach h cj).
      { intros j cj Hj Hne. apply abs_circ_frame. intros b Hb.
        destruct Fr as (_ & A2 & _). apply A2.
        - destruct (inv_cwf _ I j cj Hj) as (Hcj & _).
          pose proof (reach_below h cj Hw Hcj) as Hr'. unfold below in Hr'. rewrite Forall_forall in Hr'. apply Hr', Hb.
        - apply (reach_avoids _ id c j cj I Hin Hj); [congruence|exact Hb]. }
      split.
      { constructor; cbn [hw_heap hw_pool].
        - exact Hw'.
        - apply pset_ids, (inv_ids _ I).
        - intros j cj Hj. apply (pset_In p id c' j cj (inv_ids _ I)) in Hj as [[-> ->]|[Hne Hj]]; [split; assumption|].
          destruct (inv_cwf _ I j cj Hj) as (H1 & H2). split; [|exact H2]. eapply cwf_mono; [apply Fr|exact H1].
        - intros i ci j cj Hi Hj Hne a Ha Hb.
          apply (pset_In p id c' i ci (inv_ids _ I)) in Hi as [[-> ->]|[Hni Hi]];
          apply (pset_In p id c' j cj (inv_ids _ I)) in Hj as [[-> ->]|[Hnj Hj]].
          + congruence.
          + destruct (Hpr a Ha) as [H|H].
            * exact (inv_disj _ I id c j cj Hin Hj Hne a H Hb).
            * destruct (inv_cwf _ I j cj Hj) as (H1 & _). unfold cwf, below in H1. rewrite Forall_forall in H1.
              specialize (H1 a Hb). simpl in H1. lia.
          + destruct (Hpr a Hb) as [H|H].
            * exact (inv_disj _ I i ci id c Hi Hin Hne a Ha H).
            * destruct (inv_cwf _ I i ci Hi) as (H1 & _). unfold cwf, below in H1. rewrite Forall_forall in H1.
              specialize (H1 a Ha). simpl in H1. lia.
          + exact (inv_disj _ I i ci j cj Hi Hj Hne a Ha Hb).
        - intros j cj Hj a Ha (k & ck & Hk & Hak).
          assert (Own : forall a, owned (pset p id c') a -> owned p a \/ In a (priv c')).
          { intros a0 (k0 & ck0 & Hk0 & Ha0).
            apply (pset_In p id c' k0 ck0 (inv_ids _ I)) in Hk0 as [[-> ->]|[_ Hk0]]; [right; exact Ha0|].
            left. exists k0, ck0. split; assumption. }
          destruct (Own a (ex_intro _ k (ex_intro _ ck (conj Hk Hak)))) as [Ho|Ho].
          + apply (pset_In p id c' j cj (inv_ids _ I)) in Hj as [[-> ->]|[Hne Hj]].
            * apply (proj1 (Hfz a Ha)), Ho.
            * destruct (Oth j cj Hj Hne) as (_ & Er). unfold reach in Er. apply app_inv_head in Er.
              rewrite Er in Ha. exact (inv_frozen _ I j cj Hj a Ha Ho).
          + apply (pset_In p id c' j cj (inv_ids _ I)) in Hj as [[-> ->]|[Hne Hj]].
            * apply (proj2 (Hfz a Ha)), Ho.
            * destruct (Oth j cj Hj Hne) as (_ & Er). unfold reach in Er. apply app_inv_head in Er.
              rewrite Er in Ha.
              destruct (Hpr a Ho) as [H|H].
              -- apply (inv_frozen _ I j cj Hj a Ha). exists id, c. split; assumption.
              -- destruct (inv_cwf _ I j cj Hj) as (H1 & _).
                 pose proof (spec_cells_below h _ Hw (rd_list_below h (hc_spec cj) Hw)) as Hb.
                 unfold below in Hb. rewrite Forall_forall in Hb. specialize (Hb a Ha). simpl in Hb. lia.
        - intros j cj Hj. apply (pset_In p id c' j cj (inv_ids _ I)) in Hj as [[-> ->]|[Hne Hj]].
          + apply (FF (abs_circ h c)); [exact (inv_flat _ I id c Hin)|exact EF].
          + rewrite (proj1 (Oth j cj Hj Hne)). exact (inv_flat _ I j cj Hj). }
      split.
      { rewrite abs_unfold. cbn [hw_heap hw_pool]. apply abs_pset; [exact (inv_ids _ I)|].
        intros j cj Hj Hne. apply (Oth j cj Hj Hne). }
      split; [reflexivity|]. split; [exact Fr|]. intros x Hx. discriminate.
    - destruct Hr as (EF & Fr0). rewrite EF. cbn [fst snd hw_heap hw_pool].
      destruct (inv_grow p h h' I Fr0 Hw') as (I' & Ea).
      split; [exact I'|]. split; [rewrite abs_unfold; exact Ea|]. split; [reflexivity|]. split; [exact Fr|].
      intros x' _. split; [exact Fr0|reflexivity].
  Qed.

  (* ---------------- a call that binds a new circuit object ---------------- *)
  Lemma hnew_ok (p : hpool) (h h' : heap) id c' (cf : circ) :
    inv (mkHW p h) ->
    hframe [] h h' -> hwf h' -> cwf h' c' -> sep_circ c' ->
    Forall (fun a => h_next h <=p a) (priv c') ->
    abs_circ h' c' = cf -> flat_circ cf ->
    (forall a, In a (spec_cells h' (rd_list h' (hc_spec c'))) -> ~ owned p a /\ ~ In a (priv c')) ->
    inv (mkHW (pset p id c') h') /\ abs (mkHW (pset p id c') h') = wset (abs_pool h p) id cf.
  Proof.
    intros I Fr Hw' Hc' Hs' Hfr Eabs Hflat Hfz.
    destruct (inv_grow p h h' I Fr Hw') as (I' & Ea).
    pose proof (inv_hwf _ I) as Hw. simpl in Hw.
    assert (Fresh : forall a, In a (priv c') -> ~ owned p a).
    { intros a Ha Ho. rewrite Forall_forall in Hfr. specialize (Hfr a Ha).
      pose proof (owned_below _ a I Ho) as Hb. simpl in Hb. lia. }
    split.
    - constructor; cbn [hw_heap hw_pool].
      + exact Hw'.
      + apply pset_ids, (inv_ids _ I).
      + intros j cj Hj. apply (pset_In p id c' j cj (inv_ids _ I)) in Hj as [[-> ->]|[Hne Hj]]; [split; assumption|].
        exact (inv_cwf _ I' j cj Hj).
      + intros i ci j cj Hi Hj Hne a Ha Hb.
        apply (pset_In p id c' i ci (inv_ids _ I)) in Hi as [[-> ->]|[Hni Hi]];
        apply (pset_In p id c' j cj (inv_ids _ I)) in Hj as [[-> ->]|[Hnj Hj]].
        * congruence.
        * apply (Fresh a Ha). exists j, cj. split; assumption.
        * apply (Fresh a Hb). exists i, ci. split; assumption.
        * exact (inv_disj _ I i ci j cj Hi Hj Hne a Ha Hb).
      + intros j cj Hj a Ha (k & ck & Hk & Hak).
        apply (pset_In p id c' j cj (inv_ids _ I)) in Hj as [[-> ->]|[Hne Hj]];
        apply (pset_In p id c' k ck (inv_ids _ I)) in Hk as [[-> ->]|[Hnk Hk]].
        * apply (proj2 (Hfz a Ha)), Hak.
        * apply (proj1 (Hfz a Ha)). exists k, ck. split; assumption.
        * pose proof (inv_hwf _ I') as Hw2. simpl in Hw2.
          pose proof (spec_cells_below h' _ Hw2 (rd_list_below h' (hc_spec cj) Hw2)) as Hb.
          unfold below in Hb. rewrite Forall_forall in Hb. specialize (Hb a Ha).
          (* a is an old cell (it is reachable from an old circuit), the private cells of c' are new *)
          destruct (inv_cwf _ I j cj Hj) as (H1 & _). simpl in H1.
          pose proof (hframe_agree _ _ Fr) as Ag. destruct (cwf_fields h cj H1) as (L1 & _).
          rewrite (rd_list_agree h h' _ Ag L1) in Ha.
          rewrite (proj2 (abs_list_stable h h' _ Hw Ag (rd_list_below h _ Hw))) in Ha.
          pose proof (spec_cells_below h _ Hw (rd_list_below h (hc_spec cj) Hw)) as Hb0.
          unfold below in Hb0. rewrite Forall_forall in Hb0. specialize (Hb0 a Ha).
          rewrite Forall_forall in Hfr. specialize (Hfr a Hak). simpl in Hb0. lia.
        * apply (inv_frozen _ I' j cj Hj a Ha). exists k, ck. split; assumption.
      + intros j cj Hj. apply (pset_In p id c' j cj (inv_ids _ I)) in Hj as [[-> ->]|[Hne Hj]].
        * rewrite Eabs. exact Hflat.
        * exact (inv_flat _ I' j cj Hj).
    - rewrite abs_unfold. cbn [hw_heap hw_pool]. rewrite <- Ea, <- Eabs. apply abs_pset; [exact (inv_ids _ I)|].
      intros; reflexivity.
  Qed.
End HeapP3.
