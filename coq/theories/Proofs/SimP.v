(* Lemmas about the Simulator model (Model/Fock.v, simulate) — property C03. *)
From Coq Require Import ZArith List Bool Arith Lia.
From LW Require Import Base.Sx Base.Num Base.Sums Base.Mat Model.State Model.Fock Proofs.StateP.
Import ListNotations.
Open Scope nat_scope.

Lemma mapM_ok {A B} (f : A -> res B) l r : mapM f l = Ok r -> Forall2 (fun a b => f a = Ok b) l r.
Proof.
  revert r; induction l as [|a l IH]; intros r H; simpl in H.
  - injection H as <-. constructor.
  - destruct (f a) as [b|] eqn:E; simpl in H; [|discriminate].
    destruct (mapM f l) as [r'|] eqn:E'; simpl in H; [|discriminate].
    injection H as <-. constructor; [exact E|apply IH; reflexivity].
Qed.

Lemma mapM_err {A B} (f : A -> res B) l a e :
  In a l -> f a = Err e -> exists e', mapM f l = Err e'.
Proof.
  induction l as [|x l IH]; intros Hin Hf; [destruct Hin|]. simpl.
  destruct Hin as [->|Hin].
  - rewrite Hf. eexists; reflexivity.
  - destruct (f x); simpl; [|eexists; reflexivity].
    destruct (IH Hin Hf) as [e' ->]. eexists; reflexivity.
Qed.

Lemma Forall2_impl {A B} (P Q : A -> B -> Prop) l r :
  (forall a b, P a b -> Q a b) -> Forall2 P l r -> Forall2 Q l r.
Proof. intros H. induction 1; constructor; auto. Qed.

Definition valid_state (m : nat) (s : list Z) : Prop := length s = m /\ Forall (fun x => (0 <= x)%Z) s.

Lemma st_validate_ok s : st_validate s = Ok tt <-> Forall (fun x => (0 <= x)%Z) s.
Proof.
  unfold st_validate. destruct (forallb (fun x => (0 <=? x)%Z) s) eqn:E; split; intros H; try reflexivity; try discriminate.
  - apply Forall_forall. intros x Hx. rewrite forallb_forall in E. apply Z.leb_le, E, Hx.
  - exfalso. assert (forallb (fun x => (0 <=? x)%Z) s = true); [|congruence].
    apply forallb_forall. intros x Hx. rewrite Forall_forall in H. apply Z.leb_le, H, Hx.
Qed.

Lemma check_states_ok m l : check_states m l = Ok tt <-> Forall (valid_state m) l.
Proof.
  induction l as [|s l IH]; simpl; [split; [constructor|reflexivity]|].
  destruct (Nat.eqb_spec (length s) m) as [E|E]; simpl.
  - destruct (st_validate s) as [[]|e] eqn:V.
    + rewrite IH. split; [intros H; constructor; [split; [exact E|apply st_validate_ok; exact V]|exact H]|].
      intros H. inversion H; assumption.
    + split; [discriminate|]. intros H. inversion H as [|? ? [_ Hv] _]; subst.
      apply st_validate_ok in Hv. congruence.
  - split; [discriminate|]. intros H. inversion H as [|? ? [Hl _] _]; subst. contradiction.
Qed.

(* the class of the first rejection *)
Lemma check_states_err m l e :
  check_states m l = Err e -> e = ModeMismatchError \/ e = ValueError.
Proof.
  induction l as [|s l IH]; simpl; [discriminate|].
  destruct (length s =? m); simpl; [|intros H; injection H as <-; left; reflexivity].
  unfold st_validate. destruct (forallb _ s); [exact IH|intros H; injection H as <-; right; reflexivity].
Qed.

Section SimP.
  Context {K : Type} (o : ops K).
  Notation TT := (@TT K).

  (* invalid requests are rejected, nothing is computed *)
  Theorem simulate_rejects_invalid_inputs n l U hin hout m inputs outputs :
    ~ Forall (valid_state m) inputs ->
    exists e, simulate o n l U hin hout m inputs outputs = Err e /\ (e = ModeMismatchError \/ e = ValueError).
  Proof.
    intros H. unfold simulate.
    destruct (check_states m inputs) as [[]|e] eqn:E.
    - exfalso. apply H. apply check_states_ok. exact E.
    - exists e. split; [reflexivity|]. eapply check_states_err; eassumption.
  Qed.

  Theorem simulate_rejects_invalid_outputs n l U hin hout m inputs outs :
    Forall (valid_state m) inputs -> ~ Forall (valid_state m) outs ->
    exists e, simulate o n l U hin hout m inputs (Some outs) = Err e /\ (e = ModeMismatchError \/ e = ValueError).
  Proof.
    intros Hi H. unfold simulate. apply check_states_ok in Hi. rewrite Hi. cbn [bind].
    destruct (check_states m outs) as [[]|e] eqn:E.
    - exfalso. apply H. apply check_states_ok. exact E.
    - exists e. split; [reflexivity|]. eapply check_states_err; eassumption.
  Qed.

  Lemma all_equal_spec l : all_equal l = true <-> forall x y, In x l -> In y l -> x = y.
  Proof.
    destruct l as [|a l]; simpl; [split; [intros _ x y []|reflexivity]|].
    rewrite forallb_forall. split.
    - intros H x y Hx Hy.
      assert (G : forall z, a = z \/ In z l -> z = a).
      { intros z [<-|Hz]; [reflexivity|]. symmetry. apply Z.eqb_eq, H, Hz. }
      rewrite (G x Hx), (G y Hy). reflexivity.
    - intros H x Hx. apply Z.eqb_eq. apply H; [left; reflexivity|right; exact Hx].
  Qed.

  Theorem simulate_rejects_photon_mismatch n l U hin hout m inputs outputs :
    Forall (valid_state m) inputs ->
    match outputs with Some os => Forall (valid_state m) os | None => inputs <> [] end ->
    (exists a b, In a (inputs ++ match outputs with Some os => os | None => [] end) /\
                 In b (inputs ++ match outputs with Some os => os | None => [] end) /\ zsum a <> zsum b) ->
    simulate o n l U hin hout m inputs outputs = Err PhotonNumberError.
  Proof.
    intros Hi Ho (a & b & Ha & Hb & Hab). unfold simulate.
    apply check_states_ok in Hi. rewrite Hi. cbn [bind].
    destruct outputs as [os|].
    - apply check_states_ok in Ho. rewrite Ho. cbn [bind].
      replace (all_equal (map zsum (inputs ++ os))) with false; [reflexivity|].
      symmetry. apply not_true_is_false. intros E. rewrite all_equal_spec in E.
      apply Hab. apply E; apply in_map; assumption.
    - rewrite app_nil_r in Ha, Hb. destruct inputs as [|i0 inputs]; [contradiction|].
      replace (all_equal (map zsum (i0 :: inputs))) with false; [reflexivity|].
      symmetry. apply not_true_is_false. intros E. rewrite all_equal_spec in E.
      apply Hab. apply E; apply in_map; assumption.
  Qed.

  (* what an accepted request returns: one row per input, one entry per output;
     the entry is the permanent of the photon-indexed sub-matrix of U_full with
     herald photons on the herald modes and vacuum on the loss modes, together
     with the product of all occupation factorials *)
  Theorem simulate_entries n l U hin hout m inputs outputs outs rows :
    simulate o n l U hin hout m inputs outputs = Ok (outs, rows) ->
    (match outputs with
     | Some os => outs = os
     | None => outs = map (map Z.of_nat) (fock_sums m (Z.to_nat (zsum (hd [] inputs))))
     end) /\
    Forall2 (fun i row =>
               exists fi, add_heralds_to_state i hin = Ok fi /\
               Forall2 (fun x entry =>
                          exists fx, add_heralds_to_state x hout = Ok fx /\
                          entry = (amp_perm (fo o) U (znat fi ++ repeat 0 l) (znat fx ++ repeat 0 l),
                                   amp_factor (znat fi ++ repeat 0 l) (znat fx ++ repeat 0 l)))
                       outs row)
            inputs rows.
  Proof.
    unfold simulate. intros H.
    destruct (check_states m inputs) as [[]|]; cbn [bind] in H; [|discriminate].
    match type of H with bind ?x _ = _ => destruct x as [outs'|] eqn:Eo; cbn [bind] in H; [|discriminate] end.
    match type of H with bind ?x _ = _ => destruct x as [rows'|] eqn:Er; cbn [bind] in H; [|discriminate] end.
    injection H as <- <-. split.
    - destruct outputs as [os|].
      + destruct (check_states m os) as [[]|]; cbn [bind] in Eo; [|discriminate].
        destruct (all_equal _); [injection Eo as <-; reflexivity|discriminate].
      + destruct inputs as [|i0 inputs]; [discriminate|].
        destruct (all_equal _); [injection Eo as <-; reflexivity|discriminate].
    - apply mapM_ok in Er. eapply Forall2_impl; [|exact Er].
      intros i row Hrow. simpl in Hrow.
      destruct (add_heralds_to_state i hin) as [fi|] eqn:Ei; cbn [bind] in Hrow; [|discriminate].
      exists fi. split; [reflexivity|]. apply mapM_ok in Hrow.
      eapply Forall2_impl; [|exact Hrow]. intros x entry Hx. simpl in Hx.
      destruct (add_heralds_to_state x hout) as [fx|] eqn:Ex; cbn [bind] in Hx; [|discriminate].
      exists fx. split; [reflexivity|]. injection Hx as <-. reflexivity.
  Qed.
End SimP.
