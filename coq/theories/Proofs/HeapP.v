(* Reference-level heap model (Model/Heap.v): basic heap lemmas, frames, the
   copy-and-edit loop.  Continued in HeapP2.v (circuit-level calls) and HeapP3.v (the step). *)
From Coq Require Import ZArith List Bool Arith Lia PArith FMapPositive.
From LW Require Import Base.Sx Base.Num Base.Sums Base.Mat Model.Circuit Model.World Model.Rewrite Model.Heap.
Import ListNotations.

Notation "a <p b" := (Pos.lt a b) (at level 70).
Notation "a <=p b" := (Pos.le a b) (at level 70).

Section HeapP.
  Context {K : Type} (o : ops K).
  Notation heap := (@heap K).
  Notation cell := (@cell K).
  Notation hcomp := (@hcomp K).
  Notation comp := (@comp K).
  Notation circ := (@circ K).
  Notation xform := (@xform K).

  (* ---------------- reads after alloc / write ---------------- *)
  Lemma hget_alloc (h : heap) c a :
    hget (fst (halloc h c)) a = if Pos.eqb a (h_next h) then Some c else hget h a.
  Proof.
    unfold hget, halloc; simpl. destruct (Pos.eqb_spec a (h_next h)) as [->|Hne].
    - apply PositiveMap.gss.
    - apply PositiveMap.gso. exact Hne.
  Qed.
  Lemma hget_write (h : heap) b c a :
    hget (hwrite h b c) a = if Pos.eqb a b then Some c else hget h a.
  Proof.
    unfold hget, hwrite; simpl. destruct (Pos.eqb_spec a b) as [->|Hne].
    - apply PositiveMap.gss.
    - apply PositiveMap.gso. exact Hne.
  Qed.
  Lemma next_alloc (h : heap) c : h_next (fst (halloc h c)) = Pos.succ (h_next h).
  Proof. reflexivity. Qed.
  Lemma next_write (h : heap) b c : h_next (hwrite h b c) = h_next h.
  Proof. reflexivity. Qed.
  Lemma snd_alloc (h : heap) c : snd (halloc h c) = h_next h.
  Proof. reflexivity. Qed.
  Lemma log_alloc (h : heap) c : h_log (fst (halloc h c)) = h_log h.
  Proof. reflexivity. Qed.
  Lemma log_write (h : heap) b c : h_log (hwrite h b c) = b :: h_log h.
  Proof. reflexivity. Qed.

  (* ---------------- well-formed heaps: allocated = below next; closed ---------------- *)
  Definition cell_addrs (c : cell) : list addr :=
    match c with
    | CComp (HGroup l _ _ hi ho) => [l; hi; ho]
    | CList l => l
    | _ => []
    end.
  Definition below (h : heap) (l : list addr) : Prop := Forall (fun b => b <p h_next h) l.
  Definition hwf (h : heap) : Prop :=
    (forall a, hget h a <> None <-> a <p h_next h) /\
    (forall a c, hget h a = Some c -> below h (cell_addrs c)).

  Lemma below_mono (h h' : heap) l : h_next h <=p h_next h' -> below h l -> below h' l.
  Proof. intros Hn. unfold below. apply Forall_impl. intros a Ha. lia. Qed.

  Lemma hwf_empty : hwf (hempty (K:=K)).
  Proof.
    split.
    - intros a. unfold hget, hempty; simpl. rewrite PositiveMap.gempty. split; [congruence|lia].
    - intros a c. unfold hget, hempty; simpl. rewrite PositiveMap.gempty. discriminate.
  Qed.

  Lemma hwf_alloc (h : heap) c : hwf h -> below h (cell_addrs c) -> hwf (fst (halloc h c)).
  Proof.
    intros [H1 H2] Hc. split.
    - intros a. rewrite hget_alloc, next_alloc. destruct (Pos.eqb_spec a (h_next h)) as [->|Hne].
      + split; [lia|congruence].
      + rewrite H1. lia.
    - intros a c'. rewrite hget_alloc. destruct (Pos.eqb_spec a (h_next h)) as [->|Hne]; intros E.
      + injection E as <-. eapply below_mono; [|exact Hc]. rewrite next_alloc. lia.
      + eapply below_mono; [|eapply H2; exact E]. rewrite next_alloc. lia.
  Qed.
  Lemma hwf_write (h : heap) a c : hwf h -> a <p h_next h -> below h (cell_addrs c) -> hwf (hwrite h a c).
  Proof.
    intros [H1 H2] Ha Hc. split.
    - intros b. rewrite hget_write, next_write. destruct (Pos.eqb_spec b a) as [->|Hne].
      + split; [intros _; exact Ha|congruence].
      + apply H1.
    - intros b c'. rewrite hget_write. destruct (Pos.eqb_spec b a) as [->|Hne]; intros E.
      + injection E as <-. exact Hc.
      + eapply H2; exact E.
  Qed.
  Lemma hwf_some (h : heap) a : hwf h -> a <p h_next h -> exists c, hget h a = Some c.
  Proof. intros [H1 _] Ha. apply H1 in Ha. destruct (hget h a); [eauto|congruence]. Qed.
  Lemma hwf_lt (h : heap) a c : hwf h -> hget h a = Some c -> a <p h_next h.
  Proof. intros [H1 _] E. apply H1. congruence. Qed.

  Lemma rd_list_below (h : heap) a : hwf h -> below h (rd_list h a).
  Proof.
    intros [_ H2]. unfold rd_list. destruct (hget h a) as [[| | |]|] eqn:E; try constructor.
    exact (H2 _ _ E).
  Qed.

  (* ---------------- frames ----------------
     [hframe S h h']: h' comes from h by allocations, writes to cells allocated after h, and
     writes to cells of S. *)
  Definition hframe (S : list addr) (h h' : heap) : Prop :=
    h_next h <=p h_next h' /\
    (forall a, a <p h_next h -> ~ In a S -> hget h' a = hget h a) /\
    (forall a, In a (h_log h') -> In a (h_log h) \/ h_next h <=p a \/ In a S).

  Lemma hframe_refl S (h : heap) : hframe S h h.
  Proof. split; [lia|]. split; [reflexivity|auto]. Qed.
  Lemma hframe_trans S (h1 h2 h3 : heap) : hframe S h1 h2 -> hframe S h2 h3 -> hframe S h1 h3.
  Proof.
    intros (A1 & A2 & A3) (B1 & B2 & B3). split; [lia|]. split.
    - intros a Ha Hs. rewrite B2 by (try lia; exact Hs). apply A2; assumption.
    - intros a Ha. destruct (B3 a Ha) as [H|[H|H]]; [|right; left; lia|auto].
      destruct (A3 a H) as [H'|[H'|H']]; auto.
  Qed.
  Lemma hframe_weaken S S' (h h' : heap) : incl S S' -> hframe S h h' -> hframe S' h h'.
  Proof.
    intros Hi (A1 & A2 & A3). split; [exact A1|]. split.
    - intros a Ha Hs. apply A2; [exact Ha|]. intros H. apply Hs, Hi, H.
    - intros a Ha. destruct (A3 a Ha) as [H|[H|H]]; auto.
  Qed.
  Lemma hframe_nil S (h h' : heap) : hframe [] h h' -> hframe S h h'.
  Proof. apply hframe_weaken. intros a []. Qed.
  Lemma hframe_alloc S (h0 h : heap) c : hframe S h0 h -> hframe S h0 (fst (halloc h c)).
  Proof.
    intros (A1 & A2 & A3). split; [rewrite next_alloc; lia|]. split.
    - intros a Ha Hs. rewrite hget_alloc. destruct (Pos.eqb_spec a (h_next h)); [lia|]. apply A2; assumption.
    - intros a. rewrite log_alloc. apply A3.
  Qed.
  Lemma hframe_write S (h0 h : heap) a c :
    hframe S h0 h -> (h_next h0 <=p a \/ In a S) -> hframe S h0 (hwrite h a c).
  Proof.
    intros (A1 & A2 & A3) Ha. split; [rewrite next_write; exact A1|]. split.
    - intros b Hb Hs. rewrite hget_write. destruct (Pos.eqb_spec b a) as [->|Hne]; [|apply A2; assumption].
      destruct Ha; [lia|contradiction].
    - intros b. rewrite log_write. intros [<-|Hb]; [tauto|apply A3; exact Hb].
  Qed.

  Lemma flat_map_ext_in {A B} (f g : A -> list B) l :
    (forall x, In x l -> f x = g x) -> flat_map f l = flat_map g l.
  Proof.
    induction l as [|x l IH]; intros H; [reflexivity|]. cbn [flat_map].
    rewrite (H x (or_introl eq_refl)). f_equal. apply IH. intros y Hy. apply H. right. exact Hy.
  Qed.

  (* ---------------- what reading an entry depends on ---------------- *)
  Lemma abs_comp_cells (h h' : heap) : forall d a,
    (forall b, In b (comp_cells d h a) -> hget h' b = hget h b) ->
    abs_comp d h' a = abs_comp d h a /\ comp_cells d h' a = comp_cells d h a.
  Proof.
    induction d as [|d IH]; intros a H; [split; reflexivity|].
    cbn [abs_comp comp_cells] in *.
    rewrite (H a (or_introl eq_refl)).
    destruct (hget h a) as [[[| | | | | |lst m1 m2 hi ho]| | |]|] eqn:E; try (split; reflexivity).
    assert (Hl : hget h' lst = hget h lst) by (apply H; simpl; auto).
    assert (Hi : hget h' hi = hget h hi) by (apply H; simpl; auto).
    assert (Ho : hget h' ho = hget h ho) by (apply H; simpl; auto 6).
    unfold rd_list, rd_dict. rewrite Hl, Hi, Ho.
    fold (rd_list h lst).
    assert (G : forall m, In m (rd_list h lst) ->
                abs_comp d h' m = abs_comp d h m /\ comp_cells d h' m = comp_cells d h m).
    { intros m Hm. apply IH. intros b Hb. apply H. right. right. right. right.
      apply in_flat_map. exists m. split; assumption. }
    split.
    - f_equal. apply map_ext_in. intros m Hm. apply (G m Hm).
    - do 4 f_equal. apply flat_map_ext_in. intros m Hm. apply (G m Hm).
  Qed.

  Lemma comp_cells_below (h : heap) : hwf h -> forall d a, a <p h_next h -> below h (comp_cells d h a).
  Proof.
    intros Hw. induction d as [|d IH]; intros a Ha; [constructor|].
    cbn [comp_cells]. constructor; [exact Ha|].
    destruct (hget h a) as [[[| | | | | |lst m1 m2 hi ho]| | |]|] eqn:E; try apply Forall_nil.
    pose proof (proj2 Hw _ _ E) as Hc. cbn [cell_addrs] in Hc.
    inversion Hc as [|? ? H1 Hc1]; subst. inversion Hc1 as [|? ? H2 Hc2]; subst. inversion Hc2 as [|? ? H3 _]; subst.
    constructor; [exact H1|]. constructor; [exact H2|]. constructor; [exact H3|].
    unfold below. apply Forall_forall. intros b Hb. apply in_flat_map in Hb as (m & Hm & Hb).
    pose proof (rd_list_below h lst Hw) as Hl. unfold below in Hl. rewrite Forall_forall in Hl.
    specialize (IH m (Hl m Hm)). unfold below in IH. rewrite Forall_forall in IH. apply IH, Hb.
  Qed.

  Definition agree (h h' : heap) : Prop := forall a, a <p h_next h -> hget h' a = hget h a.
  Lemma hframe_agree (h h' : heap) : hframe [] h h' -> agree h h'.
  Proof. intros (_ & A2 & _) a Ha. apply A2; [exact Ha|intros []]. Qed.

  Lemma abs_comp_stable (h h' : heap) d a :
    hwf h -> agree h h' -> a <p h_next h ->
    abs_comp d h' a = abs_comp d h a /\ comp_cells d h' a = comp_cells d h a.
  Proof.
    intros Hw Ha Hlt. apply abs_comp_cells. intros b Hb. apply Ha.
    pose proof (comp_cells_below h Hw d a Hlt) as Hc. unfold below in Hc. rewrite Forall_forall in Hc. apply Hc, Hb.
  Qed.
  Lemma abs_map_stable (h h' : heap) d l :
    hwf h -> agree h h' -> below h l -> map (abs_comp d h') l = map (abs_comp d h) l.
  Proof.
    intros Hw Ha Hl. apply map_ext_in. intros a Hin. unfold below in Hl. rewrite Forall_forall in Hl.
    apply (abs_comp_stable h h' d a Hw Ha (Hl a Hin)).
  Qed.
  Lemma rd_list_agree (h h' : heap) a : agree h h' -> a <p h_next h -> rd_list h' a = rd_list h a.
  Proof. intros Ha Hlt. unfold rd_list. rewrite Ha by exact Hlt. reflexivity. Qed.
  Lemma rd_dict_agree (h h' : heap) a : agree h h' -> a <p h_next h -> rd_dict h' a = rd_dict h a.
  Proof. intros Ha Hlt. unfold rd_dict. rewrite Ha by exact Hlt. reflexivity. Qed.
  Lemma rd_nats_agree (h h' : heap) a : agree h h' -> a <p h_next h -> rd_nats h' a = rd_nats h a.
  Proof. intros Ha Hlt. unfold rd_nats. rewrite Ha by exact Hlt. reflexivity. Qed.

  (* ---------------- the post-condition of a per-entry transformer ---------------- *)
  (* f reads entry a of heap h and returns entry a' of heap h' *)
  Definition entry_post (F : comp -> comp) (d : nat) (h : heap) (a : addr) (h' : heap) (a' : addr) : Prop :=
    hframe [] h h' /\ hwf h' /\ a' <p h_next h' /\
    abs_comp d h' a' = F (abs_comp d h a) /\
    ((0 < d)%nat -> h_next h <=p a') /\
    (forall b, In b (comp_cells d h' a') -> h_next h <=p b \/ In b (comp_cells d h a)).

  Definition list_post (F : comp -> comp) (d : nat) (h : heap) (l : list addr) (h' : heap) (l' : list addr) : Prop :=
    hframe [] h h' /\ hwf h' /\ below h' l' /\
    map (abs_comp d h') l' = map F (map (abs_comp d h) l) /\
    ((0 < d)%nat -> Forall (fun a' => h_next h <=p a') l') /\
    (forall b, In b (flat_map (comp_cells d h') l') -> h_next h <=p b \/ In b (flat_map (comp_cells d h) l)) /\
    length l' = length l.

  Lemma hmap_post (F : comp -> comp) d (f : heap -> addr -> heap * addr) :
    (forall h a h' a', hwf h -> a <p h_next h -> f h a = (h', a') -> entry_post F d h a h' a') ->
    forall l h h' l', hwf h -> below h l -> hmap f h l = (h', l') -> list_post F d h l h' l'.
  Proof.
    intros Hf. induction l as [|a l IH]; intros h h' l' Hw Hl E; cbn [hmap] in E.
    - injection E as <- <-. split; [apply hframe_refl|]. split; [exact Hw|]. split; [constructor|].
      split; [reflexivity|]. split; [intros _; constructor|]. split; [intros b []|reflexivity].
    - destruct (f h a) as [h1 a1] eqn:E1. destruct (hmap f h1 l) as [h2 r] eqn:E2. injection E as <- <-.
      inversion Hl as [|? ? Ha Hl']; subst.
      destruct (Hf h a h1 a1 Hw Ha E1) as (P1 & P2 & P3 & P4 & P5 & P6).
      assert (Hl1 : below h1 l) by (eapply below_mono; [apply P1|exact Hl']).
      destruct (IH h1 h2 r P2 Hl1 E2) as (Q1 & Q2 & Q3 & Q4 & Q5 & Q6 & Q7).
      pose proof (hframe_agree _ _ P1) as Ag1. pose proof (hframe_agree _ _ Q1) as Ag2.
      split; [eapply hframe_trans; eassumption|]. split; [exact Q2|]. split.
      { constructor; [destruct Q1 as (Q1 & _); lia|exact Q3]. }
      split.
      { cbn [map]. f_equal.
        - rewrite (proj1 (abs_comp_stable h1 h2 d a1 P2 Ag2 P3)). exact P4.
        - rewrite Q4. f_equal. apply abs_map_stable; assumption. }
      split.
      { intros Hd. constructor; [apply P5, Hd|]. eapply Forall_impl; [|apply Q5, Hd].
        intros x Hx. cbv beta in Hx |- *. destruct P1 as (P1 & _). lia. }
      split; [|cbn [length]; congruence].
      intros b Hb. cbn [flat_map] in Hb. apply in_app_or in Hb as [Hb|Hb].
      + rewrite (proj2 (abs_comp_stable h1 h2 d a1 P2 Ag2 P3)) in Hb.
        destruct (P6 b Hb) as [H|H]; [left; exact H|right; cbn [flat_map]; apply in_or_app; left; exact H].
      + destruct (Q6 b Hb) as [H|H]; [left; destruct P1 as (P1 & _); lia|].
        right. cbn [flat_map]. apply in_or_app. right.
        apply in_flat_map in H as (m & Hm & H). apply in_flat_map. exists m. split; [exact Hm|].
        unfold below in Hl'. rewrite Forall_forall in Hl'.
        rewrite <- (proj2 (abs_comp_stable h h1 d m Hw Ag1 (Hl' m Hm))). exact H.
  Qed.

  (* ---------------- the copy-and-edit loop ---------------- *)
  Definition is_hgroup (c : hcomp) : bool := match c with HGroup _ _ _ _ _ => true | _ => false end.
  Definition abs_leaf (c : hcomp) : comp :=
    match c with
    | HBS m1 m2 v cv => BS m1 m2 v cv
    | HPS m v => PS m v
    | HLoss m v => LossC m v
    | HBarrier ms => Barrier ms
    | HSwaps sw => Swaps sw
    | HUMat m k V => UMat m k V
    | HGroup _ _ _ _ _ => Barrier []
    end.
  Definition app_her (f : option (dict -> dict)) (d : dict) : dict :=
    match f with Some g => g d | None => d end.

  Lemma abs_comp_leaf (h : heap) d a c :
    hget h a = Some (CComp c) -> is_hgroup c = false -> abs_comp (S d) h a = abs_leaf c.
  Proof. intros E Hg. cbn [abs_comp]. rewrite E. destruct c; try reflexivity. discriminate. Qed.
  Lemma comp_cells_leaf (h : heap) d a c :
    hget h a = Some (CComp c) -> is_hgroup c = false -> comp_cells (S d) h a = [a].
  Proof. intros E Hg. cbn [comp_cells]. rewrite E. destruct c; try reflexivity. discriminate. Qed.

  Section Xform.
    Variable X : xform.
    Variable F : comp -> comp.
    Hypothesis F_leaf : forall c, is_hgroup c = false ->
      is_hgroup (xf_leaf X c) = false /\ abs_leaf (xf_leaf X c) = F (abs_leaf c).
    Hypothesis F_group : forall sp m1 m2 hin hout,
      F (Group sp m1 m2 hin hout) =
      Group (map F sp) (fst (xf_span X m1 m2)) (snd (xf_span X m1 m2))
            (app_her (xf_her X m1 m2) hin) (app_her (xf_her X m1 m2) hout).
    Hypothesis F_nil : F (Barrier []) = Barrier [].

    Lemma h_xform_post : forall d h a h' a',
      hwf h -> a <p h_next h -> h_xform X d h a = (h', a') -> entry_post F d h a h' a'.
    Proof.
      induction d as [|d IH]; intros h a h' a' Hw Ha E; cbn [h_xform] in E.
      - injection E as <- <-. split; [apply hframe_refl|]. split; [exact Hw|]. split; [exact Ha|].
        split; [cbn [abs_comp]; symmetry; exact F_nil|]. split; [lia|]. intros b [].
      - destruct (hwf_some h a Hw Ha) as [c Ec]. unfold hcopy in E. rewrite Ec in E.
        remember (halloc h c) as p eqn:Ep. destruct p as [h1 a1].
        assert (Ea1 : a1 = h_next h) by (rewrite <- (snd_alloc h c), <- Ep; reflexivity).
        assert (Eh1 : h1 = fst (halloc h c)) by (rewrite <- Ep; reflexivity).
        assert (Hw1 : hwf h1) by (rewrite Eh1; apply hwf_alloc; [exact Hw|exact (proj2 Hw _ _ Ec)]).
        assert (Fr1 : hframe [] h h1) by (rewrite Eh1; apply hframe_alloc, hframe_refl).
        assert (Hn1 : h_next h1 = Pos.succ (h_next h)) by (rewrite Eh1; reflexivity).
        assert (G1 : hget h1 a1 = Some c).
        { rewrite Eh1, hget_alloc, Ea1, Pos.eqb_refl. reflexivity. }
        rewrite G1 in E.
        pose proof (hframe_agree _ _ Fr1) as Ag1.
        destruct c as [c| | |].
        2,3,4: injection E as <- <-; (split; [exact Fr1|]); (split; [exact Hw1|]); (split; [lia|]);
          (split; [cbn [abs_comp]; rewrite G1, Ec; symmetry; exact F_nil|]); (split; [intros _; lia|]);
          intros b Hb; cbn [comp_cells] in Hb; rewrite G1 in Hb; destruct Hb as [<-|[]]; left; lia.
        destruct (is_hgroup c) eqn:Hg.
        + (* a group *)
          destruct c as [| | | | | |lst m1 m2 hi ho]; try discriminate.
          pose proof (proj2 Hw _ _ Ec) as Hc. cbn [cell_addrs] in Hc.
          unfold below in Hc.
          pose proof (Forall_inv Hc) as Hlst. pose proof (Forall_inv (Forall_inv_tail Hc)) as Hhi.
          pose proof (Forall_inv (Forall_inv_tail (Forall_inv_tail Hc))) as Hho. cbv beta in Hlst, Hhi, Hho. clear Hc.
          assert (Rl : rd_list h1 lst = rd_list h lst) by (apply rd_list_agree; assumption).
          rewrite Rl in E.
          destruct (hmap (h_xform X d) h1 (rd_list h lst)) as [h2 ms] eqn:E2.
          assert (Hbl : below h1 (rd_list h lst)).
          { eapply below_mono; [|apply rd_list_below; exact Hw]. lia. }
          destruct (hmap_post F d (h_xform X d) IH _ _ _ _ Hw1 Hbl E2) as (Q1 & Q2 & Q3 & Q4 & Q5 & Q6 & Q7).
          pose proof (hframe_agree _ _ Q1) as Ag2.
          assert (Hn2 : h_next h1 <=p h_next h2) by apply Q1.
          remember (halloc h2 (CList ms)) as p3 eqn:Ep3. destruct p3 as [h3 lst'].
          assert (El' : lst' = h_next h2) by (rewrite <- (snd_alloc h2 (CList ms)), <- Ep3; reflexivity).
          assert (Eh3 : h3 = fst (halloc h2 (CList ms))) by (rewrite <- Ep3; reflexivity).
          assert (Hw3 : hwf h3) by (rewrite Eh3; apply hwf_alloc; [exact Q2|exact Q3]).
          assert (Hn3 : h_next h3 = Pos.succ (h_next h2)) by (rewrite Eh3; reflexivity).
          assert (Fr3 : hframe [] h h3).
          { eapply hframe_trans; [exact Fr1|]. eapply hframe_trans; [exact Q1|]. rewrite Eh3. apply hframe_alloc, hframe_refl. }
          assert (Ag23 : agree h2 h3).
          { intros b Hb. rewrite Eh3, hget_alloc. destruct (Pos.eqb_spec b (h_next h2)); [lia|reflexivity]. }
          (* members as seen from any later heap that leaves cells below next h2 other than a1 alone *)
          assert (Mem : forall hz, (forall b, b <p h_next h2 -> b <> a1 -> hget hz b = hget h2 b) ->
                    map (abs_comp d hz) ms = map F (map (abs_comp d h) (rd_list h lst)) /\
                    flat_map (comp_cells d hz) ms = flat_map (comp_cells d h2) ms).
          { intros hz Hz.
            assert (Gm : forall m, In m ms -> abs_comp d hz m = abs_comp d h2 m /\ comp_cells d hz m = comp_cells d h2 m).
            { intros m Hm. apply abs_comp_cells. intros b Hb. apply Hz.
              - unfold below in Q3. rewrite Forall_forall in Q3.
                pose proof (comp_cells_below h2 Q2 d m (Q3 m Hm)) as Hcb. unfold below in Hcb.
                rewrite Forall_forall in Hcb. apply Hcb, Hb.
              - intros ->. destruct (Q6 (h_next h)) as [H|H].
                + apply in_flat_map. exists m. split; [exact Hm|]. rewrite <- Ea1. exact Hb.
                + lia.
                + apply in_flat_map in H as (m0 & Hm0 & H).
                  unfold below in Hbl. rewrite Forall_forall in Hbl.
                  pose proof (rd_list_below h lst Hw) as Hb0. unfold below in Hb0. rewrite Forall_forall in Hb0.
                  rewrite (proj2 (abs_comp_stable h h1 d m0 Hw Ag1 (Hb0 m0 Hm0))) in H.
                  pose proof (comp_cells_below h Hw d m0 (Hb0 m0 Hm0)) as Hcb. unfold below in Hcb.
                  rewrite Forall_forall in Hcb. specialize (Hcb _ H). lia. }
            split.
            - rewrite <- (abs_map_stable h h1 d (rd_list h lst) Hw Ag1 (rd_list_below h lst Hw)), <- Q4.
              apply map_ext_in. intros m Hm. apply (Gm m Hm).
            - apply flat_map_ext_in. intros m Hm. apply (Gm m Hm). }
          assert (AbsOld : abs_comp (S d) h a =
                           Group (map (abs_comp d h) (rd_list h lst)) m1 m2 (rd_dict h hi) (rd_dict h ho)).
          { cbn [abs_comp]. rewrite Ec. reflexivity. }
          assert (CellsOld : forall b, In b (lst :: hi :: ho :: flat_map (comp_cells d h) (rd_list h lst)) ->
                             In b (comp_cells (S d) h a)).
          { intros b Hb. cbn [comp_cells]. rewrite Ec. right. exact Hb. }
          assert (Mem6 : forall b, In b (flat_map (comp_cells d h2) ms) ->
                         h_next h <=p b \/ In b (flat_map (comp_cells d h) (rd_list h lst))).
          { intros b Hb. destruct (Q6 b Hb) as [H|H]; [left; lia|right].
            apply in_flat_map in H as (m0 & Hm0 & H). apply in_flat_map. exists m0. split; [exact Hm0|].
            pose proof (rd_list_below h lst Hw) as Hb0. unfold below in Hb0. rewrite Forall_forall in Hb0.
            rewrite <- (proj2 (abs_comp_stable h h1 d m0 Hw Ag1 (Hb0 m0 Hm0))). exact H. }
          destruct (xf_span X m1 m2) as [m1' m2'] eqn:Esp.
          pose proof (F_group (map (abs_comp d h) (rd_list h lst)) m1 m2 (rd_dict h hi) (rd_dict h ho)) as FG.
          rewrite Esp in FG. cbn [fst snd] in FG.
          destruct (xf_her X m1 m2) as [fd|] eqn:Eher.
          * (* new herald dicts *)
            remember (halloc h3 (CDict (fd (rd_dict h3 hi)))) as p4 eqn:Ep4. destruct p4 as [h4 hi'].
            remember (halloc h4 (CDict (fd (rd_dict h4 ho)))) as p5 eqn:Ep5. destruct p5 as [h5 ho'].
            injection E as <- <-.
            assert (Ehi' : hi' = h_next h3) by (rewrite <- (snd_alloc h3 (CDict (fd (rd_dict h3 hi)))), <- Ep4; reflexivity).
            assert (Eh4 : h4 = fst (halloc h3 (CDict (fd (rd_dict h3 hi))))) by (rewrite <- Ep4; reflexivity).
            assert (Hn4 : h_next h4 = Pos.succ (h_next h3)) by (rewrite Eh4; reflexivity).
            assert (Eho' : ho' = h_next h4) by (rewrite <- (snd_alloc h4 (CDict (fd (rd_dict h4 ho)))), <- Ep5; reflexivity).
            assert (Eh5 : h5 = fst (halloc h4 (CDict (fd (rd_dict h4 ho))))) by (rewrite <- Ep5; reflexivity).
            assert (Hn5 : h_next h5 = Pos.succ (h_next h4)) by (rewrite Eh5; reflexivity).
            assert (Hw4 : hwf h4) by (rewrite Eh4; apply hwf_alloc; [exact Hw3|constructor]).
            assert (Hw5 : hwf h5) by (rewrite Eh5; apply hwf_alloc; [exact Hw4|constructor]).
            assert (Fr5 : hframe [] h h5).
            { eapply hframe_trans; [exact Fr3|]. rewrite Eh5. apply hframe_alloc. rewrite Eh4. apply hframe_alloc, hframe_refl. }
            set (hf := hwrite h5 (h_next h) (CComp (HGroup (h_next h2) m1' m2' (h_next h3) (h_next h4)))).
            assert (Rhi : rd_dict h3 hi = rd_dict h hi).
            { apply (rd_dict_agree h h3); [apply hframe_agree; exact Fr3|exact Hhi]. }
            assert (Rho : rd_dict h4 ho = rd_dict h ho).
            { apply (rd_dict_agree h h4); [|exact Hho]. apply hframe_agree.
              eapply hframe_trans; [exact Fr3|]. rewrite Eh4. apply hframe_alloc, hframe_refl. }
            assert (Gf : forall b, b <> h_next h -> hget hf b = hget h5 b).
            { intros b Hb. unfold hf. rewrite hget_write. destruct (Pos.eqb_spec b (h_next h)); [contradiction|reflexivity]. }
            assert (G5 : forall b, b <p h_next h2 -> hget h5 b = hget h2 b).
            { intros b Hb. rewrite Eh5, hget_alloc. destruct (Pos.eqb_spec b (h_next h4)); [lia|].
              rewrite Eh4, hget_alloc. destruct (Pos.eqb_spec b (h_next h3)); [lia|]. apply Ag23, Hb. }
            destruct (Mem hf) as (M1 & M2).
            { intros b Hb Hne. rewrite Gf by (rewrite <- Ea1; exact Hne). apply G5, Hb. }
            assert (Glst : hget hf (h_next h2) = Some (CList ms)).
            { rewrite Gf by lia. rewrite Eh5, hget_alloc. destruct (Pos.eqb_spec (h_next h2) (h_next h4)); [lia|].
              rewrite Eh4, hget_alloc. destruct (Pos.eqb_spec (h_next h2) (h_next h3)); [lia|].
              rewrite Eh3, hget_alloc, Pos.eqb_refl. reflexivity. }
            assert (Ghi : hget hf (h_next h3) = Some (CDict (fd (rd_dict h hi)))).
            { rewrite Gf by lia. rewrite Eh5, hget_alloc. destruct (Pos.eqb_spec (h_next h3) (h_next h4)); [lia|].
              rewrite Eh4, hget_alloc, Pos.eqb_refl, Rhi. reflexivity. }
            assert (Gho : hget hf (h_next h4) = Some (CDict (fd (rd_dict h ho)))).
            { rewrite Gf by lia. rewrite Eh5, hget_alloc, Pos.eqb_refl, Rho. reflexivity. }
            assert (Ga : hget hf (h_next h) = Some (CComp (HGroup (h_next h2) m1' m2' (h_next h3) (h_next h4)))).
            { unfold hf. rewrite hget_write, Pos.eqb_refl. reflexivity. }
            subst a1 lst' hi' ho'.
            split; [unfold hf; apply hframe_write; [exact Fr5|left; lia]|].
            split.
            { unfold hf. apply hwf_write; [exact Hw5|lia|]. cbn [cell_addrs].
              repeat constructor; lia. }
            split; [unfold hf; rewrite next_write; lia|].
            split.
            { rewrite AbsOld, FG. cbn [abs_comp app_her]. fold hf. rewrite Ga. unfold rd_list at 1. unfold rd_dict at 1 2.
              rewrite Glst, Ghi, Gho. rewrite M1. reflexivity. }
            split; [intros _; lia|].
            intros b Hb. cbn [comp_cells] in Hb. fold hf in Hb. rewrite Ga in Hb. unfold rd_list in Hb. rewrite Glst in Hb.
            destruct Hb as [<-|[<-|[<-|[<-|Hb]]]]; try (left; lia).
            rewrite M2 in Hb. destruct (Mem6 b Hb) as [H|H]; [left; exact H|right].
            apply CellsOld. right. right. right. exact H.
          * (* herald dicts shared with the original group *)
            injection E as <- <-.
            set (hf := hwrite h3 (h_next h) (CComp (HGroup (h_next h2) m1' m2' hi ho))).
            assert (Gf : forall b, b <> h_next h -> hget hf b = hget h3 b).
            { intros b Hb. unfold hf. rewrite hget_write. destruct (Pos.eqb_spec b (h_next h)); [contradiction|reflexivity]. }
            destruct (Mem hf) as (M1 & M2).
            { intros b Hb Hne. rewrite Gf by (rewrite <- Ea1; exact Hne). apply Ag23, Hb. }
            assert (Glst : hget hf (h_next h2) = Some (CList ms)).
            { rewrite Gf by lia. rewrite Eh3, hget_alloc, Pos.eqb_refl. reflexivity. }
            assert (Ghi : rd_dict hf hi = rd_dict h hi).
            { unfold rd_dict. rewrite Gf by lia. destruct Fr3 as (_ & A2 & _). rewrite A2; [reflexivity|exact Hhi|intros []]. }
            assert (Gho : rd_dict hf ho = rd_dict h ho).
            { unfold rd_dict. rewrite Gf by lia. destruct Fr3 as (_ & A2 & _). rewrite A2; [reflexivity|exact Hho|intros []]. }
            assert (Ga : hget hf (h_next h) = Some (CComp (HGroup (h_next h2) m1' m2' hi ho))).
            { unfold hf. rewrite hget_write, Pos.eqb_refl. reflexivity. }
            subst a1 lst'.
            split; [unfold hf; apply hframe_write; [exact Fr3|left; lia]|].
            split.
            { unfold hf. apply hwf_write; [exact Hw3|lia|]. cbn [cell_addrs].
              repeat constructor; lia. }
            split; [unfold hf; rewrite next_write; lia|].
            split.
            { rewrite AbsOld, FG. cbn [abs_comp app_her]. fold hf. rewrite Ga, Ghi, Gho. unfold rd_list at 1. rewrite Glst.
              rewrite M1. reflexivity. }
            split; [intros _; lia|].
            intros b Hb. cbn [comp_cells] in Hb. fold hf in Hb. rewrite Ga in Hb. unfold rd_list in Hb. rewrite Glst in Hb.
            destruct Hb as [<-|[<-|[<-|[<-|Hb]]]]; try (left; lia).
            { right. apply CellsOld. right. left. reflexivity. }
            { right. apply CellsOld. right. right. left. reflexivity. }
            rewrite M2 in Hb. destruct (Mem6 b Hb) as [H|H]; [left; exact H|right].
            apply CellsOld. right. right. right. exact H.
        + (* a non-group component *)
          assert (E' : (hwrite h1 a1 (CComp (xf_leaf X c)), a1) = (h', a')).
          { destruct c; try exact E. discriminate. }
          clear E. injection E' as <- <-.
          destruct (F_leaf c Hg) as (FL1 & FL2).
          assert (Ga : hget (hwrite h1 a1 (CComp (xf_leaf X c))) a1 = Some (CComp (xf_leaf X c))).
          { rewrite hget_write, Pos.eqb_refl. reflexivity. }
          split; [apply hframe_write; [exact Fr1|left; lia]|].
          split.
          { apply hwf_write; [exact Hw1|lia|]. revert FL1. clear. destruct (xf_leaf X c); intros FL1; try apply Forall_nil. discriminate FL1. }
          split; [rewrite next_write; lia|].
          split.
          { rewrite (abs_comp_leaf _ d a1 _ Ga FL1), (abs_comp_leaf _ d a _ Ec Hg). exact FL2. }
          split; [intros _; lia|].
          intros b Hb. rewrite (comp_cells_leaf _ d a1 _ Ga FL1) in Hb. destruct Hb as [<-|[]]. left. lia.
    Qed.
  End Xform.
End HeapP.
