(* Lemmas about Model/Detector.v and Model/PostSel.v (property C07).
   Part A: every returned sample satisfies the filters (any number type, any stream).
   Part B: the decision tree of _get_output and its law = the detection kernel
           (any commutative ring).
   Part C: inverse-CDF sampling over Q. *)
From Coq Require Import ZArith List Bool Arith Lia.
From LW Require Import Base.Sx Base.Num Base.Sums Model.State Model.PostSel Model.Detector Proofs.StateP.
Import ListNotations.

Ltac inv_bind H :=
  match type of H with
  | bind ?r _ = Ok _ => let E := fresh "E" in destruct r eqn:E; simpl in H; [|discriminate]
  end.

(* ====================================================================== *)
(* Part A : filters                                                        *)
(* ====================================================================== *)
Section Filters.
  Context {K : Type} (o : ops K).

  (* the state [hs] is what remains of the detected full state [full]:
     heralds satisfied, herald modes removed, post-selected, enough photons *)
  Definition accepted (h : hdict) (ps : postselect) (mind : Z) (full hs : state) : Prop :=
    herald_check h full = Ok true /\
    strip_heralds h full = Ok hs /\
    ps hs = Ok true /\
    (mind <= st_n_photons hs)%Z.

  Lemma accept_spec h ps mind full hs :
    accept h ps mind full = Ok (Some hs) -> accepted h ps mind full hs.
  Proof.
    unfold accept, accepted. intros H.
    inv_bind H. destruct b; [|discriminate].
    inv_bind H. inv_bind H.
    destruct b eqn:Eb; simpl in H.
    - destruct (mind <=? st_n_photons s)%Z eqn:Em; [|discriminate].
      injection H as <-. repeat split; auto. apply Z.leb_le. exact Em.
    - discriminate.
  Qed.

  Lemma accept_complete h ps mind full hs :
    accepted h ps mind full hs -> accept h ps mind full = Ok (Some hs).
  Proof.
    unfold accept, accepted. intros (H1 & H2 & H3 & H4).
    rewrite H1. simpl. rewrite H2. simpl. rewrite H3. simpl.
    apply Z.leb_le in H4. rewrite H4. reflexivity.
  Qed.

  (* ---- what "heralds satisfied and removed" means on the lists ---- *)
  Lemma st_getitem_nat (s : state) (m : nat) v :
    st_getitem s (Z.of_nat m) = Ok v -> (m < length s)%nat /\ nth m s 0%Z = v.
  Proof.
    unfold st_getitem, py_index. intros H.
    destruct (Z.of_nat m <? 0)%Z eqn:E1; [apply Z.ltb_lt in E1; lia|].
    destruct ((0 <=? Z.of_nat m)%Z && (Z.of_nat m <? Z.of_nat (length s))%Z) eqn:E2; [|discriminate].
    apply andb_true_iff in E2 as [_ E2]. apply Z.ltb_lt in E2.
    injection H as <-. rewrite Nat2Z.id. split; [lia|reflexivity].
  Qed.

  Lemma herald_check_true h full :
    herald_check h full = Ok true ->
    forall m n, In (m, n) h -> (m < length full)%nat /\ nth m full 0%Z = n.
  Proof.
    induction h as [|[m0 n0] h IH]; simpl; intros H m n Hin; [contradiction|].
    inv_bind H. apply st_getitem_nat in E as [Hlt Hn].
    destruct (z =? n0)%Z eqn:Ez; [|discriminate].
    apply Z.eqb_eq in Ez. destruct Hin as [Heq|Hin].
    - injection Heq as <- <-. split; [assumption|congruence].
    - apply IH; assumption.
  Qed.

  Lemma pops_length ms (s r : state) : pops ms s = Ok r -> (length r + length ms = length s)%nat.
  Proof.
    revert s; induction ms as [|m ms IH]; intros s H; simpl in *.
    - injection H as <-. lia.
    - destruct (m <? length s)%nat eqn:E; [|discriminate]. apply Nat.ltb_lt in E.
      apply IH in H. rewrite remove_nth_length in H by assumption. lia.
  Qed.

  Lemma insert_desc_length m l : length (insert_desc m l) = S (length l).
  Proof. induction l as [|x l IH]; simpl; [reflexivity|]. destruct (x <=? m)%nat; simpl; lia. Qed.
  Lemma sort_desc_length l : length (sort_desc l) = length l.
  Proof. induction l as [|x l IH]; simpl; [reflexivity|]. rewrite insert_desc_length. lia. Qed.

  Definition not_herald (h : hdict) (j : nat) : bool := negb (existsb (Nat.eqb j) (hkeys h)).

  Lemma existsb_sort_desc j l : existsb (Nat.eqb j) (sort_desc l) = existsb (Nat.eqb j) l.
  Proof.
    apply eq_true_iff_eq. rewrite !existsb_exists. split; intros (x & Hx & E); exists x; split; auto;
      apply sort_desc_in; assumption.
  Qed.

  Lemma strip_heralds_spec h full hs :
    NoDup (hkeys h) -> (forall m, In m (hkeys h) -> (m < length full)%nat) ->
    strip_heralds h full = Ok hs ->
    hs = keep_idx 0 (not_herald h) full /\ (length hs + length h = length full)%nat.
  Proof.
    intros Hnd Hr H. unfold strip_heralds in H.
    assert (G : remove_heralds_from_state full (hkeys h) = Ok hs).
    { destruct h; [|exact H]. injection H as <-. reflexivity. }
    clear H. unfold remove_heralds_from_state in G. split.
    - rewrite pops_keep in G.
      + injection G as <-. apply keep_idx_ext. intros j _. unfold not_herald. rewrite existsb_sort_desc. reflexivity.
      + apply sort_desc_desc. assumption.
      + intros m Hm. apply Hr. apply sort_desc_in. assumption.
    - apply pops_length in G. rewrite sort_desc_length in G. unfold hkeys in G. rewrite map_length in G. lia.
  Qed.

  Lemma accepted_shape h ps mind full hs :
    NoDup (hkeys h) ->
    accepted h ps mind full hs ->
    (forall m n, In (m, n) h -> nth m full 0%Z = n) /\
    hs = keep_idx 0 (not_herald h) full /\
    (length hs + length h = length full)%nat /\
    ps hs = Ok true /\ (mind <= st_n_photons hs)%Z.
  Proof.
    intros Hnd (H1 & H2 & H3 & H4).
    pose proof (herald_check_true h full H1) as Hc.
    assert (Hr : forall m, In m (hkeys h) -> (m < length full)%nat).
    { intros m Hm. unfold hkeys in Hm. apply in_map_iff in Hm as ([m' n] & <- & Hin). apply (Hc m' n Hin). }
    destruct (strip_heralds_spec h full hs Hnd Hr H2) as [Ha Hb].
    repeat split; auto. intros m n Hin. apply (Hc m n Hin).
  Qed.

  (* ---- numpy choice ---- *)
  Lemma mapM_spec {A B} (f : A -> res B) l r :
    mapM f l = Ok r -> length r = length l /\ Forall (fun b => exists a, In a l /\ f a = Ok b) r.
  Proof.
    revert r; induction l as [|a l IH]; intros r H; simpl in H.
    - injection H as <-. split; [reflexivity|constructor].
    - inv_bind H. inv_bind H. injection H as <-. destruct (IH _ eq_refl) as [Hl Hf]. split; [simpl; lia|].
      constructor.
      + exists a. split; [left; reflexivity|assumption].
      + eapply Forall_impl; [|exact Hf]. intros b' (a' & Hin & Ha'). exists a'. split; [right; assumption|assumption].
  Qed.

  Lemma np_choice_spec {A} (vals : list A) p us r :
    np_choice o vals p us = Ok r -> length r = length us /\ Forall (fun v => In v vals) r.
  Proof.
    unfold np_choice. intros H. apply mapM_spec in H as [Hl Hf]. split; [assumption|].
    eapply Forall_impl; [|exact Hf]. intros v (u & _ & Hu). unfold np_pick in Hu.
    destruct (nth_error vals (first_gt o (np_cdf o p) u 0)) eqn:E; [|discriminate].
    injection Hu as <-. eapply nth_error_In. exact E.
  Qed.

  (* ---- sample_N_inputs ---- *)
  (* [hs] came out of one clock cycle that started from the drawn state [s0] *)
  Definition from_cycle (d : @detector K) (h : hdict) (ps : postselect) (mind : Z) (s0 hs : state) : Prop :=
    exists full us us', get_output o d s0 us = Ok (full, us') /\ accepted h ps mind full hs.

  Lemma process_samples_spec d h ps mind samples us l rest :
    process_samples o d h ps mind samples us = Ok (l, rest) ->
    (length l <= length samples)%nat /\
    Forall (fun hs => exists s0, In s0 samples /\ from_cycle d h ps mind s0 hs) l.
  Proof.
    revert us l rest; induction samples as [|s samples IH]; intros us l rest H; simpl in H.
    - injection H as <- <-. split; [simpl; lia|constructor].
    - inv_bind H. inv_bind H. destruct p as [r us1], p0 as [l' rest']. simpl in *.
      injection H as <- <-.
      destruct (IH _ _ _ E0) as [Hl Hf].
      assert (Hf' : Forall (fun hs => exists s0, In s0 (s :: samples) /\ from_cycle d h ps mind s0 hs) l').
      { eapply Forall_impl; [|exact Hf]. intros hs (s0 & Hin & Hc). exists s0. split; [right; assumption|assumption]. }
      destruct r as [hs|]; simpl.
      + split; [lia|]. constructor; [|assumption].
        exists s. split; [left; reflexivity|].
        unfold process_sample in E. inv_bind E. inv_bind E. injection E as -> <-.
        destruct p as [full us2]. simpl in *. exists full, us, us2. split; [assumption|].
        apply accept_spec. assumption.
      + split; [lia|assumption].
  Qed.

  Lemma sample_N_inputs_spec d h ps mind pd un ud l rest :
    sample_N_inputs o d h ps mind pd un ud = Ok (l, rest) ->
    (length l <= length un)%nat /\
    Forall (fun hs => exists s0, In s0 (dkeys pd) /\ from_cycle d h ps mind s0 hs) l.
  Proof.
    unfold sample_N_inputs. intros H. inv_bind H.
    destruct (herald_gt1 h && negb (pcount d)); [discriminate|].
    apply process_samples_spec in H as [Hl Hf].
    assert (Hs : length l0 = length un /\ Forall (fun v => In v (dkeys pd)) l0).
    { destruct (klt o (np_atol o) _); [destruct (klt o (norm_tol o) _); [discriminate|]|];
        eapply np_choice_spec; exact E. }
    destruct Hs as [Hs1 Hs2]. split; [lia|].
    eapply Forall_impl; [|exact Hf]. intros hs (s0 & Hin & Hc). exists s0. split; [|assumption].
    rewrite Forall_forall in Hs2. apply Hs2. assumption.
  Qed.

  (* ---- sample_N_outputs ---- *)
  Definition thresholded (pc : bool) (s : state) : state := if pc then s else map (fun i => Z.min i 1) s.

  Definition from_dist (pc : bool) (h : hdict) (ps : postselect) (mind : Z) (pd : @dist K) (hs : state) : Prop :=
    exists s0, In s0 (dkeys pd) /\ accepted h ps mind (thresholded pc s0) hs.

  Lemma dict_add_keys s p nd x :
    In x (dkeys (dict_add o s p nd)) -> x = s \/ In x (dkeys nd).
  Proof.
    induction nd as [|[t q] nd IH]; simpl.
    - intros [<-|[]]. left. reflexivity.
    - destruct (st_eqb t s) eqn:E; simpl.
      + intros H. right. exact H.
      + intros [<-|H]; [right; left; reflexivity|]. destruct (IH H); [left|right; right]; assumption.
  Qed.

  Lemma build_new_dist_spec pc h ps mind pd nd r :
    build_new_dist o pc h ps mind pd nd = Ok r ->
    forall x, In x (dkeys r) -> In x (dkeys nd) \/ from_dist pc h ps mind pd x.
  Proof.
    revert nd r; induction pd as [|[s p] pd IH]; intros nd r H x Hx; simpl in H.
    - injection H as <-. left. assumption.
    - assert (W : forall y, from_dist pc h ps mind pd y -> from_dist pc h ps mind ((s, p) :: pd) y).
      { intros y (s0 & Hin & Ha). exists s0. split; [right; assumption|assumption]. }
      inv_bind H. destruct b.
      + inv_bind H. destruct (mind <=? st_n_photons s0)%Z eqn:Em.
        * inv_bind H. destruct (IH _ _ H x Hx) as [Hn|Hn]; [|right; apply W; assumption].
          destruct b; [|left; assumption].
          apply dict_add_keys in Hn as [->|Hn]; [|left; assumption].
          right. exists s. split; [left; reflexivity|].
          unfold accepted, thresholded. repeat split; auto. apply Z.leb_le. assumption.
        * destruct (IH _ _ H x Hx) as [Hn|Hn]; [left; assumption|right; apply W; assumption].
      + destruct (IH _ _ H x Hx) as [Hn|Hn]; [left; assumption|right; apply W; assumption].
  Qed.

  Lemma sample_N_outputs_spec d h ps mind pd un l :
    sample_N_outputs o d h ps mind pd un = Ok l ->
    length l = length un /\ Forall (from_dist (pcount d) h ps mind pd) l.
  Proof.
    unfold sample_N_outputs. intros H.
    destruct (negb (keqb o (pdark d) (k0 o))); [discriminate|].
    destruct (herald_gt1 h && negb (pcount d)); [discriminate|].
    inv_bind H. destruct d0 as [|x d0]; [discriminate|].
    apply np_choice_spec in H as [Hl Hf]. split; [assumption|].
    eapply Forall_impl; [|exact Hf]. intros hs Hin.
    destruct (build_new_dist_spec _ _ _ _ _ _ _ E hs Hin) as [[]|Hd]. assumption.
  Qed.

  (* ---- scans return a key ---- *)
  Lemma scan_cd_in {A} (cd : list (A * K)) u lst s :
    scan_cd o cd u lst = Some s -> In s (map fst cd) \/ lst = Some s.
  Proof.
    revert lst; induction cd as [|[a c] cd IH]; intros lst H; simpl in H.
    - right. assumption.
    - destruct (klt o u c).
      + injection H as <-. left. left. reflexivity.
      + destruct (IH _ H) as [Hin|Heq]; [left; right; assumption|]. injection Heq as <-. left. left. reflexivity.
  Qed.

  Lemma combine_keys {A B} (l : list A) (r : list B) x : In x (map fst (combine l r)) -> In x l.
  Proof.
    revert r; induction l as [|a l IH]; intros r H; simpl in *; [assumption|].
    destruct r; simpl in *; [contradiction|]. destruct H; [left; assumption|right; eapply IH; eassumption].
  Qed.

  Lemma qs_sample_spec pd us s rest : qs_sample o pd us = Ok (s, rest) -> In s (dkeys pd).
  Proof.
    unfold qs_sample. destruct us as [|u us]; [discriminate|].
    destruct (scan_cd o (qs_convert_to_continuous o pd) u None) eqn:E; [|discriminate].
    intros H. injection H as <- <-. apply scan_cd_in in E as [E|E]; [|discriminate].
    unfold qs_convert_to_continuous in E. eapply combine_keys. exact E.
  Qed.

  Lemma qs_sample_N_outputs_spec pd un l :
    qs_sample_N_outputs o pd un = Ok l -> length l = length un /\ Forall (fun s => In s (dkeys pd)) l.
  Proof. apply np_choice_spec. Qed.

  (* Sampler.sample(): the detector applied to a state of the distribution, nothing else *)
  Lemma sampler_sample_spec d pd us s rest :
    sampler_sample o d pd us = Ok (s, rest) ->
    exists s0 us1, In s0 (dkeys pd) /\ get_output o d s0 us1 = Ok (s, rest).
  Proof.
    unfold sampler_sample. destruct us as [|u us]; [discriminate|].
    destruct (scan_cd o (convert_to_continuous o pd) u None) eqn:E; [|discriminate].
    intros H. exists s0, us. split; [|assumption].
    apply scan_cd_in in E as [E|E]; [|discriminate].
    unfold convert_to_continuous in E. eapply combine_keys. exact E.
  Qed.

  (* without heralds, acceptance of a full state is just the two filters *)
  Lemma accepted_no_heralds ps mind full hs :
    accepted [] ps mind full hs <-> hs = full /\ ps full = Ok true /\ (mind <= st_n_photons full)%Z.
  Proof.
    unfold accepted. simpl. split.
    - intros (_ & H & H1 & H2). injection H as <-. auto.
    - intros (-> & H1 & H2). auto.
  Qed.

  (* ---- quick sampler candidate outputs ---- *)
  Lemma filterM_spec {A} (f : A -> res bool) l r :
    filterM f l = Ok r -> forall a, In a r -> In a l /\ f a = Ok true.
  Proof.
    revert r; induction l as [|x l IH]; intros r H a Ha; simpl in H.
    - injection H as <-. contradiction.
    - inv_bind H. inv_bind H. injection H as <-. destruct b.
      + destruct Ha as [<-|Ha]; [split; [left; reflexivity|assumption]|].
        destruct (IH _ eq_refl a Ha). split; [right|]; assumption.
      + destruct (IH _ eq_refl a Ha). split; [right|]; assumption.
  Qed.

  Lemma n_photons_of_nat l : st_n_photons (map Z.of_nat l) = Z.of_nat (nsum l).
  Proof. unfold st_n_photons. induction l as [|x l IH]; simpl; [reflexivity|]. rewrite IH. lia. Qed.

  Lemma max_le_all (s : state) x : In x s -> (x <= fold_right Z.max 0 s)%Z.
  Proof. induction s as [|y s IH]; simpl; [contradiction|]. intros [->|H]; [lia|]. specialize (IH H). lia. Qed.

  Lemma qs_out_states_spec n_modes n_ph pc ps outs :
    qs_out_states n_modes n_ph pc ps = Ok outs ->
    forall s, In s outs ->
      length s = n_modes /\ st_n_photons s = Z.of_nat n_ph /\ ps s = Ok true /\
      Forall (fun x => 0 <= x)%Z s /\ (pc = false -> Forall (fun x => x <= 1)%Z s).
  Proof.
    unfold qs_out_states. intros H s Hs.
    destruct (filterM_spec _ _ _ H s Hs) as [Hin Hps].
    assert (Hb : In s (map (map Z.of_nat) (fock_sums n_modes n_ph)) /\
                 (pc = false -> (fold_right Z.max 0 s <=? 1)%Z = true)).
    { destruct pc; [split; [assumption|discriminate]|]. apply filter_In in Hin as [Ha Hb]. split; auto. }
    destruct Hb as [Hb Hm]. apply in_map_iff in Hb as (t & <- & Ht).
    apply fock_sums_sound in Ht as [Hl Hn].
    rewrite map_length, n_photons_of_nat, Hl, Hn. repeat split; auto.
    - apply Forall_forall. intros x Hx. apply in_map_iff in Hx as (y & <- & _). lia.
    - intros Hpc. specialize (Hm Hpc). apply Z.leb_le in Hm. apply Forall_forall. intros x Hx.
      apply max_le_all in Hx. lia.
  Qed.

  Lemma qs_supported_spec (pd : @dist K) outs :
    qs_supported pd outs = true -> forall s, In s (dkeys pd) -> In s outs.
  Proof.
    unfold qs_supported. intros H s Hs. rewrite forallb_forall in H. specialize (H s Hs).
    apply existsb_exists in H as (t & Ht & E). apply st_eqb_eq in E. subst t. assumption.
  Qed.
End Filters.

(* ====================================================================== *)
(* Part B : _get_output as a decision tree; its law is the kernel          *)
(* ====================================================================== *)
Section Structural.
  Context {K : Type} (o : ops K).

  Lemma run_eff_photons_t {A} eta n cnt (k : Z -> tree A) us :
    run_tree o (eff_photons_t eta n cnt k) us =
    bind (eff_photons o eta n cnt us) (fun cu => run_tree o (k (fst cu)) (snd cu)).
  Proof.
    revert cnt us; induction n as [|n IH]; intros cnt us; simpl; [reflexivity|].
    destruct us as [|u us]; [reflexivity|]. destruct (klt o eta u); apply IH.
  Qed.

  Lemma run_eff_modes_t {A} eta s (k : state -> tree A) us :
    run_tree o (eff_modes_t eta s k) us =
    bind (eff_modes o eta s us) (fun ru => run_tree o (k (fst ru)) (snd ru)).
  Proof.
    revert k us; induction s as [|n s IH]; intros k us; simpl; [reflexivity|].
    rewrite run_eff_photons_t.
    destruct (eff_photons o eta (Z.to_nat n) n us) as [[c us1]|e]; simpl; [|reflexivity].
    rewrite IH. destruct (eff_modes o eta s us1) as [[r us2]|e]; reflexivity.
  Qed.

  Lemma run_dark_modes_t {A} pd s (k : state -> tree A) us :
    run_tree o (dark_modes_t pd s k) us =
    bind (dark_modes o pd s us) (fun ru => run_tree o (k (fst ru)) (snd ru)).
  Proof.
    revert k us; induction s as [|n s IH]; intros k us; simpl; [reflexivity|].
    destruct us as [|u us]; [reflexivity|].
    destruct (klt o u pd); rewrite IH; destruct (dark_modes o pd s us) as [[r us2]|e]; reflexivity.
  Qed.

  (* running the tree on a concrete stream IS the transcribed _get_output *)
  Lemma run_get_output_tree d s us :
    run_tree o (get_output_tree o d s) us = get_output o d s us.
  Proof.
    unfold get_output_tree, get_output. destruct (is_perfect o d); [reflexivity|].
    destruct (klt o (eff d) (k1 o)).
    - rewrite run_eff_modes_t. destruct (eff_modes o (eff d) s us) as [[s1 us1]|e]; simpl; [|reflexivity].
      destruct (klt o (k0 o) (pdark d)); [|reflexivity].
      rewrite run_dark_modes_t. destruct (dark_modes o (pdark d) s1 us1) as [[s2 us2]|e]; reflexivity.
    - simpl. destruct (klt o (k0 o) (pdark d)); [|reflexivity].
      rewrite run_dark_modes_t. destruct (dark_modes o (pdark d) s us) as [[s2 us2]|e]; reflexivity.
  Qed.
End Structural.

Section Law.
  Context {K : Type} {o : ops K} {SR : StarRing o}.
  Let R := sr_ring (o:=o).
  Add Ring KrDet : R.
  Local Notation K0 := (k0 o).
  Local Notation K1 := (k1 o).
  Local Infix "+'" := (kadd o) (at level 50, left associativity).
  Local Infix "*'" := (kmul o) (at level 40, left associativity).
  Local Infix "-'" := (ksub o) (at level 50, left associativity).
  Local Notation expect := (expect o).
  Local Notation law := (law o).

  Lemma expect_suml {A} (d : wdist A) f :
    expect d f = suml o d (fun aw => snd aw *' f (fst aw)).
  Proof. reflexivity. Qed.

  Lemma expect_app {A} (d1 d2 : wdist A) f : expect (d1 ++ d2) f = expect d1 f +' expect d2 f.
  Proof. rewrite !expect_suml. apply suml_app. Qed.

  Lemma expect_ext {A} (d : wdist A) f g : (forall a, f a = g a) -> expect d f = expect d g.
  Proof. intros H. rewrite !expect_suml. apply suml_ext. intros a _. rewrite H. reflexivity. Qed.

  Lemma expect_dret {A} (a : A) f : expect (dret o a) f = f a.
  Proof. unfold dret, Detector.expect. simpl. ring. Qed.

  Lemma expect_two {A} (a b : A) wa wb F : expect [(a, wa); (b, wb)] F = wa *' F a +' wb *' F b.
  Proof. unfold Detector.expect. simpl. ring. Qed.

  Lemma expect_dscale {A} c (d : wdist A) f : expect (dscale o c d) f = c *' expect d f.
  Proof.
    induction d as [|[a w] d IH].
    - unfold dscale, Detector.expect. simpl. ring.
    - change (expect (dscale o c ((a, w) :: d)) f) with ((c *' w) *' f a +' expect (dscale o c d) f).
      rewrite IH. change (expect ((a, w) :: d) f) with (w *' f a +' expect d f). ring.
  Qed.

  Lemma expect_dbind {A B} (d : wdist A) (k : A -> wdist B) f :
    expect (dbind o d k) f = expect d (fun a => expect (k a) f).
  Proof.
    induction d as [|[a w] d IH]; [reflexivity|].
    unfold dbind in *. simpl. rewrite expect_app, expect_dscale, IH.
    unfold Detector.expect at 3. simpl. reflexivity.
  Qed.

  Lemma expect_dmap {A B} (g : A -> B) (d : wdist A) f :
    expect (dmap g d) f = expect d (fun a => f (g a)).
  Proof.
    induction d as [|[a w] d IH]; [reflexivity|].
    unfold dmap, Detector.expect in *. simpl. rewrite IH. reflexivity.
  Qed.

  Lemma expect_node {A} c (y n : tree A) f :
    expect (law (Node c y n)) f =
    test_prob o c *' expect (law y) f +' (K1 -' test_prob o c) *' expect (law n) f.
  Proof. simpl. rewrite expect_app, !expect_dscale. reflexivity. Qed.

  (* --- one mode, n photons: the sequential draws are an n-fold Bernoulli convolution --- *)
  Fixpoint thin_rec (eta : K) (n : nat) : wdist nat :=
    match n with
    | O => dret o 0%nat
    | S n' => dscale o eta (dmap S (thin_rec eta n')) ++ dscale o (K1 -' eta) (thin_rec eta n')
    end.

  Lemma expect_thin_rec_S eta n g :
    expect (thin_rec eta (S n)) g =
    eta *' expect (thin_rec eta n) (fun j => g (S j)) +' (K1 -' eta) *' expect (thin_rec eta n) g.
  Proof. simpl. rewrite expect_app, !expect_dscale, expect_dmap. reflexivity. Qed.

  Lemma law_eff_photons {A} eta n cnt (k : Z -> tree A) f :
    expect (law (eff_photons_t eta n cnt k)) f =
    expect (thin_rec eta n) (fun j => expect (law (k (cnt - Z.of_nat n + Z.of_nat j)%Z)) f).
  Proof.
    revert cnt; induction n as [|n IH]; intros cnt.
    - simpl eff_photons_t. simpl thin_rec. rewrite expect_dret.
      replace (cnt - Z.of_nat 0 + Z.of_nat 0)%Z with cnt by lia. reflexivity.
    - simpl eff_photons_t. rewrite expect_node, !IH, expect_thin_rec_S. simpl test_prob.
      rewrite (expect_ext (thin_rec eta n)
                 (fun j => expect (law (k (cnt - 1 - Z.of_nat n + Z.of_nat j)%Z)) f)
                 (fun j => expect (law (k (cnt - Z.of_nat (S n) + Z.of_nat j)%Z)) f))
        by (intros j; replace (cnt - 1 - Z.of_nat n + Z.of_nat j)%Z
                        with (cnt - Z.of_nat (S n) + Z.of_nat j)%Z by lia; reflexivity).
      rewrite (expect_ext (thin_rec eta n)
                 (fun j => expect (law (k (cnt - Z.of_nat n + Z.of_nat j)%Z)) f)
                 (fun j => expect (law (k (cnt - Z.of_nat (S n) + Z.of_nat (S j))%Z)) f))
        by (intros j; replace (cnt - Z.of_nat n + Z.of_nat j)%Z
                        with (cnt - Z.of_nat (S n) + Z.of_nat (S j))%Z by lia; reflexivity).
      ring.
  Qed.

  (* --- binomial closed form --- *)
  Local Notation kofnat := (kofnat o).
  Local Notation kpow := (kpow o).
  Local Notation binom_w := (binom_w o).

  Lemma kofnat_add a b : kofnat (a + b) = kofnat a +' kofnat b.
  Proof. induction a as [|a IH]; simpl; [ring|]. rewrite IH. ring. Qed.

  Lemma binom_gt n k : (n < k)%nat -> binom n k = 0%nat.
  Proof.
    revert k; induction n as [|n IH]; intros k H; destruct k as [|k]; try lia; simpl; [reflexivity|].
    rewrite !IH by lia. reflexivity.
  Qed.

  Lemma binom_w_0 eta n : binom_w eta (S n) 0 = (K1 -' eta) *' binom_w eta n 0.
  Proof.
    unfold Detector.binom_w. replace (binom (S n) 0) with 1%nat by reflexivity.
    replace (binom n 0) with 1%nat by (destruct n; reflexivity).
    rewrite !Nat.sub_0_r. simpl. ring.
  Qed.

  Lemma binom_w_S eta n j :
    binom_w eta (S n) (S j) = eta *' binom_w eta n j +' (K1 -' eta) *' binom_w eta n (S j).
  Proof.
    unfold Detector.binom_w. change (binom (S n) (S j)) with (binom n j + binom n (S j))%nat.
    rewrite kofnat_add. change (S n - S j)%nat with (n - j)%nat.
    destruct (Nat.lt_ge_cases j n) as [Hlt|Hge].
    - replace (n - j)%nat with (S (n - S j)) by lia. simpl. ring.
    - rewrite (binom_gt n (S j)) by lia. simpl. ring.
  Qed.

  Lemma binom_w_over eta n : binom_w eta n (S n) = K0.
  Proof. unfold Detector.binom_w. rewrite binom_gt by lia. simpl. ring. Qed.

  Lemma thin_rec_binom eta n g :
    expect (thin_rec eta n) g = sumn o (S n) (fun j => binom_w eta n j *' g j).
  Proof.
    revert g; induction n as [|n IH]; intros g.
    - simpl thin_rec. rewrite expect_dret. unfold Detector.binom_w. simpl. ring.
    - rewrite expect_thin_rec_S, !IH.
      rewrite (sumn_S_l (S n) (fun j => binom_w eta (S n) j *' g j)).
      rewrite binom_w_0.
      rewrite (sumn_ext (S n) (fun i => binom_w eta (S n) (S i) *' g (S i))
                 (fun i => eta *' (binom_w eta n i *' g (S i)) +'
                           (K1 -' eta) *' (binom_w eta n (S i) *' g (S i))))
        by (intros i _; rewrite binom_w_S; ring).
      rewrite sumn_add, !sumn_mul_l.
      rewrite (sumn_S_l n (fun j => binom_w eta n j *' g j)).
      change (sumn o (S n) (fun i => binom_w eta n (S i) *' g (S i)))
        with (sumn o n (fun i => binom_w eta n (S i) *' g (S i)) +' binom_w eta n (S n) *' g (S n)).
      rewrite binom_w_over. ring.
  Qed.

  Lemma expect_map_seq {A} (a : nat -> A) (w : nat -> K) m f :
    expect (map (fun j => (a j, w j)) (seq 0 m)) f = sumn o m (fun j => w j *' f (a j)).
  Proof. rewrite expect_suml. rewrite <- suml_seq. induction (seq 0 m) as [|x l IH]; simpl; [reflexivity|]. rewrite IH. reflexivity. Qed.

  Lemma thin_mode_rec eta n F :
    expect (thin_mode o eta n) F = expect (thin_rec eta n) (fun j => F (Z.of_nat j)).
  Proof. unfold thin_mode. rewrite expect_map_seq, thin_rec_binom. reflexivity. Qed.

  (* a mode with n >= 0 photons *)
  Lemma law_eff_mode {A} eta (n : Z) (k : Z -> tree A) f :
    (0 <= n)%Z ->
    expect (law (eff_photons_t eta (Z.to_nat n) n k)) f =
    expect (thin_mode o eta (Z.to_nat n)) (fun c => expect (law (k c)) f).
  Proof.
    intros Hn. rewrite law_eff_photons, thin_mode_rec. apply expect_ext. intros j.
    replace (n - Z.of_nat (Z.to_nat n) + Z.of_nat j)%Z with (Z.of_nat j) by lia. reflexivity.
  Qed.

  Lemma expect_dprod_cons {A} (d : wdist A) (r : list (wdist A)) G :
    expect (dprod o (d :: r)) G = expect d (fun a => expect (dprod o r) (fun t => G (a :: t))).
  Proof. simpl. rewrite expect_dbind. apply expect_ext. intros a. apply expect_dmap. Qed.

  Definition thin_state (eta : K) (s : state) : wdist state :=
    dprod o (map (fun n => thin_mode o eta (Z.to_nat n)) s).
  Definition dark_state (pd : K) (s : state) : wdist state :=
    dprod o (map (dark_mode o pd) s).

  Lemma law_eff_modes {A} eta s (k : state -> tree A) f :
    Forall (fun n => 0 <= n)%Z s ->
    expect (law (eff_modes_t eta s k)) f = expect (thin_state eta s) (fun t => expect (law (k t)) f).
  Proof.
    unfold thin_state. intros Hs. revert k; induction Hs as [|n s Hn Hs IH]; intros k.
    - cbn [eff_modes_t map dprod]. rewrite expect_dret. reflexivity.
    - simpl eff_modes_t. simpl map. rewrite law_eff_mode by assumption. unfold state in *. rewrite expect_dprod_cons.
      apply expect_ext. intros c. apply IH.
  Qed.

  Lemma law_dark_modes {A} pd s (k : state -> tree A) f :
    expect (law (dark_modes_t pd s k)) f = expect (dark_state pd s) (fun t => expect (law (k t)) f).
  Proof.
    unfold dark_state. revert k; induction s as [|n s IH]; intros k.
    - cbn [dark_modes_t map dprod]. rewrite expect_dret. reflexivity.
    - simpl dark_modes_t. simpl map. unfold state in *. rewrite expect_node, !IH, expect_dprod_cons.
      unfold dark_mode. rewrite expect_two. cbn [test_prob]. ring.
  Qed.

  (* skipped stages are point masses *)
  Lemma thin_rec_one n g : expect (thin_rec K1 n) g = g n.
  Proof.
    revert g; induction n as [|n IH]; intros g.
    - simpl. apply expect_dret.
    - rewrite expect_thin_rec_S, !IH. ring.
  Qed.

  Lemma thin_state_one s G : Forall (fun n => 0 <= n)%Z s -> expect (thin_state K1 s) G = G s.
  Proof.
    unfold thin_state. intros Hs. revert G; induction Hs as [|n s Hn Hs IH]; intros G.
    - cbn [map dprod]. apply expect_dret.
    - simpl map. unfold state in *. rewrite expect_dprod_cons, thin_mode_rec, thin_rec_one, IH. rewrite Z2Nat.id by assumption. reflexivity.
  Qed.

  Lemma dark_state_zero s G : expect (dark_state K0 s) G = G s.
  Proof.
    unfold dark_state. revert G; induction s as [|n s IH]; intros G.
    - cbn [map dprod]. apply expect_dret.
    - simpl map. unfold state in *. rewrite expect_dprod_cons. unfold dark_mode. rewrite expect_two, !IH. ring.
  Qed.

  Lemma expect_kernel d s f :
    expect (kernel o d s) f =
    expect (thin_state (eff d) s) (fun t => expect (dark_state (pdark d) t) (fun u => f (cap (pcount d) u))).
  Proof.
    unfold kernel. rewrite expect_dmap, expect_dbind. reflexivity.
  Qed.

  (* the boolean tests of _get_output decide what they say, for a detector
     accepted by the setters (0 <= p_dark, efficiency <= 1) *)
  Definition det_valid (d : @detector K) : Prop :=
    (klt o (eff d) K1 = false -> eff d = K1) /\
    (klt o K0 (pdark d) = false -> pdark d = K0) /\
    (keqb o (eff d) K1 = true -> eff d = K1) /\
    (keqb o (pdark d) K0 = true -> pdark d = K0).

  Theorem get_output_law d s f :
    det_valid d -> Forall (fun n => 0 <= n)%Z s ->
    expect (law (get_output_tree o d s)) f = expect (kernel o d s) f.
  Proof.
    intros (H1 & H2 & H3 & H4) Hs. rewrite expect_kernel. unfold get_output_tree.
    destruct (is_perfect o d) eqn:Ep.
    - unfold is_perfect in Ep. apply andb_true_iff in Ep as [Ep Ec]. apply andb_true_iff in Ep as [Ee Ed].
      rewrite (H3 Ee), (H4 Ed), Ec. simpl law. rewrite expect_dret, thin_state_one by assumption.
      rewrite dark_state_zero. reflexivity.
    - destruct (klt o (eff d) K1) eqn:E1.
      + rewrite law_eff_modes by assumption. apply expect_ext. intros t.
        destruct (klt o K0 (pdark d)) eqn:E2.
        * rewrite law_dark_modes. apply expect_ext. intros u. simpl. apply expect_dret.
        * rewrite (H2 eq_refl), dark_state_zero. simpl. apply expect_dret.
      + rewrite (H1 eq_refl), thin_state_one by assumption.
        destruct (klt o K0 (pdark d)) eqn:E2.
        * rewrite law_dark_modes. apply expect_ext. intros u. simpl. apply expect_dret.
        * rewrite (H2 eq_refl), dark_state_zero. simpl. apply expect_dret.
  Qed.

  (* the indicator form: equal probability of every event *)
  Definition prob {A} (d : wdist A) (ev : A -> bool) : K := expect d (fun a => if ev a then K1 else K0).

  Corollary get_output_prob d s ev :
    det_valid d -> Forall (fun n => 0 <= n)%Z s ->
    prob (law (get_output_tree o d s)) ev = prob (kernel o d s) ev.
  Proof. intros. apply get_output_law; assumption. Qed.

  (* one clock cycle of sample_N_inputs: draw (law pd, already normalised),
     detector tree, then the deterministic filter [accept] *)
  Definition cycle_law (d : @detector K) (h : hdict) (ps : postselect) (mind : Z) (pd : wdist state)
    : wdist (res (option state)) :=
    dbind o pd (fun s0 => dmap (accept h ps mind) (law (get_output_tree o d s0))).

  Theorem accepted_fraction d h ps mind (pd : wdist state) f :
    det_valid d -> Forall (fun sp => Forall (fun n => 0 <= n)%Z (fst sp)) pd ->
    expect (cycle_law d h ps mind pd) f = expect (dmap (accept h ps mind) (detect o d pd)) f.
  Proof.
    intros Hd Hs. unfold cycle_law, detect. rewrite expect_dmap, !expect_dbind.
    rewrite !expect_suml. apply suml_ext. intros [s0 w] Hin. simpl. f_equal.
    rewrite expect_dmap. apply get_output_law; [assumption|].
    rewrite Forall_forall in Hs. apply (Hs _ Hin).
  Qed.

  (* process_sample on a stream = run the tree, then [accept] *)
  Lemma process_sample_tree d h ps mind s us :
    process_sample o d h ps mind s us =
    bind (run_tree o (get_output_tree o d s) us)
         (fun a => bind (accept h ps mind (fst a)) (fun r => Ok (r, snd a))).
  Proof. rewrite run_get_output_tree. reflexivity. Qed.
End Law.

(* ====================================================================== *)
(* Part C : inverse-CDF sampling, over the rationals                       *)
(* ====================================================================== *)
From Coq Require Import QArith Lqa.

Definition Qo : ops Q :=
  mkOps Q 0%Q 1%Q Qplus Qmult Qminus Qopp Qinv (fun x => x) Qeq_bool Qle_bool inject_Z.

Section ScanGeneric.
  Context {K : Type} (o : ops K).

  Lemma first_gt_shift cdf u i : first_gt o cdf u i = (i + first_gt o cdf u 0)%nat.
  Proof.
    revert i; induction cdf as [|c r IH]; intros i; simpl; [lia|].
    destruct (klt o u c); [lia|]. rewrite (IH (S i)), (IH 1%nat). lia.
  Qed.

  Lemma first_gt_le cdf u : (first_gt o cdf u 0 <= length cdf)%nat.
  Proof.
    induction cdf as [|c r IH]; simpl; [lia|]. destruct (klt o u c); [lia|].
    rewrite first_gt_shift. lia.
  Qed.

  (* the python scan of sample() returns the key at the numpy index, or the
     last key when no entry exceeds u *)
  Lemma scan_cd_first_gt {A} (cd : list (A * K)) u lst :
    (first_gt o (map snd cd) u 0 < length cd)%nat ->
    scan_cd o cd u lst = nth_error (map fst cd) (first_gt o (map snd cd) u 0).
  Proof.
    revert lst; induction cd as [|[a c] cd IH]; intros lst H; simpl in *; [lia|].
    destruct (klt o u c); [reflexivity|].
    rewrite first_gt_shift in H |- *. simpl. apply IH. lia.
  Qed.

  Lemma map_snd_combine {A B} (l : list A) (r : list B) :
    length l = length r -> map snd (combine l r) = r.
  Proof.
    revert r; induction l as [|a l IH]; intros [|b r] H; simpl in *; try lia; [reflexivity|].
    f_equal. apply IH. lia.
  Qed.
  Lemma map_fst_combine {A B} (l : list A) (r : list B) :
    length l = length r -> map fst (combine l r) = l.
  Proof.
    revert r; induction l as [|a l IH]; intros [|b r] H; simpl in *; try lia; [reflexivity|].
    f_equal. apply IH. lia.
  Qed.
  Lemma cumsum_from_length acc l : length (cumsum_from o acc l) = length l.
  Proof. revert acc; induction l as [|p l IH]; intros acc; simpl; [reflexivity|]. rewrite IH. reflexivity. Qed.
End ScanGeneric.

Section InvCDF.
  Local Open Scope Q_scope.

  Definition Qsum (l : list Q) : Q := fold_right Qplus 0 l.
  (* cumulative mass below index k *)
  Definition cmass (ps : list Q) (k : nat) : Q := Qsum (firstn k ps).

  Lemma klt_Q a b : klt Qo a b = true <-> a < b.
  Proof.
    unfold klt. simpl. rewrite negb_true_iff. split.
    - intros H. apply Qnot_le_lt. intros Hle. apply Qle_bool_iff in Hle. congruence.
    - intros H. destruct (Qle_bool b a) eqn:E; [|reflexivity]. apply Qle_bool_iff in E. lra.
  Qed.
  Lemma klt_Q_false a b : klt Qo a b = false <-> b <= a.
  Proof.
    split.
    - intros H. destruct (Qlt_le_dec a b) as [Hlt|Hle]; [|assumption]. apply klt_Q in Hlt. congruence.
    - intros H. destruct (klt Qo a b) eqn:E; [|reflexivity]. apply klt_Q in E. lra.
  Qed.

  Lemma first_gt_iff (cs : list Q) u k :
    (k < length cs)%nat ->
    (first_gt Qo cs u 0 = k <-> (forall j, (j < k)%nat -> nth j cs 0 <= u) /\ u < nth k cs 0).
  Proof.
    revert k; induction cs as [|c r IH]; intros k Hk; simpl in Hk; [lia|]. simpl first_gt.
    destruct (klt Qo u c) eqn:E.
    - apply klt_Q in E. split.
      + intros <-. split; [intros j Hj; lia|exact E].
      + intros [H1 H2]. destruct k as [|k]; [reflexivity|]. specialize (H1 0%nat ltac:(lia)). simpl in H1. lra.
    - apply klt_Q_false in E. rewrite first_gt_shift. destruct k as [|k].
      + split; [lia|]. intros [_ H2]. simpl in H2. lra.
      + split.
        * intros H. assert (H' : first_gt Qo r u 0 = k) by lia. apply IH in H' as [H1 H2]; [|lia].
          split; [|exact H2]. intros [|j] Hj; simpl; [exact E|apply H1; lia].
        * intros [H1 H2]. cut (first_gt Qo r u 0 = k); [lia|]. apply IH; [lia|]. split; [|exact H2].
          intros j Hj. apply (H1 (S j)). lia.
  Qed.

  Lemma first_gt_none (cs : list Q) u :
    first_gt Qo cs u 0 = length cs -> forall j, (j < length cs)%nat -> nth j cs 0 <= u.
  Proof.
    induction cs as [|c r IH]; simpl; intros H j Hj; [lia|].
    destruct (klt Qo u c) eqn:E; [lia|]. apply klt_Q_false in E. rewrite first_gt_shift in H.
    destruct j as [|j]; [exact E|]. apply IH; lia.
  Qed.

  Lemma Qsum_nonneg l : Forall (fun p => 0 <= p) l -> 0 <= Qsum l.
  Proof. induction 1 as [|p l Hp Hl IH]; simpl; lra. Qed.

  Lemma Forall_firstn' {A} (P : A -> Prop) k l : Forall P l -> Forall P (firstn k l).
  Proof. intros H. revert k; induction H; intros [|k]; simpl; constructor; auto. Qed.

  Lemma cmass_mono ps j k :
    Forall (fun p => 0 <= p) ps -> (j <= k)%nat -> cmass ps j <= cmass ps k.
  Proof.
    unfold cmass. intros Hps. revert j k; induction Hps as [|p ps Hp Hps IH]; intros j k Hjk.
    - rewrite !firstn_nil. lra.
    - destruct j as [|j].
      + simpl firstn at 1. simpl Qsum at 1. apply Qsum_nonneg. apply Forall_firstn'. constructor; assumption.
      + destruct k as [|k]; [lia|]. simpl. specialize (IH j k ltac:(lia)). lra.
  Qed.

  Lemma cmass_all ps : cmass ps (length ps) == Qsum ps.
  Proof. unfold cmass. rewrite firstn_all. reflexivity. Qed.

  Lemma cmass_S ps k : (k < length ps)%nat -> cmass ps (S k) == cmass ps k + nth k ps 0.
  Proof.
    unfold cmass. revert k; induction ps as [|p ps IH]; intros k Hk; simpl in Hk; [lia|].
    destruct k as [|k]; [simpl; lra|]. specialize (IH k ltac:(lia)). simpl in *. lra.
  Qed.

  Lemma div_le a b t : 0 < t -> a <= b -> a / t <= b / t.
  Proof. intros Ht H. apply Qmult_le_compat_r; [assumption|]. apply Qinv_le_0_compat. lra. Qed.

  (* A list of CDF values that IS the normalised cumulative mass *)
  Definition is_cdf_of (ps cs : list Q) : Prop :=
    length cs = length ps /\
    forall j, (j < length ps)%nat -> nth j cs 0 == cmass ps (S j) / Qsum ps.

  (* the set of u in [0,1) sent to index k is exactly the interval
     [cmass k / total, cmass (k+1) / total), whose length is p_k / total *)
  Theorem inverse_cdf_interval ps cs u k :
    Forall (fun p => 0 <= p) ps -> 0 < Qsum ps -> is_cdf_of ps cs ->
    0 <= u -> (k < length ps)%nat ->
    (first_gt Qo cs u 0 = k <-> cmass ps k / Qsum ps <= u /\ u < cmass ps (S k) / Qsum ps).
  Proof.
    intros Hps Ht [Hl Hc] Hu Hk. rewrite first_gt_iff by lia. split.
    - intros [H1 H2]. split.
      + destruct k as [|k].
        * unfold cmass. simpl. unfold Qdiv. lra.
        * rewrite <- Hc by lia. apply H1. lia.
      + rewrite <- Hc by lia. exact H2.
    - intros [H1 H2]. split.
      + intros j Hj. rewrite Hc by lia. eapply Qle_trans; [|exact H1].
        apply div_le; [assumption|]. apply cmass_mono; [assumption|lia].
      + rewrite Hc by lia. exact H2.
  Qed.

  Lemma interval_length ps k :
    (k < length ps)%nat -> 0 < Qsum ps ->
    cmass ps (S k) / Qsum ps - cmass ps k / Qsum ps == nth k ps 0 / Qsum ps.
  Proof. intros Hk Ht. rewrite cmass_S by assumption. field. lra. Qed.

  (* every u in [0,1) is sent to some index: the scan never falls off the end *)
  Theorem inverse_cdf_total ps cs u :
    Forall (fun p => 0 <= p) ps -> 0 < Qsum ps -> is_cdf_of ps cs -> u < 1 ->
    (first_gt Qo cs u 0 < length ps)%nat.
  Proof.
    intros Hps Ht [Hl Hc] Hu.
    pose proof (first_gt_le Qo cs u) as Hle. rewrite Hl in Hle.
    destruct (Nat.eq_dec (first_gt Qo cs u 0) (length ps)) as [E|]; [|lia]. exfalso.
    rewrite <- Hl in E. pose proof (first_gt_none cs u E) as Hn. rewrite Hl in Hn.
    destruct (length ps) as [|n] eqn:En.
    - destruct ps; [|discriminate]. simpl in Ht. lra.
    - specialize (Hn n ltac:(lia)). rewrite Hc in Hn by lia. rewrite <- En, cmass_all in Hn.
      assert (Qsum ps / Qsum ps == 1) by (field; lra). lra.
  Qed.

  (* ---- the model's cumulative sums are the cumulative mass ---- *)
  Lemma cumsum_from_nth acc l k :
    (k < length l)%nat -> nth k (cumsum_from Qo acc l) 0 == acc + cmass l (S k).
  Proof.
    unfold cmass. revert acc k; induction l as [|p l IH]; intros acc k Hk; simpl in Hk; [lia|].
    destruct k as [|k].
    - simpl. lra.
    - change (nth (S k) (cumsum_from Qo acc (p :: l)) 0) with (nth k (cumsum_from Qo (acc + p) l) 0).
      rewrite IH by lia. simpl. lra.
  Qed.

  Lemma cumsum_from_last acc l : l <> [] -> last (cumsum_from Qo acc l) 0 == acc + Qsum l.
  Proof.
    revert acc; induction l as [|p l IH]; intros acc Hl; [congruence|].
    destruct l as [|q l].
    - simpl. lra.
    - change (last (cumsum_from Qo acc (p :: q :: l)) 0) with (last (cumsum_from Qo (acc + p) (q :: l)) 0).
      rewrite IH by discriminate. simpl. lra.
  Qed.

  Lemma ksum_Qsum l : ksum Qo l == Qsum l.
  Proof.
    unfold ksum. simpl k0. assert (G : forall acc, fold_left (kadd Qo) l acc == acc + Qsum l).
    { induction l as [|p l IH]; intros acc; simpl; [lra|]. rewrite IH. lra. }
    rewrite G. lra.
  Qed.

  Lemma nth_map_div (c : list Q) t j :
    (j < length c)%nat -> nth j (map (fun x => kdiv Qo x t) c) 0 = nth j c 0 * / t.
  Proof.
    intros Hj. transitivity (nth j (map (fun x => kdiv Qo x t) c) ((fun x => kdiv Qo x t) 0)).
    - apply nth_indep. rewrite map_length. assumption.
    - exact (map_nth (fun x => kdiv Qo x t) c 0 j).
  Qed.

  (* numpy: cdf = cumsum(p); cdf /= cdf[-1] *)
  Lemma np_cdf_is_cdf ps : 0 < Qsum ps -> is_cdf_of ps (np_cdf Qo ps).
  Proof.
    intros Ht. assert (Hne : ps <> []) by (intros ->; simpl in Ht; lra).
    unfold is_cdf_of, np_cdf. split.
    - rewrite map_length. apply cumsum_from_length.
    - intros j Hj. rewrite nth_map_div by (unfold cumsum; rewrite cumsum_from_length; assumption).
      unfold cumsum. rewrite cumsum_from_nth by assumption. rewrite cumsum_from_last by assumption.
      simpl k0. unfold Qdiv. assert (0 + Qsum ps == Qsum ps) as -> by lra.
      assert (0 + cmass ps (S j) == cmass ps (S j)) as -> by lra. reflexivity.
  Qed.

  (* Sampler._convert_to_continuous: running sum / sum(values) *)
  Lemma ctc_is_cdf (pd : @dist Q) :
    is_cdf_of (dvals pd) (map snd (convert_to_continuous Qo pd)) /\
    map fst (convert_to_continuous Qo pd) = dkeys pd.
  Proof.
    unfold convert_to_continuous.
    assert (Hlen : length (dkeys pd) = length (map (fun c => kdiv Qo c (ksum Qo (dvals pd))) (cumsum Qo (dvals pd)))).
    { unfold cumsum. rewrite map_length, cumsum_from_length. unfold dkeys, dvals. rewrite !map_length. reflexivity. }
    rewrite map_snd_combine, map_fst_combine by assumption. split; [|reflexivity].
    split.
    - unfold cumsum. rewrite map_length. apply cumsum_from_length.
    - intros j Hj. rewrite nth_map_div by (unfold cumsum; rewrite cumsum_from_length; assumption).
      unfold cumsum. rewrite cumsum_from_nth by assumption. rewrite ksum_Qsum.
      simpl k0. unfold Qdiv. assert (0 + cmass (dvals pd) (S j) == cmass (dvals pd) (S j)) as -> by lra. reflexivity.
  Qed.

  Definition valid_probs (ps : list Q) : Prop := Forall (fun p => 0 <= p) ps /\ 0 < Qsum ps.

  (* numpy Generator.choice *)
  Theorem inverse_cdf_choice ps u :
    valid_probs ps -> 0 <= u < 1 ->
    let k := first_gt Qo (np_cdf Qo ps) u 0 in
    (k < length ps)%nat /\
    forall j, (j < length ps)%nat ->
      (k = j <-> cmass ps j / Qsum ps <= u /\ u < cmass ps (S j) / Qsum ps).
  Proof.
    intros [Hp Ht] [Hu0 Hu1]. simpl. split.
    - apply inverse_cdf_total; auto using np_cdf_is_cdf.
    - intros j Hj. apply inverse_cdf_interval; auto using np_cdf_is_cdf.
  Qed.

  (* the python scan of Sampler.sample() *)
  Theorem inverse_cdf_scan (pd : @dist Q) u :
    valid_probs (dvals pd) -> 0 <= u < 1 ->
    exists k, (k < length pd)%nat /\
      scan_cd Qo (convert_to_continuous Qo pd) u None = nth_error (dkeys pd) k /\
      forall j, (j < length pd)%nat ->
        (k = j <-> cmass (dvals pd) j / Qsum (dvals pd) <= u /\ u < cmass (dvals pd) (S j) / Qsum (dvals pd)).
  Proof.
    intros [Hp Ht] [Hu0 Hu1]. destruct (ctc_is_cdf pd) as [Hc Hk].
    assert (Hlen : length (dvals pd) = length pd) by (unfold dvals; apply map_length).
    exists (first_gt Qo (map snd (convert_to_continuous Qo pd)) u 0).
    assert (Htot : (first_gt Qo (map snd (convert_to_continuous Qo pd)) u 0 < length pd)%nat).
    { rewrite <- Hlen. apply inverse_cdf_total; assumption. }
    split; [assumption|]. split.
    - rewrite scan_cd_first_gt; [rewrite Hk; reflexivity|].
      replace (length (convert_to_continuous Qo pd)) with (length pd); [assumption|].
      rewrite <- (map_length fst (convert_to_continuous Qo pd)), Hk. unfold dkeys. rewrite map_length. reflexivity.
    - intros j Hj. apply inverse_cdf_interval; auto. lia.
  Qed.
End InvCDF.

(* ====================================================================== *)
(* Sampler.sample() and heralds (finding N7); PostSelection meaning;       *)
(* instances used by the Examples                                          *)
(* ====================================================================== *)
Section SampleHeralds.
  Local Open Scope Q_scope.

  (* a perfect detector, a herald of 1 photon on mode 0, a two-entry
     distribution: u = 3/4 selects |0,0,2>, returned as is *)
  Definition n7_det : @detector Q := mkDet 1 0 true.
  Definition n7_heralds : hdict := [(0%nat, 1%Z)].
  Definition n7_dist : @dist Q := [([1; 1; 0]%Z, 1 # 2); ([0; 0; 2]%Z, 1 # 2)].

  Lemma sample_heralds_refuted :
    exists (d : @detector Q) (h : hdict) (pd : @dist Q) (us : list Q) (s : state) (rest : list Q),
      h <> [] /\ valid_probs (dvals pd) /\ Forall (fun u => 0 <= u < 1) us /\
      sampler_sample Qo d pd us = Ok (s, rest) /\
      herald_check h s = Ok false /\                   (* the herald is violated *)
      length s = length (fst (hd ([], 0) pd)).          (* and the herald mode is still there *)
  Proof.
    exists n7_det, n7_heralds, n7_dist, [3 # 4], [0; 0; 2]%Z, [].
    split; [discriminate|]. split.
    - split; [repeat constructor; discriminate|reflexivity].
    - split; [repeat constructor; discriminate|]. vm_compute. repeat split.
  Qed.
End SampleHeralds.

Section SamplePartial.
  Context {K : Type} (o : ops K).
  (* without heralds sample() is right: the detected version of a state of the distribution *)
  Lemma sample_heralds_partial (d : @detector K) (h : hdict) pd us s rest :
    h = [] ->
    sampler_sample o d pd us = Ok (s, rest) ->
    (exists s0 us1, In s0 (dkeys pd) /\ get_output o d s0 us1 = Ok (s, rest)) /\
    herald_check h s = Ok true /\ strip_heralds h s = Ok s.
  Proof.
    intros -> H. split; [eapply sampler_sample_spec; exact H|]. split; reflexivity.
  Qed.
End SamplePartial.

(* what a PostSelection object accepts *)
Lemma sum_modes_spec ms (s : state) t :
  sum_modes ms s = Ok t ->
  Forall (fun m => (m < length s)%nat) ms /\ t = fold_right (fun m acc => (nth m s 0 + acc)%Z) 0%Z ms.
Proof.
  revert t; induction ms as [|m ms IH]; intros t H; simpl in H.
  - injection H as <-. split; [constructor|reflexivity].
  - inv_bind H. inv_bind H. injection H as <-. apply st_getitem_nat in E as [Hlt <-].
    destruct (IH _ eq_refl) as [Hf ->]. split; [constructor; assumption|reflexivity].
Qed.

Lemma rules_validate_true rs s :
  rules_validate rs s = Ok true ->
  Forall (fun r => exists t, sum_modes (r_modes r) s = Ok t /\ In t (r_nph r)) rs.
Proof.
  induction rs as [|r rs IH]; simpl; intros H; [constructor|].
  inv_bind H. destruct b; [|discriminate]. constructor; [|apply IH; assumption].
  unfold rule_validate in E. inv_bind E. injection E as E. exists z. split; [reflexivity|].
  apply existsb_exists in E as (x & Hx & Ex). apply Z.eqb_eq in Ex. subst x. assumption.
Qed.

(* a failed PostSelection.add leaves the object unchanged; a successful one appends exactly one rule *)
Lemma ps_add_spec p modes nph q :
  ps_add p modes nph = Ok q ->
  Forall (fun v => 0 <= v)%Z modes /\ Forall (fun v => 0 <= v)%Z nph /\
  ps_rules q = ps_rules p ++ [mkRule (map Z.to_nat modes) nph] /\ ps_multi q = ps_multi p.
Proof.
  unfold ps_add. intros H.
  destruct (existsb (fun v => v <? 0)%Z modes) eqn:E1; [discriminate|].
  destruct (existsb (fun v => v <? 0)%Z nph) eqn:E2; [discriminate|].
  destruct (negb (ps_multi p) && _); [discriminate|]. injection H as <-. simpl.
  assert (G : forall l, existsb (fun v => v <? 0)%Z l = false -> Forall (fun v => 0 <= v)%Z l).
  { intros l El. apply Forall_forall. intros x Hx.
    destruct (x <? 0)%Z eqn:Ex; [|apply Z.ltb_ge in Ex; assumption].
    assert (existsb (fun v => v <? 0)%Z l = true) by (apply existsb_exists; exists x; auto). congruence. }
  auto.
Qed.

(* ---- the reals as an instance (shows det_valid is satisfiable with 0 < eta, p_dark < 1) ---- *)
From Coq Require Import Reals Lra RealField.

Definition Ro : ops R :=
  mkOps R 0%R 1%R Rplus Rmult Rminus Ropp Rinv (fun x => x)
        (fun a b => if Req_EM_T a b then true else false)
        (fun a b => if Rle_dec a b then true else false) IZR.

Global Instance R_star : StarRing Ro.
Proof. constructor; simpl; intros; try reflexivity. exact RTheory. Qed.

Lemma det_valid_R_example : det_valid (o:=Ro) (mkDet (1 / 2)%R (1 / 4)%R false).
Proof.
  unfold det_valid, klt. simpl. repeat split; intros H.
  - destruct (Rle_dec 1 (1 / 2)); [lra|discriminate].
  - destruct (Rle_dec (1 / 4) 0); [lra|discriminate].
  - destruct (Req_EM_T (1 / 2) 1); [lra|discriminate].
  - destruct (Req_EM_T (1 / 4) 0); [lra|discriminate].
Qed.

(* every detector the Detector setters accept (0 <= efficiency <= 1, 0 <= p_dark <= 1) is valid *)
Lemma det_valid_R (eta pd : R) pc :
  (0 <= eta <= 1)%R -> (0 <= pd <= 1)%R -> det_valid (o:=Ro) (mkDet eta pd pc).
Proof.
  intros He Hp. unfold det_valid, klt. simpl. repeat split; intros H.
  - destruct (Rle_dec 1 eta); [lra|discriminate].
  - destruct (Rle_dec pd 0); [lra|discriminate].
  - destruct (Req_EM_T eta 1); [assumption|discriminate].
  - destruct (Req_EM_T pd 0); [assumption|discriminate].
Qed.
